/-
C10 — XS libraries merge losslessly, order-independently, conflicts rejected (leaving the target
unchanged: NOT the case, see the witnesses); macroscopic data are number-density-weighted sums.

Model: ArmiVerif/Model/XsLib.lean (transcribes IsotxsLibrary.merge and its callees statement by
statement incl. the partial mutation on failure; computeMacroscopicGroupConstants and the
MacroscopicCrossSectionCreator over exact rationals).  Algebra + refinement lemmas:
ArmiVerif/Lemmas/XsLib.lean.  This file: the property theorems.

Continuation round (second half of the file): nuclide-order invariance and concatenation additivity of the computed
arrays; multiplier library; block-average chi; createMacrosFromMicros as a whole (`creator_spec`, dict / sort /
lookup semantics, linear / additive / zero defining sums); what a rejected merge can have touched
(`merge_failure_frame`, `merge_properties_frame`), well-formedness of every reachable target (`merge_keeps_WF`,
`mergeAll_WF`), the case where rejection IS atomic (`merge_failure_atomic_first_nuclide`); file-wide chi
(`Lib.mergeChi`: conservative extension `mergeChi_eq_merge`, `mergeChi_fissile_have_own_chi`); the theorems' domain as an
executable check (`WF_of_WFB`); the merge with rollback of the candidate fix (`mergeAtomic_rejected_unchanged`).
-/
import ArmiVerif.Model.XsLib
import ArmiVerif.Lemmas.XsLib
import Mathlib.Tactic.Ring
import Mathlib.Data.Rat.Defs

namespace ArmiVerif.XsLib

/-! ## macroscopic layer -/

/-- group `g` of a vector (0 beyond its length) -/
def at' (v : Vec) (g : Nat) : Rat := v.getD g 0

def sumR : List Rat → Rat
  | [] => 0
  | x :: xs => x + sumR xs

def Mult.at (g : Nat) : Mult → Rat
  | .one => 1
  | .scalar c => c
  | .vec v => at' v g
  | .none => 0

/-- contribution of one loop item to group `g` of the defining sum Σ_n N_n σ_n,g ν_n,g
(a missing nuclide or missing data contributes nothing) -/
def Entry.contrib (g : Nat) : Entry → Rat
  | .missing _ => 0
  | .present d micro mult => d * at' (micro.getD []) g * mult.at g

/-- the defining weighted sum -/
def specAt (g : Nat) (es : List Entry) : Rat := sumR (es.map (Entry.contrib g))

private theorem at_vadd : ∀ (a b : Vec) (g : Nat), a.length = b.length →
    at' (vadd a b) g = at' a g + at' b g := by
  intro a
  induction a with
  | nil => intro b g h; cases b <;> simp_all [at', vadd]
  | cons x xs ih =>
    intro b g h
    cases b with
    | nil => simp at h
    | cons y ys =>
      cases g with
      | zero => simp [at', vadd]
      | succ g =>
        have := ih ys g (by simpa using h)
        simpa [at', vadd] using this

private theorem at_vmul : ∀ (a b : Vec) (g : Nat), a.length = b.length →
    at' (vmul a b) g = at' a g * at' b g := by
  intro a
  induction a with
  | nil => intro b g h; cases b <;> simp_all [at', vmul]
  | cons x xs ih =>
    intro b g h
    cases b with
    | nil => simp at h
    | cons y ys =>
      cases g with
      | zero => simp [at', vmul]
      | succ g =>
        have := ih ys g (by simpa using h)
        simpa [at', vmul] using this

private theorem at_vscale (c : Rat) : ∀ (a : Vec) (g : Nat), at' (vscale c a) g = c * at' a g := by
  intro a
  induction a with
  | nil => intro g; simp [at', vscale]
  | cons x xs ih =>
    intro g
    cases g with
    | zero => simp [at', vscale]
    | succ g => have := ih g; simpa [at', vscale] using this

private theorem at_vzero (n g : Nat) : at' (vzero n) g = 0 := by
  induction n generalizing g with
  | zero => simp [at', vzero]
  | succ n ih =>
    cases g with
    | zero => simp [at', vzero, List.replicate_succ]
    | succ g => have := ih g; simpa [at', vzero, List.replicate_succ] using this

private theorem at_of_not_vany : ∀ (m : Vec) (g : Nat), vany m = false → at' m g = 0 := by
  intro m
  induction m with
  | nil => intro g _; simp [at']
  | cons x xs ih =>
    intro g h
    simp [vany] at h
    cases g with
    | zero => simp [at', h.1]
    | succ g =>
      have := ih g (by simp [vany]; exact h.2)
      simpa [at'] using this

private theorem len_vscale (c : Rat) (a : Vec) : (vscale c a).length = a.length := by simp [vscale]
private theorem len_vadd (a b : Vec) (h : a.length = b.length) : (vadd a b).length = a.length := by
  simp [vadd, List.length_zipWith, h]
private theorem len_vmul (a b : Vec) (h : a.length = b.length) : (vmul a b).length = a.length := by
  simp [vmul, List.length_zipWith, h]
private theorem len_vzero (n : Nat) : (vzero n).length = n := by simp [vzero]

/-- `term` is the product N·σ·ν group by group and keeps the length of σ -/
private theorem term_spec (d : Rat) (m : Vec) (mult : Mult) (t : Vec) (h : term d m mult = some t) :
    t.length = m.length ∧ ∀ g, at' t g = d * at' m g * mult.at g := by
  cases mult with
  | one =>
    simp [term] at h; subst h
    exact ⟨len_vscale _ _, fun g => by simp [at_vscale, Mult.at]⟩
  | scalar c =>
    simp [term] at h; subst h
    refine ⟨by simp [len_vscale], fun g => ?_⟩
    simp [at_vscale, Mult.at]; ring
  | vec v =>
    simp [term] at h
    obtain ⟨hl, rfl⟩ := h
    have hl' : (vscale d m).length = v.length := by simp [len_vscale, hl]
    refine ⟨by simp [len_vmul _ _ hl', len_vscale], fun g => ?_⟩
    rw [at_vmul _ _ g hl', at_vscale]; simp [Mult.at]
  | none => simp [term] at h


private theorem at_nil (g : Nat) : at' [] g = 0 := by simp [at']

private theorem at_effMicro (n : Nat) (micro : Option Vec) (g : Nat) :
    at' (effMicro n micro) g = at' (micro.getD []) g := by
  cases micro with
  | none => simp [effMicro, at_vzero, at_nil]
  | some m0 =>
    by_cases hc : m0.length ≠ n ∧ vany m0 = false
    · have h0 := at_of_not_vany m0 g hc.2
      simp [effMicro, hc, at_vzero, h0]
    · have hc' : ¬(¬m0.length = n ∧ vany m0 = false) := hc
      simp [effMicro, hc']

/-- one loop iteration adds the item's contribution -/
private theorem macroStep_spec (s s' : MacroState) (e : Entry) (h : macroStep s e = some s') :
    (∀ acc, s.1 = some acc → ∃ acc', s'.1 = some acc' ∧ acc'.length = acc.length ∧
        ∀ g, at' acc' g = at' acc g + e.contrib g) ∧
    (s.1 = none → (s'.1 = none ∧ ∀ g, e.contrib g = 0) ∨
        (∃ acc', s'.1 = some acc' ∧ ∀ g, at' acc' g = e.contrib g)) := by
  obtain ⟨a, sk⟩ := s
  cases e with
  | missing d =>
    have hs : s'.1 = a := by
      simp only [macroStep] at h
      split at h <;> simp at h <;> subst h <;> rfl
    constructor
    · intro acc hacc; simp at hacc; subst hacc
      exact ⟨acc, hs, rfl, fun g => by simp [Entry.contrib]⟩
    · intro hn; simp at hn; subst hn
      exact Or.inl ⟨hs, fun g => by simp [Entry.contrib]⟩
  | present d micro mult =>
    by_cases hd : d = 0
    · have hs : s'.1 = a := by
        unfold macroStep at h; simp [hd] at h; subst h; rfl
      constructor
      · intro acc hacc; simp at hacc; subst hacc
        exact ⟨acc, hs, rfl, fun g => by simp [Entry.contrib, hd]⟩
      · intro hn; simp at hn; subst hn
        exact Or.inl ⟨hs, fun g => by simp [Entry.contrib, hd]⟩
    · cases a with
      | none =>
        refine ⟨by intro acc hacc; simp at hacc, fun _ => Or.inr ?_⟩
        cases micro with
        | none => simp [macroStep, hd] at h
        | some m =>
          simp [macroStep, hd] at h
          obtain ⟨t, ht, rfl⟩ := h
          obtain ⟨hl, hg⟩ := term_spec d m mult t ht
          refine ⟨_, rfl, fun g => ?_⟩
          rw [at_vadd _ _ g (by simp [len_vzero, hl]), at_vzero, hg g]
          simp [Entry.contrib]
      | some acc =>
        refine ⟨?_, by intro hn; simp at hn⟩
        intro acc0 hacc; simp at hacc; subst hacc
        have key : ∀ (m t : Vec), m.length = acc.length → term d m mult = some t →
            (∀ g, at' m g = at' (micro.getD []) g) →
            (vadd acc t).length = acc.length ∧
              ∀ g, at' (vadd acc t) g = at' acc g + (Entry.present d micro mult).contrib g := by
          intro m t hlen ht hmg
          obtain ⟨hl, hg⟩ := term_spec d m mult t ht
          refine ⟨len_vadd _ _ (by simp [hl, hlen]), fun g => ?_⟩
          rw [at_vadd _ _ g (by simp [hl, hlen]), hg g, hmg g]
          simp [Entry.contrib]
        simp only [macroStep, hd, if_false] at h
        by_cases hlen : (effMicro acc.length micro).length ≠ acc.length
        · simp [hlen] at h
        · simp only [hlen, if_false] at h
          simp at h hlen
          obtain ⟨t, ht, rfl⟩ := h
          obtain ⟨k1, k2⟩ := key _ t hlen ht (at_effMicro _ _)
          exact ⟨_, rfl, k1, k2⟩

private theorem specAt_cons (g : Nat) (e : Entry) (es : List Entry) :
    specAt g (e :: es) = e.contrib g + specAt g es := by simp [specAt, sumR]

private theorem macroLoop_spec : ∀ (es : List Entry) (s s' : MacroState), macroLoop s es = some s' →
    (∀ acc, s.1 = some acc → ∃ acc', s'.1 = some acc' ∧ acc'.length = acc.length ∧
        ∀ g, at' acc' g = at' acc g + specAt g es) ∧
    (s.1 = none → (s'.1 = none ∧ ∀ g, specAt g es = 0) ∨
        (∃ acc', s'.1 = some acc' ∧ ∀ g, at' acc' g = specAt g es)) := by
  intro es
  induction es with
  | nil =>
    intro s s' h
    simp [macroLoop] at h; subst h
    exact ⟨fun acc hacc => ⟨acc, hacc, rfl, fun g => by simp [specAt, sumR]⟩,
      fun hn => Or.inl ⟨hn, fun g => by simp [specAt, sumR]⟩⟩
  | cons e es ih =>
    intro s s' h
    simp only [macroLoop] at h
    cases hstep : macroStep s e with
    | none => simp [hstep] at h
    | some s1 =>
      simp [hstep] at h
      obtain ⟨st1, st2⟩ := macroStep_spec s s1 e hstep
      obtain ⟨l1, l2⟩ := ih s1 s' h
      constructor
      · intro acc hacc
        obtain ⟨a1, ha1, hlen1, hg1⟩ := st1 acc hacc
        obtain ⟨a2, ha2, hlen2, hg2⟩ := l1 a1 ha1
        refine ⟨a2, ha2, by rw [hlen2, hlen1], fun g => ?_⟩
        rw [hg2 g, hg1 g, specAt_cons]; ring
      · intro hn
        rcases st2 hn with ⟨hn1, hz⟩ | ⟨a1, ha1, hg1⟩
        · rcases l2 hn1 with ⟨hn2, hz2⟩ | ⟨a2, ha2, hg2⟩
          · exact Or.inl ⟨hn2, fun g => by rw [specAt_cons, hz g, hz2 g]; ring⟩
          · exact Or.inr ⟨a2, ha2, fun g => by rw [specAt_cons, hz g, hg2 g]; ring⟩
        · obtain ⟨a2, ha2, _, hg2⟩ := l1 a1 ha1
          exact Or.inr ⟨a2, ha2, fun g => by rw [hg2 g, hg1 g, specAt_cons]⟩

/-- **Macroscopic group constants are the number-density-weighted sum of the microscopic ones**:
whenever `computeMacroscopicGroupConstants` returns an array, its group `g` is
`Σ_n N_n · σ_n,g · ν_n,g` over the items of the composition (for every group index). -/
theorem macro_is_weighted_sum (es : List Entry) (v : Vec) (h : macroXS es = some (some v)) :
    ∀ g, at' v g = specAt g es := by
  unfold macroXS at h
  cases hl : macroLoop (none, false) es with
  | none => simp [hl] at h
  | some s' =>
    obtain ⟨acc, sk⟩ := s'
    simp [hl] at h
    obtain ⟨_, rfl⟩ := h
    rcases (macroLoop_spec es _ _ hl).2 rfl with ⟨hn, _⟩ | ⟨a, ha, hg⟩
    · simp at hn
    · simp at ha; subst ha; exact hg

/-- when the function returns Python None instead of an array (no item contributed) the defining sum
is zero in every group: the value the property asks for is 0, the code hands back None
(known finding `macro-empty-composition-not-zero`). -/
theorem macro_none_sum_zero (es : List Entry) (h : macroXS es = some none) : ∀ g, specAt g es = 0 := by
  unfold macroXS at h
  cases hl : macroLoop (none, false) es with
  | none => simp [hl] at h
  | some s' =>
    obtain ⟨acc, sk⟩ := s'
    simp [hl] at h
    obtain ⟨_, rfl⟩ := h
    rcases (macroLoop_spec es _ _ hl).2 rfl with ⟨_, hz⟩ | ⟨a, ha, _⟩
    · exact hz
    · simp at ha

/-- the empty composition: `computeMacroscopicGroupConstants` returns None, not zeros
(negation witness of the clause "zero for an empty composition"; the defining sum IS zero). -/
theorem macro_empty_is_none : macroXS [] = some none := by rfl

theorem macro_empty_zero (g : Nat) : specAt g [] = 0 := by simp [specAt, sumR]

/-- additivity over nuclides: the sum over a concatenation of item lists is the sum of the sums -/
theorem macro_additive_spec (g : Nat) (es₁ es₂ : List Entry) :
    specAt g (es₁ ++ es₂) = specAt g es₁ + specAt g es₂ := by
  induction es₁ with
  | nil => simp [specAt, sumR]
  | cons e es ih => simp only [List.cons_append, specAt_cons, ih]; ring

/-- an item with its number density replaced -/
def Entry.withDens : Entry → Rat → Entry
  | .missing _, d => .missing d
  | .present _ m k, d => .present d m k

def Entry.dens : Entry → Rat
  | .missing d => d
  | .present d _ _ => d

/-- the items of a composition: the library side fixed (`lib`), the densities `ds` -/
def withDensities (lib : List Entry) (ds : List Rat) : List Entry := List.zipWith Entry.withDens lib ds

private theorem contrib_withDens (g : Nat) (e : Entry) (d : Rat) :
    (e.withDens d).contrib g = d * (e.withDens 1).contrib g := by
  cases e <;> simp [Entry.withDens, Entry.contrib]; ring

/-- **linear in the densities** (defining sum): scaling every density by `c` scales every group by `c` -/
theorem macro_linear_spec (g : Nat) (c : Rat) (lib : List Entry) (ds : List Rat) :
    specAt g (withDensities lib (ds.map (c * ·))) = c * specAt g (withDensities lib ds) := by
  induction lib generalizing ds with
  | nil => simp [withDensities, specAt, sumR]
  | cons e es ih =>
    cases ds with
    | nil => simp [withDensities, specAt, sumR]
    | cons d ds =>
      have := ih ds
      simp only [withDensities, List.map_cons, List.zipWith_cons_cons, specAt_cons] at this ⊢
      rw [this, contrib_withDens g e (c * d), contrib_withDens g e d]; ring

/-- **additive in the densities** (defining sum): composition a + b (density by density) -/
theorem macro_density_additive_spec (g : Nat) (lib : List Entry) (d₁ d₂ : List Rat)
    (hl : d₁.length = d₂.length) :
    specAt g (withDensities lib (List.zipWith (· + ·) d₁ d₂))
      = specAt g (withDensities lib d₁) + specAt g (withDensities lib d₂) := by
  induction lib generalizing d₁ d₂ with
  | nil => simp [withDensities, specAt, sumR]
  | cons e es ih =>
    cases d₁ with
    | nil => cases d₂ <;> simp_all [withDensities, specAt, sumR]
    | cons x xs =>
      cases d₂ with
      | nil => simp at hl
      | cons y ys =>
        have := ih xs ys (by simpa using hl)
        simp only [withDensities, List.zipWith_cons_cons, specAt_cons] at this ⊢
        rw [this, contrib_withDens g e (x + y), contrib_withDens g e x, contrib_withDens g e y]; ring

/-- **linearity of the computed arrays**: if the code returns arrays for a composition and for the
composition with every density scaled by `c`, the second is `c` times the first, group by group. -/
theorem macro_linear (c : Rat) (lib : List Entry) (ds : List Rat) (v v' : Vec)
    (h : macroXS (withDensities lib ds) = some (some v))
    (h' : macroXS (withDensities lib (ds.map (c * ·))) = some (some v')) :
    ∀ g, at' v' g = c * at' v g := by
  intro g
  rw [macro_is_weighted_sum _ _ h' g, macro_is_weighted_sum _ _ h g, macro_linear_spec]

/-- **additivity of the computed arrays** over compositions a, b and a + b on the same nuclides -/
theorem macro_additive (lib : List Entry) (d₁ d₂ : List Rat) (hl : d₁.length = d₂.length) (v₁ v₂ v : Vec)
    (h₁ : macroXS (withDensities lib d₁) = some (some v₁))
    (h₂ : macroXS (withDensities lib d₂) = some (some v₂))
    (h : macroXS (withDensities lib (List.zipWith (· + ·) d₁ d₂)) = some (some v)) :
    ∀ g, at' v g = at' v₁ g + at' v₂ g := by
  intro g
  rw [macro_is_weighted_sum _ _ h g, macro_is_weighted_sum _ _ h₁ g, macro_is_weighted_sum _ _ h₂ g,
    macro_density_additive_spec g lib d₁ d₂ hl]


private theorem macroStep_zero_dens (s : MacroState) (e : Entry) (h : e.dens = 0) : macroStep s e = some s := by
  cases e <;> simp_all [Entry.dens, macroStep]

/-- the item carries a non-zero number density -/
def Entry.nonzero (e : Entry) : Bool := decide (e.dens ≠ 0)

private theorem macroLoop_filter (es : List Entry) : ∀ s,
    macroLoop s (es.filter Entry.nonzero) = macroLoop s es := by
  induction es with
  | nil => intro s; rfl
  | cons e es ih =>
    intro s
    by_cases h : e.dens = 0
    · simp [Entry.nonzero, h, macroLoop, macroStep_zero_dens s e h]
      exact ih s
    · simp only [List.filter_cons, Entry.nonzero, h, ne_eq, not_false_eq_true, decide_true, if_true, macroLoop]
      cases macroStep s e with
      | none => rfl
      | some s1 => exact ih s1

/-- **nuclides with zero density are skipped** whether or not the library holds them:
dropping every zero-density item never changes the result (`if not numberDensity: continue`). -/
theorem missing_nuclide_skipped (es : List Entry) :
    macroXS (es.filter Entry.nonzero) = macroXS es := by
  simp only [macroXS, macroLoop_filter]

private theorem macroLoop_skipped : ∀ (es : List Entry) (s s' : MacroState), macroLoop s es = some s' →
    (s.2 = true → s'.2 = true) ∧ ((∃ d, Entry.missing d ∈ es ∧ d ≠ 0) → s'.2 = true) := by
  intro es
  induction es with
  | nil => intro s s' h; simp [macroLoop] at h; subst h; simp
  | cons e es ih =>
    intro s s' h
    simp only [macroLoop] at h
    cases hstep : macroStep s e with
    | none => simp [hstep] at h
    | some s1 =>
      simp [hstep] at h
      obtain ⟨i1, i2⟩ := ih s1 s' h
      have hmono : s.2 = true → s1.2 = true := by
        intro hs
        cases e with
        | missing d => by_cases hd : d = 0 <;> simp [macroStep, hd] at hstep <;> subst hstep <;> simp [hs]
        | present d micro mult =>
          by_cases hd : d = 0
          · simp [macroStep, hd] at hstep; subst hstep; exact hs
          · obtain ⟨a, sk⟩ := s
            simp at hs; subst hs
            cases a with
            | none =>
              cases micro with
              | none => simp [macroStep, hd] at hstep
              | some m => simp [macroStep, hd] at hstep; obtain ⟨t, _, rfl⟩ := hstep; rfl
            | some acc =>
              simp only [macroStep, hd, if_false] at hstep
              by_cases hlen : (effMicro acc.length micro).length ≠ acc.length
              · simp [hlen] at hstep
              · simp only [hlen, if_false] at hstep
                simp at hstep
                obtain ⟨t, _, rfl⟩ := hstep; rfl
      refine ⟨fun hs => i1 (hmono hs), ?_⟩
      rintro ⟨d, hmem, hd⟩
      rcases List.mem_cons.mp hmem with rfl | hmem
      · apply i1
        simp [macroStep, hd] at hstep; subst hstep; rfl
      · exact i2 ⟨d, hmem, hd⟩

/-- **a nuclide with non-zero density that the library lacks is refused** (the ValueError after the loop),
never silently left out of the sum. -/
theorem missing_nuclide_rejected (es : List Entry) (d : Rat) (hm : Entry.missing d ∈ es) (hd : d ≠ 0) :
    macroXS es = none := by
  unfold macroXS
  cases hl : macroLoop (none, false) es with
  | none => rfl
  | some s' =>
    obtain ⟨acc, sk⟩ := s'
    have := (macroLoop_skipped es _ _ hl).2 ⟨d, hm, hd⟩
    simp at this; simp [this]

/-! ### derived quantities -/

private theorem foldl_vadd_at (parts : List Vec) : ∀ (acc : Vec), (∀ p ∈ parts, p.length = acc.length) →
    ∀ g, at' (parts.foldl vadd acc) g = at' acc g + sumR (parts.map (fun p => at' p g)) := by
  induction parts with
  | nil => intro acc _ g; simp [sumR]
  | cons p ps ih =>
    intro acc hl g
    have hp : p.length = acc.length := hl p (by simp)
    have hl' : ∀ q ∈ ps, q.length = (vadd acc p).length := by
      intro q hq; rw [len_vadd _ _ hp.symm]; exact hl q (by simp [hq])
    simp only [List.foldl_cons, List.map_cons, sumR]
    rw [ih (vadd acc p) hl' g, at_vadd _ _ g hp.symm]; ring

/-- **absorption is the sum of its defining reactions**, group by group
(`_computeAbsorptionXS`: nGamma + fission + nalph + np + nd + nt + n2n) -/
theorem derived_absorption (ng : Nat) (parts : List Vec) (hl : ∀ p ∈ parts, p.length = ng) (g : Nat) :
    at' (absorption ng parts) g = sumR (parts.map (fun p => at' p g)) := by
  unfold absorption
  rw [foldl_vadd_at parts (vzero ng) (by simpa [len_vzero] using hl) g, at_vzero]; ring

/-- entry (i, j) of a matrix -/
def mat' (m : Mat) (i j : Nat) : Rat := at' (m.getD i []) j

private theorem mat_madd : ∀ (a b : Mat) (i j : Nat), a.length = b.length →
    (∀ k, (a.getD k []).length = (b.getD k []).length) →
    mat' (madd a b) i j = mat' a i j + mat' b i j := by
  intro a
  induction a with
  | nil => intro b i j h _; cases b <;> simp_all [mat', madd, at']
  | cons x xs ih =>
    intro b i j h hr
    cases b with
    | nil => simp at h
    | cons y ys =>
      cases i with
      | zero =>
        have := hr 0; simp at this
        simp [mat', madd, at_vadd _ _ j this]
      | succ i =>
        have := ih ys i j (by simpa using h) (fun k => by simpa using hr (k + 1))
        simpa [mat', madd] using this

private theorem mat_mscale (c : Rat) : ∀ (a : Mat) (i j : Nat), mat' (mscale c a) i j = c * mat' a i j := by
  intro a
  induction a with
  | nil => intro i j; simp [mat', mscale, at']
  | cons x xs ih =>
    intro i j
    cases i with
    | zero => simp [mat', mscale, at_vscale]
    | succ i => have := ih i j; simpa [mat', mscale] using this

/-- a matrix of the library's shape -/
def Mat.square (n : Nat) (m : Mat) : Prop := m.length = n ∧ ∀ r ∈ m, r.length = n

private theorem rows_getD {n : Nat} : ∀ (m : Mat) (k : Nat), (∀ r ∈ m, r.length = n) →
    (m.getD k []).length = if k < m.length then n else 0 := by
  intro m
  induction m with
  | nil => intro k _; simp
  | cons x xs ih =>
    intro k hr
    cases k with
    | zero => simp [hr x (by simp)]
    | succ k =>
      have := ih k (fun r h => hr r (by simp [h]))
      simpa using this

private theorem square_getD {n : Nat} {m : Mat} (h : Mat.square n m) (k : Nat) :
    (m.getD k []).length = if k < n then n else 0 := by
  rw [rows_getD m k h.2, h.1]

private theorem square_mscale {n : Nat} (c : Rat) {m : Mat} (h : Mat.square n m) : Mat.square n (mscale c m) := by
  obtain ⟨hl, hr⟩ := h
  refine ⟨by simp [mscale, hl], ?_⟩
  intro r hr'
  simp [mscale] at hr'
  obtain ⟨r0, h0, rfl⟩ := hr'
  simp [len_vscale, hr r0 h0]

private theorem square_madd {n : Nat} {a b : Mat} (ha : Mat.square n a) (hb : Mat.square n b) :
    Mat.square n (madd a b) := by
  obtain ⟨hla, hra⟩ := ha
  obtain ⟨hlb, hrb⟩ := hb
  refine ⟨by simp [madd, List.length_zipWith, hla, hlb], ?_⟩
  intro r hr
  simp only [madd] at hr
  obtain ⟨i, hi, rfl⟩ := List.mem_iff_getElem.mp hr
  simp only [List.length_zipWith] at hi
  simp only [List.getElem_zipWith]
  rw [len_vadd _ _ (by rw [hra _ (List.getElem_mem _), hrb _ (List.getElem_mem _)])]
  exact hra _ (List.getElem_mem _)

private theorem madd_at {n : Nat} {a b : Mat} (ha : Mat.square n a) (hb : Mat.square n b) (i j : Nat) :
    mat' (madd a b) i j = mat' a i j + mat' b i j :=
  mat_madd a b i j (by rw [ha.1, hb.1]) (fun k => by rw [square_getD ha, square_getD hb])

/-- **total scatter is its defining sum**: elastic + inelastic + 2·(n,2n), entry by entry -/
theorem derived_total_scatter (n : Nat) (el inel n2n : Mat)
    (h1 : Mat.square n el) (h2 : Mat.square n inel) (h3 : Mat.square n n2n) (i j : Nat) :
    mat' (totalScatter el inel n2n) i j = mat' el i j + mat' inel i j + 2 * mat' n2n i j := by
  unfold totalScatter
  rw [madd_at (square_madd h1 h2) (square_mscale 2 h3), madd_at h1 h2, mat_mscale]


private theorem at_vsub : ∀ (a b : Vec) (g : Nat), a.length = b.length →
    at' (vsub a b) g = at' a g - at' b g := by
  intro a
  induction a with
  | nil => intro b g h; cases b <;> simp_all [at', vsub]
  | cons x xs ih =>
    intro b g h
    cases b with
    | nil => simp at h
    | cons y ys =>
      cases g with
      | zero => simp [at', vsub]
      | succ g =>
        have := ih ys g (by simpa using h)
        simpa [at', vsub] using this

private theorem mat_mzero (n i j : Nat) : mat' (mzero n) i j = 0 := by
  unfold mat' mzero
  by_cases h : i < n
  · rw [List.getD_eq_getElem?_getD, List.getElem?_replicate]; simp [h, at_vzero]
  · rw [List.getD_eq_getElem?_getD, List.getElem?_replicate]; simp [h, at_nil]

private theorem square_mzero (n : Nat) : Mat.square n (mzero n) := by
  refine ⟨by simp [mzero], ?_⟩
  intro r hr
  simp [mzero] at hr
  rw [hr.2]; exact len_vzero n

/-- **macroscopic scatter matrices are number-density-weighted sums of the microscopic ones**, entry by
entry, over the library's nuclides of the suffix (a nuclide without that matrix contributes 0). -/
theorem macro_scatter_is_weighted_sum (ng : Nat) (items : List (Rat × Option Mat))
    (hs : ∀ it ∈ items, ∀ m, it.2 = some m → Mat.square ng m) (i j : Nat) :
    mat' (scatterMacro ng items) i j = sumR (items.map (fun it => it.1 * mat' (it.2.getD []) i j)) := by
  unfold scatterMacro
  have gen : ∀ (items : List (Rat × Option Mat)) (acc : Mat), Mat.square ng acc →
      (∀ it ∈ items, ∀ m, it.2 = some m → Mat.square ng m) →
      mat' (items.foldl scatterStep acc) i j
        = mat' acc i j + sumR (items.map (fun it => it.1 * mat' (it.2.getD []) i j)) := by
    intro items
    induction items with
    | nil => intro acc _ _; simp [sumR]
    | cons it its ih =>
      intro acc hacc hs
      obtain ⟨d, om⟩ := it
      simp only [List.foldl_cons, List.map_cons, sumR]
      cases om with
      | none =>
        have e : scatterStep acc (d, none) = acc := rfl
        rw [e, ih acc hacc (fun x hx => hs x (by simp [hx]))]
        simp [mat', at_nil]
      | some m =>
        have hm : Mat.square ng m := hs (d, some m) (by simp) m rfl
        have e : scatterStep acc (d, some m) = madd acc (mscale d m) := rfl
        rw [e, ih _ (square_madd hacc (square_mscale d hm)) (fun x hx => hs x (by simp [hx])),
          madd_at hacc (square_mscale d hm), mat_mscale]
        simp; ring
  rw [gen items (mzero ng) (square_mzero ng) hs, mat_mzero]; ring


/-- **energy deposition constants are J/eV times the density-weighted sum of the heating data** -/
theorem energy_deposition_is_weighted_sum (j : Rat) (es : List Entry) (v : Vec)
    (h : energyDeposition j es = some v) : ∀ g, at' v g = j * specAt g es := by
  intro g
  unfold energyDeposition at h
  cases hm : macroXS es with
  | none => simp [hm] at h
  | some o =>
    cases o with
    | none => simp [hm] at h
    | some w =>
      simp [hm] at h; subst h
      rw [at_vscale, macro_is_weighted_sum es w hm g]

private theorem captureFold_none (ws : List (List Entry)) : ws.foldl captureStep none = none := by
  induction ws with
  | nil => rfl
  | cons w ws ih => simpa [List.foldl_cons, captureStep] using ih

private theorem captureFold_spec : ∀ (ws : List (List Entry)) (a v : Vec),
    ws.foldl captureStep (some a) = some v →
    ∀ g, at' v g = at' a g + sumR (ws.map (specAt g)) := by
  intro ws
  induction ws with
  | nil => intro a v h g; simp at h; subst h; simp [sumR]
  | cons w ws ih =>
    intro a v h g
    simp only [List.foldl_cons] at h
    cases hm : macroXS w with
    | none => simp [captureStep, hm, captureFold_none] at h
    | some o =>
      cases o with
      | none => simp [captureStep, hm, captureFold_none] at h
      | some x =>
        by_cases hl : x.length = a.length
        · simp only [captureStep, hm, hl, if_true] at h
          rw [ih _ v h g, at_vadd _ _ g hl.symm, macro_is_weighted_sum w x hm g]
          simp [sumR]; ring
        · simp [captureStep, hm, hl, captureFold_none] at h

/-- **capture energy generation constants are the sum over the capture reactions of the
(ecapt-weighted) macroscopic constants** -/
theorem capture_energy_is_sum (plain : List Entry) (ws : List (List Entry)) (v : Vec)
    (h : captureEnergy plain ws = some v) : ∀ g, at' v g = sumR (ws.map (specAt g)) := by
  intro g
  unfold captureEnergy at h
  cases hm : macroXS plain with
  | none => simp [hm] at h
  | some o =>
    cases o with
    | none => simp [hm] at h
    | some v0 =>
      simp only [hm] at h
      rw [captureFold_spec ws _ v h g, at_vzero]; ring

private theorem len_foldl_vadd : ∀ (parts : List Vec) (acc : Vec), (∀ p ∈ parts, p.length = acc.length) →
    (parts.foldl vadd acc).length = acc.length := by
  intro parts
  induction parts with
  | nil => intro acc _; rfl
  | cons p ps ih =>
    intro acc hl
    have hp : p.length = acc.length := hl p (by simp)
    simp only [List.foldl_cons]
    rw [ih (vadd acc p) (fun q hq => by rw [len_vadd _ _ hp.symm]; exact hl q (by simp [hq])), len_vadd _ _ hp.symm]

private theorem at_range_map (n : Nat) (f : Nat → Rat) (g : Nat) :
    at' ((List.range n).map f) g = if g < n then f g else 0 := by
  unfold at'
  rw [List.getD_eq_getElem?_getD]
  by_cases h : g < n <;> simp [h]

/-- **removal is its defining sum**: absorption − (n,2n) + out-scatter (column sum of the total scatter
matrix minus its diagonal), group by group -/
theorem derived_removal (ng : Nat) (absorp n2n : Vec) (tot : Mat) (ha : absorp.length = ng) (hn : n2n.length = ng)
    (ht : Mat.square ng tot) (g : Nat) (hg : g < ng) :
    at' (removal ng absorp n2n tot) g
      = at' absorp g - at' n2n g + (sumR (tot.map (fun r => at' r g)) - mat' tot g g) := by
  unfold removal
  have l1 : (vsub absorp n2n).length = ng := by simp [vsub, List.length_zipWith, ha, hn]
  have l2 : (colSum ng tot).length = ng := by
    unfold colSum
    rw [len_foldl_vadd tot (vzero ng) (fun p hp => by rw [len_vzero]; exact ht.2 p hp), len_vzero]
  have l3 : (diag tot).length = ng := by simp [diag, ht.1]
  have l4 : (vsub (colSum ng tot) (diag tot)).length = ng := by simp [vsub, List.length_zipWith, l2, l3]
  rw [at_vadd _ _ g (by rw [l1, l4]), at_vsub _ _ g (by rw [ha, hn]), at_vsub _ _ g (by rw [l2, l3])]
  have c : at' (colSum ng tot) g = sumR (tot.map (fun r => at' r g)) := by
    unfold colSum
    rw [foldl_vadd_at tot (vzero ng) (fun p hp => by rw [len_vzero]; exact ht.2 p hp) g, at_vzero]; ring
  have d : at' (diag tot) g = mat' tot g g := by
    unfold diag
    rw [at_range_map, ht.1]; simp [hg, mat', at']
  rw [c, d]

/-! ### linearity, full form -/

def Entry.scale (c : Rat) : Entry → Entry
  | .missing d => .missing (c * d)
  | .present d m k => .present (c * d) m k

private theorem vscale_vadd (c : Rat) : ∀ (a b : Vec), vscale c (vadd a b) = vadd (vscale c a) (vscale c b) := by
  intro a
  induction a with
  | nil => intro b; simp [vadd, vscale]
  | cons x xs ih =>
    intro b
    cases b with
    | nil => simp [vadd, vscale]
    | cons y ys =>
      have := ih ys
      simp only [vadd, vscale, List.zipWith_cons_cons, List.map_cons] at this ⊢
      rw [this]; congr 1; ring

private theorem vscale_vscale (c d : Rat) (a : Vec) : vscale (c * d) a = vscale c (vscale d a) := by
  induction a with
  | nil => rfl
  | cons x xs ih =>
    simp only [vscale, List.map_cons] at ih ⊢
    rw [ih]; congr 1; ring

private theorem vscale_comm (c d : Rat) (a : Vec) : vscale c (vscale d a) = vscale d (vscale c a) := by
  rw [← vscale_vscale, ← vscale_vscale, mul_comm]

private theorem vmul_vscale (c : Rat) : ∀ (a v : Vec), vmul (vscale c a) v = vscale c (vmul a v) := by
  intro a
  induction a with
  | nil => intro v; simp [vmul, vscale]
  | cons x xs ih =>
    intro v
    cases v with
    | nil => simp [vmul, vscale]
    | cons y ys =>
      have := ih ys
      simp only [vmul, vscale, List.zipWith_cons_cons, List.map_cons] at this ⊢
      rw [this]; congr 1; ring

private theorem vscale_vzero (c : Rat) (n : Nat) : vscale c (vzero n) = vzero n := by
  simp [vscale, vzero]

private theorem term_scale (c d : Rat) (m : Vec) (k : Mult) :
    term (c * d) m k = (term d m k).map (vscale c) := by
  cases k with
  | one => simp [term, vscale_vscale]
  | scalar s => simp [term, vscale_vscale, vscale_comm c s]
  | vec v =>
    by_cases h : v.length = m.length
    · simp [term, h, vscale_vscale, vmul_vscale]
    · simp [term, h]
  | none => simp [term]

def scaleState (c : Rat) (s : MacroState) : MacroState := (s.1.map (vscale c), s.2)

private theorem macroStep_scale (c : Rat) (hc : c ≠ 0) (s : MacroState) (e : Entry) :
    macroStep (scaleState c s) (e.scale c) = (macroStep s e).map (scaleState c) := by
  obtain ⟨a, sk⟩ := s
  cases e with
  | missing d =>
    by_cases hd : d = 0
    · simp [Entry.scale, macroStep, hd, scaleState]
    · have : c * d ≠ 0 := mul_ne_zero hc hd
      simp [Entry.scale, macroStep, hd, this, scaleState]
  | present d micro mult =>
    by_cases hd : d = 0
    · simp [Entry.scale, macroStep, hd, scaleState]
    · have hcd : c * d ≠ 0 := mul_ne_zero hc hd
      cases a with
      | none =>
        cases micro with
        | none => simp [Entry.scale, macroStep, hd, hcd, scaleState]
        | some m =>
          simp only [Entry.scale, macroStep, hd, hcd, scaleState, if_false, Option.map_none, term_scale]
          cases term d m mult with
          | none => rfl
          | some t =>
            simp only [Option.map_some, scaleState]
            rw [vscale_vadd, vscale_vzero]
      | some acc =>
        have hl : (vscale c acc).length = acc.length := by simp [vscale]
        simp only [Entry.scale, macroStep, hd, hcd, scaleState, if_false, Option.map_some, hl, term_scale]
        by_cases hlen : (effMicro acc.length micro).length ≠ acc.length
        · simp [hlen]
        · simp only [hlen, if_false]
          cases term d (effMicro acc.length micro) mult with
          | none => rfl
          | some t =>
            simp only [Option.map_some, scaleState]
            rw [vscale_vadd]

private theorem macroLoop_scale (c : Rat) (hc : c ≠ 0) : ∀ (es : List Entry) (s : MacroState),
    macroLoop (scaleState c s) (es.map (Entry.scale c)) = (macroLoop s es).map (scaleState c) := by
  intro es
  induction es with
  | nil => intro s; rfl
  | cons e es ih =>
    intro s
    simp only [List.map_cons, macroLoop, macroStep_scale c hc]
    cases macroStep s e with
    | none => rfl
    | some s1 => simpa using ih s1

/-- **linearity, full form**: for `c ≠ 0`, scaling every number density by `c` changes neither acceptance
nor the None/array outcome, and scales the returned array by `c` (as vectors, not only group-wise). -/
theorem macro_scale (c : Rat) (hc : c ≠ 0) (es : List Entry) :
    macroXS (es.map (Entry.scale c)) = (macroXS es).map (Option.map (vscale c)) := by
  unfold macroXS
  have := macroLoop_scale c hc es (none, false)
  simp only [scaleState, Option.map_none] at this
  rw [this]
  cases macroLoop (none, false) es with
  | none => rfl
  | some s =>
    obtain ⟨a, sk⟩ := s
    cases sk <;> simp [scaleState]

theorem withDensities_scale (c : Rat) (lib : List Entry) (ds : List Rat) :
    withDensities lib (ds.map (c * ·)) = (withDensities lib ds).map (Entry.scale c) := by
  induction lib generalizing ds with
  | nil => simp [withDensities]
  | cons e es ih =>
    cases ds with
    | nil => simp [withDensities]
    | cons d ds =>
      have := ih ds
      simp only [withDensities, List.map_cons, List.zipWith_cons_cons] at this ⊢
      rw [this]
      cases e <;> simp [Entry.withDens, Entry.scale]

/-! ### non-vacuity of the macroscopic theorems -/

example : macroXS [.present (1/2) (some [1, 2, 3]) .one, .missing 0, .present 2 (some [0, 0]) (.scalar 3),
    .present 1 none .one] = some (some [1/2, 1, 3/2]) := by decide +kernel
example : macroXS [.present 1 (some [1, 2]) .one, .missing 3] = none := by decide +kernel
example : macroXS [.present 1 none .one] = none := by decide +kernel
example : macroXS (withDensities [.present 0 (some [1, 2]) (.vec [2, 2]), .present 0 (some [1, 0]) .one] [2, 4])
    = some (some [8, 8]) := by decide +kernel
example : macroXS (withDensities [.present 0 (some [1, 2]) (.vec [2, 2]), .present 0 (some [1, 0]) .one]
    ([2, 4].map ((3 : Rat) * ·))) = some (some [24, 24]) := by decide +kernel
example : energyDeposition (1/2) [.present 2 (some [1, 4]) .one] = some [1, 4] := by decide +kernel
example : removal 2 [1, 2] [1/2, 0] [[1, 2], [3, 4]] = [7/2, 4] := by decide +kernel
example : macroXS ([Entry.present 2 (some [1, 2]) .one, .missing 0].map (Entry.scale 3)) = some (some [6, 12]) := by
  decide +kernel
example : Mat.square 2 [[1, 2], [3, 4]] := ⟨by decide, by decide⟩
example : totalScatter [[1, 2], [3, 4]] [[1, 0], [0, 1]] [[0, 1], [0, 0]] = [[2, 4], [3, 5]] := by decide +kernel

/-! ## merging libraries -/

/-- The modelled domain of a library: non-empty file metadata holds an ordinary key, labels are unique
(the library is dict-backed), every nuclide has its five production/heating attributes. -/
def Lib.WF (l : Lib) : Prop :=
  l.isoMeta.good ∧ l.pmMeta.good ∧ l.gamMeta.good ∧ (Nucs.labels l.nucs).Nodup ∧
    ∀ lab n, Nucs.find l.nucs lab = some n → n.attrs.length = 5

/-- Same order-independent content (`libAlg.eqv`, spelled out by `contentEq_iff` / `nucContentEq_iff`). -/
def Lib.ContentEq (a b : Lib) : Prop := libAlg.eqv a b

theorem contentEq_iff (a b : Lib) : a.ContentEq b ↔
    a.ndcf.read = b.ndcf.read ∧ a.nEnergy.read = b.nEnergy.read ∧ True ∧
    a.gEnergy.read = b.gEnergy.read ∧ a.gdcf.read = b.gdcf.read ∧
    (a.isoMeta.ord = b.isoMeta.ord ∧ a.isoMeta.files.Perm b.isoMeta.files) ∧
    (a.pmMeta.ord = b.pmMeta.ord ∧ a.pmMeta.files.Perm b.pmMeta.files) ∧
    (a.gamMeta.ord = b.gamMeta.ord ∧ a.gamMeta.files.Perm b.gamMeta.files) ∧
    ∀ lab, nucAlg.opt.eqv (Nucs.find a.nucs lab) (Nucs.find b.nucs lab) := Iff.rfl

theorem nucContentEq_iff (x y : Nuc) : nucAlg.eqv x y ↔
    Meta.Eqv x.iso y.iso ∧ Meta.Eqv x.gam y.gam ∧ Meta.Eqv x.pm y.pm ∧
    x.micros = y.micros ∧ x.gamma = y.gamma ∧ x.attrs = y.attrs := Iff.rfl

private theorem wf_of_WF {l : Lib} (h : l.WF) : libAlg.wf l := by
  obtain ⟨a, b, c, d, e⟩ := h
  exact ⟨trivial, trivial, trivial, trivial, trivial, ⟨a, trivial, trivial⟩, ⟨b, trivial, trivial⟩,
    ⟨c, trivial, trivial⟩, d, fun lab n hn => ⟨trivial, trivial, trivial, trivial, trivial, e lab n hn⟩⟩

private theorem WF_of_wf {l : Lib} (h : libAlg.wf l) : l.WF := by
  obtain ⟨_, _, _, _, _, a, b, c, d, e⟩ := h
  exact ⟨a.1, b.1, c.1, d, fun lab n hn => (e lab n hn).2.2.2.2.2⟩

theorem Lib.empty_WF : Lib.empty.WF := by
  refine ⟨fun _ => rfl, fun _ => rfl, fun _ => rfl, by simp [Lib.empty, Nucs.labels], ?_⟩
  intro lab n h; simp [Lib.empty, Nucs.find] at h

private theorem merge_iff (t o : Lib) (wt : t.WF) (wo : o.WF) :
    ((Lib.merge t o).1 = true ↔ libAlg.compat t o) ∧
      ((Lib.merge t o).1 = true → (Lib.merge t o).2 = libAlg.join t o) := by
  refine ⟨⟨fun h => (Lib.merge_ok t o wo.2.2.2.1 h).1, fun h => ?_⟩, fun h => (Lib.merge_ok t o wo.2.2.2.1 h).2⟩
  rw [Lib.merge_of_compat t o wo.2.2.2.1 ⟨wt.1, wt.2.1, wt.2.2.1⟩ ⟨wo.1, wo.2.1, wo.2.2.1⟩ h]

private theorem mergeSeq_iff : ∀ (os : List Lib) (t : Lib), t.WF → (∀ o ∈ os, o.WF) →
    ((mergeSeq t os).2.1 = true ↔ seqCompat libAlg t os) ∧
      ((mergeSeq t os).2.1 = true → (mergeSeq t os).2.2 = seqJoin libAlg t os) := by
  intro os
  induction os with
  | nil => intro t _ _; simp [mergeSeq, seqCompat, seqJoin]
  | cons o os ih =>
    intro t wt wo
    have wo' := wo o (by simp)
    obtain ⟨m1, m2⟩ := merge_iff t o wt wo'
    by_cases hm : (Lib.merge t o).1 = true
    · have hc := m1.mp hm
      have ej := m2 hm
      have wj : (libAlg.join t o).WF := WF_of_wf (libAlg_laws.wf_join (wf_of_WF wt) (wf_of_WF wo') hc)
      obtain ⟨i1, i2⟩ := ih _ wj (fun x hx => wo x (by simp [hx]))
      simp only [mergeSeq, hm, if_true, ej, seqCompat, seqJoin]
      exact ⟨⟨fun h => ⟨hc, i1.mp h⟩, fun h => i1.mpr h.2⟩, i2⟩
    · have hnc : ¬ libAlg.compat t o := fun h => hm (m1.mpr h)
      simp [mergeSeq, hm, seqCompat, hnc]

/-- **Order independence of merging.**  For every target `t` and every two orders `l₁ ~ l₂` of the same
libraries (all in the modelled domain): the sequence `for o in l: t.merge(o)` is accepted in one order iff
it is accepted in the other (success itself is order-independent), and when accepted the two resulting
libraries have the same content (`Lib.ContentEq`). Any number of libraries, any permutation. -/
theorem merge_order_independent (t : Lib) (l₁ l₂ : List Lib) (hp : l₁.Perm l₂) (wt : t.WF)
    (wl : ∀ o ∈ l₁, o.WF) :
    ((mergeSeq t l₁).2.1 = true ↔ (mergeSeq t l₂).2.1 = true) ∧
    ((mergeSeq t l₁).2.1 = true → (mergeSeq t l₁).2.2.ContentEq (mergeSeq t l₂).2.2) := by
  have wl₂ : ∀ o ∈ l₂, o.WF := fun o ho => wl o (hp.mem_iff.mpr ho)
  obtain ⟨a1, a2⟩ := mergeSeq_iff l₁ t wt wl
  obtain ⟨b1, b2⟩ := mergeSeq_iff l₂ t wt wl₂
  have fwd : ∀ {l l' : List Lib}, l.Perm l' → (∀ o ∈ l, o.WF) → seqCompat libAlg t l →
      seqCompat libAlg t l' ∧ libAlg.eqv (seqJoin libAlg t l) (seqJoin libAlg t l') :=
    fun hp' w hc => seq_perm libAlg_laws hp' t t (wf_of_WF wt) (wf_of_WF wt) (fun o ho => wf_of_WF (w o ho))
      (libAlg_laws.refl t) hc
  refine ⟨⟨fun h => b1.mpr (fwd hp wl (a1.mp h)).1, fun h => a1.mpr (fwd hp.symm wl₂ (b1.mp h)).1⟩, fun h => ?_⟩
  have k := fwd hp wl (a1.mp h)
  have h2 : (mergeSeq t l₂).2.1 = true := b1.mpr k.1
  show libAlg.eqv _ _
  rw [a2 h, b2 h2]; exact k.2

/-- **Merging two libraries is commutative in content**: `a.merge(b)` is accepted iff `b.merge(a)` is,
and then `a` and `b` hold the same content. -/
theorem merge_comm_content (a b : Lib) (wa : a.WF) (wb : b.WF) :
    ((Lib.merge a b).1 = true ↔ (Lib.merge b a).1 = true) ∧
    ((Lib.merge a b).1 = true → (Lib.merge a b).2.ContentEq (Lib.merge b a).2) := by
  obtain ⟨m1, m2⟩ := merge_iff a b wa wb
  obtain ⟨n1, n2⟩ := merge_iff b a wb wa
  have c1 := @Alg.Laws.comm_compat _ _ libAlg_laws a b (wf_of_WF wa) (wf_of_WF wb)
  have c2 := @Alg.Laws.comm_compat _ _ libAlg_laws b a (wf_of_WF wb) (wf_of_WF wa)
  refine ⟨⟨fun h => n1.mpr (c1 (m1.mp h)), fun h => m1.mpr (c2 (n1.mp h))⟩, fun h => ?_⟩
  show libAlg.eqv _ _
  rw [m2 h, n2 (n1.mpr (c1 (m1.mp h)))]
  exact libAlg_laws.comm_join (wf_of_WF wa) (wf_of_WF wb) (m1.mp h)

private theorem assoc_of_laws {α : Type} {A : Alg α} (hA : A.Laws) {a b c : α} (wa : A.wf a) (wb : A.wf b)
    (wc : A.wf c) (h1 : A.compat a b) (h2 : A.compat (A.join a b) c) :
    A.compat b c ∧ A.compat a (A.join b c) ∧ A.eqv (A.join (A.join a b) c) (A.join a (A.join b c)) := by
  have hba := hA.comm_compat wa wb h1
  have e1 := hA.comm_join wa wb h1
  have wab := hA.wf_join wa wb h1
  have wba := hA.wf_join wb wa hba
  have h2' := hA.compat_congr wab wba wc e1 h2
  obtain ⟨s1, s2⟩ := hA.swap_compat wb wa wc hba h2'
  have wbc := hA.wf_join wb wc s1
  have k := hA.comm_compat wbc wa s2
  refine ⟨s1, k, ?_⟩
  exact hA.trans (hA.join_congr wab wba wc e1 h2)
    (hA.trans (hA.swap_join wb wa wc hba h2') (hA.comm_join wbc wa s2))

/-- **Merging is associative in content**: if `(a.merge(b)).merge(c)` is accepted then so are
`b.merge(c)` and `a.merge(b.merge(c))`, with the same content. -/
theorem merge_assoc_content (a b c : Lib) (wa : a.WF) (wb : b.WF) (wc : c.WF)
    (h1 : (Lib.merge a b).1 = true) (h2 : (Lib.merge (Lib.merge a b).2 c).1 = true) :
    (Lib.merge b c).1 = true ∧ (Lib.merge a (Lib.merge b c).2).1 = true ∧
      (Lib.merge (Lib.merge a b).2 c).2.ContentEq (Lib.merge a (Lib.merge b c).2).2 := by
  obtain ⟨m1, m2⟩ := merge_iff a b wa wb
  have cab := m1.mp h1
  have wab : (libAlg.join a b).WF := WF_of_wf (libAlg_laws.wf_join (wf_of_WF wa) (wf_of_WF wb) cab)
  rw [m2 h1] at h2 ⊢
  obtain ⟨p1, p2⟩ := merge_iff (libAlg.join a b) c wab wc
  obtain ⟨k1, k2, k3⟩ := assoc_of_laws libAlg_laws (wf_of_WF wa) (wf_of_WF wb) (wf_of_WF wc) cab (p1.mp h2)
  obtain ⟨q1, q2⟩ := merge_iff b c wb wc
  have hbc := q1.mpr k1
  have wbc : (libAlg.join b c).WF := WF_of_wf (libAlg_laws.wf_join (wf_of_WF wb) (wf_of_WF wc) k1)
  rw [q2 hbc]
  obtain ⟨r1, r2⟩ := merge_iff a (libAlg.join b c) wa wbc
  refine ⟨hbc, r1.mpr k2, ?_⟩
  show libAlg.eqv _ _
  rw [p2 h2, r2 (r1.mpr k2)]; exact k3

/-- **The merged library holds exactly the union of the nuclide labels**: the target's labels in their
order, then the other library's new labels in its order; no label twice. -/
theorem merge_keys_union (t o : Lib) (wt : t.WF) (wo : o.WF) (h : (Lib.merge t o).1 = true) :
    Nucs.labels (Lib.merge t o).2.nucs
        = Nucs.labels t.nucs ++ (Nucs.labels o.nucs).filter (fun l => decide (l ∉ Nucs.labels t.nucs)) ∧
    (∀ l, l ∈ Nucs.labels (Lib.merge t o).2.nucs ↔ l ∈ Nucs.labels t.nucs ∨ l ∈ Nucs.labels o.nucs) ∧
    (Nucs.labels (Lib.merge t o).2.nucs).Nodup := by
  obtain ⟨hc, ej⟩ := Lib.merge_ok t o wo.2.2.2.1 h
  have e : Nucs.labels (Lib.merge t o).2.nucs
      = Nucs.labels t.nucs ++ (Nucs.labels o.nucs).filter (fun l => decide (l ∉ Nucs.labels t.nucs)) := by
    rw [ej]; exact Nucs.labels_joinWith nucAlg o.nucs t.nucs wo.2.2.2.1
  refine ⟨e, fun l => ?_, ?_⟩
  · rw [e]; simp only [List.mem_append, List.mem_filter, decide_eq_true_eq]
    constructor
    · rintro (h | h)
      · exact Or.inl h
      · exact Or.inr h.1
    · rintro (h | h)
      · exact Or.inl h
      · by_cases hl : l ∈ Nucs.labels t.nucs
        · exact Or.inl hl
        · exact Or.inr ⟨h, hl⟩
  · have := WF_of_wf (libAlg_laws.wf_join (wf_of_WF wt) (wf_of_WF wo) hc)
    rw [ej]; exact this.2.2.2.1

/-- **Every nuclide of the merged library is its source's**: a label held by one library only keeps
that library's nuclide unchanged; a label held by both holds the field-wise join (see
`join_fields_identity`). -/
theorem merge_payload_identity (t o : Lib) (wo : o.WF) (h : (Lib.merge t o).1 = true) (lab : Label) :
    Nucs.find (Lib.merge t o).2.nucs lab =
      match Nucs.find t.nucs lab, Nucs.find o.nucs lab with
      | some x, some y => some (nucAlg.join x y)
      | some x, none => some x
      | none, y => y := by
  obtain ⟨_, ej⟩ := Lib.merge_ok t o wo.2.2.2.1 h
  have := Nucs.find_joinWith nucAlg o.nucs t.nucs wo.2.2.2.1 lab
  rw [ej, show (libAlg.join t o).nucs = Nucs.joinWith nucAlg t.nucs o.nucs from rfl, this]
  cases Nucs.find t.nucs lab <;> cases Nucs.find o.nucs lab <;> rfl

/-- in a join of two compatible nuclides every kind of data comes from the one side that has it, and
metadata held by both sides is the same on both. -/
theorem join_fields_identity (x y : Nuc) (h : nucAlg.compat x y) :
    ((x.micros = none ∧ (nucAlg.join x y).micros = y.micros) ∨
      (y.micros = none ∧ (nucAlg.join x y).micros = x.micros)) ∧
    ((x.gamma = none ∧ (nucAlg.join x y).gamma = y.gamma) ∨
      (y.gamma = none ∧ (nucAlg.join x y).gamma = x.gamma)) ∧
    ((x.iso = [] ∧ (nucAlg.join x y).iso = y.iso) ∨
      ((nucAlg.join x y).iso = x.iso ∧ (y.iso = [] ∨ Meta.Eqv x.iso y.iso))) ∧
    (nucAlg.join x y).attrs = joinAttrs x.attrs y.attrs ∧ compatAttrs x.attrs y.attrs := by
  obtain ⟨c1, _, _, c4, c5, c6⟩ := h
  change (x.iso = [] ∨ y.iso = [] ∨ Meta.Eqv x.iso y.iso) at c1
  change (x.micros = none ∨ y.micros = none) at c4
  change (x.gamma = none ∨ y.gamma = none) at c5
  refine ⟨?_, ?_, ?_, rfl, c6⟩
  · show (x.micros = none ∧ oor x.micros y.micros = y.micros) ∨ (y.micros = none ∧ oor x.micros y.micros = x.micros)
    rcases c4 with h | h
    · left; rw [h]; exact ⟨rfl, rfl⟩
    · right; rw [h]; refine ⟨rfl, ?_⟩; cases x.micros <;> rfl
  · show (x.gamma = none ∧ oor x.gamma y.gamma = y.gamma) ∨ (y.gamma = none ∧ oor x.gamma y.gamma = x.gamma)
    rcases c5 with h | h
    · left; rw [h]; exact ⟨rfl, rfl⟩
    · right; rw [h]; refine ⟨rfl, ?_⟩; cases x.gamma <;> rfl
  · show (x.iso = [] ∧ (if x.iso = [] then y.iso else x.iso) = y.iso) ∨
      ((if x.iso = [] then y.iso else x.iso) = x.iso ∧ (y.iso = [] ∨ Meta.Eqv x.iso y.iso))
    by_cases hx : x.iso = []
    · left; exact ⟨hx, by simp [hx]⟩
    · right
      refine ⟨by simp [hx], ?_⟩
      rcases c1 with h | h | h
      · exact absurd h hx
      · exact Or.inl h
      · exact Or.inr h

/-- **Conflicting inputs are rejected** (general form): whenever the two libraries are not compatible —
a write-once group-structure / dose property set differently, library metadata differing under an
ordinary key, or for some common label nuclide metadata differing / the same kind of data on both
sides — `merge` raises. -/
theorem merge_conflict_rejected (t o : Lib) (wo : o.WF) (h : ¬ libAlg.compat t o) : (Lib.merge t o).1 = false := by
  cases hm : (Lib.merge t o).1 with
  | false => rfl
  | true => exact absurd (Lib.merge_ok t o wo.2.2.2.1 hm).1 h

/-- different neutron group structures are rejected -/
theorem merge_conflict_group_structure (t o : Lib) (wo : o.WF) (c w : Val)
    (ht : t.nEnergy.read = some c) (ho : o.nEnergy.read = some w) (hne : c ≠ w) : (Lib.merge t o).1 = false := by
  apply merge_conflict_rejected t o wo
  intro hc
  exact hne (hc.2.1 c w ht ho)

/-- the same kind of data (here: neutron cross sections) for the same label from two sources is rejected -/
theorem merge_conflict_same_kind (t o : Lib) (wo : o.WF) (lab : Label) (x y : Nuc)
    (ht : Nucs.find t.nucs lab = some x) (ho : Nucs.find o.nucs lab = some y)
    (hx : x.micros ≠ none) (hy : y.micros ≠ none) : (Lib.merge t o).1 = false := by
  apply merge_conflict_rejected t o wo
  intro hc
  have : nucAlg.compat x y := hc.2.2.2.2.2.2.2.2 lab x y ht ho
  rcases this.2.2.2.1 with h | h
  · exact hx h
  · exact hy h

/-- the part of "rejected merges leave the target unchanged" that holds: a rejected merge never
reassigns the three metadata blocks ("only reassign metadata if successful"). -/
theorem merge_failure_keeps_metadata (t o : Lib) (h : (Lib.merge t o).1 = false) :
    (Lib.merge t o).2.isoMeta = t.isoMeta ∧ (Lib.merge t o).2.pmMeta = t.pmMeta ∧
      (Lib.merge t o).2.gamMeta = t.gamMeta := by
  have hp : (Lib.mergeProperties t o).2.isoMeta = t.isoMeta ∧ (Lib.mergeProperties t o).2.pmMeta = t.pmMeta ∧
      (Lib.mergeProperties t o).2.gamMeta = t.gamMeta := by
    simp only [Lib.mergeProperties]
    repeat' split
    all_goals simp
  unfold Lib.merge at h ⊢
  by_cases h0 : (Lib.mergeProperties t o).1 = true
  · simp only [h0, Bool.not_true, Bool.false_eq_true, if_false] at h ⊢
    repeat' split
    all_goals first
      | exact hp
      | (simp_all)
  · simp only [h0, Bool.not_false, if_true]; exact hp

/-- **`merge_failure_atomic_partial`** — atomic only in these cases: (1) the first write-once property
already conflicts; (2) the other library's properties add nothing and a metadata block conflicts.
(In general a rejected merge is NOT atomic: see the three witnesses below.) -/
theorem merge_failure_atomic_partial (t o : Lib) :
    (¬ propAlg.compat t.ndcf o.ndcf → Lib.merge t o = (false, t)) ∧
    (Lib.mergeProperties t o = (true, t) →
      (FileMeta.merge t.isoMeta o.isoMeta = none ∨ FileMeta.merge t.pmMeta o.pmMeta = none ∨
        FileMeta.merge t.gamMeta o.gamMeta = none) → Lib.merge t o = (false, t)) := by
  constructor
  · intro hc
    simp [Lib.merge, Lib.mergeProperties, prop_set_fail _ _ hc]
  · intro hp hm
    unfold Lib.merge
    simp only [hp, Bool.not_true, Bool.false_eq_true, if_false]
    rcases hm with h | h | h
    · simp [h]
    · cases FileMeta.merge t.isoMeta o.isoMeta <;> simp [h]
    · cases FileMeta.merge t.isoMeta o.isoMeta <;> cases FileMeta.merge t.pmMeta o.pmMeta <;> simp [h]

/-! ### negation witnesses: a rejected merge is not atomic (known findings) -/

private theorem good_of_key (a : FileMeta) (k : Key) (v : Val) (hk : k ∉ libSkip)
    (hg : Meta.get a.data k = some v) : a.good := by
  intro h
  have := congrFun h k
  simp [FileMeta.ord, hk, hg, KeyFn.bot] at this

private def nucIso (v : Val) : Nuc := ⟨[(5, 1)], [], [], some [some v], none, [none, none, none, none, none]⟩
private def nucGam (v : Val) : Nuc := ⟨[], [(5, 2)], [], none, some [some v], [none, none, none, none, none]⟩
private def libIso (nucs : Nucs) : Lib :=
  ⟨none, some (some 7), some (some 8), none, none, ⟨[(4, 3)], [1]⟩, ⟨[], []⟩, ⟨[], []⟩, nucs⟩

/-- F7 (`rejected-merge-keeps-earlier-nuclides`): the other library's second nuclide collides; its first
one has already been added to the target when the exception is raised. -/
theorem merge_failure_not_atomic_nuclides :
    ∃ t o : Lib, t.WF ∧ o.WF ∧ (Lib.merge t o).1 = false ∧
      Nucs.labels (Lib.merge t o).2.nucs ≠ Nucs.labels t.nucs :=
  ⟨libIso [(10, nucIso 1)], libIso [(20, nucIso 2), (10, nucIso 3)],
    ⟨good_of_key _ 4 3 (by decide) (by decide), fun _ => rfl, fun _ => rfl, by decide, by
      intro lab n h; simp only [libIso, Nucs.find] at h
      repeat' split at h
      all_goals first | (injection h with h; subst h; rfl) | (simp at h)⟩,
    ⟨good_of_key _ 4 3 (by decide) (by decide), fun _ => rfl, fun _ => rfl, by decide, by
      intro lab n h; simp only [libIso, Nucs.find] at h
      repeat' split at h
      all_goals first | (injection h with h; subst h; rfl) | (simp at h)⟩,
    by decide, by decide⟩

/-- `rejected-merge-keeps-earlier-properties`: the gamma group structures differ, but the neutron
energy bounds and the velocity have already been taken over by the target. -/
theorem merge_failure_not_atomic_properties :
    ∃ t o : Lib, (Lib.merge t o).1 = false ∧ (Lib.merge t o).2.nEnergy ≠ t.nEnergy :=
  ⟨⟨none, none, none, some (some 3), none, ⟨[], []⟩, ⟨[], []⟩, ⟨[], []⟩, []⟩,
   ⟨none, some (some 7), some (some 8), some (some 4), none, ⟨[], []⟩, ⟨[], []⟩, ⟨[], []⟩, []⟩,
   by decide, by decide⟩

/-- `rejected-merge-keeps-partial-nuclide-fields`: the other nuclide carries gamma data AND colliding
neutron data: the target nuclide has taken over the GAMISO metadata when `micros.merge` raises. -/
theorem merge_failure_not_atomic_nuclide_fields :
    ∃ x y : Nuc, (Nuc.merge x y).1 = false ∧ (Nuc.merge x y).2 ≠ x :=
  ⟨nucIso 1, { nucGam 2 with iso := [(5, 1)], micros := some [some 9] }, by decide, by decide⟩

/-! ### non-vacuity of the merge theorems -/

private def gA : Lib := libIso [(10, nucIso 1)]
private def gB : Lib := ⟨none, none, none, some (some 3), none, ⟨[], []⟩, ⟨[], []⟩, ⟨[(4, 9)], [2]⟩, [(10, nucGam 2), (11, nucGam 4)]⟩
private def gC : Lib := libIso [(30, nucIso 5)]

example : (mergeSeq Lib.empty [gA, gB, gC]).2.1 = true := by decide
example : (mergeSeq Lib.empty [gC, gB, gA]).2.1 = true := by decide
example : (Nucs.labels (mergeSeq Lib.empty [gA, gB, gC]).2.2.nucs) = [10, 11, 30] := by decide
example : (Nucs.labels (mergeSeq Lib.empty [gC, gB, gA]).2.2.nucs) = [30, 10, 11] := by decide
example : [gA, gB, gC].Perm [gC, gB, gA] :=
  (List.Perm.swap gB gA [gC]).trans ((List.Perm.cons gB (List.Perm.swap gC gA [])).trans (List.Perm.swap gC gB [gA]))
example : (Lib.merge gA gB).1 = true ∧ (Lib.merge gB gA).1 = true := by decide
example : (Lib.merge gA gA).1 = false := by decide

/-! ## continuation round: nuclide order, concatenation, multiplier library, block-average chi, the creator as a whole -/

private theorem sumR_perm {l₁ l₂ : List Rat} (h : l₁.Perm l₂) : sumR l₁ = sumR l₂ := by
  induction h with
  | nil => rfl
  | cons x _ ih => simp [sumR, ih]
  | swap x y l => simp only [sumR]; ring
  | trans _ _ ih₁ ih₂ => rw [ih₁, ih₂]

private theorem sumR_append (a b : List Rat) : sumR (a ++ b) = sumR a + sumR b := by
  induction a with
  | nil => simp [sumR]
  | cons x xs ih => simp only [List.cons_append, sumR, ih]; ring

/-- the defining sum does not depend on the order of the items -/
theorem specAt_perm (g : Nat) {es₁ es₂ : List Entry} (h : es₁.Perm es₂) : specAt g es₁ = specAt g es₂ :=
  sumR_perm (h.map _)

/-- **invariance under nuclide order**: whatever the order in which the items of a composition are visited,
the arrays the code returns agree group by group (the code sorts by name; nothing depends on that choice). -/
theorem macro_order_invariant {es₁ es₂ : List Entry} (hp : es₁.Perm es₂) (v₁ v₂ : Vec)
    (h₁ : macroXS es₁ = some (some v₁)) (h₂ : macroXS es₂ = some (some v₂)) : ∀ g, at' v₁ g = at' v₂ g := by
  intro g
  rw [macro_is_weighted_sum _ _ h₁ g, macro_is_weighted_sum _ _ h₂ g, specAt_perm g hp]

/-- **additivity over concatenation of nuclide lists** for the computed arrays -/
theorem macro_concat_additive (es₁ es₂ : List Entry) (v₁ v₂ v : Vec)
    (h₁ : macroXS es₁ = some (some v₁)) (h₂ : macroXS es₂ = some (some v₂))
    (h : macroXS (es₁ ++ es₂) = some (some v)) : ∀ g, at' v g = at' v₁ g + at' v₂ g := by
  intro g
  rw [macro_is_weighted_sum _ _ h g, macro_is_weighted_sum _ _ h₁ g, macro_is_weighted_sum _ _ h₂ g,
    macro_additive_spec]

/-- **with a multiplier library**: the result is the weighted sum over the items found in both libraries -/
theorem macro_mult_is_weighted_sum (es : List (Entry × Bool)) (v : Vec) (h : macroXSMult es = some (some v)) :
    ∀ g, at' v g = specAt g (dropMultMissing es) :=
  macro_is_weighted_sum _ _ h

/-- an item with non-zero density that `lib` lacks is refused whether or not `multLib` has it -/
theorem macro_mult_missing_rejected (es : List (Entry × Bool)) (d : Rat) (b : Bool)
    (hm : (Entry.missing d, b) ∈ es) (hd : d ≠ 0) : macroXSMult es = none := by
  apply missing_nuclide_rejected _ d _ hd
  unfold dropMultMissing
  exact List.mem_map.mpr ⟨(Entry.missing d, b), List.mem_filter.mpr ⟨hm, by simp [Entry.isMissing]⟩, rfl⟩

example : macroXSMult [(.present 1 (some [1, 2]) .one, true), (.present 1 (some [5, 5]) .one, false)]
    = some (some [1, 2]) := by decide +kernel
example : macroXS [.present 1 (some [1, 2]) .one, .present 2 (some [1, 0]) .one] = some (some [3, 2]) ∧
    macroXS [.present 2 (some [1, 0]) .one, .present 1 (some [1, 2]) .one] = some (some [3, 2]) := by decide +kernel

/-! ### block-average chi -/

/-- F_n = Σ_g ν_g σ_f,g of one item (N_n, χ_n, ν_n, σ_f,n) -/
def fisRate (it : Rat × Vec × Vec × Vec) : Rat := (vmul it.2.2.1 it.2.2.2).foldl (· + ·) 0

/-- Σ_n N_n F_n -/
def chiDen (items : List (Rat × Vec × Vec × Vec)) : Rat := sumR (items.map (fun it => it.1 * fisRate it))

private theorem foldl_add_sumR (items : List (Rat × Vec × Vec × Vec)) : ∀ a : Rat,
    items.foldl (fun acc it => acc + it.1 * fisRate it) a = a + chiDen items := by
  induction items with
  | nil => intro a; simp [chiDen, sumR]
  | cons it its ih =>
    intro a
    simp only [List.foldl_cons, ih, chiDen, List.map_cons, sumR]; ring

private theorem at_map_div (v : Vec) (d : Rat) (g : Nat) : at' (v.map (· / d)) g = at' v g / d := by
  induction v generalizing g with
  | nil => simp [at']
  | cons x xs ih =>
    cases g with
    | zero => simp [at']
    | succ g => have := ih g; simpa [at'] using this

private theorem blockChi_unfold (ng : Nat) (items : List (Rat × Vec × Vec × Vec)) :
    blockChi ng items =
      if chiDen items ≠ 0 then
        ((items.map (fun it => vscale (it.1 * fisRate it) it.2.1)).foldl vadd (vzero ng)).map (· / chiDen items)
      else vzero ng := by
  have hd : items.foldl (fun acc it => acc + it.1 * fisRate it) 0 = chiDen items := by
    rw [foldl_add_sumR]; ring
  unfold fisRate at hd
  unfold blockChi
  simp only [List.foldl_map]
  rw [hd]
  rfl

/-- **block-average chi is the fission-source-weighted average of the nuclide spectra**:
χ_g · Σ_n N_n F_n = Σ_n N_n F_n χ_n,g with F_n = Σ_g' ν_g' σ_f,g' (and zeros when no nuclide fissions). -/
theorem block_chi_is_weighted_average (ng : Nat) (items : List (Rat × Vec × Vec × Vec))
    (hl : ∀ it ∈ items, it.2.1.length = ng) (g : Nat) :
    (chiDen items ≠ 0 → at' (blockChi ng items) g * chiDen items
        = sumR (items.map (fun it => it.1 * fisRate it * at' it.2.1 g))) ∧
    (chiDen items = 0 → at' (blockChi ng items) g = 0) := by
  rw [blockChi_unfold]
  constructor
  · intro hd
    simp only [hd, ne_eq, not_false_eq_true, if_true]
    rw [at_map_div, foldl_vadd_at _ (vzero ng) (by
      intro p hp
      obtain ⟨it, hit, rfl⟩ := List.mem_map.mp hp
      rw [len_vscale, len_vzero]; exact hl it hit) g, at_vzero]
    rw [div_mul_cancel₀ _ hd, List.map_map]
    simp only [zero_add]
    congr 1
    apply List.map_congr_left
    intro it _
    simp [at_vscale]
  · intro hd
    simp [hd, at_vzero]

/-- block-average chi does not change when every number density is scaled by the same non-zero factor -/
theorem block_chi_scale_invariant (ng : Nat) (c : Rat) (hc : c ≠ 0) (items : List (Rat × Vec × Vec × Vec))
    (hl : ∀ it ∈ items, it.2.1.length = ng) (g : Nat) :
    at' (blockChi ng (items.map (fun it => (c * it.1, it.2)))) g = at' (blockChi ng items) g := by
  have hden : chiDen (items.map (fun it => (c * it.1, it.2))) = c * chiDen items := by
    unfold chiDen
    induction items with
    | nil => simp [sumR]
    | cons it its ih =>
      have := ih (fun x hx => hl x (by simp [hx]))
      simp only [List.map_cons, sumR, List.map_map] at this ⊢
      rw [this]; simp only [fisRate]; ring
  have hl' : ∀ it ∈ items.map (fun it => (c * it.1, it.2)), it.2.1.length = ng := by
    intro it hit
    obtain ⟨x, hx, rfl⟩ := List.mem_map.mp hit
    exact hl x hx
  obtain ⟨a1, a2⟩ := block_chi_is_weighted_average ng items hl g
  obtain ⟨b1, b2⟩ := block_chi_is_weighted_average ng _ hl' g
  by_cases hd : chiDen items = 0
  · rw [a2 hd, b2 (by rw [hden, hd]; ring)]
  · have hd' : chiDen (items.map (fun it => (c * it.1, it.2))) ≠ 0 := by rw [hden]; exact mul_ne_zero hc hd
    have e1 := a1 hd
    have e2 := b1 hd'
    have hs : sumR ((items.map (fun it => (c * it.1, it.2))).map (fun it => it.1 * fisRate it * at' it.2.1 g))
        = c * sumR (items.map (fun it => it.1 * fisRate it * at' it.2.1 g)) := by
      clear e1 e2 a1 a2 b1 b2 hl' hden hd hd' hl
      induction items with
      | nil => simp [sumR]
      | cons it its ih =>
        simp only [List.map_cons, sumR, List.map_map] at ih ⊢
        rw [ih]; simp only [fisRate]; ring
    rw [hs, hden, ← e1] at e2
    have : at' (blockChi ng (items.map (fun it => (c * it.1, it.2)))) g * (c * chiDen items)
        = at' (blockChi ng items) g * (c * chiDen items) := by rw [e2]; ring
    exact mul_right_cancel₀ (mul_ne_zero hc hd) this

example : blockChi 2 [(2, [1/2, 1/2], [2, 2], [1, 0]), (1, [1, 0], [1, 1], [1, 1])] = [2/3, 1/3] := by decide +kernel
example : blockChi 2 [(0, [1/2, 1/2], [2, 2], [1, 0])] = [0, 0] := by decide +kernel

/-! ### the creator as a whole (`createMacrosFromMicros`) -/

private theorem allSome_spec {β : Type} : ∀ (l : List (Option β)) (r : List β), allSome l = some r → l = r.map some := by
  intro l
  induction l with
  | nil => intro r h; simp [allSome] at h; subst h; rfl
  | cons x xs ih =>
    intro r h
    cases x with
    | none => simp [allSome] at h
    | some a =>
      simp [allSome] at h
      obtain ⟨r', hr', rfl⟩ := h
      simp [ih r' hr']

private theorem needVec_spec (ng : Nat) (x : Option (Option Vec)) (v : Vec) (h : needVec ng x = some v) :
    x = some (some v) ∧ v.length = ng := by
  unfold needVec at h
  split at h
  · split at h
    · injection h with h; subst h; exact ⟨rfl, by assumption⟩
    · simp at h
  · simp at h

private theorem basics_map (ng : Nat) (lib : List (Nat × MNuc)) (dens : List (Nat × Rat)) (g : Nat) :
    ∀ (l : List Nat) (basics : List Vec),
    l.map (fun i => needVec ng (macroXS (entriesOf lib i false dens))) = basics.map some →
    basics.map (fun p => at' p g) = l.map (fun i => specAt g (entriesOf lib i false dens)) ∧
      ∀ p ∈ basics, p.length = ng := by
  intro l
  induction l with
  | nil => intro basics h; cases basics <;> simp_all
  | cons i is ih =>
    intro basics h
    cases basics with
    | nil => simp at h
    | cons v vs =>
      simp only [List.map_cons, List.cons.injEq] at h
      obtain ⟨hv, hrest⟩ := h
      obtain ⟨e, hl⟩ := needVec_spec _ _ _ hv
      obtain ⟨i1, i2⟩ := ih vs hrest
      refine ⟨?_, ?_⟩
      · simp only [List.map_cons, i1, macro_is_weighted_sum _ _ e g]
      · intro p hp
        rcases List.mem_cons.mp hp with rfl | hp
        · exact hl
        · exact i2 p hp

/-- the effective composition of the creator: the sorted items of `dict(filter(> minDens, zip(nucNames, dens)))` -/
def effComposition (minD : Rat) (items : List (Nat × Rat)) : List (Nat × Rat) := sortedItems (mkDensities minD items)

/-- **The macroscopic set built by `createMacrosFromMicros` is, reaction by reaction, the density-weighted sum over
the block's effective composition, and its derived quantities are their defining sums**: every basic reaction i
(nGamma, nalph, np, nd, nt, fission, n2n) is Σ_n N_n σ_i,n; ν·Σ_f is Σ_n N_n ν_n σ_f,n; absorption is the sum of the
seven reactions, hence Σ_n N_n Σ_i σ_i,n; total scatter and removal are `totalScatter` / `removal` of the returned
parts (see `derived_total_scatter`, `derived_removal`, `macro_scatter_is_weighted_sum`). -/
theorem creator_spec (ng : Nat) (minD : Rat) (b : Bool) (items : List (Nat × Rat)) (lib : List (Nat × MNuc))
    (out : COut) (h : creator ng minD b items lib = some out) :
    out.basics.length = 7 ∧
    (∀ i, i < 7 → (out.basics.getD i []).length = ng ∧
      ∀ g, at' (out.basics.getD i []) g = specAt g (entriesOf lib i false (effComposition minD items))) ∧
    (∀ g, at' out.nuSigF g = specAt g (entriesOf lib 5 true (effComposition minD items))) ∧
    (∀ g, at' out.absorption g
      = sumR ((List.range 7).map (fun i => specAt g (entriesOf lib i false (effComposition minD items))))) ∧
    out.totalScatter = totalScatter out.el out.inel out.n2nS ∧
    out.removal = removal ng out.absorption (out.basics.getD 6 []) out.totalScatter ∧
    (b = true → out.el = scatterMacro ng (lib.map (fun p => (dictGet (mkDensities minD items) p.1 0, p.2.el)))) := by
  unfold creator at h
  simp only at h
  split at h
  · rename_i nuSigF basics total transport h1 h2 h3 h4
    injection h with h; subst h
    have hb := allSome_spec _ _ h2
    obtain ⟨e1, _⟩ := needVec_spec _ _ _ h1
    have hlen : basics.length = 7 := by
      have := congrArg List.length hb
      simpa using this.symm
    refine ⟨hlen, ?_, ?_, ?_, rfl, rfl, ?_⟩
    · intro i hi
      have hi' : i < basics.length := by omega
      have := congrArg (fun l => l[i]?) hb
      simp only [List.getElem?_map, List.getElem?_range hi, Option.map_some,
        List.getElem?_eq_getElem hi'] at this
      injection this with this
      obtain ⟨e, hl⟩ := needVec_spec _ _ _ this
      have hg : basics.getD i [] = basics[i] := by simp [List.getD, List.getElem?_eq_getElem hi']
      simp only [hg]
      exact ⟨hl, fun g => macro_is_weighted_sum _ _ e g⟩
    · intro g; exact macro_is_weighted_sum _ _ e1 g
    · intro g
      obtain ⟨m1, m2⟩ := basics_map ng lib _ g _ basics hb
      show at' (absorption ng basics) g = _
      rw [derived_absorption ng basics m2 g, m1]
      rfl
    · intro hb'; simp [hb']
  · simp at h

private theorem insertItem_perm (p : Nat × Rat) : ∀ l, (insertItem p l).Perm (p :: l) := by
  intro l
  induction l with
  | nil => exact List.Perm.refl _
  | cons q qs ih =>
    by_cases h : p.1 ≤ q.1
    · simp [insertItem, h]
    · simp only [insertItem, h, if_false]
      exact (List.Perm.cons q ih).trans (List.Perm.swap p q qs)

theorem sortedItems_perm (d : List (Nat × Rat)) : (sortedItems d).Perm d := by
  induction d with
  | nil => exact List.Perm.refl _
  | cons p ps ih => exact (insertItem_perm p _).trans (List.Perm.cons p ih)

/-- sorting the composition by name (`sorted(numberDensities.items())`) has no influence on any defining sum -/
theorem creator_sort_irrelevant (g : Nat) (lib : List (Nat × MNuc)) (i : Nat) (w : Bool) (d : List (Nat × Rat)) :
    specAt g (entriesOf lib i w (sortedItems d)) = specAt g (entriesOf lib i w d) := by
  apply specAt_perm
  unfold entriesOf
  exact (sortedItems_perm d).map _

private theorem dictGet_dictSet (d : List (Nat × Rat)) (k : Nat) (v : Rat) (k' : Nat) (dflt : Rat) :
    dictGet (dictSet d k v) k' dflt = if k = k' then v else dictGet d k' dflt := by
  induction d with
  | nil => simp [dictSet, dictGet]
  | cons p ps ih =>
    obtain ⟨a, b⟩ := p
    by_cases h : a = k
    · subst h; by_cases h' : a = k' <;> simp [dictSet, dictGet, h']
    · by_cases h' : a = k'
      · subst h'; simp [dictSet, dictGet, h]; intro hk; exact absurd hk.symm h
      · simp [dictSet, dictGet, h, h', ih]

private theorem dictGet_foldl (l : List (Nat × Rat)) : ∀ (d : List (Nat × Rat)) (k : Nat) (dflt : Rat),
    dictGet (l.foldl (fun d p => dictSet d p.1 p.2) d) k dflt
      = match l.reverse.find? (fun p => p.1 = k) with
        | some p => p.2
        | none => dictGet d k dflt := by
  induction l with
  | nil => intro d k dflt; simp
  | cons p ps ih =>
    intro d k dflt
    simp only [List.foldl_cons, ih, List.reverse_cons, List.find?_append]
    cases hf : ps.reverse.find? (fun p => decide (p.1 = k)) with
    | some q => simp
    | none =>
      by_cases hk : p.1 = k
      · simp [hk, dictGet_dictSet]
      · simp [hk, dictGet_dictSet]

/-- **the density a nuclide enters the macroscopic sums with** is that of the LAST entry of `nucNames` carrying its
name whose density exceeds `minimumNuclideDensity`, and 0 if there is none (Python dict semantics). -/
theorem mkDensities_get (minD : Rat) (items : List (Nat × Rat)) (k : Nat) :
    dictGet (mkDensities minD items) k 0
      = match (items.filter (fun p => decide (p.2 > minD))).reverse.find? (fun p => p.1 = k) with
        | some p => p.2
        | none => 0 := by
  unfold mkDensities
  rw [dictGet_foldl]
  rfl

private def mn (a b : Vec) (nu : Vec) (m : Option Mat) : MNuc :=
  ⟨[some a, some [0, 0], some [0, 0], some [0, 0], some [0, 0], some b, some [0, 0], some [1, 1], some [2, 2]], some nu, m, none, none⟩

example : (creator 2 0 true [(3, 1/2), (1, 2), (3, 1)] [(1, mn [1, 1] [1, 2] [2, 2] (some [[1, 1], [0, 1]])),
    (3, mn [1, 0] [0, 0] [0, 0] none)]).map (fun o => (o.absorption, o.removal, o.nuSigF))
    = some ([5, 6], [5, 8], [4, 8]) := by decide +kernel
example : creator 2 0 true [(1, 0)] [(1, mn [1, 1] [1, 2] [2, 2] none)] = none := by decide +kernel
example : creator 2 0 true [(1, 1), (7, 1)] [(1, mn [1, 1] [1, 2] [2, 2] none)] = none := by decide +kernel
example : dictGet (mkDensities (1/4) [(3, 1/2), (1, 2), (3, 1), (1, 1/8)]) 3 0 = 1 ∧
    dictGet (mkDensities (1/4) [(3, 1/2), (1, 2), (3, 1), (1, 1/8)]) 1 0 = 2 := by decide +kernel

/-! ## continuation round: merging after a rejected merge -/

private theorem mergeAttrs_length : ∀ (a b : List (Option Val)), (mergeAttrs a b).2.length = a.length := by
  intro a
  induction a with
  | nil => intro b; cases b <;> simp [mergeAttrs]
  | cons x xs ih =>
    intro b
    cases b with
    | nil => simp [mergeAttrs]
    | cons y ys =>
      cases x <;> cases y <;> simp [mergeAttrs, ih]

private theorem Nuc.merge_attrs_length (t o : Nuc) : (Nuc.merge t o).2.attrs.length = t.attrs.length := by
  unfold Nuc.merge
  split
  · rfl
  · simp only []
    split
    · rfl
    · split
      · rfl
      · split
        · rfl
        · split
          · rfl
          · simp [mergeAttrs_length]

/-- labels unique and five production / heating attributes on every nuclide (membership form) -/
private def InvN (m : Nucs) : Prop := (Nucs.labels m).Nodup ∧ ∀ p ∈ m, p.2.attrs.length = 5

private theorem find_mem : ∀ (m : Nucs) (l : Label) (n : Nuc), Nucs.find m l = some n → (l, n) ∈ m := by
  intro m
  induction m with
  | nil => intro l n h; simp [Nucs.find] at h
  | cons p ps ih =>
    intro l n h
    obtain ⟨a, b⟩ := p
    by_cases hk : a = l
    · simp [Nucs.find, hk] at h; subst h; subst hk; simp
    · simp [Nucs.find, hk] at h; exact List.mem_cons_of_mem _ (ih l n h)

private theorem mem_find_of_nodup : ∀ (m : Nucs), (Nucs.labels m).Nodup → ∀ p ∈ m, Nucs.find m p.1 = some p.2 := by
  intro m
  induction m with
  | nil => intro _ p hp; simp at hp
  | cons q qs ih =>
    intro hnd p hp
    obtain ⟨a, b⟩ := q
    simp only [Nucs.labels, List.map_cons, List.nodup_cons] at hnd
    rcases List.mem_cons.mp hp with rfl | hp
    · simp [Nucs.find]
    · have hne : a ≠ p.1 := by
        intro e; apply hnd.1; rw [e]; exact List.mem_map.mpr ⟨p, hp, rfl⟩
      simp only [Nucs.find, hne, if_false]
      exact ih hnd.2 p hp

private theorem mem_replace : ∀ (m : Nucs) (l : Label) (x : Nuc) (p : Label × Nuc),
    p ∈ Nucs.replace m l x → p ∈ m ∨ p = (l, x) := by
  intro m
  induction m with
  | nil => intro l x p h; simp [Nucs.replace] at h
  | cons q qs ih =>
    intro l x p h
    obtain ⟨a, b⟩ := q
    by_cases hk : a = l
    · simp only [Nucs.replace, hk, if_true] at h
      rcases List.mem_cons.mp h with rfl | h
      · exact Or.inr rfl
      · exact Or.inl (List.mem_cons_of_mem _ h)
    · simp only [Nucs.replace, hk, if_false] at h
      rcases List.mem_cons.mp h with rfl | h
      · exact Or.inl (by simp)
      · rcases ih l x p h with h | h
        · exact Or.inl (List.mem_cons_of_mem _ h)
        · exact Or.inr h

private theorem mergeNucs_inv : ∀ (o t : Nucs), InvN t → (∀ p ∈ o, p.2.attrs.length = 5) → InvN (mergeNucs t o).2 := by
  intro o
  induction o with
  | nil => intro t ht _; simpa [mergeNucs] using ht
  | cons q rest ih =>
    intro t ht ho
    obtain ⟨l, n⟩ := q
    have ho' : ∀ p ∈ rest, p.2.attrs.length = 5 := fun p hp => ho p (List.mem_cons_of_mem _ hp)
    cases hf : Nucs.find t l with
    | some tn =>
      have hrep : InvN (Nucs.replace t l (Nuc.merge tn n).2) := by
        refine ⟨by rw [Nucs.labels_replace]; exact ht.1, ?_⟩
        intro p hp
        rcases mem_replace _ _ _ _ hp with hp | rfl
        · exact ht.2 p hp
        · show (Nuc.merge tn n).2.attrs.length = 5
          rw [Nuc.merge_attrs_length]; exact ht.2 (l, tn) (find_mem _ _ _ hf)
      by_cases hr : (Nuc.merge tn n).1 = true
      · simp only [mergeNucs, hf, hr, if_true]; exact ih _ hrep ho'
      · simp only [mergeNucs, hf, hr]; exact hrep
    | none =>
      have happ : InvN (t ++ [(l, n)]) := by
        refine ⟨?_, ?_⟩
        · have hnl : l ∉ Nucs.labels t := (Nucs.find_none_iff t l).mp hf
          simp only [Nucs.labels, List.map_append, List.map_cons, List.map_nil]
          rw [List.nodup_append]
          refine ⟨ht.1, by simp, ?_⟩
          intro a ha b hb
          simp at hb; subst hb
          intro e; subst e; exact hnl ha
        · intro p hp
          rcases List.mem_append.mp hp with hp | hp
          · exact ht.2 p hp
          · simp at hp; subst hp; exact ho (l, n) (by simp)
      simp only [mergeNucs, hf]; exact ih _ happ ho'

/-- what a (possibly rejected) nuclide merge can touch: the target's labels stay, in order, as a prefix, and every
nuclide whose label the other library does not carry is untouched. -/
private theorem mergeNucs_frame : ∀ (o t : Nucs),
    (∃ ext, Nucs.labels (mergeNucs t o).2 = Nucs.labels t ++ ext) ∧
    (∀ lab, lab ∉ Nucs.labels o → Nucs.find (mergeNucs t o).2 lab = Nucs.find t lab) := by
  intro o
  induction o with
  | nil => intro t; exact ⟨⟨[], by simp [mergeNucs]⟩, fun _ _ => rfl⟩
  | cons q rest ih =>
    intro t
    obtain ⟨l, n⟩ := q
    have hlab : ∀ lab, lab ∉ Nucs.labels ((l, n) :: rest) → lab ≠ l ∧ lab ∉ Nucs.labels rest := by
      intro lab h
      simp only [Nucs.labels, List.map_cons, List.mem_cons, not_or] at h
      exact ⟨h.1, h.2⟩
    cases hf : Nucs.find t l with
    | some tn =>
      have hfr : ∀ lab, lab ≠ l → Nucs.find (Nucs.replace t l (Nuc.merge tn n).2) lab = Nucs.find t lab := by
        intro lab hne
        rw [Nucs.find_replace]; simp [hne]
      by_cases hr : (Nuc.merge tn n).1 = true
      · simp only [mergeNucs, hf, hr, if_true]
        obtain ⟨⟨ext, he⟩, i2⟩ := ih (Nucs.replace t l (Nuc.merge tn n).2)
        refine ⟨⟨ext, by rw [he, Nucs.labels_replace]⟩, ?_⟩
        intro lab h
        obtain ⟨h1, h2⟩ := hlab lab h
        rw [i2 lab h2, hfr lab h1]
      · simp only [mergeNucs, hf, hr]
        refine ⟨⟨[], by simp [Nucs.labels_replace]⟩, ?_⟩
        intro lab h
        exact hfr lab (hlab lab h).1
    | none =>
      simp only [mergeNucs, hf]
      obtain ⟨⟨ext, he⟩, i2⟩ := ih (t ++ [(l, n)])
      refine ⟨⟨l :: ext, by rw [he]; simp [Nucs.labels]⟩, ?_⟩
      intro lab h
      obtain ⟨h1, h2⟩ := hlab lab h
      rw [i2 lab h2, Nucs.find_append]
      cases Nucs.find t lab with
      | some x => rfl
      | none => simp [Nucs.find, Ne.symm h1, oor]

private theorem mergeProperties_nucs (t o : Lib) : (Lib.mergeProperties t o).2.nucs = t.nucs := by
  simp only [Lib.mergeProperties]
  repeat' split
  all_goals simp

private theorem merge_nucs_cases (t o : Lib) :
    (Lib.merge t o).2.nucs = t.nucs ∨ (Lib.merge t o).2.nucs = (mergeNucs t.nucs o.nucs).2 := by
  have hp := mergeProperties_nucs t o
  unfold Lib.merge
  simp only
  repeat' split
  all_goals first
    | (left; exact hp)
    | (right; simp [hp])

/-- **What a rejected merge can have touched** (the known findings, bounded): the three metadata blocks are the
target's; every label of the target is still there, in the same order, possibly followed by labels taken over from the
other library; and every nuclide whose label the other library does not carry is exactly what it was. -/
theorem merge_failure_frame (t o : Lib) (h : (Lib.merge t o).1 = false) :
    ((Lib.merge t o).2.isoMeta = t.isoMeta ∧ (Lib.merge t o).2.pmMeta = t.pmMeta ∧
      (Lib.merge t o).2.gamMeta = t.gamMeta) ∧
    (∃ ext, Nucs.labels (Lib.merge t o).2.nucs = Nucs.labels t.nucs ++ ext) ∧
    (∀ lab, lab ∉ Nucs.labels o.nucs → Nucs.find (Lib.merge t o).2.nucs lab = Nucs.find t.nucs lab) := by
  refine ⟨merge_failure_keeps_metadata t o h, ?_, ?_⟩
  · rcases merge_nucs_cases t o with e | e
    · exact ⟨[], by rw [e]; simp⟩
    · rw [e]; exact (mergeNucs_frame o.nucs t.nucs).1
  · intro lab hl
    rcases merge_nucs_cases t o with e | e
    · rw [e]
    · rw [e]; exact (mergeNucs_frame o.nucs t.nucs).2 lab hl

/-- **The target stays inside the domain of every merge theorem whatever the outcome of a merge**: after an accepted
merge AND after a rejected one (with its partial mutations) the target is well formed, so union / identity / order
independence / rejection apply to any later merge into it. -/
theorem merge_keeps_WF (t o : Lib) (wt : t.WF) (wo : o.WF) : (Lib.merge t o).2.WF := by
  by_cases hm : (Lib.merge t o).1 = true
  · obtain ⟨m1, m2⟩ := merge_iff t o wt wo
    rw [m2 hm]
    exact WF_of_wf (libAlg_laws.wf_join (wf_of_WF wt) (wf_of_WF wo) (m1.mp hm))
  · have hf : (Lib.merge t o).1 = false := by simpa using hm
    obtain ⟨e1, e2, e3⟩ := merge_failure_keeps_metadata t o hf
    have it : InvN t.nucs := ⟨wt.2.2.2.1, fun p hp => wt.2.2.2.2 p.1 p.2 (mem_find_of_nodup _ wt.2.2.2.1 p hp)⟩
    have io : ∀ p ∈ o.nucs, p.2.attrs.length = 5 :=
      fun p hp => wo.2.2.2.2 p.1 p.2 (mem_find_of_nodup _ wo.2.2.2.1 p hp)
    have inv : InvN (Lib.merge t o).2.nucs := by
      rcases merge_nucs_cases t o with e | e
      · rw [e]; exact it
      · rw [e]; exact mergeNucs_inv _ _ it io
    refine ⟨by rw [e1]; exact wt.1, by rw [e2]; exact wt.2.1, by rw [e3]; exact wt.2.2.1, inv.1, ?_⟩
    intro lab n hn
    exact inv.2 (lab, n) (find_mem _ _ _ hn)

/-- every state reachable by any sequence of merge attempts (accepted or rejected) from a well-formed target is
well formed -/
theorem mergeAll_WF : ∀ (os : List Lib) (t : Lib), t.WF → (∀ o ∈ os, o.WF) → (mergeAll t os).2.WF := by
  intro os
  induction os with
  | nil => intro t wt _; exact wt
  | cons o os ih =>
    intro t wt wo
    simp only [mergeAll]
    exact ih _ (merge_keeps_WF t o wt (wo o (by simp))) (fun x hx => wo x (by simp [hx]))

/-- as long as nothing is rejected, going on after failures is the plain merge sequence -/
theorem mergeAll_eq_mergeSeq : ∀ (os : List Lib) (t : Lib), (mergeAll t os).1.all id = true →
    (mergeSeq t os).2 = (true, (mergeAll t os).2) := by
  intro os
  induction os with
  | nil => intro t _; rfl
  | cons o os ih =>
    intro t h
    simp only [mergeAll, List.all_cons, id, Bool.and_eq_true] at h
    simp only [mergeSeq, mergeAll, h.1, if_true]
    exact ih _ h.2

/-- a library merged after a rejected one: the rejected `gA` (duplicate) leaves the target usable, `gC` still merges -/
example : (mergeAll Lib.empty [gA, gA, gC]).1 = [true, false, true] ∧
    Nucs.labels (mergeAll Lib.empty [gA, gA, gC]).2.nucs = [10, 30] := by decide

/-! ## continuation round: file-wide chi inside the model -/

private theorem dropsChi_false_of_chiFree (a b : FileMeta) (ha : a.chiFree = true) (hb : b.chiFree = true) :
    FileMeta.dropsChi a b = false := by
  unfold FileMeta.chiFree at ha hb
  unfold FileMeta.dropsChi
  cases h1 : Meta.get a.data keyChi <;> cases h2 : Meta.get b.data keyChi <;> simp_all

private theorem FileMeta.mergeChi_eq_merge (a b : FileMeta) (ha : a.chiFree = true) (hb : b.chiFree = true) :
    FileMeta.mergeChi a b = FileMeta.merge a b := by
  unfold FileMeta.chiFree at ha hb
  unfold FileMeta.mergeChi FileMeta.merge
  cases h1 : Meta.get a.data keyChi <;> cases h2 : Meta.get b.data keyChi <;> simp_all

private theorem mergeProperties_metas (t o : Lib) :
    (Lib.mergeProperties t o).2.isoMeta = t.isoMeta ∧ (Lib.mergeProperties t o).2.pmMeta = t.pmMeta ∧
      (Lib.mergeProperties t o).2.gamMeta = t.gamMeta := by
  simp only [Lib.mergeProperties]
  repeat' split
  all_goals simp

/-- **The file-wide-chi layer is a conservative extension**: on libraries without a file-wide chi (the domain of the
order-independence / union / identity theorems) `Lib.mergeChi` — the transcription with the chiFlag side effect — is
`Lib.merge`. -/
theorem mergeChi_eq_merge (t o : Lib) (ht : t.inDomain = true) (ho : o.inDomain = true) :
    Lib.mergeChi t o = Lib.merge t o := by
  obtain ⟨e1, e2, e3⟩ := mergeProperties_metas t o
  simp only [Lib.inDomain, Bool.and_eq_true] at ht ho
  obtain ⟨⟨t1, t2⟩, t3⟩ := ht
  obtain ⟨⟨o1, o2⟩, o3⟩ := ho
  rw [← e1] at t1; rw [← e2] at t2; rw [← e3] at t3
  unfold Lib.mergeChi Lib.merge Lib.mergeChi1 Lib.mergeChi2 Lib.mergeChi3 Lib.finishMerge condRewrite
  simp only [dropsChi_false_of_chiFree _ _ t1 o1, dropsChi_false_of_chiFree _ _ t2 o2,
    dropsChi_false_of_chiFree _ _ t3 o3, FileMeta.mergeChi_eq_merge _ _ t1 o1, FileMeta.mergeChi_eq_merge _ _ t2 o2,
    FileMeta.mergeChi_eq_merge _ _ t3 o3, Bool.false_eq_true, if_false]

private theorem Meta.get_set (m : Meta) (k : Key) (v : Val) (k' : Key) :
    Meta.get (Meta.set m k v) k' = if k = k' then some v else Meta.get m k' := by
  induction m with
  | nil => simp [Meta.set, Meta.get]
  | cons p ps ih =>
    obtain ⟨a, b⟩ := p
    by_cases h : a = k
    · subst h; by_cases h' : a = k' <;> simp [Meta.set, Meta.get, h']
    · by_cases h' : a = k'
      · subst h'; simp [Meta.set, Meta.get, h]; intro hk; exact absurd hk.symm h
      · simp [Meta.set, Meta.get, h, h', ih]

/-- a fissile nuclide (fisFlag = 1) carries its own chi (chiFlag = 1) -/
def OwnChi (m : Meta) : Prop := Meta.get m keyFisFlag = some valOne → Meta.get m keyChiFlag = some valOne

private theorem ownChi_rewrite (n : Nuc) : OwnChi n.chiRewrite.iso := by
  unfold Nuc.chiRewrite
  by_cases h : Meta.get n.iso keyFisFlag = some valOne
  · simp only [h, if_true]
    intro _
    rw [Meta.get_set]; simp
  · simp only [h, if_false]
    intro h'; exact absurd h' h

private def AllOwn (ns : Nucs) : Prop := ∀ p ∈ ns, OwnChi p.2.iso

private theorem allOwn_rewrite (ns : Nucs) : AllOwn ns.chiRewrite := by
  intro p hp
  simp only [Nucs.chiRewrite, List.mem_map] at hp
  obtain ⟨q, _, rfl⟩ := hp
  exact ownChi_rewrite q.2

private theorem allOwn_rewrite_of (ns : Nucs) (h : AllOwn ns) (c : Bool) :
    AllOwn (if c = true then ns.chiRewrite else ns) := by
  cases c
  · simpa using h
  · simpa using allOwn_rewrite ns

private theorem ownChi_nuc_merge (t o : Nuc) (ht : OwnChi t.iso) (ho : OwnChi o.iso) : OwnChi (Nuc.merge t o).2.iso := by
  cases hm : Meta.merge [] t.iso o.iso with
  | none => simp [Nuc.merge, hm]; exact ht
  | some m1 =>
    have hj := (Meta.merge_nil_skip_ok _ _ _ hm).2
    have hq : OwnChi m1 := by
      rw [hj]; simp only [metaAlg]
      by_cases he : t.iso = [] <;> simp [he] <;> assumption
    have : (Nuc.merge t o).2.iso = m1 := by
      unfold Nuc.merge
      simp only [hm]
      repeat' split
      all_goals rfl
    rw [this]; exact hq

private theorem allOwn_mergeNucs : ∀ (o t : Nucs), AllOwn t → AllOwn o → AllOwn (mergeNucs t o).2 := by
  intro o
  induction o with
  | nil => intro t ht _; simpa [mergeNucs] using ht
  | cons q rest ih =>
    intro t ht ho
    obtain ⟨l, n⟩ := q
    have ho' : AllOwn rest := fun p hp => ho p (List.mem_cons_of_mem _ hp)
    have hn : OwnChi n.iso := ho (l, n) (by simp)
    cases hf : Nucs.find t l with
    | some tn =>
      have hrep : AllOwn (Nucs.replace t l (Nuc.merge tn n).2) := by
        intro p hp
        rcases mem_replace _ _ _ _ hp with hp | rfl
        · exact ht p hp
        · exact ownChi_nuc_merge tn n (ht (l, tn) (find_mem _ _ _ hf)) hn
      by_cases hr : (Nuc.merge tn n).1 = true
      · simp only [mergeNucs, hf, hr, if_true]; exact ih _ hrep ho'
      · simp only [mergeNucs, hf, hr]; exact hrep
    | none =>
      simp only [mergeNucs, hf]
      apply ih _ _ ho'
      intro p hp
      rcases List.mem_append.mp hp with hp | hp
      · exact ht p hp
      · simp at hp; subst hp; exact hn

private theorem mergeChi_meta_spec (a b r : FileMeta) (h : FileMeta.mergeChi a b = some r)
    (hd : FileMeta.dropsChi a b = true) :
    Meta.get r.data keyChi = none ∧ Meta.get r.data keyFwChiFlag = some valZero := by
  unfold FileMeta.dropsChi at hd
  simp only [Bool.and_eq_true, Bool.not_eq_true'] at hd
  obtain ⟨hne, hchi⟩ := hd
  unfold FileMeta.mergeChi at h
  simp only [hne, Bool.false_eq_true, if_false, hchi, if_true] at h
  split at h
  · injection h with h; subst h
    simp only [Meta.get_append]
    have hf := fun k => Meta.get_filter a.data (fun x => !(keyFwChiFlag :: libSkip).contains x) k
    constructor
    · rw [hf keyChi]
      cases orVal (Meta.get a.data keyLibraryLabel) (Meta.get b.data keyLibraryLabel) <;>
        simp [Meta.get, oor, libSkip, keyChi, keyLibraryLabel, keyFwChiFlag]
    · cases orVal (Meta.get a.data keyLibraryLabel) (Meta.get b.data keyLibraryLabel) <;>
        simp [Meta.get, oor, keyLibraryLabel, keyFwChiFlag]
  · simp at h

private theorem allOwn_cond (c : Bool) (ns : Nucs) (h : AllOwn ns) : AllOwn (condRewrite c ns) := by
  unfold condRewrite; cases c
  · simpa using h
  · simpa using allOwn_rewrite ns

private theorem finish_spec (t1 : Lib) (mi mp mg : FileMeta) (tn on : Nucs)
    (h : (Lib.finishMerge t1 mi mp mg tn on).1 = true) :
    (Lib.finishMerge t1 mi mp mg tn on).2.isoMeta = mi ∧
      (Lib.finishMerge t1 mi mp mg tn on).2.nucs = (mergeNucs tn on).2 := by
  unfold Lib.finishMerge at h ⊢
  by_cases hr : (mergeNucs tn on).1 = true
  · simp [hr]
  · simp [hr] at h

private theorem chi3_spec (t1 o : Lib) (mi mp : FileMeta) (tn on : Nucs) (ht : AllOwn tn) (ho : AllOwn on)
    (h : (Lib.mergeChi3 t1 o mi mp tn on).1 = true) :
    (Lib.mergeChi3 t1 o mi mp tn on).2.isoMeta = mi ∧ AllOwn (Lib.mergeChi3 t1 o mi mp tn on).2.nucs := by
  unfold Lib.mergeChi3 at h ⊢
  cases hg : FileMeta.mergeChi t1.gamMeta o.gamMeta with
  | none => simp [hg] at h
  | some mg =>
    simp only [hg] at h ⊢
    obtain ⟨f1, f2⟩ := finish_spec _ _ _ _ _ _ h
    exact ⟨f1, by rw [f2]; exact allOwn_mergeNucs _ _ (allOwn_cond _ _ ht) (allOwn_cond _ _ ho)⟩

private theorem chi2_spec (t1 o : Lib) (mi : FileMeta) (tn on : Nucs) (ht : AllOwn tn) (ho : AllOwn on)
    (h : (Lib.mergeChi2 t1 o mi tn on).1 = true) :
    (Lib.mergeChi2 t1 o mi tn on).2.isoMeta = mi ∧ AllOwn (Lib.mergeChi2 t1 o mi tn on).2.nucs := by
  unfold Lib.mergeChi2 at h ⊢
  cases hg : FileMeta.mergeChi t1.pmMeta o.pmMeta with
  | none => simp [hg] at h
  | some mp =>
    simp only [hg] at h ⊢
    exact chi3_spec _ _ _ _ _ _ (allOwn_cond _ _ ht) (allOwn_cond _ _ ho) h

/-- the merged library holds no file-wide chi and every fissile nuclide has its own -/
def ChiDropped (l : Lib) : Prop :=
  Meta.get l.isoMeta.data keyChi = none ∧ Meta.get l.isoMeta.data keyFwChiFlag = some valZero ∧
    ∀ lab n, Nucs.find l.nucs lab = some n → OwnChi n.iso

/-- **Dropping a file-wide chi never leaves a fissile nuclide without a chi of its own**: when an accepted merge drops
the file-wide chi of the ISOTXS metadata (either library had one), the merged metadata hold no chi and
`fileWideChiFlag = 0`, and EVERY fissile nuclide of the merged library — from the target, from the other library, or
merged from both — has `chiFlag = 1`. -/
theorem mergeChi_fissile_have_own_chi (t o : Lib) (h : (Lib.mergeChi t o).1 = true)
    (hd : FileMeta.dropsChi t.isoMeta o.isoMeta = true) : ChiDropped (Lib.mergeChi t o).2 := by
  obtain ⟨e1, _, _⟩ := mergeProperties_metas t o
  rw [← e1] at hd
  unfold Lib.mergeChi at h ⊢
  by_cases hp : (Lib.mergeProperties t o).1 = true
  · simp only [hp, Bool.not_true, Bool.false_eq_true, if_false] at h ⊢
    unfold Lib.mergeChi1 at h ⊢
    cases hi : FileMeta.mergeChi (Lib.mergeProperties t o).2.isoMeta o.isoMeta with
    | none => simp [hi] at h
    | some mi =>
      simp only [hi, hd] at h ⊢
      obtain ⟨c1, c2⟩ := chi2_spec _ _ _ _ _ (by unfold condRewrite; simpa using allOwn_rewrite _)
        (by unfold condRewrite; simpa using allOwn_rewrite _) h
      obtain ⟨m1, m2⟩ := mergeChi_meta_spec _ _ _ hi hd
      refine ⟨by rw [c1]; exact m1, by rw [c1]; exact m2, ?_⟩
      intro lab n hn
      exact c2 (lab, n) (find_mem _ _ _ hn)
  · simp [hp] at h

private def fwLib (chi : Option Val) (lab : Label) (chiFlag : Val) : Lib :=
  ⟨none, some (some 7), some (some 8), none, none,
    ⟨(match chi with | some c => [(keyChi, c), (keyFwChiFlag, valOne)] | none => [(keyFwChiFlag, valZero)]) ++ [(9, 9)], [lab]⟩,
    ⟨[], []⟩, ⟨[], []⟩,
    [(lab, ⟨[(keyFisFlag, valOne), (keyChiFlag, chiFlag)], [], [], some [some lab], none, [none, none, none, none, none]⟩)]⟩

/-- two libraries with a file-wide chi each: both fissile nuclides end with chiFlag = 1, the merged header has none -/
example : (mergeAllChi Lib.empty [fwLib (some 50) 10 valZero, fwLib (some 51) 11 valZero]).1 = [true, true] ∧
    ((mergeAllChi Lib.empty [fwLib (some 50) 10 valZero, fwLib (some 51) 11 valZero]).2.nucs.map
      (fun p => Meta.get p.2.iso keyChiFlag)) = [some valOne, some valOne] ∧
    Meta.get (mergeAllChi Lib.empty [fwLib (some 50) 10 valZero, fwLib (some 51) 11 valZero]).2.isoMeta.data keyChi = none := by
  decide
example : FileMeta.dropsChi (fwLib (some 50) 10 valZero).isoMeta (fwLib none 11 valOne).isoMeta = true := by decide
example : (fwLib none 11 valOne).inDomain = true ∧ (fwLib (some 50) 10 valZero).inDomain = false := by decide

/-! ## continuation round: the theorems' hypotheses as executable checks; chi-free sequences; creator linearity; properties frame -/

private theorem Meta.get_isSome_of_mem : ∀ (m : Meta) (k : Key) (v : Val), (k, v) ∈ m → (Meta.get m k).isSome = true := by
  intro m
  induction m with
  | nil => intro k v h; simp at h
  | cons p ps ih =>
    intro k v h
    obtain ⟨a, b⟩ := p
    by_cases hk : a = k
    · simp [Meta.get, hk]
    · rcases List.mem_cons.mp h with h | h
      · injection h with h1 _; exact absurd h1.symm hk
      · simp [Meta.get, hk, ih k v h]

theorem good_of_goodB (a : FileMeta) (h : a.goodB = true) : a.good := by
  intro hbot
  unfold FileMeta.goodB at h
  rcases Bool.or_eq_true_iff.mp h with h | h
  · simpa [List.isEmpty_iff] using h
  · obtain ⟨p, hp, hk⟩ := List.any_eq_true.mp h
    have := congrFun hbot p.1
    have hs := Meta.get_isSome_of_mem a.data p.1 p.2 hp
    have hk' : p.1 ∉ libSkip := by simpa using hk
    simp [FileMeta.ord, hk', KeyFn.bot] at this
    simp [this] at hs

/-- **the domain of the merge theorems is an executable check** (the driver evaluates `Lib.WFB` on every library the
harness sends; the harness counts the libraries it holds for) -/
theorem WF_of_WFB (l : Lib) (h : l.WFB = true) : l.WF := by
  unfold Lib.WFB at h
  simp only [Bool.and_eq_true, decide_eq_true_eq] at h
  obtain ⟨⟨⟨⟨g1, g2⟩, g3⟩, nd⟩, al⟩ := h
  refine ⟨good_of_goodB _ g1, good_of_goodB _ g2, good_of_goodB _ g3, nd, ?_⟩
  intro lab n hn
  have := List.all_eq_true.mp al (lab, n) (find_mem _ _ _ hn)
  simpa using this

example : gA.WFB = true ∧ gB.WFB = true ∧ Lib.empty.WFB = true := by decide

private theorem chiFree_merge (a b r : FileMeta) (ha : a.chiFree = true) (hb : b.chiFree = true)
    (h : FileMeta.merge a b = some r) : r.chiFree = true := by
  unfold FileMeta.chiFree at ha hb ⊢
  have ha' : Meta.get a.data keyChi = none := by cases h' : Meta.get a.data keyChi <;> simp_all
  have hb' : Meta.get b.data keyChi = none := by cases h' : Meta.get b.data keyChi <;> simp_all
  unfold FileMeta.merge at h
  split at h
  · injection h with h; subst h
    simp only [Meta.update, Meta.get_append, hb']
    have := Meta.get_filter a.data (fun k => (Meta.get b.data k).isNone) keyChi
    simp only [this, ha']; simp [oor]
  · split at h
    · injection h with h; subst h
      simp only [Meta.get_append]
      have := Meta.get_filter a.data (fun k => !libSkip.contains k) keyChi
      rw [this]
      cases orVal (Meta.get a.data keyLibraryLabel) (Meta.get b.data keyLibraryLabel) <;>
        simp [Meta.get, oor, libSkip, keyChi, keyLibraryLabel]
    · simp at h

/-- libraries without a file-wide chi stay without one whatever a merge does -/
theorem merge_keeps_inDomain (t o : Lib) (ht : t.inDomain = true) (ho : o.inDomain = true) :
    (Lib.merge t o).2.inDomain = true := by
  by_cases hm : (Lib.merge t o).1 = true
  · obtain ⟨e1, e2, e3⟩ := mergeProperties_metas t o
    simp only [Lib.inDomain, Bool.and_eq_true] at ht ho ⊢
    obtain ⟨⟨t1, t2⟩, t3⟩ := ht
    obtain ⟨⟨o1, o2⟩, o3⟩ := ho
    rw [← e1] at t1; rw [← e2] at t2; rw [← e3] at t3
    unfold Lib.merge at hm ⊢
    by_cases hp : (Lib.mergeProperties t o).1 = true
    · simp only [hp, Bool.not_true, Bool.false_eq_true, if_false] at hm ⊢
      cases hi : FileMeta.merge (Lib.mergeProperties t o).2.isoMeta o.isoMeta with
      | none => simp [hi] at hm
      | some mi =>
        cases hpm : FileMeta.merge (Lib.mergeProperties t o).2.pmMeta o.pmMeta with
        | none => simp [hi, hpm] at hm
        | some mp =>
          cases hg : FileMeta.merge (Lib.mergeProperties t o).2.gamMeta o.gamMeta with
          | none => simp [hi, hpm, hg] at hm
          | some mg =>
            simp only [hi, hpm, hg] at hm ⊢
            split at hm
            · rename_i hrn
              rw [if_pos hrn]
              exact ⟨⟨chiFree_merge _ _ _ t1 o1 hi, chiFree_merge _ _ _ t2 o2 hpm⟩, chiFree_merge _ _ _ t3 o3 hg⟩
            · simp at hm
    · simp [hp] at hm
  · have hf : (Lib.merge t o).1 = false := by simpa using hm
    obtain ⟨e1, e2, e3⟩ := merge_failure_keeps_metadata t o hf
    simp only [Lib.inDomain, e1, e2, e3] at ht ⊢
    exact ht

/-- **on chi-free libraries the chi-aware sequence (what the driver runs for the file-wide-chi stream) is the plain
one**, so every merge theorem of this file speaks about it -/
theorem mergeAllChi_eq_mergeAll : ∀ (os : List Lib) (t : Lib), t.inDomain = true → (∀ o ∈ os, o.inDomain = true) →
    mergeAllChi t os = mergeAll t os := by
  intro os
  induction os with
  | nil => intro t _ _; rfl
  | cons o os ih =>
    intro t ht ho
    have e := mergeChi_eq_merge t o ht (ho o (by simp))
    simp only [mergeAllChi, mergeAll, e]
    rw [ih _ (merge_keeps_inDomain t o ht (ho o (by simp))) (fun x hx => ho x (by simp [hx]))]

/-! ### the creator's defining sums: zero, linear, additive -/

theorem creator_sum_empty (g : Nat) (lib : List (Nat × MNuc)) (i : Nat) (w : Bool) :
    specAt g (entriesOf lib i w []) = 0 := by simp [entriesOf, specAt, sumR]

/-- every defining sum of the creator is linear in the densities -/
theorem creator_sum_linear (g : Nat) (c : Rat) (lib : List (Nat × MNuc)) (i : Nat) (w : Bool) (dens : List (Nat × Rat)) :
    specAt g (entriesOf lib i w (dens.map (fun p => (p.1, c * p.2)))) = c * specAt g (entriesOf lib i w dens) := by
  induction dens with
  | nil => simp [entriesOf, specAt, sumR]
  | cons p ps ih =>
    simp only [entriesOf, List.map_cons, specAt_cons] at ih ⊢
    rw [ih]
    cases lookupNuc lib p.1 <;> (simp [Entry.contrib]; try ring)

/-- every defining sum of the creator is additive over concatenated nuclide lists -/
theorem creator_sum_additive (g : Nat) (lib : List (Nat × MNuc)) (i : Nat) (w : Bool) (d₁ d₂ : List (Nat × Rat)) :
    specAt g (entriesOf lib i w (d₁ ++ d₂)) = specAt g (entriesOf lib i w d₁) + specAt g (entriesOf lib i w d₂) := by
  unfold entriesOf
  rw [List.map_append, macro_additive_spec]

/-! ### the write-once properties after a rejected merge -/

private theorem prop_set_frame (cur : Prop') (v : Option Val) (p : Prop') (h : cur.set v = some p) :
    p.read = cur.read ∨ (cur.read = none ∧ p.read = v) := by
  cases cur with
  | none => simp [Prop'.set] at h; subst h; right; exact ⟨rfl, rfl⟩
  | some c =>
    cases c with
    | none => simp [Prop'.set] at h; subst h; right; exact ⟨rfl, rfl⟩
    | some x =>
      cases v with
      | none => simp [Prop'.set] at h; subst h; left; rfl
      | some y =>
        simp only [Prop'.set] at h
        split at h
        · injection h with h; subst h; left; rfl
        · simp at h

/-- **the write-once properties after ANY merge attempt**: each of the five (dose factors, neutron / gamma group
bounds, velocity) reads what it read before, or was unset and now reads the other library's value — a rejected merge
never replaces a group structure the target already had. -/
theorem merge_properties_frame (t o : Lib) :
    let r := (Lib.mergeProperties t o).2
    (r.ndcf.read = t.ndcf.read ∨ (t.ndcf.read = none ∧ r.ndcf.read = o.ndcf.read)) ∧
    (r.nEnergy.read = t.nEnergy.read ∨ (t.nEnergy.read = none ∧ r.nEnergy.read = o.nEnergy.read)) ∧
    (r.nVel.read = t.nVel.read ∨ (t.nVel.read = none ∧ r.nVel.read = o.nVel.read)) ∧
    (r.gEnergy.read = t.gEnergy.read ∨ (t.gEnergy.read = none ∧ r.gEnergy.read = o.gEnergy.read)) ∧
    (r.gdcf.read = t.gdcf.read ∨ (t.gdcf.read = none ∧ r.gdcf.read = o.gdcf.read)) := by
  have vel : ∀ (a b : Prop'), (if a = none then some b.read else a : Prop').read = a.read ∨
      (a.read = none ∧ (if a = none then some b.read else a : Prop').read = b.read) := by
    intro a b
    cases a with
    | none => right; exact ⟨rfl, by simp [Prop'.read]⟩
    | some x => left; simp
  simp only [Lib.mergeProperties]
  cases h1 : t.ndcf.set o.ndcf.read with
  | none => simp
  | some p1 =>
    have f1 := prop_set_frame _ _ _ h1
    cases h2 : t.nEnergy.set o.nEnergy.read with
    | none => simp [f1]
    | some p2 =>
      have f2 := prop_set_frame _ _ _ h2
      cases h4 : t.gEnergy.set o.gEnergy.read with
      | none => simp [f1, f2]; exact vel t.nVel o.nVel
      | some p4 =>
        have f4 := prop_set_frame _ _ _ h4
        cases h5 : t.gdcf.set o.gdcf.read with
        | none => simp [f1, f2, f4]; exact vel t.nVel o.nVel
        | some p5 =>
          have f5 := prop_set_frame _ _ _ h5
          simp [f1, f2, f4, f5]; exact vel t.nVel o.nVel

/-! ### a conflict on the first statement that can conflict is atomic -/

private theorem replace_self : ∀ (m : Nucs) (l : Label) (x : Nuc), Nucs.find m l = some x → Nucs.replace m l x = m := by
  intro m
  induction m with
  | nil => intro l x h; rfl
  | cons p ps ih =>
    intro l x h
    obtain ⟨a, b⟩ := p
    by_cases hk : a = l
    · simp [Nucs.find, hk] at h; subst h; simp [Nucs.replace, hk]
    · simp [Nucs.find, hk] at h; simp [Nucs.replace, hk, ih l x h]

/-- **Where rejection IS atomic**: the other library changes no write-once property, and its FIRST nuclide collides
with a nuclide of the target on the first statement of `XSNuclide.merge` that can mutate (`Nuc.merge tn n = (false, tn)`,
e.g. differing ISOTXS nuclide metadata — `nuc_merge_meta_conflict_atomic`): the target is exactly what it was.
(The harness visits this class for every conflict kind: stream "positioned conflict (first)".) -/
theorem merge_failure_atomic_first_nuclide (t o : Lib) (l : Label) (n tn : Nuc) (rest : Nucs)
    (ho : o.nucs = (l, n) :: rest) (hf : Nucs.find t.nucs l = some tn)
    (hp : Lib.mergeProperties t o = (true, t)) (hn : Nuc.merge tn n = (false, tn)) :
    Lib.merge t o = (false, t) := by
  have hm : mergeNucs t.nucs o.nucs = (false, t.nucs) := by
    rw [ho]; simp [mergeNucs, hf, hn, replace_self _ _ _ hf]
  unfold Lib.merge
  simp only [hp, Bool.not_true, Bool.false_eq_true, if_false]
  cases FileMeta.merge t.isoMeta o.isoMeta <;> cases FileMeta.merge t.pmMeta o.pmMeta <;>
    cases FileMeta.merge t.gamMeta o.gamMeta <;> simp [hm]

/-- differing ISOTXS nuclide metadata: nothing of the target nuclide has been touched when `XSNuclide.merge` raises -/
theorem nuc_merge_meta_conflict_atomic (x y : Nuc) (h : Meta.merge [] x.iso y.iso = none) : Nuc.merge x y = (false, x) := by
  simp [Nuc.merge, h]

example : Nuc.merge (nucIso 1) { nucGam 2 with iso := [(5, 7)] } = (false, nucIso 1) := by decide


/-! ### the merge with rollback (candidate fix `notes/candidate-fixes-C10/atomic-merge-rollback.diff`) -/

/-- **with the rollback, "rejected ⇒ target unchanged" holds in full**: every rejected merge, whatever raised and
wherever, returns exactly the target it was given -/
theorem mergeAtomic_rejected_unchanged (t o : Lib) (h : (Lib.mergeAtomic t o).1 = false) : (Lib.mergeAtomic t o).2 = t := by
  unfold Lib.mergeAtomic at h ⊢
  by_cases hr : (Lib.mergeChi t o).1 = true
  · simp [hr] at h
  · simp [hr]

/-- the rollback changes nothing about acceptance, nor about what an accepted merge produces -/
theorem mergeAtomic_accepted (t o : Lib) :
    (Lib.mergeAtomic t o).1 = (Lib.mergeChi t o).1 ∧
    ((Lib.mergeChi t o).1 = true → Lib.mergeAtomic t o = Lib.mergeChi t o) := by
  unfold Lib.mergeAtomic
  by_cases hr : (Lib.mergeChi t o).1 = true
  · simp [hr]
  · simp [hr]

/-- on libraries without a file-wide chi an accepted merge with rollback is the `Lib.merge` of every theorem above -/
theorem mergeAtomic_eq_merge (t o : Lib) (ht : t.inDomain = true) (ho : o.inDomain = true)
    (h : (Lib.merge t o).1 = true) : Lib.mergeAtomic t o = Lib.merge t o := by
  have e := mergeChi_eq_merge t o ht ho
  rw [← e] at h
  rw [(mergeAtomic_accepted t o).2 h, e]

/-- a sequence of merges with rollback ends in the state reached by the ACCEPTED libraries alone: rejected ones leave
no trace -/
theorem mergeAllAtomic_skips_rejected : ∀ (os : List Lib) (t : Lib),
    (mergeAllAtomic t os).2
      = (mergeAllAtomic t ((os.zip (mergeAllAtomic t os).1).filter (fun p => p.2) |>.map Prod.fst)).2 := by
  intro os
  induction os with
  | nil => intro t; rfl
  | cons o os ih =>
    intro t
    by_cases hr : (Lib.mergeAtomic t o).1 = true
    · simp only [mergeAllAtomic, List.zip_cons_cons, hr, List.filter_cons_of_pos, List.map_cons]
      exact ih _
    · have hf : (Lib.mergeAtomic t o).1 = false := by simpa using hr
      have e := mergeAtomic_rejected_unchanged t o hf
      simp only [mergeAllAtomic, List.zip_cons_cons, hf, Bool.false_eq_true, not_false_eq_true, List.filter_cons_of_neg, e]
      exact ih t

example : (mergeAllAtomic Lib.empty [gA, gA, gC]).1 = [true, false, true] ∧
    (mergeAllAtomic Lib.empty [gA, gA, gC]).2 = (mergeAllAtomic Lib.empty [gA, gC]).2 := by decide

/-! ## boundary sizes of the nuclide set: libraries without nuclides still merge their group structure and metadata -/

/-- a library without nuclides is in the domain of every merge theorem as soon as its metadata are well formed -/
theorem WF_of_no_nuclides (l : Lib) (hn : l.nucs = []) (h1 : l.isoMeta.good) (h2 : l.pmMeta.good) (h3 : l.gamMeta.good) :
    l.WF := by
  refine ⟨h1, h2, h3, by simp [hn, Nucs.labels], ?_⟩
  intro lab n h; simp [hn, Nucs.find] at h

/-- **a nuclide-free library never adds, removes or changes a nuclide**, accepted or rejected -/
theorem merge_nuclide_free_other_nucs (t o : Lib) (hn : o.nucs = []) : (Lib.merge t o).2.nucs = t.nucs := by
  rcases merge_nucs_cases t o with e | e
  · exact e
  · rw [e, hn]; rfl

/-- **… but it takes part in conflict detection like any other**: a different neutron group structure is rejected
although the library holds no nuclide (the general `merge_conflict_group_structure` needs no nuclide), in BOTH orders -/
theorem merge_nuclide_free_conflict_rejected (t o : Lib) (wt : t.WF) (wo : o.WF) (hn : o.nucs = []) (c w : Val)
    (ht : t.nEnergy.read = some c) (ho : o.nEnergy.read = some w) (hne : c ≠ w) :
    (Lib.merge t o).1 = false ∧ (Lib.merge o t).1 = false ∧ (Lib.merge t o).2.nucs = t.nucs :=
  ⟨merge_conflict_group_structure t o wo c w ht ho hne,
   merge_conflict_group_structure o t wt w c ho ht (Ne.symm hne), merge_nuclide_free_other_nucs t o hn⟩

/-- gamma group structure, same statement -/
theorem merge_nuclide_free_gamma_conflict_rejected (t o : Lib) (wt : t.WF) (wo : o.WF) (c w : Val)
    (ht : t.gEnergy.read = some c) (ho : o.gEnergy.read = some w) (hne : c ≠ w) :
    (Lib.merge t o).1 = false ∧ (Lib.merge o t).1 = false := by
  constructor
  · apply merge_conflict_rejected t o wo
    intro hc; exact hne (hc.2.2.2.1 c w ht ho)
  · apply merge_conflict_rejected o t wt
    intro hc; exact hne ((hc.2.2.2.1 w c ho ht).symm)

private theorem mergeNucs_disjoint : ∀ (o t : Nucs), (Nucs.labels t ++ Nucs.labels o).Nodup →
    mergeNucs t o = (true, t ++ o) := by
  intro o
  induction o with
  | nil => intro t _; simp [mergeNucs]
  | cons q rest ih =>
    intro t h
    obtain ⟨l, n⟩ := q
    have hl : l ∉ Nucs.labels t := by
      intro hm
      have := (List.nodup_append.mp h).2.2 l hm l (by simp [Nucs.labels])
      exact this rfl
    have hf : Nucs.find t l = none := (Nucs.find_none_iff t l).mpr hl
    have h' : (Nucs.labels (t ++ [(l, n)]) ++ Nucs.labels rest).Nodup := by
      simpa [Nucs.labels, List.append_assoc] using h
    simp only [mergeNucs, hf]
    rw [ih _ h']
    simp

private theorem prop_set_none (v : Option Val) : Prop'.set none v = some (some v) := rfl

/-- **hand-over to an empty target**: a fresh `IsotxsLibrary()` accepts ANY well-formed library — with or without
nuclides — and afterwards reads its group structures / dose factors / velocity, holds its three metadata blocks (file names
included) and its nuclides in its order -/
theorem merge_into_empty_target (o : Lib) (wo : o.WF) :
    (Lib.merge Lib.empty o).1 = true ∧
    (Lib.merge Lib.empty o).2.nEnergy.read = o.nEnergy.read ∧ (Lib.merge Lib.empty o).2.gEnergy.read = o.gEnergy.read ∧
    (Lib.merge Lib.empty o).2.ndcf.read = o.ndcf.read ∧ (Lib.merge Lib.empty o).2.gdcf.read = o.gdcf.read ∧
    (Lib.merge Lib.empty o).2.nVel.read = o.nVel.read ∧
    (Lib.merge Lib.empty o).2.isoMeta = o.isoMeta ∧ (Lib.merge Lib.empty o).2.pmMeta = o.pmMeta ∧
    (Lib.merge Lib.empty o).2.gamMeta = o.gamMeta ∧ (Lib.merge Lib.empty o).2.nucs = o.nucs := by
  have hn : mergeNucs [] o.nucs = (true, o.nucs) := by
    have := mergeNucs_disjoint o.nucs [] (by simpa [Nucs.labels] using wo.2.2.2.1)
    simpa using this
  have hm : ∀ b : FileMeta, FileMeta.merge ⟨[], []⟩ b = some b := by
    intro b
    obtain ⟨d, f⟩ := b
    simp [FileMeta.merge, Meta.update]
  simp [Lib.merge, Lib.mergeProperties, Lib.empty, prop_set_none, hm, hn, Prop'.read]

private def bareLib (e : Val) (m : Val) : Lib :=
  ⟨none, some (some e), some (some 8), none, none, ⟨[(4, m)], [3]⟩, ⟨[], []⟩, ⟨[], []⟩, []⟩

/-- a nuclide-free library with another group structure is refused by a full one, and refuses it -/
example : (Lib.merge gA (bareLib 9 3)).1 = false ∧ (Lib.merge (bareLib 9 3) gA).1 = false := by decide
/-- with the same structure and metadata it is accepted in both orders and changes no nuclide -/
example : (Lib.merge gA (bareLib 7 3)).1 = true ∧ (Lib.merge (bareLib 7 3) gA).1 = true ∧
    Nucs.labels (Lib.merge gA (bareLib 7 3)).2.nucs = [10] ∧ Nucs.labels (Lib.merge (bareLib 7 3) gA).2.nucs = [10] := by decide
/-- differing file metadata alone are enough -/
example : (Lib.merge gA (bareLib 7 4)).1 = false := by decide
/-- an empty target takes over the structure of a nuclide-free library; two nuclide-free libraries still conflict -/
example : (Lib.merge Lib.empty (bareLib 9 3)).2.nEnergy.read = some 9 ∧ (Lib.merge (bareLib 9 3) (bareLib 7 3)).1 = false := by decide
example : (mergeSeq Lib.empty [bareLib 7 3, gA, gB]).2.1 = true ∧ (mergeSeq Lib.empty [gB, gA, bareLib 7 3]).2.1 = true ∧
    (mergeSeq Lib.empty [gB, bareLib 9 3, gA]).2.1 = false ∧ (mergeSeq Lib.empty [gA, gB, bareLib 9 3]).2.1 = false := by decide

end ArmiVerif.XsLib
