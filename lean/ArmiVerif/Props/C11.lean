/-
C11 — re-meshing an assembly axially conserves atoms and integrated quantities.
Property theorems about the model `ArmiVerif/Model/Mesh.lean` (helper lemmas in `Lemmas/Overlap.lean`
or `private` here).
-/
import ArmiVerif.Model.Mesh
import ArmiVerif.Lemmas.Overlap

namespace ArmiVerif.Mesh

variable {α : Type}

/-! ### hypotheses, as explicit predicates -/

/-- no sliver: a block that overlaps the window at all overlaps it by more than `1e-10` of its height
(otherwise `getBlocksBetweenElevations` silently drops it) -/
def NoSliver (zl zu : Rat) (b : Blk α) : Prop := 0 < ovl zl zu b → EPS < ovl zl zu b / b.h

/-- a stack of blocks starting at elevation `z0` -/
def StartsAt (z0 : Rat) (bs : List (Blk α)) : Prop := ∀ b, bs.head? = some b → b.zb = z0

/-- **core lemma** (proved in `Lemmas/Overlap.lean`, restated here so that it is audited with the property
theorems): a contiguous stack of blocks covering the window `[zl, zu]` cuts it into pieces whose lengths
`max 0 (min ztop zu − max zbottom zl)` sum to `zu − zl`. -/
theorem window_overlap_partition (bs : List (Blk α)) (z0 zl zu : Rat) (h : zl ≤ zu) (hc : Contig bs)
    (h0 : StartsAt z0 bs) (hlo : z0 ≤ zl) (hhi : zu ≤ topOf z0 bs) :
    (bs.map (ovl zl zu)).sum = zu - zl :=
  overlap_partition bs z0 zl zu h hc h0 hlo hhi

/-! ### per-block facts -/

private theorem rmin_le_left (a b : Rat) : rmin a b ≤ a := by unfold rmin; split_ifs <;> linarith
private theorem rmin_le_right (a b : Rat) : rmin a b ≤ b := by unfold rmin; split_ifs <;> linarith
private theorem le_rmax_left (a b : Rat) : a ≤ rmax a b := by unfold rmax; split_ifs <;> linarith
private theorem le_rmax_right (a b : Rat) : b ≤ rmax a b := by unfold rmax; split_ifs <;> linarith
private theorem rmin_eq_right (a b : Rat) (h : b ≤ a) : rmin a b = b := by unfold rmin; split_ifs <;> linarith
private theorem EPS_pos : (0 : Rat) < EPS := by unfold EPS; norm_num
private theorem TOL_pos : (0 : Rat) < TOL := by unfold TOL; norm_num

private theorem ovl_pos_iff (zl zu : Rat) (b : Blk α) :
    0 < ovl zl zu b ↔ 0 < heightHere zl zu b := by
  unfold ovl heightHere
  generalize rmin b.zt zu - rmax b.zb zl = x
  unfold rmax; split_ifs <;> constructor <;> intro h <;> linarith

private theorem ovl_of_pos (zl zu : Rat) (b : Blk α) (h : 0 < heightHere zl zu b) :
    ovl zl zu b = heightHere zl zu b := by
  unfold ovl heightHere at *
  generalize rmin b.zt zu - rmax b.zb zl = x at *
  unfold rmax; split_ifs <;> linarith

/-- a block is reported exactly when it overlaps the window, and then with its overlap length -/
private theorem kept_spec (zl zu : Rat) (b : Blk α) (hw : b.zb < b.zt ∧ b.h = b.zt - b.zb)
    (hn : NoSliver zl zu b) :
    (kept zl zu b = true ↔ 0 < ovl zl zu b) ∧ (kept zl zu b = true → heightHere zl zu b = ovl zl zu b) := by
  have hh : 0 < b.h := by rw [hw.2]; linarith
  have key : kept zl zu b = true → 0 < heightHere zl zu b := by
    intro hk
    unfold kept at hk
    simp only [Bool.and_eq_true, decide_eq_true_eq] at hk
    have h1 : 0 < heightHere zl zu b / b.h := lt_trans EPS_pos hk.2
    rcases div_pos_iff.mp h1 with ⟨h2, _⟩ | ⟨_, h3⟩
    · exact h2
    · linarith
  constructor
  · constructor
    · intro hk; exact (ovl_pos_iff zl zu b).mpr (key hk)
    · intro hp
      have hp' := (ovl_pos_iff zl zu b).mp hp
      have hn' := hn hp
      rw [ovl_of_pos zl zu b hp'] at hn'
      unfold kept marked
      simp only [Bool.and_eq_true, decide_eq_true_eq]
      refine ⟨⟨?_, ?_⟩, hn'⟩
      · have := rmin_le_left b.zt zu; have := le_rmax_right b.zb zl
        unfold heightHere at hp'; linarith
      · have := rmin_le_right b.zt zu; have := le_rmax_left b.zb zl
        unfold heightHere at hp'; linarith
  · intro hk; exact (ovl_of_pos zl zu b (key hk)).symm

private theorem kept_term (zl zu : Rat) (b : Blk α) (hw : b.zb < b.zt ∧ b.h = b.zt - b.zb)
    (hn : NoSliver zl zu b) (g : Blk α → Rat) :
    (if kept zl zu b = true then g b * heightHere zl zu b else 0) = g b * ovl zl zu b := by
  obtain ⟨h1, h2⟩ := kept_spec zl zu b hw hn
  by_cases hk : kept zl zu b = true
  · rw [if_pos hk, h2 hk]
  · rw [if_neg hk]
    have : ¬ 0 < ovl zl zu b := fun hp => hk (h1.mpr hp)
    have h0 := ovl_nonneg zl zu b
    have : ovl zl zu b = 0 := le_antisymm (not_lt.mp this) h0
    rw [this]; ring

/-- weighted sums over the reported blocks are weighted sums of overlaps over all blocks -/
private theorem sum_kept (zl zu : Rat) (bs : List (Blk α)) (hc : Contig bs)
    (hn : ∀ b ∈ bs, NoSliver zl zu b) (g : Blk α → Rat) :
    (((bs.filter (kept zl zu)).map (fun b => g b * heightHere zl zu b))).sum
      = (bs.map (fun b => g b * ovl zl zu b)).sum := by
  rw [sum_filter_map]
  congr 1
  apply List.map_congr_left
  intro b hb
  exact kept_term zl zu b (hc.mem b hb) (hn b hb) g

/-! ### the window is always found inside a contiguous stack -/

private theorem exists_block_at : ∀ (bs : List (Blk α)) (z0 z : Rat), Contig bs → StartsAt z0 bs → bs ≠ [] →
    z0 ≤ z → z ≤ topOf z0 bs → ∃ b ∈ bs, b.zb ≤ z ∧ z ≤ b.zt
  | [], _, _, _, _, hne, _, _ => absurd rfl hne
  | [b], z0, z, _, h0, _, h1, h2 => by
    refine ⟨b, List.mem_singleton.mpr rfl, ?_, ?_⟩
    · rw [h0 b rfl]; exact h1
    · simpa [topOf] using h2
  | b :: c :: t, z0, z, hc, h0, _, h1, h2 => by
    by_cases hz : z ≤ b.zt
    · exact ⟨b, List.mem_cons_self, by rw [h0 b rfl]; exact h1, hz⟩
    · have hs : StartsAt b.zt (c :: t) := by
        intro x hx; simp at hx; subst hx; exact hc.2.2.1.symm
      obtain ⟨x, hx, hx1, hx2⟩ := exists_block_at (c :: t) b.zt z hc.2.2.2 hs (by simp)
        (le_of_lt (not_le.mp hz)) (by simpa [topOf] using h2)
      exact ⟨x, List.mem_cons_of_mem _ hx, hx1, hx2⟩

private theorem foldl_rmin_le : ∀ (ps : List Rat) (p : Rat), ps.foldl rmin p ≤ p ∧ ∀ x ∈ ps, ps.foldl rmin p ≤ x
  | [], p => ⟨le_refl _, by intro x hx; cases hx⟩
  | a :: t, p => by
    obtain ⟨h1, h2⟩ := foldl_rmin_le t (rmin p a)
    simp only [List.foldl_cons]
    refine ⟨le_trans h1 (rmin_le_left p a), ?_⟩
    intro x hx
    rcases List.mem_cons.mp hx with rfl | hx
    · exact le_trans h1 (rmin_le_right p _)
    · exact h2 x hx

private theorem le_foldl_rmax : ∀ (ps : List Rat) (p : Rat), p ≤ ps.foldl rmax p ∧ ∀ x ∈ ps, x ≤ ps.foldl rmax p
  | [], p => ⟨le_refl _, by intro x hx; cases hx⟩
  | a :: t, p => by
    obtain ⟨h1, h2⟩ := le_foldl_rmax t (rmax p a)
    simp only [List.foldl_cons]
    refine ⟨le_trans (le_rmax_left p a) h1, ?_⟩
    intro x hx
    rcases List.mem_cons.mp hx with rfl | hx
    · exact le_trans (le_rmax_right p _) h1
    · exact h2 x hx

/-- **`getBlocksBetweenElevations` never refuses a window inside a well-formed assembly**, and what it
returns is the list of blocks it keeps, each with `min(ztop, zu) − max(zbottom, zl)`. -/
theorem blocksBetween_eq (bs : List (Blk α)) (z0 zl zu : Rat) (hc : Contig bs) (h0 : StartsAt z0 bs)
    (hlo : z0 ≤ zl) (hlt : zl < zu) (hhi : zu ≤ topOf z0 bs) (hn : ∀ b ∈ bs, NoSliver zl zu b) :
    blocksBetween bs zl zu = some ((bs.filter (kept zl zu)).map (fun b => (b.v, heightHere zl zu b))) := by
  have hne : bs ≠ [] := by
    intro he; subst he; simp [topOf] at hhi; linarith
  obtain ⟨bl, hbl, hbl1, hbl2⟩ := exists_block_at bs z0 zl hc h0 hne hlo (le_trans (le_of_lt hlt) hhi)
  obtain ⟨bu, hbu, hbu1, hbu2⟩ := exists_block_at bs z0 zu hc h0 hne (le_trans hlo (le_of_lt hlt)) hhi
  have hml : marked zl zu bl = true := by
    unfold marked; simp only [Bool.and_eq_true, decide_eq_true_eq]; exact ⟨hbl2, by linarith⟩
  have hmu : marked zl zu bu = true := by
    unfold marked; simp only [Bool.and_eq_true, decide_eq_true_eq]; exact ⟨by linarith, hbu1⟩
  have htot : ((((bs.filter (kept zl zu)).map (fun b => (b.v, heightHere zl zu b))).map (·.2))).sum = zu - zl := by
    rw [List.map_map]
    have := sum_kept zl zu bs hc hn (fun _ => 1)
    simp only [one_mul] at this
    have e : ((fun x : α × Rat => x.2) ∘ fun b : Blk α => (b.v, heightHere zl zu b)) = fun b => heightHere zl zu b := rfl
    rw [e, this]
    exact overlap_partition bs z0 zl zu (le_of_lt hlt) hc h0 hlo hhi
  unfold blocksBetween
  simp only []
  have hmem : ∀ b ∈ bs, marked zl zu b = true →
      b.zb ∈ (bs.filter (marked zl zu)).flatMap (fun b => [b.zb, b.zt]) ∧
      b.zt ∈ (bs.filter (marked zl zu)).flatMap (fun b => [b.zb, b.zt]) := by
    intro b hb hm
    constructor <;> (rw [List.mem_flatMap]; exact ⟨b, List.mem_filter.mpr ⟨hb, hm⟩, by simp⟩)
  split
  · next heq =>
    have := (hmem bl hbl hml).1
    rw [heq] at this; cases this
  · next p ps heq =>
    rw [htot]
    have hlo' : ps.foldl rmin p ≤ zl := by
      have hm := (hmem bl hbl hml).1
      rw [heq] at hm
      obtain ⟨h1, h2⟩ := foldl_rmin_le ps p
      rcases List.mem_cons.mp hm with he | hm
      · rw [he] at hbl1; exact le_trans h1 hbl1
      · exact le_trans (h2 _ hm) hbl1
    have hhi' : zu ≤ ps.foldl rmax p := by
      have hm := (hmem bu hbu hmu).2
      rw [heq] at hm
      obtain ⟨h1, h2⟩ := le_foldl_rmax ps p
      rcases List.mem_cons.mp hm with he | hm
      · rw [he] at hbu2; exact le_trans hbu2 h1
      · exact le_trans hbu2 (h2 _ hm)
    have hexp : rmin (ps.foldl rmax p - ps.foldl rmin p) (zu - zl) = zu - zl :=
      rmin_eq_right _ _ (by linarith)
    rw [hexp, if_neg]
    have : rabs (zu - zl - (zu - zl)) = 0 := by unfold rabs; simp
    rw [this]; exact not_lt.mpr (le_of_lt TOL_pos)

/-- what the height check compares: for a window inside a well-formed assembly the expected height is `zu − zl`
(no `NoSliver` hypothesis) -/
private theorem blocksBetween_check (bs : List (Blk α)) (z0 zl zu : Rat) (hc : Contig bs) (h0 : StartsAt z0 bs)
    (hlo : z0 ≤ zl) (hlt : zl < zu) (hhi : zu ≤ topOf z0 bs) :
    blocksBetween bs zl zu =
      if TOL < rabs ((((bs.filter (kept zl zu)).map (fun b => (b.v, heightHere zl zu b))).map (·.2)).sum - (zu - zl))
      then none else some ((bs.filter (kept zl zu)).map (fun b => (b.v, heightHere zl zu b))) := by
  have hne : bs ≠ [] := by
    intro he; subst he; simp [topOf] at hhi; linarith
  obtain ⟨bl, hbl, hbl1, hbl2⟩ := exists_block_at bs z0 zl hc h0 hne hlo (le_trans (le_of_lt hlt) hhi)
  obtain ⟨bu, hbu, hbu1, hbu2⟩ := exists_block_at bs z0 zu hc h0 hne (le_trans hlo (le_of_lt hlt)) hhi
  have hml : marked zl zu bl = true := by
    unfold marked; simp only [Bool.and_eq_true, decide_eq_true_eq]; exact ⟨hbl2, by linarith⟩
  have hmu : marked zl zu bu = true := by
    unfold marked; simp only [Bool.and_eq_true, decide_eq_true_eq]; exact ⟨by linarith, hbu1⟩
  unfold blocksBetween
  simp only []
  have hmem : ∀ b ∈ bs, marked zl zu b = true →
      b.zb ∈ (bs.filter (marked zl zu)).flatMap (fun b => [b.zb, b.zt]) ∧
      b.zt ∈ (bs.filter (marked zl zu)).flatMap (fun b => [b.zb, b.zt]) := by
    intro b hb hm
    constructor <;> (rw [List.mem_flatMap]; exact ⟨b, List.mem_filter.mpr ⟨hb, hm⟩, by simp⟩)
  split
  · next heq =>
    have := (hmem bl hbl hml).1
    rw [heq] at this; cases this
  · next p ps heq =>
    have hlo' : ps.foldl rmin p ≤ zl := by
      have hm := (hmem bl hbl hml).1
      rw [heq] at hm
      obtain ⟨h1, h2⟩ := foldl_rmin_le ps p
      rcases List.mem_cons.mp hm with he | hm
      · rw [he] at hbl1; exact le_trans h1 hbl1
      · exact le_trans (h2 _ hm) hbl1
    have hhi' : zu ≤ ps.foldl rmax p := by
      have hm := (hmem bu hbu hmu).2
      rw [heq] at hm
      obtain ⟨h1, h2⟩ := le_foldl_rmax ps p
      rcases List.mem_cons.mp hm with he | hm
      · rw [he] at hbu2; exact le_trans hbu2 h1
      · exact le_trans hbu2 (h2 _ hm)
    have hexp : rmin (ps.foldl rmax p - ps.foldl rmin p) (zu - zl) = zu - zl :=
      rmin_eq_right _ _ (by linarith)
    rw [hexp]

/-- a block is reported exactly when it overlaps the window by more than `1e-10` of its height -/
theorem kept_iff_above_filter (zl zu : Rat) (b : Blk α) (hw : b.zb < b.zt ∧ b.h = b.zt - b.zb) :
    (kept zl zu b = true ↔ EPS < ovl zl zu b / b.h) ∧ (kept zl zu b = true → heightHere zl zu b = ovl zl zu b) := by
  have hh : 0 < b.h := by rw [hw.2]; linarith
  have key : kept zl zu b = true → 0 < heightHere zl zu b := by
    intro hk
    unfold kept at hk
    simp only [Bool.and_eq_true, decide_eq_true_eq] at hk
    have h1 : 0 < heightHere zl zu b / b.h := lt_trans EPS_pos hk.2
    rcases div_pos_iff.mp h1 with ⟨h2, _⟩ | ⟨_, h3⟩
    · exact h2
    · linarith
  refine ⟨⟨?_, ?_⟩, fun hk => (ovl_of_pos zl zu b (key hk)).symm⟩
  · intro hk
    rw [ovl_of_pos zl zu b (key hk)]
    unfold kept at hk
    simp only [Bool.and_eq_true, decide_eq_true_eq] at hk
    exact hk.2
  · intro hp
    have hpos : 0 < ovl zl zu b := by
      have : 0 < ovl zl zu b / b.h := lt_trans EPS_pos hp
      rcases div_pos_iff.mp this with ⟨h2, _⟩ | ⟨_, h3⟩
      · exact h2
      · linarith
    have hp' := (ovl_pos_iff zl zu b).mp hpos
    rw [ovl_of_pos zl zu b hp'] at hp
    unfold kept marked
    simp only [Bool.and_eq_true, decide_eq_true_eq]
    refine ⟨⟨?_, ?_⟩, hp⟩
    · have := rmin_le_left b.zt zu; have := le_rmax_right b.zb zl
      unfold heightHere at hp'; linarith
    · have := rmin_le_right b.zt zu; have := le_rmax_left b.zb zl
      unfold heightHere at hp'; linarith

private theorem sum_filter_split {β : Type} (p : β → Bool) (g : β → Rat) (l : List β) :
    (l.map g).sum = ((l.filter p).map g).sum + ((l.filter (fun x => !p x)).map g).sum := by
  induction l with
  | nil => simp
  | cons a t ih =>
    by_cases hp : p a = true
    · simp [hp, ih]; ring
    · simp [hp, ih]; ring

/-- **exactly when the `1e-10` sliver filter changes the result** (no `NoSliver` hypothesis): for a window inside a
well-formed assembly `getBlocksBetweenElevations` reports precisely the blocks that overlap the window by more than
`1e-10` of their own height, each with its overlap length; the blocks it drops are the slivers
`0 ≤ |b ∩ window| ≤ 1e-10·h_b`; the reported heights sum to `zu − zl` minus the dropped slivers; and the call raises
exactly when the dropped slivers add up to more than `1e-5`. -/
theorem blocksBetween_sliver_characterisation (bs : List (Blk α)) (z0 zl zu : Rat) (hc : Contig bs)
    (h0 : StartsAt z0 bs) (hlo : z0 ≤ zl) (hlt : zl < zu) (hhi : zu ≤ topOf z0 bs) :
    blocksBetween bs zl zu =
      (if TOL < ((bs.filter (fun b => !kept zl zu b)).map (ovl zl zu)).sum then none
       else some ((bs.filter (kept zl zu)).map (fun b => (b.v, ovl zl zu b)))) ∧
    (∀ b ∈ bs, kept zl zu b = true ↔ EPS < ovl zl zu b / b.h) ∧
    (((bs.filter (kept zl zu)).map (ovl zl zu)).sum
      = (zu - zl) - ((bs.filter (fun b => !kept zl zu b)).map (ovl zl zu)).sum) := by
  have hsplit := sum_filter_split (kept zl zu) (ovl zl zu) bs
  rw [overlap_partition bs z0 zl zu (le_of_lt hlt) hc h0 hlo hhi] at hsplit
  have hS : 0 ≤ ((bs.filter (fun b => !kept zl zu b)).map (ovl zl zu)).sum := by
    apply List.sum_nonneg
    intro x hx
    obtain ⟨b, _, rfl⟩ := List.mem_map.mp hx
    exact ovl_nonneg zl zu b
  have hlist : (bs.filter (kept zl zu)).map (fun b => (b.v, heightHere zl zu b))
      = (bs.filter (kept zl zu)).map (fun b => (b.v, ovl zl zu b)) := by
    apply List.map_congr_left
    intro b hb
    obtain ⟨hb1, hb2⟩ := List.mem_filter.mp hb
    rw [(kept_iff_above_filter zl zu b (hc.mem b hb1)).2 hb2]
  refine ⟨?_, fun b hb => (kept_iff_above_filter zl zu b (hc.mem b hb)).1, by linarith⟩
  rw [blocksBetween_check bs z0 zl zu hc h0 hlo hlt hhi, hlist, List.map_map]
  have e : ((fun x : α × Rat => x.2) ∘ fun b : Blk α => (b.v, ovl zl zu b)) = ovl zl zu := rfl
  rw [e]
  have : rabs (((bs.filter (kept zl zu)).map (ovl zl zu)).sum - (zu - zl))
      = ((bs.filter (fun b => !kept zl zu b)).map (ovl zl zu)).sum := by
    have : ((bs.filter (kept zl zu)).map (ovl zl zu)).sum - (zu - zl)
        = -((bs.filter (fun b => !kept zl zu b)).map (ovl zl zu)).sum := by linarith
    rw [this]; unfold rabs; split_ifs <;> linarith
  rw [this]

/-- **The blocks reported between two elevations partition the interval**: the call succeeds, every
reported overlap height is positive, and the heights sum to the length of the interval. -/
theorem blocksBetween_partition (bs : List (Blk α)) (z0 zl zu : Rat) (hc : Contig bs) (h0 : StartsAt z0 bs)
    (hlo : z0 ≤ zl) (hlt : zl < zu) (hhi : zu ≤ topOf z0 bs) (hn : ∀ b ∈ bs, NoSliver zl zu b) :
    ∃ l, blocksBetween bs zl zu = some l ∧ (∀ x ∈ l, 0 < x.2) ∧ (l.map (·.2)).sum = zu - zl := by
  refine ⟨_, blocksBetween_eq bs z0 zl zu hc h0 hlo hlt hhi hn, ?_, ?_⟩
  · intro x hx
    obtain ⟨b, hb, rfl⟩ := List.mem_map.mp hx
    obtain ⟨hb1, hb2⟩ := List.mem_filter.mp hb
    obtain ⟨k1, k2⟩ := kept_spec zl zu b (hc.mem b hb1) (hn b hb1)
    simp only []
    rw [k2 hb2]; exact k1.mp hb2
  · rw [List.map_map]
    have := sum_kept zl zu bs hc hn (fun _ => 1)
    simp only [one_mul] at this
    have e : ((fun x : α × Rat => x.2) ∘ fun b : Blk α => (b.v, heightHere zl zu b)) = fun b => heightHere zl zu b := rfl
    rw [e, this]
    exact overlap_partition bs z0 zl zu (le_of_lt hlt) hc h0 hlo hhi

/-! ### number densities: atoms are conserved -/

private theorem mapM_some {β γ : Type} (f : β → Option γ) (g : β → γ) :
    ∀ (l : List β), (∀ x ∈ l, f x = some (g x)) → l.mapM f = some (l.map g)
  | [], _ => rfl
  | a :: t, h => by
    have ha := h a List.mem_cons_self
    have ht := mapM_some f g t (fun x hx => h x (List.mem_cons_of_mem _ hx))
    simp [List.mapM_cons, ha, ht]

/-- every block of a contiguous stack lies between the stack's bottom and top -/
private theorem mem_bounds : ∀ (bs : List (Blk α)) (z0 : Rat), Contig bs → StartsAt z0 bs →
    ∀ b ∈ bs, z0 ≤ b.zb ∧ b.zt ≤ topOf z0 bs
  | [], _, _, _ => by intro b hb; cases hb
  | [a], z0, hc, h0 => by
    intro b hb
    rw [List.mem_singleton.mp hb]
    exact ⟨le_of_eq (h0 a rfl).symm, by simp [topOf]⟩
  | a :: c :: t, z0, hc, h0 => by
    intro b hb
    have hs : StartsAt a.zt (c :: t) := by
      intro x hx; simp at hx; subst hx; exact hc.2.2.1.symm
    have htop : a.zt ≤ topOf a.zt (c :: t) := by
      have := (mem_bounds (c :: t) a.zt hc.2.2.2 hs c List.mem_cons_self)
      have hcw := hc.2.2.2.head
      rw [← hc.2.2.1] at this
      linarith [this.1, this.2, hcw.1, hc.2.2.1]
    rcases List.mem_cons.mp hb with rfl | hb
    · exact ⟨le_of_eq (h0 b rfl).symm, by simpa [topOf] using htop⟩
    · have := mem_bounds (c :: t) a.zt hc.2.2.2 hs b hb
      have ha := h0 a rfl
      refine ⟨?_, by simpa [topOf] using this.2⟩
      linarith [this.1, hc.1]

/-- the list reported for a window is not empty -/
private theorem kept_ne_nil (bs : List (Blk α)) (z0 zl zu : Rat) (hc : Contig bs) (h0 : StartsAt z0 bs)
    (hlo : z0 ≤ zl) (hlt : zl < zu) (hhi : zu ≤ topOf z0 bs) (hn : ∀ b ∈ bs, NoSliver zl zu b) :
    (bs.filter (kept zl zu)).map (fun b => (b.v, heightHere zl zu b)) ≠ [] := by
  intro he
  obtain ⟨l, hl, _, hsum⟩ := blocksBetween_partition bs z0 zl zu hc h0 hlo hlt hhi hn
  rw [blocksBetween_eq bs z0 zl zu hc h0 hlo hlt hhi hn] at hl
  have : l = [] := by rw [← Option.some.inj hl]; exact he
  rw [this] at hsum; simp at hsum; linarith

/-- hypotheses shared by the re-meshing theorems: source and destination are well-formed stacks over
the same height, and no destination cell cuts a sliver thinner than `1e-10` of a source block -/
structure Remeshable (src : List (Blk α)) {β : Type} (dst : List (Blk β)) (z0 : Rat) : Prop where
  csrc : Contig src
  cdst : Contig dst
  ssrc : StartsAt z0 src
  sdst : StartsAt z0 dst
  top  : topOf z0 src = topOf z0 dst
  nosl : ∀ d ∈ dst, ∀ s ∈ src, NoSliver d.zb d.zt s

/-- Σ_d Σ_s w(s)·|d ∩ s| = Σ_s w(s)·h_s : the destination mesh partitions every source block -/
private theorem double_sum {β : Type} (src : List (Blk α)) (dst : List (Blk β)) (z0 : Rat)
    (H : Remeshable src dst z0) (w : Blk α → Rat) :
    (dst.map (fun d => (src.map (fun s => w s * ovl d.zb d.zt s)).sum)).sum = (src.map (fun s => w s * s.h)).sum := by
  rw [sum_sum_comm (fun (d : Blk β) (s : Blk α) => w s * ovl d.zb d.zt s) dst src]
  congr 1
  apply List.map_congr_left
  intro s hs
  have hw := H.csrc.mem s hs
  have hb := mem_bounds src z0 H.csrc H.ssrc s hs
  rw [sum_map_mul_left]
  have : (dst.map (fun d => ovl d.zb d.zt s)) = dst.map (ovl s.zb s.zt) := by
    apply List.map_congr_left
    intro d _
    exact ovl_symm d.zb d.zt s d rfl rfl
  rw [this, overlap_partition dst z0 s.zb s.zt (le_of_lt hw.1) H.cdst H.sdst hb.1 (by rw [← H.top]; exact hb.2), hw.2]

/-- the mapped number density of one destination block: Σ_s N_s·|d ∩ s| / H_d -/
def mappedND (src : List (Blk Rat)) {β : Type} (d : Blk β) : Rat :=
  (src.map (fun s => s.v * ovl d.zb d.zt s)).sum / d.h

private theorem setND_eq (src : List (Blk Rat)) (d : Blk Unit) (z0 : Rat) (hc : Contig src)
    (hn : ∀ s ∈ src, NoSliver d.zb d.zt s) :
    setND d.h ((src.filter (kept d.zb d.zt)).map (fun b => (b.v, heightHere d.zb d.zt b))) = mappedND src d := by
  unfold setND mappedND
  rw [List.map_map]
  have e : ((fun x : Rat × Rat => x.1 * (x.2 / d.h)) ∘ fun b : Blk Rat => (b.v, heightHere d.zb d.zt b))
      = fun b => (b.v / d.h) * heightHere d.zb d.zt b := by
    funext b; simp only [Function.comp]; ring
  rw [e, sum_kept d.zb d.zt src hc hn (fun b => b.v / d.h)]
  rw [div_eq_mul_inv, ← sum_map_mul_right]
  congr 1
  apply List.map_congr_left
  intro b _; ring

/-- **`setNumberDensitiesFromOverlaps` over a whole assembly**: every destination block is written, with
the height-weighted mean of the source densities it overlaps. -/
theorem remapND_eq (src : List (Blk Rat)) (dst : List (Blk Unit)) (z0 : Rat) (H : Remeshable src dst z0) :
    remapND src dst = some (dst.map (fun d => DestVal.set (mappedND src d))) := by
  unfold remapND
  apply mapM_some
  intro d hd
  have hw := H.cdst.mem d hd
  have hb := mem_bounds dst z0 H.cdst H.sdst d hd
  have hhi : d.zt ≤ topOf z0 src := by rw [H.top]; exact hb.2
  rw [blocksBetween_eq src z0 d.zb d.zt H.csrc H.ssrc hb.1 hw.1 hhi (H.nosl d hd)]
  have hne := kept_ne_nil src z0 d.zb d.zt H.csrc H.ssrc hb.1 hw.1 hhi (H.nosl d hd)
  have hs := setND_eq src d z0 H.csrc (H.nosl d hd)
  cases hL : (src.filter (kept d.zb d.zt)).map (fun b => (b.v, heightHere d.zb d.zt b)) with
  | nil => exact absurd hL hne
  | cons x xs => simp only []; rw [← hL, hs]

/-- **atoms are conserved**: Σ_d N'_d·H_d = Σ_s N_s·h_s for every nuclide, for any two meshes over the
same height (`Remeshable`). -/
theorem atoms_conserved (src : List (Blk Rat)) (dst : List (Blk Unit)) (z0 : Rat) (H : Remeshable src dst z0) :
    (dst.map (fun d => mappedND src d * d.h)).sum = (src.map (fun s => s.v * s.h)).sum := by
  rw [← double_sum src dst z0 H (fun s => s.v)]
  congr 1
  apply List.map_congr_left
  intro d hd
  have hw := H.cdst.mem d hd
  have : d.h ≠ 0 := by rw [hw.2]; linarith [hw.1]
  unfold mappedND
  field_simp

/-! ### block parameters: integrated / averaged / peak -/

/-- relabelling the payload keeps the geometry -/
private def GeoEq {β : Type} (g : Blk α → Blk β) : Prop := ∀ b, (g b).zb = b.zb ∧ (g b).zt = b.zt ∧ (g b).h = b.h

private theorem contig_map {β : Type} (g : Blk α → Blk β) (hg : GeoEq g) : ∀ bs : List (Blk α), Contig bs → Contig (bs.map g)
  | [], _ => trivial
  | [b], h => by
    obtain ⟨h1, h2, h3⟩ := hg b
    simp only [List.map_cons, List.map_nil, Contig, h1, h2, h3]; exact h
  | b :: c :: t, h => by
    obtain ⟨h1, h2, h3⟩ := hg b
    have ih := contig_map g hg (c :: t) h.2.2.2
    simp only [List.map_cons, Contig, h1, h2, h3, (hg c).1] at ih ⊢
    exact ⟨h.1, h.2.1, h.2.2.1, ih⟩

private theorem topOf_map {β : Type} (g : Blk α → Blk β) (hg : GeoEq g) : ∀ (bs : List (Blk α)) (z0 : Rat),
    topOf z0 (bs.map g) = topOf z0 bs
  | [], _ => rfl
  | b :: t, z0 => by simp only [List.map_cons, topOf, (hg b).2.1]; exact topOf_map g hg t b.zt

private theorem startsAt_map {β : Type} (g : Blk α → Blk β) (hg : GeoEq g) (bs : List (Blk α)) (z0 : Rat)
    (h : StartsAt z0 bs) : StartsAt z0 (bs.map g) := by
  intro x hx
  cases bs with
  | nil => simp at hx
  | cons b t => simp at hx; subst hx; rw [(hg b).1]; exact h b rfl

private theorem ovl_map {β : Type} (g : Blk α → Blk β) (hg : GeoEq g) (zl zu : Rat) (b : Blk α) :
    ovl zl zu (g b) = ovl zl zu b := by
  unfold ovl; rw [(hg b).1, (hg b).2.1]

private theorem remeshable_map {β γ : Type} (g : Blk α → Blk β) (hg : GeoEq g) (src : List (Blk α))
    (dst : List (Blk γ)) (z0 : Rat) (H : Remeshable src dst z0) : Remeshable (src.map g) dst z0 where
  csrc := contig_map g hg src H.csrc
  cdst := H.cdst
  ssrc := startsAt_map g hg src z0 H.ssrc
  sdst := H.sdst
  top := by rw [topOf_map g hg]; exact H.top
  nosl := by
    intro d hd s hs
    obtain ⟨b, hb, rfl⟩ := List.mem_map.mp hs
    have := H.nosl d hd b hb
    unfold NoSliver at *
    rw [ovl_map g hg, (hg b).2.2]; exact this

/-- the source with every value present, as `setAssemblyStateFromOverlaps` sees it -/
def present (src : List (Blk Rat)) : List (Blk (Option Rat)) := src.map (fun b => { b with v := some b.v })

private def G (b : Blk Rat) : Blk (Rat × Option Rat) := ⟨b.zb, b.zt, b.h, (b.h, some b.v)⟩
private theorem G_geo : GeoEq G := fun _ => ⟨rfl, rfl, rfl⟩

private def term (k : Kind) (Hd : Rat) (x : (Rat × Option Rat) × Rat) : Rat :=
  x.1.2.getD 0 * (x.2 / (match k with | .integrated => x.1.1 | _ => Hd))

private theorem foldl_accum_some (k : Kind) (hk : k ≠ .peak) (Hd : Rat) :
    ∀ (L : List ((Rat × Option Rat) × Rat)) (acc : Rat), (∀ x ∈ L, ∃ v, x.1.2 = some v) →
      L.foldl (accum k Hd) (some acc) = some (acc + (L.map (term k Hd)).sum)
  | [], acc, _ => by simp
  | x :: t, acc, h => by
    obtain ⟨v, hv⟩ := h x List.mem_cons_self
    have ih := foldl_accum_some k hk Hd t
    simp only [List.foldl_cons, List.map_cons, List.sum_cons]
    have : accum k Hd (some acc) x = some (acc + term k Hd x) := by
      unfold accum term; rw [hv]
      cases k <;> simp_all
    rw [this, ih _ (fun y hy => h y (List.mem_cons_of_mem _ hy))]
    congr 1; ring

private theorem mapParam_sum (k : Kind) (hk : k ≠ .peak) (Hd : Rat) (L : List ((Rat × Option Rat) × Rat))
    (hne : L ≠ []) (h : ∀ x ∈ L, ∃ v, x.1.2 = some v) : mapParam k Hd L = some ((L.map (term k Hd)).sum) := by
  cases L with
  | nil => exact absurd rfl hne
  | cons x t =>
    obtain ⟨v, hv⟩ := h x List.mem_cons_self
    unfold mapParam
    simp only [List.foldl_cons, List.map_cons, List.sum_cons]
    have : accum k Hd none x = some (term k Hd x) := by
      unfold accum term; rw [hv]
      cases k <;> simp_all
    rw [this, foldl_accum_some k hk Hd t _ (fun y hy => h y (List.mem_cons_of_mem _ hy))]

/-- value written for a non-peak parameter: Σ_s v_s · |d ∩ s| / (h_s resp. H_d) -/
def mappedParam (k : Kind) (src : List (Blk Rat)) {β : Type} (d : Blk β) : Rat :=
  (src.map (fun s => s.v * (ovl d.zb d.zt s / (match k with | .integrated => s.h | _ => d.h)))).sum

/-- **`setAssemblyStateFromOverlaps` for an integrated or averaged parameter**: every destination
block is written with the overlap-weighted sum of the source values. -/
theorem remapParam_eq (k : Kind) (hk : k ≠ .peak) (src : List (Blk Rat)) (dst : List (Blk Unit)) (z0 : Rat)
    (H : Remeshable src dst z0) :
    remapParam k (present src) dst = some (dst.map (fun d => DestVal.set (mappedParam k src d))) := by
  unfold remapParam present
  rw [List.map_map]
  have eG : ((fun b : Blk (Option Rat) => ({ b with v := (b.h, b.v) } : Blk (Rat × Option Rat))) ∘
      fun b : Blk Rat => ({ b with v := some b.v } : Blk (Option Rat))) = G := rfl
  rw [eG]
  have H' := remeshable_map G G_geo src dst z0 H
  apply mapM_some
  intro d hd
  have hw := H.cdst.mem d hd
  have hb := mem_bounds dst z0 H.cdst H.sdst d hd
  have hhi : d.zt ≤ topOf z0 (src.map G) := by rw [H'.top]; exact hb.2
  rw [blocksBetween_eq (src.map G) z0 d.zb d.zt H'.csrc H'.ssrc hb.1 hw.1 hhi (H'.nosl d hd)]
  have hne := kept_ne_nil (src.map G) z0 d.zb d.zt H'.csrc H'.ssrc hb.1 hw.1 hhi (H'.nosl d hd)
  have hall : ∀ x ∈ ((src.map G).filter (kept d.zb d.zt)).map (fun b => (b.v, heightHere d.zb d.zt b)),
      ∃ v, x.1.2 = some v := by
    intro x hx
    obtain ⟨b, hb', rfl⟩ := List.mem_map.mp hx
    obtain ⟨s, _, rfl⟩ := List.mem_map.mp (List.mem_filter.mp hb').1
    exact ⟨s.v, rfl⟩
  have hval := mapParam_sum k hk d.h _ hne hall
  -- the sum over the reported blocks is the sum over all source blocks
  have hsum : ((((src.map G).filter (kept d.zb d.zt)).map (fun b => (b.v, heightHere d.zb d.zt b))).map (term k d.h)).sum
      = mappedParam k src d := by
    rw [List.map_map]
    have e : (term k d.h ∘ fun b : Blk (Rat × Option Rat) => (b.v, heightHere d.zb d.zt b))
        = fun b => (b.v.2.getD 0 / (match k with | .integrated => b.v.1 | _ => d.h)) * heightHere d.zb d.zt b := by
      funext b; simp only [Function.comp, term]; ring
    rw [e, sum_kept d.zb d.zt (src.map G) H'.csrc (H'.nosl d hd)
      (fun b => b.v.2.getD 0 / (match k with | .integrated => b.v.1 | _ => d.h)), List.map_map]
    unfold mappedParam
    congr 1
    apply List.map_congr_left
    intro s _
    have ho : ovl d.zb d.zt (G s) = ovl d.zb d.zt s := ovl_map G G_geo _ _ s
    simp only [Function.comp]
    rw [ho]
    simp only [G, Option.getD_some]
    ring
  cases hL : ((src.map G).filter (kept d.zb d.zt)).map (fun b => (b.v, heightHere d.zb d.zt b)) with
  | nil => exact absurd hL hne
  | cons x xs =>
    simp only []
    rw [← hL, hval, hsum]

/-- **the assembly total of every volume-integrated quantity is conserved** -/
theorem integrated_total_conserved (src : List (Blk Rat)) (dst : List (Blk Unit)) (z0 : Rat)
    (H : Remeshable src dst z0) :
    (dst.map (fun d => mappedParam .integrated src d)).sum = (src.map (·.v)).sum := by
  unfold mappedParam
  have := double_sum src dst z0 H (fun s => s.v / s.h)
  have e1 : (dst.map (fun d => (src.map (fun s => s.v * (ovl d.zb d.zt s / s.h))).sum))
      = dst.map (fun d => (src.map (fun s => s.v / s.h * ovl d.zb d.zt s)).sum) := by
    apply List.map_congr_left; intro d _; congr 1
    apply List.map_congr_left; intro s _; ring
  simp only [] at e1 ⊢
  rw [e1, this]
  congr 1
  apply List.map_congr_left
  intro s hs
  have hw := H.csrc.mem s hs
  have : s.h ≠ 0 := by rw [hw.2]; linarith [hw.1]
  field_simp

/-- **every other quantity gets the height-weighted mean of the source values it overlaps**
(the weights `|d ∩ s| / H_d` are non-negative and sum to one, see `weights_sum_to_height`) -/
theorem average_is_height_weighted_mean (src : List (Blk Rat)) {β : Type} (d : Blk β) :
    mappedParam .averaged src d = (src.map (fun s => s.v * ovl d.zb d.zt s)).sum / d.h := by
  unfold mappedParam
  rw [div_eq_mul_inv, ← sum_map_mul_right]
  congr 1
  apply List.map_congr_left; intro s _; simp only []; ring

theorem weights_sum_to_height (src : List (Blk Rat)) (dst : List (Blk Unit)) (z0 : Rat) (H : Remeshable src dst z0)
    (d : Blk Unit) (hd : d ∈ dst) : (src.map (ovl d.zb d.zt)).sum = d.h ∧ ∀ s ∈ src, 0 ≤ ovl d.zb d.zt s := by
  have hw := H.cdst.mem d hd
  have hb := mem_bounds dst z0 H.cdst H.sdst d hd
  refine ⟨?_, fun s _ => ovl_nonneg _ _ s⟩
  rw [overlap_partition src z0 d.zb d.zt (le_of_lt hw.1) H.csrc H.ssrc hb.1 (by rw [H.top]; exact hb.2), hw.2]

/-- **constant profiles stay constant** -/
theorem constant_stays_constant (src : List (Blk Rat)) (dst : List (Blk Unit)) (z0 c : Rat)
    (H : Remeshable src dst z0) (hc : ∀ s ∈ src, s.v = c) (d : Blk Unit) (hd : d ∈ dst) :
    mappedParam .averaged src d = c := by
  rw [average_is_height_weighted_mean]
  have hw := H.cdst.mem d hd
  have hne : d.h ≠ 0 := by rw [hw.2]; linarith [hw.1]
  have e : (src.map (fun s => s.v * ovl d.zb d.zt s)) = src.map (fun s => c * ovl d.zb d.zt s) := by
    apply List.map_congr_left; intro s hs; rw [hc s hs]
  rw [e, sum_map_mul_left, (weights_sum_to_height src dst z0 H d hd).1]
  field_simp

/-- **mapping a state onto another mesh and back restores the assembly totals** of integrated
quantities (and, by `atoms_conserved` twice, the atoms of every nuclide) -/
theorem roundtrip_totals (src : List (Blk Rat)) (dst : List (Blk Unit)) (z0 : Rat)
    (H : Remeshable src dst z0)
    (H' : Remeshable (dst.map (fun d => (⟨d.zb, d.zt, d.h, mappedParam .integrated src d⟩ : Blk Rat)))
            (src.map (fun s => (⟨s.zb, s.zt, s.h, ()⟩ : Blk Unit))) z0) :
    ((src.map (fun s => (⟨s.zb, s.zt, s.h, ()⟩ : Blk Unit))).map
        (fun s' => mappedParam .integrated
          (dst.map (fun d => (⟨d.zb, d.zt, d.h, mappedParam .integrated src d⟩ : Blk Rat))) s')).sum
      = (src.map (·.v)).sum := by
  rw [integrated_total_conserved _ _ z0 H', List.map_map]
  exact integrated_total_conserved src dst z0 H

/-! ### peak parameters -/

private theorem foldl_accum_peak (Hd : Rat) :
    ∀ (L : List ((Rat × Option Rat) × Rat)) (acc : Rat), (∀ x ∈ L, ∃ v, x.1.2 = some v) →
      L.foldl (accum .peak Hd) (some acc) = some ((L.map (fun x => x.1.2.getD 0)).foldl rmax acc)
  | [], acc, _ => by simp
  | x :: t, acc, h => by
    obtain ⟨v, hv⟩ := h x List.mem_cons_self
    simp only [List.foldl_cons, List.map_cons]
    have : accum .peak Hd (some acc) x = some (rmax acc (x.1.2.getD 0)) := by
      unfold accum; rw [hv]; simp
    rw [this, foldl_accum_peak Hd t _ (fun y hy => h y (List.mem_cons_of_mem _ hy))]

private theorem mapParam_peak (Hd : Rat) (L : List ((Rat × Option Rat) × Rat)) (hne : L ≠ [])
    (h : ∀ x ∈ L, ∃ v, x.1.2 = some v) :
    mapParam .peak Hd L = some ((L.map (fun x => x.1.2.getD 0)).foldl rmax 0) := by
  cases L with
  | nil => exact absurd rfl hne
  | cons x t =>
    obtain ⟨v, hv⟩ := h x List.mem_cons_self
    unfold mapParam
    simp only [List.foldl_cons, List.map_cons]
    have : accum .peak Hd none x = some (rmax 0 (x.1.2.getD 0)) := by
      unfold accum; rw [hv]; simp
    rw [this, foldl_accum_peak Hd t _ (fun y hy => h y (List.mem_cons_of_mem _ hy))]

private theorem foldl_rmax_mem : ∀ (l : List Rat) (a : Rat), l.foldl rmax a = a ∨ l.foldl rmax a ∈ l
  | [], a => Or.inl rfl
  | x :: t, a => by
    simp only [List.foldl_cons]
    rcases foldl_rmax_mem t (rmax a x) with h | h
    · rw [h]; unfold rmax; split_ifs
      · exact Or.inr List.mem_cons_self
      · exact Or.inl rfl
    · exact Or.inr (List.mem_cons_of_mem _ h)

/-- **peak quantities take the largest overlapped value** — for non-negative source values
(the running maximum starts from `defaultdict(float)`'s 0.0; see the witness below for negative ones). -/
theorem peak_is_max (src : List (Blk Rat)) (dst : List (Blk Unit)) (z0 : Rat) (H : Remeshable src dst z0)
    (hpos : ∀ s ∈ src, 0 ≤ s.v) :
    ∃ pk : Blk Unit → Rat, remapParam .peak (present src) dst = some (dst.map (fun d => DestVal.set (pk d))) ∧
      ∀ d ∈ dst, (∀ s ∈ src, 0 < ovl d.zb d.zt s → s.v ≤ pk d) ∧ (∃ s ∈ src, 0 < ovl d.zb d.zt s ∧ s.v = pk d) := by
  have H' := remeshable_map G G_geo src dst z0 H
  refine ⟨fun d => ((((src.map G).filter (kept d.zb d.zt)).map (fun b => (b.v, heightHere d.zb d.zt b))).map
      (fun x => x.1.2.getD 0)).foldl rmax 0, ?_, ?_⟩
  · unfold remapParam present
    rw [List.map_map]
    have eG : ((fun b : Blk (Option Rat) => ({ b with v := (b.h, b.v) } : Blk (Rat × Option Rat))) ∘
        fun b : Blk Rat => ({ b with v := some b.v } : Blk (Option Rat))) = G := rfl
    rw [eG]
    apply mapM_some
    intro d hd
    have hw := H.cdst.mem d hd
    have hb := mem_bounds dst z0 H.cdst H.sdst d hd
    have hhi : d.zt ≤ topOf z0 (src.map G) := by rw [H'.top]; exact hb.2
    rw [blocksBetween_eq (src.map G) z0 d.zb d.zt H'.csrc H'.ssrc hb.1 hw.1 hhi (H'.nosl d hd)]
    have hne := kept_ne_nil (src.map G) z0 d.zb d.zt H'.csrc H'.ssrc hb.1 hw.1 hhi (H'.nosl d hd)
    have hall : ∀ x ∈ ((src.map G).filter (kept d.zb d.zt)).map (fun b => (b.v, heightHere d.zb d.zt b)),
        ∃ v, x.1.2 = some v := by
      intro x hx
      obtain ⟨b, hb', rfl⟩ := List.mem_map.mp hx
      obtain ⟨s, _, rfl⟩ := List.mem_map.mp (List.mem_filter.mp hb').1
      exact ⟨s.v, rfl⟩
    have hval := mapParam_peak d.h _ hne hall
    cases hL : ((src.map G).filter (kept d.zb d.zt)).map (fun b => (b.v, heightHere d.zb d.zt b)) with
    | nil => exact absurd hL hne
    | cons x xs => simp only []; rw [← hL, hval]
  · intro d hd
    dsimp only
    have hw := H.cdst.mem d hd
    have hb := mem_bounds dst z0 H.cdst H.sdst d hd
    have hhi : d.zt ≤ topOf z0 (src.map G) := by rw [H'.top]; exact hb.2
    -- the values folded over are exactly the values of the overlapping source blocks
    have hvals : ∀ v, v ∈ ((((src.map G).filter (kept d.zb d.zt)).map (fun b => (b.v, heightHere d.zb d.zt b))).map
        (fun x => x.1.2.getD 0)) ↔ ∃ s ∈ src, 0 < ovl d.zb d.zt s ∧ s.v = v := by
      intro v
      simp only [List.map_map, List.mem_map, List.mem_filter, Function.comp]
      constructor
      · rintro ⟨b, ⟨⟨s, hs, rfl⟩, hk⟩, rfl⟩
        have hks := kept_spec d.zb d.zt (G s) (H'.csrc.mem _ (List.mem_map.mpr ⟨s, hs, rfl⟩))
          (H'.nosl d hd _ (List.mem_map.mpr ⟨s, hs, rfl⟩))
        refine ⟨s, hs, ?_, rfl⟩
        rw [← ovl_map G G_geo]; exact hks.1.mp hk
      · rintro ⟨s, hs, hp, rfl⟩
        have hks := kept_spec d.zb d.zt (G s) (H'.csrc.mem _ (List.mem_map.mpr ⟨s, hs, rfl⟩))
          (H'.nosl d hd _ (List.mem_map.mpr ⟨s, hs, rfl⟩))
        exact ⟨G s, ⟨⟨s, hs, rfl⟩, hks.1.mpr (by rw [ovl_map G G_geo]; exact hp)⟩, rfl⟩
    generalize hV : ((((src.map G).filter (kept d.zb d.zt)).map (fun b => (b.v, heightHere d.zb d.zt b))).map
        (fun x => x.1.2.getD 0)) = V at hvals
    have hneV : V ≠ [] := by
      have hne := kept_ne_nil (src.map G) z0 d.zb d.zt H'.csrc H'.ssrc hb.1 hw.1 hhi (H'.nosl d hd)
      intro he; rw [he] at hV
      exact hne (List.map_eq_nil_iff.mp hV)
    have hub := (le_foldl_rmax V 0)
    constructor
    · intro s hs hp
      exact hub.2 s.v ((hvals s.v).mpr ⟨s, hs, hp, rfl⟩)
    · rcases foldl_rmax_mem V 0 with h0 | hm
      · -- the maximum is 0: every overlapped value is 0 (they are ≥ 0), and there is at least one
        cases V with
        | nil => exact absurd rfl hneV
        | cons v t =>
          obtain ⟨s, hs, hp, hv⟩ := (hvals v).mp List.mem_cons_self
          refine ⟨s, hs, hp, ?_⟩
          have h1 : v ≤ List.foldl rmax 0 (v :: t) := hub.2 v List.mem_cons_self
          rw [h0] at h1 ⊢
          have := hpos s hs
          rw [hv] at this ⊢; linarith
      · obtain ⟨s, hs, hp, hv⟩ := (hvals _).mp hm
        exact ⟨s, hs, hp, hv⟩

/-- the excluded point of `peak_is_max` (known finding F8): all-negative peaks −5, −6 map to 0.0 -/
example : remapParam .peak (present [⟨0, 25, 25, -5⟩, ⟨25, 50, 25, -6⟩]) [⟨0, 50, 50, ()⟩] = some [DestVal.set 0] := by
  decide +kernel

/-! ### mesh generation: `_filterMesh` -/

private theorem mem_insertU (x y : Rat) : ∀ l : List Rat, y ∈ insertU x l ↔ y = x ∨ y ∈ l
  | [] => by simp [insertU]
  | a :: t => by
    unfold insertU
    split_ifs with h1 h2
    · simp
    · subst h2; simp
    · simp only [List.mem_cons, mem_insertU x y t]; tauto

private theorem insertU_sorted (x : Rat) : ∀ l : List Rat, l.Pairwise (· < ·) → (insertU x l).Pairwise (· < ·)
  | [], _ => by simp [insertU]
  | a :: t, h => by
    obtain ⟨ha, ht⟩ := List.pairwise_cons.mp h
    unfold insertU
    split_ifs with h1 h2
    · exact List.pairwise_cons.mpr ⟨fun y hy => by
        rcases List.mem_cons.mp hy with rfl | hy
        · exact h1
        · exact lt_trans h1 (ha y hy), h⟩
    · exact h
    · refine List.pairwise_cons.mpr ⟨fun y hy => ?_, insertU_sorted x t ht⟩
      rcases (mem_insertU x y t).mp hy with rfl | hy
      · exact lt_of_le_of_ne (not_lt.mp h1) (Ne.symm h2)
      · exact ha y hy

private theorem sortU_spec (l : List Rat) : (sortU l).Pairwise (· < ·) ∧ ∀ y, y ∈ sortU l ↔ y ∈ l := by
  induction l with
  | nil => simp [sortU]
  | cons a t ih =>
    have e : sortU (a :: t) = insertU a (sortU t) := rfl
    rw [e]
    refine ⟨insertU_sorted a _ ih.1, fun y => ?_⟩
    rw [mem_insertU, ih.2 y, List.mem_cons]

/-- no two consecutive points closer than `m` -/
def GapsOK (m : Rat) : List Rat → Prop
  | a :: b :: t => m ≤ rabs (b - a) ∧ GapsOK m (b :: t)
  | _ => True

private theorem step_spec (m : Rat) (anch : List Rat) : ∀ l : List Rat, l.Pairwise (· ≠ ·) →
    (filterStep m anch l = .clean → GapsOK m l) ∧
    (∀ l', filterStep m anch l = .removed l' → l'.length + 1 = l.length ∧ l'.Sublist l ∧ ∀ x ∈ l, x ∈ anch → x ∈ l') ∧
    (filterStep m anch l = .anchors → ∃ a b, a ∈ l ∧ b ∈ l ∧ a ∈ anch ∧ b ∈ anch ∧ a ≠ b ∧ rabs (b - a) < m)
  | [], _ => by simp [filterStep, GapsOK]
  | [_], _ => by simp [filterStep, GapsOK]
  | a :: b :: t, hp => by
    obtain ⟨hab, hp'⟩ := List.pairwise_cons.mp hp
    obtain ⟨ih1, ih2, ih3⟩ := step_spec m anch (b :: t) hp'
    unfold filterStep
    split_ifs with hg hboth hb
    · refine ⟨by simp, by simp, fun _ => ⟨a, b, by simp, by simp, hboth.1, hboth.2, hab b (by simp), hg⟩⟩
    · refine ⟨by simp, ?_, by simp⟩
      intro l' hl'
      have : l' = b :: t := by simpa using hl'.symm
      subst this
      refine ⟨by simp, List.sublist_cons_self _ _, ?_⟩
      intro x hx hxa
      rcases List.mem_cons.mp hx with rfl | hx
      · exact absurd ⟨hxa, hb⟩ hboth
      · exact hx
    · refine ⟨by simp, ?_, by simp⟩
      intro l' hl'
      have : l' = a :: t := by simpa using hl'.symm
      subst this
      refine ⟨by simp, (List.sublist_cons_self b t).cons₂ a, ?_⟩
      intro x hx hxa
      rcases List.mem_cons.mp hx with rfl | hx
      · exact List.mem_cons_self
      · rcases List.mem_cons.mp hx with rfl | hx
        · exact absurd hxa hb
        · exact List.mem_cons_of_mem _ hx
    · cases hs : filterStep m anch (b :: t) with
      | clean =>
        refine ⟨fun _ => ⟨not_lt.mp hg, ih1 hs⟩, by simp, by simp⟩
      | removed l'' =>
        obtain ⟨k1, k2, k3⟩ := ih2 l'' hs
        refine ⟨by simp, ?_, by simp⟩
        intro l' hl'
        have : l' = a :: l'' := by simpa using hl'.symm
        subst this
        refine ⟨by simp [k1], k2.cons₂ a, ?_⟩
        intro x hx hxa
        rcases List.mem_cons.mp hx with rfl | hx
        · exact List.mem_cons_self
        · exact List.mem_cons_of_mem _ (k3 x hx hxa)
      | anchors =>
        obtain ⟨x, y, hx, hy, h3, h4, h5, h6⟩ := ih3 hs
        exact ⟨by simp, by simp, fun _ => ⟨x, y, List.mem_cons_of_mem _ hx, List.mem_cons_of_mem _ hy, h3, h4, h5, h6⟩⟩

private theorem loop_spec (m : Rat) (anch : List Rat) : ∀ (n : Nat) (l : List Rat), l.length < n → l.Pairwise (· ≠ ·) →
    filterLoop m anch n l ≠ .fuel ∧
    (∀ r, filterLoop m anch n l = .ok r → r.Sublist l ∧ GapsOK m r ∧ ∀ x ∈ l, x ∈ anch → x ∈ r) ∧
    (filterLoop m anch n l = .anchors → ∃ a b, a ∈ l ∧ b ∈ l ∧ a ∈ anch ∧ b ∈ anch ∧ a ≠ b ∧ rabs (b - a) < m)
  | 0, _, h, _ => absurd h (Nat.not_lt_zero _)
  | n + 1, l, h, hp => by
    obtain ⟨s1, s2, s3⟩ := step_spec m anch l hp
    unfold filterLoop
    cases hs : filterStep m anch l with
    | clean =>
      refine ⟨by simp, ?_, by simp⟩
      intro r hr
      have : r = l := by simpa using hr.symm
      subst this
      exact ⟨List.Sublist.refl _, s1 hs, fun x hx _ => hx⟩
    | removed l' =>
      obtain ⟨k1, k2, k3⟩ := s2 l' hs
      obtain ⟨i1, i2, i3⟩ := loop_spec m anch n l' (by omega) (hp.sublist k2)
      refine ⟨i1, ?_, ?_⟩
      · intro r hr
        obtain ⟨j1, j2, j3⟩ := i2 r hr
        exact ⟨j1.trans k2, j2, fun x hx hxa => j3 x (k3 x hx hxa) hxa⟩
      · intro ha
        obtain ⟨a, b, h1, h2, h3⟩ := i3 ha
        exact ⟨a, b, k2.subset h1, k2.subset h2, h3⟩
    | anchors =>
      exact ⟨by simp, by simp, fun _ => s3 hs⟩

/-- **`_filterMesh` specification.** The loop always terminates (never runs out of passes). On success the
result is strictly increasing, uses only candidate points, keeps every anchor that is a candidate, and no two
consecutive points are closer than the minimum (for preference "top" the consecutive pairs are listed in the
descending order in which the code walks them). It refuses only when two distinct anchors among the
candidates are closer than the minimum. -/
theorem filterMesh_spec (pts : List Rat) (m : Rat) (anch : List Rat) (top : Bool) :
    filterMesh pts m anch top ≠ .fuel ∧
    (∀ out, filterMesh pts m anch top = .ok out →
      out.Pairwise (· < ·) ∧ (∀ x ∈ out, x ∈ pts) ∧ (∀ a ∈ anch, a ∈ pts → a ∈ out) ∧
      GapsOK m (if top then out.reverse else out)) ∧
    (filterMesh pts m anch top = .anchors →
      ∃ a b, a ∈ pts ∧ b ∈ pts ∧ a ∈ anch ∧ b ∈ anch ∧ a ≠ b ∧ rabs (b - a) < m) := by
  obtain ⟨hs, hm⟩ := sortU_spec pts
  have hne : (sortU pts).Pairwise (· ≠ ·) := hs.imp (fun h => ne_of_lt h)
  unfold filterMesh
  cases top with
  | false =>
    simp only [Bool.false_eq_true, if_false]
    obtain ⟨l1, l2, l3⟩ := loop_spec m anch ((sortU pts).length + 1) (sortU pts) (by omega) hne
    cases hl : filterLoop m anch ((sortU pts).length + 1) (sortU pts) with
    | ok r =>
      obtain ⟨j1, j2, j3⟩ := l2 r hl
      refine ⟨by simp, ?_, by simp⟩
      intro out ho
      have : out = r := by simpa using ho.symm
      subst this
      exact ⟨hs.sublist j1, fun x hx => (hm x).mp (j1.subset hx), fun a ha hp => j3 a ((hm a).mpr hp) ha, j2⟩
    | anchors =>
      obtain ⟨a, b, h1, h2, h3⟩ := l3 hl
      exact ⟨by simp, by simp, fun _ => ⟨a, b, (hm a).mp h1, (hm b).mp h2, h3⟩⟩
    | fuel => exact absurd hl l1
  | true =>
    simp only [if_true]
    have hne' : (sortU pts).reverse.Pairwise (· ≠ ·) := List.pairwise_reverse.mpr (hne.imp (fun h => Ne.symm h))
    obtain ⟨l1, l2, l3⟩ := loop_spec m anch ((sortU pts).reverse.length + 1) (sortU pts).reverse (by omega) hne'
    cases hl : filterLoop m anch ((sortU pts).reverse.length + 1) (sortU pts).reverse with
    | ok r =>
      obtain ⟨j1, j2, j3⟩ := l2 r hl
      refine ⟨by simp, ?_, by simp⟩
      intro out ho
      have : out = r.reverse := by simpa using ho.symm
      subst this
      have hsub : r.reverse.Sublist (sortU pts) := by
        have := j1.reverse; rwa [List.reverse_reverse] at this
      refine ⟨hs.sublist hsub, fun x hx => (hm x).mp (hsub.subset hx), ?_, by rw [List.reverse_reverse]; exact j2⟩
      intro a ha hp
      exact List.mem_reverse.mpr (j3 a (List.mem_reverse.mpr ((hm a).mpr hp)) ha)
    | anchors =>
      obtain ⟨a, b, h1, h2, h3⟩ := l3 hl
      exact ⟨by simp, by simp, fun _ => ⟨a, b, (hm a).mp (List.mem_reverse.mp h1), (hm b).mp (List.mem_reverse.mp h2), h3⟩⟩
    | fuel => exact absurd hl l1

private theorem gaps_sorted_pair (m : Rat) : ∀ l : List Rat, l.Pairwise (· < ·) → GapsOK m l →
    ∀ a ∈ l, ∀ b ∈ l, a < b → m ≤ b - a
  | [], _, _ => by intro a ha; cases ha
  | [x], _, _ => by
    intro a ha b hb hab
    rw [List.mem_singleton.mp ha, List.mem_singleton.mp hb] at hab
    exact absurd hab (lt_irrefl _)
  | x :: y :: t, hs, hg => by
    obtain ⟨hx, hs'⟩ := List.pairwise_cons.mp hs
    have ih := gaps_sorted_pair m (y :: t) hs' hg.2
    have hxy : x < y := hx y List.mem_cons_self
    have hgap : m ≤ y - x := by
      have := hg.1; unfold rabs at this; split_ifs at this <;> linarith
    intro a ha b hb hab
    rcases List.mem_cons.mp ha with rfl | ha'
    · rcases List.mem_cons.mp hb with rfl | hb'
      · exact absurd hab (lt_irrefl _)
      · rcases List.mem_cons.mp hb' with rfl | hb''
        · exact hgap
        · have := (List.pairwise_cons.mp hs').1 b hb''
          linarith
    · rcases List.mem_cons.mp hb with rfl | hb'
      · exact absurd (lt_trans (hx a ha') hab) (lt_irrefl _)
      · exact ih a ha' b hb' hab

private theorem gaps_sorted_pair_desc (m : Rat) : ∀ l : List Rat, l.Pairwise (· > ·) → GapsOK m l →
    ∀ a ∈ l, ∀ b ∈ l, a < b → m ≤ b - a
  | [], _, _ => by intro a ha; cases ha
  | [x], _, _ => by
    intro a ha b hb hab
    rw [List.mem_singleton.mp ha, List.mem_singleton.mp hb] at hab
    exact absurd hab (lt_irrefl _)
  | x :: y :: t, hs, hg => by
    obtain ⟨hx, hs'⟩ := List.pairwise_cons.mp hs
    have ih := gaps_sorted_pair_desc m (y :: t) hs' hg.2
    have hxy : y < x := hx y List.mem_cons_self
    have hgap : m ≤ x - y := by
      have := hg.1; unfold rabs at this; split_ifs at this <;> linarith
    intro a ha b hb hab
    rcases List.mem_cons.mp hb with rfl | hb'
    · rcases List.mem_cons.mp ha with rfl | ha'
      · exact absurd hab (lt_irrefl _)
      · rcases List.mem_cons.mp ha' with rfl | ha''
        · exact hgap
        · have := (List.pairwise_cons.mp hs').1 a ha''
          linarith
    · rcases List.mem_cons.mp ha with rfl | ha'
      · exact absurd (lt_trans hab (hx b hb')) (lt_irrefl _)
      · exact ih a ha' b hb' hab

/-- **it fails loudly when two anchors are closer than the minimum** (the converse of the last clause of
`filterMesh_spec`), for both preferences. -/
theorem filterMesh_refuses_close_anchors (pts : List Rat) (m : Rat) (anch : List Rat) (top : Bool) (a b : Rat)
    (ha : a ∈ pts) (hb : b ∈ pts) (haa : a ∈ anch) (hba : b ∈ anch) (hab : a < b) (hclose : b - a < m) :
    filterMesh pts m anch top = .anchors := by
  obtain ⟨h1, h2, _⟩ := filterMesh_spec pts m anch top
  cases hr : filterMesh pts m anch top with
  | ok out =>
    obtain ⟨s1, _, s3, s4⟩ := h2 out hr
    cases top with
    | false =>
      simp only [Bool.false_eq_true, if_false] at s4
      have := gaps_sorted_pair m out s1 s4 a (s3 a haa ha) b (s3 b hba hb) hab
      linarith
    | true =>
      simp only [if_true] at s4
      have hd : out.reverse.Pairwise (· > ·) := List.pairwise_reverse.mpr s1
      have := gaps_sorted_pair_desc m out.reverse hd s4 a (List.mem_reverse.mpr (s3 a haa ha)) b
        (List.mem_reverse.mpr (s3 b hba hb)) hab
      linarith
  | anchors => rfl
  | fuel => exact absurd hr h1

/-- non-vacuity: an anchor with removable candidates on both sides, and a refusal -/
example : filterMesh [25, 97/2, 50, 52, 75, 100] 3 [50] false = .ok [25, 50, 75, 100] := by decide +kernel
example : filterMesh [0, 1, 3/2, 2] 1 [3/2, 2] true = .anchors := by decide +kernel

/-! ### step-function resampling (`resampleStepwise`) -/

private theorem dig2 (p q x : Rat) (hpq : p < q) :
    digitize [p, q] x = if x < p then 0 else if x < q then 1 else 2 := by
  unfold digitize
  by_cases h1 : x < p
  · have : ¬ p ≤ x := not_le.mpr h1
    have : ¬ q ≤ x := not_le.mpr (lt_trans h1 hpq)
    simp [List.filter, *]
  · by_cases h2 : x < q
    · have : ¬ q ≤ x := not_le.mpr h2
      simp [List.filter, not_lt.mp h1, *]
    · have : p ≤ x := not_lt.mp h1
      simp [List.filter, not_lt.mp h2, *]

/-- **an output cell strictly inside one input cell gets its covered share** `(b − a)/(q − p)·y` (the case
repaired by the F25 fix: both trims act on the same value; the code now applies `fr + fl − 1`), and the
total over the three output cells is `y`. -/
theorem resample_interior_cell (p q a b y : Rat) (h1 : p < a) (h2 : a < b) (h3 : b < q) :
    resample [p, q] [y] [p, a, b, q] false
      = some [y * ((a - p) / (q - p)), y * ((b - a) / (q - p)), y * ((q - b) / (q - p))] ∧
    (resample [p, q] [y] [p, a, b, q] false).map List.sum = some ([y].sum) := by
  have hpq : p < q := by linarith
  have hab : a < q := lt_trans h2 h3
  have hpb : p < b := lt_trans h1 h2
  have e1 : digitize [p, q] p = 1 := by rw [dig2 p q p hpq]; simp [hpq]
  have e2 : digitize [p, q] a = 1 := by rw [dig2 p q a hpq]; simp [not_lt.mpr (le_of_lt h1), hab]
  have e3 : digitize [p, q] b = 1 := by rw [dig2 p q b hpq]; simp [not_lt.mpr (le_of_lt hpb), h3]
  have e4 : digitize [p, q] q = 2 := by rw [dig2 p q q hpq]; simp [not_lt.mpr (le_of_lt hpq)]
  have n1 : q - p ≠ 0 := sub_ne_zero.mpr (ne_of_gt hpq)
  have n2 : a - p ≠ 0 := sub_ne_zero.mpr (ne_of_gt h1)
  have n3 : b - p ≠ 0 := sub_ne_zero.mpr (ne_of_gt hpb)
  have n4 : q - a ≠ 0 := sub_ne_zero.mpr (ne_of_gt hab)
  have n5 : q - b ≠ 0 := sub_ne_zero.mpr (ne_of_gt h3)
  have hval : resample [p, q] [y] [p, a, b, q] false
      = some [y * ((a - p) / (q - p)), y * ((b - a) / (q - p)), y * ((q - b) / (q - p))] := by
    simp [resample, cellsOf, resampleCell, resampleBody, e1, e2, e3, e4, pySlice, pyIndex, scaleLast, scaleFirst]
    simp [hab, h3, h1, hpb, n1, n2, n3, n4, n5]
    field_simp
    ring
  refine ⟨hval, ?_⟩
  rw [hval]
  simp only [Option.map_some, List.sum_cons, List.sum_nil, Option.some.injEq]
  field_simp
  ring

/-- the recorded witness of (repaired) F25: the total is now 17 -/
example : (resample [0, 7/2, 9, 35/2, 37/2] [6, 11/2, 6, -1/2] [0, 3, 11/2, 21/2, 13, 37/2] false).map List.sum
    = some 17 := by decide +kernel

/-! #### general meshes -/

private theorem pySlice_nat {β : Type} (l : List β) (i j : Nat) :
    pySlice l (i : Int) (j : Int) = (l.drop (min i l.length)).take (min j l.length - min i l.length) := by
  unfold pySlice
  simp only []
  have hi : ¬ ((i : Int) < 0) := by omega
  have hj : ¬ ((j : Int) < 0) := by omega
  rw [if_neg hi, if_neg hj]
  have e1 : (if (l.length : Int) < (i : Int) then (l.length : Int) else (i : Int)).toNat = min i l.length := by
    split_ifs with h <;> simp <;> omega
  have e2 : (if (l.length : Int) < (j : Int) then (l.length : Int) else (j : Int)).toNat = min j l.length := by
    split_ifs with h <;> simp <;> omega
  rw [e1, e2]

private theorem pyIndex_nat {β : Type} (l : List β) (i : Nat) : pyIndex l (i : Int) = l[i]? := by
  unfold pyIndex
  simp

private theorem body_shift (x0 x1 : Rat) (xs : List Rat) (y0 : Rat) (ys : List Rat) (avg : Bool) (a b : Rat) (k m : Nat) :
    resampleBody (x0 :: x1 :: xs) (y0 :: ys) avg a b ((k + 2 : Nat) : Int) ((m + 2 : Nat) : Int)
      = resampleBody (x1 :: xs) ys avg a b ((k + 1 : Nat) : Int) ((m + 1 : Nat) : Int) := by
  unfold resampleBody
  have c1 : ((k + 2 : Nat) : Int) - 1 = ((k + 1 : Nat) : Int) := by push_cast; ring
  have c2 : ((m + 2 : Nat) : Int) + 1 = ((m + 3 : Nat) : Int) := by push_cast; ring
  have c3 : ((m + 2 : Nat) : Int) - 1 = ((m + 1 : Nat) : Int) := by push_cast; ring
  have d1 : ((k + 1 : Nat) : Int) - 1 = ((k : Nat) : Int) := by push_cast; ring
  have d2 : ((m + 1 : Nat) : Int) + 1 = ((m + 2 : Nat) : Int) := by push_cast; ring
  have d3 : ((m + 1 : Nat) : Int) - 1 = ((m : Nat) : Int) := by push_cast; ring
  have c4 : (((x0 :: x1 :: xs).length : Nat) : Int) - 1 = ((xs.length + 1 : Nat) : Int) := by
    simp
  have d4 : (((x1 :: xs).length : Nat) : Int) - 1 = ((xs.length : Nat) : Int) := by
    simp
  have c5 : (if ((m + 2 : Nat) : Int) ≤ ((xs.length + 1 : Nat) : Int) then ((m + 2 : Nat) : Int) else ((xs.length + 1 : Nat) : Int))
      = ((min (m + 2) (xs.length + 1) : Nat) : Int) := by
    split_ifs with h <;> congr 1 <;> omega
  have d5 : (if ((m + 1 : Nat) : Int) ≤ ((xs.length : Nat) : Int) then ((m + 1 : Nat) : Int) else ((xs.length : Nat) : Int))
      = ((min (m + 1) xs.length : Nat) : Int) := by
    split_ifs with h <;> congr 1 <;> omega
  have c6 : (((k + 2 : Nat) : Int) = ((m + 2 : Nat) : Int)) ↔ (((k + 1 : Nat) : Int) = ((m + 1 : Nat) : Int)) := by
    constructor <;> intro h <;> omega
  simp only [c1, c2, c3, d1, d2, d3, c4, d4, c5, d5, pySlice_nat, pyIndex_nat, c6]
  have m1 : min (m + 2) (xs.length + 1) = min (m + 1) xs.length + 1 := by omega
  simp only [List.length_cons, Nat.add_min_add_right, List.drop_succ_cons, List.getElem?_cons_succ, m1,
    Nat.add_sub_add_right]
  have m2 : min (m + 2) (ys.length + 1) = min (m + 1) ys.length + 1 := by omega
  have m3 : min (m + 3) (xs.length + 1 + 1) = min (m + 2) (xs.length + 1) + 1 := by omega
  simp only [m2, m3, Nat.add_sub_add_right]
  simp only [m1]

/-- overlap length of the output cell `[a, b]` with the input bin `[p, q]` -/
def ovr (a b p q : Rat) : Rat := rmax 0 (rmin q b - rmax p a)

/-- the covered share of every input bin: Σ_j y_j · |[a,b] ∩ bin_j| / |bin_j| -/
def cellRec (a b : Rat) : List Rat → List Rat → Rat
  | x0 :: x1 :: xs, y :: ys => y * (ovr a b x0 x1 / (x1 - x0)) + cellRec a b (x1 :: xs) ys
  | _, _ => 0

def dN (X : List Rat) (a : Rat) : Nat := (X.filter (fun x => decide (x ≤ a))).length

private theorem digitize_eq (X : List Rat) (a : Rat) : digitize X a = ((dN X a : Nat) : Int) := rfl

private theorem dN_cons_le (x0 : Rat) (X : List Rat) (a : Rat) (h : x0 ≤ a) : dN (x0 :: X) a = dN X a + 1 := by
  simp [dN, List.filter_cons, h]

private theorem dN_all_gt (X : List Rat) (a : Rat) (h : ∀ x ∈ X, a < x) : dN X a = 0 := by
  unfold dN
  rw [List.length_eq_zero_iff, List.filter_eq_nil_iff]
  intro x hx; simp [not_le.mpr (h x hx)]

private theorem dN_all_le (X : List Rat) (a : Rat) (h : ∀ x ∈ X, x ≤ a) : dN X a = X.length := by
  unfold dN
  congr 1
  rw [List.filter_eq_self]
  intro x hx; simp [h x hx]

private theorem dN_append (X Z : List Rat) (a : Rat) : dN (X ++ Z) a = dN X a + dN Z a := by
  simp [dN, List.filter_append]

/-- bins entirely right of the cell contribute nothing -/
private theorem cellRec_zero (a b : Rat) : ∀ (X Y : List Rat), X.Pairwise (· < ·) → (∀ x ∈ X, b ≤ x) → cellRec a b X Y = 0
  | [], _, _, _ => by simp [cellRec]
  | [_], _, _, _ => by simp [cellRec]
  | _ :: _ :: _, [], _, _ => by simp [cellRec]
  | x0 :: x1 :: xs, y :: ys, hs, hb => by
    have h0 := hb x0 (by simp)
    have h1 := hb x1 (by simp)
    have h01 : x0 < x1 := (List.pairwise_cons.mp hs).1 x1 (by simp)
    have ih := cellRec_zero a b (x1 :: xs) ys (List.pairwise_cons.mp hs).2 (fun x hx => hb x (List.mem_cons_of_mem _ hx))
    have : ovr a b x0 x1 = 0 := by unfold ovr rmax rmin; split_ifs <;> linarith
    simp [cellRec, ih, this]

/-- split a sorted list at `b` -/
private theorem split_sorted (b : Rat) : ∀ T : List Rat, T.Pairwise (· < ·) →
    ∃ Mp R, T = Mp ++ R ∧ (∀ x ∈ Mp, x ≤ b) ∧ (∀ x ∈ R, b < x)
  | [], _ => ⟨[], [], rfl, by simp, by simp⟩
  | t :: T, hs => by
    obtain ⟨ht, hT⟩ := List.pairwise_cons.mp hs
    by_cases h : t ≤ b
    · obtain ⟨Mp, R, e, h1, h2⟩ := split_sorted b T hT
      refine ⟨t :: Mp, R, by rw [e]; rfl, ?_, h2⟩
      intro x hx; rcases List.mem_cons.mp hx with rfl | hx
      · exact h
      · exact h1 x hx
    · refine ⟨[], t :: T, rfl, by simp, ?_⟩
      intro x hx; rcases List.mem_cons.mp hx with rfl | hx
      · exact not_le.mp h
      · exact lt_trans (not_le.mp h) (ht x hx)

private theorem ovr_full (a b p q : Rat) (h1 : a ≤ p) (h2 : q ≤ b) (h3 : p < q) : ovr a b p q / (q - p) = 1 := by
  have : ovr a b p q = q - p := by unfold ovr rmax rmin; split_ifs <;> linarith
  rw [this]; exact div_self (sub_ne_zero.mpr (ne_of_gt h3))

/-- bins fully inside the cell contribute their whole value -/
private theorem spec_mid (a b p : Rat) (Rr Yr : List Rat) : ∀ (M YM : List Rat), M.length = YM.length →
    (M ++ p :: Rr).Pairwise (· < ·) → (∀ x ∈ M, a ≤ x) → (∀ x ∈ M ++ [p], x ≤ b) →
    cellRec a b (M ++ p :: Rr) (YM ++ Yr) = YM.sum + cellRec a b (p :: Rr) Yr
  | [], [], _, _, _, _ => by simp
  | [], _ :: _, h, _, _, _ => by simp at h
  | _ :: _, [], h, _, _, _ => by simp at h
  | m0 :: M', y :: YM', hl, hs, ha, hb => by
    have hl' : M'.length = YM'.length := by simpa using hl
    have hs' := (List.pairwise_cons.mp (by simpa using hs : (m0 :: (M' ++ p :: Rr)).Pairwise (· < ·))).2
    have ih := spec_mid a b p Rr Yr M' YM' hl' hs' (fun x hx => ha x (List.mem_cons_of_mem _ hx))
      (fun x hx => hb x (by simp at hx ⊢; tauto))
    have hhead : ∀ x ∈ M' ++ p :: Rr, m0 < x :=
      (List.pairwise_cons.mp (by simpa using hs : (m0 :: (M' ++ p :: Rr)).Pairwise (· < ·))).1
    cases hM : M' with
    | nil =>
      subst hM
      have hp : m0 < p := hhead p (by simp)
      have := ovr_full a b m0 p (ha m0 (by simp)) (hb p (by simp)) hp
      simp only [List.nil_append, List.cons_append, cellRec, this] at ih ⊢
      cases YM' with
      | nil => simp at ih ⊢
      | cons _ _ => simp at hl'
    | cons n1 M'' =>
      subst hM
      have hn : m0 < n1 := hhead n1 (by simp)
      have := ovr_full a b m0 n1 (ha m0 (by simp)) (hb n1 (by simp)) hn
      simp only [List.cons_append, cellRec, this, List.sum_cons] at ih ⊢
      rw [ih]; ring

private theorem scaleLast_concat (l : List Rat) (z f : Rat) : scaleLast (l ++ [z]) f = some (l ++ [z * f]) := by
  simp [scaleLast]

private theorem code_B2 (x0 p r y0 z a b h : Rat) (M R' YM YR : List Rat) (hM : M.length = YM.length)
    (hh : (M ++ p :: r :: R')[0]? = some h) (hx0 : x0 ≤ a) (hah : a < h) (hhb : h ≤ b) (hpr : p < r)
    (hbp : p ≤ b) (hbr : b < r) :
    resampleBody (x0 :: (M ++ p :: r :: R')) (y0 :: (YM ++ z :: YR)) false a b ((0 + 1 : Nat) : Int)
        ((YM.length + 1 + 1 : Nat) : Int)
      = some (y0 * (ovr a b x0 h / (h - x0)) + YM.sum + z * ((b - p) / (r - p))) := by
  have hx0h : x0 < h := lt_of_le_of_lt hx0 hah
  have hov : ovr a b x0 h = h - a := by unfold ovr rmax rmin; split_ifs <;> linarith
  unfold resampleBody
  have d1 : ((0 + 1 : Nat) : Int) - 1 = ((0 : Nat) : Int) := by simp
  have d2 : ((YM.length + 1 + 1 : Nat) : Int) + 1 = ((YM.length + 3 : Nat) : Int) := by push_cast; ring
  have d3 : ((YM.length + 1 + 1 : Nat) : Int) - 1 = ((YM.length + 1 : Nat) : Int) := by push_cast; ring
  have d4 : (((x0 :: (M ++ p :: r :: R')).length : Nat) : Int) - 1 = ((M.length + R'.length + 2 : Nat) : Int) := by
    simp; ring
  have d5 : (if ((YM.length + 1 + 1 : Nat) : Int) ≤ ((M.length + R'.length + 2 : Nat) : Int) then
      ((YM.length + 1 + 1 : Nat) : Int) else ((M.length + R'.length + 2 : Nat) : Int)) = ((YM.length + 2 : Nat) : Int) := by
    rw [if_pos (by rw [hM]; push_cast; omega)]
  have d6 : ¬ (((0 + 1 : Nat) : Int) = ((YM.length + 1 + 1 : Nat) : Int)) := by push_cast; omega
  simp only [d1, d2, d3, d4, d5, pySlice_nat, pyIndex_nat, if_neg d6]
  have g1 : (x0 :: (M ++ p :: r :: R'))[YM.length + 2]? = some r := by
    rw [← hM]; simp
  have g2 : (x0 :: (M ++ p :: r :: R'))[YM.length + 1]? = some p := by
    rw [← hM]; simp
  have g3 : (x0 :: (M ++ p :: r :: R'))[0 + 1]? = some h := by simpa using hh
  have g0 : (x0 :: (M ++ p :: r :: R'))[0]? = some x0 := rfl
  have t1 : List.take (min (YM.length + 1 + 1) (y0 :: (YM ++ z :: YR)).length - min 0 (y0 :: (YM ++ z :: YR)).length)
      (List.drop (min 0 (y0 :: (YM ++ z :: YR)).length) (y0 :: (YM ++ z :: YR))) = (y0 :: YM) ++ [z] := by
    simp [List.take_append]
  simp only [t1, g1, g2, g3, g0]
  have n1 : r - p ≠ 0 := sub_ne_zero.mpr (ne_of_gt hpr)
  have n2 : h - x0 ≠ 0 := sub_ne_zero.mpr (ne_of_gt hx0h)
  have n3 : h - a ≠ 0 := sub_ne_zero.mpr (ne_of_gt hah)
  have e1 : scaleLast (y0 :: YM ++ [z]) ((b - p) / (r - p)) = some (y0 :: YM ++ [z * ((b - p) / (r - p))]) :=
    scaleLast_concat (y0 :: YM) z _
  have e2 : (y0 :: YM ++ [z]).dropLast = y0 :: YM := by
    show ((y0 :: YM) ++ [z]).dropLast = y0 :: YM
    exact List.dropLast_concat
  have e3 : (y0 :: YM ++ [z]).isEmpty = false := rfl
  generalize (y0 :: YM ++ [z]) = C at e1 e2 e3 ⊢
  by_cases hb0 : b - p = 0 <;> by_cases ha0 : x0 < a
  · simp [hbr, n1, n2, n3, hb0, ha0, scaleFirst, e1, e2, e3, hov]
  · have : x0 = a := le_antisymm hx0 (not_lt.mp ha0)
    subst this
    simp [hbr, n1, n2, hb0, scaleFirst, e1, e2, e3, hov]
  · simp [hbr, n1, n2, n3, hb0, ha0, scaleFirst, e1, e2, e3, hov, List.sum_append]
    field_simp
    ring
  · have : x0 = a := le_antisymm hx0 (not_lt.mp ha0)
    subst this
    simp [hbr, n1, n2, hb0, scaleFirst, e1, e2, e3, hov, List.sum_append]
    ring

private theorem code_B1 (x0 p y0 a b h : Rat) (M YM : List Rat) (hM : M.length = YM.length)
    (hh : (M ++ [p])[0]? = some h) (hx0 : x0 ≤ a) (hah : a < h) (hhb : h ≤ b) (hbp : p ≤ b) :
    resampleBody (x0 :: (M ++ [p])) (y0 :: YM) false a b ((0 + 1 : Nat) : Int) ((YM.length + 1 + 1 : Nat) : Int)
      = some (y0 * (ovr a b x0 h / (h - x0)) + YM.sum) := by
  have hx0h : x0 < h := lt_of_le_of_lt hx0 hah
  have hov : ovr a b x0 h = h - a := by unfold ovr rmax rmin; split_ifs <;> linarith
  unfold resampleBody
  have d1 : ((0 + 1 : Nat) : Int) - 1 = ((0 : Nat) : Int) := by simp
  have d2 : ((YM.length + 1 + 1 : Nat) : Int) + 1 = ((YM.length + 3 : Nat) : Int) := by push_cast; ring
  have d3 : ((YM.length + 1 + 1 : Nat) : Int) - 1 = ((YM.length + 1 : Nat) : Int) := by push_cast; ring
  have d4 : (((x0 :: (M ++ [p])).length : Nat) : Int) - 1 = ((M.length + 1 : Nat) : Int) := by simp
  have d5 : (if ((YM.length + 1 + 1 : Nat) : Int) ≤ ((M.length + 1 : Nat) : Int) then
      ((YM.length + 1 + 1 : Nat) : Int) else ((M.length + 1 : Nat) : Int)) = ((YM.length + 1 : Nat) : Int) := by
    rw [if_neg (by rw [hM]; push_cast; omega), hM]
  have d6 : ¬ (((0 + 1 : Nat) : Int) = ((YM.length + 1 + 1 : Nat) : Int)) := by push_cast; omega
  simp only [d1, d2, d3, d4, d5, pySlice_nat, pyIndex_nat, if_neg d6]
  have g2 : (x0 :: (M ++ [p]))[YM.length + 1]? = some p := by rw [← hM]; simp
  have g3 : (x0 :: (M ++ [p]))[0 + 1]? = some h := by simpa using hh
  have g0 : (x0 :: (M ++ [p]))[0]? = some x0 := rfl
  have t1 : List.take (min (YM.length + 1 + 1) (y0 :: YM).length - min 0 (y0 :: YM).length)
      (List.drop (min 0 (y0 :: YM).length) (y0 :: YM)) = y0 :: YM := by
    simp
  simp only [t1, g2, g3, g0]
  have n2 : h - x0 ≠ 0 := sub_ne_zero.mpr (ne_of_gt hx0h)
  have n3 : h - a ≠ 0 := sub_ne_zero.mpr (ne_of_gt hah)
  by_cases ha0 : x0 < a
  · simp [not_lt.mpr hbp, n2, n3, ha0, scaleFirst, hov]
  · have : x0 = a := le_antisymm hx0 (not_lt.mp ha0)
    subst this
    simp [not_lt.mpr hbp, n2, scaleFirst, hov]

private theorem code_A (x0 r y0 a b : Rat) (R' YR : List Rat) (hx0 : x0 ≤ a) (hab : a < b) (hbr : b < r) :
    resampleBody (x0 :: r :: R') (y0 :: YR) false a b ((0 + 1 : Nat) : Int) ((0 + 1 : Nat) : Int)
      = some (y0 * (ovr a b x0 r / (r - x0))) := by
  have hov : ovr a b x0 r = b - a := by unfold ovr rmax rmin; split_ifs <;> linarith
  have n1 : r - x0 ≠ 0 := sub_ne_zero.mpr (ne_of_gt (by linarith))
  have n2 : b - x0 ≠ 0 := sub_ne_zero.mpr (ne_of_gt (by linarith))
  have n3 : r - a ≠ 0 := sub_ne_zero.mpr (ne_of_gt (by linarith))
  unfold resampleBody
  have d1 : ((0 + 1 : Nat) : Int) - 1 = ((0 : Nat) : Int) := by simp
  have d2 : ((0 + 1 : Nat) : Int) + 1 = ((2 : Nat) : Int) := by simp
  have d4 : (((x0 :: r :: R').length : Nat) : Int) - 1 = ((R'.length + 1 : Nat) : Int) := by simp
  have d5 : (if ((0 + 1 : Nat) : Int) ≤ ((R'.length + 1 : Nat) : Int) then
      ((0 + 1 : Nat) : Int) else ((R'.length + 1 : Nat) : Int)) = ((1 : Nat) : Int) := by
    rw [if_pos (by push_cast; omega)]
  simp only [d1, d2, d4, d5, pySlice_nat, pyIndex_nat]
  by_cases ha0 : x0 < a
  · simp [hbr, n1, n2, n3, ha0, scaleFirst, scaleLast, hov]
    field_simp
    ring
  · have : x0 = a := le_antisymm hx0 (not_lt.mp ha0)
    subst this
    simp [hbr, n1, n2, scaleFirst, scaleLast, hov]

private theorem code_A0 (x0 a b : Rat) :
    resampleBody [x0] [] false a b ((0 + 1 : Nat) : Int) ((0 + 1 : Nat) : Int) = some 0 := by
  simp [resampleBody, pySlice]


private theorem resampleCell_eq (X Y : List Rat) (a b : Rat) :
    resampleCell X Y false a b = resampleBody X Y false a b ((dN X a : Nat) : Int) ((dN X b : Nat) : Int) := rfl

/-- **every output cell gets the covered share of every input bin** -/
theorem resample_cell_share (a b : Rat) (hab : a < b) : ∀ (X Y : List Rat), X.Pairwise (· < ·) → X.length = Y.length + 1 →
    (∀ x, X.head? = some x → x ≤ a) → resampleCell X Y false a b = some (cellRec a b X Y)
  | [], _, _, hl, _ => by simp at hl
  | [x0], Y, _, hl, h0 => by
    have hY : Y = [] := by
      cases Y with
      | nil => rfl
      | cons _ _ => simp at hl
    subst hY
    have hx : x0 ≤ a := h0 x0 rfl
    have e1 : dN [x0] a = 0 + 1 := by rw [dN_cons_le x0 [] a hx]; rfl
    have e2 : dN [x0] b = 0 + 1 := by rw [dN_cons_le x0 [] b (by linarith)]; rfl
    rw [resampleCell_eq, e1, e2, code_A0]; simp [cellRec]
  | _ :: _ :: _, [], _, hl, _ => by simp at hl
  | x0 :: x1 :: xs, y0 :: ys, hs, hl, h0 => by
    have hx : x0 ≤ a := h0 x0 rfl
    obtain ⟨hhd, hs'⟩ := List.pairwise_cons.mp hs
    have h01 : x0 < x1 := hhd x1 (by simp)
    have hl' : (x1 :: xs).length = ys.length + 1 := by simpa using hl
    by_cases h1 : x1 ≤ a
    · -- the first bin lies left of the cell: shift
      have ih := resample_cell_share a b hab (x1 :: xs) ys hs' hl' (fun x hx' => by simp at hx'; subst hx'; exact h1)
      have ea : dN (x0 :: x1 :: xs) a = dN xs a + 2 := by
        rw [dN_cons_le _ _ _ hx, dN_cons_le _ _ _ h1]
      have eb : dN (x0 :: x1 :: xs) b = dN xs b + 2 := by
        rw [dN_cons_le _ _ _ (by linarith), dN_cons_le _ _ _ (by linarith)]
      have ea' : dN (x1 :: xs) a = dN xs a + 1 := dN_cons_le _ _ _ h1
      have eb' : dN (x1 :: xs) b = dN xs b + 1 := dN_cons_le _ _ _ (by linarith)
      rw [resampleCell_eq, ea', eb'] at ih
      rw [resampleCell_eq, ea, eb, body_shift, ih]
      have : ovr a b x0 x1 = 0 := by unfold ovr rmax rmin; split_ifs <;> linarith
      simp [cellRec, this]
    · -- the cell starts in the first bin
      have h1' : a < x1 := not_le.mp h1
      have hTgt : ∀ x ∈ x1 :: xs, a < x := by
        intro x hx'
        rcases List.mem_cons.mp hx' with rfl | hx''
        · exact h1'
        · exact lt_trans h1' ((List.pairwise_cons.mp hs').1 x hx'')
      have ea : dN (x0 :: x1 :: xs) a = 0 + 1 := by
        rw [dN_cons_le _ _ _ hx, dN_all_gt _ _ hTgt]
      obtain ⟨Mp, R, hT, hMp, hR⟩ := split_sorted b (x1 :: xs) hs'
      have eb : dN (x0 :: x1 :: xs) b = Mp.length + 1 := by
        rw [dN_cons_le _ _ _ (by linarith), hT, dN_append, dN_all_le _ _ hMp, dN_all_gt _ _ hR]
      have hspec0 : cellRec a b (x0 :: x1 :: xs) (y0 :: ys)
          = y0 * (ovr a b x0 x1 / (x1 - x0)) + cellRec a b (x1 :: xs) ys := rfl
      rcases List.eq_nil_or_concat Mp with hnil | ⟨M, p, hMp'⟩
      · -- the whole cell lies inside the first bin
        subst hnil
        simp only [List.nil_append] at hT
        have hb1 : b < x1 := hR x1 (by rw [← hT]; simp)
        have hz := cellRec_zero a b (x1 :: xs) ys hs' (fun x hx' => le_of_lt (hR x (by rw [← hT]; exact hx')))
        rw [resampleCell_eq, ea, eb, hspec0, hz]
        show resampleBody _ _ false a b ((0 + 1 : Nat) : Int) ((0 + 1 : Nat) : Int) = _
        rw [code_A x0 x1 y0 a b xs ys hx hab hb1, add_zero]
      · rw [List.concat_eq_append] at hMp'
        subst hMp'
        have hpb : p ≤ b := hMp p (by simp)
        have hh : ∀ Z, ((M ++ [p]) ++ Z)[0]? = some x1 → True := fun _ _ => trivial
        have hMa : ∀ x ∈ M, a ≤ x := fun x hx' => le_of_lt (hTgt x (by rw [hT]; simp [hx']))
        have hx1mem : x1 ∈ M ++ [p] := by
          have h0' : (M ++ [p] ++ R)[0]? = some x1 := by rw [← hT]; rfl
          cases M with
          | nil => simp at h0'; simp [h0']
          | cons m M' => simp at h0'; simp [h0']
        have hx1b : x1 ≤ b := hMp x1 hx1mem
        cases R with
        | nil =>
          -- the cell reaches the last point
          simp only [List.append_nil] at hT
          have hlen : M.length = ys.length := by
            have := congrArg List.length hT; simp at this hl'; omega
          have hh0 : (M ++ [p])[0]? = some x1 := by rw [← hT]; rfl
          have hsp := spec_mid a b p [] [] M ys hlen (by rw [← hT]; exact hs') hMa hMp
          simp only [List.append_nil, cellRec, add_zero] at hsp
          rw [resampleCell_eq, ea, eb, hspec0, hT, hsp]
          simp only [List.length_append, List.length_singleton, hlen]
          rw [code_B1 x0 p y0 a b x1 M ys hlen hh0 hx h1' hx1b hpb]
        | cons r R' =>
          have hT' : x1 :: xs = M ++ p :: r :: R' := by rw [hT]; simp
          have hbr : b < r := hR r (by simp)
          have hlen : ys.length = M.length + 1 + R'.length := by
            have := congrArg List.length hT'; simp at this hl'; omega
          obtain ⟨YM, Yz, hys, hYM⟩ : ∃ YM Yz, ys = YM ++ Yz ∧ YM.length = M.length :=
            ⟨ys.take M.length, ys.drop M.length, (List.take_append_drop _ _).symm, by simp; omega⟩
          cases Yz with
          | nil => simp at hys; subst hys; omega
          | cons z YR =>
            subst hys
            have hsT : (M ++ p :: r :: R').Pairwise (· < ·) := by rw [← hT']; exact hs'
            have hpr : p < r := by
              have := List.pairwise_append.mp hsT
              exact (List.pairwise_cons.mp this.2.1).1 r (by simp)
            have hh0 : (M ++ p :: r :: R')[0]? = some x1 := by rw [← hT']; rfl
            have hsp := spec_mid a b p (r :: R') (z :: YR) M YM hYM.symm hsT hMa hMp
            have hap : a ≤ p := le_of_lt (hTgt p (by rw [hT']; simp))
            have hz := cellRec_zero a b (r :: R') YR
              ((List.pairwise_cons.mp (List.pairwise_append.mp hsT).2.1).2)
              (fun x hx' => le_of_lt (hR x hx'))
            have hov : ovr a b p r = b - p := by unfold ovr rmax rmin; split_ifs <;> linarith
            have hc : cellRec a b (p :: r :: R') (z :: YR) = z * ((b - p) / (r - p)) := by
              simp only [cellRec, hz, hov, add_zero]
            rw [resampleCell_eq, ea, eb, hspec0, hT', hsp, hc]
            simp only [List.length_append, List.length_singleton]
            rw [← hYM, code_B2 x0 p r y0 z a b x1 M R' YM YR hYM.symm hh0 hx h1' hx1b hpr hpb hbr]
            congr 1; ring


private theorem cells_mem : ∀ (l : List Rat), l.Pairwise (· < ·) → ∀ c ∈ cellsOf l, c.1 < c.2 ∧ c.1 ∈ l ∧ c.2 ∈ l
  | [], _, c, hc => by simp [cellsOf] at hc
  | [_], _, c, hc => by simp [cellsOf] at hc
  | z0 :: z1 :: t, hs, c, hc => by
    simp only [cellsOf, List.mem_cons] at hc
    rcases hc with rfl | hc
    · exact ⟨(List.pairwise_cons.mp hs).1 z1 (by simp), by simp, by simp⟩
    · obtain ⟨h1, h2, h3⟩ := cells_mem (z1 :: t) (List.pairwise_cons.mp hs).2 c hc
      exact ⟨h1, List.mem_cons_of_mem _ h2, List.mem_cons_of_mem _ h3⟩

def lastD : Rat → List Rat → Rat
  | z, [] => z
  | _, z :: t => lastD z t

private theorem lastD_ge : ∀ (l : List Rat) (z0 : Rat), (z0 :: l).Pairwise (· < ·) → ∀ x ∈ z0 :: l, x ≤ lastD z0 l
  | [], z0, _, x, hx => by simp at hx; subst hx; exact le_refl _
  | z1 :: t, z0, hs, x, hx => by
    have ih := lastD_ge t z1 (List.pairwise_cons.mp hs).2
    rcases List.mem_cons.mp hx with rfl | hx
    · exact le_trans (le_of_lt ((List.pairwise_cons.mp hs).1 z1 (by simp))) (ih z1 (by simp))
    · exact ih x hx

private theorem cells_tele (p q : Rat) (hpq : p ≤ q) : ∀ (l : List Rat) (z0 : Rat), (z0 :: l).Pairwise (· < ·) →
    ((cellsOf (z0 :: l)).map (fun c => ovr c.1 c.2 p q)).sum = clip p q (lastD z0 l) - clip p q z0
  | [], z0, _ => by simp [cellsOf, lastD]
  | z1 :: t, z0, hs => by
    have ih := cells_tele p q hpq t z1 (List.pairwise_cons.mp hs).2
    have h01 : z0 < z1 := (List.pairwise_cons.mp hs).1 z1 (by simp)
    have : ovr z0 z1 p q = clip p q z1 - clip p q z0 := by
      unfold ovr clip rmax rmin; split_ifs <;> linarith
    simp only [cellsOf, List.map_cons, List.sum_cons, lastD, this, ih]
    ring

private theorem sum_cells_cellRec (l : List Rat) (z0 : Rat) (hso : (z0 :: l).Pairwise (· < ·)) :
    ∀ (X Y : List Rat), X.Pairwise (· < ·) → X.length = Y.length + 1 → (∀ x ∈ X, z0 ≤ x ∧ x ≤ lastD z0 l) →
      ((cellsOf (z0 :: l)).map (fun c => cellRec c.1 c.2 X Y)).sum = Y.sum
  | [], _, _, hl, _ => by simp at hl
  | [_], Y, _, hl, _ => by
    have : Y = [] := by
      cases Y with
      | nil => rfl
      | cons _ _ => simp at hl
    subst this
    simp [cellRec]
  | _ :: _ :: _, [], _, hl, _ => by simp at hl
  | x0 :: x1 :: xs, y0 :: ys, hs, hl, hb => by
    have ih := sum_cells_cellRec l z0 hso (x1 :: xs) ys (List.pairwise_cons.mp hs).2 (by simpa using hl)
      (fun x hx => hb x (List.mem_cons_of_mem _ hx))
    have h01 : x0 < x1 := (List.pairwise_cons.mp hs).1 x1 (by simp)
    have ht := cells_tele x0 x1 (le_of_lt h01) l z0 hso
    rw [clip_of_hi_le x0 x1 _ (le_of_lt h01) (hb x1 (by simp)).2,
      clip_of_le_lo x0 x1 _ (le_of_lt h01) (hb x0 (by simp)).1] at ht
    have e : (cellsOf (z0 :: l)).map (fun c => cellRec c.1 c.2 (x0 :: x1 :: xs) (y0 :: ys))
        = (cellsOf (z0 :: l)).map (fun c => y0 / (x1 - x0) * ovr c.1 c.2 x0 x1 + cellRec c.1 c.2 (x1 :: xs) ys) := by
      apply List.map_congr_left; intro c _; simp only [cellRec]; ring
    rw [e]
    have hsplit : ∀ (L : List (Rat × Rat)) (f g : Rat × Rat → Rat),
        (L.map (fun c => f c + g c)).sum = (L.map f).sum + (L.map g).sum := by
      intro L f g; induction L with
      | nil => simp
      | cons c t ih => simp only [List.map_cons, List.sum_cons, ih]; ring
    rw [hsplit, sum_map_mul_left, ht, ih]
    have : x1 - x0 ≠ 0 := sub_ne_zero.mpr (ne_of_gt h01)
    simp only [List.sum_cons]; field_simp

/-- **`resampleStepwise(avg=False)` conserves the total**: for any strictly increasing input mesh, any
strictly increasing output mesh that starts at the first input point and reaches the last one, and any values,
`Σ yout = Σ yin` — and each output cell holds the covered share of every input bin. -/
theorem resample_sum_conserved (xin yin xout : List Rat) (hs : xin.Pairwise (· < ·))
    (hl : xin.length = yin.length + 1) (hso : xout.Pairwise (· < ·)) (hhead : xout.head? = xin.head?)
    (hlast : ∃ z ∈ xout, ∀ w ∈ xin, w ≤ z) :
    resample xin yin xout false = some ((cellsOf xout).map (fun c => cellRec c.1 c.2 xin yin)) ∧
    (resample xin yin xout false).map List.sum = some yin.sum := by
  have hval : resample xin yin xout false = some ((cellsOf xout).map (fun c => cellRec c.1 c.2 xin yin)) := by
    unfold resample
    rw [if_neg (by simp [hl])]
    apply mapM_some
    intro c hc
    obtain ⟨h1, h2, _⟩ := cells_mem xout hso c hc
    refine resample_cell_share c.1 c.2 h1 xin yin hs hl ?_
    intro x hx
    rw [← hhead] at hx
    cases xout with
    | nil => simp at hx
    | cons z0 l =>
      simp at hx; subst hx
      rcases List.mem_cons.mp h2 with h | h
      · exact le_of_eq h.symm
      · exact le_of_lt ((List.pairwise_cons.mp hso).1 _ h)
  refine ⟨hval, ?_⟩
  rw [hval]
  simp only [Option.map_some, Option.some.injEq]
  cases xout with
  | nil =>
    cases xin with
    | nil => simp at hl
    | cons _ _ => simp at hhead
  | cons z0 l =>
    apply sum_cells_cellRec l z0 hso xin yin hs hl
    intro x hx
    obtain ⟨z, hz, hzw⟩ := hlast
    refine ⟨?_, le_trans (hzw x hx) (lastD_ge l z0 hso z hz)⟩
    cases xin with
    | nil => cases hx
    | cons x0 t =>
      simp at hhead; subst hhead
      rcases List.mem_cons.mp hx with h | h
      · exact le_of_eq h.symm
      · exact le_of_lt ((List.pairwise_cons.mp hs).1 _ h)

/-- the code's `weighted_sum = sum(ch * ln for ch, ln in zip(chunk, length))` -/
def dot (Y D : List Rat) : Rat := ((List.zip Y D).map (fun p => p.1 * p.2)).sum

private theorem dot_cons (y d : Rat) (Y D : List Rat) : dot (y :: Y) (d :: D) = y * d + dot Y D := by simp [dot]

private theorem dot_append (Y1 D1 Y2 D2 : List Rat) (h : Y1.length = D1.length) :
    dot (Y1 ++ Y2) (D1 ++ D2) = dot Y1 D1 + dot Y2 D2 := by
  simp [dot, List.zip_append h]

private theorem diffs_cons_head (x0 h : Rat) (l : List Rat) (hh : l[0]? = some h) : diffs (x0 :: l) = (h - x0) :: diffs l := by
  cases l with
  | nil => simp at hh
  | cons a t => simp at hh; subst hh; rfl

private theorem diffs_concat2 (p r : Rat) : ∀ L : List Rat, diffs (L ++ [p, r]) = diffs (L ++ [p]) ++ [r - p]
  | [] => by simp [diffs]
  | [a] => by simp [diffs]
  | a :: c :: t => by
    have ih := diffs_concat2 p r (c :: t)
    simp only [List.cons_append, diffs] at ih ⊢
    rw [ih]

private theorem diffs_length : ∀ L : List Rat, (diffs L).length = L.length - 1
  | [] => rfl
  | [_] => rfl
  | a :: c :: t => by simp [diffs, diffs_length (c :: t)]

private theorem diffs_sum_nonneg : ∀ L : List Rat, L.Pairwise (· < ·) → 0 ≤ (diffs L).sum
  | [], _ => by simp [diffs]
  | [_], _ => by simp [diffs]
  | a :: c :: t, hs => by
    have ih := diffs_sum_nonneg (c :: t) (List.pairwise_cons.mp hs).2
    have : a < c := (List.pairwise_cons.mp hs).1 c (by simp)
    simp only [diffs, List.sum_cons]; linarith

/-- numerator and denominator of the length-weighted mean over the cell `[a, b]` -/
def cellW (a b : Rat) : List Rat → List Rat → Rat
  | x0 :: x1 :: xs, y :: ys => y * ovr a b x0 x1 + cellW a b (x1 :: xs) ys
  | _, _ => 0

def cellLen (a b : Rat) : List Rat → Rat
  | x0 :: x1 :: xs => ovr a b x0 x1 + cellLen a b (x1 :: xs)
  | _ => 0

private theorem cellW_zero (a b : Rat) : ∀ (X Y : List Rat), X.Pairwise (· < ·) → (∀ x ∈ X, b ≤ x) → cellW a b X Y = 0
  | [], _, _, _ => by simp [cellW]
  | [_], _, _, _ => by simp [cellW]
  | _ :: _ :: _, [], _, _ => by simp [cellW]
  | x0 :: x1 :: xs, y :: ys, hs, hb => by
    have h0 := hb x0 (by simp)
    have h01 : x0 < x1 := (List.pairwise_cons.mp hs).1 x1 (by simp)
    have ih := cellW_zero a b (x1 :: xs) ys (List.pairwise_cons.mp hs).2 (fun x hx => hb x (List.mem_cons_of_mem _ hx))
    have : ovr a b x0 x1 = 0 := by unfold ovr rmax rmin; split_ifs <;> linarith
    simp [cellW, ih, this]

private theorem cellLen_zero (a b : Rat) : ∀ (X : List Rat), X.Pairwise (· < ·) → (∀ x ∈ X, b ≤ x) → cellLen a b X = 0
  | [], _, _ => by simp [cellLen]
  | [_], _, _ => by simp [cellLen]
  | x0 :: x1 :: xs, hs, hb => by
    have h0 := hb x0 (by simp)
    have h01 : x0 < x1 := (List.pairwise_cons.mp hs).1 x1 (by simp)
    have ih := cellLen_zero a b (x1 :: xs) (List.pairwise_cons.mp hs).2 (fun x hx => hb x (List.mem_cons_of_mem _ hx))
    have : ovr a b x0 x1 = 0 := by unfold ovr rmax rmin; split_ifs <;> linarith
    simp [cellLen, ih, this]

private theorem ovr_full' (a b p q : Rat) (h1 : a ≤ p) (h2 : q ≤ b) (h3 : p < q) : ovr a b p q = q - p := by
  unfold ovr rmax rmin; split_ifs <;> linarith

private theorem specW_mid (a b p : Rat) (Rr Yr : List Rat) : ∀ (M YM : List Rat), M.length = YM.length →
    (M ++ p :: Rr).Pairwise (· < ·) → (∀ x ∈ M, a ≤ x) → (∀ x ∈ M ++ [p], x ≤ b) →
    cellW a b (M ++ p :: Rr) (YM ++ Yr) = dot YM (diffs (M ++ [p])) + cellW a b (p :: Rr) Yr ∧
    cellLen a b (M ++ p :: Rr) = (diffs (M ++ [p])).sum + cellLen a b (p :: Rr)
  | [], [], _, _, _, _ => by simp [dot, diffs]
  | [], _ :: _, h, _, _, _ => by simp at h
  | _ :: _, [], h, _, _, _ => by simp at h
  | m0 :: M', y :: YM', hl, hs, ha, hb => by
    have hl' : M'.length = YM'.length := by simpa using hl
    have hs0 : (m0 :: (M' ++ p :: Rr)).Pairwise (· < ·) := by simpa using hs
    have ih := specW_mid a b p Rr Yr M' YM' hl' (List.pairwise_cons.mp hs0).2
      (fun x hx => ha x (List.mem_cons_of_mem _ hx)) (fun x hx => hb x (by simp at hx ⊢; tauto))
    have hhead : ∀ x ∈ M' ++ p :: Rr, m0 < x := (List.pairwise_cons.mp hs0).1
    cases hM : M' with
    | nil =>
      subst hM
      have hp : m0 < p := hhead p (by simp)
      have := ovr_full' a b m0 p (ha m0 (by simp)) (hb p (by simp)) hp
      cases YM' with
      | nil => simp [cellW, cellLen, this, dot, diffs]
      | cons _ _ => simp at hl'
    | cons n1 M'' =>
      subst hM
      have hn : m0 < n1 := hhead n1 (by simp)
      have := ovr_full' a b m0 n1 (ha m0 (by simp)) (hb n1 (by simp)) hn
      simp only [List.cons_append, cellW, cellLen, this, diffs, dot_cons, List.sum_cons] at ih ⊢
      rw [ih.1, ih.2]; constructor <;> ring


private theorem resampleCell_eqT (X Y : List Rat) (a b : Rat) :
    resampleCell X Y true a b = resampleBody X Y true a b ((dN X a : Nat) : Int) ((dN X b : Nat) : Int) := rfl

private theorem codeT_A (x0 r y0 a b : Rat) (R' YR : List Rat) (hx0 : x0 ≤ a) (hab : a < b) (hbr : b < r) :
    resampleBody (x0 :: r :: R') (y0 :: YR) true a b ((0 + 1 : Nat) : Int) ((0 + 1 : Nat) : Int) = some y0 := by
  have n1 : r - x0 ≠ 0 := sub_ne_zero.mpr (ne_of_gt (by linarith))
  have n2 : b - x0 ≠ 0 := sub_ne_zero.mpr (ne_of_gt (by linarith))
  have n3 : r - a ≠ 0 := sub_ne_zero.mpr (ne_of_gt (by linarith))
  unfold resampleBody
  have d1 : ((0 + 1 : Nat) : Int) - 1 = ((0 : Nat) : Int) := by simp
  have d2 : ((0 + 1 : Nat) : Int) + 1 = ((2 : Nat) : Int) := by simp
  have d4 : (((x0 :: r :: R').length : Nat) : Int) - 1 = ((R'.length + 1 : Nat) : Int) := by simp
  have d5 : (if ((0 + 1 : Nat) : Int) ≤ ((R'.length + 1 : Nat) : Int) then
      ((0 + 1 : Nat) : Int) else ((R'.length + 1 : Nat) : Int)) = ((1 : Nat) : Int) := by
    rw [if_pos (by push_cast; omega)]
  simp only [d1, d2, d4, d5, pySlice_nat, pyIndex_nat]
  by_cases ha0 : x0 < a
  · simp [hbr, n1, n2, n3, ha0, scaleFirst, scaleLast, diffs]
  · have : x0 = a := le_antisymm hx0 (not_lt.mp ha0)
    subst this
    simp [hbr, n1, n2, scaleFirst, scaleLast, diffs]

private theorem codeT_B2 (x0 p r y0 z a b h : Rat) (M R' YM YR : List Rat) (hM : M.length = YM.length)
    (hh : (M ++ [p])[0]? = some h) (hx0 : x0 ≤ a) (hah : a < h) (hpr : p < r)
    (hbp : p ≤ b) (hbr : b < r) (hD : 0 ≤ (diffs (M ++ [p])).sum) :
    resampleBody (x0 :: (M ++ p :: r :: R')) (y0 :: (YM ++ z :: YR)) true a b ((0 + 1 : Nat) : Int)
        ((YM.length + 1 + 1 : Nat) : Int)
      = some ((y0 * (h - a) + dot YM (diffs (M ++ [p])) + z * (b - p)) /
              ((h - a) + (diffs (M ++ [p])).sum + (b - p))) := by
  have hx0h : x0 < h := lt_of_le_of_lt hx0 hah
  unfold resampleBody
  have d1 : ((0 + 1 : Nat) : Int) - 1 = ((0 : Nat) : Int) := by simp
  have d2 : ((YM.length + 1 + 1 : Nat) : Int) + 1 = ((YM.length + 3 : Nat) : Int) := by push_cast; ring
  have d3 : ((YM.length + 1 + 1 : Nat) : Int) - 1 = ((YM.length + 1 : Nat) : Int) := by push_cast; ring
  have d4 : (((x0 :: (M ++ p :: r :: R')).length : Nat) : Int) - 1 = ((M.length + R'.length + 2 : Nat) : Int) := by
    simp; ring
  have d5 : (if ((YM.length + 1 + 1 : Nat) : Int) ≤ ((M.length + R'.length + 2 : Nat) : Int) then
      ((YM.length + 1 + 1 : Nat) : Int) else ((M.length + R'.length + 2 : Nat) : Int)) = ((YM.length + 2 : Nat) : Int) := by
    rw [if_pos (by rw [hM]; push_cast; omega)]
  simp only [d1, d2, d3, d4, d5, pySlice_nat, pyIndex_nat]
  have g1 : (x0 :: (M ++ p :: r :: R'))[YM.length + 2]? = some r := by rw [← hM]; simp
  have g2 : (x0 :: (M ++ p :: r :: R'))[YM.length + 1]? = some p := by rw [← hM]; simp
  have g3 : (x0 :: (M ++ p :: r :: R'))[0 + 1]? = some h := by
    cases M with
    | nil => simpa using hh
    | cons m M' => simpa using hh
  have g0 : (x0 :: (M ++ p :: r :: R'))[0]? = some x0 := rfl
  have t1 : List.take (min (YM.length + 1 + 1) (y0 :: (YM ++ z :: YR)).length - min 0 (y0 :: (YM ++ z :: YR)).length)
      (List.drop (min 0 (y0 :: (YM ++ z :: YR)).length) (y0 :: (YM ++ z :: YR))) = (y0 :: YM) ++ [z] := by
    simp [List.take_append]
  have t2 : List.take (min (YM.length + 3) (x0 :: (M ++ p :: r :: R')).length - min 0 (x0 :: (M ++ p :: r :: R')).length)
      (List.drop (min 0 (x0 :: (M ++ p :: r :: R')).length) (x0 :: (M ++ p :: r :: R'))) = (x0 :: M) ++ [p, r] := by
    rw [← hM]; simp [List.take_append]
  have eD : diffs ((x0 :: M) ++ [p, r]) = ((h - x0) :: diffs (M ++ [p])) ++ [r - p] := by
    rw [diffs_concat2, List.cons_append, diffs_cons_head x0 h (M ++ [p]) hh]
  simp only [t1, t2, eD, g1, g2, g3, g0]
  have hDl : (diffs (M ++ [p])).length = YM.length := by rw [diffs_length]; simp [hM]
  generalize diffs (M ++ [p]) = D at hD hDl ⊢
  have n1 : r - p ≠ 0 := sub_ne_zero.mpr (ne_of_gt hpr)
  have n2 : h - x0 ≠ 0 := sub_ne_zero.mpr (ne_of_gt hx0h)
  have n3 : h - a ≠ 0 := sub_ne_zero.mpr (ne_of_gt hah)
  have e1 : scaleLast (((h - x0) :: D) ++ [r - p]) ((b - p) / (r - p)) = some ((h - x0) :: (D ++ [(r - p) * ((b - p) / (r - p))])) :=
    scaleLast_concat _ _ _
  have e2 : (((h - x0) :: D) ++ [r - p]).dropLast = (h - x0) :: D := List.dropLast_concat
  have e2' : ((y0 :: YM) ++ [z]).dropLast = y0 :: YM := List.dropLast_concat
  have e3 : ((y0 :: YM) ++ [z]).isEmpty = false := rfl
  have hz : ∀ v : Rat, (YM ++ [z]).zip (D ++ [v]) = YM.zip D ++ [(z, v)] := fun v => by
    rw [List.zip_append hDl.symm]; rfl
  have hCz : ∀ (u v : Rat), ((y0 :: YM) ++ [z]).zip ((u : Rat) :: (D ++ [v])) = (y0, u) :: (YM.zip D ++ [(z, v)]) := by
    intro u v; rw [List.cons_append, List.zip_cons_cons, hz]
  have c1 : (r - p) * ((b - p) / (r - p)) = b - p := by field_simp
  have c2 : (h - x0) * ((h - a) / (h - x0)) = h - a := by field_simp
  have hDpos : ∀ t : Rat, 0 ≤ t → h - a + (D.sum + t) ≠ 0 := by
    intro t ht; have : 0 < h - a := by linarith
    exact ne_of_gt (by linarith)
  unfold dot
  generalize ((y0 :: YM) ++ [z]) = C at e2' e3 hCz ⊢
  generalize (((h - x0) :: D) ++ [r - p]) = Lg at e1 e2 ⊢
  have hb' : 0 ≤ b - p := by linarith
  by_cases hb0 : b - p = 0 <;> by_cases ha0 : x0 < a
  · simp [hbr, n1, n2, n3, hb0, ha0, scaleFirst, e1, e2, e2', e3, List.sum_append, c1, c2]
    have := hDpos 0 le_rfl
    simpa using this
  · have : x0 = a := le_antisymm hx0 (not_lt.mp ha0)
    subst this
    simp [hbr, n1, n2, hb0, scaleFirst, e1, e2, e2', e3, List.sum_append, c1]
    have := hDpos 0 le_rfl
    simpa using this
  · simp [hbr, n1, n2, n3, hb0, ha0, scaleFirst, e1, e2, e2', e3, hCz, List.sum_append, c1, c2]
    exact ⟨hDpos (b - p) hb', by congr 1 <;> ring⟩
  · have : x0 = a := le_antisymm hx0 (not_lt.mp ha0)
    subst this
    simp [hbr, n1, n2, hb0, scaleFirst, e1, e2, e2', e3, hCz, List.sum_append, c1]
    exact ⟨hDpos (b - p) hb', by congr 1 <;> ring⟩

private theorem codeT_B1 (x0 p y0 a b h : Rat) (M YM : List Rat) (hM : M.length = YM.length)
    (hh : (M ++ [p])[0]? = some h) (hx0 : x0 ≤ a) (hah : a < h) (hbp : p ≤ b)
    (hD : 0 ≤ (diffs (M ++ [p])).sum) :
    resampleBody (x0 :: (M ++ [p])) (y0 :: YM) true a b ((0 + 1 : Nat) : Int) ((YM.length + 1 + 1 : Nat) : Int)
      = some ((y0 * (h - a) + dot YM (diffs (M ++ [p]))) / ((h - a) + (diffs (M ++ [p])).sum)) := by
  have hx0h : x0 < h := lt_of_le_of_lt hx0 hah
  unfold resampleBody
  have d1 : ((0 + 1 : Nat) : Int) - 1 = ((0 : Nat) : Int) := by simp
  have d2 : ((YM.length + 1 + 1 : Nat) : Int) + 1 = ((YM.length + 3 : Nat) : Int) := by push_cast; ring
  have d3 : ((YM.length + 1 + 1 : Nat) : Int) - 1 = ((YM.length + 1 : Nat) : Int) := by push_cast; ring
  have d4 : (((x0 :: (M ++ [p])).length : Nat) : Int) - 1 = ((M.length + 1 : Nat) : Int) := by simp
  have d5 : (if ((YM.length + 1 + 1 : Nat) : Int) ≤ ((M.length + 1 : Nat) : Int) then
      ((YM.length + 1 + 1 : Nat) : Int) else ((M.length + 1 : Nat) : Int)) = ((YM.length + 1 : Nat) : Int) := by
    rw [if_neg (by rw [hM]; push_cast; omega), hM]
  simp only [d1, d2, d3, d4, d5, pySlice_nat, pyIndex_nat]
  have g2 : (x0 :: (M ++ [p]))[YM.length + 1]? = some p := by rw [← hM]; simp
  have g3 : (x0 :: (M ++ [p]))[0 + 1]? = some h := by simpa using hh
  have g0 : (x0 :: (M ++ [p]))[0]? = some x0 := rfl
  have t1 : List.take (min (YM.length + 1 + 1) (y0 :: YM).length - min 0 (y0 :: YM).length)
      (List.drop (min 0 (y0 :: YM).length) (y0 :: YM)) = y0 :: YM := by simp
  have t2 : List.take (min (YM.length + 3) (x0 :: (M ++ [p])).length - min 0 (x0 :: (M ++ [p])).length)
      (List.drop (min 0 (x0 :: (M ++ [p])).length) (x0 :: (M ++ [p]))) = x0 :: (M ++ [p]) := by
    rw [← hM]; simp
  simp only [t1, t2, g2, g3, g0, diffs_cons_head x0 h (M ++ [p]) hh]
  generalize diffs (M ++ [p]) = D at hD ⊢
  have n2 : h - x0 ≠ 0 := sub_ne_zero.mpr (ne_of_gt hx0h)
  have n3 : h - a ≠ 0 := sub_ne_zero.mpr (ne_of_gt hah)
  have c2 : (h - x0) * ((h - a) / (h - x0)) = h - a := by field_simp
  have hDpos : h - a + D.sum ≠ 0 := by
    have : 0 < h - a := by linarith
    exact ne_of_gt (by linarith)
  unfold dot
  by_cases ha0 : x0 < a
  · simp [not_lt.mpr hbp, n2, n3, ha0, scaleFirst, c2]
    exact hDpos
  · have : x0 = a := le_antisymm hx0 (not_lt.mp ha0)
    subst this
    simp [not_lt.mpr hbp, n2, scaleFirst]
    exact hDpos

/-- **every output cell gets the length-weighted mean of the input values it covers** -/
theorem resample_cell_mean (a b : Rat) (hab : a < b) : ∀ (X Y : List Rat), X.Pairwise (· < ·) →
    X.length = Y.length + 1 → (∀ x, X.head? = some x → x ≤ a) → (∃ w ∈ X, a < w) →
    resampleCell X Y true a b = some (cellW a b X Y / cellLen a b X)
  | [], _, _, hl, _, _ => by simp at hl
  | [x0], _, _, _, h0, hw => by
    obtain ⟨w, hw1, hw2⟩ := hw
    simp at hw1; subst hw1
    exact absurd (h0 w rfl) (not_le.mpr hw2)
  | _ :: _ :: _, [], _, hl, _, _ => by simp at hl
  | x0 :: x1 :: xs, y0 :: ys, hs, hl, h0, hw => by
    have hx : x0 ≤ a := h0 x0 rfl
    obtain ⟨hhd, hs'⟩ := List.pairwise_cons.mp hs
    have h01 : x0 < x1 := hhd x1 (by simp)
    have hl' : (x1 :: xs).length = ys.length + 1 := by simpa using hl
    have hspecW : cellW a b (x0 :: x1 :: xs) (y0 :: ys) = y0 * ovr a b x0 x1 + cellW a b (x1 :: xs) ys := rfl
    have hspecL : cellLen a b (x0 :: x1 :: xs) = ovr a b x0 x1 + cellLen a b (x1 :: xs) := rfl
    by_cases h1 : x1 ≤ a
    · have hw' : ∃ w ∈ x1 :: xs, a < w := by
        obtain ⟨w, hw1, hw2⟩ := hw
        rcases List.mem_cons.mp hw1 with rfl | hw1
        · exact absurd hx (not_le.mpr hw2)
        · exact ⟨w, hw1, hw2⟩
      have ih := resample_cell_mean a b hab (x1 :: xs) ys hs' hl' (fun x hx' => by simp at hx'; subst hx'; exact h1) hw'
      have ea : dN (x0 :: x1 :: xs) a = dN xs a + 2 := by
        rw [dN_cons_le _ _ _ hx, dN_cons_le _ _ _ h1]
      have eb : dN (x0 :: x1 :: xs) b = dN xs b + 2 := by
        rw [dN_cons_le _ _ _ (by linarith), dN_cons_le _ _ _ (by linarith)]
      have ea' : dN (x1 :: xs) a = dN xs a + 1 := dN_cons_le _ _ _ h1
      have eb' : dN (x1 :: xs) b = dN xs b + 1 := dN_cons_le _ _ _ (by linarith)
      rw [resampleCell_eqT, ea', eb'] at ih
      rw [resampleCell_eqT, ea, eb, body_shift, ih]
      have : ovr a b x0 x1 = 0 := by unfold ovr rmax rmin; split_ifs <;> linarith
      rw [hspecW, hspecL, this]; simp
    · have h1' : a < x1 := not_le.mp h1
      have hTgt : ∀ x ∈ x1 :: xs, a < x := by
        intro x hx'
        rcases List.mem_cons.mp hx' with rfl | hx''
        · exact h1'
        · exact lt_trans h1' ((List.pairwise_cons.mp hs').1 x hx'')
      have ea : dN (x0 :: x1 :: xs) a = 0 + 1 := by
        rw [dN_cons_le _ _ _ hx, dN_all_gt _ _ hTgt]
      obtain ⟨Mp, R, hT, hMp, hR⟩ := split_sorted b (x1 :: xs) hs'
      have eb : dN (x0 :: x1 :: xs) b = Mp.length + 1 := by
        rw [dN_cons_le _ _ _ (by linarith), hT, dN_append, dN_all_le _ _ hMp, dN_all_gt _ _ hR]
      rcases List.eq_nil_or_concat Mp with hnil | ⟨M, p, hMp'⟩
      · subst hnil
        simp only [List.nil_append] at hT
        have hb1 : b < x1 := hR x1 (by rw [← hT]; simp)
        have hzW := cellW_zero a b (x1 :: xs) ys hs' (fun x hx' => le_of_lt (hR x (by rw [← hT]; exact hx')))
        have hzL := cellLen_zero a b (x1 :: xs) hs' (fun x hx' => le_of_lt (hR x (by rw [← hT]; exact hx')))
        have hov : ovr a b x0 x1 = b - a := by unfold ovr rmax rmin; split_ifs <;> linarith
        rw [resampleCell_eqT, ea, eb, hspecW, hspecL, hzW, hzL, hov]
        show resampleBody _ _ true a b ((0 + 1 : Nat) : Int) ((0 + 1 : Nat) : Int) = _
        rw [codeT_A x0 x1 y0 a b xs ys hx hab hb1]
        have : b - a ≠ 0 := sub_ne_zero.mpr (ne_of_gt hab)
        congr 1
        rw [add_zero, add_zero]; field_simp
      · rw [List.concat_eq_append] at hMp'
        subst hMp'
        have hpb : p ≤ b := hMp p (by simp)
        have hMa : ∀ x ∈ M, a ≤ x := fun x hx' => le_of_lt (hTgt x (by rw [hT]; simp [hx']))
        have hx1mem : x1 ∈ M ++ [p] := by
          have h0' : (M ++ [p] ++ R)[0]? = some x1 := by rw [← hT]; rfl
          cases M with
          | nil => simp at h0'; simp [h0']
          | cons m M' => simp at h0'; simp [h0']
        have hx1b : x1 ≤ b := hMp x1 hx1mem
        have hov0 : ovr a b x0 x1 = x1 - a := by unfold ovr rmax rmin; split_ifs <;> linarith
        have hh0 : (M ++ [p])[0]? = some x1 := by
          have h0' : (M ++ [p] ++ R)[0]? = some x1 := by rw [← hT]; rfl
          cases M with
          | nil => simpa using h0'
          | cons m M' => simpa using h0'
        have hsMp : (M ++ [p]).Pairwise (· < ·) := by
          have : (M ++ [p] ++ R).Pairwise (· < ·) := by rw [← hT]; exact hs'
          exact (List.pairwise_append.mp this).1
        have hD := diffs_sum_nonneg (M ++ [p]) hsMp
        cases R with
        | nil =>
          simp only [List.append_nil] at hT
          have hlen : M.length = ys.length := by
            have := congrArg List.length hT; simp at this hl'; omega
          have hsp := specW_mid a b p [] [] M ys hlen (by rw [← hT]; exact hs') hMa hMp
          simp only [List.append_nil, cellW, cellLen, add_zero] at hsp
          rw [resampleCell_eqT, ea, eb, hspecW, hspecL, hov0, hT, hsp.1, hsp.2]
          simp only [List.length_append, List.length_singleton, hlen]
          rw [codeT_B1 x0 p y0 a b x1 M ys hlen hh0 hx h1' hpb hD]
        | cons r R' =>
          have hT' : x1 :: xs = M ++ p :: r :: R' := by rw [hT]; simp
          have hbr : b < r := hR r (by simp)
          have hlen : ys.length = M.length + 1 + R'.length := by
            have := congrArg List.length hT'; simp at this hl'; omega
          obtain ⟨YM, Yz, hys, hYM⟩ : ∃ YM Yz, ys = YM ++ Yz ∧ YM.length = M.length :=
            ⟨ys.take M.length, ys.drop M.length, (List.take_append_drop _ _).symm, by simp; omega⟩
          cases Yz with
          | nil => simp at hys; subst hys; omega
          | cons z YR =>
            subst hys
            have hsT : (M ++ p :: r :: R').Pairwise (· < ·) := by rw [← hT']; exact hs'
            have hpr : p < r := by
              have := List.pairwise_append.mp hsT
              exact (List.pairwise_cons.mp this.2.1).1 r (by simp)
            have hsp := specW_mid a b p (r :: R') (z :: YR) M YM hYM.symm hsT hMa hMp
            have hap : a ≤ p := le_of_lt (hTgt p (by rw [hT']; simp))
            have hsR := (List.pairwise_cons.mp (List.pairwise_append.mp hsT).2.1).2
            have hzW := cellW_zero a b (r :: R') YR hsR (fun x hx' => le_of_lt (hR x hx'))
            have hzL := cellLen_zero a b (r :: R') hsR (fun x hx' => le_of_lt (hR x hx'))
            have hov : ovr a b p r = b - p := by unfold ovr rmax rmin; split_ifs <;> linarith
            have hcW : cellW a b (p :: r :: R') (z :: YR) = z * (b - p) := by simp only [cellW, hzW, hov, add_zero]
            have hcL : cellLen a b (p :: r :: R') = b - p := by simp only [cellLen, hzL, hov, add_zero]
            rw [resampleCell_eqT, ea, eb, hspecW, hspecL, hov0, hT', hsp.1, hsp.2, hcW, hcL]
            simp only [List.length_append, List.length_singleton]
            rw [← hYM, codeT_B2 x0 p r y0 z a b x1 M R' YM YR hYM.symm hh0 hx h1' hpr hpb hbr hD]
            congr 1; ring

/-- **`resampleStepwise(avg=True)` gives, for every output cell, the length-weighted mean of the input values
it covers**: `Σ_j y_j·|cell ∩ bin_j| / Σ_j |cell ∩ bin_j|` — for any strictly increasing input mesh and any
strictly increasing output mesh whose cells start inside the input range. -/
theorem resample_avg_is_mean (xin yin xout : List Rat) (hs : xin.Pairwise (· < ·))
    (hl : xin.length = yin.length + 1) (hso : xout.Pairwise (· < ·))
    (hlo : ∀ x0, xin.head? = some x0 → ∀ x ∈ xout, x0 ≤ x)
    (hhi : ∀ c ∈ cellsOf xout, ∃ w ∈ xin, c.1 < w) :
    resample xin yin xout true
      = some ((cellsOf xout).map (fun c => cellW c.1 c.2 xin yin / cellLen c.1 c.2 xin)) := by
  unfold resample
  rw [if_neg (by simp [hl])]
  apply mapM_some
  intro c hc
  obtain ⟨h1, h2, _⟩ := cells_mem xout hso c hc
  exact resample_cell_mean c.1 c.2 h1 xin yin hs hl (fun x hx => hlo x hx c.1 h2) (hhi c hc)

/-- non-vacuity / what the model computes: the recorded F25 input, averaged -/
example : resample [0, 7/2, 9, 35/2, 37/2] [6, 11/2, 6, -1/2] [0, 3, 11/2, 21/2, 13, 37/2] true
    = some [6, 28/5, 113/20, 6, 53/11] := by decide +kernel

/-- non-vacuity of `Remeshable` (hypothesis of atoms_conserved, integrated_total_conserved, constant_stays_constant,
peak_is_max, roundtrip_totals): source 0–25–50, destination 0–30–50 -/
example : Remeshable [(⟨0, 25, 25, (3 : Rat)⟩ : Blk Rat), ⟨25, 50, 25, 4⟩]
    [(⟨0, 30, 30, ()⟩ : Blk Unit), ⟨30, 50, 20, ()⟩] 0 where
  csrc := by simp [Contig]; norm_num
  cdst := by simp [Contig]; norm_num
  ssrc := by intro b hb; simp at hb; subst hb; rfl
  sdst := by intro b hb; simp at hb; subst hb; rfl
  top := by simp [topOf]
  nosl := by
    intro d hd s hs
    simp at hd hs
    rcases hd with rfl | rfl <;> rcases hs with rfl | rfl <;>
      (unfold NoSliver ovl rmax rmin EPS; intro h; first | (norm_num at h; done) | norm_num)

/-- a concrete `Remeshable` pair (non-vacuity of the re-meshing theorems) and what the model computes on it -/
example : remapND [⟨0, 25, 25, 3⟩, ⟨25, 50, 25, 4⟩] [⟨0, 30, 30, ()⟩, ⟨30, 50, 20, ()⟩]
    = some [DestVal.set (19/6), DestVal.set 4] := by decide +kernel

/-! ### `getBlockAtElevation` -/

/-- cumulative (bottom, top, payload) of the blocks, as `getBlockAtElevation` accumulates them from `z` -/
def cumCells : Rat → List (Blk α) → List (Rat × Rat × α)
  | _, [] => []
  | z, b :: t => (z, z + b.h, b.v) :: cumCells (z + b.h) t

/-- **the block found at an elevation contains it**: bottom exclusive, top inclusive (up to the code's
relative 1e-10 at the top). -/
theorem blockAtElevation_sound (e : Rat) : ∀ (bs : List (Blk α)) (z : Rat) (v : α),
    blockAtElevationFrom e z bs = .found v →
      ∃ c ∈ cumCells z bs, c.2.2 = v ∧ c.1 < e ∧ (e < c.2.1 ∨ rabs (c.2.1 - e) / e < EPS)
  | [], _, _, h => by simp [blockAtElevationFrom] at h
  | b :: t, z, v, h => by
    unfold blockAtElevationFrom at h
    simp only [] at h
    have tail : blockAtElevationFrom e (z + b.h) t = .found v →
        ∃ c ∈ cumCells z (b :: t), c.2.2 = v ∧ c.1 < e ∧ (e < c.2.1 ∨ rabs (c.2.1 - e) / e < EPS) := by
      intro h'
      obtain ⟨c, hc, h1⟩ := blockAtElevation_sound e t (z + b.h) v h'
      exact ⟨c, List.mem_cons_of_mem _ hc, h1⟩
    by_cases c1 : e < z + b.h
    · rw [if_pos c1] at h
      by_cases c2 : z < e
      · rw [if_pos c2] at h
        exact ⟨(z, z + b.h, b.v), List.mem_cons_self, AtElev.found.inj h, c2, Or.inl c1⟩
      · rw [if_neg c2] at h; exact tail h
    · rw [if_neg c1] at h
      by_cases c3 : e = 0
      · rw [if_pos c3] at h; cases h
      · rw [if_neg c3] at h
        by_cases c4 : rabs (z + b.h - e) / e < EPS
        · rw [if_pos c4] at h
          by_cases c2 : z < e
          · rw [if_pos c2] at h
            exact ⟨(z, z + b.h, b.v), List.mem_cons_self, AtElev.found.inj h, c2, Or.inr c4⟩
          · rw [if_neg c2] at h; exact tail h
        · rw [if_neg c4] at h; exact tail h

/-- **every elevation inside the assembly is found**: positive heights, `z < e ≤ z + Σ h`. -/
theorem blockAtElevation_complete (e : Rat) : ∀ (bs : List (Blk α)) (z : Rat), (∀ b ∈ bs, 0 < b.h) →
    z < e → e ≤ z + (bs.map (·.h)).sum → 0 < e → ∃ v, blockAtElevationFrom e z bs = .found v
  | [], z, _, h1, h2, _ => by simp at h2; linarith
  | b :: t, z, hp, h1, h2, he => by
    unfold blockAtElevationFrom
    simp only []
    have hb := hp b List.mem_cons_self
    by_cases c1 : e < z + b.h
    · rw [if_pos c1, if_pos h1]; exact ⟨b.v, rfl⟩
    · rw [if_neg c1, if_neg (ne_of_gt he)]
      by_cases c2 : rabs (z + b.h - e) / e < EPS
      · rw [if_pos c2, if_pos h1]; exact ⟨b.v, rfl⟩
      · rw [if_neg c2]
        have hne : e ≠ z + b.h := by
          intro heq; apply c2; rw [heq]; unfold rabs EPS; simp
        have hlt : z + b.h < e := lt_of_le_of_ne (not_lt.mp c1) (Ne.symm hne)
        refine blockAtElevation_complete e t (z + b.h) (fun x hx => hp x (List.mem_cons_of_mem _ hx)) hlt ?_ he
        simp only [List.map_cons, List.sum_cons] at h2; linarith

/-! ### `average1DWithinTolerance` -/

private theorem avgLoop_spec (tol : Rat) : ∀ (n : Nat) (rows : List (List Rat)) (avg : List Rat),
    avgLoop tol n rows = some avg →
      ∃ kept, kept.Sublist rows ∧ kept ≠ [] ∧ avg = colMeans kept ∧ (∀ r ∈ kept, rowOK tol avg r = true) ∧
        ∀ a ∈ avg, 0 < a
  | 0, _, _, h => by simp [avgLoop] at h
  | n + 1, rows, avg, h => by
    unfold avgLoop at h
    simp only [] at h
    by_cases hl : (rows.filter (rowOK tol (colMeans rows))).length = rows.length
    · rw [if_pos hl] at h
      by_cases he : rows.isEmpty = true
      · rw [if_pos he] at h; cases h
      · rw [if_neg he] at h
        by_cases hz : (colMeans rows).any (fun a => decide (a ≤ 0)) = true
        · rw [if_pos hz] at h; cases h
        · rw [if_neg hz] at h
          have : avg = colMeans rows := (Option.some.inj h).symm
          subst this
          have hall : rows.filter (rowOK tol (colMeans rows)) = rows :=
            (List.filter_sublist (l := rows)).eq_of_length hl
          refine ⟨rows, List.Sublist.refl _, ?_, rfl, ?_, ?_⟩
          · intro hr; rw [hr] at he; simp at he
          · exact List.filter_eq_self.mp hall
          · intro a ha
            by_contra hneg
            apply hz
            rw [List.any_eq_true]
            exact ⟨a, ha, by simpa using not_lt.mp hneg⟩
    · rw [if_neg hl] at h
      obtain ⟨kept, k1, k2⟩ := avgLoop_spec tol n _ avg h
      exact ⟨kept, k1.trans List.filter_sublist, k2⟩

/-- **the averaged mesh is the column mean of a non-empty sub-family of the rows, every one of which lies
within the tolerance of it, and it is positive** (otherwise `average1DWithinTolerance` raises). -/
theorem average1D_spec (rows : List (List Rat)) (tol : Rat) (avg : List Rat) (h : average1D rows tol = some avg) :
    ∃ kept, kept.Sublist rows ∧ kept ≠ [] ∧ avg = colMeans kept ∧ (∀ r ∈ kept, rowOK tol avg r = true) ∧
      ∀ a ∈ avg, 0 < a :=
  avgLoop_spec tol _ rows avg h

example : average1D [[1, 2, 3], [1, 2, 3], [11/10, 2, 3]] (1/5) = some [31/30, 2, 3] := by decide +kernel

/-- **the average mesh of `_computeAverageAxialMesh`** is the column mean of a non-empty sub-family of the
assemblies' meshes, all of which have as many points as the reference assembly (so has the result) and lie
within the tolerance of it; it is positive. -/
theorem averageAxialMesh_spec (refN : Nat) (meshes : List (List Rat)) (avg : List Rat)
    (h : averageAxialMesh refN meshes = some avg) :
    ∃ kept, kept.Sublist meshes ∧ kept ≠ [] ∧ (∀ r ∈ kept, r.length = refN) ∧ avg = colMeans kept ∧
      avg.length = refN ∧ (∀ r ∈ kept, rowOK (1 / 5) avg r = true) ∧ ∀ a ∈ avg, 0 < a := by
  obtain ⟨kept, k1, k2, k3, k4, k5⟩ := average1D_spec _ _ avg h
  have hlen : ∀ r ∈ kept, r.length = refN := by
    intro r hr
    have := (List.mem_filter.mp (k1.subset hr)).2
    simpa using this
  refine ⟨kept, k1.trans List.filter_sublist, k2, hlen, k3, ?_, k4, k5⟩
  cases kept with
  | nil => exact absurd rfl k2
  | cons r rest =>
    rw [k3]
    simp [colMeans, hlen r List.mem_cons_self]

example : averageAxialMesh 3 [[1, 2, 3], [1, 2], [1, 2, 3], [11/10, 2, 3]] = some [31/30, 2, 3] := by decide +kernel

/-! ### the decusping pipeline -/

/-- **whatever `_decuspAxialMesh` returns is strictly increasing and has no cell thinner than the minimum** (the last
step is a `_filterMesh`, so `filterMesh_spec` applies) -/
theorem decusp_spec (m : Rat) (common fuelB fuelT ctrlB ctrlT out : List Rat)
    (h : decusp m common fuelB fuelT ctrlB ctrlT = some out) :
    out.Pairwise (· < ·) ∧ GapsOK m out.reverse := by
  unfold decusp at h
  simp only [Option.bind_eq_bind, Option.bind_eq_some_iff] at h
  obtain ⟨fb, _, ft, _, mb, _, mt, _, an, _, wb, _, wt, _, hfin⟩ := h
  cases hfm : filterMesh (wb ++ wt) m an true with
  | ok l =>
    rw [hfm] at hfin
    have : l = out := by simpa using hfin
    subst this
    obtain ⟨_, h2, _⟩ := filterMesh_spec (wb ++ wt) m an true
    obtain ⟨s1, _, _, s4⟩ := h2 l hfm
    exact ⟨s1, by simpa using s4⟩
  | anchors => rw [hfm] at hfin; cases hfin
  | fuel => rw [hfm] at hfin; cases hfin

/-- **`generateCommonMesh` with a minimum size**: whatever it returns is strictly increasing and has no cell
thinner than the minimum; without one it is the average mesh of `averageAxialMesh_spec`. -/
theorem generateCommonMesh_spec (m : Rat) (refN : Nat) (meshes : List (List Rat)) (fuelB fuelT ctrlB ctrlT out : List Rat)
    (h : generateCommonMesh (some m) refN meshes fuelB fuelT ctrlB ctrlT = some out) :
    out.Pairwise (· < ·) ∧ GapsOK m out.reverse := by
  unfold generateCommonMesh at h
  simp only [Option.bind_eq_bind, Option.bind_eq_some_iff] at h
  obtain ⟨avg, _, hd⟩ := h
  exact decusp_spec m avg fuelB fuelT ctrlB ctrlT out hd

theorem generateCommonMesh_none (refN : Nat) (meshes : List (List Rat)) (fuelB fuelT ctrlB ctrlT : List Rat) :
    generateCommonMesh none refN meshes fuelB fuelT ctrlB ctrlT = averageAxialMesh refN meshes := by
  unfold generateCommonMesh
  cases averageAxialMesh refN meshes <;> rfl

/-- **the generated mesh need NOT reach the top of the core** (known finding): the top of the common mesh is not an
anchor of the final filter, so with a control-rod top 3 cm below the core top and a 6 cm minimum the point 175 is
dropped in favour of the anchored 172 — the reference test core's numbers -/
example : decusp 6 [25, 50, 75, 100, 475/4, 275/2, 625/4, 175] [25] [100] [50] [172]
    = some [25, 50, 75, 100, 475/4, 275/2, 625/4, 172] := by decide +kernel

/-- ... while with a 2 cm minimum both points survive -/
example : decusp 2 [25, 50, 75, 100, 475/4, 275/2, 625/4, 175] [25] [100] [50] [172]
    = some [25, 50, 75, 100, 475/4, 275/2, 625/4, 172, 175] := by decide +kernel

/-! ### mass-conserving block mesh change -/

/-- **`adjustDensity` conserves the atoms of every listed nuclide**: with `frac = hOld / hNew`, density × height of a
listed nuclide is the same before and after (up to the code's 1e-50 trace term, stated exactly) -/
theorem adjustDensity_conserves_listed (hOld hNew : Rat) (hn : hNew ≠ 0) (adjust : List Nat) (nd : List (Nat × Rat))
    (n : Nat) (d : Rat) (hmem : (n, d) ∈ nd) (hl : n ∈ adjust) (hd : d ≠ 0) :
    (n, d * (hOld / hNew) + TRACE) ∈ adjustDensity (hOld / hNew) adjust nd ∧
    (d * (hOld / hNew) + TRACE - TRACE) * hNew = d * hOld := by
  constructor
  · unfold adjustDensity
    exact List.mem_map.mpr ⟨(n, d), hmem, by simp [hl, hd]⟩
  · field_simp; ring

/-- **frame**: every unlisted nuclide (and every zero density) keeps exactly its density; nothing is added or wiped -/
theorem adjustDensity_frame (frac : Rat) (adjust : List Nat) (nd : List (Nat × Rat)) :
    (adjustDensity frac adjust nd).map (·.1) = nd.map (·.1) ∧
    ∀ x ∈ nd, (x.1 ∉ adjust ∨ x.2 = 0) → x ∈ adjustDensity frac adjust nd := by
  constructor
  · unfold adjustDensity
    rw [List.map_map]
    apply List.map_congr_left
    intro x _
    simp only [Function.comp]
    split_ifs <;> rfl
  · intro x hx h
    unfold adjustDensity
    refine List.mem_map.mpr ⟨x, hx, ?_⟩
    rcases h with h | h
    · simp [h]
    · simp [h]

/-- **`Block.setHeight(conserveMass=True)`**: with a non-empty `adjustList` and a positive new height the call succeeds,
the height is the requested one and the densities are `adjustDensity (hOld/hNew)`; with an empty list it raises as soon
as the height really changes; without `conserveMass` the densities are untouched -/
theorem setHeight_spec (hOld hNew : Rat) (adjust : List Nat) (nd : List (Nat × Rat)) (hpos : 0 < hNew) :
    (adjust ≠ [] → hOld ≠ hNew →
      setHeight hOld hNew true adjust nd = some (hNew, adjustDensity (hOld / hNew) adjust nd)) ∧
    (hOld ≠ hNew → setHeight hOld hNew true [] nd = none) ∧
    setHeight hOld hNew false adjust nd = some (hNew, nd) ∧
    setHeight hOld hOld true adjust nd = (if hOld < 0 then none else some (hOld, nd)) := by
  have h1 : ¬ hNew < 0 := not_lt.mpr (le_of_lt hpos)
  have h2 : hNew ≠ 0 := ne_of_gt hpos
  refine ⟨?_, ?_, ?_, ?_⟩
  · intro ha hne
    have : adjust.isEmpty = false := by cases adjust <;> simp_all
    simp [setHeight, h1, h2, hne, this]
  · intro hne; simp [setHeight, h1, hne]
  · simp [setHeight, h1]
  · simp [setHeight]

/-- **`setBlockMesh`, one block**: a component whose mass is to be conserved (`_shouldMassBeConserved` / the flag) keeps
density × height for every nuclide; every other component keeps its densities -/
theorem meshBlock_spec (m : CMode) (af bf below : Bool) (hOld hNew : Rat) (hpos : 0 < hNew) (cs cs' : List MComp)
    (h : meshBlock m af bf below hOld hNew cs = some cs') :
    cs'.length = cs.length ∧
    ∀ (i : Nat) (c : MComp), cs[i]? = some c → ∃ c', cs'[i]? = some c' ∧ c'.fuel = c.fuel ∧ c'.fluid = c.fluid ∧
      (conserves m af bf below c = true → c'.nd.map (· * hNew) = c.nd.map (· * hOld)) ∧
      (conserves m af bf below c = false → c'.nd = c.nd) := by
  have h1 : ¬ hNew < 0 := not_lt.mpr (le_of_lt hpos)
  have h2 : hNew ≠ 0 := ne_of_gt hpos
  unfold meshBlock at h
  simp only [h1, h2, if_false, decide_false, Bool.and_false, Bool.false_eq_true] at h
  have hcs := (Option.some.inj h).symm
  subst hcs
  refine ⟨by simp, ?_⟩
  intro i c hc
  by_cases hk : conserves m af bf below c = true
  · refine ⟨{ c with nd := c.nd.map (fun d => d * (hOld / hNew)) }, by rw [List.getElem?_map, hc]; simp [hk], rfl, rfl,
      fun _ => ?_, fun h' => (by rw [hk] at h'; cases h')⟩
    simp only []
    rw [List.map_map]
    apply List.map_congr_left
    intro d _
    simp only [Function.comp]; field_simp
  · have hk' : conserves m af bf below c = false := by simpa using hk
    exact ⟨c, by rw [List.getElem?_map, hc]; simp [hk'], rfl, rfl, fun h' => (by rw [hk'] at h'; cases h'), fun _ => rfl⟩

/-- non-vacuity: the docstring example of `getBlocksBetweenElevations` (blocks 0–25–50–100, window 0–30) -/
example : blocksBetween [⟨0, 25, 25, (1 : Nat)⟩, ⟨25, 50, 25, 2⟩, ⟨50, 100, 50, 3⟩] 0 30 = some [(1, 25), (2, 5)] := by
  decide +kernel


/-! ### a mass-conserving height change does not depend on the component volume caches -/

private theorem clearCache_idem (cs : List VComp) : clearCache (clearCache cs) = clearCache cs := by
  simp [clearCache, List.map_map, Function.comp_def]

/-- **the result of `setHeight(h, conserveMass=True, ...)` is the same from every cache state**: two blocks
that differ only in which component volumes are cached (and in what stale values those caches hold) end
with the same densities — because the block's cache is cleared before the densities are adjusted. -/
theorem setHeightOne_cache_independent (hOld hNew : Rat) (cs cs' : List VComp)
    (h : clearCache cs = clearCache cs') : setHeightOne hOld hNew cs = setHeightOne hOld hNew cs' := by
  unfold setHeightOne; rw [h]

theorem setHeightOne_of_cleared (hOld hNew : Rat) (cs : List VComp) :
    setHeightOne hOld hNew (clearCache cs) = setHeightOne hOld hNew cs := by
  unfold setHeightOne; rw [clearCache_idem]

private theorem vol_clear (h : Rat) (cs : List VComp) :
    (clearCache cs).map (vol h) = cs.map (fun c => c.area * h) := by
  simp [clearCache, vol, List.map_map, Function.comp_def]

private theorem vsum_mul_right (l : List VComp) (f : VComp → Rat) (k : Rat) :
    (l.map (fun c => f c * k)).sum = (l.map f).sum * k := by
  induction l with
  | nil => simp
  | cons x t ih => simp only [List.map_cons, List.sum_cons, ih]; ring

private theorem sum_active (l : List VComp) (v h : Rat) :
    (l.map (fun c => (if c.nd.isSome then ({ c with nd := some v } : VComp) else c).nd.getD 0 * c.area * h)).sum
      = v * ((l.filter (fun c => c.nd.isSome)).map (fun c => c.area)).sum * h := by
  induction l with
  | nil => simp
  | cons x t ih =>
    rw [List.map_cons, List.sum_cons, ih]
    cases hx : x.nd with
    | none =>
      have hf : (x :: t).filter (fun c => c.nd.isSome) = t.filter (fun c => c.nd.isSome) := by
        simp [List.filter_cons, hx]
      rw [hf]; simp [hx]
    | some w =>
      have hf : (x :: t).filter (fun c => c.nd.isSome) = x :: t.filter (fun c => c.nd.isSome) := by
        simp [List.filter_cons, hx]
      rw [hf]; simp [hx]; ring

private theorem atoms_split (l : List VComp) (h : Rat) :
    atomsOf h l = ((l.map (fun c => c.nd.getD 0 * c.area)).sum) * h := by
  unfold atomsOf
  exact vsum_mul_right l (fun c => c.nd.getD 0 * c.area) h

/-- **the atoms of a listed nuclide are conserved by the height change, summed over the components that share
it** (up to the code's `1e-50` trace term, stated exactly): Σ N'_c·A_c·hNew = Σ N_c·A_c·hOld + TRACE·ΣA·hNew —
from ANY cache state. -/
theorem setHeightOne_atoms (hOld hNew : Rat) (cs : List VComp) (hn : hNew ≠ 0)
    (hA : (cs.map (fun c => c.area)).sum ≠ 0)
    (hAct : ((cs.filter (fun c => c.nd.isSome)).map (fun c => c.area)).sum ≠ 0)
    (hd : blockND hNew (clearCache cs) ≠ 0) :
    atomsOf hNew (setHeightOne hOld hNew cs) = atomsOf hOld cs + TRACE * (cs.map (fun c => c.area)).sum * hNew := by
  have hclr_area : ∀ l : List VComp, (clearCache l).map (fun c => c.area) = l.map (fun c => c.area) := by
    intro l; simp [clearCache, List.map_map, Function.comp_def]
  have hfilt : (clearCache cs).filter (fun c => c.nd.isSome) = clearCache (cs.filter (fun c => c.nd.isSome)) := by
    simp [clearCache, List.filter_map, Function.comp_def]
  have htot : ∀ l : List VComp, totalVol hNew (clearCache l) = (l.map (fun c => c.area)).sum * hNew := by
    intro l
    unfold totalVol
    rw [vol_clear]
    exact vsum_mul_right l (fun c => c.area) hNew
  have hnum : ((clearCache cs).map (fun c => c.nd.getD 0 * vol hNew c)).sum
      = (cs.map (fun c => c.nd.getD 0 * c.area)).sum * hNew := by
    have : (clearCache cs).map (fun c => c.nd.getD 0 * vol hNew c) = cs.map (fun c => c.nd.getD 0 * c.area * hNew) := by
      simp [clearCache, vol, List.map_map, Function.comp_def, mul_assoc]
    rw [this]
    exact vsum_mul_right cs (fun c => c.nd.getD 0 * c.area) hNew
  have hbd : blockND hNew (clearCache cs)
      = (cs.map (fun c => c.nd.getD 0 * c.area)).sum / (cs.map (fun c => c.area)).sum := by
    unfold blockND
    rw [hnum, htot]
    field_simp
  unfold setHeightOne adjustOne
  simp only [hd, if_false]
  unfold setBlockND
  simp only [hfilt, htot]
  unfold atomsOf
  have hmap : ∀ v : Rat, ((clearCache cs).map (fun c => if c.nd.isSome then ({ c with nd := some v } : VComp) else c)).map
      (fun c => c.nd.getD 0 * c.area * hNew)
      = cs.map (fun c => (if c.nd.isSome then ({ c with nd := some v } : VComp) else c).nd.getD 0 * c.area * hNew) := by
    intro v
    simp only [clearCache, List.map_map, Function.comp_def]
    apply List.map_congr_left
    intro c _
    cases hc : c.nd <;> simp [hc]
  rw [hmap, sum_active, hbd]
  have e := atoms_split cs hOld
  unfold atomsOf at e
  rw [e]
  field_simp

/-- why the order of statements matters (the excluded alternative): adjusting the densities while ONE component
still carries its old cached volume does not conserve the atoms of a nuclide shared by two components -/
example :
    let cs : List VComp := [⟨1, some 4, some 10⟩, ⟨3, some 8, none⟩]      -- heights 10 -> 20, first volume stale
    atomsOf 20 (adjustOne 20 (10 / 20) cs) ≠ atomsOf 10 cs + TRACE * 4 * 20 ∧
    atomsOf 20 (setHeightOne 10 20 cs) = atomsOf 10 cs + TRACE * 4 * 20 := by decide +kernel

end ArmiVerif.Mesh
