/-
C11 — re-meshing an assembly axially conserves atoms and integrated quantities.
Property theorems about the model `ArmiVerif/Model/Mesh.lean` (helper lemmas in `Lemmas/Overlap.lean`
or `private` here).
-/
import ArmiVerif.Model.Mesh
import ArmiVerif.Lemmas.Overlap

namespace ArmiVerif.Mesh

variable {α : Type}

/-! ### hypotheses, as explicit predicates -/

/-- no sliver: a block that overlaps the window at all overlaps it by more than `1e-10` of its height
(otherwise `getBlocksBetweenElevations` silently drops it) -/
def NoSliver (zl zu : Rat) (b : Blk α) : Prop := 0 < ovl zl zu b → EPS < ovl zl zu b / b.h

/-- a stack of blocks starting at elevation `z0` -/
def StartsAt (z0 : Rat) (bs : List (Blk α)) : Prop := ∀ b, bs.head? = some b → b.zb = z0

/-- **core lemma** (proved in `Lemmas/Overlap.lean`, restated here so that it is audited with the property
theorems): a contiguous stack of blocks covering the window `[zl, zu]` cuts it into pieces whose lengths
`max 0 (min ztop zu − max zbottom zl)` sum to `zu − zl`. -/
theorem window_overlap_partition (bs : List (Blk α)) (z0 zl zu : Rat) (h : zl ≤ zu) (hc : Contig bs)
    (h0 : StartsAt z0 bs) (hlo : z0 ≤ zl) (hhi : zu ≤ topOf z0 bs) :
    (bs.map (ovl zl zu)).sum = zu - zl :=
  overlap_partition bs z0 zl zu h hc h0 hlo hhi

/-! ### per-block facts -/

private theorem rmin_le_left (a b : Rat) : rmin a b ≤ a := by unfold rmin; split_ifs <;> linarith
private theorem rmin_le_right (a b : Rat) : rmin a b ≤ b := by unfold rmin; split_ifs <;> linarith
private theorem le_rmax_left (a b : Rat) : a ≤ rmax a b := by unfold rmax; split_ifs <;> linarith
private theorem le_rmax_right (a b : Rat) : b ≤ rmax a b := by unfold rmax; split_ifs <;> linarith
private theorem rmin_eq_right (a b : Rat) (h : b ≤ a) : rmin a b = b := by unfold rmin; split_ifs <;> linarith
private theorem EPS_pos : (0 : Rat) < EPS := by unfold EPS; norm_num
private theorem TOL_pos : (0 : Rat) < TOL := by unfold TOL; norm_num

private theorem ovl_pos_iff (zl zu : Rat) (b : Blk α) :
    0 < ovl zl zu b ↔ 0 < heightHere zl zu b := by
  unfold ovl heightHere
  generalize rmin b.zt zu - rmax b.zb zl = x
  unfold rmax; split_ifs <;> constructor <;> intro h <;> linarith

private theorem ovl_of_pos (zl zu : Rat) (b : Blk α) (h : 0 < heightHere zl zu b) :
    ovl zl zu b = heightHere zl zu b := by
  unfold ovl heightHere at *
  generalize rmin b.zt zu - rmax b.zb zl = x at *
  unfold rmax; split_ifs <;> linarith

/-- a block is reported exactly when it overlaps the window, and then with its overlap length -/
private theorem kept_spec (zl zu : Rat) (b : Blk α) (hw : b.zb < b.zt ∧ b.h = b.zt - b.zb)
    (hn : NoSliver zl zu b) :
    (kept zl zu b = true ↔ 0 < ovl zl zu b) ∧ (kept zl zu b = true → heightHere zl zu b = ovl zl zu b) := by
  have hh : 0 < b.h := by rw [hw.2]; linarith
  have key : kept zl zu b = true → 0 < heightHere zl zu b := by
    intro hk
    unfold kept at hk
    simp only [Bool.and_eq_true, decide_eq_true_eq] at hk
    have h1 : 0 < heightHere zl zu b / b.h := lt_trans EPS_pos hk.2
    rcases div_pos_iff.mp h1 with ⟨h2, _⟩ | ⟨_, h3⟩
    · exact h2
    · linarith
  constructor
  · constructor
    · intro hk; exact (ovl_pos_iff zl zu b).mpr (key hk)
    · intro hp
      have hp' := (ovl_pos_iff zl zu b).mp hp
      have hn' := hn hp
      rw [ovl_of_pos zl zu b hp'] at hn'
      unfold kept marked
      simp only [Bool.and_eq_true, decide_eq_true_eq]
      refine ⟨⟨?_, ?_⟩, hn'⟩
      · have := rmin_le_left b.zt zu; have := le_rmax_right b.zb zl
        unfold heightHere at hp'; linarith
      · have := rmin_le_right b.zt zu; have := le_rmax_left b.zb zl
        unfold heightHere at hp'; linarith
  · intro hk; exact (ovl_of_pos zl zu b (key hk)).symm

private theorem kept_term (zl zu : Rat) (b : Blk α) (hw : b.zb < b.zt ∧ b.h = b.zt - b.zb)
    (hn : NoSliver zl zu b) (g : Blk α → Rat) :
    (if kept zl zu b = true then g b * heightHere zl zu b else 0) = g b * ovl zl zu b := by
  obtain ⟨h1, h2⟩ := kept_spec zl zu b hw hn
  by_cases hk : kept zl zu b = true
  · rw [if_pos hk, h2 hk]
  · rw [if_neg hk]
    have : ¬ 0 < ovl zl zu b := fun hp => hk (h1.mpr hp)
    have h0 := ovl_nonneg zl zu b
    have : ovl zl zu b = 0 := le_antisymm (not_lt.mp this) h0
    rw [this]; ring

/-- weighted sums over the reported blocks are weighted sums of overlaps over all blocks -/
private theorem sum_kept (zl zu : Rat) (bs : List (Blk α)) (hc : Contig bs)
    (hn : ∀ b ∈ bs, NoSliver zl zu b) (g : Blk α → Rat) :
    (((bs.filter (kept zl zu)).map (fun b => g b * heightHere zl zu b))).sum
      = (bs.map (fun b => g b * ovl zl zu b)).sum := by
  rw [sum_filter_map]
  congr 1
  apply List.map_congr_left
  intro b hb
  exact kept_term zl zu b (hc.mem b hb) (hn b hb) g

/-! ### the window is always found inside a contiguous stack -/

private theorem exists_block_at : ∀ (bs : List (Blk α)) (z0 z : Rat), Contig bs → StartsAt z0 bs → bs ≠ [] →
    z0 ≤ z → z ≤ topOf z0 bs → ∃ b ∈ bs, b.zb ≤ z ∧ z ≤ b.zt
  | [], _, _, _, _, hne, _, _ => absurd rfl hne
  | [b], z0, z, _, h0, _, h1, h2 => by
    refine ⟨b, List.mem_singleton.mpr rfl, ?_, ?_⟩
    · rw [h0 b rfl]; exact h1
    · simpa [topOf] using h2
  | b :: c :: t, z0, z, hc, h0, _, h1, h2 => by
    by_cases hz : z ≤ b.zt
    · exact ⟨b, List.mem_cons_self, by rw [h0 b rfl]; exact h1, hz⟩
    · have hs : StartsAt b.zt (c :: t) := by
        intro x hx; simp at hx; subst hx; exact hc.2.2.1.symm
      obtain ⟨x, hx, hx1, hx2⟩ := exists_block_at (c :: t) b.zt z hc.2.2.2 hs (by simp)
        (le_of_lt (not_le.mp hz)) (by simpa [topOf] using h2)
      exact ⟨x, List.mem_cons_of_mem _ hx, hx1, hx2⟩

private theorem foldl_rmin_le : ∀ (ps : List Rat) (p : Rat), ps.foldl rmin p ≤ p ∧ ∀ x ∈ ps, ps.foldl rmin p ≤ x
  | [], p => ⟨le_refl _, by intro x hx; cases hx⟩
  | a :: t, p => by
    obtain ⟨h1, h2⟩ := foldl_rmin_le t (rmin p a)
    simp only [List.foldl_cons]
    refine ⟨le_trans h1 (rmin_le_left p a), ?_⟩
    intro x hx
    rcases List.mem_cons.mp hx with rfl | hx
    · exact le_trans h1 (rmin_le_right p _)
    · exact h2 x hx

private theorem le_foldl_rmax : ∀ (ps : List Rat) (p : Rat), p ≤ ps.foldl rmax p ∧ ∀ x ∈ ps, x ≤ ps.foldl rmax p
  | [], p => ⟨le_refl _, by intro x hx; cases hx⟩
  | a :: t, p => by
    obtain ⟨h1, h2⟩ := le_foldl_rmax t (rmax p a)
    simp only [List.foldl_cons]
    refine ⟨le_trans (le_rmax_left p a) h1, ?_⟩
    intro x hx
    rcases List.mem_cons.mp hx with rfl | hx
    · exact le_trans (le_rmax_right p _) h1
    · exact h2 x hx

/-- **`getBlocksBetweenElevations` never refuses a window inside a well-formed assembly**, and what it
returns is the list of blocks it keeps, each with `min(ztop, zu) − max(zbottom, zl)`. -/
theorem blocksBetween_eq (bs : List (Blk α)) (z0 zl zu : Rat) (hc : Contig bs) (h0 : StartsAt z0 bs)
    (hlo : z0 ≤ zl) (hlt : zl < zu) (hhi : zu ≤ topOf z0 bs) (hn : ∀ b ∈ bs, NoSliver zl zu b) :
    blocksBetween bs zl zu = some ((bs.filter (kept zl zu)).map (fun b => (b.v, heightHere zl zu b))) := by
  have hne : bs ≠ [] := by
    intro he; subst he; simp [topOf] at hhi; linarith
  obtain ⟨bl, hbl, hbl1, hbl2⟩ := exists_block_at bs z0 zl hc h0 hne hlo (le_trans (le_of_lt hlt) hhi)
  obtain ⟨bu, hbu, hbu1, hbu2⟩ := exists_block_at bs z0 zu hc h0 hne (le_trans hlo (le_of_lt hlt)) hhi
  have hml : marked zl zu bl = true := by
    unfold marked; simp only [Bool.and_eq_true, decide_eq_true_eq]; exact ⟨hbl2, by linarith⟩
  have hmu : marked zl zu bu = true := by
    unfold marked; simp only [Bool.and_eq_true, decide_eq_true_eq]; exact ⟨by linarith, hbu1⟩
  have htot : ((((bs.filter (kept zl zu)).map (fun b => (b.v, heightHere zl zu b))).map (·.2))).sum = zu - zl := by
    rw [List.map_map]
    have := sum_kept zl zu bs hc hn (fun _ => 1)
    simp only [one_mul] at this
    have e : ((fun x : α × Rat => x.2) ∘ fun b : Blk α => (b.v, heightHere zl zu b)) = fun b => heightHere zl zu b := rfl
    rw [e, this]
    exact overlap_partition bs z0 zl zu (le_of_lt hlt) hc h0 hlo hhi
  unfold blocksBetween
  simp only []
  have hmem : ∀ b ∈ bs, marked zl zu b = true →
      b.zb ∈ (bs.filter (marked zl zu)).flatMap (fun b => [b.zb, b.zt]) ∧
      b.zt ∈ (bs.filter (marked zl zu)).flatMap (fun b => [b.zb, b.zt]) := by
    intro b hb hm
    constructor <;> (rw [List.mem_flatMap]; exact ⟨b, List.mem_filter.mpr ⟨hb, hm⟩, by simp⟩)
  split
  · next heq =>
    have := (hmem bl hbl hml).1
    rw [heq] at this; cases this
  · next p ps heq =>
    rw [htot]
    have hlo' : ps.foldl rmin p ≤ zl := by
      have hm := (hmem bl hbl hml).1
      rw [heq] at hm
      obtain ⟨h1, h2⟩ := foldl_rmin_le ps p
      rcases List.mem_cons.mp hm with he | hm
      · rw [he] at hbl1; exact le_trans h1 hbl1
      · exact le_trans (h2 _ hm) hbl1
    have hhi' : zu ≤ ps.foldl rmax p := by
      have hm := (hmem bu hbu hmu).2
      rw [heq] at hm
      obtain ⟨h1, h2⟩ := le_foldl_rmax ps p
      rcases List.mem_cons.mp hm with he | hm
      · rw [he] at hbu2; exact le_trans hbu2 h1
      · exact le_trans hbu2 (h2 _ hm)
    have hexp : rmin (ps.foldl rmax p - ps.foldl rmin p) (zu - zl) = zu - zl :=
      rmin_eq_right _ _ (by linarith)
    rw [hexp, if_neg]
    have : rabs (zu - zl - (zu - zl)) = 0 := by unfold rabs; simp
    rw [this]; exact not_lt.mpr (le_of_lt TOL_pos)

/-- **The blocks reported between two elevations partition the interval**: the call succeeds, every
reported overlap height is positive, and the heights sum to the length of the interval. -/
theorem blocksBetween_partition (bs : List (Blk α)) (z0 zl zu : Rat) (hc : Contig bs) (h0 : StartsAt z0 bs)
    (hlo : z0 ≤ zl) (hlt : zl < zu) (hhi : zu ≤ topOf z0 bs) (hn : ∀ b ∈ bs, NoSliver zl zu b) :
    ∃ l, blocksBetween bs zl zu = some l ∧ (∀ x ∈ l, 0 < x.2) ∧ (l.map (·.2)).sum = zu - zl := by
  refine ⟨_, blocksBetween_eq bs z0 zl zu hc h0 hlo hlt hhi hn, ?_, ?_⟩
  · intro x hx
    obtain ⟨b, hb, rfl⟩ := List.mem_map.mp hx
    obtain ⟨hb1, hb2⟩ := List.mem_filter.mp hb
    obtain ⟨k1, k2⟩ := kept_spec zl zu b (hc.mem b hb1) (hn b hb1)
    simp only []
    rw [k2 hb2]; exact k1.mp hb2
  · rw [List.map_map]
    have := sum_kept zl zu bs hc hn (fun _ => 1)
    simp only [one_mul] at this
    have e : ((fun x : α × Rat => x.2) ∘ fun b : Blk α => (b.v, heightHere zl zu b)) = fun b => heightHere zl zu b := rfl
    rw [e, this]
    exact overlap_partition bs z0 zl zu (le_of_lt hlt) hc h0 hlo hhi

/-! ### number densities: atoms are conserved -/

private theorem mapM_some {β γ : Type} (f : β → Option γ) (g : β → γ) :
    ∀ (l : List β), (∀ x ∈ l, f x = some (g x)) → l.mapM f = some (l.map g)
  | [], _ => rfl
  | a :: t, h => by
    have ha := h a List.mem_cons_self
    have ht := mapM_some f g t (fun x hx => h x (List.mem_cons_of_mem _ hx))
    simp [List.mapM_cons, ha, ht]

/-- every block of a contiguous stack lies between the stack's bottom and top -/
private theorem mem_bounds : ∀ (bs : List (Blk α)) (z0 : Rat), Contig bs → StartsAt z0 bs →
    ∀ b ∈ bs, z0 ≤ b.zb ∧ b.zt ≤ topOf z0 bs
  | [], _, _, _ => by intro b hb; cases hb
  | [a], z0, hc, h0 => by
    intro b hb
    rw [List.mem_singleton.mp hb]
    exact ⟨le_of_eq (h0 a rfl).symm, by simp [topOf]⟩
  | a :: c :: t, z0, hc, h0 => by
    intro b hb
    have hs : StartsAt a.zt (c :: t) := by
      intro x hx; simp at hx; subst hx; exact hc.2.2.1.symm
    have htop : a.zt ≤ topOf a.zt (c :: t) := by
      have := (mem_bounds (c :: t) a.zt hc.2.2.2 hs c List.mem_cons_self)
      have hcw := hc.2.2.2.head
      rw [← hc.2.2.1] at this
      linarith [this.1, this.2, hcw.1, hc.2.2.1]
    rcases List.mem_cons.mp hb with rfl | hb
    · exact ⟨le_of_eq (h0 b rfl).symm, by simpa [topOf] using htop⟩
    · have := mem_bounds (c :: t) a.zt hc.2.2.2 hs b hb
      have ha := h0 a rfl
      refine ⟨?_, by simpa [topOf] using this.2⟩
      linarith [this.1, hc.1]

/-- the list reported for a window is not empty -/
private theorem kept_ne_nil (bs : List (Blk α)) (z0 zl zu : Rat) (hc : Contig bs) (h0 : StartsAt z0 bs)
    (hlo : z0 ≤ zl) (hlt : zl < zu) (hhi : zu ≤ topOf z0 bs) (hn : ∀ b ∈ bs, NoSliver zl zu b) :
    (bs.filter (kept zl zu)).map (fun b => (b.v, heightHere zl zu b)) ≠ [] := by
  intro he
  obtain ⟨l, hl, _, hsum⟩ := blocksBetween_partition bs z0 zl zu hc h0 hlo hlt hhi hn
  rw [blocksBetween_eq bs z0 zl zu hc h0 hlo hlt hhi hn] at hl
  have : l = [] := by rw [← Option.some.inj hl]; exact he
  rw [this] at hsum; simp at hsum; linarith

/-- hypotheses shared by the re-meshing theorems: source and destination are well-formed stacks over
the same height, and no destination cell cuts a sliver thinner than `1e-10` of a source block -/
structure Remeshable (src : List (Blk α)) {β : Type} (dst : List (Blk β)) (z0 : Rat) : Prop where
  csrc : Contig src
  cdst : Contig dst
  ssrc : StartsAt z0 src
  sdst : StartsAt z0 dst
  top  : topOf z0 src = topOf z0 dst
  nosl : ∀ d ∈ dst, ∀ s ∈ src, NoSliver d.zb d.zt s

/-- Σ_d Σ_s w(s)·|d ∩ s| = Σ_s w(s)·h_s : the destination mesh partitions every source block -/
private theorem double_sum {β : Type} (src : List (Blk α)) (dst : List (Blk β)) (z0 : Rat)
    (H : Remeshable src dst z0) (w : Blk α → Rat) :
    (dst.map (fun d => (src.map (fun s => w s * ovl d.zb d.zt s)).sum)).sum = (src.map (fun s => w s * s.h)).sum := by
  rw [sum_sum_comm (fun (d : Blk β) (s : Blk α) => w s * ovl d.zb d.zt s) dst src]
  congr 1
  apply List.map_congr_left
  intro s hs
  have hw := H.csrc.mem s hs
  have hb := mem_bounds src z0 H.csrc H.ssrc s hs
  rw [sum_map_mul_left]
  have : (dst.map (fun d => ovl d.zb d.zt s)) = dst.map (ovl s.zb s.zt) := by
    apply List.map_congr_left
    intro d _
    exact ovl_symm d.zb d.zt s d rfl rfl
  rw [this, overlap_partition dst z0 s.zb s.zt (le_of_lt hw.1) H.cdst H.sdst hb.1 (by rw [← H.top]; exact hb.2), hw.2]

/-- the mapped number density of one destination block: Σ_s N_s·|d ∩ s| / H_d -/
def mappedND (src : List (Blk Rat)) {β : Type} (d : Blk β) : Rat :=
  (src.map (fun s => s.v * ovl d.zb d.zt s)).sum / d.h

private theorem setND_eq (src : List (Blk Rat)) (d : Blk Unit) (z0 : Rat) (hc : Contig src)
    (hn : ∀ s ∈ src, NoSliver d.zb d.zt s) :
    setND d.h ((src.filter (kept d.zb d.zt)).map (fun b => (b.v, heightHere d.zb d.zt b))) = mappedND src d := by
  unfold setND mappedND
  rw [List.map_map]
  have e : ((fun x : Rat × Rat => x.1 * (x.2 / d.h)) ∘ fun b : Blk Rat => (b.v, heightHere d.zb d.zt b))
      = fun b => (b.v / d.h) * heightHere d.zb d.zt b := by
    funext b; simp only [Function.comp]; ring
  rw [e, sum_kept d.zb d.zt src hc hn (fun b => b.v / d.h)]
  rw [div_eq_mul_inv, ← sum_map_mul_right]
  congr 1
  apply List.map_congr_left
  intro b _; ring

/-- **`setNumberDensitiesFromOverlaps` over a whole assembly**: every destination block is written, with
the height-weighted mean of the source densities it overlaps. -/
theorem remapND_eq (src : List (Blk Rat)) (dst : List (Blk Unit)) (z0 : Rat) (H : Remeshable src dst z0) :
    remapND src dst = some (dst.map (fun d => DestVal.set (mappedND src d))) := by
  unfold remapND
  apply mapM_some
  intro d hd
  have hw := H.cdst.mem d hd
  have hb := mem_bounds dst z0 H.cdst H.sdst d hd
  have hhi : d.zt ≤ topOf z0 src := by rw [H.top]; exact hb.2
  rw [blocksBetween_eq src z0 d.zb d.zt H.csrc H.ssrc hb.1 hw.1 hhi (H.nosl d hd)]
  have hne := kept_ne_nil src z0 d.zb d.zt H.csrc H.ssrc hb.1 hw.1 hhi (H.nosl d hd)
  have hs := setND_eq src d z0 H.csrc (H.nosl d hd)
  cases hL : (src.filter (kept d.zb d.zt)).map (fun b => (b.v, heightHere d.zb d.zt b)) with
  | nil => exact absurd hL hne
  | cons x xs => simp only []; rw [← hL, hs]

/-- **atoms are conserved**: Σ_d N'_d·H_d = Σ_s N_s·h_s for every nuclide, for any two meshes over the
same height (`Remeshable`). -/
theorem atoms_conserved (src : List (Blk Rat)) (dst : List (Blk Unit)) (z0 : Rat) (H : Remeshable src dst z0) :
    (dst.map (fun d => mappedND src d * d.h)).sum = (src.map (fun s => s.v * s.h)).sum := by
  rw [← double_sum src dst z0 H (fun s => s.v)]
  congr 1
  apply List.map_congr_left
  intro d hd
  have hw := H.cdst.mem d hd
  have : d.h ≠ 0 := by rw [hw.2]; linarith [hw.1]
  unfold mappedND
  field_simp

/-! ### block parameters: integrated / averaged / peak -/

/-- relabelling the payload keeps the geometry -/
private def GeoEq {β : Type} (g : Blk α → Blk β) : Prop := ∀ b, (g b).zb = b.zb ∧ (g b).zt = b.zt ∧ (g b).h = b.h

private theorem contig_map {β : Type} (g : Blk α → Blk β) (hg : GeoEq g) : ∀ bs : List (Blk α), Contig bs → Contig (bs.map g)
  | [], _ => trivial
  | [b], h => by
    obtain ⟨h1, h2, h3⟩ := hg b
    simp only [List.map_cons, List.map_nil, Contig, h1, h2, h3]; exact h
  | b :: c :: t, h => by
    obtain ⟨h1, h2, h3⟩ := hg b
    have ih := contig_map g hg (c :: t) h.2.2.2
    simp only [List.map_cons, Contig, h1, h2, h3, (hg c).1] at ih ⊢
    exact ⟨h.1, h.2.1, h.2.2.1, ih⟩

private theorem topOf_map {β : Type} (g : Blk α → Blk β) (hg : GeoEq g) : ∀ (bs : List (Blk α)) (z0 : Rat),
    topOf z0 (bs.map g) = topOf z0 bs
  | [], _ => rfl
  | b :: t, z0 => by simp only [List.map_cons, topOf, (hg b).2.1]; exact topOf_map g hg t b.zt

private theorem startsAt_map {β : Type} (g : Blk α → Blk β) (hg : GeoEq g) (bs : List (Blk α)) (z0 : Rat)
    (h : StartsAt z0 bs) : StartsAt z0 (bs.map g) := by
  intro x hx
  cases bs with
  | nil => simp at hx
  | cons b t => simp at hx; subst hx; rw [(hg b).1]; exact h b rfl

private theorem ovl_map {β : Type} (g : Blk α → Blk β) (hg : GeoEq g) (zl zu : Rat) (b : Blk α) :
    ovl zl zu (g b) = ovl zl zu b := by
  unfold ovl; rw [(hg b).1, (hg b).2.1]

private theorem remeshable_map {β γ : Type} (g : Blk α → Blk β) (hg : GeoEq g) (src : List (Blk α))
    (dst : List (Blk γ)) (z0 : Rat) (H : Remeshable src dst z0) : Remeshable (src.map g) dst z0 where
  csrc := contig_map g hg src H.csrc
  cdst := H.cdst
  ssrc := startsAt_map g hg src z0 H.ssrc
  sdst := H.sdst
  top := by rw [topOf_map g hg]; exact H.top
  nosl := by
    intro d hd s hs
    obtain ⟨b, hb, rfl⟩ := List.mem_map.mp hs
    have := H.nosl d hd b hb
    unfold NoSliver at *
    rw [ovl_map g hg, (hg b).2.2]; exact this

/-- the source with every value present, as `setAssemblyStateFromOverlaps` sees it -/
def present (src : List (Blk Rat)) : List (Blk (Option Rat)) := src.map (fun b => { b with v := some b.v })

private def G (b : Blk Rat) : Blk (Rat × Option Rat) := ⟨b.zb, b.zt, b.h, (b.h, some b.v)⟩
private theorem G_geo : GeoEq G := fun _ => ⟨rfl, rfl, rfl⟩

private def term (k : Kind) (Hd : Rat) (x : (Rat × Option Rat) × Rat) : Rat :=
  x.1.2.getD 0 * (x.2 / (match k with | .integrated => x.1.1 | _ => Hd))

private theorem foldl_accum_some (k : Kind) (hk : k ≠ .peak) (Hd : Rat) :
    ∀ (L : List ((Rat × Option Rat) × Rat)) (acc : Rat), (∀ x ∈ L, ∃ v, x.1.2 = some v) →
      L.foldl (accum k Hd) (some acc) = some (acc + (L.map (term k Hd)).sum)
  | [], acc, _ => by simp
  | x :: t, acc, h => by
    obtain ⟨v, hv⟩ := h x List.mem_cons_self
    have ih := foldl_accum_some k hk Hd t
    simp only [List.foldl_cons, List.map_cons, List.sum_cons]
    have : accum k Hd (some acc) x = some (acc + term k Hd x) := by
      unfold accum term; rw [hv]
      cases k <;> simp_all
    rw [this, ih _ (fun y hy => h y (List.mem_cons_of_mem _ hy))]
    congr 1; ring

private theorem mapParam_sum (k : Kind) (hk : k ≠ .peak) (Hd : Rat) (L : List ((Rat × Option Rat) × Rat))
    (hne : L ≠ []) (h : ∀ x ∈ L, ∃ v, x.1.2 = some v) : mapParam k Hd L = some ((L.map (term k Hd)).sum) := by
  cases L with
  | nil => exact absurd rfl hne
  | cons x t =>
    obtain ⟨v, hv⟩ := h x List.mem_cons_self
    unfold mapParam
    simp only [List.foldl_cons, List.map_cons, List.sum_cons]
    have : accum k Hd none x = some (term k Hd x) := by
      unfold accum term; rw [hv]
      cases k <;> simp_all
    rw [this, foldl_accum_some k hk Hd t _ (fun y hy => h y (List.mem_cons_of_mem _ hy))]

/-- value written for a non-peak parameter: Σ_s v_s · |d ∩ s| / (h_s resp. H_d) -/
def mappedParam (k : Kind) (src : List (Blk Rat)) {β : Type} (d : Blk β) : Rat :=
  (src.map (fun s => s.v * (ovl d.zb d.zt s / (match k with | .integrated => s.h | _ => d.h)))).sum

/-- **`setAssemblyStateFromOverlaps` for an integrated or averaged parameter**: every destination
block is written with the overlap-weighted sum of the source values. -/
theorem remapParam_eq (k : Kind) (hk : k ≠ .peak) (src : List (Blk Rat)) (dst : List (Blk Unit)) (z0 : Rat)
    (H : Remeshable src dst z0) :
    remapParam k (present src) dst = some (dst.map (fun d => DestVal.set (mappedParam k src d))) := by
  unfold remapParam present
  rw [List.map_map]
  have eG : ((fun b : Blk (Option Rat) => ({ b with v := (b.h, b.v) } : Blk (Rat × Option Rat))) ∘
      fun b : Blk Rat => ({ b with v := some b.v } : Blk (Option Rat))) = G := rfl
  rw [eG]
  have H' := remeshable_map G G_geo src dst z0 H
  apply mapM_some
  intro d hd
  have hw := H.cdst.mem d hd
  have hb := mem_bounds dst z0 H.cdst H.sdst d hd
  have hhi : d.zt ≤ topOf z0 (src.map G) := by rw [H'.top]; exact hb.2
  rw [blocksBetween_eq (src.map G) z0 d.zb d.zt H'.csrc H'.ssrc hb.1 hw.1 hhi (H'.nosl d hd)]
  have hne := kept_ne_nil (src.map G) z0 d.zb d.zt H'.csrc H'.ssrc hb.1 hw.1 hhi (H'.nosl d hd)
  have hall : ∀ x ∈ ((src.map G).filter (kept d.zb d.zt)).map (fun b => (b.v, heightHere d.zb d.zt b)),
      ∃ v, x.1.2 = some v := by
    intro x hx
    obtain ⟨b, hb', rfl⟩ := List.mem_map.mp hx
    obtain ⟨s, _, rfl⟩ := List.mem_map.mp (List.mem_filter.mp hb').1
    exact ⟨s.v, rfl⟩
  have hval := mapParam_sum k hk d.h _ hne hall
  -- the sum over the reported blocks is the sum over all source blocks
  have hsum : ((((src.map G).filter (kept d.zb d.zt)).map (fun b => (b.v, heightHere d.zb d.zt b))).map (term k d.h)).sum
      = mappedParam k src d := by
    rw [List.map_map]
    have e : (term k d.h ∘ fun b : Blk (Rat × Option Rat) => (b.v, heightHere d.zb d.zt b))
        = fun b => (b.v.2.getD 0 / (match k with | .integrated => b.v.1 | _ => d.h)) * heightHere d.zb d.zt b := by
      funext b; simp only [Function.comp, term]; ring
    rw [e, sum_kept d.zb d.zt (src.map G) H'.csrc (H'.nosl d hd)
      (fun b => b.v.2.getD 0 / (match k with | .integrated => b.v.1 | _ => d.h)), List.map_map]
    unfold mappedParam
    congr 1
    apply List.map_congr_left
    intro s _
    have ho : ovl d.zb d.zt (G s) = ovl d.zb d.zt s := ovl_map G G_geo _ _ s
    simp only [Function.comp]
    rw [ho]
    simp only [G, Option.getD_some]
    ring
  cases hL : ((src.map G).filter (kept d.zb d.zt)).map (fun b => (b.v, heightHere d.zb d.zt b)) with
  | nil => exact absurd hL hne
  | cons x xs =>
    simp only []
    rw [← hL, hval, hsum]

/-- **the assembly total of every volume-integrated quantity is conserved** -/
theorem integrated_total_conserved (src : List (Blk Rat)) (dst : List (Blk Unit)) (z0 : Rat)
    (H : Remeshable src dst z0) :
    (dst.map (fun d => mappedParam .integrated src d)).sum = (src.map (·.v)).sum := by
  unfold mappedParam
  have := double_sum src dst z0 H (fun s => s.v / s.h)
  have e1 : (dst.map (fun d => (src.map (fun s => s.v * (ovl d.zb d.zt s / s.h))).sum))
      = dst.map (fun d => (src.map (fun s => s.v / s.h * ovl d.zb d.zt s)).sum) := by
    apply List.map_congr_left; intro d _; congr 1
    apply List.map_congr_left; intro s _; ring
  simp only [] at e1 ⊢
  rw [e1, this]
  congr 1
  apply List.map_congr_left
  intro s hs
  have hw := H.csrc.mem s hs
  have : s.h ≠ 0 := by rw [hw.2]; linarith [hw.1]
  field_simp

/-- **every other quantity gets the height-weighted mean of the source values it overlaps**
(the weights `|d ∩ s| / H_d` are non-negative and sum to one, see `weights_sum_to_height`) -/
theorem average_is_height_weighted_mean (src : List (Blk Rat)) {β : Type} (d : Blk β) :
    mappedParam .averaged src d = (src.map (fun s => s.v * ovl d.zb d.zt s)).sum / d.h := by
  unfold mappedParam
  rw [div_eq_mul_inv, ← sum_map_mul_right]
  congr 1
  apply List.map_congr_left; intro s _; simp only []; ring

theorem weights_sum_to_height (src : List (Blk Rat)) (dst : List (Blk Unit)) (z0 : Rat) (H : Remeshable src dst z0)
    (d : Blk Unit) (hd : d ∈ dst) : (src.map (ovl d.zb d.zt)).sum = d.h ∧ ∀ s ∈ src, 0 ≤ ovl d.zb d.zt s := by
  have hw := H.cdst.mem d hd
  have hb := mem_bounds dst z0 H.cdst H.sdst d hd
  refine ⟨?_, fun s _ => ovl_nonneg _ _ s⟩
  rw [overlap_partition src z0 d.zb d.zt (le_of_lt hw.1) H.csrc H.ssrc hb.1 (by rw [H.top]; exact hb.2), hw.2]

/-- **constant profiles stay constant** -/
theorem constant_stays_constant (src : List (Blk Rat)) (dst : List (Blk Unit)) (z0 c : Rat)
    (H : Remeshable src dst z0) (hc : ∀ s ∈ src, s.v = c) (d : Blk Unit) (hd : d ∈ dst) :
    mappedParam .averaged src d = c := by
  rw [average_is_height_weighted_mean]
  have hw := H.cdst.mem d hd
  have hne : d.h ≠ 0 := by rw [hw.2]; linarith [hw.1]
  have e : (src.map (fun s => s.v * ovl d.zb d.zt s)) = src.map (fun s => c * ovl d.zb d.zt s) := by
    apply List.map_congr_left; intro s hs; rw [hc s hs]
  rw [e, sum_map_mul_left, (weights_sum_to_height src dst z0 H d hd).1]
  field_simp

/-- **mapping a state onto another mesh and back restores the assembly totals** of integrated
quantities (and, by `atoms_conserved` twice, the atoms of every nuclide) -/
theorem roundtrip_totals (src : List (Blk Rat)) (dst : List (Blk Unit)) (z0 : Rat)
    (H : Remeshable src dst z0)
    (H' : Remeshable (dst.map (fun d => (⟨d.zb, d.zt, d.h, mappedParam .integrated src d⟩ : Blk Rat)))
            (src.map (fun s => (⟨s.zb, s.zt, s.h, ()⟩ : Blk Unit))) z0) :
    ((src.map (fun s => (⟨s.zb, s.zt, s.h, ()⟩ : Blk Unit))).map
        (fun s' => mappedParam .integrated
          (dst.map (fun d => (⟨d.zb, d.zt, d.h, mappedParam .integrated src d⟩ : Blk Rat))) s')).sum
      = (src.map (·.v)).sum := by
  rw [integrated_total_conserved _ _ z0 H', List.map_map]
  exact integrated_total_conserved src dst z0 H

/-! ### peak parameters -/

private theorem foldl_accum_peak (Hd : Rat) :
    ∀ (L : List ((Rat × Option Rat) × Rat)) (acc : Rat), (∀ x ∈ L, ∃ v, x.1.2 = some v) →
      L.foldl (accum .peak Hd) (some acc) = some ((L.map (fun x => x.1.2.getD 0)).foldl rmax acc)
  | [], acc, _ => by simp
  | x :: t, acc, h => by
    obtain ⟨v, hv⟩ := h x List.mem_cons_self
    simp only [List.foldl_cons, List.map_cons]
    have : accum .peak Hd (some acc) x = some (rmax acc (x.1.2.getD 0)) := by
      unfold accum; rw [hv]; simp
    rw [this, foldl_accum_peak Hd t _ (fun y hy => h y (List.mem_cons_of_mem _ hy))]

private theorem mapParam_peak (Hd : Rat) (L : List ((Rat × Option Rat) × Rat)) (hne : L ≠ [])
    (h : ∀ x ∈ L, ∃ v, x.1.2 = some v) :
    mapParam .peak Hd L = some ((L.map (fun x => x.1.2.getD 0)).foldl rmax 0) := by
  cases L with
  | nil => exact absurd rfl hne
  | cons x t =>
    obtain ⟨v, hv⟩ := h x List.mem_cons_self
    unfold mapParam
    simp only [List.foldl_cons, List.map_cons]
    have : accum .peak Hd none x = some (rmax 0 (x.1.2.getD 0)) := by
      unfold accum; rw [hv]; simp
    rw [this, foldl_accum_peak Hd t _ (fun y hy => h y (List.mem_cons_of_mem _ hy))]

private theorem foldl_rmax_mem : ∀ (l : List Rat) (a : Rat), l.foldl rmax a = a ∨ l.foldl rmax a ∈ l
  | [], a => Or.inl rfl
  | x :: t, a => by
    simp only [List.foldl_cons]
    rcases foldl_rmax_mem t (rmax a x) with h | h
    · rw [h]; unfold rmax; split_ifs
      · exact Or.inr List.mem_cons_self
      · exact Or.inl rfl
    · exact Or.inr (List.mem_cons_of_mem _ h)

/-- **peak quantities take the largest overlapped value** — for non-negative source values
(the running maximum starts from `defaultdict(float)`'s 0.0; see the witness below for negative ones). -/
theorem peak_is_max (src : List (Blk Rat)) (dst : List (Blk Unit)) (z0 : Rat) (H : Remeshable src dst z0)
    (hpos : ∀ s ∈ src, 0 ≤ s.v) :
    ∃ pk : Blk Unit → Rat, remapParam .peak (present src) dst = some (dst.map (fun d => DestVal.set (pk d))) ∧
      ∀ d ∈ dst, (∀ s ∈ src, 0 < ovl d.zb d.zt s → s.v ≤ pk d) ∧ (∃ s ∈ src, 0 < ovl d.zb d.zt s ∧ s.v = pk d) := by
  have H' := remeshable_map G G_geo src dst z0 H
  refine ⟨fun d => ((((src.map G).filter (kept d.zb d.zt)).map (fun b => (b.v, heightHere d.zb d.zt b))).map
      (fun x => x.1.2.getD 0)).foldl rmax 0, ?_, ?_⟩
  · unfold remapParam present
    rw [List.map_map]
    have eG : ((fun b : Blk (Option Rat) => ({ b with v := (b.h, b.v) } : Blk (Rat × Option Rat))) ∘
        fun b : Blk Rat => ({ b with v := some b.v } : Blk (Option Rat))) = G := rfl
    rw [eG]
    apply mapM_some
    intro d hd
    have hw := H.cdst.mem d hd
    have hb := mem_bounds dst z0 H.cdst H.sdst d hd
    have hhi : d.zt ≤ topOf z0 (src.map G) := by rw [H'.top]; exact hb.2
    rw [blocksBetween_eq (src.map G) z0 d.zb d.zt H'.csrc H'.ssrc hb.1 hw.1 hhi (H'.nosl d hd)]
    have hne := kept_ne_nil (src.map G) z0 d.zb d.zt H'.csrc H'.ssrc hb.1 hw.1 hhi (H'.nosl d hd)
    have hall : ∀ x ∈ ((src.map G).filter (kept d.zb d.zt)).map (fun b => (b.v, heightHere d.zb d.zt b)),
        ∃ v, x.1.2 = some v := by
      intro x hx
      obtain ⟨b, hb', rfl⟩ := List.mem_map.mp hx
      obtain ⟨s, _, rfl⟩ := List.mem_map.mp (List.mem_filter.mp hb').1
      exact ⟨s.v, rfl⟩
    have hval := mapParam_peak d.h _ hne hall
    cases hL : ((src.map G).filter (kept d.zb d.zt)).map (fun b => (b.v, heightHere d.zb d.zt b)) with
    | nil => exact absurd hL hne
    | cons x xs => simp only []; rw [← hL, hval]
  · intro d hd
    dsimp only
    have hw := H.cdst.mem d hd
    have hb := mem_bounds dst z0 H.cdst H.sdst d hd
    have hhi : d.zt ≤ topOf z0 (src.map G) := by rw [H'.top]; exact hb.2
    -- the values folded over are exactly the values of the overlapping source blocks
    have hvals : ∀ v, v ∈ ((((src.map G).filter (kept d.zb d.zt)).map (fun b => (b.v, heightHere d.zb d.zt b))).map
        (fun x => x.1.2.getD 0)) ↔ ∃ s ∈ src, 0 < ovl d.zb d.zt s ∧ s.v = v := by
      intro v
      simp only [List.map_map, List.mem_map, List.mem_filter, Function.comp]
      constructor
      · rintro ⟨b, ⟨⟨s, hs, rfl⟩, hk⟩, rfl⟩
        have hks := kept_spec d.zb d.zt (G s) (H'.csrc.mem _ (List.mem_map.mpr ⟨s, hs, rfl⟩))
          (H'.nosl d hd _ (List.mem_map.mpr ⟨s, hs, rfl⟩))
        refine ⟨s, hs, ?_, rfl⟩
        rw [← ovl_map G G_geo]; exact hks.1.mp hk
      · rintro ⟨s, hs, hp, rfl⟩
        have hks := kept_spec d.zb d.zt (G s) (H'.csrc.mem _ (List.mem_map.mpr ⟨s, hs, rfl⟩))
          (H'.nosl d hd _ (List.mem_map.mpr ⟨s, hs, rfl⟩))
        exact ⟨G s, ⟨⟨s, hs, rfl⟩, hks.1.mpr (by rw [ovl_map G G_geo]; exact hp)⟩, rfl⟩
    generalize hV : ((((src.map G).filter (kept d.zb d.zt)).map (fun b => (b.v, heightHere d.zb d.zt b))).map
        (fun x => x.1.2.getD 0)) = V at hvals
    have hneV : V ≠ [] := by
      have hne := kept_ne_nil (src.map G) z0 d.zb d.zt H'.csrc H'.ssrc hb.1 hw.1 hhi (H'.nosl d hd)
      intro he; rw [he] at hV
      exact hne (List.map_eq_nil_iff.mp hV)
    have hub := (le_foldl_rmax V 0)
    constructor
    · intro s hs hp
      exact hub.2 s.v ((hvals s.v).mpr ⟨s, hs, hp, rfl⟩)
    · rcases foldl_rmax_mem V 0 with h0 | hm
      · -- the maximum is 0: every overlapped value is 0 (they are ≥ 0), and there is at least one
        cases V with
        | nil => exact absurd rfl hneV
        | cons v t =>
          obtain ⟨s, hs, hp, hv⟩ := (hvals v).mp List.mem_cons_self
          refine ⟨s, hs, hp, ?_⟩
          have h1 : v ≤ List.foldl rmax 0 (v :: t) := hub.2 v List.mem_cons_self
          rw [h0] at h1 ⊢
          have := hpos s hs
          rw [hv] at this ⊢; linarith
      · obtain ⟨s, hs, hp, hv⟩ := (hvals _).mp hm
        exact ⟨s, hs, hp, hv⟩

/-- the excluded point of `peak_is_max` (known finding F8): all-negative peaks −5, −6 map to 0.0 -/
example : remapParam .peak (present [⟨0, 25, 25, -5⟩, ⟨25, 50, 25, -6⟩]) [⟨0, 50, 50, ()⟩] = some [DestVal.set 0] := by
  decide +kernel

/-! ### mesh generation: `_filterMesh` -/

private theorem mem_insertU (x y : Rat) : ∀ l : List Rat, y ∈ insertU x l ↔ y = x ∨ y ∈ l
  | [] => by simp [insertU]
  | a :: t => by
    unfold insertU
    split_ifs with h1 h2
    · simp
    · subst h2; simp
    · simp only [List.mem_cons, mem_insertU x y t]; tauto

private theorem insertU_sorted (x : Rat) : ∀ l : List Rat, l.Pairwise (· < ·) → (insertU x l).Pairwise (· < ·)
  | [], _ => by simp [insertU]
  | a :: t, h => by
    obtain ⟨ha, ht⟩ := List.pairwise_cons.mp h
    unfold insertU
    split_ifs with h1 h2
    · exact List.pairwise_cons.mpr ⟨fun y hy => by
        rcases List.mem_cons.mp hy with rfl | hy
        · exact h1
        · exact lt_trans h1 (ha y hy), h⟩
    · exact h
    · refine List.pairwise_cons.mpr ⟨fun y hy => ?_, insertU_sorted x t ht⟩
      rcases (mem_insertU x y t).mp hy with rfl | hy
      · exact lt_of_le_of_ne (not_lt.mp h1) (Ne.symm h2)
      · exact ha y hy

private theorem sortU_spec (l : List Rat) : (sortU l).Pairwise (· < ·) ∧ ∀ y, y ∈ sortU l ↔ y ∈ l := by
  induction l with
  | nil => simp [sortU]
  | cons a t ih =>
    have e : sortU (a :: t) = insertU a (sortU t) := rfl
    rw [e]
    refine ⟨insertU_sorted a _ ih.1, fun y => ?_⟩
    rw [mem_insertU, ih.2 y, List.mem_cons]

/-- no two consecutive points closer than `m` -/
def GapsOK (m : Rat) : List Rat → Prop
  | a :: b :: t => m ≤ rabs (b - a) ∧ GapsOK m (b :: t)
  | _ => True

private theorem step_spec (m : Rat) (anch : List Rat) : ∀ l : List Rat, l.Pairwise (· ≠ ·) →
    (filterStep m anch l = .clean → GapsOK m l) ∧
    (∀ l', filterStep m anch l = .removed l' → l'.length + 1 = l.length ∧ l'.Sublist l ∧ ∀ x ∈ l, x ∈ anch → x ∈ l') ∧
    (filterStep m anch l = .anchors → ∃ a b, a ∈ l ∧ b ∈ l ∧ a ∈ anch ∧ b ∈ anch ∧ a ≠ b ∧ rabs (b - a) < m)
  | [], _ => by simp [filterStep, GapsOK]
  | [_], _ => by simp [filterStep, GapsOK]
  | a :: b :: t, hp => by
    obtain ⟨hab, hp'⟩ := List.pairwise_cons.mp hp
    obtain ⟨ih1, ih2, ih3⟩ := step_spec m anch (b :: t) hp'
    unfold filterStep
    split_ifs with hg hboth hb
    · refine ⟨by simp, by simp, fun _ => ⟨a, b, by simp, by simp, hboth.1, hboth.2, hab b (by simp), hg⟩⟩
    · refine ⟨by simp, ?_, by simp⟩
      intro l' hl'
      have : l' = b :: t := by simpa using hl'.symm
      subst this
      refine ⟨by simp, List.sublist_cons_self _ _, ?_⟩
      intro x hx hxa
      rcases List.mem_cons.mp hx with rfl | hx
      · exact absurd ⟨hxa, hb⟩ hboth
      · exact hx
    · refine ⟨by simp, ?_, by simp⟩
      intro l' hl'
      have : l' = a :: t := by simpa using hl'.symm
      subst this
      refine ⟨by simp, (List.sublist_cons_self b t).cons₂ a, ?_⟩
      intro x hx hxa
      rcases List.mem_cons.mp hx with rfl | hx
      · exact List.mem_cons_self
      · rcases List.mem_cons.mp hx with rfl | hx
        · exact absurd hxa hb
        · exact List.mem_cons_of_mem _ hx
    · cases hs : filterStep m anch (b :: t) with
      | clean =>
        refine ⟨fun _ => ⟨not_lt.mp hg, ih1 hs⟩, by simp, by simp⟩
      | removed l'' =>
        obtain ⟨k1, k2, k3⟩ := ih2 l'' hs
        refine ⟨by simp, ?_, by simp⟩
        intro l' hl'
        have : l' = a :: l'' := by simpa using hl'.symm
        subst this
        refine ⟨by simp [k1], k2.cons₂ a, ?_⟩
        intro x hx hxa
        rcases List.mem_cons.mp hx with rfl | hx
        · exact List.mem_cons_self
        · exact List.mem_cons_of_mem _ (k3 x hx hxa)
      | anchors =>
        obtain ⟨x, y, hx, hy, h3, h4, h5, h6⟩ := ih3 hs
        exact ⟨by simp, by simp, fun _ => ⟨x, y, List.mem_cons_of_mem _ hx, List.mem_cons_of_mem _ hy, h3, h4, h5, h6⟩⟩

private theorem loop_spec (m : Rat) (anch : List Rat) : ∀ (n : Nat) (l : List Rat), l.length < n → l.Pairwise (· ≠ ·) →
    filterLoop m anch n l ≠ .fuel ∧
    (∀ r, filterLoop m anch n l = .ok r → r.Sublist l ∧ GapsOK m r ∧ ∀ x ∈ l, x ∈ anch → x ∈ r) ∧
    (filterLoop m anch n l = .anchors → ∃ a b, a ∈ l ∧ b ∈ l ∧ a ∈ anch ∧ b ∈ anch ∧ a ≠ b ∧ rabs (b - a) < m)
  | 0, _, h, _ => absurd h (Nat.not_lt_zero _)
  | n + 1, l, h, hp => by
    obtain ⟨s1, s2, s3⟩ := step_spec m anch l hp
    unfold filterLoop
    cases hs : filterStep m anch l with
    | clean =>
      refine ⟨by simp, ?_, by simp⟩
      intro r hr
      have : r = l := by simpa using hr.symm
      subst this
      exact ⟨List.Sublist.refl _, s1 hs, fun x hx _ => hx⟩
    | removed l' =>
      obtain ⟨k1, k2, k3⟩ := s2 l' hs
      obtain ⟨i1, i2, i3⟩ := loop_spec m anch n l' (by omega) (hp.sublist k2)
      refine ⟨i1, ?_, ?_⟩
      · intro r hr
        obtain ⟨j1, j2, j3⟩ := i2 r hr
        exact ⟨j1.trans k2, j2, fun x hx hxa => j3 x (k3 x hx hxa) hxa⟩
      · intro ha
        obtain ⟨a, b, h1, h2, h3⟩ := i3 ha
        exact ⟨a, b, k2.subset h1, k2.subset h2, h3⟩
    | anchors =>
      exact ⟨by simp, by simp, fun _ => s3 hs⟩

/-- **`_filterMesh` specification.** The loop always terminates (never runs out of passes). On success the
result is strictly increasing, uses only candidate points, keeps every anchor that is a candidate, and no two
consecutive points are closer than the minimum (for preference "top" the consecutive pairs are listed in the
descending order in which the code walks them). It refuses only when two distinct anchors among the
candidates are closer than the minimum. -/
theorem filterMesh_spec (pts : List Rat) (m : Rat) (anch : List Rat) (top : Bool) :
    filterMesh pts m anch top ≠ .fuel ∧
    (∀ out, filterMesh pts m anch top = .ok out →
      out.Pairwise (· < ·) ∧ (∀ x ∈ out, x ∈ pts) ∧ (∀ a ∈ anch, a ∈ pts → a ∈ out) ∧
      GapsOK m (if top then out.reverse else out)) ∧
    (filterMesh pts m anch top = .anchors →
      ∃ a b, a ∈ pts ∧ b ∈ pts ∧ a ∈ anch ∧ b ∈ anch ∧ a ≠ b ∧ rabs (b - a) < m) := by
  obtain ⟨hs, hm⟩ := sortU_spec pts
  have hne : (sortU pts).Pairwise (· ≠ ·) := hs.imp (fun h => ne_of_lt h)
  unfold filterMesh
  cases top with
  | false =>
    simp only [Bool.false_eq_true, if_false]
    obtain ⟨l1, l2, l3⟩ := loop_spec m anch ((sortU pts).length + 1) (sortU pts) (by omega) hne
    cases hl : filterLoop m anch ((sortU pts).length + 1) (sortU pts) with
    | ok r =>
      obtain ⟨j1, j2, j3⟩ := l2 r hl
      refine ⟨by simp, ?_, by simp⟩
      intro out ho
      have : out = r := by simpa using ho.symm
      subst this
      exact ⟨hs.sublist j1, fun x hx => (hm x).mp (j1.subset hx), fun a ha hp => j3 a ((hm a).mpr hp) ha, j2⟩
    | anchors =>
      obtain ⟨a, b, h1, h2, h3⟩ := l3 hl
      exact ⟨by simp, by simp, fun _ => ⟨a, b, (hm a).mp h1, (hm b).mp h2, h3⟩⟩
    | fuel => exact absurd hl l1
  | true =>
    simp only [if_true]
    have hne' : (sortU pts).reverse.Pairwise (· ≠ ·) := List.pairwise_reverse.mpr (hne.imp (fun h => Ne.symm h))
    obtain ⟨l1, l2, l3⟩ := loop_spec m anch ((sortU pts).reverse.length + 1) (sortU pts).reverse (by omega) hne'
    cases hl : filterLoop m anch ((sortU pts).reverse.length + 1) (sortU pts).reverse with
    | ok r =>
      obtain ⟨j1, j2, j3⟩ := l2 r hl
      refine ⟨by simp, ?_, by simp⟩
      intro out ho
      have : out = r.reverse := by simpa using ho.symm
      subst this
      have hsub : r.reverse.Sublist (sortU pts) := by
        have := j1.reverse; rwa [List.reverse_reverse] at this
      refine ⟨hs.sublist hsub, fun x hx => (hm x).mp (hsub.subset hx), ?_, by rw [List.reverse_reverse]; exact j2⟩
      intro a ha hp
      exact List.mem_reverse.mpr (j3 a (List.mem_reverse.mpr ((hm a).mpr hp)) ha)
    | anchors =>
      obtain ⟨a, b, h1, h2, h3⟩ := l3 hl
      exact ⟨by simp, by simp, fun _ => ⟨a, b, (hm a).mp (List.mem_reverse.mp h1), (hm b).mp (List.mem_reverse.mp h2), h3⟩⟩
    | fuel => exact absurd hl l1

private theorem gaps_sorted_pair (m : Rat) : ∀ l : List Rat, l.Pairwise (· < ·) → GapsOK m l →
    ∀ a ∈ l, ∀ b ∈ l, a < b → m ≤ b - a
  | [], _, _ => by intro a ha; cases ha
  | [x], _, _ => by
    intro a ha b hb hab
    rw [List.mem_singleton.mp ha, List.mem_singleton.mp hb] at hab
    exact absurd hab (lt_irrefl _)
  | x :: y :: t, hs, hg => by
    obtain ⟨hx, hs'⟩ := List.pairwise_cons.mp hs
    have ih := gaps_sorted_pair m (y :: t) hs' hg.2
    have hxy : x < y := hx y List.mem_cons_self
    have hgap : m ≤ y - x := by
      have := hg.1; unfold rabs at this; split_ifs at this <;> linarith
    intro a ha b hb hab
    rcases List.mem_cons.mp ha with rfl | ha'
    · rcases List.mem_cons.mp hb with rfl | hb'
      · exact absurd hab (lt_irrefl _)
      · rcases List.mem_cons.mp hb' with rfl | hb''
        · exact hgap
        · have := (List.pairwise_cons.mp hs').1 b hb''
          linarith
    · rcases List.mem_cons.mp hb with rfl | hb'
      · exact absurd (lt_trans (hx a ha') hab) (lt_irrefl _)
      · exact ih a ha' b hb' hab

/-- **it fails loudly when two anchors are closer than the minimum** — `_partial`: the converse of the last
clause of `filterMesh_spec`, proved for preference "bottom" (for "top" it is covered by the correspondence and
the oracle only). -/
theorem filterMesh_refuses_close_anchors_partial (pts : List Rat) (m : Rat) (anch : List Rat) (a b : Rat)
    (ha : a ∈ pts) (hb : b ∈ pts) (haa : a ∈ anch) (hba : b ∈ anch) (hab : a < b) (hclose : b - a < m) :
    filterMesh pts m anch false = .anchors := by
  obtain ⟨h1, h2, _⟩ := filterMesh_spec pts m anch false
  cases hr : filterMesh pts m anch false with
  | ok out =>
    obtain ⟨s1, _, s3, s4⟩ := h2 out hr
    simp only [Bool.false_eq_true, if_false] at s4
    have := gaps_sorted_pair m out s1 s4 a (s3 a haa ha) b (s3 b hba hb) hab
    linarith
  | anchors => rfl
  | fuel => exact absurd hr h1

/-- non-vacuity: an anchor with removable candidates on both sides, and a refusal -/
example : filterMesh [25, 97/2, 50, 52, 75, 100] 3 [50] false = .ok [25, 50, 75, 100] := by decide +kernel
example : filterMesh [0, 1, 3/2, 2] 1 [3/2, 2] true = .anchors := by decide +kernel

/-! ### step-function resampling (`resampleStepwise`) -/

private theorem dig2 (p q x : Rat) (hpq : p < q) :
    digitize [p, q] x = if x < p then 0 else if x < q then 1 else 2 := by
  unfold digitize
  by_cases h1 : x < p
  · have : ¬ p ≤ x := not_le.mpr h1
    have : ¬ q ≤ x := not_le.mpr (lt_trans h1 hpq)
    simp [List.filter, *]
  · by_cases h2 : x < q
    · have : ¬ q ≤ x := not_le.mpr h2
      simp [List.filter, not_lt.mp h1, *]
    · have : p ≤ x := not_lt.mp h1
      simp [List.filter, not_lt.mp h2, *]

/-- the excluded point of `resample_sum_conserved_partial`, for EVERY output cell strictly inside one input
cell (known finding F25): both trim fractions are multiplied onto the same value, and the total is not
conserved whenever the value is non-zero. -/
theorem resample_interior_cell (p q a b y : Rat) (h1 : p < a) (h2 : a < b) (h3 : b < q) :
    resample [p, q] [y] [p, a, b, q] false
      = some [y * ((a - p) / (q - p)), y * ((b - p) / (q - p)) * ((q - a) / (q - p)), y * ((q - b) / (q - p))] := by
  have hpq : p < q := by linarith
  have hab : a < q := lt_trans h2 h3
  have hpb : p < b := lt_trans h1 h2
  have e1 : digitize [p, q] p = 1 := by rw [dig2 p q p hpq]; simp [hpq]
  have e2 : digitize [p, q] a = 1 := by rw [dig2 p q a hpq]; simp [not_lt.mpr (le_of_lt h1), hab]
  have e3 : digitize [p, q] b = 1 := by rw [dig2 p q b hpq]; simp [not_lt.mpr (le_of_lt hpb), h3]
  have e4 : digitize [p, q] q = 2 := by rw [dig2 p q q hpq]; simp [not_lt.mpr (le_of_lt hpq)]
  have n1 : q - p ≠ 0 := sub_ne_zero.mpr (ne_of_gt hpq)
  have n2 : a - p ≠ 0 := sub_ne_zero.mpr (ne_of_gt h1)
  have n3 : b - p ≠ 0 := sub_ne_zero.mpr (ne_of_gt hpb)
  have n4 : q - a ≠ 0 := sub_ne_zero.mpr (ne_of_gt hab)
  have n5 : q - b ≠ 0 := sub_ne_zero.mpr (ne_of_gt h3)
  simp [resample, cellsOf, resampleCell, e1, e2, e3, e4, pySlice, pyIndex, scaleLast, scaleFirst]
  simp [hab, h3, h1, hpb, n1, n2, n3, n4, n5]

theorem resample_interior_cell_not_conserved (p q a b y : Rat) (h1 : p < a) (h2 : a < b) (h3 : b < q) (hy : y ≠ 0) :
    (resample [p, q] [y] [p, a, b, q] false).map List.sum ≠ some ([y].sum) := by
  rw [resample_interior_cell p q a b y h1 h2 h3]
  simp only [Option.map_some, List.sum_cons, List.sum_nil, ne_eq, Option.some.injEq]
  have hpq : 0 < q - p := by linarith
  intro h
  have : y * ((a - p) * (q - p) + (b - p) * (q - a) + (q - b) * (q - p)) = y * (q - p) ^ 2 := by
    have h' := h
    field_simp at h'
    linarith
  have h2' : (a - p) * (q - p) + (b - p) * (q - a) + (q - b) * (q - p) = (q - p) ^ 2 := mul_left_cancel₀ hy this
  nlinarith [mul_pos (sub_pos.mpr h1) (sub_pos.mpr h3)]

/-- the recorded witness of F25: total 5075/289 ≈ 17.56 instead of 17 -/
example : (resample [0, 7/2, 9, 35/2, 37/2] [6, 11/2, 6, -1/2] [0, 3, 11/2, 21/2, 13, 37/2] false).map List.sum
    = some (5075/289) := by decide +kernel

/-- **resampling conserves the total (avg = false) and gives the length-weighted mean (avg = true)** —
`_partial`: proved for the two-input-cell family (an output boundary anywhere inside the first cell, and the
coarsening onto one cell), not for arbitrary meshes; every other input is covered by the correspondence
and the implementation-side oracle only. No output cell lies strictly inside an input cell here. -/
theorem resample_sum_conserved_partial (p q r a y1 y2 : Rat) (h1 : p < a) (h2 : a < q) (h3 : q < r) :
    resample [p, q, r] [y1, y2] [p, a, r] false
        = some [y1 * ((a - p) / (q - p)), y1 * ((q - a) / (q - p)) + y2] ∧
    y1 * ((a - p) / (q - p)) + (y1 * ((q - a) / (q - p)) + y2) = y1 + y2 ∧
    resample [p, q, r] [y1, y2] [p, r] false = some [y1 + y2] := by
  have hpq : p < q := lt_trans h1 h2
  have hpr : p < r := lt_trans hpq h3
  have har : a < r := lt_trans h2 h3
  have n1 : q - p ≠ 0 := sub_ne_zero.mpr (ne_of_gt hpq)
  have n2 : a - p ≠ 0 := sub_ne_zero.mpr (ne_of_gt h1)
  have n3 : q - a ≠ 0 := sub_ne_zero.mpr (ne_of_gt h2)
  have d : ∀ x, digitize [p, q, r] x = (if p ≤ x then 1 else 0) + (if q ≤ x then 1 else 0) + (if r ≤ x then 1 else 0) := by
    intro x; unfold digitize
    by_cases c1 : p ≤ x <;> by_cases c2 : q ≤ x <;> by_cases c3 : r ≤ x <;> simp [List.filter, c1, c2, c3]
  have e1 : digitize [p, q, r] p = 1 := by rw [d]; simp [not_le.mpr hpq, not_le.mpr hpr]
  have e2 : digitize [p, q, r] a = 1 := by rw [d]; simp [le_of_lt h1, not_le.mpr h2, not_le.mpr har]
  have e3 : digitize [p, q, r] r = 3 := by rw [d]; simp [le_of_lt hpr, le_of_lt h3]
  refine ⟨?_, ?_, ?_⟩
  · simp [resample, cellsOf, resampleCell, e1, e2, e3, pySlice, pyIndex, scaleLast, scaleFirst]
    simp [h1, h2, n1, n2, n3]
  · field_simp; ring
  · simp [resample, cellsOf, resampleCell, e1, e3, pySlice, pyIndex, scaleLast, scaleFirst]

theorem resample_avg_is_mean_partial (p q r y1 y2 : Rat) (h1 : p < q) (h2 : q < r) :
    resample [p, q, r] [y1, y2] [p, r] true = some [(y1 * (q - p) + y2 * (r - q)) / (r - p)] := by
  have hpr : p < r := lt_trans h1 h2
  have d : ∀ x, digitize [p, q, r] x = (if p ≤ x then 1 else 0) + (if q ≤ x then 1 else 0) + (if r ≤ x then 1 else 0) := by
    intro x; unfold digitize
    by_cases c1 : p ≤ x <;> by_cases c2 : q ≤ x <;> by_cases c3 : r ≤ x <;> simp [List.filter, c1, c2, c3]
  have e1 : digitize [p, q, r] p = 1 := by rw [d]; simp [not_le.mpr h1, not_le.mpr hpr]
  have e3 : digitize [p, q, r] r = 3 := by rw [d]; simp [le_of_lt hpr, le_of_lt h2]
  have n' : r - p ≠ 0 := sub_ne_zero.mpr (ne_of_gt hpr)
  simp [resample, cellsOf, resampleCell, e1, e3, pySlice, pyIndex, diffs, n']

/-- non-vacuity of `Remeshable` (hypothesis of atoms_conserved, integrated_total_conserved, constant_stays_constant,
peak_is_max, roundtrip_totals): source 0–25–50, destination 0–30–50 -/
example : Remeshable [(⟨0, 25, 25, (3 : Rat)⟩ : Blk Rat), ⟨25, 50, 25, 4⟩]
    [(⟨0, 30, 30, ()⟩ : Blk Unit), ⟨30, 50, 20, ()⟩] 0 where
  csrc := by simp [Contig]; norm_num
  cdst := by simp [Contig]; norm_num
  ssrc := by intro b hb; simp at hb; subst hb; rfl
  sdst := by intro b hb; simp at hb; subst hb; rfl
  top := by simp [topOf]
  nosl := by
    intro d hd s hs
    simp at hd hs
    rcases hd with rfl | rfl <;> rcases hs with rfl | rfl <;>
      (unfold NoSliver ovl rmax rmin EPS; intro h; first | (norm_num at h; done) | norm_num)

/-- a concrete `Remeshable` pair (non-vacuity of the re-meshing theorems) and what the model computes on it -/
example : remapND [⟨0, 25, 25, 3⟩, ⟨25, 50, 25, 4⟩] [⟨0, 30, 30, ()⟩, ⟨30, 50, 20, ()⟩]
    = some [DestVal.set (19/6), DestVal.set 4] := by decide +kernel

/-! ### `getBlockAtElevation` -/

/-- cumulative (bottom, top, payload) of the blocks, as `getBlockAtElevation` accumulates them from `z` -/
def cumCells : Rat → List (Blk α) → List (Rat × Rat × α)
  | _, [] => []
  | z, b :: t => (z, z + b.h, b.v) :: cumCells (z + b.h) t

/-- **the block found at an elevation contains it**: bottom exclusive, top inclusive (up to the code's
relative 1e-10 at the top). -/
theorem blockAtElevation_sound (e : Rat) : ∀ (bs : List (Blk α)) (z : Rat) (v : α),
    blockAtElevationFrom e z bs = .found v →
      ∃ c ∈ cumCells z bs, c.2.2 = v ∧ c.1 < e ∧ (e < c.2.1 ∨ rabs (c.2.1 - e) / e < EPS)
  | [], _, _, h => by simp [blockAtElevationFrom] at h
  | b :: t, z, v, h => by
    unfold blockAtElevationFrom at h
    simp only [] at h
    have tail : blockAtElevationFrom e (z + b.h) t = .found v →
        ∃ c ∈ cumCells z (b :: t), c.2.2 = v ∧ c.1 < e ∧ (e < c.2.1 ∨ rabs (c.2.1 - e) / e < EPS) := by
      intro h'
      obtain ⟨c, hc, h1⟩ := blockAtElevation_sound e t (z + b.h) v h'
      exact ⟨c, List.mem_cons_of_mem _ hc, h1⟩
    by_cases c1 : e < z + b.h
    · rw [if_pos c1] at h
      by_cases c2 : z < e
      · rw [if_pos c2] at h
        exact ⟨(z, z + b.h, b.v), List.mem_cons_self, AtElev.found.inj h, c2, Or.inl c1⟩
      · rw [if_neg c2] at h; exact tail h
    · rw [if_neg c1] at h
      by_cases c3 : e = 0
      · rw [if_pos c3] at h; cases h
      · rw [if_neg c3] at h
        by_cases c4 : rabs (z + b.h - e) / e < EPS
        · rw [if_pos c4] at h
          by_cases c2 : z < e
          · rw [if_pos c2] at h
            exact ⟨(z, z + b.h, b.v), List.mem_cons_self, AtElev.found.inj h, c2, Or.inr c4⟩
          · rw [if_neg c2] at h; exact tail h
        · rw [if_neg c4] at h; exact tail h

/-- **every elevation inside the assembly is found**: positive heights, `z < e ≤ z + Σ h`. -/
theorem blockAtElevation_complete (e : Rat) : ∀ (bs : List (Blk α)) (z : Rat), (∀ b ∈ bs, 0 < b.h) →
    z < e → e ≤ z + (bs.map (·.h)).sum → 0 < e → ∃ v, blockAtElevationFrom e z bs = .found v
  | [], z, _, h1, h2, _ => by simp at h2; linarith
  | b :: t, z, hp, h1, h2, he => by
    unfold blockAtElevationFrom
    simp only []
    have hb := hp b List.mem_cons_self
    by_cases c1 : e < z + b.h
    · rw [if_pos c1, if_pos h1]; exact ⟨b.v, rfl⟩
    · rw [if_neg c1, if_neg (ne_of_gt he)]
      by_cases c2 : rabs (z + b.h - e) / e < EPS
      · rw [if_pos c2, if_pos h1]; exact ⟨b.v, rfl⟩
      · rw [if_neg c2]
        have hne : e ≠ z + b.h := by
          intro heq; apply c2; rw [heq]; unfold rabs EPS; simp
        have hlt : z + b.h < e := lt_of_le_of_ne (not_lt.mp c1) (Ne.symm hne)
        refine blockAtElevation_complete e t (z + b.h) (fun x hx => hp x (List.mem_cons_of_mem _ hx)) hlt ?_ he
        simp only [List.map_cons, List.sum_cons] at h2; linarith

/-! ### `average1DWithinTolerance` -/

private theorem avgLoop_spec (tol : Rat) : ∀ (n : Nat) (rows : List (List Rat)) (avg : List Rat),
    avgLoop tol n rows = some avg →
      ∃ kept, kept.Sublist rows ∧ kept ≠ [] ∧ avg = colMeans kept ∧ (∀ r ∈ kept, rowOK tol avg r = true) ∧
        ∀ a ∈ avg, 0 < a
  | 0, _, _, h => by simp [avgLoop] at h
  | n + 1, rows, avg, h => by
    unfold avgLoop at h
    simp only [] at h
    by_cases hl : (rows.filter (rowOK tol (colMeans rows))).length = rows.length
    · rw [if_pos hl] at h
      by_cases he : rows.isEmpty = true
      · rw [if_pos he] at h; cases h
      · rw [if_neg he] at h
        by_cases hz : (colMeans rows).any (fun a => decide (a ≤ 0)) = true
        · rw [if_pos hz] at h; cases h
        · rw [if_neg hz] at h
          have : avg = colMeans rows := (Option.some.inj h).symm
          subst this
          have hall : rows.filter (rowOK tol (colMeans rows)) = rows :=
            (List.filter_sublist (l := rows)).eq_of_length hl
          refine ⟨rows, List.Sublist.refl _, ?_, rfl, ?_, ?_⟩
          · intro hr; rw [hr] at he; simp at he
          · exact List.filter_eq_self.mp hall
          · intro a ha
            by_contra hneg
            apply hz
            rw [List.any_eq_true]
            exact ⟨a, ha, by simpa using not_lt.mp hneg⟩
    · rw [if_neg hl] at h
      obtain ⟨kept, k1, k2⟩ := avgLoop_spec tol n _ avg h
      exact ⟨kept, k1.trans List.filter_sublist, k2⟩

/-- **the averaged mesh is the column mean of a non-empty sub-family of the rows, every one of which lies
within the tolerance of it, and it is positive** (otherwise `average1DWithinTolerance` raises). -/
theorem average1D_spec (rows : List (List Rat)) (tol : Rat) (avg : List Rat) (h : average1D rows tol = some avg) :
    ∃ kept, kept.Sublist rows ∧ kept ≠ [] ∧ avg = colMeans kept ∧ (∀ r ∈ kept, rowOK tol avg r = true) ∧
      ∀ a ∈ avg, 0 < a :=
  avgLoop_spec tol _ rows avg h

example : average1D [[1, 2, 3], [1, 2, 3], [11/10, 2, 3]] (1/5) = some [31/30, 2, 3] := by decide +kernel

/-- non-vacuity: the docstring example of `getBlocksBetweenElevations` (blocks 0–25–50–100, window 0–30) -/
example : blocksBetween [⟨0, 25, 25, (1 : Nat)⟩, ⟨25, 50, 25, 2⟩, ⟨50, 100, 50, 3⟩] 0 30 = some [(1, 25), (2, 5)] := by
  decide +kernel

end ArmiVerif.Mesh
