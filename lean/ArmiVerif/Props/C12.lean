/-
C12 — axial expansion preserves assembly height, mesh contiguity and component mass.
Property theorems about the model `ArmiVerif/Model/AxialExp.lean`.
-/
import ArmiVerif.Model.AxialExp
import Mathlib.Tactic.Linarith
import Mathlib.Tactic.Ring
import Mathlib.Tactic.FieldSimp
import Mathlib.Data.Rat.Defs
import Mathlib.Algebra.Order.Field.Rat

namespace ArmiVerif.AxialExp

/-- elevation of the top of the assembly -/
def topZ : List Block → Option Rat
  | [] => none
  | [b] => some b.zt
  | _ :: b2 :: rest => topZ (b2 :: rest)

private theorem expandFrom_cons (inp : Inp) (below : Option Block) (ib : Nat) (b : Block) (t : List Block) :
    ∃ x xs, expandFrom inp below ib (b :: t) = x :: xs := by
  cases t with
  | nil => exact ⟨_, _, rfl⟩
  | cons b2 rest => exact ⟨_, _, rfl⟩

private theorem expandFrom_length (inp : Inp) : ∀ (a : List Block) (below : Option Block) (ib : Nat),
    (expandFrom inp below ib a).length = a.length
  | [], _, _ => rfl
  | [_], _, _ => rfl
  | b :: b2 :: rest, below, ib => by
    simp only [expandFrom, List.length_cons, expandFrom_length inp (b2 :: rest)]

/-- **the top of the assembly does not move** (one expansion, any factors / linkage / targets) -/
theorem height_preserved_step (inp : Inp) : ∀ (a : List Block) (below : Option Block) (ib : Nat),
    topZ (expandFrom inp below ib a) = topZ a
  | [], _, _ => rfl
  | [_], _, _ => rfl
  | b :: b2 :: rest, below, ib => by
    have ih := height_preserved_step inp (b2 :: rest) (some (stepBlock inp below ib b)) (ib + 1)
    obtain ⟨x, xs, hx⟩ := expandFrom_cons inp (some (stepBlock inp below ib b)) (ib + 1) b2 rest
    simp only [expandFrom, hx, topZ] at ih ⊢
    exact ih

/-- **total height preserved over any sequence of expansions** -/
theorem height_preserved (inps : List Inp) (a : List Block) : topZ (expandSeq inps a) = topZ a := by
  induction inps generalizing a with
  | nil => rfl
  | cons i t ih =>
    simp only [expandSeq, List.foldl_cons] at ih ⊢
    rw [ih, height_preserved_step]


/-! ### structure of one expansion -/

/-- the bottom a block receives: top of the (updated) block below, or its own bottom for the first block -/
def blockBottom (below : Option Block) (b : Block) : Rat :=
  match below with
  | none => b.zb
  | some l => l.zt

private theorem expandComps_get (H : Rat) (below : Option Block) (g : Nat → Rat) (lower : Nat → Option Nat) :
    ∀ (cs : List Comp) (i k : Nat),
      (expandComps H below g lower i cs)[k]? = (cs[k]?).map (expandComp H below (g (i + k)) (lower (i + k)))
  | [], _, _ => by simp [expandComps]
  | c :: t, i, 0 => by simp [expandComps]
  | c :: t, i, k + 1 => by
    simp only [expandComps, List.getElem?_cons_succ]
    rw [expandComps_get H below g lower t (i + 1) k]
    have : i + 1 + k = i + (k + 1) := by omega
    rw [this]

private theorem stepBlock_zb (inp : Inp) (below : Option Block) (ib : Nat) (b : Block) :
    (stepBlock inp below ib b).zb = blockBottom below b := by
  unfold stepBlock blockBottom
  cases below <;> (cases ht : inp.target ib <;> simp only [] <;> (try split) <;> rfl)

private theorem stepBlock_comps (inp : Inp) (below : Option Block) (ib : Nat) (b : Block) :
    (stepBlock inp below ib b).comps = expandComps b.h below (inp.g ib) (inp.lower ib) 0 b.comps := by
  unfold stepBlock
  cases below <;> (cases ht : inp.target ib <;> simp only [] <;> (try split) <;> rfl)

private theorem stepBlock_comp_get (inp : Inp) (below : Option Block) (ib : Nat) (b : Block) (k : Nat) :
    (stepBlock inp below ib b).comps[k]? = (b.comps[k]?).map (expandComp b.h below (inp.g ib k) (inp.lower ib k)) := by
  rw [stepBlock_comps, expandComps_get, Nat.zero_add]

/-- with a valid target component the block boundary follows it -/
private theorem stepBlock_target (inp : Inp) (below : Option Block) (ib : Nat) (b : Block) (k : Nat) (c : Comp)
    (ht : inp.target ib = some k) (hc : b.comps[k]? = some c) :
    (stepBlock inp below ib b).zt = compBottom below (inp.lower ib k) + inp.g ib k * b.h ∧
    (stepBlock inp below ib b).h = (stepBlock inp below ib b).zt - (stepBlock inp below ib b).zb := by
  have hg := expandComps_get b.h below (inp.g ib) (inp.lower ib) b.comps 0 k
  rw [hc] at hg
  simp only [Option.map_some, Nat.zero_add] at hg
  unfold stepBlock
  simp only [ht, hg]
  constructor <;> first | rfl | trivial

private theorem topBlock_spec (below : Option Block) (b : Block) :
    (topBlock below b).zt = b.zt ∧ (topBlock below b).zb = blockBottom below b ∧
    (topBlock below b).h = (topBlock below b).zt - (topBlock below b).zb := by
  unfold topBlock blockBottom
  cases below <;> exact ⟨rfl, rfl, rfl⟩

/-- **indexed description of the bottom-up fold**: below the top block, output block `i` is `stepBlock`
applied to input block `i` with the already updated output block `i − 1` underneath. -/
private theorem expandFrom_get (inp : Inp) : ∀ (a : List Block) (below : Option Block) (ib i : Nat), i + 1 < a.length →
    (expandFrom inp below ib a)[i]? =
      (a[i]?).map (stepBlock inp (if i = 0 then below else (expandFrom inp below ib a)[i - 1]?) (ib + i))
  | [], _, _, _, h => by simp at h
  | [_], _, _, _, h => by simp at h
  | b :: b2 :: rest, below, ib, 0, _ => by simp [expandFrom]
  | b :: b2 :: rest, below, ib, i + 1, h => by
    have h' : i + 1 < (b2 :: rest).length := by simpa using h
    have ih := expandFrom_get inp (b2 :: rest) (some (stepBlock inp below ib b)) (ib + 1) i h'
    simp only [expandFrom, List.getElem?_cons_succ, Nat.add_sub_cancel]
    rw [ih]
    have e : ib + 1 + i = ib + (i + 1) := by omega
    rw [e]
    cases i with
    | zero => simp
    | succ j => simp

/-- the top block of the output -/
private theorem expandFrom_top (inp : Inp) : ∀ (a : List Block) (below : Option Block) (ib : Nat) (n : Nat), a.length = n + 1 →
    (expandFrom inp below ib a)[n]? =
      (a[n]?).map (topBlock (if n = 0 then below else (expandFrom inp below ib a)[n - 1]?))
  | [], _, _, _, h => by simp at h
  | [b], below, _, n, h => by
    have : n = 0 := by simpa using h.symm
    subst this; simp [expandFrom]
  | b :: b2 :: rest, below, ib, 0, h => by simp at h
  | b :: b2 :: rest, below, ib, n + 1, h => by
    have h' : (b2 :: rest).length = n + 1 := by simpa using h
    have ih := expandFrom_top inp (b2 :: rest) (some (stepBlock inp below ib b)) (ib + 1) n h'
    simp only [expandFrom, List.getElem?_cons_succ, Nat.add_sub_cancel]
    rw [ih]
    cases n with
    | zero => simp
    | succ j => simp


/-! ### hypotheses as explicit predicates -/

/-- number of solid components per block -/
def shape (a : List Block) : List Nat := a.map (fun b => b.comps.length)

/-- every block below the top one has a target component that is one of its solids
(`ExpansionData._setTargetComponents` guarantees this for the real assemblies) -/
def HasTargetsS (inp : Inp) : Nat → List Nat → Prop
  | _, [] => True
  | _, [_] => True
  | ib, n :: m :: rest => (∃ k, inp.target ib = some k ∧ k < n) ∧ HasTargetsS inp (ib + 1) (m :: rest)

def HasTargets (inp : Inp) (a : List Block) : Prop := HasTargetsS inp 0 (shape a)

/-- blocks are contiguous and `height = ztop − zbottom` -/
def Stacked : List Block → Prop
  | [] => True
  | [b] => b.h = b.zt - b.zb
  | b :: c :: t => b.h = b.zt - b.zb ∧ c.zb = b.zt ∧ Stacked (c :: t)

private theorem expandComps_length (H : Rat) (below : Option Block) (g : Nat → Rat) (lower : Nat → Option Nat) :
    ∀ (cs : List Comp) (i : Nat), (expandComps H below g lower i cs).length = cs.length
  | [], _ => rfl
  | c :: t, i => by simp [expandComps, expandComps_length H below g lower t (i + 1)]

private theorem shape_expandFrom (inp : Inp) : ∀ (a : List Block) (below : Option Block) (ib : Nat),
    shape (expandFrom inp below ib a) = shape a
  | [], _, _ => rfl
  | [b], below, _ => by simp [expandFrom, shape, topBlock]
  | b :: b2 :: rest, below, ib => by
    have ih := shape_expandFrom inp (b2 :: rest) (some (stepBlock inp below ib b)) (ib + 1)
    simp only [shape, expandFrom, List.map_cons] at ih ⊢
    rw [ih, stepBlock_comps, expandComps_length]

private theorem target_valid {inp : Inp} {ib n : Nat} {b : Block} (k : Nat) (hk : k < b.comps.length) :
    ∃ c, b.comps[k]? = some c := ⟨b.comps[k], by simp [hk]⟩

/-! ### contiguity -/

private theorem contiguous_aux (inp : Inp) : ∀ (a : List Block) (below : Option Block) (ib : Nat),
    HasTargetsS inp ib (shape a) →
    Stacked (expandFrom inp below ib a) ∧
      ∀ b x, a.head? = some b → (expandFrom inp below ib a).head? = some x → x.zb = blockBottom below b
  | [], _, _, _ => ⟨trivial, by simp⟩
  | [b], below, _, _ => by
    refine ⟨(topBlock_spec below b).2.2, ?_⟩
    intro b' x hb hx
    simp [expandFrom] at hb hx; subst hb; subst hx
    exact (topBlock_spec below _).2.1
  | b :: b2 :: rest, below, ib, hT => by
    obtain ⟨⟨k, hk, hkn⟩, hT'⟩ := hT
    obtain ⟨c, hc⟩ := target_valid (inp := inp) (ib := ib) (n := 0) (b := b) k hkn
    have ih := contiguous_aux inp (b2 :: rest) (some (stepBlock inp below ib b)) (ib + 1) hT'
    obtain ⟨x, xs, hx⟩ := expandFrom_cons inp (some (stepBlock inp below ib b)) (ib + 1) b2 rest
    have hz := ih.2 b2 x rfl (by rw [hx]; rfl)
    refine ⟨?_, ?_⟩
    · simp only [expandFrom, hx] at ih ⊢
      exact ⟨(stepBlock_target inp below ib b k c hk hc).2, hz, ih.1⟩
    · intro b' y hb hy
      simp [expandFrom] at hb hy; subst hb; subst hy
      exact stepBlock_zb inp below ib _

/-- **blocks stay contiguous**: after an expansion each block's bottom is the top of the one below,
every height is `ztop − zbottom`, and the first bottom is unchanged — hence the mesh written to the
grid, `0 :: ztops`, lists exactly the block elevations. -/
theorem contiguous (inp : Inp) (a : List Block) (hT : HasTargets inp a) :
    Stacked (expandFrom inp none 0 a) ∧
      (expandFrom inp none 0 a).head?.map (·.zb) = a.head?.map (·.zb) := by
  obtain ⟨h1, h2⟩ := contiguous_aux inp a none 0 hT
  refine ⟨h1, ?_⟩
  cases a with
  | nil => rfl
  | cons b t =>
    obtain ⟨x, xs, hx⟩ := expandFrom_cons inp none 0 b t
    have := h2 b x rfl (by rw [hx]; rfl)
    rw [hx]; simp [this, blockBottom]

/-- ... after any SEQUENCE of expansions (each with its own factors, linkage and targets) -/
theorem contiguous_seq (inps : List Inp) (a : List Block) (hT : ∀ i ∈ inps, HasTargetsS i 0 (shape a))
    (h0 : Stacked a) :
    Stacked (expandSeq inps a) ∧ (expandSeq inps a).head?.map (·.zb) = a.head?.map (·.zb) := by
  induction inps generalizing a with
  | nil => exact ⟨h0, rfl⟩
  | cons i t ih =>
    have hi : HasTargets i a := hT i List.mem_cons_self
    obtain ⟨c1, c2⟩ := contiguous i a hi
    have := ih (expandFrom i none 0 a) (fun j hj => by rw [shape_expandFrom]; exact hT j (List.mem_cons_of_mem _ hj)) c1
    simp only [expandSeq, List.foldl_cons] at this ⊢
    exact ⟨this.1, by rw [this.2, c2]⟩

/-- heights of a stacked assembly telescope: their sum is top − bottom -/
theorem total_height : ∀ (a : List Block) (b : Block), Stacked (b :: a) →
    ((b :: a).map (·.h)).sum = (topZ (b :: a)).getD 0 - b.zb
  | [], b, h => by simp [topZ, Stacked] at h ⊢; linarith
  | c :: t, b, h => by
    have ih := total_height t c h.2.2
    simp only [List.map_cons, List.sum_cons, topZ] at ih ⊢
    rw [ih, h.1, h.2.1]; ring

/-! ### boundaries follow the target; linked components stay stacked -/

/-- **each block boundary moves with its target component** (blocks below the top one) -/
theorem boundary_follows_target (inp : Inp) (a : List Block) (i k : Nat) (b : Block) (c : Comp)
    (hi : i + 1 < a.length) (hb : a[i]? = some b) (ht : inp.target i = some k) (hc : b.comps[k]? = some c) :
    ∃ b' c', (expandFrom inp none 0 a)[i]? = some b' ∧ b'.comps[k]? = some c' ∧ b'.zt = c'.zt ∧
      c'.zt = c'.zb + inp.g i k * b.h := by
  have hg := expandFrom_get inp a none 0 i hi
  rw [hb] at hg
  simp only [Option.map_some, Nat.zero_add] at hg
  generalize (if i = 0 then none else (expandFrom inp none 0 a)[i - 1]?) = bel at hg
  refine ⟨stepBlock inp bel i b, expandComp b.h bel (inp.g i k) (inp.lower i k) c, hg, ?_, ?_, ?_⟩
  · rw [stepBlock_comp_get, hc]; rfl
  · rw [(stepBlock_target inp _ i b k c ht hc).1]; rfl
  · rfl

/-- **components linked axially stay stacked bottom-on-top** -/
theorem linked_stay_stacked (inp : Inp) (a : List Block) (i k j : Nat) (b : Block) (c : Comp) (l : Block) (lc : Comp)
    (hi : i + 2 < a.length) (hb : a[i + 1]? = some b) (hc : b.comps[k]? = some c)
    (hl : inp.lower (i + 1) k = some j) (hbl : (expandFrom inp none 0 a)[i]? = some l) (hlc : l.comps[j]? = some lc) :
    ∃ b' c', (expandFrom inp none 0 a)[i + 1]? = some b' ∧ b'.comps[k]? = some c' ∧ c'.zb = lc.zt := by
  have hg := expandFrom_get inp a none 0 (i + 1) (by omega)
  rw [hb] at hg
  simp only [Option.map_some, Nat.zero_add, Nat.add_sub_cancel, Nat.succ_ne_zero, if_false, hbl] at hg
  refine ⟨stepBlock inp (some l) (i + 1) b, expandComp b.h (some l) (inp.g (i + 1) k) (inp.lower (i + 1) k) c, hg, ?_, ?_⟩
  · rw [stepBlock_comp_get, hc]; rfl
  · simp only [expandComp, compBottom, hl, hlc]


/-! ### target-component mass -/

/-- the explicit linkage hypothesis of `target_mass_conserved_partial`: component `k` of block `i` sits
on the block below — it is in the first block (which starts at 0), or has no lower link, or its lower
link is the lower block's target component. -/
def LowerIsLowerTarget (inp : Inp) (a : List Block) (i k : Nat) : Prop :=
  match i with
  | 0 => ∀ b, a[0]? = some b → b.zb = 0
  | i' + 1 => inp.lower (i' + 1) k = none ∨
      ∃ j b c, inp.lower (i' + 1) k = some j ∧ inp.target i' = some j ∧ a[i']? = some b ∧ b.comps[j]? = some c

private theorem aligned_bottom (inp : Inp) (a : List Block) (i k : Nat) (b : Block) (hi : i + 1 < a.length)
    (hb : a[i]? = some b) (hl : LowerIsLowerTarget inp a i k) :
    compBottom (if i = 0 then none else (expandFrom inp none 0 a)[i - 1]?) (inp.lower i k)
      = blockBottom (if i = 0 then none else (expandFrom inp none 0 a)[i - 1]?) b := by
  cases i with
  | zero =>
    simp only [if_true, compBottom, blockBottom]
    exact (hl b hb).symm
  | succ i' =>
    have hg := expandFrom_get inp a none 0 i' (by omega)
    simp only [Nat.succ_ne_zero, if_false, Nat.add_sub_cancel]
    have hlen : i' < a.length := by omega
    obtain ⟨bl, hbl⟩ : ∃ bl, a[i']? = some bl := ⟨a[i'], by simp [hlen]⟩
    rw [hbl] at hg
    simp only [Option.map_some, Nat.zero_add] at hg
    rw [hg]
    rcases hl with hn | ⟨j, b0, c0, hj, ht, hb0, hc0⟩
    · simp [compBottom, blockBottom, hn]
    · rw [hbl] at hb0
      have : b0 = bl := (Option.some.inj hb0).symm
      subst this
      simp only [compBottom, blockBottom, hj, stepBlock_comp_get, hc0, Option.map_some]
      rw [(stepBlock_target inp _ i' b0 j c0 ht hc0).1]
      rfl

/-- **below the top block the mass of a block's target component is conserved** and the block grows by
the target's factor — `_partial`: under the explicit linkage hypothesis `LowerIsLowerTarget` (missing:
the case where the target is stacked on a lower component that is not the lower block's target; there the
mass is NOT conserved, see the witness below — known finding F9). Any block count. -/
theorem target_mass_conserved_partial (inp : Inp) (a : List Block) (i k : Nat) (b : Block) (c : Comp)
    (hi : i + 1 < a.length) (hb : a[i]? = some b) (ht : inp.target i = some k) (hc : b.comps[k]? = some c)
    (hg0 : inp.g i k ≠ 0) (hl : LowerIsLowerTarget inp a i k) :
    ∃ b' c', (expandFrom inp none 0 a)[i]? = some b' ∧ b'.comps[k]? = some c' ∧
      b'.h = inp.g i k * b.h ∧ c'.nd = c.nd / inp.g i k ∧ mass b' c' = mass b c := by
  have hg := expandFrom_get inp a none 0 i hi
  have hal := aligned_bottom inp a i k b hi hb hl
  rw [hb] at hg
  simp only [Option.map_some, Nat.zero_add] at hg
  generalize (if i = 0 then none else (expandFrom inp none 0 a)[i - 1]?) = bel at hg hal
  have hst := stepBlock_target inp bel i b k c ht hc
  have hh : (stepBlock inp bel i b).h = inp.g i k * b.h := by
    rw [hst.2, hst.1, stepBlock_zb, hal]; ring
  refine ⟨stepBlock inp bel i b, expandComp b.h bel (inp.g i k) (inp.lower i k) c, hg, ?_, hh, ?_, ?_⟩
  · rw [stepBlock_comp_get, hc]; rfl
  · simp only [expandComp]; field_simp
  · simp only [mass, hh, expandComp]; field_simp

/-- heights stay positive under the same hypothesis: a non-top block with a positive height and a
positive target factor keeps a positive height; and the top block absorbs the rest (`total_height`). -/
theorem heights_positive_partial (inp : Inp) (a : List Block) (i k : Nat) (b : Block) (c : Comp)
    (hi : i + 1 < a.length) (hb : a[i]? = some b) (ht : inp.target i = some k) (hc : b.comps[k]? = some c)
    (hg0 : 0 < inp.g i k) (hh : 0 < b.h) (hl : LowerIsLowerTarget inp a i k) :
    ∃ b', (expandFrom inp none 0 a)[i]? = some b' ∧ 0 < b'.h := by
  obtain ⟨b', c', h1, _, h3, _⟩ := target_mass_conserved_partial inp a i k b c hi hb ht hc (ne_of_gt hg0) hl
  exact ⟨b', h1, by rw [h3]; exact mul_pos hg0 hh⟩

/-- the top block absorbs the change: its new height is the assembly height minus the new heights below -/
theorem top_absorbs (inp : Inp) (b : Block) (a : List Block) (hT : HasTargets inp (b :: a)) :
    ((expandFrom inp none 0 (b :: a)).map (·.h)).sum = (topZ (b :: a)).getD 0 - b.zb := by
  obtain ⟨h1, h2⟩ := contiguous inp (b :: a) hT
  obtain ⟨x, xs, hx⟩ := expandFrom_cons inp none 0 b a
  have ht := height_preserved_step inp (b :: a) none 0
  rw [hx] at h1 h2 ht ⊢
  rw [total_height xs x h1, ht]
  simp at h2; rw [h2]

/-- **the top (dummy) block keeps a positive height as long as the grown blocks below it do not fill the
assembly**: `Σ (new heights below the top) < assembly height` is the property's "Σ growth < dummy height". -/
theorem top_height_positive (inp : Inp) (b : Block) (a : List Block) (hT : HasTargets inp (b :: a))
    (hsum : (((expandFrom inp none 0 (b :: a)).dropLast).map (·.h)).sum < (topZ (b :: a)).getD 0 - b.zb) :
    ∀ t, (expandFrom inp none 0 (b :: a)).getLast? = some t → 0 < t.h := by
  intro t ht
  have habs := top_absorbs inp b a hT
  obtain ⟨x, xs, hx⟩ := expandFrom_cons inp none 0 b a
  rw [hx] at ht hsum habs
  have hne : (x :: xs) ≠ [] := by simp
  have hl : (x :: xs).getLast hne = t := by
    rw [List.getLast?_eq_some_getLast hne] at ht; exact Option.some.inj ht
  have hsplit := List.dropLast_append_getLast hne
  rw [hl] at hsplit
  rw [← hsplit, List.map_append, List.sum_append] at habs
  simp only [List.map_cons, List.map_nil, List.sum_cons, List.sum_nil, add_zero] at habs
  linarith

/-- witness for the excluded case (known finding F9): three blocks, the target of block 1 (component 1)
is stacked on component 1 of block 0 whose target is component 0 — its mass changes from 20 to 380/21. -/
def f9Inp : Inp where
  g := fun ib ic => if ib = 0 ∧ ic = 0 then 11/10 else if ib = 1 ∧ ic = 1 then 21/20 else 1
  lower := fun ib ic => if ib = 1 then some ic else none
  target := fun ib => if ib = 0 then some 0 else if ib = 1 then some 1 else none

def f9Assembly : List Block :=
  [⟨10, 0, 10, [⟨1, 1, 0, 0, 0⟩, ⟨2, 1, 0, 0, 0⟩]⟩, ⟨10, 10, 20, [⟨1, 1, 0, 0, 0⟩, ⟨2, 1, 0, 0, 0⟩]⟩,
   ⟨5, 20, 25, [⟨3, 1, 0, 0, 0⟩]⟩]

theorem target_mass_not_conserved_without_linkage_hypothesis :
    ¬ LowerIsLowerTarget f9Inp f9Assembly 1 1 ∧
    ((expandFrom f9Inp none 0 f9Assembly)[1]?.bind (fun b => (b.comps[1]?).map (mass b))) = some (380/21) ∧
    ((f9Assembly)[1]?.bind (fun b => (b.comps[1]?).map (mass b))) = some 20 := by
  refine ⟨?_, by decide +kernel, by decide +kernel⟩
  intro h
  rcases h with h | ⟨j, b, c, h1, h2, _, _⟩
  · simp [f9Inp] at h
  · simp [f9Inp] at h1 h2; omega

/-- non-vacuity of `target_mass_conserved_partial`: block 0 of the same assembly satisfies the hypothesis -/
example : LowerIsLowerTarget f9Inp f9Assembly 0 0 := by
  intro b hb; simp [f9Assembly] at hb; subst hb; rfl


/-! ### uniform growth: every solid component keeps its mass; the inverse change restores the state -/

/-- all components of the block end at the block's top -/
def Flat (b : Block) : Prop := ∀ (j : Nat) (c : Comp), b.comps[j]? = some c → c.zt = b.zt

private theorem hasTargets_get (inp : Inp) : ∀ (a : List Block) (ib i : Nat) (b : Block), HasTargetsS inp ib (shape a) →
    i + 1 < a.length → a[i]? = some b → ∃ k c, inp.target (ib + i) = some k ∧ b.comps[k]? = some c
  | [], _, _, _, _, h, _ => by simp at h
  | [_], _, _, _, _, h, _ => by simp at h
  | b0 :: b2 :: rest, ib, 0, b, hT, _, hb => by
    obtain ⟨⟨k, hk, hkn⟩, _⟩ := hT
    simp at hb; subst hb
    exact ⟨k, b0.comps[k], hk, by simp [hkn]⟩
  | b0 :: b2 :: rest, ib, i + 1, b, hT, hi, hb => by
    have := hasTargets_get inp (b2 :: rest) (ib + 1) i b hT.2 (by simpa using hi) (by simpa using hb)
    have e : ib + 1 + i = ib + (i + 1) := by omega
    rwa [e] at this

private theorem step_uniform (inp : Inp) (bel : Option Block) (i : Nat) (b : Block) (γ : Rat) (kt : Nat) (ct : Comp)
    (hbel : match bel with | none => b.zb = 0 | some l => Flat l)
    (hu : ∀ k, k < b.comps.length → inp.g i k = γ) (ht : inp.target i = some kt) (hkt : b.comps[kt]? = some ct) :
    Flat (stepBlock inp bel i b) ∧ (stepBlock inp bel i b).h = γ * b.h ∧
      ∀ (k : Nat) (c : Comp), b.comps[k]? = some c → ∃ c', (stepBlock inp bel i b).comps[k]? = some c' ∧
        c'.nd = c.nd * (1 / γ) ∧ c'.area = c.area := by
  have hcb : ∀ lower, compBottom bel lower = blockBottom bel b := by
    intro lower
    cases bel with
    | none => simp only [compBottom, blockBottom]; exact hbel.symm
    | some l =>
      cases lower with
      | none => rfl
      | some j =>
        simp only [compBottom, blockBottom]
        cases hj : l.comps[j]? with
        | none => rfl
        | some lc =>
          have hf : Flat l := hbel
          exact hf j lc hj
  have hlt : ∀ k c, b.comps[k]? = some c → k < b.comps.length := by
    intro k c hc
    by_contra hge
    rw [List.getElem?_eq_none (not_lt.mp hge)] at hc; cases hc
  have hst := stepBlock_target inp bel i b kt ct ht hkt
  have hzt : (stepBlock inp bel i b).zt = blockBottom bel b + γ * b.h := by
    rw [hst.1, hcb, hu kt (hlt kt ct hkt)]
  refine ⟨?_, ?_, ?_⟩
  · unfold Flat
    intro j c' hj
    rw [stepBlock_comp_get] at hj
    cases hc : b.comps[j]? with
    | none => rw [hc] at hj; cases hj
    | some c =>
      rw [hc] at hj
      have : c' = expandComp b.h bel (inp.g i j) (inp.lower i j) c := (Option.some.inj hj).symm
      rw [this, hzt]
      simp only [expandComp, hcb, hu j (hlt j c hc)]
  · rw [hst.2, hzt, stepBlock_zb]; ring
  · intro k c hc
    refine ⟨expandComp b.h bel (inp.g i k) (inp.lower i k) c, by rw [stepBlock_comp_get, hc]; rfl, ?_, rfl⟩
    simp only [expandComp, hu k (hlt k c hc)]

/-- **when all solid components of every block grow by the block's fraction `γ i`, the mass of every one
of them is conserved** (any linkage, any block count): block `i` grows to `γ i · h`, densities are divided
by `γ i`. -/
theorem uniform_growth_all_conserved (inp : Inp) (a : List Block) (γ : Nat → Rat) (hT : HasTargets inp a)
    (h0 : ∀ b, a[0]? = some b → b.zb = 0)
    (hu : ∀ i b, a[i]? = some b → ∀ k, k < b.comps.length → inp.g i k = γ i) (hγ : ∀ i, γ i ≠ 0) :
    ∀ i b, i + 1 < a.length → a[i]? = some b →
      ∃ b', (expandFrom inp none 0 a)[i]? = some b' ∧ Flat b' ∧ b'.h = γ i * b.h ∧
        ∀ (k : Nat) (c : Comp), b.comps[k]? = some c → ∃ c', b'.comps[k]? = some c' ∧ c'.nd = c.nd / γ i ∧
          c'.area = c.area ∧ mass b' c' = mass b c := by
  intro i
  induction i with
  | zero =>
    intro b hi hb
    obtain ⟨kt, ct, ht, hkt⟩ := hasTargets_get inp a 0 0 b hT hi hb
    have hg := expandFrom_get inp a none 0 0 hi
    rw [hb] at hg
    simp only [Option.map_some, if_true] at hg
    obtain ⟨s1, s2, s3⟩ := step_uniform inp none 0 b (γ 0) kt ct (h0 b hb) (hu 0 b hb) ht hkt
    refine ⟨_, hg, s1, s2, ?_⟩
    intro k c hc
    obtain ⟨c', e1, e2, e3⟩ := s3 k c hc
    refine ⟨c', e1, by rw [e2]; field_simp, e3, ?_⟩
    simp only [mass, s2, e2, e3]; have := hγ 0; field_simp
  | succ i ih =>
    intro b hi hb
    have hlen : i < a.length := by omega
    obtain ⟨bl, hbl⟩ : ∃ bl, a[i]? = some bl := ⟨a[i], by simp [hlen]⟩
    obtain ⟨l, hl, hflat, _, _⟩ := ih bl (by omega) hbl
    obtain ⟨kt, ct, ht, hkt⟩ := hasTargets_get inp a 0 (i + 1) b hT hi hb
    have hg := expandFrom_get inp a none 0 (i + 1) hi
    rw [hb] at hg
    simp only [Option.map_some, Nat.succ_ne_zero, if_false, Nat.add_sub_cancel, hl, Nat.zero_add] at hg ht
    obtain ⟨s1, s2, s3⟩ := step_uniform inp (some l) (i + 1) b (γ (i + 1)) kt ct hflat (hu (i + 1) b hb) ht hkt
    refine ⟨_, hg, s1, s2, ?_⟩
    intro k c hc
    obtain ⟨c', e1, e2, e3⟩ := s3 k c hc
    refine ⟨c', e1, by rw [e2]; field_simp, e3, ?_⟩
    simp only [mass, s2, e2, e3]; have := hγ (i + 1); field_simp

/-- **expanding and then applying the inverse change restores heights, densities and masses** of every
block below the top one (and, the total height being preserved, of the top block) — for growth that is
uniform within each block. -/
theorem expand_inverse_restores (inp inv : Inp) (a : List Block) (γ : Nat → Rat)
    (hT : HasTargets inp a) (hT' : HasTargets inv a) (h0 : ∀ b, a[0]? = some b → b.zb = 0)
    (hu : ∀ i k, inp.g i k = γ i) (hv : ∀ i k, inv.g i k = 1 / γ i) (hγ : ∀ i, γ i ≠ 0) :
    ∀ i b, i + 1 < a.length → a[i]? = some b →
      ∃ b'', (expandFrom inv none 0 (expandFrom inp none 0 a))[i]? = some b'' ∧ b''.h = b.h ∧
        ∀ (k : Nat) (c : Comp), b.comps[k]? = some c → ∃ c'', b''.comps[k]? = some c'' ∧ c''.nd = c.nd ∧
          c''.area = c.area ∧ mass b'' c'' = mass b c := by
  intro i b hi hb
  obtain ⟨b', g1, _, g3, g4⟩ := uniform_growth_all_conserved inp a γ hT h0 (fun i b _ k _ => hu i k) hγ i b hi hb
  have hT2 : HasTargets inv (expandFrom inp none 0 a) := by unfold HasTargets; rw [shape_expandFrom]; exact hT'
  have h02 : ∀ x, (expandFrom inp none 0 a)[0]? = some x → x.zb = 0 := by
    intro x hx
    have hc := (contiguous inp a hT).2
    cases a with
    | nil => simp [expandFrom] at hx
    | cons b0 t =>
      have hb0 := h0 b0 rfl
      rw [List.head?_eq_getElem?, hx] at hc
      simp at hc; rw [hc, hb0]
  have hγ' : ∀ i, (1 / γ i) ≠ 0 := fun i => one_div_ne_zero (hγ i)
  obtain ⟨b'', k1, _, k3, k4⟩ := uniform_growth_all_conserved inv (expandFrom inp none 0 a) (fun i => 1 / γ i) hT2 h02
    (fun i b _ k _ => hv i k) hγ' i b' (by rw [expandFrom_length]; exact hi) g1
  refine ⟨b'', k1, ?_, ?_⟩
  · rw [k3, g3]; have := hγ i; field_simp
  · intro k c hc
    obtain ⟨c', e1, e2, e3, e4⟩ := g4 k c hc
    obtain ⟨c'', f1, f2, f3, f4⟩ := k4 k c' e1
    refine ⟨c'', f1, ?_, by rw [f3, e3], by rw [f4, e4]⟩
    rw [f2, e2]; have := hγ i; field_simp

private theorem first_bottom_zero (inp : Inp) (a : List Block) (hT : HasTargets inp a)
    (h0 : ∀ b, a[0]? = some b → b.zb = 0) : ∀ x, (expandFrom inp none 0 a)[0]? = some x → x.zb = 0 := by
  intro x hx
  have hc := (contiguous inp a hT).2
  cases a with
  | nil => simp [expandFrom] at hx
  | cons b0 t =>
    have hb0 := h0 b0 rfl
    rw [List.head?_eq_getElem?, hx] at hc
    simp at hc; rw [hc, hb0]

/-- **... for any SEQUENCE of expansions**: after any number of successive expansions, each uniform within
every block (factors `p.2 i` for block `i` in step `p`), every solid component below the top block still
has its original mass. -/
theorem uniform_growth_seq_all_conserved (inps : List (Inp × (Nat → Rat))) :
    ∀ (a : List Block), (∀ p ∈ inps, HasTargetsS p.1 0 (shape a)) → (∀ b, a[0]? = some b → b.zb = 0) →
      (∀ p ∈ inps, ∀ i k, p.1.g i k = p.2 i) → (∀ p ∈ inps, ∀ i, p.2 i ≠ 0) →
      ∀ i b, i + 1 < a.length → a[i]? = some b →
        ∃ b', (expandSeq (inps.map (·.1)) a)[i]? = some b' ∧
          ∀ (k : Nat) (c : Comp), b.comps[k]? = some c → ∃ c', b'.comps[k]? = some c' ∧ c'.area = c.area ∧
            mass b' c' = mass b c := by
  induction inps with
  | nil =>
    intro a _ _ _ _ i b _ hb
    exact ⟨b, hb, fun k c hc => ⟨c, hc, rfl, rfl⟩⟩
  | cons p t ih =>
    intro a hT h0 hu hγ i b hi hb
    have hTp : HasTargets p.1 a := hT p List.mem_cons_self
    obtain ⟨b1, g1, _, _, g4⟩ := uniform_growth_all_conserved p.1 a p.2 hTp h0
      (fun i b _ k _ => hu p List.mem_cons_self i k) (hγ p List.mem_cons_self) i b hi hb
    obtain ⟨b', k1, k2⟩ := ih (expandFrom p.1 none 0 a)
      (fun q hq => by rw [shape_expandFrom]; exact hT q (List.mem_cons_of_mem _ hq))
      (first_bottom_zero p.1 a hTp h0)
      (fun q hq => hu q (List.mem_cons_of_mem _ hq)) (fun q hq => hγ q (List.mem_cons_of_mem _ hq))
      i b1 (by rw [expandFrom_length]; exact hi) g1
    refine ⟨b', by simpa [expandSeq] using k1, ?_⟩
    intro k c hc
    obtain ⟨c1, e1, _, e3, e4⟩ := g4 k c hc
    obtain ⟨c', f1, f2, f3⟩ := k2 k c1 e1
    exact ⟨c', f1, by rw [f2, e3], by rw [f3, e4]⟩

/-- non-vacuity: a uniform 5 % growth of the two lower blocks of `f9Assembly` and its inverse -/
example : HasTargets f9Inp f9Assembly := by
  refine ⟨⟨0, rfl, by decide⟩, ⟨1, rfl, by decide⟩, trivial⟩


/-! ### uniform growth over a sequence: heights scale by the product of the factors; a closed sequence
(product 1: grow / hold / shrink back) restores heights, densities and masses -/

/-- product over the steps of block `i`'s factor -/
def prodG (inps : List (Inp × (Nat → Rat))) (i : Nat) : Rat := inps.foldr (fun p acc => p.2 i * acc) 1

private theorem shape_get (a : List Block) (i : Nat) (b : Block) (hb : a[i]? = some b) :
    (shape a)[i]? = some b.comps.length := by
  simp [shape, List.getElem?_map, hb]

/-- **any sequence of expansions, each uniform within every block** (the factors only need to be uniform
over the solids a block really has — as they are when read from a stored prescription): block `i` ends at
`(Π factors) · h`, every density is divided by the product, every mass is unchanged. -/
theorem uniform_growth_seq_scaled (inps : List (Inp × (Nat → Rat))) :
    ∀ (a : List Block), (∀ p ∈ inps, HasTargetsS p.1 0 (shape a)) → (∀ b, a[0]? = some b → b.zb = 0) →
      (∀ p ∈ inps, ∀ i n, (shape a)[i]? = some n → ∀ k, k < n → p.1.g i k = p.2 i) → (∀ p ∈ inps, ∀ i, p.2 i ≠ 0) →
      ∀ i b, i + 1 < a.length → a[i]? = some b →
        ∃ b', (expandSeq (inps.map (·.1)) a)[i]? = some b' ∧ b'.h = prodG inps i * b.h ∧
          ∀ (k : Nat) (c : Comp), b.comps[k]? = some c → ∃ c', b'.comps[k]? = some c' ∧
            c'.nd * prodG inps i = c.nd ∧ c'.area = c.area ∧ mass b' c' = mass b c := by
  induction inps with
  | nil =>
    intro a _ _ _ _ i b _ hb
    refine ⟨b, hb, by simp [prodG], fun k c hc => ⟨c, hc, by simp [prodG], rfl, rfl⟩⟩
  | cons p t ih =>
    intro a hT h0 hu hγ i b hi hb
    have hTp : HasTargets p.1 a := hT p List.mem_cons_self
    have hγp := hγ p List.mem_cons_self
    obtain ⟨b1, g1, _, g3, g4⟩ := uniform_growth_all_conserved p.1 a p.2 hTp h0
      (fun i b hb k hk => hu p List.mem_cons_self i b.comps.length (shape_get a i b hb) k hk) hγp i b hi hb
    obtain ⟨b', k1, k2, k3⟩ := ih (expandFrom p.1 none 0 a)
      (fun q hq => by rw [shape_expandFrom]; exact hT q (List.mem_cons_of_mem _ hq))
      (first_bottom_zero p.1 a hTp h0)
      (fun q hq => by rw [shape_expandFrom]; exact hu q (List.mem_cons_of_mem _ hq))
      (fun q hq => hγ q (List.mem_cons_of_mem _ hq))
      i b1 (by rw [expandFrom_length]; exact hi) g1
    have hprod : prodG (p :: t) i = p.2 i * prodG t i := rfl
    refine ⟨b', by simpa [expandSeq] using k1, by rw [k2, g3, hprod]; ring, ?_⟩
    intro k c hc
    obtain ⟨c1, e1, e2, e3, e4⟩ := g4 k c hc
    obtain ⟨c', f1, f2, f3, f4⟩ := k3 k c1 e1
    refine ⟨c', f1, ?_, by rw [f3, e3], by rw [f4, e4]⟩
    have hp := hγp i
    rw [hprod]
    have : c'.nd * (p.2 i * prodG t i) = (c'.nd * prodG t i) * p.2 i := by ring
    rw [this, f2, e2]; field_simp

/-- **a closed sequence** — the factors of every block multiply to exactly 1 (grow, hold with 1.0, shrink
back; in any order, any number of steps) — **restores heights, densities and masses**. -/
theorem uniform_closed_sequence_restores (inps : List (Inp × (Nat → Rat))) (a : List Block)
    (hT : ∀ p ∈ inps, HasTargetsS p.1 0 (shape a)) (h0 : ∀ b, a[0]? = some b → b.zb = 0)
    (hu : ∀ p ∈ inps, ∀ i n, (shape a)[i]? = some n → ∀ k, k < n → p.1.g i k = p.2 i) (hγ : ∀ p ∈ inps, ∀ i, p.2 i ≠ 0)
    (hclosed : ∀ i, prodG inps i = 1) :
    ∀ i b, i + 1 < a.length → a[i]? = some b →
      ∃ b', (expandSeq (inps.map (·.1)) a)[i]? = some b' ∧ b'.h = b.h ∧
        ∀ (k : Nat) (c : Comp), b.comps[k]? = some c → ∃ c', b'.comps[k]? = some c' ∧
          c'.nd = c.nd ∧ c'.area = c.area ∧ mass b' c' = mass b c := by
  intro i b hi hb
  obtain ⟨b', h1, h2, h3⟩ := uniform_growth_seq_scaled inps a hT h0 hu hγ i b hi hb
  refine ⟨b', h1, by rw [h2, hclosed i, one_mul], ?_⟩
  intro k c hc
  obtain ⟨c', e1, e2, e3, e4⟩ := h3 k c hc
  exact ⟨c', e1, by rw [hclosed i, mul_one] at e2; exact e2, e3, e4⟩

/-- grow by `γ`, hold (every factor exactly 1), shrink back by `1/γ`: a closed sequence -/
theorem grow_hold_shrink_closed (i1 i2 i3 : Inp) (γ : Nat → Rat) (hγ : ∀ i, γ i ≠ 0) :
    ∀ i, prodG [(i1, γ), (i2, fun _ => 1), (i3, fun i => 1 / γ i)] i = 1 := by
  intro i
  have := hγ i
  simp only [prodG, List.foldr]
  field_simp

/-! ### one `ExpansionData` used for successive steps (`setAssembly` once, then per step
`setExpansionFactors` + `axiallyExpandAssembly`) -/

theorem assign_append (s : Store) : ∀ (keys : List Key) (fr : List Rat), assign s keys fr = assign [] keys fr ++ s := by
  intro keys
  induction keys generalizing s with
  | nil => intro fr; simp [assign]
  | cons k ks ih =>
    intro fr
    cases fr with
    | nil => simp [assign]
    | cons p ps =>
      simp only [assign]
      rw [ih ((k, p) :: s), ih [(k, p)]]
      simp

private theorem getFactor_cons_ne (s : Store) (k : Key) (p : Rat) (ib ic : Nat) (h : k ≠ (ib, ic)) :
    getFactor ((k, p) :: s) ib ic = getFactor s ib ic := by
  have : (k == (ib, ic)) = false := by simpa using h
  simp [getFactor, this]

private theorem getFactor_cons_eq (s : Store) (p : Rat) (ib ic : Nat) :
    getFactor (((ib, ic), p) :: s) ib ic = p := by
  simp [getFactor]

/-- a call that does not list a component leaves its stored factor as it was -/
theorem getFactor_assign_not_listed (ib ic : Nat) : ∀ (keys : List Key) (fr : List Rat) (s : Store),
    (ib, ic) ∉ keys → getFactor (assign s keys fr) ib ic = getFactor s ib ic := by
  intro keys
  induction keys with
  | nil => intro fr s _; simp [assign]
  | cons k ks ih =>
    intro fr s hk
    cases fr with
    | nil => simp [assign]
    | cons p ps =>
      simp only [assign]
      have hne : k ≠ (ib, ic) := fun h => hk (by simp [h])
      rw [ih ps ((k, p) :: s) (fun h => hk (List.mem_cons_of_mem _ h)), getFactor_cons_ne s k p ib ic hne]

/-- **a listed component gets exactly the factor prescribed in this call — exactly 1.0 included, whatever
was stored for it before** (components listed once) -/
theorem getFactor_assign_listed (ib ic : Nat) : ∀ (keys : List Key) (fr : List Rat) (s : Store) (i : Nat) (p : Rat),
    keys.Nodup → keys[i]? = some (ib, ic) → fr[i]? = some p → getFactor (assign s keys fr) ib ic = p := by
  intro keys
  induction keys with
  | nil => intro fr s i p _ hk _; simp at hk
  | cons k ks ih =>
    intro fr s i p hnd hk hp
    cases fr with
    | nil => simp at hp
    | cons q qs =>
      simp only [assign]
      have hnd' := List.nodup_cons.mp hnd
      cases i with
      | zero =>
        simp at hk hp
        subst hk; subst hp
        rw [getFactor_assign_not_listed ib ic ks qs _ hnd'.1, getFactor_cons_eq]
      | succ j =>
        simp only [List.getElem?_cons_succ] at hk hp
        exact ih qs ((k, q) :: s) j p hnd'.2 hk hp

/-- for a listed component the result does not depend on what the store held before -/
private theorem getFactor_assign_indep (ib ic : Nat) : ∀ (keys : List Key) (fr : List Rat) (s s' : Store),
    keys.length = fr.length → (ib, ic) ∈ keys →
    getFactor (assign s keys fr) ib ic = getFactor (assign s' keys fr) ib ic := by
  intro keys
  induction keys with
  | nil => intro fr s s' _ hk; simp at hk
  | cons k ks ih =>
    intro fr s s' hl hk
    cases fr with
    | nil => simp at hl
    | cons q qs =>
      simp only [assign]
      by_cases hin : (ib, ic) ∈ ks
      · exact ih qs _ _ (by simpa using hl) hin
      · have hk' : k = (ib, ic) := by
          rcases List.mem_cons.mp hk with h | h
          · exact h.symm
          · exact absurd h hin
        subst hk'
        rw [getFactor_assign_not_listed ib ic ks qs _ hin, getFactor_assign_not_listed ib ic ks qs _ hin,
          getFactor_cons_eq, getFactor_cons_eq]

/-- **re-used store = fresh store**: when every component the call does NOT list has the stored factor 1
(never listed, or last prescribed exactly 1.0), the factors in force after the call are those of a fresh
`ExpansionData` given the same call. -/
theorem reuse_factors_eq_fresh (s : Store) (keys : List Key) (fr : List Rat) (hl : keys.length = fr.length)
    (h1 : ∀ ib ic, (ib, ic) ∉ keys → getFactor s ib ic = 1) :
    ∀ ib ic, getFactor (assign s keys fr) ib ic = getFactor (assign [] keys fr) ib ic := by
  intro ib ic
  by_cases hin : (ib, ic) ∈ keys
  · exact getFactor_assign_indep ib ic keys fr s [] hl hin
  · rw [getFactor_assign_not_listed ib ic keys fr s hin, getFactor_assign_not_listed ib ic keys fr [] hin, h1 ib ic hin]
    rfl

/-- ... hence the step itself gives the same assembly through both routes -/
theorem stepReuse_eq_stepFresh (L : Links) (st : RState) (step : List Key × List Rat)
    (h1 : ∀ ib ic, (ib, ic) ∉ step.1 → getFactor st.store ib ic = 1) :
    (stepReuse L st step).map (·.a) = stepFresh L st.a step := by
  unfold stepReuse stepFresh
  by_cases hl : step.1.length ≠ step.2.length
  · simp [setExpansionFactors, hl]
  · by_cases hp : (step.2.any fun p => decide (p ≤ 0)) = true
    · simp [setExpansionFactors, hl, hp]
    · have hl' : step.1.length = step.2.length := not_not.mp hl
      have hp' : (step.2.any fun p => decide (p ≤ 0)) = false := Bool.eq_false_iff.mpr hp
      have hset : ∀ s : Store, setExpansionFactors s step.1 step.2 = some (assign s step.1 step.2) := by
        intro s; simp [setExpansionFactors, hl', hp']
      have hinp : inpOf L (assign st.store step.1 step.2) = inpOf L (assign [] step.1 step.2) := by
        unfold inpOf
        congr 1
        funext ib ic
        exact reuse_factors_eq_fresh st.store step.1 step.2 hl' h1 ib ic
      rw [hset, hset]
      simp only [hinp]
      cases expand (inpOf L (assign [] step.1 step.2)) st.a <;> rfl

/-- every stored factor is positive -/
def StorePos (s : Store) : Prop := ∀ e ∈ s, 0 < e.2

private theorem mem_assign : ∀ (keys : List Key) (fr : List Rat) (s : Store) (e : Key × Rat),
    e ∈ assign s keys fr → e ∈ s ∨ e.2 ∈ fr := by
  intro keys
  induction keys with
  | nil => intro fr s e h; left; simpa [assign] using h
  | cons k ks ih =>
    intro fr s e h
    cases fr with
    | nil => left; simpa [assign] using h
    | cons q qs =>
      simp only [assign] at h
      rcases ih qs _ e h with h' | h'
      · rcases List.mem_cons.mp h' with h'' | h''
        · right; subst h''; simp
        · left; exact h''
      · right; exact List.mem_cons_of_mem _ h'

/-- `setExpansionFactors` keeps the store positive (its validation refuses everything else) -/
theorem storePos_set (s s' : Store) (keys : List Key) (fr : List Rat) (hs : StorePos s)
    (h : setExpansionFactors s keys fr = some s') : StorePos s' := by
  unfold setExpansionFactors at h
  by_cases hl : keys.length ≠ fr.length
  · simp [hl] at h
  · by_cases hp : (fr.any fun p => decide (p ≤ 0)) = true
    · simp [hl, hp] at h
    · simp only [hl, hp, if_false] at h
      have hs' : s' = assign s keys fr := (Option.some.inj h).symm
      subst hs'
      intro e he
      rcases mem_assign keys fr s e he with h' | h'
      · exact hs e h'
      · have : ¬ e.2 ≤ 0 := by
          intro hle
          apply hp
          exact List.any_eq_true.mpr ⟨e.2, h', by simpa using hle⟩
        exact not_le.mp this

/-- ... so every factor `axiallyExpandAssembly` reads is positive (no division by zero) -/
theorem getFactor_pos (s : Store) (hs : StorePos s) (ib ic : Nat) : 0 < getFactor s ib ic := by
  unfold getFactor
  cases hf : s.find? (fun e => e.1 == (ib, ic)) with
  | none => simp
  | some e => exact hs e (List.mem_of_find?_eq_some hf)

theorem factorsOK_of_storePos (L : Links) (s : Store) (hs : StorePos s) : ∀ (a : List Block) (ib : Nat),
    factorsOK (inpOf L s) ib a = true
  | [], _ => rfl
  | [_], _ => rfl
  | b :: b2 :: rest, ib => by
    simp only [factorsOK, Bool.and_eq_true, List.all_eq_true]
    refine ⟨?_, factorsOK_of_storePos L s hs (b2 :: rest) (ib + 1)⟩
    intro i _
    exact decide_eq_true (getFactor_pos s hs ib i)

private theorem hasTargetsS_congr (i1 i2 : Inp) (h : i1.target = i2.target) : ∀ (l : List Nat) (ib : Nat),
    HasTargetsS i1 ib l → HasTargetsS i2 ib l
  | [], _, _ => trivial
  | [_], _, _ => trivial
  | n :: m :: rest, ib, hT => by
    obtain ⟨⟨k, hk, hkn⟩, hT'⟩ := hT
    exact ⟨⟨k, by rw [← h]; exact hk, hkn⟩, hasTargetsS_congr i1 i2 h (m :: rest) (ib + 1) hT'⟩

/-- what one successful step of the re-use route is -/
theorem stepReuse_some (L : Links) (st st' : RState) (step : List Key × List Rat) (h : stepReuse L st step = some st') :
    setExpansionFactors st.store step.1 step.2 = some st'.store ∧
    st'.a = expandFrom (inpOf L st'.store) none 0 st.a ∧ ∀ b ∈ st'.a, 0 ≤ b.h := by
  unfold stepReuse at h
  cases hs : setExpansionFactors st.store step.1 step.2 with
  | none => simp [hs] at h
  | some s =>
    simp only [hs] at h
    unfold expand at h
    by_cases hf : factorsOK (inpOf L s) 0 st.a = true
    · simp only [hf, if_true] at h
      by_cases hn : ((expandFrom (inpOf L s) none 0 st.a).any fun b => decide (b.h < 0)) = true
      · simp [hn] at h
      · simp only [hn] at h
        have := (Option.some.inj h).symm
        subst this
        refine ⟨rfl, rfl, ?_⟩
        intro b hb
        by_contra hlt
        apply hn
        exact List.any_eq_true.mpr ⟨b, hb, by simpa using not_le.mp hlt⟩
    · simp [hf] at h

/-- **any number of successive steps on one `ExpansionData`, any prescriptions** (any listed subsets, any
positive factors, exactly 1.0 included): whenever the steps go through, the top of the assembly has not
moved, the blocks are contiguous with `height = ztop − zbottom`, the first bottom is where it was, no height
is negative, and the store is positive. -/
theorem runReuse_invariants (L : Links) : ∀ (steps : List (List Key × List Rat)) (st st' : RState),
    runReuse L st steps = some st' → StorePos st.store →
    HasTargetsS (inpOf L []) 0 (shape st.a) → Stacked st.a →
    topZ st'.a = topZ st.a ∧ shape st'.a = shape st.a ∧ Stacked st'.a ∧
      st'.a.head?.map (·.zb) = st.a.head?.map (·.zb) ∧ StorePos st'.store ∧ (steps ≠ [] → ∀ b ∈ st'.a, 0 ≤ b.h)
  | [], st, st', h, hs, _, hst => by
    simp only [runReuse] at h
    have := (Option.some.inj h).symm
    subst this
    exact ⟨rfl, rfl, hst, rfl, hs, fun h => absurd rfl h⟩
  | step :: rest, st, st', h, hs, hT, hst => by
    simp only [runReuse] at h
    cases h1 : stepReuse L st step with
    | none => simp [h1] at h
    | some st1 =>
      simp only [h1] at h
      obtain ⟨e1, e2, e3⟩ := stepReuse_some L st st1 step h1
      have hs1 : StorePos st1.store := storePos_set _ _ _ _ hs e1
      have hT1 : HasTargets (inpOf L st1.store) st.a := hasTargetsS_congr (inpOf L []) (inpOf L st1.store) rfl _ _ hT
      obtain ⟨c1, c2⟩ := contiguous (inpOf L st1.store) st.a hT1
      have hsh : shape st1.a = shape st.a := by rw [e2, shape_expandFrom]
      have htop : topZ st1.a = topZ st.a := by rw [e2, height_preserved_step]
      obtain ⟨r1, r2, r3, r4, r5, r6⟩ := runReuse_invariants L rest st1 st' h hs1 (by rw [hsh]; exact hT) (by rw [e2]; exact c1)
      refine ⟨by rw [r1, htop], by rw [r2, hsh], r3, by rw [r4, e2, c2], r5, ?_⟩
      intro _
      cases rest with
      | nil =>
        simp only [runReuse] at h
        have := (Option.some.inj h).symm
        subst this
        exact e3
      | cons s2 r => exact r6 (by simp)

/-- along a history every step leaves no doubt about what it prescribes: each component it does not list has
the stored factor 1 (it was never listed, or it was last prescribed exactly 1.0) -/
def Unambiguous : Store → List (List Key × List Rat) → Prop
  | _, [] => True
  | s, step :: rest =>
    (∀ ib ic, (ib, ic) ∉ step.1 → getFactor s ib ic = 1) ∧
      Unambiguous ((setExpansionFactors s step.1 step.2).getD s) rest

/-- **one `ExpansionData` for all steps and a fresh one per step give the same assemblies, step after step,
for every history** whose steps are unambiguous (and the same refusals). -/
theorem runReuse_eq_runFresh (L : Links) : ∀ (steps : List (List Key × List Rat)) (st : RState),
    Unambiguous st.store steps → (runReuse L st steps).map (·.a) = runFresh L st.a steps
  | [], st, _ => rfl
  | step :: rest, st, hu => by
    obtain ⟨h1, h2⟩ := hu
    have hstep := stepReuse_eq_stepFresh L st step h1
    simp only [runReuse, runFresh]
    cases hr : stepReuse L st step with
    | none =>
      rw [hr] at hstep
      simp only [Option.map_none] at hstep
      rw [← hstep]; rfl
    | some st1 =>
      rw [hr] at hstep
      simp only [Option.map_some] at hstep
      rw [← hstep]
      simp only []
      obtain ⟨e1, _, _⟩ := stepReuse_some L st st1 step hr
      rw [e1] at h2
      exact runReuse_eq_runFresh L rest st1 h2

/-- non-vacuity: grow, hold (exactly 1.0), shrink back for component (0,0) is an unambiguous history -/
example : Unambiguous [] [([(0, 0)], [11/10]), ([(0, 0)], [1]), ([(0, 0)], [10/11])] := by
  have hne : ∀ ib ic : Nat, (ib, ic) ∉ [((0 : Nat), (0 : Nat))] → ((0 : Nat), (0 : Nat)) ≠ (ib, ic) := by
    intro ib ic h e; exact h (by simp [← e])
  have e1 : (setExpansionFactors [] [((0 : Nat), (0 : Nat))] [(11/10 : Rat)]).getD [] = [((0, 0), 11/10)] := by
    decide +kernel
  have e2 : (setExpansionFactors [(((0 : Nat), (0 : Nat)), (11/10 : Rat))] [(0, 0)] [1]).getD [((0, 0), 11/10)]
      = [((0, 0), 1), ((0, 0), 11/10)] := by decide +kernel
  refine ⟨fun _ _ _ => rfl, ?_⟩
  show Unambiguous ((setExpansionFactors [] [((0 : Nat), (0 : Nat))] [(11/10 : Rat)]).getD []) _
  rw [e1]
  refine ⟨fun ib ic h => ?_, ?_⟩
  · rw [getFactor_cons_ne _ _ _ ib ic (hne ib ic h)]; rfl
  show Unambiguous ((setExpansionFactors [(((0 : Nat), (0 : Nat)), (11/10 : Rat))] [(0, 0)] [1]).getD [((0, 0), 11/10)]) _
  rw [e2]
  refine ⟨fun ib ic h => ?_, trivial⟩
  rw [getFactor_cons_ne _ _ _ ib ic (hne ib ic h), getFactor_cons_ne _ _ _ ib ic (hne ib ic h)]; rfl

/-- the stores the successive calls leave behind -/
def storesOf : Store → List (List Key × List Rat) → List Store
  | _, [] => []
  | s, step :: rest =>
    let s' := (setExpansionFactors s step.1 step.2).getD s
    s' :: storesOf s' rest

/-- the re-use route is the sequence of expansions whose factors are read from the successive stores -/
theorem runReuse_eq_expandSeq (L : Links) : ∀ (steps : List (List Key × List Rat)) (st st' : RState),
    runReuse L st steps = some st' → st'.a = expandSeq ((storesOf st.store steps).map (inpOf L)) st.a
  | [], st, st', h => by
    simp only [runReuse] at h
    have := (Option.some.inj h).symm
    subst this; rfl
  | step :: rest, st, st', h => by
    simp only [runReuse] at h
    cases h1 : stepReuse L st step with
    | none => simp [h1] at h
    | some st1 =>
      simp only [h1] at h
      obtain ⟨e1, e2, _⟩ := stepReuse_some L st st1 step h1
      have ih := runReuse_eq_expandSeq L rest st1 st' h
      simp only [storesOf, e1, Option.getD_some, List.map_cons, expandSeq, List.foldl_cons]
      rw [ih, e2]; rfl

/-- non-vacuity / the scenario itself: one store, the steps `g = 11/10`, `1`, `10/11` for component (0,0) of
a two-block assembly: the factor in force in the second step is exactly 1 although 11/10 was stored before,
and the closed sequence restores the state. -/
example :
    (runReuse ⟨fun _ _ => none, fun ib => if ib = 0 then some 0 else none⟩
        ⟨[], [⟨10, 0, 10, [⟨1, 1, 0, 0, 0⟩]⟩, ⟨5, 10, 15, []⟩]⟩
        [([(0, 0)], [11/10]), ([(0, 0)], [1]), ([(0, 0)], [10/11])]).map (fun st => (st.a.map (·.h), getFactor st.store 0 0))
      = some ([10, 5], 10/11) := by decide +kernel

example : getFactor (assign [((0, 0), (11/10 : Rat))] [(0, 0)] [1]) 0 0 = 1 := by decide +kernel


/-! ### the block-average temperature of `updateComponentTempsBy1DTempField` -/

private theorem tempsInBlock_mem (zb zt : Rat) : ∀ (grid field : List Rat) (t : Rat),
    t ∈ tempsInBlock zb zt grid field → t ∈ field
  | [], _, t, h => by simp [tempsInBlock] at h
  | _ :: _, [], t, h => by simp [tempsInBlock] at h
  | z :: zs, f :: fs, t, h => by
    simp only [tempsInBlock] at h
    have hhere : ∀ x, x ∈ (if zb ≤ z ∧ z ≤ zt then [f] else []) → x = f := by
      intro x hx; split at hx <;> simp at hx; exact hx
    split at h
    · exact List.mem_cons.mpr (Or.inl (hhere t h))
    · rcases List.mem_append.mp h with h' | h'
      · exact List.mem_cons.mpr (Or.inl (hhere t h'))
      · exact List.mem_cons_of_mem _ (tempsInBlock_mem zb zt zs fs t h')

private theorem sum_const (T : Rat) : ∀ (l : List Rat), (∀ t ∈ l, t = T) → l.sum = l.length * T
  | [], _ => by simp
  | x :: xs, h => by
    have hx : x = T := h x List.mem_cons_self
    have ih := sum_const T xs (fun t ht => h t (List.mem_cons_of_mem _ ht))
    simp only [List.sum_cons, List.length_cons, ih, hx]
    push_cast; ring

/-- **a constant temperature field gives every block that temperature** (whatever the grid: the block
average is a mean of field values; where no grid point falls into the block the call is refused) -/
theorem blockAveTemp_const (zb zt T x : Rat) (grid field : List Rat) (hf : ∀ t ∈ field, t = T)
    (h : blockAveTemp zb zt grid field = some x) : x = T := by
  unfold blockAveTemp at h
  have hall : ∀ t ∈ tempsInBlock zb zt grid field, t = T := fun t ht => hf t (tempsInBlock_mem zb zt grid field t ht)
  cases hl : tempsInBlock zb zt grid field with
  | nil => simp [hl] at h
  | cons y ys =>
    rw [hl] at h hall
    simp only at h
    have hx := (Option.some.inj h).symm
    rw [hx, sum_const T (y :: ys) hall]
    have : ((y :: ys).length : Rat) ≠ 0 := by simp; positivity
    field_simp

example : blockAveTemp 0 10 [0, 5, 10, 15] [400, 400, 400, 400] = some 400 := by decide +kernel
example : blockAveTemp 0 10 [11, 12] [400, 400] = none := by decide +kernel


/-! ### the top block absorbs the change BY POSITION, whatever it contains; densities over any sequence -/

/-- **the last block is the absorbing one whatever it contains** (fluid only, fluid + solids, solids linked
or not to the block below, a designated target or none) and whatever factors / targets are prescribed for
it: its contents are left as they are, its top stays, its bottom is the top of the block below (or its own
bottom if it is alone) and its height is `ztop − zbottom`. -/
theorem top_block_by_position (inp : Inp) (a : List Block) (n : Nat) (t : Block) (hn : a.length = n + 1)
    (ht : a[n]? = some t) :
    ∃ t', (expandFrom inp none 0 a)[n]? = some t' ∧ t'.comps = t.comps ∧ t'.zt = t.zt ∧ t'.h = t'.zt - t'.zb ∧
      t'.zb = (if n = 0 then t.zb else ((expandFrom inp none 0 a)[n - 1]?.map (·.zt)).getD t.zb) := by
  have hg := expandFrom_top inp a none 0 n hn
  rw [ht] at hg
  simp only [Option.map_some] at hg
  refine ⟨_, hg, ?_, (topBlock_spec _ t).1, (topBlock_spec _ t).2.2, ?_⟩
  · unfold topBlock; rfl
  · rw [(topBlock_spec _ t).2.1]
    by_cases h0 : n = 0
    · simp [h0, blockBottom]
    · simp only [h0, if_false]
      have hlt : n - 1 < (expandFrom inp none 0 a).length := by rw [expandFrom_length]; omega
      obtain ⟨l, hl⟩ : ∃ l, (expandFrom inp none 0 a)[n - 1]? = some l := ⟨_, List.getElem?_eq_getElem hlt⟩
      simp [hl, blockBottom]

/-- product over the steps of `1 / g` for component `k` of block `i` -/
def invProd (inps : List Inp) (i k : Nat) : Rat := inps.foldr (fun p acc => (1 / p.g i k) * acc) 1

private theorem step_density (inp : Inp) (a : List Block) (i : Nat) (b : Block) (hi : i + 1 < a.length)
    (hb : a[i]? = some b) :
    ∃ b', (expandFrom inp none 0 a)[i]? = some b' ∧ ∀ (k : Nat) (c : Comp), b.comps[k]? = some c →
      ∃ c', b'.comps[k]? = some c' ∧ c'.nd = c.nd * (1 / inp.g i k) ∧ c'.area = c.area := by
  have hg := expandFrom_get inp a none 0 i hi
  rw [hb] at hg
  simp only [Option.map_some, Nat.zero_add] at hg
  generalize (if i = 0 then none else (expandFrom inp none 0 a)[i - 1]?) = bel at hg
  refine ⟨_, hg, ?_⟩
  intro k c hc
  exact ⟨expandComp b.h bel (inp.g i k) (inp.lower i k) c, by rw [stepBlock_comp_get, hc]; rfl, rfl, rfl⟩

/-- **the density of every solid component below the top block is divided by its growth fraction in every
step** — any sequence, any (per-component) factors, any linkage, any targets, no hypothesis. -/
theorem density_seq_scaled : ∀ (inps : List Inp) (a : List Block) (i : Nat) (b : Block), i + 1 < a.length → a[i]? = some b →
    ∃ b', (expandSeq inps a)[i]? = some b' ∧ ∀ (k : Nat) (c : Comp), b.comps[k]? = some c →
      ∃ c', b'.comps[k]? = some c' ∧ c'.nd = c.nd * invProd inps i k ∧ c'.area = c.area
  | [], a, i, b, _, hb => ⟨b, hb, fun k c hc => ⟨c, hc, by simp [invProd], rfl⟩⟩
  | p :: t, a, i, b, hi, hb => by
    obtain ⟨b1, g1, g2⟩ := step_density p a i b hi hb
    obtain ⟨b', k1, k2⟩ := density_seq_scaled t (expandFrom p none 0 a) i b1 (by rw [expandFrom_length]; exact hi) g1
    refine ⟨b', by simpa [expandSeq] using k1, ?_⟩
    intro k c hc
    obtain ⟨c1, e1, e2, e3⟩ := g2 k c hc
    obtain ⟨c', f1, f2, f3⟩ := k2 k c1 e1
    refine ⟨c', f1, ?_, by rw [f3, e3]⟩
    have : invProd (p :: t) i k = (1 / p.g i k) * invProd t i k := rfl
    rw [f2, e2, this]; ring

/-- **any closed sequence restores every density**: when the factors a component received multiply to 1
(g, 1, 1/g; out and back along a temperature path; ...), its number density is what it was — also where
block heights are not restored (components stacked on non-target components). -/
theorem closed_sequence_restores_densities (inps : List Inp) (a : List Block) (i : Nat) (b : Block)
    (hi : i + 1 < a.length) (hb : a[i]? = some b) (k : Nat) (c : Comp) (hc : b.comps[k]? = some c)
    (hclosed : invProd inps i k = 1) :
    ∃ b' c', (expandSeq inps a)[i]? = some b' ∧ b'.comps[k]? = some c' ∧ c'.nd = c.nd ∧ c'.area = c.area := by
  obtain ⟨b', h1, h2⟩ := density_seq_scaled inps a i b hi hb
  obtain ⟨c', e1, e2, e3⟩ := h2 k c hc
  exact ⟨b', c', h1, e1, by rw [e2, hclosed, mul_one], e3⟩

/-- non-vacuity: the F9 assembly (whose block 1 does not return to its height) through `f9Inp` and back -/
example : invProd [f9Inp, { f9Inp with g := fun ib ic => 1 / f9Inp.g ib ic }] 1 1 = 1 := by decide +kernel

example : ∃ t', (expandFrom f9Inp none 0 f9Assembly)[2]? = some t' ∧ t'.comps = [⟨3, 1, 0, 0, 0⟩] ∧ t'.zt = 25 :=
  ⟨_, rfl, by decide +kernel, by decide +kernel⟩


/-! ### thermal factors -/

private theorem lookup_cons_eq (l : List (Key × Rat)) (k : Key) (v : Rat) : lookup ((k, v) :: l) k = some v := by
  simp [lookup]

private theorem lookup_cons_ne (l : List (Key × Rat)) (k k' : Key) (v : Rat) (h : k ≠ k') :
    lookup ((k, v) :: l) k' = lookup l k' := by
  have : (k == k') = false := by simpa using h
  simp [lookup, List.find?_cons, this]

/-- **after `updateComponentTemp(c, T)` the material is asked for the expansion between the component's
previous temperature and `T`** — whatever that previous temperature is (exactly 0.0 included) -/
theorem factorSpec_after_update (th : Thermal) (k : Key) (T : Rat) (h : th.fromInput = false) :
    factorSpec (updateComponentTemp th k T) k = .between ((lookup th.temp k).getD 0) T := by
  simp [factorSpec, updateComponentTemp, h, lookup_cons_eq]

/-- ... or, with `expandFromTinputToThot`, for the expansion from the input temperature to `T` -/
theorem factorSpec_after_update_fromInput (th : Thermal) (k : Key) (T : Rat) (h : th.fromInput = true) :
    factorSpec (updateComponentTemp th k T) k = .fromInputTo T := by
  simp [factorSpec, updateComponentTemp, h, lookup_cons_eq]

/-- updating one component's temperature does not touch any other component's factor -/
theorem factorSpec_frame (th : Thermal) (k k' : Key) (T : Rat) (h : k ≠ k') :
    factorSpec (updateComponentTemp th k T) k' = factorSpec th k' := by
  simp [factorSpec, updateComponentTemp, lookup_cons_ne _ k k' _ h]

/-- a component whose temperature was never updated keeps the factor 1.0 -/
theorem factorSpec_untouched (th : Thermal) (k : Key) (h : th.fromInput = false) (hr : lookup th.ref k = none) :
    factorSpec th k = .one := by
  simp [factorSpec, h, hr]

/-- **out and back**: heating a component from its temperature `T0` to `T1` and back to `T0` gives two factors
whose product is 1 for every material whose expansion between two temperatures is the inverse of the
expansion back (`hf`; property C03's) — with `closed_sequence_restores_densities` the density returns. -/
theorem thermal_out_and_back (f : Key → Rat → Rat → Rat) (tin : Key → Rat) (th : Thermal) (k : Key) (T0 T1 : Rat)
    (h : th.fromInput = false) (h0 : lookup th.temp k = some T0) (hf : ∀ a b, f k a b * f k b a = 1) :
    let th1 := updateComponentTemp th k T1
    let th2 := updateComponentTemp th1 k T0
    evalSpec f tin k (factorSpec th1 k) * evalSpec f tin k (factorSpec th2 k) = 1 := by
  have h1 : (updateComponentTemp th k T1).fromInput = false := h
  have e1 := factorSpec_after_update th k T1 h
  have e2 := factorSpec_after_update (updateComponentTemp th k T1) k T0 h1
  have ht : lookup (updateComponentTemp th k T1).temp k = some T1 := lookup_cons_eq _ _ _
  simp only [e1, e2, h0, ht, Option.getD_some, evalSpec]
  exact hf T0 T1

example : factorSpec (updateComponentTemp ⟨false, [], [((0, 0), 0)]⟩ (0, 0) 100) (0, 0) = .between 0 100 := by
  decide +kernel


/-! ### aliased compositions: components sharing one composition cell -/

/-- the factor component `k` receives when the factors `fs` go to components `i, i+1, ...` -/
def factorAt (i : Nat) (fs : List Rat) (k : Nat) : Rat := if i ≤ k then fs.getD (k - i) 1 else 1

private theorem deref_append_lt (heap : Heap) (v : Rat) (c : Nat) (h : c < heap.length) :
    deref (heap ++ [v]) c = deref heap c := by
  simp [deref, List.getD_eq_getElem?_getD, List.getElem?_append_left h]

private theorem deref_append_eq (heap : Heap) (v : Rat) : deref (heap ++ [v]) heap.length = v := by
  simp [deref, List.getD_eq_getElem?_getD]

private theorem factorAt_cons (i : Nat) (f : Rat) (fs : List Rat) (k : Nat) :
    factorAt i (f :: fs) k = (if k = i then f else 1) * factorAt (i + 1) fs k := by
  unfold factorAt
  by_cases h1 : k = i
  · subst h1; simp
  · by_cases h2 : i ≤ k
    · have h3 : i + 1 ≤ k := by omega
      obtain ⟨d, hd⟩ : ∃ d, k - i = d + 1 := ⟨k - i - 1, by omega⟩
      have hd' : k - (i + 1) = d := by omega
      simp [h1, h2, h3, hd, hd']
    · have h3 : ¬ i + 1 ≤ k := by omega
      simp [h1, h2, h3]

/-- **every component's density is multiplied by ITS factor exactly once, whatever cells the components
share**: `changeNDensByFactor` builds a new composition for the component it is called on and leaves the
shared one alone, so a component that shares its composition with an earlier one is not scaled twice. -/
theorem changeAll_spec : ∀ (fs : List Rat) (heap : Heap) (cells : List Nat) (i : Nat),
    (∀ c ∈ cells, c < heap.length) →
    (changeAll heap cells i fs).2.length = cells.length ∧
    (∀ c ∈ (changeAll heap cells i fs).2, c < (changeAll heap cells i fs).1.length) ∧
    ∀ k, k < cells.length →
      deref (changeAll heap cells i fs).1 ((changeAll heap cells i fs).2.getD k 0)
        = deref heap (cells.getD k 0) * factorAt i fs k
  | [], heap, cells, i, inv => by
    refine ⟨rfl, inv, ?_⟩
    intro k _
    simp [changeAll, factorAt]
  | f :: fs, heap, cells, i, inv => by
    have inv' : ∀ c ∈ cells.set i heap.length, c < (heap ++ [deref heap (cells.getD i 0) * f]).length := by
      intro c hc
      rcases List.mem_or_eq_of_mem_set hc with h | h
      · have := inv c h; simp; omega
      · simp [h]
    obtain ⟨ih1, ih2, ih3⟩ := changeAll_spec fs (heap ++ [deref heap (cells.getD i 0) * f]) (cells.set i heap.length) (i + 1) inv'
    have hstep : changeAll heap cells i (f :: fs)
        = changeAll (heap ++ [deref heap (cells.getD i 0) * f]) (cells.set i heap.length) (i + 1) fs := rfl
    rw [hstep]
    refine ⟨by rw [ih1, List.length_set], ih2, ?_⟩
    intro k hk
    rw [ih3 k (by rw [List.length_set]; exact hk), factorAt_cons, ← mul_assoc]
    congr 1
    by_cases hki : k = i
    · subst hki
      have : (cells.set k heap.length).getD k 0 = heap.length := by
        simp [List.getD_eq_getElem?_getD, List.getElem?_set_self hk]
      rw [this, deref_append_eq]; simp
    · have hne : i ≠ k := fun h => hki h.symm
      have : (cells.set i heap.length).getD k 0 = cells.getD k 0 := by
        simp [List.getD_eq_getElem?_getD, List.getElem?_set_ne hne]
      have hlt : cells.getD k 0 < heap.length := by
        apply inv
        simp [List.getD_eq_getElem?_getD, List.getElem?_eq_getElem hk]
      rw [this, deref_append_lt _ _ _ hlt]; simp [hki]

/-- ... in the form the property needs: after the density updates of one expansion, component `k` sees its old
density times its own factor (`1/g`), for ANY sharing pattern -/
theorem densitiesAfter_spec (heap : Heap) (cells : List Nat) (fs : List Rat) (inv : ∀ c ∈ cells, c < heap.length)
    (k : Nat) (hk : k < cells.length) :
    (densitiesAfter heap cells fs).getD k 0 = deref heap (cells.getD k 0) * fs.getD k 1 := by
  obtain ⟨h1, _, h3⟩ := changeAll_spec fs heap cells 0 inv
  have hk' : k < (changeAll heap cells 0 fs).2.length := by rw [h1]; exact hk
  have := h3 k hk
  simp only [factorAt, Nat.zero_le, if_true, Nat.sub_zero] at this
  rw [← this]
  simp [densitiesAfter, List.getD_eq_getElem?_getD, List.getElem?_map, List.getElem?_eq_getElem hk']

/-- two components sharing one cell, both grown by 2: each sees a half, not a quarter -/
example : densitiesAfter [8] [0, 0] [1/2, 1/2] = [4, 4] := by decide +kernel

end ArmiVerif.AxialExp
