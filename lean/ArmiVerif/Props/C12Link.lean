/-
C12 — axial linkage (`areAxiallyLinked`, `AssemblyAxialLinkage`) and target-component selection
(`ExpansionData._setTargetComponents`): theorems about `Model/Linkage.lean`, and the linkage hypothesis of
`target_mass_conserved_partial` restated on the modelled linkage.
-/
import ArmiVerif.Model.Linkage
import ArmiVerif.Props.C12

namespace ArmiVerif.Linkage

/-- being an `UnshapedComponent` is a property of the component's class -/
def ClassWF (a b : Geo) : Prop := a.ty = b.ty → a.unshaped = b.unshaped

private theorem rmax_comm (a b : Rat) : rmax a b = rmax b a := by
  unfold rmax; split_ifs <;> linarith
private theorem rmin_comm (a b : Rat) : rmin a b = rmin b a := by
  unfold rmin; split_ifs <;> linarith

/-- **`areAxiallyLinked` is symmetric** -/
theorem linked_symmetric (a b : Geo) (h : ClassWF a b) : linked a b = linked b a := by
  unfold linked
  by_cases ht : a.ty = b.ty
  · have hu := h ht
    by_cases hm : a.mult = b.mult
    · simp [ht, hm, hu, rmax_comm a.idc b.idc, rmin_comm a.odc b.odc, Bool.and_comm]
    · have hm' : ¬ b.mult = a.mult := fun e => hm e.symm
      simp [hm, hm']
  · have ht' : ¬ b.ty = a.ty := fun e => ht e.symm
    simp [ht, ht']

/-- what a link means: two solid, shaped components of the same class and multiplicity whose inner
diameters are both smaller than both outer diameters -/
theorem linked_spec (a b : Geo) (h : linked a b = true) :
    a.solid = true ∧ b.solid = true ∧ a.ty = b.ty ∧ a.mult = b.mult ∧ a.unshaped = false ∧
      a.idc < a.odc ∧ a.idc < b.odc ∧ b.idc < a.odc ∧ b.idc < b.odc := by
  unfold linked at h
  split_ifs at h with h1 h2
  simp only [Bool.and_eq_true, beq_iff_eq, decide_eq_true_eq] at h1
  simp only [decide_eq_true_eq] at h
  obtain ⟨⟨⟨s1, s2⟩, t⟩, m⟩ := h1
  refine ⟨s1, s2, t, m, by simpa using h2, ?_, ?_, ?_, ?_⟩ <;>
    (unfold rmax rmin at h; split_ifs at h <;> linarith)

/-- a component is linked to (a copy of) itself exactly when it is solid, shaped and not degenerate -/
theorem linked_self (a : Geo) : linked a a = (a.solid && !a.unshaped && decide (a.idc < a.odc)) := by
  unfold linked rmax rmin
  cases hs : a.solid <;> cases hu : a.unshaped <;> simp

private theorem mem_candidates (c : Geo) (o : List Geo) (j : Nat) :
    j ∈ candidates c o ↔ ∃ d, o[j]? = some d ∧ linked c d = true := by
  unfold candidates
  rw [List.mem_filter, List.mem_range]
  constructor
  · rintro ⟨hj, h⟩
    cases hd : o[j]? with
    | none => rw [hd] at h; cases h
    | some d => rw [hd] at h; exact ⟨d, rfl, h⟩
  · rintro ⟨d, hd, hl⟩
    refine ⟨?_, by rw [hd]; exact hl⟩
    by_contra hge
    rw [List.getElem?_eq_none (not_lt.mp hge)] at hd; cases hd

private theorem findLinked_cases (c : Geo) (o : List Geo) :
    (candidates c o = [] ∧ findLinked c (some o) = some none) ∨
    (∃ j, candidates c o = [j] ∧ findLinked c (some o) = some (some j)) ∨
    (∃ x y t, candidates c o = x :: y :: t ∧ findLinked c (some o) = none) := by
  unfold findLinked
  cases h : candidates c o with
  | nil => exact Or.inl ⟨rfl, by simp only [h]⟩
  | cons x t =>
    cases t with
    | nil => exact Or.inr (Or.inl ⟨x, rfl, by simp only [h]⟩)
    | cons y t' => exact Or.inr (Or.inr ⟨x, y, t', rfl, by simp only [h]⟩)

private theorem findLinked_iff (c : Geo) (o : List Geo) (j : Nat) :
    findLinked c (some o) = some (some j) ↔ candidates c o = [j] := by
  rcases findLinked_cases c o with ⟨h1, h2⟩ | ⟨k, h1, h2⟩ | ⟨x, y, t, h1, h2⟩ <;> rw [h1, h2] <;> simp

/-- **the linkage is mutual**: for two adjacent blocks, if the construction does not raise for `d`, then
`c.lower = d` implies `d.upper = c` (and, by the same statement with the roles exchanged, conversely). -/
theorem linkage_mutual (lo up : List Geo) (i j : Nat) (c d : Geo) (hc : up[i]? = some c) (hd : lo[j]? = some d)
    (hwf : ClassWF c d) (hlow : findLinked c (some lo) = some (some j)) (hok : findLinked d (some up) ≠ none) :
    findLinked d (some up) = some (some i) := by
  have hj : j ∈ candidates c lo := by rw [(findLinked_iff c lo j).mp hlow]; simp
  obtain ⟨d', hd', hl⟩ := (mem_candidates c lo j).mp hj
  rw [hd] at hd'; cases hd'
  have hi : i ∈ candidates d up := (mem_candidates d up i).mpr ⟨c, hc, by rw [← linked_symmetric c d hwf]; exact hl⟩
  rcases findLinked_cases d up with ⟨h1, _⟩ | ⟨k, h1, h2⟩ | ⟨x, y, t, _, h2⟩
  · rw [h1] at hi; cases hi
  · rw [h1] at hi
    have : i = k := by simpa using hi
    rw [h2, this]
  · exact absurd h2 hok

theorem linkage_mutual_conv (lo up : List Geo) (i j : Nat) (c d : Geo) (hc : up[i]? = some c) (hd : lo[j]? = some d)
    (hwf : ClassWF d c) (hup : findLinked d (some up) = some (some i)) (hok : findLinked c (some lo) ≠ none) :
    findLinked c (some lo) = some (some j) :=
  linkage_mutual up lo j i d c hd hc hwf hup hok

/-- a stored link is a pair that `areAxiallyLinked` accepts, and it is the only such pair -/
theorem findLinked_spec (c : Geo) (o : List Geo) (j : Nat) (h : findLinked c (some o) = some (some j)) :
    (∃ d, o[j]? = some d ∧ linked c d = true) ∧ ∀ (k : Nat) (d : Geo), o[k]? = some d → linked c d = true → k = j := by
  have heq := (findLinked_iff c o j).mp h
  refine ⟨(mem_candidates c o _).mp (by rw [heq]; simp), ?_⟩
  intro k d hk hl
  have := (mem_candidates c o k).mpr ⟨d, hk, hl⟩
  rw [heq] at this; simpa using this

/-! ### target selection -/

private theorem mem_idxWhere (cs : List TComp) (p : TComp → Bool) (i : Nat) :
    i ∈ idxWhere cs p ↔ ∃ c, cs[i]? = some c ∧ p c = true := by
  unfold idxWhere
  rw [List.mem_filter, List.mem_range]
  constructor
  · rintro ⟨_, h⟩
    cases hd : cs[i]? with
    | none => rw [hd] at h; cases h
    | some d => rw [hd] at h; exact ⟨d, rfl, h⟩
  · rintro ⟨d, hd, hl⟩
    refine ⟨?_, by rw [hd]; exact hl⟩
    by_contra hge
    rw [List.getElem?_eq_none (not_lt.mp hge)] at hd; cases hd

private theorem single_iff (l : List Nat) (i : Nat) : single? l = some i ↔ l = [i] := by
  cases l with
  | nil => simp [single?]
  | cons x t => cases t with
    | nil => simp [single?]
    | cons y t' => simp [single?]

/-- **with an explicit flag of interest (plenum / ACLP blocks: CLAD) the chosen target is the one child carrying
that flag, or — when no child carries it — the block's only solid child; anything else is refused.** -/
theorem determineTarget_flag (preferred : List Nat) (bflags : Nat) (cs : List TComp) (f i : Nat)
    (h : determineTarget preferred bflags cs (some f) = some i) :
    ∃ c, cs[i]? = some c ∧
      ((hasFlags c.flags f = true ∧ ∀ (k : Nat) (c' : TComp), cs[k]? = some c' → hasFlags c'.flags f = true → k = i) ∨
       ((∀ (k : Nat) (c' : TComp), cs[k]? = some c' → hasFlags c'.flags f = false) ∧ c.solid = true ∧
          ∀ (k : Nat) (c' : TComp), cs[k]? = some c' → c'.solid = true → k = i)) := by
  unfold determineTarget candList cand0 at h
  simp only [] at h
  cases hc0 : idxWhere cs (fun c => hasFlags c.flags f) with
  | nil =>
    rw [hc0] at h
    simp only [] at h
    cases hs : single? (idxWhere cs (fun c => c.solid)) with
    | none => rw [hs] at h; simp [single?] at h
    | some s =>
      rw [hs] at h
      have hi : s = i := by simpa [single?] using h
      subst hi
      have hs' := (single_iff _ _).mp hs
      obtain ⟨c, hc, hsol⟩ := (mem_idxWhere cs (fun c => c.solid) s).mp (by rw [hs']; simp)
      refine ⟨c, hc, Or.inr ⟨?_, hsol, ?_⟩⟩
      · intro k c' hk
        by_contra hne
        have : k ∈ idxWhere cs (fun c => hasFlags c.flags f) :=
          (mem_idxWhere cs _ k).mpr ⟨c', hk, by simpa using hne⟩
        rw [hc0] at this; cases this
      · intro k c' hk hsk
        have := (mem_idxWhere cs (fun c => c.solid) k).mpr ⟨c', hk, hsk⟩
        rw [hs'] at this; simpa using this
  | cons s t =>
    rw [hc0] at h
    simp only [] at h
    have hl := (single_iff _ _).mp h
    obtain ⟨c, hc, hfl⟩ := (mem_idxWhere cs (fun c => hasFlags c.flags f) i).mp (by rw [hc0, hl]; simp)
    refine ⟨c, hc, Or.inl ⟨hfl, ?_⟩⟩
    intro k c' hk hf'
    have := (mem_idxWhere cs (fun c => hasFlags c.flags f) k).mpr ⟨c', hk, hf'⟩
    rw [hc0, hl] at this; simpa using this

/-- whatever branch is taken, a chosen target is a child of the block -/
theorem determineTarget_valid (preferred : List Nat) (bflags : Nat) (cs : List TComp) (fo : Option Nat) (i : Nat)
    (h : determineTarget preferred bflags cs fo = some i) : i < cs.length := by
  have hsub : ∀ p, ∀ k ∈ idxWhere cs p, k < cs.length := by
    intro p k hk; unfold idxWhere at hk; exact List.mem_range.mp (List.mem_filter.mp hk).1
  have hpref : ∀ fs, ∀ k ∈ firstPreferred cs fs, k < cs.length := by
    intro fs
    induction fs with
    | nil => intro k hk; cases hk
    | cons f fs ih =>
      intro k hk
      unfold firstPreferred at hk
      cases hq : idxWhere cs (fun c => hasFlags c.flags f) with
      | nil => rw [hq] at hk; exact ih k hk
      | cons x t => rw [hq] at hk; exact hsub _ k (by rw [hq]; exact hk)
  have hc0 : ∀ k ∈ cand0 preferred bflags cs fo, k < cs.length := by
    intro k hk
    unfold cand0 at hk
    cases fo with
    | some f => exact hsub _ k hk
    | none =>
      simp only [] at hk
      cases hq : firstPreferred cs preferred with
      | nil => rw [hq] at hk; exact hsub _ k hk
      | cons x t => rw [hq] at hk; exact hpref _ k (by rw [hq]; exact hk)
  have hcl : ∀ k ∈ candList preferred bflags cs fo, k < cs.length := by
    intro k hk
    unfold candList at hk
    cases hq : cand0 preferred bflags cs fo with
    | nil =>
      rw [hq] at hk
      simp only [] at hk
      cases hs : single? (idxWhere cs (fun c => c.solid)) with
      | none => rw [hs] at hk; cases hk
      | some s =>
        rw [hs] at hk
        have : k = s := by simpa using hk
        subst this
        exact hsub _ _ (by rw [(single_iff _ _).mp hs]; simp)
    | cons x t => rw [hq] at hk; exact hc0 k (by rw [hq]; exact hk)
  exact hcl i (by rw [(single_iff _ _).mp h]; simp)

/-! ### re-designated targets -/

/-- **a designated component is the target, whatever the flags say and whatever was designated before** -/
theorem setTarget_designate (F : FlagSet) (setFuel : Bool) (b : TBlock) (i : Nat) :
    setTarget F setFuel (designate b i) = .target i := by
  simp [setTarget, designate]

/-- designation overwrites: only the last one counts -/
theorem designate_designate (b : TBlock) (i j : Nat) : designate (designate b i) j = designate b j := rfl

/-- **after a block's target has been re-designated (from any earlier choice to child `j`), a new
`ExpansionData` reports `j` and ONLY `j` as that block's target** — in particular not the previously
designated component, wherever it stands in the block's component order. -/
theorem isTarget_after_redesignation (F : FlagSet) (setFuel : Bool) (a : List TBlock) (ib : Nat) (b : TBlock) (j : Nat)
    (hb : a[ib]? = some b) (k : Nat) :
    isTarget F setFuel (a.set ib (designate b j)) ib k = (k == j) := by
  have hlt : ib < a.length := by
    by_contra h
    rw [List.getElem?_eq_none (not_lt.mp h)] at hb; cases hb
  simp [isTarget, setTargets, List.getElem?_map, List.getElem?_set, hlt, setTarget_designate]

/-- a block has at most one target -/
theorem isTarget_unique (F : FlagSet) (setFuel : Bool) (a : List TBlock) (ib i j : Nat)
    (hi : isTarget F setFuel a ib i = true) (hj : isTarget F setFuel a ib j = true) : i = j := by
  unfold isTarget at hi hj
  cases h : (setTargets F setFuel a)[ib]? with
  | none => simp [h] at hi
  | some r =>
    cases r with
    | noTarget => simp [h] at hi
    | error => simp [h] at hi
    | target t =>
      simp only [h, beq_iff_eq] at hi hj
      rw [hi, hj]

/-- re-designating one block leaves the targets of all other blocks as they are -/
theorem setTargets_frame (F : FlagSet) (setFuel : Bool) (a : List TBlock) (ib ib' : Nat) (b' : TBlock) (h : ib ≠ ib') :
    (setTargets F setFuel (a.set ib b'))[ib']? = (setTargets F setFuel a)[ib']? := by
  simp [setTargets, List.getElem?_map, List.getElem?_set, h]

example : isTarget ⟨1, 2, 4, 8, 16, [8]⟩ true [designate (designate ⟨8, none, [⟨8, true⟩, ⟨16, true⟩]⟩ 1) 0] 0 1 = false := by
  decide +kernel

/-! ### the linkage hypothesis of `target_mass_conserved_partial`, on the modelled linkage -/

open ArmiVerif.AxialExp in
/-- the inputs of one expansion with the linkage COMPUTED by the model from the component geometry -/
def inpOf (g : Nat → Nat → Rat) (geo : List (List Geo)) (targets : Nat → Option Nat) : Inp :=
  { g := g, lower := modelLower geo, target := targets }

open ArmiVerif.AxialExp in
/-- **`LowerIsLowerTarget` is decidable from the geometry**: when `alignedB` (computed from the modelled
`areAxiallyLinked` / `_findComponentLinkedTo` and the targets) holds for block `i + 1`, the hypothesis of
`target_mass_conserved_partial` holds for its target — so that theorem applies with no linkage taken on trust. -/
theorem lowerIsLowerTarget_of_geometry (g : Nat → Nat → Rat) (geo : List (List Geo)) (targets : Nat → Option Nat)
    (a : List Block) (i k : Nat) (ht : targets (i + 1) = some k)
    (h : alignedB geo targets (shape a) (i + 1) = true) :
    LowerIsLowerTarget (inpOf g geo targets) a (i + 1) k := by
  unfold alignedB at h
  rw [ht] at h
  simp only [Nat.add_sub_cancel, Bool.or_eq_true, beq_iff_eq, Nat.add_eq_zero_iff, Nat.succ_ne_zero, and_false,
    false_or] at h
  unfold LowerIsLowerTarget inpOf
  simp only []
  cases hl : modelLower geo (i + 1) k with
  | none => exact Or.inl rfl
  | some j =>
    rw [hl] at h
    simp only [Bool.and_eq_true, beq_iff_eq, decide_eq_true_eq] at h
    obtain ⟨htj, hj⟩ := h
    right
    have hlen : i < a.length := by
      by_contra hge
      have : (shape a).getD i 0 = 0 := by
        unfold shape; simp [List.getD, List.getElem?_eq_none (by simpa using not_lt.mp hge)]
      omega
    have hb : a[i]? = some a[i] := by simp [hlen]
    have hsh : (shape a).getD i 0 = (a[i]).comps.length := by
      unfold shape; simp [List.getD, hlen]
    rw [hsh] at hj
    exact ⟨j, a[i], (a[i]).comps[j], rfl, htj, hb, by simp [hj]⟩

/-- the igniter-fuel assembly of armi/tests/detailedAxialExpansion (solid components, cold bounding diameters
rounded to 1e-3; classes 1 = Circle, 2 = Helix, 3 = Hexagon): grid plate, axial shield, 3 × fuel, plenum,
ACLP plenum, plenum, duct, (dummy) -/
def igniterFuelGeo : List (List Geo) :=
  let pin (i o : Rat) : Geo := ⟨true, false, 1, 169, i, o⟩
  let wire : Geo := ⟨true, false, 2, 169, 109/100, 1291/1000⟩
  let duct : Geo := ⟨true, false, 3, 1, 18475/1000, 19168/1000⟩
  let fuelBlk := [pin 0 (866/1000), pin 1 (109/100), wire, duct]
  let plen := [pin 1 (109/100), wire, duct]
  [[⟨true, false, 3, 1, 17640/1000, 19141/1000⟩], fuelBlk, fuelBlk, fuelBlk, fuelBlk, plen, plen, plen, [duct], []]

/-- **for which blocks of the fixture stack the hypothesis holds** (every target is solid 0 of its block):
all but the first plenum block (clad stacked on the fuel block's clad, whose target is the fuel) and the duct
block (duct stacked on the plenum's duct, whose target is the clad) — exactly the two blocks of known finding F9 -/
example : (List.range 9).map (alignedB igniterFuelGeo (fun i => if i < 9 then some 0 else none) [1, 4, 4, 4, 4, 3, 3, 3, 1, 0])
    = [true, true, true, true, true, false, true, true, false] := by decide +kernel

/-- the modelled linkage of that stack (lower, upper) per solid component -/
example : (linkAssembly none igniterFuelGeo).map (fun l => l.map (fun b => b.map (·.1)))
    = some [[none], [none, none, none, some 0], [some 0, some 1, some 2, some 3], [some 0, some 1, some 2, some 3],
            [some 0, some 1, some 2, some 3], [some 1, some 2, some 3], [some 0, some 1, some 2],
            [some 0, some 1, some 2], [some 2], []] := by decide +kernel

end ArmiVerif.Linkage
