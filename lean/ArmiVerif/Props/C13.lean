/-
C13 — third-core ↔ full-core conversion and edge assemblies multiply and restore the core exactly.
Theorems over Model/Sym3.lean (transcription of ThirdCoreHexToFullCoreChanger / EdgeAssemblyChanger).
Main statements: `sector_covers`, `orbits_disjoint`, `inFirstThird_false_iff`, `inFirstThird_true_iff`,
`full_cells_are_orbits`, `convert_never_collides`, `count_times_three`, `par_totals_times_three`,
`geo_totals_times_three`, `copies_rotated_into_place`, `copies_independent_named`, `restore_convert`,
`removeEdge_addEdge_id`, `addEdge_adds_images`.  The other lemmas are the stepping stones (loop invariants).
Below block level (pin lattices, their owners, pins; Model/Sym3.lean `Sub`): `copyBlock_pins`, `convert_copies_below`,
`subLoop_keys`, `subStep_extends`, `no_shared_node`, `clean_run`, `sources_untouched_run`, `convert_entries_visible`,
`pin_global_turn_120`, `pin_global_turn_240` (Euclidean: global pin positions of a copy = the source's rotated).
Boundary data / orientation of copies of pre-rotated sources: `copyBlock_boundary`, `rotBoundary_two`, `rotBoundary_four`,
`convert_copies_boundary`. Redundant calls on the same changers: `redundant_call_noop`, `restore_convert_convert`,
`restore_restore`, `removeEdge_removeEdge`, `addEdge_again`.
Value level of the centre scaling: `scaleVal_down_up`, `scaleBlockVals_down_up`, `scaleVal_up_sum`.
-/
import ArmiVerif.Model.Sym3
import Mathlib.Data.List.Nodup
import Mathlib.Tactic.Ring
import Mathlib.Tactic.Linarith
import Mathlib.Data.Rat.Defs
import Mathlib.Tactic.FieldSimp
import Mathlib.Tactic.LinearCombination
import Mathlib.Algebra.Field.Basic
namespace ArmiVerif.Sym3
open ArmiVerif.Hex List

def orbit (c : Cell) : List Cell := c :: sym3 c

private theorem sym3_eq (c : Cell) (h : isCentre c = false) :
    sym3 c = [(-c.1 - c.2, c.1), (c.2, -c.1 - c.2)] := by
  unfold sym3; simp [isCentre] at h ⊢; intro h1 h2; exact absurd h2 (h h1)

private theorem sym3_centre (c : Cell) (h : isCentre c = true) : sym3 c = [] := by
  unfold sym3; simp [isCentre] at h; simp [h.1, h.2]

theorem sym3_are_rotations (c : Cell) (h : isCentre c = false) :
    sym3 c = [rotateIndex 2 c, rotateIndex 4 c] := by
  rw [sym3_eq c h]; simp [rotateIndex]; omega

theorem orbit_nodup (c : Cell) : (orbit c).Nodup := by
  unfold orbit
  cases h : isCentre c
  · rw [sym3_eq c h]
    obtain ⟨i, j⟩ := c
    simp [isCentre] at h
    simp; omega
  · rw [sym3_centre c h]; simp

theorem inFirstThird_false_iff (i j : Int) : inFirstThird false (i, j) = sector (i, j) := by
  rw [Bool.eq_iff_iff]
  unfold inFirstThird sector isCentre toRingPos ero positionsInRing
  simp only [Bool.or_eq_true, decide_eq_true_eq]
  repeat' split
  all_goals simp only [decide_eq_true_eq, Bool.false_eq_true] at *
  all_goals first | omega | (simp only [true_iff]; omega)

theorem inFirstThird_true_iff (i j : Int) : inFirstThird true (i, j) = inDomain (i, j) := by
  rw [Bool.eq_iff_iff]
  unfold inFirstThird inDomain sector on120 isCentre toRingPos ero positionsInRing
  simp only [Bool.or_eq_true, decide_eq_true_eq]
  repeat' split
  all_goals simp only [decide_eq_true_eq] at *
  all_goals first | omega | (simp only [true_iff]; omega) | exact absurd trivial ‹¬True›

/-- images of a sector cell leave the sector -/
theorem sector_images_outside (c : Cell) (hs : sector c = true) (hc : isCentre c = false) :
    ∀ x ∈ sym3 c, sector x = false := by
  rw [sym3_eq c hc]
  obtain ⟨i, j⟩ := c
  simp [sector, isCentre] at hs hc ⊢
  omega

theorem orbits_disjoint (c d : Cell) (hc : sector c = true) (hd : sector d = true) (hne : c ≠ d) :
    List.Disjoint (orbit c) (orbit d) := by
  intro x hx hy
  unfold orbit at hx hy
  obtain ⟨i, j⟩ := c
  obtain ⟨k, l⟩ := d
  obtain ⟨a, b⟩ := x
  cases h1 : isCentre (i, j) <;> cases h2 : isCentre (k, l)
  all_goals
    first
    | rw [sym3_eq _ h1] at hx
    | rw [sym3_centre _ h1] at hx
  all_goals
    first
    | rw [sym3_eq _ h2] at hy
    | rw [sym3_centre _ h2] at hy
  all_goals
    simp [sector, isCentre] at hc hd h1 h2 hx hy hne
    omega

theorem sector_covers (x : Cell) : ∃ c, sector c = true ∧ x ∈ orbit c := by
  obtain ⟨a, b⟩ := x
  by_cases h0 : a = 0 ∧ b = 0
  · exact ⟨(0, 0), by decide, by simp [orbit, h0.1, h0.2]⟩
  · by_cases hA : a + 2 * b ≥ 0 ∧ 2 * a + b > 0
    · exact ⟨(a, b), by simp [sector]; right; exact hA, by simp [orbit]⟩
    · by_cases hB : a + 2 * b < 0 ∧ 2 * a + b ≥ a + 2 * b
      · -- x = rot2 c with c = rot4 x = (b, -a-b)
        refine ⟨(-a - b, a), by simp [sector]; right; omega, ?_⟩
        have hc : isCentre (-a - b, a) = false := by simp [isCentre]; omega
        unfold orbit; rw [sym3_eq _ hc]; simp
      · refine ⟨(b, -a - b), by simp [sector]; right; omega, ?_⟩
        have hc : isCentre (b, -a - b) = false := by simp [isCentre]; omega
        unfold orbit; rw [sym3_eq _ hc]; simp; omega

/-! ### the conversion loop -/

private theorem mkCopies_cells (a : Assem) (n k : Int) (cs : List Cell) :
    (mkCopies a n k cs).map (·.cell) = cs := by
  induction cs generalizing n k with
  | nil => rfl
  | cons c cs ih => simp [mkCopies, ih]

private theorem mkCopies_length (a : Assem) (n k : Int) (cs : List Cell) :
    (mkCopies a n k cs).length = cs.length := by
  rw [← List.length_map (f := (·.cell)), mkCopies_cells]

private theorem mkCopies_ids (a : Assem) (n k : Int) (cs : List Cell) :
    ∀ b ∈ mkCopies a n k cs, n ≤ b.id ∧ b.id < n + cs.length := by
  induction cs generalizing n k with
  | nil => simp [mkCopies]
  | cons c cs ih =>
    intro b hb
    simp only [mkCopies, List.mem_cons] at hb
    rcases hb with rfl | hb
    · simp
    · have := ih (n + 1) (k + 1) b hb
      simp only [List.length_cons]; omega

private theorem mkCopies_ids_nodup (a : Assem) (n k : Int) (cs : List Cell) :
    ((mkCopies a n k cs).map (·.id)).Nodup := by
  induction cs generalizing n k with
  | nil => simp [mkCopies]
  | cons c cs ih =>
    simp only [mkCopies, List.map_cons, List.nodup_cons]
    refine ⟨?_, ih _ _⟩
    intro hmem
    obtain ⟨b, hb, hid⟩ := List.mem_map.1 hmem
    have := (mkCopies_ids a (n + 1) (k + 1) cs b hb).1
    omega

private theorem mkCopies_payload (a : Assem) (n k : Int) (cs : List Cell) :
    ∀ b ∈ mkCopies a n k cs, b.src = a.src ∧ b.geo = a.geo ∧ b.par = a.par := by
  induction cs generalizing n k with
  | nil => simp [mkCopies]
  | cons c cs ih =>
    intro b hb
    simp only [mkCopies, List.mem_cons] at hb
    rcases hb with rfl | hb
    · simp
    · exact ih _ _ b hb

private theorem convLoop_cells (l : List Assem) (n : Int) (f cl : Bool) :
    (convLoop l n f cl).copies.map (·.cell) = l.flatMap (fun a => sym3 a.cell) := by
  induction l generalizing n f cl with
  | nil => rfl
  | cons a l ih =>
    simp only [convLoop, List.flatMap_cons]
    split <;> simp [mkCopies_cells, ih]

private theorem convLoop_next (l : List Assem) (n : Int) (f cl : Bool) :
    (convLoop l n f cl).next = n + (convLoop l n f cl).copies.length := by
  induction l generalizing n f cl with
  | nil => simp [convLoop]
  | cons a l ih =>
    simp only [convLoop]
    split <;> simp only [List.length_append] <;> rw [ih] <;> push_cast <;> ring

private theorem convLoop_ids (l : List Assem) (n : Int) (f cl : Bool) :
    (∀ b ∈ (convLoop l n f cl).copies, n ≤ b.id ∧ b.id < (convLoop l n f cl).next) ∧
    ((convLoop l n f cl).copies.map (·.id)).Nodup := by
  induction l generalizing n f cl with
  | nil => simp [convLoop]
  | cons a l ih =>
    have key : ∀ cl', (∀ b ∈ mkCopies a n 1 (sym3 a.cell) ++ (convLoop l (n + (mkCopies a n 1 (sym3 a.cell)).length)
          (f || !(mkCopies a n 1 (sym3 a.cell)).isEmpty) cl').copies,
        n ≤ b.id ∧ b.id < (convLoop l (n + (mkCopies a n 1 (sym3 a.cell)).length)
          (f || !(mkCopies a n 1 (sym3 a.cell)).isEmpty) cl').next) ∧
        ((mkCopies a n 1 (sym3 a.cell) ++ (convLoop l (n + (mkCopies a n 1 (sym3 a.cell)).length)
          (f || !(mkCopies a n 1 (sym3 a.cell)).isEmpty) cl').copies).map (·.id)).Nodup := by
      intro cl'
      obtain ⟨h1, h2⟩ := ih (n + (mkCopies a n 1 (sym3 a.cell)).length)
        (f || !(mkCopies a n 1 (sym3 a.cell)).isEmpty) cl'
      have hn := convLoop_next l (n + (mkCopies a n 1 (sym3 a.cell)).length)
        (f || !(mkCopies a n 1 (sym3 a.cell)).isEmpty) cl'
      have hm := mkCopies_ids a n 1 (sym3 a.cell)
      rw [mkCopies_length] at *
      constructor
      · intro b hb
        rcases List.mem_append.1 hb with hb | hb
        · have := hm b hb; omega
        · have := h1 b hb; omega
      · rw [List.map_append, List.nodup_append]
        refine ⟨mkCopies_ids_nodup _ _ _ _, h2, ?_⟩
        intro x hx y hy
        obtain ⟨b, hb, rfl⟩ := List.mem_map.1 hx
        obtain ⟨c, hc, rfl⟩ := List.mem_map.1 hy
        have := hm b hb; have := h1 c hc; omega
    simp only [convLoop]
    split
    · exact key _
    · exact key _

/-! ### convert -/

/-- the third-core assemblies that take part in the conversion (edge assemblies removed first) -/
def base (s : State) : List Assem := s.kids.filter (fun a => !on120 a.cell)

def loopOut (s : State) : LoopOut :=
  convLoop ((base s).mergeSort leJI) s.next (s.flag || s.kids.any (fun a => on120 a.cell)) s.convList

private theorem convert_kids (s : State) (hf : s.full = false) :
    (convert s).kids = (base s).map (fun a => if isCentre a.cell && (loopOut s).scaled then scalePar 3 a else a)
      ++ (loopOut s).copies := by
  simp [convert, removeEdgeCore, hf, base, loopOut]

private theorem sorted_perm (s : State) : (base s).mergeSort leJI ~ base s := List.mergeSort_perm _ _

private theorem perm_orbits {α β} (f : α → β) (g : α → List β) (l : List α) :
    l.map f ++ l.flatMap g ~ l.flatMap (fun a => f a :: g a) := by
  induction l with
  | nil => simp
  | cons a l ih =>
    simp only [List.map_cons, List.flatMap_cons, List.cons_append]
    refine List.Perm.cons _ ?_
    refine (List.perm_append_comm_assoc _ _ _).trans ?_
    exact List.Perm.append_left _ ih

private theorem convert_cells_perm (s : State) (hf : s.full = false) :
    (convert s).kids.map (·.cell) ~ (base s).flatMap (fun a => orbit a.cell) := by
  rw [convert_kids s hf, List.map_append]
  unfold loopOut
  rw [convLoop_cells]
  have h1 : ∀ sc : Bool, ((base s).map (fun a => if isCentre a.cell && sc then scalePar 3 a else a)).map (·.cell)
      = (base s).map (·.cell) := by
    intro sc
    rw [List.map_map]; apply List.map_congr_left; intro a _; simp only [Function.comp]; split <;> rfl
  rw [h1]
  refine (List.Perm.append_left _ ((sorted_perm s).flatMap_right _)).trans ?_
  exact perm_orbits (·.cell) (fun a => sym3 a.cell) (base s)

private theorem base_sector (s : State) (hdom : ∀ a ∈ s.kids, inDomain a.cell = true) :
    ∀ a ∈ base s, sector a.cell = true := by
  intro a ha
  simp only [base, List.mem_filter] at ha
  have := hdom a ha.1
  simp [inDomain] at this ha
  rcases this with h | h
  · exact h
  · rw [ha.2] at h; exact absurd h (by simp)

/-- **The full core consists exactly of the 120° orbits of the third-core cells: no two copies
collide (so no `Core.add` inside `convert` finds its cell occupied) and nothing is missing.** -/
theorem full_cells_are_orbits (s : State) (hf : s.full = false)
    (hdom : ∀ a ∈ s.kids, inDomain a.cell = true) (hnd : (s.kids.map (·.cell)).Nodup) :
    ((convert s).kids.map (·.cell)).Nodup ∧
    ∀ x, x ∈ (convert s).kids.map (·.cell) ↔ ∃ a ∈ base s, x ∈ orbit a.cell := by
  have hp := convert_cells_perm s hf
  constructor
  · rw [hp.nodup_iff, List.nodup_flatMap]
    refine ⟨fun a _ => orbit_nodup _, ?_⟩
    have hb : ((base s).map (·.cell)).Nodup := hnd.sublist ((List.filter_sublist (l := s.kids)).map _)
    rw [List.Nodup, List.pairwise_map] at hb
    exact hb.imp_of_mem (fun {a b} ha hb' hne =>
      orbits_disjoint a.cell b.cell (base_sector s hdom a ha) (base_sector s hdom b hb') hne)
  · intro x; rw [hp.mem_iff, List.mem_flatMap]

theorem convert_never_collides (s : State) (hf : s.full = false)
    (hdom : ∀ a ∈ s.kids, inDomain a.cell = true) (hnd : (s.kids.map (·.cell)).Nodup) :
    convertCollides s = false := by
  simp [convertCollides, (full_cells_are_orbits s hf hdom hnd).1]

private theorem convLoop_length (l : List Assem) (n : Int) (f cl : Bool) :
    (convLoop l n f cl).copies.length + 2 * l.countP (fun a => isCentre a.cell) = 2 * l.length := by
  induction l generalizing n f cl with
  | nil => simp [convLoop]
  | cons a l ih =>
    simp only [convLoop]
    cases hc : isCentre a.cell
    · have := ih (n + (mkCopies a n 1 (sym3 a.cell)).length) (f || !(mkCopies a n 1 (sym3 a.cell)).isEmpty) cl
      simp [mkCopies_length, sym3_eq _ hc, hc] at this ⊢; omega
    · have := ih (n + (mkCopies a n 1 (sym3 a.cell)).length) (f || !(mkCopies a n 1 (sym3 a.cell)).isEmpty)
        (cl || (f || !(mkCopies a n 1 (sym3 a.cell)).isEmpty))
      simp [mkCopies_length, sym3_centre _ hc, hc] at this ⊢; omega

/-- **count: three times the third-core count, the centre assembly counting once.** -/
theorem count_times_three (s : State) (hf : s.full = false) :
    (convert s).kids.length + 2 * (base s).countP (fun a => isCentre a.cell) = 3 * (base s).length := by
  rw [convert_kids s hf, List.length_append, List.length_map]
  have := convLoop_length ((base s).mergeSort leJI) s.next (s.flag || s.kids.any (fun a => on120 a.cell)) s.convList
  rw [(sorted_perm s).countP_eq, (sorted_perm s).length_eq] at this
  unfold loopOut; omega

/-- with one assembly per cell the centre correction is 0 or 2 -/
theorem centre_count_le_one (s : State) (hnd : (s.kids.map (·.cell)).Nodup) :
    (base s).countP (fun a => isCentre a.cell) ≤ 1 := by
  have hb : ((base s).map (·.cell)).Nodup := hnd.sublist ((List.filter_sublist (l := s.kids)).map _)
  have h1 : (base s).countP (fun a => isCentre a.cell) = ((base s).map (·.cell)).count (0, 0) := by
    rw [List.count, List.countP_map]; apply List.countP_congr; intro a _
    simp [isCentre, Prod.ext_iff]
  rw [h1]; exact List.nodup_iff_count_le_one.1 hb _

/-! ### totals -/

private theorem sum_map_perm {l₁ l₂ : List Assem} (f : Assem → Rat) (h : l₁ ~ l₂) :
    (l₁.map f).sum = (l₂.map f).sum := by
  induction h with
  | nil => rfl
  | cons a _ ih => simp [ih]
  | swap a b l => simp only [List.map_cons, List.sum_cons]; ring
  | trans _ _ ih1 ih2 => exact ih1.trans ih2

private theorem sum_map_add (l : List Assem) (f g : Assem → Rat) :
    (l.map f).sum + (l.map g).sum = (l.map (fun a => f a + g a)).sum := by
  induction l with
  | nil => simp
  | cons a l ih => simp only [List.map_cons, List.sum_cons, ← ih]; ring

private theorem sum_map_mul (l : List Assem) (f : Assem → Rat) (q : Rat) :
    q * (l.map f).sum = (l.map (fun a => q * f a)).sum := by
  induction l with
  | nil => simp
  | cons a l ih => simp only [List.map_cons, List.sum_cons, ← ih]; ring

private theorem getD_map_mul (l : List Rat) (q : Rat) (k : Nat) :
    (l.map (fun x => x * q)).getD k 0 = l.getD k 0 * q := by
  simp only [List.getD_eq_getElem?_getD, List.getElem?_map]
  cases l[k]? <;> simp

private theorem mkCopies_sum (a : Assem) (n c : Int) (cs : List Cell) (g : Assem → Rat)
    (hg : ∀ b : Assem, b.geo = a.geo → b.par = a.par → g b = g a) :
    ((mkCopies a n c cs).map g).sum = cs.length * g a := by
  induction cs generalizing n c with
  | nil => simp [mkCopies]
  | cons x cs ih =>
    simp only [mkCopies, List.map_cons, List.sum_cons, ih, List.length_cons]
    rw [hg { a with id := n, cell := x, orient := a.orient + c * 120 } rfl rfl]; push_cast; ring

private theorem convLoop_sum (l : List Assem) (n : Int) (f cl : Bool) (g : Assem → Rat)
    (hg : ∀ a b : Assem, b.geo = a.geo → b.par = a.par → g b = g a) :
    ((convLoop l n f cl).copies.map g).sum = (l.map (fun a => if isCentre a.cell then 0 else 2 * g a)).sum := by
  induction l generalizing n f cl with
  | nil => simp [convLoop]
  | cons a l ih =>
    simp only [convLoop]
    cases hc : isCentre a.cell
    · simp [ih, mkCopies_sum a _ _ _ g (hg a), sym3_eq _ hc, hc]
    · simp [ih, sym3_centre _ hc, hc, mkCopies]

private theorem convLoop_scaled (l : List Assem) (n : Int) (f cl : Bool) (h : f = true ∨ cl = true)
    (hc : ∃ a ∈ l, isCentre a.cell = true) :
    (convLoop l n f cl).scaled = true ∧ (convLoop l n f cl).convList = true := by
  induction l generalizing n f cl with
  | nil => simp at hc
  | cons a l ih =>
    simp only [convLoop]
    cases hca : isCentre a.cell
    · simp only [Bool.false_eq_true, if_false]
      obtain ⟨b, hb, hbc⟩ := hc
      rcases List.mem_cons.1 hb with rfl | hb
      · rw [hca] at hbc; exact absurd hbc (by simp)
      · exact ih _ _ _ (by rcases h with h | h <;> simp [h]) ⟨b, hb, hbc⟩
    · simp only [if_true]
      have h1 : (cl || (f || !(mkCopies a n 1 (sym3 a.cell)).isEmpty)) = true := by
        rcases h with h | h <;> simp [h]
      rw [h1]
      refine ⟨by simp, ?_⟩
      clear ih hc
      -- convList never goes back to false
      have mono : ∀ (l : List Assem) (n : Int) (f : Bool), (convLoop l n f true).convList = true := by
        intro l; induction l with
        | nil => intros; rfl
        | cons a l ih => intro n f; simp only [convLoop]; split <;> simp [ih]
      exact mono _ _ _

/-- the flag/list state under which `convert` multiplies the centre assembly's parameters -/
def scalesCentre (s : State) : Bool := s.flag || s.convList || s.kids.any (fun a => on120 a.cell)

private theorem loopOut_scaled (s : State) (h : scalesCentre s = true) (hc : ∃ a ∈ base s, isCentre a.cell = true) :
    (loopOut s).scaled = true ∧ (loopOut s).convList = true := by
  unfold loopOut
  apply convLoop_scaled
  · simp only [scalesCentre, Bool.or_eq_true] at h
    rcases h with (h | h) | h
    · left; simp [h]
    · right; exact h
    · left; simp only [Bool.or_eq_true]; right; exact h
  · obtain ⟨a, ha, hac⟩ := hc
    exact ⟨a, (sorted_perm s).mem_iff.2 ha, hac⟩

private theorem mapped_sum (s : State) (h : scalesCentre s = true) (g : Assem → Rat) :
    (((base s).map (fun a => if isCentre a.cell && (loopOut s).scaled then scalePar 3 a else a)).map g).sum
      = ((base s).map (fun a => if isCentre a.cell then g (scalePar 3 a) else g a)).sum := by
  rw [List.map_map]
  congr 1
  apply List.map_congr_left
  intro a ha
  simp only [Function.comp]
  cases hc : isCentre a.cell
  · simp
  · rw [(loopOut_scaled s h ⟨a, ha, hc⟩).1]; simp

/-- **every stored volume-integrated total is three times the third-core value** (centre counted once:
it is multiplied by 3 instead of being copied). Hypothesis `scalesCentre`: the parameter definitions
carry the "changed since last geometry transformation" flag (see finding `centre-params-not-scaled`). -/
theorem par_totals_times_three (s : State) (hf : s.full = false) (h : scalesCentre s = true) (k : Nat) :
    parTotal (convert s).kids k = 3 * parTotal (base s) k := by
  unfold parTotal
  rw [convert_kids s hf, List.map_append, List.sum_append, mapped_sum s h]
  unfold loopOut
  rw [convLoop_sum _ _ _ _ (fun a => a.par.getD k 0) (fun a b _ hp => by simp [hp]),
    sum_map_perm _ (sorted_perm s), sum_map_add, sum_map_mul]
  congr 1
  apply List.map_congr_left
  intro a _
  cases hc : isCentre a.cell
  · simp; ring
  · simp only [scalePar, getD_map_mul, if_true]; ring

private theorem convert_full (s : State) (hf : s.full = false) : (convert s).full = true := by
  simp [convert, hf]

private theorem base_not_occupied_edge (s : State) : occupied (base s) (-1, 2) = false := by
  simp only [occupied, List.any_eq_false, base, List.mem_filter]
  intro a ha hcell
  simp at hcell
  rw [hcell] at ha
  simp [on120] at ha

/-- **mass of every nuclide and volume are three times the third-core values** (the centre
assembly is cut to a third by the symmetry factor in the third core and whole in the full core). -/
theorem geo_totals_times_three (s : State) (hf : s.full = false) (k : Nat) :
    geoTotal (convert s) k = 3 * geoTotal (removeEdgeCore s) k := by
  have hL : geoTotal (convert s) k = ((convert s).kids.map (fun a => a.geo.getD k 0)).sum := by
    unfold geoTotal; congr 1; apply List.map_congr_left; intro a _
    simp [symF, convert_full s hf]
  have hR : geoTotal (removeEdgeCore s) k
      = ((base s).map (fun a => if isCentre a.cell then a.geo.getD k 0 / 3 else a.geo.getD k 0)).sum := by
    have hk : (removeEdgeCore s).kids = base s := by simp [removeEdgeCore, hf, base]
    have hfl : (removeEdgeCore s).full = false := by simp [removeEdgeCore, hf]
    unfold geoTotal; rw [hk, hfl]; congr 1; apply List.map_congr_left; intro a _
    simp only [symF, base_not_occupied_edge, Bool.and_false, Bool.false_eq_true, if_false]
    split <;> simp
  rw [hL, hR, convert_kids s hf, List.map_append, List.sum_append]
  have hm : (((base s).map (fun a => if isCentre a.cell && (loopOut s).scaled then scalePar 3 a else a)).map
      (fun a => a.geo.getD k 0)).sum = ((base s).map (fun a => a.geo.getD k 0)).sum := by
    rw [List.map_map]; congr 1; apply List.map_congr_left; intro a _
    simp only [Function.comp]; split <;> simp [scalePar]
  rw [hm]
  unfold loopOut
  rw [convLoop_sum _ _ _ _ (fun a => a.geo.getD k 0) (fun a b hg _ => by simp [hg]),
    sum_map_perm _ (sorted_perm s), sum_map_add, sum_map_mul]
  congr 1
  apply List.map_congr_left
  intro a _
  cases hc : isCentre a.cell
  · simp; ring
  · simp; ring

/-! ### names, payloads, rotation of the copies -/

private theorem convLoop_copies_spec (l : List Assem) (n : Int) (f cl : Bool) :
    ∀ b ∈ (convLoop l n f cl).copies, ∃ a ∈ l, isCentre a.cell = false ∧
      b.src = a.src ∧ b.geo = a.geo ∧ b.par = a.par ∧
      ((b.cell = rotateIndex 2 a.cell ∧ b.orient = a.orient + 120) ∨
       (b.cell = rotateIndex 4 a.cell ∧ b.orient = a.orient + 240)) := by
  induction l generalizing n f cl with
  | nil => simp [convLoop]
  | cons a l ih =>
    intro b hb
    have key : b ∈ mkCopies a n 1 (sym3 a.cell) → ∃ a' ∈ a :: l, isCentre a'.cell = false ∧
        b.src = a'.src ∧ b.geo = a'.geo ∧ b.par = a'.par ∧
        ((b.cell = rotateIndex 2 a'.cell ∧ b.orient = a'.orient + 120) ∨
         (b.cell = rotateIndex 4 a'.cell ∧ b.orient = a'.orient + 240)) := by
      intro hb
      cases hc : isCentre a.cell
      · refine ⟨a, List.mem_cons_self, hc, ?_⟩
        rw [sym3_are_rotations _ hc] at hb
        simp only [mkCopies, List.mem_cons, List.not_mem_nil, or_false] at hb
        rcases hb with rfl | rfl <;> simp
      · rw [sym3_centre _ hc] at hb; simp [mkCopies] at hb
    simp only [convLoop] at hb
    split at hb
    all_goals
      simp only [List.mem_append] at hb
      rcases hb with hb | hb
      · exact key hb
      · obtain ⟨a', ha', h⟩ := ih _ _ _ b hb
        exact ⟨a', List.mem_cons_of_mem _ ha', h⟩

/-- **each new assembly is a copy of a third-core assembly (same payload, same additive
quantities), sits on the 120° / 240° image of its source cell and is rotated by that angle.** -/
theorem copies_rotated_into_place (s : State) (hf : s.full = false) :
    ∀ b ∈ (convert s).kids, (∃ a ∈ base s, b.id = a.id ∧ b.cell = a.cell ∧ b.src = a.src ∧ b.orient = a.orient ∧ b.geo = a.geo) ∨
      ∃ a ∈ base s, isCentre a.cell = false ∧ b.src = a.src ∧ b.geo = a.geo ∧ b.par = a.par ∧
        ((b.cell = rotateIndex 2 a.cell ∧ b.orient = a.orient + 120) ∨
         (b.cell = rotateIndex 4 a.cell ∧ b.orient = a.orient + 240)) := by
  intro b hb
  rw [convert_kids s hf, List.mem_append] at hb
  rcases hb with hb | hb
  · left
    obtain ⟨a, ha, rfl⟩ := List.mem_map.1 hb
    refine ⟨a, ha, ?_⟩
    split <;> simp [scalePar]
  · right
    obtain ⟨a, ha, h⟩ := convLoop_copies_spec _ _ _ _ b hb
    exact ⟨a, (sorted_perm s).mem_iff.1 ha, h⟩

/-- **the new assemblies get fresh, pairwise distinct numbers (names); old ones keep theirs.** -/
theorem copies_independent_named (s : State) (hf : s.full = false)
    (hlt : ∀ a ∈ s.kids, a.id < s.next) (hnd : (s.kids.map (·.id)).Nodup) :
    ((convert s).kids.map (·.id)).Nodup ∧ (∀ b ∈ (loopOut s).copies, s.next ≤ b.id) ∧
      (convert s).next = s.next + (loopOut s).copies.length := by
  have hids := convLoop_ids ((base s).mergeSort leJI) s.next (s.flag || s.kids.any (fun a => on120 a.cell)) s.convList
  have hn := convLoop_next ((base s).mergeSort leJI) s.next (s.flag || s.kids.any (fun a => on120 a.cell)) s.convList
  refine ⟨?_, fun b hb => (hids.1 b hb).1, ?_⟩
  · rw [convert_kids s hf, List.map_append, List.nodup_append]
    have h1 : ∀ sc : Bool, ((base s).map (fun a => if isCentre a.cell && sc then scalePar 3 a else a)).map (·.id)
        = (base s).map (·.id) := by
      intro sc; rw [List.map_map]; apply List.map_congr_left; intro a _; simp only [Function.comp]; split <;> rfl
    rw [h1]
    refine ⟨hnd.sublist ((List.filter_sublist (l := s.kids)).map _), hids.2, ?_⟩
    intro x hx y hy
    obtain ⟨a, ha, rfl⟩ := List.mem_map.1 hx
    obtain ⟨b, hb, rfl⟩ := List.mem_map.1 hy
    have := hlt a (List.mem_filter.1 ha).1
    have := (hids.1 b hb).1
    omega
  · simp [convert, removeEdgeCore, hf]; exact hn

/-! ### restore -/

private theorem scalePar_inv (a : Assem) : scalePar (1 / 3) (scalePar 3 a) = a := by
  cases a with
  | mk aid cell src orient geo par =>
    simp only [scalePar, List.map_map, Assem.mk.injEq, true_and]
    conv_rhs => rw [← List.map_id par]
    apply List.map_congr_left
    intro x _
    show x * 3 * (1 / 3) = x
    ring

private theorem copies_nonempty (s : State) (hother : ∃ a ∈ base s, isCentre a.cell = false) :
    (loopOut s).copies ≠ [] := by
  intro h
  have hc := convLoop_cells ((base s).mergeSort leJI) s.next (s.flag || s.kids.any (fun a => on120 a.cell)) s.convList
  unfold loopOut at h
  rw [h] at hc
  obtain ⟨a, ha, hac⟩ := hother
  have hmem : (-a.cell.1 - a.cell.2, a.cell.1) ∈ ((base s).mergeSort leJI).flatMap (fun a => sym3 a.cell) := by
    rw [List.mem_flatMap]
    exact ⟨a, (sorted_perm s).mem_iff.2 ha, by rw [sym3_eq _ hac]; simp⟩
  rw [← hc] at hmem
  simp at hmem

/-- **undoing the conversion gives back the same assemblies at the same places with the same
parameters, in the same child order, third-core symmetry, empty changer bookkeeping, no error**
— for the third core *after* `convert`'s own edge-assembly removal (`base s`): when `s` had edge
assemblies they are not put back (finding F10 / `restore-loses-edge-assemblies`). The hypotheses name the
excluded points: a core of the centre assembly alone (`restore` does nothing), unflagged parameter
definitions (centre not scaled). A core without centre assembly is covered (nothing to rescale). -/
theorem restore_convert (s : State) (hf : s.full = false) (hca : s.convAdded = [])
    (hlt : ∀ a ∈ s.kids, a.id < s.next) (hsc : scalesCentre s = true)
    (hother : ∃ a ∈ base s, isCentre a.cell = false) :
    (restore (convert s)).kids = base s ∧ (restore (convert s)).full = false ∧
    (restore (convert s)).convAdded = [] := by
  have hids := convLoop_ids ((base s).mergeSort leJI) s.next (s.flag || s.kids.any (fun a => on120 a.cell)) s.convList
  have hkids := convert_kids s hf
  have hadded : (convert s).convAdded = (loopOut s).copies.map (·.id) := by
    simp [convert, removeEdgeCore, hf, hca, loopOut, base]
  have hcl : (convert s).convList = (loopOut s).convList := by simp [convert, removeEdgeCore, hf, loopOut, base]
  have hne : (convert s).convAdded.isEmpty = false := by
    rw [hadded]; simp [copies_nonempty s hother]
  set mapped := (base s).map (fun a => if isCentre a.cell && (loopOut s).scaled then scalePar 3 a else a) with hmapped
  -- the filter keeps exactly the old assemblies
  have hfilter : (convert s).kids.filter (fun a => !(convert s).convAdded.contains a.id) = mapped := by
    rw [hkids, hadded, List.filter_append]
    have h1 : mapped.filter (fun a => !((loopOut s).copies.map (·.id)).contains a.id) = mapped := by
      rw [List.filter_eq_self]
      intro b hb
      obtain ⟨a, ha, rfl⟩ := List.mem_map.1 hb
      have hid : (if isCentre a.cell && (loopOut s).scaled then scalePar 3 a else a).id = a.id := by split <;> rfl
      have halt := hlt a (List.mem_filter.1 ha).1
      simp only [Bool.not_eq_true', List.contains_eq_mem, decide_eq_false_iff_not, List.mem_map, not_exists, not_and, hid]
      intro c hc heq
      have := (hids.1 c hc).1
      omega
    have h2 : (loopOut s).copies.filter (fun a => !((loopOut s).copies.map (·.id)).contains a.id) = [] := by
      rw [List.filter_eq_nil_iff]
      intro b hb
      simp only [Bool.not_eq_true', List.contains_eq_mem, decide_eq_false_iff_not, not_not]
      exact List.mem_map.2 ⟨b, hb, rfl⟩
    rw [h1, h2, List.append_nil]
  have hback : mapped.map (fun a => if isCentre a.cell && (convert s).convList then scalePar (1 / 3) a else a)
      = base s := by
    rw [hmapped, List.map_map]
    conv_rhs => rw [← List.map_id (base s)]
    apply List.map_congr_left
    intro a ha
    simp only [Function.comp, id]
    cases hc : isCentre a.cell
    · simp [hc]
    · obtain ⟨hscaled, hlist⟩ := loopOut_scaled s hsc ⟨a, ha, hc⟩
      have : isCentre (scalePar 3 a).cell = true := hc
      simp only [hscaled, Bool.and_true, if_true, this, hcl, hlist]; exact scalePar_inv a
  unfold restore
  simp only [hne, Bool.not_false, if_true, hfilter, hback]
  simp

/-! ### edge assemblies -/

private theorem addEdgeLoop_spec (l : List Assem) (s : State) (hl : ∀ a ∈ l, on0 a.cell = true) :
    (addEdgeLoop l s).full = s.full ∧
    ∃ extra, (addEdgeLoop l s).kids = s.kids ++ extra ∧ (∀ b ∈ extra, on120 b.cell = true) ∧
      (∀ b ∈ extra, ∃ a ∈ l, b.src = a.src ∧ b.geo = a.geo ∧ b.orient = a.orient ∧ b.cell ∈ sym3 a.cell) := by
  induction l generalizing s with
  | nil => exact ⟨rfl, [], by simp [addEdgeLoop], by simp, by simp⟩
  | cons a l ih =>
    have hl' : ∀ a ∈ l, on0 a.cell = true := fun b hb => hl b (List.mem_cons_of_mem _ hb)
    have lift : ∀ {s' : State} {pre : List Assem}, s'.full = s.full → s'.kids = s.kids ++ pre →
        (∀ b ∈ pre, on120 b.cell = true) →
        (∀ b ∈ pre, ∃ a' ∈ a :: l, b.src = a'.src ∧ b.geo = a'.geo ∧ b.orient = a'.orient ∧ b.cell ∈ sym3 a'.cell) →
        (addEdgeLoop l s').full = s.full ∧
        ∃ extra, (addEdgeLoop l s').kids = s.kids ++ extra ∧ (∀ b ∈ extra, on120 b.cell = true) ∧
          (∀ b ∈ extra, ∃ a' ∈ a :: l, b.src = a'.src ∧ b.geo = a'.geo ∧ b.orient = a'.orient ∧ b.cell ∈ sym3 a'.cell) := by
      intro s' pre hfull hk hpre hsrc
      obtain ⟨h1, extra, h2, h3, h4⟩ := ih s' hl'
      refine ⟨h1.trans hfull, pre ++ extra, by rw [h2, hk, List.append_assoc], ?_, ?_⟩
      · intro b hb; rcases List.mem_append.1 hb with hb | hb
        · exact hpre b hb
        · exact h3 b hb
      · intro b hb; rcases List.mem_append.1 hb with hb | hb
        · exact hsrc b hb
        · obtain ⟨a', ha', h⟩ := h4 b hb
          exact ⟨a', List.mem_cons_of_mem _ ha', h⟩
    have ha0 := hl a List.mem_cons_self
    have hnc : isCentre a.cell = false := by
      simp [on0, isCentre] at ha0 ⊢; omega
    simp only [addEdgeLoop, sym3_eq _ hnc]
    split
    · exact lift (pre := []) rfl (by simp) (by simp) (by simp)
    · refine lift (pre := [_]) rfl rfl ?_ ?_
      · intro b hb
        simp only [List.mem_singleton] at hb
        subst hb
        simp [on0, on120] at ha0 ⊢; omega
      · intro b hb
        simp only [List.mem_singleton] at hb
        subst hb
        exact ⟨a, List.mem_cons_self, rfl, rfl, rfl, by rw [sym3_eq _ hnc]; simp⟩

/-- **adding then removing edge assemblies returns the same assemblies at the same places with the same
parameters in the same order** (third core without edge assemblies, fresh changer). -/
theorem removeEdge_addEdge_id (s : State) (hf : s.full = false) (he : s.edgeAdded = [])
    (hno : ∀ a ∈ s.kids, on120 a.cell = false) :
    (removeEdge (addEdge s)).kids = s.kids ∧ (removeEdge (addEdge s)).full = false ∧
    (removeEdge (addEdge s)).edgeAdded = [] := by
  have hl : ∀ a ∈ (s.kids.filter (fun a => on0 a.cell)).mergeSort leI, on0 a.cell = true := by
    intro a ha
    have := (List.mergeSort_perm _ _).mem_iff.1 ha
    exact (List.mem_filter.1 this).2
  obtain ⟨h1, extra, h2, h3, _⟩ := addEdgeLoop_spec _ s hl
  have hfull : (addEdge s).full = false := by simp [addEdge, hf, he, h1]
  have hkids : (addEdge s).kids = s.kids ++ extra := by simp [addEdge, hf, he, h2]
  refine ⟨?_, ?_, ?_⟩
  · simp only [removeEdge, removeEdgeCore, hfull, Bool.false_eq_true, if_false, hkids, List.filter_append]
    have e1 : s.kids.filter (fun a => !on120 a.cell) = s.kids := by
      rw [List.filter_eq_self]; intro a ha; simp [hno a ha]
    have e2 : extra.filter (fun a => !on120 a.cell) = [] := by
      rw [List.filter_eq_nil_iff]; intro a ha; simp [h3 a ha]
    rw [e1, e2, List.append_nil]
  · simp [removeEdge, removeEdgeCore, hfull]
  · simp [removeEdge, removeEdgeCore, hfull]

/-- edge assemblies are copies of the assemblies on the 0° line placed on the 120° line -/
theorem addEdge_adds_images (s : State) (hf : s.full = false) (he : s.edgeAdded = []) :
    ∃ extra, (addEdge s).kids = s.kids ++ extra ∧
      ∀ b ∈ extra, on120 b.cell = true ∧ ∃ a ∈ s.kids, on0 a.cell = true ∧ b.src = a.src ∧ b.geo = a.geo ∧
        b.orient = a.orient ∧ b.cell ∈ sym3 a.cell := by
  have hl : ∀ a ∈ (s.kids.filter (fun a => on0 a.cell)).mergeSort leI, on0 a.cell = true := by
    intro a ha
    exact (List.mem_filter.1 ((List.mergeSort_perm _ _).mem_iff.1 ha)).2
  obtain ⟨_, extra, h2, h3, h4⟩ := addEdgeLoop_spec _ s hl
  refine ⟨extra, by simp [addEdge, hf, he, h2], ?_⟩
  intro b hb
  obtain ⟨a, ha, h⟩ := h4 b hb
  have ha' := List.mem_filter.1 ((List.mergeSort_perm _ _).mem_iff.1 ha)
  exact ⟨h3 b hb, a, ha'.1, ha'.2, h⟩

/-! ### non-vacuity: a 3-assembly third core (centre, a 0°-line cell, an interior cell) -/

def exCore : State :=
  ⟨[⟨0, (0, 0), 100, 0, [3], [1]⟩, ⟨1, (2, -1), 101, 0, [5], [1 / 2]⟩, ⟨2, (1, 0), 102, 0, [7], [1 / 4]⟩],
   false, 10, true, [], false, []⟩

example : exCore.full = false ∧ (∀ a ∈ exCore.kids, inDomain a.cell = true) ∧ (exCore.kids.map (·.cell)).Nodup ∧
    (∀ a ∈ exCore.kids, a.id < exCore.next) ∧ (exCore.kids.map (·.id)).Nodup ∧ scalesCentre exCore = true ∧
    (∃ a ∈ base exCore, isCentre a.cell = true) ∧ (∃ a ∈ base exCore, isCentre a.cell = false) ∧
    exCore.convAdded = [] ∧ exCore.edgeAdded = [] ∧ (∀ a ∈ exCore.kids, on120 a.cell = false) := by decide

example : (restore (convert exCore)).kids = base exCore :=
  (restore_convert exCore (by decide) (by decide) (by decide) (by decide) (by decide)).1

example : parTotal (convert exCore).kids 0 = 3 * parTotal (base exCore) 0 :=
  par_totals_times_three exCore (by decide) (by decide) 0

example : (removeEdge (addEdge exCore)).kids = exCore.kids :=
  (removeEdge_addEdge_id exCore (by decide) (by decide) (by decide)).1

/-! ### arbitrary sequences of convert / restore / addEdge / removeEdge -/

private theorem image_on120 (a : Assem) (h : on0 a.cell = true) :
    isCentre a.cell = false ∧ on120 (-a.cell.1 - a.cell.2, a.cell.1) = true := by
  simp [on0, on120, isCentre] at h ⊢; omega

private theorem addEdgeLoop_meta (l : List Assem) (s : State) :
    (addEdgeLoop l s).convAdded = s.convAdded ∧ (addEdgeLoop l s).convList = s.convList ∧
    ((∀ a ∈ s.kids, a.id < s.next) → ∀ a ∈ (addEdgeLoop l s).kids, a.id < (addEdgeLoop l s).next) := by
  induction l generalizing s with
  | nil => exact ⟨rfl, rfl, fun h => h⟩
  | cons a l ih =>
    simp only [addEdgeLoop]
    split
    · exact ih s
    · split
      · exact ih s
      · rename_i loc _ _ _
        obtain ⟨h1, h2, h3⟩ := ih (placeEdge s a loc)
        refine ⟨h1, h2, fun h => h3 ?_⟩
        intro b hb
        change b ∈ s.kids ++ [_] at hb
        rcases List.mem_append.1 hb with hb | hb
        · have := h b hb; show b.id < s.next + 1; omega
        · simp only [List.mem_singleton] at hb; subst hb; show s.next < s.next + 1; omega

private theorem addEdgeLoop_has_edge (l : List Assem) (s : State) (hl : ∀ a ∈ l, on0 a.cell = true) (hne : l ≠ []) :
    (addEdgeLoop l s).kids.any (fun a => on120 a.cell) = true := by
  cases l with
  | nil => exact absurd rfl hne
  | cons a rest =>
    have ha := image_on120 a (hl a List.mem_cons_self)
    have hrest : ∀ a ∈ rest, on0 a.cell = true := fun b hb => hl b (List.mem_cons_of_mem _ hb)
    simp only [addEdgeLoop, sym3_eq _ ha.1]
    split
    · rename_i hocc
      obtain ⟨_, extra, hk, _, _⟩ := addEdgeLoop_spec rest s hrest
      rw [hk, List.any_append, Bool.or_eq_true]
      left
      simp only [occupied, List.any_eq_true] at hocc ⊢
      obtain ⟨b, hb, hbc⟩ := hocc
      refine ⟨b, hb, ?_⟩
      have : b.cell = (-a.cell.1 - a.cell.2, a.cell.1) := by simpa using hbc
      rw [this]; exact ha.2
    · obtain ⟨_, extra, hk, _, _⟩ := addEdgeLoop_spec rest
        (placeEdge s a (-a.cell.1 - a.cell.2, a.cell.1)) hrest
      rw [hk]
      simp only [placeEdge, List.any_append, Bool.or_eq_true, List.any_cons, List.any_nil, Bool.or_false]
      left; right
      exact ha.2

/-- a third-core state reachable in a history over the fixed third-core content `B` -/
structure Third (B : List Assem) (s : State) : Prop where
  third : s.full = false
  noPending : s.convAdded = []
  content : base s = B
  ids : ∀ a ∈ s.kids, a.id < s.next
  scales : scalesCentre s = true

/-- reachable states: third-core states over `B`, or the conversion of one -/
def Good (B : List Assem) (s : State) : Prop := Third B s ∨ ∃ t, Third B t ∧ s = convert t

private theorem base_filter_idem (kids : List Assem) (s : State) (h : s.kids = kids.filter (fun a => !on120 a.cell)) :
    base s = s.kids := by
  unfold base; rw [h, List.filter_filter]; simp

private theorem third_addEdge (B : List Assem) (s : State) (h : Third B s) (hB : ∃ a ∈ B, on0 a.cell = true) :
    Third B (addEdge s) := by
  unfold addEdge
  simp only [h.third, Bool.false_eq_true, if_false]
  split
  · exact h
  · have hl : ∀ a ∈ (s.kids.filter (fun a => on0 a.cell)).mergeSort leI, on0 a.cell = true := by
      intro a ha
      exact (List.mem_filter.1 ((List.mergeSort_perm _ _).mem_iff.1 ha)).2
    have hne : (s.kids.filter (fun a => on0 a.cell)).mergeSort leI ≠ [] := by
      obtain ⟨a, ha, ha0⟩ := hB
      rw [← h.content] at ha
      have hmem : a ∈ (s.kids.filter (fun a => on0 a.cell)).mergeSort leI :=
        (List.mergeSort_perm _ _).mem_iff.2 (List.mem_filter.2 ⟨(List.mem_filter.1 ha).1, ha0⟩)
      exact List.ne_nil_of_mem hmem
    obtain ⟨hfull, extra, hk, hex, _⟩ := addEdgeLoop_spec _ s hl
    obtain ⟨m1, m2, m3⟩ := addEdgeLoop_meta ((s.kids.filter (fun a => on0 a.cell)).mergeSort leI) s
    have hedge := addEdgeLoop_has_edge _ s hl hne
    refine ⟨by simp [hfull, h.third], by simp [m1, h.noPending], ?_, m3 h.ids, ?_⟩
    · show ((addEdgeLoop _ s).kids.filter (fun a => !on120 a.cell)) = B
      rw [hk, List.filter_append]
      have : extra.filter (fun a => !on120 a.cell) = [] := by
        rw [List.filter_eq_nil_iff]; intro a ha; simp [hex a ha]
      rw [this, List.append_nil]; exact h.content
    · simp only [scalesCentre, Bool.or_eq_true]; right; exact hedge

private theorem third_removeEdge (B : List Assem) (s : State) (h : Third B s) : Third B (removeEdge s) := by
  unfold removeEdge removeEdgeCore
  simp only [h.third, Bool.false_eq_true, if_false]
  refine ⟨rfl, h.noPending, ?_, ?_, ?_⟩
  · show (s.kids.filter (fun a => !on120 a.cell)).filter (fun a => !on120 a.cell) = B
    rw [List.filter_filter]; simp only [Bool.and_self]; exact h.content
  · intro a ha; exact h.ids a (List.mem_filter.1 ha).1
  · have := h.scales
    simp only [scalesCentre, Bool.or_eq_true] at this ⊢
    rcases this with (hf | hc) | he
    · left; left; left; exact hf
    · left; right; exact hc
    · left; left; right; exact he

private theorem third_restore (B : List Assem) (s : State) (h : Third B s) : Third B (restore s) := by
  unfold restore
  simp only [h.noPending, List.isEmpty_nil, Bool.not_true, Bool.false_eq_true, if_false]
  exact ⟨h.third, rfl, h.content, h.ids, h.scales⟩

private theorem convert_next_ge (s : State) (hf : s.full = false) : s.next ≤ (convert s).next := by
  have hn := convLoop_next ((base s).mergeSort leJI) s.next (s.flag || s.kids.any (fun a => on120 a.cell)) s.convList
  have : (convert s).next = (loopOut s).next := by simp [convert, removeEdgeCore, hf, loopOut, base]
  rw [this]; unfold loopOut; omega

private theorem third_restore_convert (B : List Assem) (t : State) (h : Third B t)
    (ho : ∃ a ∈ B, isCentre a.cell = false) :
    Third B (restore (convert t)) := by
  obtain ⟨hk, hf, hca⟩ := restore_convert t h.third h.noPending h.ids h.scales
    (by rw [h.content]; exact ho)
  have hnext : (restore (convert t)).next = (convert t).next := by
    unfold restore; dsimp only; split <;> rfl
  have hflag : (restore (convert t)).flag = true := by
    have hne : (convert t).convAdded.isEmpty = false := by
      have : (convert t).convAdded = (loopOut t).copies.map (·.id) := by
        simp [convert, removeEdgeCore, h.third, h.noPending, loopOut, base]
      rw [this]; simp [copies_nonempty t (by rw [h.content]; exact ho)]
    unfold restore; dsimp only; simp only [hne, Bool.not_false, if_true]
  refine ⟨hf, hca, ?_, ?_, ?_⟩
  · rw [base_filter_idem t.kids _ (by rw [hk]; rfl), hk]; exact h.content
  · intro a ha
    rw [hk] at ha
    have := h.ids a (List.mem_filter.1 ha).1
    have := convert_next_ge t h.third
    rw [hnext]; omega
  · simp [scalesCentre, hflag]

private theorem convert_of_full (s : State) (h : s.full = true) : convert s = s := by unfold convert; simp [h]
private theorem addEdge_of_full (s : State) (h : s.full = true) : addEdge s = s := by unfold addEdge; simp [h]
private theorem removeEdge_of_full (s : State) (h : s.full = true) : removeEdge s = s := by unfold removeEdge; simp [h]

/-- **every state reachable by any sequence of convert / restore / addEdge / removeEdge from a third core is
either a third-core state holding exactly the original non-edge assemblies (same places, same parameters, same
order) or the full-core conversion of such a state** — under the start conditions: the core has a non-centre
assembly and an assembly on the 0° line (see the excluded-point findings). -/
theorem good_step (B : List Assem) (s : State) (op : Op) (hG : Good B s)
    (ho : ∃ a ∈ B, isCentre a.cell = false)
    (h0 : ∃ a ∈ B, on0 a.cell = true) : Good B (step s op) := by
  rcases hG with h | ⟨t, ht, rfl⟩
  · cases op with
    | convert => exact Or.inr ⟨s, h, rfl⟩
    | restore => exact Or.inl (third_restore B s h)
    | addEdge => exact Or.inl (third_addEdge B s h h0)
    | removeEdge => exact Or.inl (third_removeEdge B s h)
  · have hfull : (convert t).full = true := convert_full t ht.third
    cases op with
    | convert => exact Or.inr ⟨t, ht, convert_of_full _ hfull⟩
    | restore => exact Or.inl (third_restore_convert B t ht ho)
    | addEdge => exact Or.inr ⟨t, ht, addEdge_of_full _ hfull⟩
    | removeEdge => exact Or.inr ⟨t, ht, removeEdge_of_full _ hfull⟩

theorem good_run (B : List Assem) (ops : List Op) (s : State) (hG : Good B s)
    (ho : ∃ a ∈ B, isCentre a.cell = false)
    (h0 : ∃ a ∈ B, on0 a.cell = true) : Good B (run s ops) := by
  induction ops generalizing s with
  | nil => exact hG
  | cons op rest ih => exact ih (step s op) (good_step B s op hG ho h0)


/-- a third core as loaded (fresh changers, parameters assigned) is a reachable state over its own content -/
theorem good_init (s : State) (hf : s.full = false) (hca : s.convAdded = []) (hids : ∀ a ∈ s.kids, a.id < s.next)
    (hflag : s.flag = true) : Good (base s) s :=
  Or.inl ⟨hf, hca, rfl, hids, by simp [scalesCentre, hflag]⟩

/-- **in every reachable third-core state the non-edge assemblies are exactly the original ones**: same objects
(ids), same cells, same payloads, orientations and parameters, same child order — after any history. -/
theorem run_third_content (s : State) (ops : List Op) (hf : s.full = false) (hca : s.convAdded = [])
    (hids : ∀ a ∈ s.kids, a.id < s.next) (hflag : s.flag = true)
    (ho : ∃ a ∈ base s, isCentre a.cell = false)
    (h0 : ∃ a ∈ base s, on0 a.cell = true) (hthird : (run s ops).full = false) :
    base (run s ops) = base s := by
  rcases good_run (base s) ops s (good_init s hf hca hids hflag) ho h0 with h | ⟨t, ht, he⟩
  · exact h.content
  · rw [he, convert_full t ht.third] at hthird; exact absurd hthird (by simp)

/-- **every reachable full-core state is the conversion of a third-core state with the original content**, so
`full_cells_are_orbits`, `count_times_three`, `par_totals_times_three`, `geo_totals_times_three` apply to it. -/
theorem run_full_is_conversion (s : State) (ops : List Op) (hf : s.full = false) (hca : s.convAdded = [])
    (hids : ∀ a ∈ s.kids, a.id < s.next) (hflag : s.flag = true)
    (ho : ∃ a ∈ base s, isCentre a.cell = false)
    (h0 : ∃ a ∈ base s, on0 a.cell = true) (hfull : (run s ops).full = true) :
    ∃ t, t.full = false ∧ base t = base s ∧ scalesCentre t = true ∧ run s ops = convert t := by
  rcases good_run (base s) ops s (good_init s hf hca hids hflag) ho h0 with h | ⟨t, ht, he⟩
  · rw [h.third] at hfull; exact absurd hfull (by simp)
  · exact ⟨t, ht.third, ht.content, ht.scales, he⟩

example : Good (base exCore)
    (run exCore [.addEdge, .convert, .addEdge, .restore, .addEdge, .removeEdge, .convert, .restore]) :=
  good_run _ _ _ (good_init exCore (by decide) (by decide) (by decide) (by decide)) (by decide) (by decide)


/-! ### exactly when `convert` scales the centre assembly (`scalesCentre`) -/

/-- **`scalesCentre` after `addEdgeAssemblies`, exact condition.** `addEdgeAssemblies` ends by clearing the
"changed since last geometry transformation" flag; afterwards `convert` still scales the centre iff the changer
already holds its parameter list (a conversion scaled before), or an edge assembly is present (its removal inside
`convert` sets the flag again), or there was an assembly on the 0° line (then an edge assembly was just added or was
already there). So `scalesCentre` is lost exactly by an `addEdgeAssemblies` call that has nothing to add on a core with
no assembly on the 0° / 120° lines, before any scaled conversion — the finding `centre-params-not-scaled`. -/
theorem scalesCentre_addEdge_iff (s : State) (hf : s.full = false) (he : s.edgeAdded = []) :
    scalesCentre (addEdge s) = true ↔
      (s.convList = true ∨ (∃ a ∈ s.kids, on120 a.cell = true) ∨ (∃ a ∈ s.kids, on0 a.cell = true)) := by
  have hl : ∀ a ∈ (s.kids.filter (fun a => on0 a.cell)).mergeSort leI, on0 a.cell = true := by
    intro a ha
    exact (List.mem_filter.1 ((List.mergeSort_perm _ _).mem_iff.1 ha)).2
  obtain ⟨_, extra, hk, hex, hsrc⟩ := addEdgeLoop_spec _ s hl
  obtain ⟨_, m2, _⟩ := addEdgeLoop_meta ((s.kids.filter (fun a => on0 a.cell)).mergeSort leI) s
  have hkids : (addEdge s).kids = s.kids ++ extra := by simp [addEdge, hf, he, hk]
  have hcl : (addEdge s).convList = s.convList := by simp [addEdge, hf, he, m2]
  have hfl : (addEdge s).flag = false := by simp [addEdge, hf, he]
  simp only [scalesCentre, hfl, hcl, hkids, Bool.false_or, Bool.or_eq_true, List.any_append, List.any_eq_true]
  constructor
  · rintro (h | h | h)
    · exact Or.inl h
    · exact Or.inr (Or.inl h)
    · obtain ⟨b, hb, _⟩ := h
      obtain ⟨a, ha, _⟩ := hsrc b hb
      have ha' := List.mem_filter.1 ((List.mergeSort_perm _ _).mem_iff.1 ha)
      exact Or.inr (Or.inr ⟨a, ha'.1, ha'.2⟩)
  · rintro (h | h | ⟨a, ha, ha0⟩)
    · exact Or.inl h
    · exact Or.inr (Or.inl h)
    · have hne : (s.kids.filter (fun a => on0 a.cell)).mergeSort leI ≠ [] :=
        List.ne_nil_of_mem ((List.mergeSort_perm _ _).mem_iff.2 (List.mem_filter.2 ⟨ha, ha0⟩))
      have := addEdgeLoop_has_edge _ s hl hne
      rw [hk, List.any_append, Bool.or_eq_true, List.any_eq_true, List.any_eq_true] at this
      rcases this with h | h
      · exact Or.inr (Or.inl h)
      · exact Or.inr (Or.inr h)

/-- a changer that already skipped (`edgeAdded ≠ []`) or a full core: `addEdgeAssemblies` returns early, nothing changes -/
theorem addEdge_noop (s : State) (h : s.full = true ∨ s.edgeAdded ≠ []) : addEdge s = s := by
  unfold addEdge
  rcases h with h | h
  · simp [h]
  · cases hf : s.full
    · have : s.edgeAdded.isEmpty = false := by cases he : s.edgeAdded <;> simp_all
      simp [this]
    · simp

/-- **every other operation keeps `scalesCentre`** in third-core states: `removeEdgeAssemblies` (removing an edge
assembly sets the flag), `restorePreviousGeometry` with nothing pending; and undoing a conversion sets the flag. -/
theorem scalesCentre_kept (s : State) (hf : s.full = false) (hca : s.convAdded = []) (h : scalesCentre s = true) :
    scalesCentre (removeEdge s) = true ∧ scalesCentre (restore s) = true := by
  constructor
  · unfold removeEdge removeEdgeCore
    simp only [hf, Bool.false_eq_true, if_false]
    simp only [scalesCentre, Bool.or_eq_true] at h ⊢
    rcases h with (h | h) | h
    · left; left; left; exact h
    · left; right; exact h
    · left; left; right; exact h
  · unfold restore
    simp only [hca, List.isEmpty_nil, Bool.not_true, Bool.false_eq_true, if_false]
    exact h

/-- **from a freshly loaded third core (`good_init`: parameters assigned, fresh changers) every reachable
third-core state scales the centre**, provided the core has an assembly on the 0° line (so that an
`addEdgeAssemblies` never has nothing to add) and a non-centre assembly. -/
theorem run_scalesCentre (s : State) (ops : List Op) (hf : s.full = false) (hca : s.convAdded = [])
    (hids : ∀ a ∈ s.kids, a.id < s.next) (hflag : s.flag = true)
    (ho : ∃ a ∈ base s, isCentre a.cell = false) (h0 : ∃ a ∈ base s, on0 a.cell = true)
    (hthird : (run s ops).full = false) : scalesCentre (run s ops) = true := by
  rcases good_run (base s) ops s (good_init s hf hca hids hflag) ho h0 with h | ⟨t, ht, he⟩
  · exact h.scales
  · rw [he, convert_full t ht.third] at hthird; exact absurd hthird (by simp)

/-! ### below block level: pin lattices, owners, pins (Model/Sym3.lean `Sub`) -/

/-- the objects an observer reaches through one block: the block, its pin lattice, the lattice's `armiObject` -/
def objsB (b : PBlock) : List Obj := b.self :: (b.grid.toList ++ b.owner.toList)

/-- everything reachable below the assembly numbered `k` -/
def objsOf (sub : Sub) (k : Int) : List Obj := (subOf sub k).flatMap objsB

/-- every object listed in an entry carries the number of the assembly the entry belongs to -/
def CleanEntry (e : Int × List PBlock) : Prop := ∀ b ∈ e.2, ∀ o ∈ objsB b, o.1 = e.1

/-- every pin lattice refers back to the block that holds it, and the block's child locators sit on it -/
def OwnedEntry (e : Int × List PBlock) : Prop := ∀ b ∈ e.2, b.grid.isSome = true → b.owner = some b.self ∧ b.onOwn = true

def Clean (sub : Sub) : Prop := ∀ e ∈ sub, CleanEntry e

private theorem copyBlock_clean (n r : Int) (b : PBlock) : ∀ o ∈ objsB (copyBlock n r b), o.1 = n := by
  intro o ho
  cases hg : b.grid <;> simp [objsB, copyBlock, renObj, hg] at ho
  · rw [ho]
  · rcases ho with rfl | rfl | rfl <;> rfl

private theorem copyBlock_owned (n r : Int) (b : PBlock) (h : (copyBlock n r b).grid.isSome = true) :
    (copyBlock n r b).owner = some (copyBlock n r b).self ∧ (copyBlock n r b).onOwn = true := by
  cases hg : b.grid <;> simp [copyBlock, hg] at h ⊢

/-- **the pins of a copy are the pins of its source turned in the lattice by the copy's angle** (`rotNum`·60°) -/
theorem copyBlock_pins (n r : Int) (b : PBlock) (h : b.grid.isSome = true) :
    (copyBlock n r b).pins = b.pins.map (rotateIndex r) := by
  simp [copyBlock, h]

private theorem copied_entry (sub : Sub) (k n r : Int) :
    CleanEntry (n, (subOf sub k).map (copyBlock n r)) ∧ OwnedEntry (n, (subOf sub k).map (copyBlock n r)) := by
  constructor
  · intro b hb o ho
    obtain ⟨b0, _, rfl⟩ := List.mem_map.1 hb
    exact copyBlock_clean n r b0 o ho
  · intro b hb hg
    obtain ⟨b0, _, rfl⟩ := List.mem_map.1 hb
    exact copyBlock_owned n r b0 hg

private theorem subCopies_spec (sub : Sub) (a : Assem) (n c : Int) (cs : List Cell) :
    ∀ e ∈ subCopies sub a n c cs, n ≤ e.1 ∧ e.1 < n + cs.length ∧ CleanEntry e ∧ OwnedEntry e := by
  induction cs generalizing n c with
  | nil => simp [subCopies]
  | cons x cs ih =>
    intro e he
    simp only [subCopies, List.mem_cons] at he
    rcases he with rfl | he
    · refine ⟨by simp, by simp, (copied_entry sub a.id n _).1, (copied_entry sub a.id n _).2⟩
    · obtain ⟨h1, h2, h3, h4⟩ := ih (n + 1) (c + 1) e he
      refine ⟨by omega, by simp only [List.length_cons]; omega, h3, h4⟩

private theorem subCopies_length (sub : Sub) (a : Assem) (n c : Int) (cs : List Cell) :
    (subCopies sub a n c cs).length = cs.length := by
  induction cs generalizing n c with
  | nil => rfl
  | cons x cs ih => simp [subCopies, ih]

private theorem subLoop_spec (sub : Sub) (l : List Assem) (n : Int) :
    ∀ e ∈ subLoop sub l n, n ≤ e.1 ∧ CleanEntry e ∧ OwnedEntry e := by
  induction l generalizing n with
  | nil => simp [subLoop]
  | cons a l ih =>
    intro e he
    simp only [subLoop, List.mem_append] at he
    rcases he with he | he
    · obtain ⟨h1, _, h3, h4⟩ := subCopies_spec sub a n 1 _ e he
      exact ⟨h1, h3, h4⟩
    · obtain ⟨h1, h3, h4⟩ := ih _ e he
      refine ⟨?_, h3, h4⟩
      have : (0 : Int) ≤ ((subCopies sub a n 1 (sym3 a.cell)).length : Int) := Int.natCast_nonneg _
      omega

private theorem mkCopies_keys (sub : Sub) (a : Assem) (n c : Int) (cs : List Cell) :
    (subCopies sub a n c cs).map (·.1) = (mkCopies a n c cs).map (·.id) := by
  induction cs generalizing n c with
  | nil => rfl
  | cons x cs ih => simp [subCopies, mkCopies, ih]

private theorem mkCopies_len' (a : Assem) (n c : Int) (cs : List Cell) : (mkCopies a n c cs).length = cs.length := by
  induction cs generalizing n c with
  | nil => rfl
  | cons x cs ih => simp [mkCopies, ih]

/-- **the table gets exactly one new entry per copy `convert` adds, keyed by the copy's assembly number**, in order -/
theorem subLoop_keys (sub : Sub) (l : List Assem) (n : Int) (f cl : Bool) :
    (subLoop sub l n).map (·.1) = (convLoop l n f cl).copies.map (·.id) := by
  induction l generalizing n f cl with
  | nil => rfl
  | cons a l ih =>
    simp only [subLoop, convLoop, List.map_append]
    split <;> simp only [List.map_append, mkCopies_keys, subCopies_length, mkCopies_len'] <;> rw [ih]

/-- **what `convert` makes below block level, copy by copy**: an off-centre assembly gets two entries; the one for the
copy placed at the cell turned by 120° (240°) lists the source's blocks copied and turned by `rotNum` 2 (4). With
`copyBlock_pins`: cell and pins turn by the same angle, so (C08 `rotateIndex_geom_field`, which holds for the flats-up
core lattice and the corners-up pin lattice alike) every pin's global position is the source's turned about the core
axis. -/
theorem convert_copies_below (sub : Sub) (a : Assem) (n : Int) (h : isCentre a.cell = false) :
    subCopies sub a n 1 (sym3 a.cell) =
      [(n, (subOf sub a.id).map (copyBlock n 2)), (n + 1, (subOf sub a.id).map (copyBlock (n + 1) 4))] ∧
    (mkCopies a n 1 (sym3 a.cell)).map (fun x => (x.id, x.cell)) =
      [(n, rotateIndex 2 a.cell), (n + 1, rotateIndex 4 a.cell)] := by
  rw [sym3_are_rotations a.cell h]
  simp [subCopies, mkCopies]

/-! #### the operations only ever append clean, owned entries with fresh keys -/

private theorem placeEdge_next (s : State) (a : Assem) (loc : Cell) : (placeEdge s a loc).next = s.next + 1 := rfl

private theorem convert_keys_eq (s : State) (sub : Sub) (hf : s.full = false) :
    (subLoop sub ((removeEdgeCore s).kids.mergeSort leJI) (removeEdgeCore s).next).map (·.1) =
      (loopOut s).copies.map (·.id) := by
  have h1 : (removeEdgeCore s).kids = base s := by simp [removeEdgeCore, hf, base]
  have h2 : (removeEdgeCore s).next = s.next := by unfold removeEdgeCore; split <;> rfl
  rw [h1, h2]; exact subLoop_keys sub _ _ _ _

private theorem convert_key_lt (s : State) (sub : Sub) (hf : s.full = false) :
    ∀ e ∈ subLoop sub ((removeEdgeCore s).kids.mergeSort leJI) (removeEdgeCore s).next,
      e.1 < (step s .convert).next := by
  intro e he
  have hm : e.1 ∈ (loopOut s).copies.map (·.id) := by
    rw [← convert_keys_eq s sub hf]; exact List.mem_map_of_mem he
  obtain ⟨b, hb, hid⟩ := List.mem_map.1 hm
  have hlt := ((convLoop_ids ((base s).mergeSort leJI) s.next (s.flag || s.kids.any (fun a => on120 a.cell))
    s.convList).1 b hb).2
  have hn : (step s .convert).next = (loopOut s).next := by
    simp [step, convert, removeEdgeCore, hf, loopOut, base]
  rw [hn, ← hid]; exact hlt

private theorem convert_keys_nodup (s : State) (sub : Sub) (hf : s.full = false) :
    ((subLoop sub ((removeEdgeCore s).kids.mergeSort leJI) (removeEdgeCore s).next).map (·.1)).Nodup := by
  rw [convert_keys_eq s sub hf]
  exact (convLoop_ids _ _ _ _).2


private theorem addEdgeLoop_next_ge (l : List Assem) (s : State) : s.next ≤ (addEdgeLoop l s).next := by
  induction l generalizing s with
  | nil => simp [addEdgeLoop]
  | cons a l ih =>
    unfold addEdgeLoop
    split
    · exact ih s
    · split
      · exact ih s
      · rename_i loc _ _ _
        have := ih (placeEdge s a loc)
        rw [placeEdge_next] at this
        omega

private theorem addEdgeLoop_ext (l : List Assem) (s : State) (sub : Sub) :
    ∃ extra, subAddEdgeLoop l s sub = sub ++ extra ∧
      ∀ e ∈ extra, s.next ≤ e.1 ∧ e.1 < (addEdgeLoop l s).next ∧ CleanEntry e ∧ OwnedEntry e := by
  induction l generalizing s sub with
  | nil => exact ⟨[], by simp [subAddEdgeLoop], by simp⟩
  | cons a l ih =>
    unfold subAddEdgeLoop addEdgeLoop
    split
    · exact ih s sub
    · split
      · exact ih s sub
      · rename_i loc _ _ _
        obtain ⟨extra, he, hx⟩ := ih (placeEdge s a loc) (sub ++ [(s.next, (subOf sub a.id).map (copyBlock s.next 0))])
        refine ⟨(s.next, (subOf sub a.id).map (copyBlock s.next 0)) :: extra, by rw [he]; simp, ?_⟩
        intro e hm
        rcases List.mem_cons.1 hm with rfl | hm
        · have hge := addEdgeLoop_next_ge l (placeEdge s a loc)
          rw [placeEdge_next] at hge
          exact ⟨by simp, by simp only; omega, (copied_entry sub a.id s.next 0).1, (copied_entry sub a.id s.next 0).2⟩
        · obtain ⟨h1, h1', h2, h3⟩ := hx e hm
          rw [placeEdge_next] at h1
          exact ⟨by omega, h1', h2, h3⟩

/-- **each operation leaves the existing table as it is and appends entries whose keys are assembly numbers not yet
handed out, each clean (objects of its own) and owned (lattice ↔ block)** -/
theorem subStep_extends (s : State) (sub : Sub) (op : Op) :
    ∃ extra, subStep s sub op = sub ++ extra ∧
      ∀ e ∈ extra, s.next ≤ e.1 ∧ e.1 < (step s op).next ∧ CleanEntry e ∧ OwnedEntry e := by
  cases op with
  | restore => exact ⟨[], by simp [subStep], by simp⟩
  | removeEdge => exact ⟨[], by simp [subStep], by simp⟩
  | convert =>
    simp only [subStep, subConvert]
    split
    · exact ⟨[], by simp, by simp⟩
    · refine ⟨_, rfl, ?_⟩
      intro e he
      rename_i hfull
      have hf : s.full = false := by simpa using hfull
      have hsp := subLoop_spec sub _ _ e he
      have hn : (removeEdgeCore s).next = s.next := by unfold removeEdgeCore; split <;> rfl
      rw [hn] at hsp
      refine ⟨hsp.1, ?_, hsp.2.1, hsp.2.2⟩
      exact convert_key_lt s sub hf e he
  | addEdge =>
    simp only [subStep, subAddEdge]
    split
    · exact ⟨[], by simp, by simp⟩
    · split
      · exact ⟨[], by simp, by simp⟩
      · obtain ⟨extra, h1, h2⟩ := addEdgeLoop_ext ((s.kids.filter (fun a => on0 a.cell)).mergeSort leI) s sub
        refine ⟨extra, h1, ?_⟩
        intro e he
        obtain ⟨a1, a2, a3, a4⟩ := h2 e he
        refine ⟨a1, ?_, a3, a4⟩
        rename_i hfull hadded
        simpa [step, addEdge, hfull, hadded] using a2

private theorem subOf_append (sub extra : Sub) (k : Int) (hk : ∃ e ∈ sub, e.1 = k) :
    subOf (sub ++ extra) k = subOf sub k := by
  unfold subOf
  rw [List.find?_append]
  obtain ⟨e, he, hek⟩ := hk
  cases hf : sub.find? (fun e => decide (e.1 = k)) with
  | some x => simp
  | none =>
    have := List.find?_eq_none.1 hf e he
    simp [hek] at this

/-- **one operation never changes what hangs below an assembly that has an entry** (existing entries are neither
rewritten nor shadowed) -/
theorem sources_untouched_step (s : State) (sub : Sub) (op : Op) (k : Int) (he : ∃ e ∈ sub, e.1 = k) :
    subOf (subStep s sub op) k = subOf sub k ∧ ∃ e ∈ subStep s sub op, e.1 = k := by
  obtain ⟨extra, hx, _⟩ := subStep_extends s sub op
  rw [hx]
  obtain ⟨e, hm, hk⟩ := he
  exact ⟨subOf_append sub extra k ⟨e, hm, hk⟩, e, List.mem_append_left _ hm, hk⟩

theorem clean_step (s : State) (sub : Sub) (op : Op) (h : Clean sub) : Clean (subStep s sub op) := by
  obtain ⟨extra, hx, hp⟩ := subStep_extends s sub op
  rw [hx]
  intro e he
  rcases List.mem_append.1 he with he | he
  · exact h e he
  · exact (hp e he).2.2.1

private theorem subOf_mem (sub : Sub) (k : Int) (b : PBlock) (hb : b ∈ subOf sub k) : ∃ e ∈ sub, e.1 = k ∧ b ∈ e.2 := by
  unfold subOf at hb
  cases hf : sub.find? (fun e => decide (e.1 = k)) with
  | none => simp [hf] at hb
  | some e =>
    simp only [hf] at hb
    exact ⟨e, List.mem_of_find?_eq_some hf, by simpa using List.find?_some hf, hb⟩

/-- in a clean table every object below assembly `k` carries the number `k` -/
theorem objsOf_clean (sub : Sub) (h : Clean sub) (k : Int) : ∀ o ∈ objsOf sub k, o.1 = k := by
  intro o ho
  obtain ⟨b, hb, hob⟩ := List.mem_flatMap.1 ho
  obtain ⟨e, he, hek, hbe⟩ := subOf_mem sub k b hb
  rw [← hek]; exact h e he b hbe o hob

/-- **no shared node: two assemblies with different numbers have no object in common** (block, pin lattice, lattice
owner) -/
theorem no_shared_node (sub : Sub) (h : Clean sub) (k k' : Int) (hne : k ≠ k') :
    ∀ o ∈ objsOf sub k, o ∉ objsOf sub k' := by
  intro o ho ho'
  exact hne ((objsOf_clean sub h k o ho).symm.trans (objsOf_clean sub h k' o ho'))

/-- assembly numbers are never handed out twice: `maxAssemNum` only grows -/
theorem next_mono (s : State) (op : Op) : s.next ≤ (step s op).next := by
  cases op with
  | restore => simp only [step, restore]; split <;> simp
  | removeEdge => simp only [step, removeEdge, removeEdgeCore]; split <;> simp
  | convert =>
    cases hf : s.full
    · exact convert_next_ge s hf
    · simp [step, convert, hf]
  | addEdge =>
    simp only [step, addEdge]
    split
    · simp
    · split
      · simp
      · exact addEdgeLoop_next_ge _ s


/-! #### any sequence of operations -/

/-- all keys of the table are assembly numbers already handed out -/
def FreshTable (sub : Sub) (n : Int) : Prop := ∀ e ∈ sub, e.1 < n

theorem fresh_step (s : State) (sub : Sub) (op : Op) (h : FreshTable sub s.next) :
    FreshTable (subStep s sub op) (step s op).next := by
  obtain ⟨extra, hx, hp⟩ := subStep_extends s sub op
  rw [hx]
  intro e he
  rcases List.mem_append.1 he with he | he
  · have := h e he; have := next_mono s op; omega
  · exact (hp e he).2.1

/-- **in every state reachable by any sequence of the four operations the table is clean (so `no_shared_node` applies:
no two assemblies share an object below them) and its keys are numbers already handed out** -/
theorem clean_run (ops : List Op) (p : State × Sub) (h : Clean p.2) (hf : FreshTable p.2 p.1.next) :
    Clean (prun p ops).2 ∧ FreshTable (prun p ops).2 (prun p ops).1.next := by
  induction ops generalizing p with
  | nil => exact ⟨h, hf⟩
  | cons op rest ih => exact ih (pstep p op) (clean_step p.1 p.2 op h) (fresh_step p.1 p.2 op hf)

/-- **exact restoration below block level: whatever the history, every assembly that had an entry has the same blocks,
the same pin lattices with the same owners and the same pins afterwards** (after `restorePreviousGeometry`, after
`removeEdgeAssemblies`, and in between) -/
theorem sources_untouched_run (ops : List Op) (p : State × Sub) (k : Int) (he : ∃ e ∈ p.2, e.1 = k) :
    subOf (prun p ops).2 k = subOf p.2 k := by
  induction ops generalizing p with
  | nil => rfl
  | cons op rest ih =>
    obtain ⟨h1, h2⟩ := sources_untouched_step p.1 p.2 op k he
    exact (ih (pstep p op) h2).trans h1

private theorem find_of_nodup_keys (l : Sub) (h : (l.map (·.1)).Nodup) (e : Int × List PBlock) (he : e ∈ l) :
    l.find? (fun x => decide (x.1 = e.1)) = some e := by
  induction l with
  | nil => simp at he
  | cons x l ih =>
    simp only [List.map_cons, List.nodup_cons] at h
    rcases List.mem_cons.1 he with rfl | he
    · simp
    · have hne : x.1 ≠ e.1 := fun hx => h.1 (hx ▸ List.mem_map_of_mem he)
      simp [hne, ih h.2 he]

/-- **every copy `convert` makes is found under its own number with the entry made for it** (its number is new, so no
older entry answers for it; the new entries have pairwise distinct numbers) -/
theorem convert_entries_visible (s : State) (sub : Sub) (hf : s.full = false) (hfr : FreshTable sub s.next) :
    ∀ e ∈ subLoop sub ((removeEdgeCore s).kids.mergeSort leJI) (removeEdgeCore s).next,
      subOf (subConvert s sub) e.1 = e.2 := by
  intro e he
  have hn : (removeEdgeCore s).next = s.next := by unfold removeEdgeCore; split <;> rfl
  have hge := (subLoop_spec sub _ _ e he).1
  rw [hn] at hge
  unfold subConvert subOf
  simp only [hf, Bool.false_eq_true, if_false]
  rw [List.find?_append]
  have hnone : sub.find? (fun x => decide (x.1 = e.1)) = none := by
    apply List.find?_eq_none.2
    intro x hx
    have := hfr x hx
    simp; omega
  rw [hnone, Option.none_or, find_of_nodup_keys _ (convert_keys_nodup s sub hf) e he]


/-! #### non-vacuity: `exCore` with pin lattices on the off-centre assemblies -/

def exSub : Sub :=
  [(0, [⟨(0, 0), none, none, true, [], 0, []⟩]),
   (1, [⟨(1, 0), some (1, 100), some (1, 0), true, [(1, 0), (2, -1)], 60, [[1, 2, 3, 4, 5, 6], []]⟩]),
   (2, [⟨(2, 0), some (2, 100), some (2, 0), true, [(0, 3)], 0, []⟩, ⟨(2, 1), none, none, true, [], 0, []⟩])]

example : Clean exSub ∧ FreshTable exSub exCore.next := by
  constructor
  · intro e he; simp [exSub] at he; rcases he with rfl | rfl | rfl <;> intro b hb <;> simp at hb
    · subst hb; intro o ho; simp [objsB] at ho; subst ho; rfl
    · subst hb; intro o ho; simp [objsB] at ho; rcases ho with rfl | rfl | rfl <;> rfl
    · rcases hb with rfl | rfl <;> intro o ho <;> simp [objsB] at ho
      · rcases ho with rfl | rfl | rfl <;> rfl
      · subst ho; rfl
  · intro e he; simp [exSub] at he; rcases he with rfl | rfl | rfl <;> decide

/-- the copies of assembly 1 (cell (2,−1), on the 0° line), numbered 10 and 11: own block, own lattice owned by that
block, pins (1,0), (2,−1) turned to (−1,1), (−1,2) [turn 2] and (0,−1), (−1,−1) [turn 4]; the source was at 60° already:
the copies are at 180° / 300° and its corner vector is shifted by 2 / 4 places (not by 3 / 5); assembly 1 itself is as
before after any history -/
example : subCopies exSub ⟨1, (2, -1), 101, 0, [5], [1 / 2]⟩ 10 1 (sym3 (2, -1)) =
      [(10, [⟨(10, 0), some (10, 100), some (10, 0), true, [(-1, 1), (-1, 2)], 180, [[5, 6, 1, 2, 3, 4], []]⟩]),
       (11, [⟨(11, 0), some (11, 100), some (11, 0), true, [(0, -1), (-1, -1)], 300, [[3, 4, 5, 6, 1, 2], []]⟩])] := by
  decide +kernel

example : subOf (prun (exCore, exSub) [.convert, .restore, .addEdge, .removeEdge]).2 1 = subOf exSub 1 :=
  sources_untouched_run _ _ 1 ⟨(1, [⟨(1, 0), some (1, 100), some (1, 0), true, [(1, 0), (2, -1)], 60, [[1, 2, 3, 4, 5, 6], []]⟩]), by simp [exSub], rfl⟩

example : ∀ o ∈ objsOf (prun (exCore, exSub) [.addEdge, .convert]).2 10,
    o ∉ objsOf (prun (exCore, exSub) [.addEdge, .convert]).2 1 :=
  no_shared_node _ (clean_run _ _ (by
    intro e he; simp [exSub] at he; rcases he with rfl | rfl | rfl <;> intro b hb <;> simp at hb
    · subst hb; intro o ho; simp [objsB] at ho; subst ho; rfl
    · subst hb; intro o ho; simp [objsB] at ho; rcases ho with rfl | rfl | rfl <;> rfl
    · rcases hb with rfl | rfl <;> intro o ho <;> simp [objsB] at ho
      · rcases ho with rfl | rfl | rfl <;> rfl
      · subst ho; rfl) (by intro e he; simp [exSub] at he; rcases he with rfl | rfl | rfl <;> decide)).1 10 1 (by decide)


/-! #### pin positions in the plane (any field with a square root of 3, e.g. ℝ with s = √3)

The centre of cell `c` of a hex lattice with pitch `p` (coefficients `Hex.coef`: flats up x = a·(√3/2)p, y = b·p/2;
corners up x = a·p/2, y = b·(√3/2)p).  The core lattice is flats up, the pin lattice nested in it corners up
(`autoCreateSpatialGrids`); a pin's global position is its assembly's centre plus its own offset
(`IndexLocation.getGlobalCoordinates`: local coordinates + the parent locator's global coordinates). -/

def cellXY {K : Type} [Field K] (cu : Bool) (p s : K) (c : Int × Int) : K × K :=
  if cu then (((coef cu c.1 c.2).1 : K) * (p / 2), ((coef cu c.1 c.2).2 : K) * (s / 2 * p))
  else (((coef cu c.1 c.2).1 : K) * (s / 2 * p), ((coef cu c.1 c.2).2 : K) * (p / 2))

/-- rotation by +60° about the core axis: cos 60° = 1/2, sin 60° = s/2 -/
def turn60 {K : Type} [Field K] (s : K) (v : K × K) : K × K := (v.1 / 2 - s / 2 * v.2, s / 2 * v.1 + v.2 / 2)

/-- global position of the pin at lattice site `pin` of the assembly at `cell` (core pitch `P`, pin pitch `p`) -/
def pinXY {K : Type} [Field K] (P p s : K) (cell pin : Int × Int) : K × K :=
  ((cellXY false P s cell).1 + (cellXY true p s pin).1, (cellXY false P s cell).2 + (cellXY true p s pin).2)

private theorem cellXY_rot1 {K : Type} [Field K] (cu : Bool) (p s : K) (hs : s * s = 3) (h2 : (2 : K) ≠ 0)
    (c : Int × Int) : cellXY cu p s (rot1 c) = turn60 s (cellXY cu p s c) := by
  obtain ⟨i, j⟩ := c
  cases cu
  · simp only [cellXY, turn60, coef, rot1, Bool.false_eq_true, if_false, Prod.mk.injEq]
    push_cast
    constructor
    · field_simp; ring
    · field_simp
      linear_combination (-(i : K) * p) * hs
  · simp only [cellXY, turn60, coef, rot1, if_true, Prod.mk.injEq]
    push_cast
    constructor
    · field_simp
      linear_combination ((i : K) + j) * p * hs
    · field_simp; ring

private theorem rotateIndex_two (c : Int × Int) : rotateIndex 2 c = rot1 (rot1 c) := by
  simp [rotateIndex, rot1]

private theorem rotateIndex_four (c : Int × Int) : rotateIndex 4 c = rot1 (rot1 (rot1 (rot1 c))) := by
  simp [rotateIndex, rot1]; omega

private theorem turn60_add {K : Type} [Field K] (s : K) (u v : K × K) :
    turn60 s (u.1 + v.1, u.2 + v.2) = ((turn60 s u).1 + (turn60 s v).1, (turn60 s u).2 + (turn60 s v).2) := by
  simp only [turn60, Prod.mk.injEq]; constructor <;> ring

/-- **a copy's pins are its source's pins turned about the core axis**: the copy placed at the cell turned by 120°
(`rotateIndex 2`, the first symmetric equivalent) whose pin sites were turned by `rotNum` 2 in their lattice has every
pin at the source pin's global position rotated by 2 × 60°; for every core pitch and pin pitch. -/
theorem pin_global_turn_120 {K : Type} [Field K] (P p s : K) (hs : s * s = 3) (h2 : (2 : K) ≠ 0)
    (cell pin : Int × Int) :
    pinXY P p s (rotateIndex 2 cell) (rotateIndex 2 pin) = turn60 s (turn60 s (pinXY P p s cell pin)) := by
  unfold pinXY
  rw [rotateIndex_two, rotateIndex_two, cellXY_rot1 _ _ _ hs h2, cellXY_rot1 _ _ _ hs h2, cellXY_rot1 _ _ _ hs h2,
    cellXY_rot1 _ _ _ hs h2, turn60_add, turn60_add]

/-- the second copy: cell and pins turned by 240° -/
theorem pin_global_turn_240 {K : Type} [Field K] (P p s : K) (hs : s * s = 3) (h2 : (2 : K) ≠ 0)
    (cell pin : Int × Int) :
    pinXY P p s (rotateIndex 4 cell) (rotateIndex 4 pin) =
      turn60 s (turn60 s (turn60 s (turn60 s (pinXY P p s cell pin)))) := by
  unfold pinXY
  rw [rotateIndex_four, rotateIndex_four]
  simp only [cellXY_rot1 _ _ _ hs h2, turn60_add]


/-! #### `_scaleBlockVolIntegratedParams`, value by value -/

private theorem mul3_div3 (x : Rat) : x * 3 / 3 = x := by
  rw [mul_div_assoc, div_self (by norm_num : (3 : Rat) ≠ 0), mul_one]

/-- **scaling "down" undoes scaling "up" for every kind of value** (`None` stays `None`, a list stays a list of the
same length, an array an array): what makes `restorePreviousGeometry` give the centre assembly its parameters back -/
theorem scaleVal_down_up (v : PVal) : scaleVal false (scaleVal true v) = v := by
  cases v with
  | none => rfl
  | list l =>
    simp only [scaleVal, if_true, Bool.false_eq_true, if_false, List.map_map]
    congr 1; conv_rhs => rw [← List.map_id l]
    exact List.map_congr_left (fun x _ => mul3_div3 x)
  | scalar q => simp only [scaleVal, if_true, Bool.false_eq_true, if_false, mul3_div3]
  | array l =>
    simp only [scaleVal, if_true, Bool.false_eq_true, if_false, List.map_map]
    congr 1; conv_rhs => rw [← List.map_id l]
    exact List.map_congr_left (fun x _ => mul3_div3 x)

theorem scaleBlockVals_down_up (vs : List PVal) : scaleBlockVals false (scaleBlockVals true vs) = vs := by
  simp only [scaleBlockVals, List.map_map]
  conv_rhs => rw [← List.map_id vs]
  exact List.map_congr_left (fun v _ => scaleVal_down_up v)

/-- scaling "up" multiplies the sum of a value by three (the centre assembly then counts once in full-core totals) -/
def valSum : PVal → Rat
  | .none => 0
  | .list l => l.sum
  | .scalar q => q
  | .array l => l.sum

private theorem sum_map_mul3 (l : List Rat) : (l.map (fun x => x * 3)).sum = l.sum * 3 := by
  induction l with
  | nil => simp
  | cons a l ih => simp [ih]; ring

theorem scaleVal_up_sum (v : PVal) : valSum (scaleVal true v) = 3 * valSum v := by
  cases v with
  | none => simp [scaleVal, valSum]
  | list l => simp [scaleVal, valSum, sum_map_mul3]; ring
  | scalar q => simp [scaleVal, valSum]; ring
  | array l => simp [scaleVal, valSum, sum_map_mul3]; ring

example : scaleBlockVals true [.none, .list [1 / 2, 3], .scalar 5, .array [1]] =
    [.none, .list [3 / 2, 9], .scalar 15, .array [3]] := by decide +kernel


/-! #### boundary data and orientation of copies (sources rotated before the conversion) -/

/-- **a copy's orientation is the source's plus the copy's own turn, and every corner / edge vector is the source's
pivoted by the steps of that turn alone** - the source's previous orientation does not enter -/
theorem copyBlock_boundary (n r : Int) (b : PBlock) :
    (copyBlock n r b).orient = b.orient + r * 60 ∧ (copyBlock n r b).bnd = b.bnd.map (rotBoundary r) := ⟨rfl, rfl⟩

/-- the pivot of `convert`'s first copy (120°): new[m] = old[m − 2] -/
theorem rotBoundary_two (a0 a1 a2 a3 a4 a5 : Rat) :
    rotBoundary 2 [a0, a1, a2, a3, a4, a5] = [a4, a5, a0, a1, a2, a3] := by
  simp [rotBoundary, pivot, pyFrom, pyTo]

/-- the pivot of the second copy (240°): new[m] = old[m − 4] -/
theorem rotBoundary_four (a0 a1 a2 a3 a4 a5 : Rat) :
    rotBoundary 4 [a0, a1, a2, a3, a4, a5] = [a2, a3, a4, a5, a0, a1] := by
  simp [rotBoundary, pivot, pyFrom, pyTo]

/-- vectors that are not 6 long (unset `[]`, other lengths) are left alone -/
theorem rotBoundary_other (r : Int) (v : List Rat) (h : v.length ≠ 6) : rotBoundary r v = v := by
  simp [rotBoundary, h]

/-- **the two copies of an off-centre source, block by block**: orientation + 120° / + 240°, boundary vectors pivoted
by 2 / 4 steps (with `convert_copies_below` for where they sit and `copyBlock_pins` for the pins) -/
theorem convert_copies_boundary (sub : Sub) (a : Assem) (n : Int) (h : isCentre a.cell = false) :
    ∀ e ∈ subCopies sub a n 1 (sym3 a.cell), ∃ r : Int, (r = 2 ∨ r = 4) ∧
      e.2.map (fun b => (b.orient, b.bnd)) =
        (subOf sub a.id).map (fun b => (b.orient + r * 60, b.bnd.map (rotBoundary r))) := by
  intro e he
  rw [(convert_copies_below sub a n h).1] at he
  simp only [List.mem_cons, List.not_mem_nil, or_false] at he
  rcases he with rfl | rfl
  · exact ⟨2, Or.inl rfl, by simp [copyBlock]⟩
  · exact ⟨4, Or.inr rfl, by simp [copyBlock]⟩

/-! #### redundant calls on the same changer objects -/

/-- **a call on a core that is already full changes nothing, the changer's bookkeeping included** (`convAdded`,
`convList`, `edgeAdded` are fields of the state): `convert` returns at once, `addEdgeAssemblies` and
`removeEdgeAssemblies` return at once; below block level nothing is added -/
theorem redundant_call_noop (s : State) (sub : Sub) (op : Op) (hf : s.full = true) (hop : op ≠ .restore) :
    pstep (s, sub) op = (s, sub) := by
  cases op with
  | restore => exact absurd rfl hop
  | convert => simp [pstep, step, subStep, convert_of_full s hf, subConvert, hf]
  | addEdge => simp [pstep, step, subStep, addEdge_of_full s hf, subAddEdge, hf]
  | removeEdge => simp [pstep, step, subStep, removeEdge_of_full s hf]

/-- **convert twice, then one restore, is convert once and restore**: the second convert is the no-op above, so the
restore still finds the list of parameters it has to scale back and the assemblies it has to take out -/
theorem restore_convert_convert (s : State) (hf : s.full = false) :
    restore (convert (convert s)) = restore (convert s) := by
  rw [convert_of_full (convert s) (convert_full s hf)]

/-- a second `restorePreviousGeometry` on the same changer finds nothing to undo -/
theorem restore_restore (s : State) : restore (restore s) = restore s := by
  unfold restore
  split <;> simp

/-- a second `removeEdgeAssemblies` finds no edge assembly -/
theorem removeEdge_removeEdge (s : State) : removeEdge (removeEdge s) = removeEdge s := by
  unfold removeEdge removeEdgeCore
  cases hf : s.full <;> simp [hf, List.filter_filter]

/-- a second `addEdgeAssemblies` through a changer that added edge assemblies is skipped -/
theorem addEdge_again (s : State) (h : s.edgeAdded ≠ []) : addEdge s = s := addEdge_noop s (Or.inr h)

example : restore (convert (convert exCore)) = restore (convert exCore) ∧
    (restore (convert (convert exCore))).kids = base exCore :=
  ⟨restore_convert_convert exCore (by decide),
   by rw [restore_convert_convert exCore (by decide)]
      exact (restore_convert exCore (by decide) (by decide) (by decide) (by decide) (by decide)).1⟩

end ArmiVerif.Sym3
