/-
C14 — fuel shuffling conserves the inventory and keeps the lookups truthful.
Theorems over Model/Shuffle.lean.  Main statements: `Inv` (nothing duplicated, one assembly per cell, the
location table is a bijection between occupied cells and core assemblies, names of core / pooled assemblies are
found, nothing else is found), `inv_init`, `inv_swap`, `inv_cascade`, `inv_removeAssembly`, `inv_coreAdd`,
`inv_dischargeSwap`, `inv_step`, `inv_run` (induction over arbitrary histories), `purged_not_found`,
`transfer_contents` (contents unchanged / stationary blocks exchanged in place), `swap_keeps_inventory`,
`removeAssembly_spec`, `conservation_run` (multiset ledger), `swap_contents`, `dischargeSwap_contents`,
block lookups: `blocks_run_with_purge` (any history incl. purges and stationary blocks changing hands: found AND
nothing else found; only a fresh assembly with stationary blocks is excluded), `blocks_found_run_partial` (older,
weaker); names: `coreAdd_fresh_keys_current`, `finding_pooled_block_not_found`, `finding_stale_key_returns_purged`,
`repaired_discharge_keys_current`.
-/
import ArmiVerif.Model.Shuffle
import Mathlib.Data.List.Nodup
import Mathlib.Data.List.Perm.Subperm

namespace ArmiVerif.Shuffle

private theorem updCore_ids (core : List (Asm × Cell)) (i : Nat) (a : Asm) (c : Cell) (ha : a.id = i) :
    (updCore core i a c).map (·.1.id) = core.map (·.1.id) := by
  unfold updCore
  rw [List.map_map]
  apply List.map_congr_left
  intro p _
  simp only [Function.comp]
  split
  · simp [ha, *]
  · rfl

private theorem xchg_length (xs ys : List Blk) : (xchg xs ys).1.length = xs.length ∧ (xchg xs ys).2.length = ys.length := by
  induction xs generalizing ys with
  | nil => cases ys <;> simp [xchg]
  | cons x xs ih =>
    cases ys with
    | nil => simp [xchg]
    | cons y ys =>
      have := ih ys
      simp only [xchg]
      split <;> simp [this.1, this.2]

private theorem xchg_perm (xs ys : List Blk) : ((xchg xs ys).1 ++ (xchg xs ys).2).Perm (xs ++ ys) := by
  induction xs generalizing ys with
  | nil => cases ys <;> simp [xchg]
  | cons x xs ih =>
    cases ys with
    | nil => simp [xchg]
    | cons y ys =>
      have h := ih ys
      simp only [xchg]
      split
      · -- (y :: r1) ++ (x :: r2) ~ (x :: xs) ++ (y :: ys)
        refine (List.perm_middle.trans ?_).trans List.perm_middle.symm
        refine (List.Perm.cons _ (List.Perm.cons _ h)).trans ?_
        exact (List.Perm.swap _ _ _).trans (List.Perm.cons _ List.perm_middle.symm) |>.trans (by
          simp only [List.cons_append]; exact List.Perm.cons _ (List.perm_middle))
      · refine (List.perm_middle.trans ?_).trans List.perm_middle.symm
        exact (List.Perm.swap _ _ _).trans (List.Perm.cons _ (List.Perm.cons _ h)) |>.trans (List.Perm.swap _ _ _)

private theorem xchg_left (xs ys : List Blk) (k : Nat) (hk : k < xs.length) :
    (xchg xs ys).1[k]? = some (if (xs[k]).stat then ys.getD k (xs[k]) else xs[k]) := by
  induction xs generalizing ys k with
  | nil => simp at hk
  | cons x xs ih =>
    cases ys with
    | nil => simp [xchg]
    | cons y ys =>
      simp only [xchg]
      cases k with
      | zero => split <;> simp [*]
      | succ k =>
        have := ih ys k (by simpa using hk)
        split <;> simpa using this

private theorem xchg_right (xs ys : List Blk) (k : Nat) (hk : k < ys.length) :
    (xchg xs ys).2[k]? = some (match xs[k]? with
      | some x => if x.stat then x else ys[k]
      | none => ys[k]) := by
  induction xs generalizing ys k with
  | nil => cases ys with
    | nil => simp at hk
    | cons y ys => simp [xchg]
  | cons x xs ih =>
    cases ys with
    | nil => simp at hk
    | cons y ys =>
      simp only [xchg]
      cases k with
      | zero => split <;> simp [*]
      | succ k =>
        have := ih ys k (by simpa using hk)
        split <;> simpa using this

private theorem xchg_nostat (xs ys : List Blk) (h : ∀ b ∈ xs, b.stat = false) : xchg xs ys = (xs, ys) := by
  induction xs generalizing ys with
  | nil => cases ys <;> simp [xchg]
  | cons x xs ih =>
    cases ys with
    | nil => simp [xchg]
    | cons y ys =>
      have hx : x.stat = false := h x List.mem_cons_self
      have := ih ys (fun b hb => h b (List.mem_cons_of_mem _ hb))
      simp [xchg, hx, this]

private theorem transfer_ids (a1 a2 a1' a2' : Asm) (h : transfer a1 a2 = some (a1', a2')) :
    a1'.id = a1.id ∧ a2'.id = a2.id ∧ a1'.blocks.length = a1.blocks.length ∧ a2'.blocks.length = a2.blocks.length := by
  unfold transfer at h
  split at h
  · exact absurd h (by simp)
  · simp only [Option.some.injEq, Prod.mk.injEq] at h
    obtain ⟨rfl, rfl⟩ := h
    exact ⟨rfl, rfl, (xchg_length _ _).1, (xchg_length _ _).2⟩

/-- **moves never alter an assembly's contents, except that stationary blocks exchange assemblies and keep their
axial position**: after `_transferStationaryBlocks` every non-stationary position of each assembly holds the block it
held before, and every stationary position `k` holds the other assembly's block of position `k`. -/
theorem transfer_contents (a1 a2 a1' a2' : Asm) (h : transfer a1 a2 = some (a1', a2')) (k : Nat) (hk : k < a1.blocks.length) :
    a1'.blocks[k]? = some (if (a1.blocks[k]).stat then a2.blocks.getD k (a1.blocks[k]) else a1.blocks[k]) := by
  unfold transfer at h
  split at h
  · exact absurd h (by simp)
  · simp only [Option.some.injEq, Prod.mk.injEq] at h
    obtain ⟨rfl, _⟩ := h
    exact xchg_left _ _ k hk

/-- a swap is refused exactly when the stationary blocks of the two assemblies sit at different axial positions;
a refused transfer mutates nothing (the model returns no state). -/
theorem transfer_reject_iff (a1 a2 : Asm) : transfer a1 a2 = none ↔ statIdx a1 ≠ statIdx a2 := by
  unfold transfer; split <;> simp [*]

private theorem swap_of_ne (s : St) {i1 i2 : Nat} (hne : i1 ≠ i2) : swap s i1 i2 = swapCore s i1 i2 := by
  simp [swap, hne]

/-- **a swap does not touch the inventory**: same children in the same order, same pool, same name tables. -/
theorem swap_keeps_inventory (s s' : St) (i1 i2 : Nat) (h : swap s i1 i2 = some s') :
    s'.core.map (·.1.id) = s.core.map (·.1.id) ∧ s'.sfp = s.sfp ∧ s'.byName = s.byName ∧ s'.bbn = s.bbn ∧
    s'.track = s.track := by
  by_cases hii : i1 = i2
  · simp only [swap, hii, if_true, Option.some.injEq] at h
    subst h; exact ⟨rfl, rfl, rfl, rfl, rfl⟩
  rw [swap_of_ne s hii] at h
  unfold swapCore at h
  split at h
  · rename_i a1 c1 a2 c2 h1 h2
    split at h
    · exact absurd h (by simp)
    · rename_i a1' a2' ht
      simp only [Option.some.injEq] at h
      subst h
      obtain ⟨e1, e2, _, _⟩ := transfer_ids _ _ _ _ ht
      have k1 : a1.id = i1 := by simpa using List.find?_some h1
      have k2 : a2.id = i2 := by simpa using List.find?_some h2
      refine ⟨?_, rfl, rfl, rfl, rfl⟩
      rw [updCore_ids _ _ _ _ (e2.trans k2), updCore_ids _ _ _ _ (e1.trans k1)]
  · exact absurd h (by simp)



/-- the location table agrees with the children: every child is found at its cell -/
def LocOk (s : St) : Prop := ∀ p ∈ s.core, s.byLoc p.2 = some p.1.id

private theorem mem_updCore (core : List (Asm × Cell)) (i : Nat) (a : Asm) (c : Cell) (q : Asm × Cell)
    (hq : q ∈ updCore core i a c) : q = (a, c) ∨ (q ∈ core ∧ q.1.id ≠ i) := by
  unfold updCore at hq
  obtain ⟨p, hp, rfl⟩ := List.mem_map.1 hq
  split
  · left; rfl
  · right; exact ⟨hp, by assumption⟩

/-- **after a swap every child is still found at the cell its locator names** (each assembly sits where the
operation put it: a1 at a2's old cell, a2 at a1's old cell, everybody else where they were), provided the two
assemblies are different and sit at different cells. -/
private theorem swap_locOk (s s' : St) (i1 i2 : Nat) (hne : i1 ≠ i2) (h : swap s i1 i2 = some s')
    (hcells : ∀ p ∈ s.core, ∀ q ∈ s.core, p.2 = q.2 → p.1.id = q.1.id) (hok : LocOk s) : LocOk s' := by
  rw [swap_of_ne s hne] at h
  unfold swapCore at h
  split at h
  · rename_i a1 c1 a2 c2 h1 h2
    split at h
    · exact absurd h (by simp)
    · rename_i a1' a2' ht
      simp only [Option.some.injEq] at h
      subst h
      obtain ⟨e1, e2, _, _⟩ := transfer_ids _ _ _ _ ht
      have k1 : a1.id = i1 := by simpa using List.find?_some h1
      have k2 : a2.id = i2 := by simpa using List.find?_some h2
      have m1 : (a1, c1) ∈ s.core := List.mem_of_find?_eq_some h1
      have m2 : (a2, c2) ∈ s.core := List.mem_of_find?_eq_some h2
      have hc12 : c1 ≠ c2 := by
        intro hc; have := hcells _ m1 _ m2 hc; simp at this; omega
      intro q hq
      simp only at hq ⊢
      rcases mem_updCore _ _ _ _ _ hq with rfl | ⟨hq, hq2⟩
      · simp [setLoc, e2, k2]
      · rcases mem_updCore _ _ _ _ _ hq with rfl | ⟨hq, hq1⟩
        · simp [setLoc, hc12.symm, e1, k1]
        · have hqc1 : q.2 ≠ c1 := by
            intro hc; have := hcells _ hq _ m1 hc; simp at this; omega
          have hqc2 : q.2 ≠ c2 := by
            intro hc; have := hcells _ hq _ m2 hc; simp at this; omega
          simp [setLoc, hqc1, hqc2, hok q hq]
  · exact absurd h (by simp)



/-- **`Core.removeAssembly`: the assembly leaves the child list and the location table; with tracking on and
`discharge=True` it is appended to the pool and stays registered; otherwise (purge) neither its name nor any of its
blocks is registered any more.** All four (trackAssems, discharge) combinations. -/
theorem removeAssembly_spec (s s' : St) (i : Nat) (d : Bool) (h : removeAssembly s i d = some s') :
    ∃ a c, (a, c) ∈ s.core ∧ a.id = i ∧
      s'.core = s.core.filter (fun p => p.1.id ≠ i) ∧ s'.byLoc c = none ∧
      (∀ x, x ≠ c → s'.byLoc x = s.byLoc x) ∧
      ((d && s.track) = true → s'.sfp = s.sfp ++ [a] ∧ s'.byName = s.byName ∧ s'.bbn = s.bbn) ∧
      ((d && s.track) = false → s'.sfp = s.sfp ∧ s'.byName i = false ∧ (∀ b ∈ a.blocks, s'.bbn b.bid = false) ∧
        (∀ j, j ≠ i → s'.byName j = s.byName j) ∧ s'.bbn = setKeys s.bbn (a.blocks.map (·.bid)) false) := by
  unfold removeAssembly at h
  split at h
  · exact absurd h (by simp)
  · rename_i a c hf
    have hm : (a, c) ∈ s.core := List.mem_of_find?_eq_some hf
    have hid : a.id = i := by simpa using List.find?_some hf
    split at h
    · exact absurd h (by simp)
    · refine ⟨a, c, hm, hid, ?_⟩
      split at h
      · rename_i hdt
        simp only [Option.some.injEq] at h; subst h
        refine ⟨rfl, by simp [popLoc], fun x hx => by simp [popLoc, hx], fun _ => ⟨rfl, rfl, rfl⟩, fun hc => ?_⟩
        rw [hdt] at hc; exact absurd hc (by simp)
      · rename_i hdt
        simp only [Option.some.injEq] at h; subst h
        refine ⟨rfl, by simp [popLoc], fun x hx => by simp [popLoc, hx], fun hc => absurd hc hdt, fun _ => ?_⟩
        refine ⟨rfl, by simp [setKey], ?_, fun j hj => by simp [setKey, hj], rfl⟩
        intro b hb
        simp only [setKeys]
        rw [if_pos (List.mem_map.2 ⟨b, hb, rfl⟩)]



def coreIds (s : St) : List Nat := s.core.map (·.1.id)
def sfpIds (s : St) : List Nat := s.sfp.map (·.id)
/-- everything the reactor holds: core children then pool children -/
def inventory (s : St) : List Nat := coreIds s ++ sfpIds s

/-- the invariant of C14 (assembly / table level) -/
structure Inv (s : St) : Prop where
  /-- nothing duplicated: no assembly twice in core ∪ pool -/
  nodup : (inventory s).Nodup
  /-- each core location holds at most one assembly -/
  cells : (s.core.map (·.2)).Nodup
  /-- every core assembly is found at the cell where it sits -/
  locFound : ∀ p ∈ s.core, s.byLoc p.2 = some p.1.id
  /-- the lookup by location lists only assemblies present (at that cell) -/
  locOnly : ∀ c v, s.byLoc c = some v → ∃ p ∈ s.core, p.2 = c ∧ p.1.id = v
  /-- every core assembly is found under its name -/
  nameCore : ∀ p ∈ s.core, s.byName p.1.id = true
  /-- with tracking, every pooled assembly is found under its name -/
  namePool : s.track = true → ∀ a ∈ s.sfp, s.byName a.id = true
  /-- a name lookup never returns an assembly that is neither in the core nor in the pool (purged ones) -/
  nameOnly : ∀ i, s.byName i = true → i ∈ inventory s

private theorem find_id {core : List (Asm × Cell)} {i : Nat} {a : Asm} {c : Cell}
    (h : core.find? (fun p => p.1.id = i) = some (a, c)) : (a, c) ∈ core ∧ a.id = i :=
  ⟨List.mem_of_find?_eq_some h, by simpa using List.find?_some h⟩

private theorem cells_inj {core : List (Asm × Cell)} (h : (core.map (·.2)).Nodup) {p q : Asm × Cell}
    (hp : p ∈ core) (hq : q ∈ core) (e : p.2 = q.2) : p = q :=
  List.inj_on_of_nodup_map h hp hq e

private theorem ids_inj {core : List (Asm × Cell)} (h : (core.map (·.1.id)).Nodup) {p q : Asm × Cell}
    (hp : p ∈ core) (hq : q ∈ core) (e : p.1.id = q.1.id) : p = q :=
  List.inj_on_of_nodup_map h hp hq e

/-- replacing the payload of a child (same identity, same cell) keeps every table-level clause -/
private theorem updCore_same_cell (core : List (Asm × Cell)) (i : Nat) (a a' : Asm) (c : Cell)
    (hm : (a, c) ∈ core) (hi : a.id = i) (hi' : a'.id = i) (hnd : (core.map (·.1.id)).Nodup) :
    (updCore core i a' c).map (·.1.id) = core.map (·.1.id) ∧ (updCore core i a' c).map (·.2) = core.map (·.2) := by
  refine ⟨updCore_ids _ _ _ _ hi', ?_⟩
  unfold updCore
  rw [List.map_map]
  apply List.map_congr_left
  intro p hp
  simp only [Function.comp]
  split
  · rename_i h
    have : p = (a, c) := ids_inj hnd hp hm (by rw [h, hi])
    rw [this]
  · rfl

/-- the exchange of two cells -/
def swapCell (c1 c2 : Cell) (x : Cell) : Cell := if x = c1 then c2 else if x = c2 then c1 else x

private theorem swapCell_inj (c1 c2 : Cell) : Function.Injective (swapCell c1 c2) := by
  intro x y h
  unfold swapCell at h
  by_cases h1 : x = c1 <;> by_cases h2 : x = c2 <;> by_cases h3 : y = c1 <;> by_cases h4 : y = c2 <;>
    simp_all

/-- what a successful swap does: payloads of the two assemblies replaced by the transferred ones, their cells
exchanged, the location table rebound at both cells, everything else untouched -/
private theorem swap_shape (s s' : St) (i1 i2 : Nat) (hne : i1 ≠ i2) (h : swap s i1 i2 = some s')
    (_hnd : (s.core.map (·.1.id)).Nodup) :
    ∃ a1 c1 a2 c2 a1' a2', (a1, c1) ∈ s.core ∧ (a2, c2) ∈ s.core ∧ a1.id = i1 ∧ a2.id = i2 ∧
      transfer a1 a2 = some (a1', a2') ∧
      s'.core = s.core.map (fun p => if p.1.id = i1 then (a1', c2) else if p.1.id = i2 then (a2', c1) else p) ∧
      s'.byLoc = setLoc (setLoc s.byLoc c2 i1) c1 i2 ∧
      s'.sfp = s.sfp ∧ s'.byName = s.byName ∧ s'.bbn = s.bbn ∧ s'.track = s.track := by
  rw [swap_of_ne s hne] at h
  unfold swapCore at h
  split at h
  · rename_i a1 c1 a2 c2 h1 h2
    split at h
    · exact absurd h (by simp)
    · rename_i a1' a2' ht
      simp only [Option.some.injEq] at h
      subst h
      obtain ⟨m1, k1⟩ := find_id h1
      obtain ⟨m2, k2⟩ := find_id h2
      obtain ⟨e1, e2, _, _⟩ := transfer_ids _ _ _ _ ht
      refine ⟨a1, c1, a2, c2, a1', a2', m1, m2, k1, k2, ht, ?_, rfl, rfl, rfl, rfl, rfl⟩
      simp only [updCore, List.map_map]
      apply List.map_congr_left
      intro p _
      simp only [Function.comp]
      by_cases hp1 : p.1.id = i1
      · simp [hp1, e1, k1, hne]
      · simp [hp1]
  · exact absurd h (by simp)

/-- **`swapAssemblies` preserves the invariant** (two different core assemblies; the stationary-block test
of the code passed). -/
theorem inv_swap (s s' : St) (i1 i2 : Nat) (hne : i1 ≠ i2) (h : swap s i1 i2 = some s') (hI : Inv s) : Inv s' := by
  have hndc : (s.core.map (·.1.id)).Nodup := (List.nodup_append.1 hI.nodup).1
  obtain ⟨a1, c1, a2, c2, a1', a2', m1, m2, k1, k2, ht, hcore, hloc, hsfp, hname, hbbn, htrack⟩ :=
    swap_shape s s' i1 i2 hne h hndc
  obtain ⟨e1, e2, _, _⟩ := transfer_ids _ _ _ _ ht
  have hc12 : c1 ≠ c2 := by
    intro hc
    have := cells_inj hI.cells m1 m2 hc
    simp only [Prod.mk.injEq] at this
    exact hne (by rw [← k1, ← k2, this.1])
  -- id ↔ cell for members of the old core
  have id1 : ∀ p ∈ s.core, (p.1.id = i1 ↔ p.2 = c1) := fun p hp =>
    ⟨fun e => by rw [ids_inj hndc hp m1 (by rw [e, k1])], fun e => by rw [cells_inj hI.cells hp m1 e, k1]⟩
  have id2 : ∀ p ∈ s.core, (p.1.id = i2 ↔ p.2 = c2) := fun p hp =>
    ⟨fun e => by rw [ids_inj hndc hp m2 (by rw [e, k2])], fun e => by rw [cells_inj hI.cells hp m2 e, k2]⟩
  have hids : coreIds s' = coreIds s := (swap_keeps_inventory s s' i1 i2 h).1
  have hinv : inventory s' = inventory s := by unfold inventory sfpIds; rw [hids, hsfp]
  -- every new child is an old child with its cell passed through the exchange, same identity
  have hmem : ∀ q ∈ s'.core, ∃ p ∈ s.core, q.1.id = p.1.id ∧ q.2 = swapCell c1 c2 p.2 := by
    intro q hq
    rw [hcore] at hq
    obtain ⟨p, hp, rfl⟩ := List.mem_map.1 hq
    refine ⟨p, hp, ?_⟩
    by_cases hp1 : p.1.id = i1
    · have := (id1 p hp).1 hp1
      simp [hp1, e1, k1, swapCell, this]
    · by_cases hp2 : p.1.id = i2
      · have h2 := (id2 p hp).1 hp2
        have h1 : p.2 ≠ c1 := fun e => hp1 ((id1 p hp).2 e)
        simp [hp2, Ne.symm hne, e2, k2, swapCell, h2, hc12.symm]
      · have h1 : p.2 ≠ c1 := fun e => hp1 ((id1 p hp).2 e)
        have h2 : p.2 ≠ c2 := fun e => hp2 ((id2 p hp).2 e)
        simp [hp1, hp2, swapCell, h1, h2]
  have hcells' : s'.core.map (·.2) = (s.core.map (·.2)).map (swapCell c1 c2) := by
    rw [hcore, List.map_map, List.map_map]
    apply List.map_congr_left
    intro p hp
    simp only [Function.comp]
    by_cases hp1 : p.1.id = i1
    · simp [hp1, swapCell, (id1 p hp).1 hp1]
    · by_cases hp2 : p.1.id = i2
      · have h1 : p.2 ≠ c1 := fun e => hp1 ((id1 p hp).2 e)
        simp [hp2, Ne.symm hne, swapCell, (id2 p hp).1 hp2, hc12.symm]
      · have h1 : p.2 ≠ c1 := fun e => hp1 ((id1 p hp).2 e)
        have h2 : p.2 ≠ c2 := fun e => hp2 ((id2 p hp).2 e)
        simp [hp1, hp2, swapCell, h1, h2]
  -- the rebound table is the old table read through the exchange
  have hloc' : ∀ p ∈ s.core, s'.byLoc (swapCell c1 c2 p.2) = some p.1.id := by
    intro p hp
    rw [hloc]
    by_cases h1 : p.2 = c1
    · have := (id1 p hp).2 h1
      simp [swapCell, setLoc, h1, hc12.symm, this]
    · by_cases h2 : p.2 = c2
      · have := (id2 p hp).2 h2
        simp [swapCell, setLoc, h2, hc12.symm, this]
      · simp [swapCell, setLoc, h1, h2, hI.locFound p hp]
  refine ⟨by rw [hinv]; exact hI.nodup, ?_, ?_, ?_, ?_, ?_, ?_⟩
  · rw [hcells']; exact hI.cells.map (swapCell_inj c1 c2)
  · intro q hq
    obtain ⟨p, hp, hid, hcell⟩ := hmem q hq
    rw [hcell, hid]; exact hloc' p hp
  · intro c v hv
    -- the old child at the pre-image cell
    rw [hloc] at hv
    have pre : ∃ p ∈ s.core, swapCell c1 c2 p.2 = c ∧ p.1.id = v := by
      by_cases hcc1 : c = c1
      · refine ⟨(a2, c2), m2, by simp [swapCell, hcc1, hc12.symm], ?_⟩
        simp [setLoc, hcc1] at hv; rw [k2]; exact hv
      · by_cases hcc2 : c = c2
        · refine ⟨(a1, c1), m1, by simp [swapCell, hcc2], ?_⟩
          subst hcc2
          simp [setLoc, hc12.symm] at hv; rw [k1]; exact hv
        · simp [setLoc, hcc1, hcc2] at hv
          obtain ⟨p, hp, hpc, hpv⟩ := hI.locOnly c v hv
          exact ⟨p, hp, by simp [swapCell, hpc, hcc1, hcc2], hpv⟩
    obtain ⟨p, hp, hpc, hpv⟩ := pre
    rw [hcore]
    refine ⟨_, List.mem_map.2 ⟨p, hp, rfl⟩, ?_, ?_⟩
    · rw [← hpc]
      by_cases hp1 : p.1.id = i1
      · simp [hp1, swapCell, (id1 p hp).1 hp1]
      · by_cases hp2 : p.1.id = i2
        · have h1 : p.2 ≠ c1 := fun e => hp1 ((id1 p hp).2 e)
          simp [hp2, Ne.symm hne, swapCell, (id2 p hp).1 hp2, hc12.symm]
        · have h1 : p.2 ≠ c1 := fun e => hp1 ((id1 p hp).2 e)
          have h2 : p.2 ≠ c2 := fun e => hp2 ((id2 p hp).2 e)
          simp [hp1, hp2, swapCell, h1, h2]
    · rw [← hpv]
      by_cases hp1 : p.1.id = i1
      · simp [hp1, e1, k1]
      · by_cases hp2 : p.1.id = i2
        · simp [hp2, Ne.symm hne, e2, k2]
        · simp [hp1, hp2]
  · intro q hq
    obtain ⟨p, hp, hid, _⟩ := hmem q hq
    rw [hname, hid]; exact hI.nameCore p hp
  · intro ht a ha
    rw [hname]; rw [hsfp] at ha; exact hI.namePool (by rw [← htrack]; exact ht) a ha
  · intro i hi
    rw [hinv]; rw [hname] at hi; exact hI.nameOnly i hi

/-- **`swapCascade` preserves the invariant** (first assembly different from all the others), also when a
swap in the middle is refused and the cascade stops half-way. -/
private theorem inv_cascadeLoop (a0 : Nat) (l : List Nat) (s : St) (hne : ∀ ak ∈ l, a0 ≠ ak) (hI : Inv s) :
    Inv (cascadeLoop a0 s l).1 := by
  induction l generalizing s with
  | nil => exact hI
  | cons ak rest ih =>
    unfold cascadeLoop
    split
    · exact hI
    · rename_i s' hs
      exact ih s' (fun x hx => hne x (List.mem_cons_of_mem _ hx))
        (inv_swap s s' a0 ak (hne ak List.mem_cons_self) hs hI)

theorem inv_cascade (l : List Nat) (s : St) (hne : ∀ a0 rest, l = a0 :: rest → ∀ ak ∈ rest, a0 ≠ ak) (hI : Inv s) :
    Inv (cascade s l).1 := by
  cases l with
  | nil => exact hI
  | cons a0 rest => exact inv_cascadeLoop a0 rest s (hne a0 rest rfl) hI

private theorem mem_filter_ne {core : List (Asm × Cell)} {i : Nat} {p : Asm × Cell} :
    p ∈ core.filter (fun p => p.1.id ≠ i) ↔ p ∈ core ∧ p.1.id ≠ i := by
  simp [List.mem_filter]

/-- **`Core.removeAssembly` preserves the invariant**, for discharge to the pool and for purging, with tracking
on or off. -/
theorem inv_removeAssembly (s s' : St) (i : Nat) (d : Bool) (h : removeAssembly s i d = some s') (hI : Inv s) :
    Inv s' := by
  have hndc : (s.core.map (·.1.id)).Nodup := (List.nodup_append.1 hI.nodup).1
  have hnds : (s.sfp.map (·.id)).Nodup := (List.nodup_append.1 hI.nodup).2.1
  have hdisj : ∀ x ∈ coreIds s, ∀ y ∈ sfpIds s, x ≠ y := (List.nodup_append.1 hI.nodup).2.2
  unfold removeAssembly at h
  split at h
  · exact absurd h (by simp)
  · rename_i a c hf
    obtain ⟨hm, hid⟩ := find_id hf
    split at h
    · exact absurd h (by simp)
    · -- facts about the filtered child list
      have hfilt_ids : ∀ x ∈ (s.core.filter (fun p => p.1.id ≠ i)).map (·.1.id), x ∈ coreIds s ∧ x ≠ i := by
        intro x hx
        obtain ⟨p, hp, rfl⟩ := List.mem_map.1 hx
        have := mem_filter_ne.1 hp
        exact ⟨List.mem_map.2 ⟨p, this.1, rfl⟩, this.2⟩
      have hnd_f : ((s.core.filter (fun p => p.1.id ≠ i)).map (·.1.id)).Nodup :=
        hndc.sublist (List.filter_sublist.map _)
      have hcells_f : ((s.core.filter (fun p => p.1.id ≠ i)).map (·.2)).Nodup :=
        hI.cells.sublist (List.filter_sublist.map _)
      have hi_core : i ∈ coreIds s := List.mem_map.2 ⟨(a, c), hm, hid⟩
      have hi_sfp : i ∉ sfpIds s := fun hx => hdisj i hi_core i hx rfl
      have hcell_ne : ∀ p ∈ s.core.filter (fun p => p.1.id ≠ i), p.2 ≠ c := by
        intro p hp hc
        have hp' := mem_filter_ne.1 hp
        have := cells_inj hI.cells hp'.1 hm hc
        exact hp'.2 (by rw [this, hid])
      have hlocFound : ∀ p ∈ s.core.filter (fun p => p.1.id ≠ i), popLoc s.byLoc c p.2 = some p.1.id := by
        intro p hp
        simp [popLoc, hcell_ne p hp, hI.locFound p (mem_filter_ne.1 hp).1]
      have hlocOnly : ∀ x v, popLoc s.byLoc c x = some v →
          ∃ p ∈ s.core.filter (fun p => p.1.id ≠ i), p.2 = x ∧ p.1.id = v := by
        intro x v hv
        by_cases hx : x = c
        · simp [popLoc, hx] at hv
        · simp only [popLoc, hx, if_false] at hv
          obtain ⟨p, hp, hpc, hpv⟩ := hI.locOnly x v hv
          refine ⟨p, mem_filter_ne.2 ⟨hp, ?_⟩, hpc, hpv⟩
          intro hpi
          have := ids_inj hndc hp hm (by rw [hpi, hid])
          rw [this] at hpc; exact hx hpc.symm
      split at h
      · -- discharge into the pool (tracking on)
        rename_i hdt
        have htr : s.track = true := by simp at hdt; exact hdt.2
        simp only [Option.some.injEq] at h; subst h
        refine ⟨?_, hcells_f, hlocFound, hlocOnly, ?_, ?_, ?_⟩
        · show (List.map (·.1.id) (s.core.filter (fun p => p.1.id ≠ i)) ++ List.map (·.id) (s.sfp ++ [a])).Nodup
          rw [List.map_append, List.nodup_append]
          refine ⟨hnd_f, ?_, ?_⟩
          · rw [List.nodup_append]
            refine ⟨hnds, by simp, ?_⟩
            intro x hx y hy
            simp only [List.map_cons, List.map_nil, List.mem_singleton] at hy
            subst hy
            intro e; subst e; rw [hid] at hx; exact hi_sfp hx
          · intro x hx y hy
            rcases List.mem_append.1 hy with hy | hy
            · exact hdisj x (hfilt_ids x hx).1 y hy
            · simp only [List.map_cons, List.map_nil, List.mem_singleton] at hy
              subst hy; rw [hid]; exact (hfilt_ids x hx).2
        · intro p hp; exact hI.nameCore p (mem_filter_ne.1 hp).1
        · intro _ b hb
          rcases List.mem_append.1 hb with hb | hb
          · exact hI.namePool htr b hb
          · simp only [List.mem_singleton] at hb; subst hb; exact hI.nameCore (b, c) hm
        · intro j hj
          have := hI.nameOnly j hj
          show j ∈ List.map (·.1.id) (s.core.filter (fun p => p.1.id ≠ i)) ++ List.map (·.id) (s.sfp ++ [a])
          rcases List.mem_append.1 this with hc | hs
          · by_cases hji : j = i
            · subst hji; simp [hid]
            · obtain ⟨p, hp, rfl⟩ := List.mem_map.1 hc
              exact List.mem_append_left _ (List.mem_map.2 ⟨p, mem_filter_ne.2 ⟨hp, hji⟩, rfl⟩)
          · exact List.mem_append_right _ (by rw [List.map_append]; exact List.mem_append_left _ hs)
      · -- purge
        rename_i hdt
        simp only [Option.some.injEq] at h; subst h
        refine ⟨?_, hcells_f, hlocFound, hlocOnly, ?_, ?_, ?_⟩
        · show (List.map (·.1.id) (s.core.filter (fun p => p.1.id ≠ i)) ++ sfpIds s).Nodup
          rw [List.nodup_append]
          exact ⟨hnd_f, hnds, fun x hx y hy => hdisj x (hfilt_ids x hx).1 y hy⟩
        · intro p hp
          have := mem_filter_ne.1 hp
          simp [setKey, this.2, hI.nameCore p this.1]
        · intro htr b hb
          have hbi : b.id ≠ i := fun e => hi_sfp (by rw [← e]; exact List.mem_map.2 ⟨b, hb, rfl⟩)
          simp [setKey, hbi, hI.namePool htr b hb]
        · intro j hj
          simp only [setKey] at hj
          split at hj
          · exact absurd hj (by simp)
          · rename_i hji
            have := hI.nameOnly j hj
            show j ∈ List.map (·.1.id) (s.core.filter (fun p => p.1.id ≠ i)) ++ sfpIds s
            rcases List.mem_append.1 this with hc | hs
            · obtain ⟨p, hp, rfl⟩ := List.mem_map.1 hc
              exact List.mem_append_left _ (List.mem_map.2 ⟨p, mem_filter_ne.2 ⟨hp, hji⟩, rfl⟩)
            · exact List.mem_append_right _ hs

/-- **`Core.add` at a free cell preserves the invariant**, for a fresh assembly and for one taken out of the pool
(`sfp.remove(incoming)` just before, as in `dischargeSwap`). Preconditions = what the code checks: not already a
child, location not in `childrenByLocator`. (Outside them: finding F11.) -/
theorem inv_coreAdd (s1 : St) (a : Asm) (c : Cell) (hI : Inv s1)
    (hfresh : a.id ∉ coreIds s1) (hfree : s1.byLoc c = none) :
    (coreAdd { s1 with sfp := s1.sfp.filter (fun x => x.id ≠ a.id) } a c).raised = false ∧
    Inv (coreAdd { s1 with sfp := s1.sfp.filter (fun x => x.id ≠ a.id) } a c).st := by
  have hndc : (s1.core.map (·.1.id)).Nodup := (List.nodup_append.1 hI.nodup).1
  have hnds : (s1.sfp.map (·.id)).Nodup := (List.nodup_append.1 hI.nodup).2.1
  have hdisj : ∀ x ∈ coreIds s1, ∀ y ∈ sfpIds s1, x ≠ y := (List.nodup_append.1 hI.nodup).2.2
  have hany : s1.core.any (fun p => p.1.id = a.id) = false := by
    rw [List.any_eq_false]
    intro p hp hpa
    exact hfresh (List.mem_map.2 ⟨p, hp, by simpa using hpa⟩)
  have hcfree : ∀ p ∈ s1.core, p.2 ≠ c := by
    intro p hp hc
    have := hI.locFound p hp
    rw [hc, hfree] at this; exact absurd this (by simp)
  have hfs : ∀ y ∈ (s1.sfp.filter (fun x => x.id ≠ a.id)).map (·.id), y ∈ sfpIds s1 ∧ y ≠ a.id := by
    intro y hy
    obtain ⟨b, hb, rfl⟩ := List.mem_map.1 hy
    have := List.mem_filter.1 hb
    exact ⟨List.mem_map.2 ⟨b, this.1, rfl⟩, by simpa using this.2⟩
  unfold coreAdd
  simp only [hany, Bool.false_eq_true, if_false, hfree, Option.isSome_none]
  refine ⟨trivial, ?_, ?_, ?_, ?_, ?_, ?_, ?_⟩
  · show (List.map (·.1.id) (s1.core ++ [(a, c)]) ++ List.map (·.id) (s1.sfp.filter (fun x => x.id ≠ a.id))).Nodup
    rw [List.map_append, List.nodup_append]
    refine ⟨?_, hnds.sublist (List.filter_sublist.map _), ?_⟩
    · rw [List.nodup_append]
      refine ⟨hndc, by simp, ?_⟩
      intro x hx y hy
      simp only [List.map_cons, List.map_nil, List.mem_singleton] at hy
      subst hy; intro e; subst e; exact hfresh hx
    · intro x hx y hy
      rcases List.mem_append.1 hx with hx | hx
      · exact hdisj x hx y (hfs y hy).1
      · simp only [List.map_cons, List.map_nil, List.mem_singleton] at hx
        subst hx; exact (hfs y hy).2.symm
  · show (List.map (·.2) (s1.core ++ [(a, c)])).Nodup
    rw [List.map_append, List.nodup_append]
    refine ⟨hI.cells, by simp, ?_⟩
    intro x hx y hy
    simp only [List.map_cons, List.map_nil, List.mem_singleton] at hy
    subst hy
    obtain ⟨p, hp, rfl⟩ := List.mem_map.1 hx
    exact hcfree p hp
  · intro p hp
    rcases List.mem_append.1 hp with hp | hp
    · simp [setLoc, hcfree p hp, hI.locFound p hp]
    · simp only [List.mem_singleton] at hp; subst hp; simp [setLoc]
  · intro x v hv
    by_cases hx : x = c
    · subst hx
      simp only [setLoc, if_true, Option.some.injEq] at hv
      exact ⟨(a, x), List.mem_append_right _ (by simp), rfl, hv⟩
    · simp only [setLoc, hx, if_false] at hv
      obtain ⟨p, hp, h1, h2⟩ := hI.locOnly x v hv
      exact ⟨p, List.mem_append_left _ hp, h1, h2⟩
  · intro p hp
    rcases List.mem_append.1 hp with hp | hp
    · simp only [setKey]; split
      · rfl
      · exact hI.nameCore p hp
    · simp only [List.mem_singleton] at hp; subst hp; simp [setKey]
  · intro htr b hb
    have := List.mem_filter.1 hb
    have hne : b.id ≠ a.id := by simpa using this.2
    simp only [setKey, hne, if_false]
    exact hI.namePool htr b this.1
  · intro j hj
    show j ∈ List.map (·.1.id) (s1.core ++ [(a, c)]) ++ List.map (·.id) (s1.sfp.filter (fun x => x.id ≠ a.id))
    by_cases hja : j = a.id
    · subst hja; simp
    · simp only [setKey, hja, if_false] at hj
      rcases List.mem_append.1 (hI.nameOnly j hj) with h | h
      · exact List.mem_append_left _ (by rw [List.map_append]; exact List.mem_append_left _ h)
      · obtain ⟨b, hb, rfl⟩ := List.mem_map.1 h
        exact List.mem_append_right _ (List.mem_map.2 ⟨b, List.mem_filter.2 ⟨hb, by simpa using hja⟩, rfl⟩)

/-- the invariant only looks at identities and cells, not at payloads -/
private theorem inv_of_same_shape (s t : St)
    (hc : t.core.map (fun p => (p.1.id, p.2)) = s.core.map (fun p => (p.1.id, p.2)))
    (hs : t.sfp.map (·.id) = s.sfp.map (·.id))
    (hl : t.byLoc = s.byLoc) (hn : t.byName = s.byName) (ht : t.track = s.track) (hI : Inv s) : Inv t := by
  have hids : t.core.map (·.1.id) = s.core.map (·.1.id) := by
    have := congrArg (List.map Prod.fst) hc
    simpa [List.map_map, Function.comp_def] using this
  have hcells : t.core.map (·.2) = s.core.map (·.2) := by
    have := congrArg (List.map Prod.snd) hc
    simpa [List.map_map, Function.comp_def] using this
  have hinv : inventory t = inventory s := by unfold inventory coreIds sfpIds; rw [hids, hs]
  have tos : ∀ p ∈ t.core, ∃ q ∈ s.core, q.1.id = p.1.id ∧ q.2 = p.2 := by
    intro p hp
    have : (p.1.id, p.2) ∈ s.core.map (fun p => (p.1.id, p.2)) := by
      rw [← hc]; exact List.mem_map.2 ⟨p, hp, rfl⟩
    obtain ⟨q, hq, e⟩ := List.mem_map.1 this
    simp only [Prod.mk.injEq] at e
    exact ⟨q, hq, e.1, e.2⟩
  have tot : ∀ q ∈ s.core, ∃ p ∈ t.core, q.1.id = p.1.id ∧ q.2 = p.2 := by
    intro q hq
    have : (q.1.id, q.2) ∈ t.core.map (fun p => (p.1.id, p.2)) := by
      rw [hc]; exact List.mem_map.2 ⟨q, hq, rfl⟩
    obtain ⟨p, hp, e⟩ := List.mem_map.1 this
    simp only [Prod.mk.injEq] at e
    exact ⟨p, hp, e.1.symm, e.2.symm⟩
  refine ⟨by rw [hinv]; exact hI.nodup, by rw [hcells]; exact hI.cells, ?_, ?_, ?_, ?_, ?_⟩
  · intro p hp
    obtain ⟨q, hq, e1, e2⟩ := tos p hp
    rw [hl, ← e1, ← e2]; exact hI.locFound q hq
  · intro c v hv
    rw [hl] at hv
    obtain ⟨q, hq, e1, e2⟩ := hI.locOnly c v hv
    obtain ⟨p, hp, f1, f2⟩ := tot q hq
    exact ⟨p, hp, by rw [← f2, e1], by rw [← f1, e2]⟩
  · intro p hp
    obtain ⟨q, hq, e1, _⟩ := tos p hp
    rw [hn, ← e1]; exact hI.nameCore q hq
  · intro htr a ha
    have : a.id ∈ s.sfp.map (·.id) := by rw [← hs]; exact List.mem_map.2 ⟨a, ha, rfl⟩
    obtain ⟨b, hb, e⟩ := List.mem_map.1 this
    rw [hn, ← e]; exact hI.namePool (by rw [← ht]; exact htr) b hb
  · intro i hi
    rw [hinv]; rw [hn] at hi; exact hI.nameOnly i hi

/-- **`dischargeSwap` preserves the invariant**: incoming is a fresh assembly or one from the pool (in any case
not a core child), outgoing a core assembly, stationary-block test passed. -/
theorem inv_dischargeSwap (s s' : St) (incoming : Asm) (outId : Nat)
    (h : dischargeSwap s incoming outId = some s') (hin : incoming.id ∉ coreIds s) (hI : Inv s) : Inv s' := by
  have hndc : (s.core.map (·.1.id)).Nodup := (List.nodup_append.1 hI.nodup).1
  unfold dischargeSwap at h
  split at h
  · exact absurd h (by simp)
  · rename_i out c hf
    obtain ⟨hm, hid⟩ := find_id hf
    split at h
    · exact absurd h (by simp)
    · rename_i inc' out' ht
      obtain ⟨e1, e2, _, _⟩ := transfer_ids _ _ _ _ ht
      -- state after the stationary-block exchange
      generalize hs0 : xfer s outId out' c incoming.id inc' = s0 at h
      have hs0c : s0.core = updCore s.core outId out' c := by rw [← hs0]; rfl
      have hs0s : s0.sfp = s.sfp.map (fun a => if a.id = incoming.id then inc' else a) := by rw [← hs0]; rfl
      have hshape := updCore_same_cell s.core outId out out' c hm hid (e2.trans hid) hndc
      have hI0 : Inv s0 := by
        apply inv_of_same_shape s s0 _ _ (by rw [← hs0]; rfl) (by rw [← hs0]; rfl) (by rw [← hs0]; rfl) hI
        · have h1 := hshape.1; have h2 := hshape.2
          rw [hs0c]
          unfold updCore
          rw [List.map_map]
          apply List.map_congr_left
          intro p hp
          simp only [Function.comp]
          split
          · rename_i hpi
            have : p = (out, c) := ids_inj hndc hp hm (by rw [hpi, hid])
            rw [this]; simp [e2]
          · rfl
        · rw [hs0s]
          rw [List.map_map]
          apply List.map_congr_left
          intro a _
          simp only [Function.comp]
          split
          · rename_i hai; rw [e1, hai]
          · rfl
      cases hrem : removeAssembly s0 outId true with
      | none => rw [hrem] at h; exact absurd h (by simp)
      | some s1 =>
        rw [hrem] at h
        simp only [Option.bind_some, putIn] at h

        have hI1 : Inv s1 := inv_removeAssembly s0 s1 outId true hrem hI0
        obtain ⟨a, c', hm', hid', hcore1, hloc1, _, _, _⟩ := removeAssembly_spec s0 s1 outId true hrem
        -- the cell freed is the outgoing assembly's cell
        have hmem0 : (out', c) ∈ s0.core := by
          rw [hs0c]
          unfold updCore
          exact List.mem_map.2 ⟨(out, c), hm, by simp [hid]⟩
        have hnd0 : (s0.core.map (·.1.id)).Nodup := (List.nodup_append.1 hI0.nodup).1
        have hcc : c' = c := by
          have := ids_inj hnd0 hm' hmem0 (by rw [hid', e2, hid])
          exact (Prod.mk.inj this).2
        have hfree : s1.byLoc c = none := by rw [← hcc]; exact hloc1
        have hfresh : inc'.id ∉ coreIds s1 := by
          intro hx
          unfold coreIds at hx
          rw [hcore1] at hx
          obtain ⟨p, hp, hpi⟩ := List.mem_map.1 hx
          have hp0 := (mem_filter_ne.1 hp).1
          have : p.1.id ∈ coreIds s := by
            have : p.1.id ∈ s0.core.map (·.1.id) := List.mem_map.2 ⟨p, hp0, rfl⟩
            rw [hs0c, hshape.1] at this
            exact this
          rw [hpi, e1] at this
          exact hin this
        have := inv_coreAdd s1 inc' c hI1 hfresh hfree
        rw [e1] at this
        split at h
        · rename_i hr; rw [this.1] at hr; exact absurd hr (by simp)
        · simp only [Option.some.injEq] at h
          rw [← h]; exact this.2

/-! ### histories -/

private theorem transfer_nostat_eq (a1 a2 a1' a2' : Asm) (h : transfer a1 a2 = some (a1', a2'))
    (hns : ∀ b ∈ a1.blocks, b.stat = false) : a1' = a1 ∧ a2' = a2 := by
  unfold transfer at h
  split at h
  · exact absurd h (by simp)
  · simp only [Option.some.injEq, Prod.mk.injEq] at h
    obtain ⟨rfl, rfl⟩ := h
    rw [xchg_nostat _ _ hns]; exact ⟨rfl, rfl⟩

/-- **a swap of an assembly with itself is the identity** (skipped with a warning), stationary blocks or not -/
theorem swap_self (s s' : St) (i : Nat) (h : swap s i i = some s') : s' = s := by
  simp only [swap, if_true, Option.some.injEq] at h; exact h.symm

/-- cascades, also those naming an assembly twice: every property that swaps of two different assemblies preserve
is preserved (a swap of an assembly with itself is skipped) -/
private theorem cascadeLoop_any (P : St → Prop)
    (hstep : ∀ s s' i j, i ≠ j → swap s i j = some s' → Inv s → P s → P s')
    (a0 : Nat) (l : List Nat) (s : St) (hI : Inv s) (hP : P s) :
    P (cascadeLoop a0 s l).1 ∧ Inv (cascadeLoop a0 s l).1 := by
  induction l generalizing s with
  | nil => exact ⟨hP, hI⟩
  | cons ak rest ih =>
    unfold cascadeLoop
    split
    · exact ⟨hP, hI⟩
    · rename_i s' hs
      by_cases hak : a0 = ak
      · subst hak
        have := swap_self s s' a0 hs
        subst this
        exact ih s' hI hP
      · exact ih s' (inv_swap s s' a0 ak hak hs hI) (hstep s s' a0 ak hak hs hI hP)

/-- the preconditions of an operation: what the caller guarantees (a fresh assembly is not already in the reactor;
swaps and cascades need nothing: a swap of an assembly with itself, also inside a cascade naming an assembly twice,
is skipped) and what `Core.add` checks (cell free) -/
def Pre (s : St) : Op → Prop
  | .swap _ _ => True
  | .cascade _ => True
  | .dnew a _ => a.id ∉ inventory s
  | .dsfp _ _ => True
  | .remove _ _ => True
  | .add a c => a.id ∉ inventory s ∧ s.byLoc c = none

private theorem step_dnew (s : St) (a : Asm) (o : Nat) :
    step s (.dnew a o) = (dischargeSwap (preReg s a) a o).getD (preReg s a) := by
  simp only [step, dischargeSwapFresh]; split <;> simp [*]

private theorem inv_preReg (s : St) (a : Asm) (hI : Inv s) : Inv (preReg s a) :=
  inv_of_same_shape s (preReg s a) rfl rfl rfl rfl rfl hI

/-- **every operation preserves the invariant under its preconditions** -/
theorem inv_step (s : St) (op : Op) (hI : Inv s) (hp : Pre s op) : Inv (step s op) := by
  cases op with
  | swap i j =>
    simp only [step]
    cases h : swap s i j with
    | none => exact hI
    | some s' =>
      by_cases hij : i = j
      · subst hij; rw [swap_self s s' i h]; exact hI
      · exact inv_swap s s' i j hij h hI
  | cascade l =>
    cases l with
    | nil => exact hI
    | cons a0 rest => exact (cascadeLoop_any (fun _ => True) (fun _ _ _ _ _ _ _ _ => trivial) a0 rest s hI trivial).2
  | dnew a o =>
    rw [step_dnew]
    cases h : dischargeSwap (preReg s a) a o with
    | none => exact inv_preReg s a hI
    | some s' =>
      exact inv_dischargeSwap (preReg s a) s' a o h (fun hx => hp (List.mem_append_left _ hx)) (inv_preReg s a hI)
  | dsfp i o =>
    simp only [step]
    split
    · rename_i a ha
      cases h : dischargeSwap s a o with
      | none => exact hI
      | some s' =>
        have hmem : a ∈ s.sfp := List.mem_of_find?_eq_some ha
        have hdisj : ∀ x ∈ coreIds s, ∀ y ∈ sfpIds s, x ≠ y := (List.nodup_append.1 hI.nodup).2.2
        exact inv_dischargeSwap s s' a o h
          (fun hx => hdisj _ hx _ (List.mem_map.2 ⟨a, hmem, rfl⟩) rfl) hI
    · exact hI
  | remove i d =>
    simp only [step]
    cases h : removeAssembly s i d with
    | none => exact hI
    | some s' => exact inv_removeAssembly s s' i d h hI
  | add a c =>
    simp only [step]
    obtain ⟨hfresh, hfree⟩ := hp
    have hf : s.sfp.filter (fun x => x.id ≠ a.id) = s.sfp := by
      rw [List.filter_eq_self]
      intro b hb
      have : b.id ≠ a.id := fun e => hfresh (List.mem_append_right _ (by rw [← e]; exact List.mem_map.2 ⟨b, hb, rfl⟩))
      simpa using this
    have := (inv_coreAdd s a c hI (fun hx => hfresh (List.mem_append_left _ hx)) hfree).2
    rw [hf] at this
    exact this

/-- preconditions hold along the whole history -/
def RunOK : St → List Op → Prop
  | _, [] => True
  | s, op :: rest => Pre s op ∧ RunOK (step s op) rest

/-- **the invariant holds in every state reachable by any finite sequence of operations** -/
theorem inv_run (ops : List Op) (s : St) (hI : Inv s) (hok : RunOK s ops) : Inv (run s ops) := by
  induction ops generalizing s with
  | nil => exact hI
  | cons op rest ih =>
    exact ih (step s op) (inv_step s op hI hok.1) hok.2

/-- **a purged assembly is never returned by the name lookup** (it is in neither list, so `nameOnly` applies) -/
theorem purged_not_found (s : St) (hI : Inv s) (i : Nat) (h : i ∉ inventory s) : s.byName i = false := by
  cases hb : s.byName i with
  | false => rfl
  | true => exact absurd (hI.nameOnly i hb) h

/-- **the start state built from a well-formed loading (distinct assemblies, distinct cells) satisfies the
invariant** -/
theorem inv_init (ks : List (Asm × Cell)) (sf : List Asm) (track : Bool)
    (hids : (ks.map (·.1.id) ++ sf.map (·.id)).Nodup) (hcells : (ks.map (·.2)).Nodup) :
    Inv (initSt ks sf track) := by
  refine ⟨hids, hcells, ?_, ?_, ?_, ?_, ?_⟩
  · intro p hp
    show (ks.find? (fun q => q.2 = p.2)).map (·.1.id) = some p.1.id
    cases hf : ks.find? (fun q => q.2 = p.2) with
    | none =>
      have := List.find?_eq_none.1 hf p hp
      simp at this
    | some q =>
      have hq := List.mem_of_find?_eq_some hf
      have hqc : q.2 = p.2 := by simpa using List.find?_some hf
      rw [cells_inj hcells hq hp hqc]; rfl
  · intro c v hv
    change (ks.find? (fun q => q.2 = c)).map (·.1.id) = some v at hv
    cases hf : ks.find? (fun q => q.2 = c) with
    | none => rw [hf] at hv; exact absurd hv (by simp)
    | some q =>
      rw [hf] at hv
      simp only [Option.map_some, Option.some.injEq] at hv
      exact ⟨q, List.mem_of_find?_eq_some hf, by simpa using List.find?_some hf, hv⟩
  · intro p hp
    show (ks.map (·.1) ++ sf).any (fun a => a.id = p.1.id) = true
    rw [List.any_eq_true]
    exact ⟨p.1, List.mem_append_left _ (List.mem_map.2 ⟨p, hp, rfl⟩), by simp⟩
  · intro _ a ha
    show (ks.map (·.1) ++ sf).any (fun b => b.id = a.id) = true
    rw [List.any_eq_true]
    exact ⟨a, List.mem_append_right _ ha, by simp⟩
  · intro i hi
    change (ks.map (·.1) ++ sf).any (fun a => a.id = i) = true at hi
    rw [List.any_eq_true] at hi
    obtain ⟨a, ha, hai⟩ := hi
    have hai' : a.id = i := by simpa using hai
    show i ∈ ks.map (·.1.id) ++ sf.map (·.id)
    rcases List.mem_append.1 ha with h | h
    · obtain ⟨p, hp, rfl⟩ := List.mem_map.1 h
      exact List.mem_append_left _ (List.mem_map.2 ⟨p, hp, hai'⟩)
    · exact List.mem_append_right _ (List.mem_map.2 ⟨a, h, hai'⟩)

/-! non-vacuity: a three-assembly core with a one-assembly pool and a history touching every operation -/
def exSt : St :=
  initSt [(⟨1, [⟨10, true⟩, ⟨11, false⟩]⟩, (0, 0)), (⟨2, [⟨20, true⟩, ⟨21, false⟩]⟩, (1, 0)),
          (⟨3, [⟨30, true⟩, ⟨31, false⟩]⟩, (2, -1))] [⟨9, [⟨90, true⟩, ⟨91, false⟩]⟩] true

example : Inv exSt := inv_init _ _ _ (by decide) (by decide)

def exOps : List Op :=
  [.swap 1 2, .cascade [1, 2, 3], .dnew ⟨50, [⟨500, true⟩, ⟨501, false⟩]⟩ 2, .dsfp 9 1, .remove 3 false,
   .add ⟨60, [⟨600, true⟩]⟩ (0, 0)]

example : RunOK exSt exOps := by
  simp only [RunOK, exOps, Pre]
  refine ⟨trivial, trivial, ?_, trivial, trivial, ?_, trivial⟩
  · decide
  · exact ⟨by decide, by decide⟩

example : Inv (run exSt exOps) := inv_run _ _ (inv_init _ _ _ (by decide) (by decide)) (by
  simp only [RunOK, exOps, Pre]
  refine ⟨trivial, trivial, ?_, trivial, trivial, ?_, trivial⟩
  · decide
  · exact ⟨by decide, by decide⟩)

section Ledger
open List
/-! ### the ledger: nothing lost, nothing duplicated -/

private theorem perm_cons_filter_ne {l : List Nat} (hnd : l.Nodup) {x : Nat} (hx : x ∈ l) :
    l ~ x :: l.filter (fun y => y ≠ x) := by
  have h1 : l.erase x = l.filter (fun y => y ≠ x) := by
    rw [hnd.erase_eq_filter]
    congr 1; funext y
    by_cases hyx : y = x <;> simp [bne, hyx]
  rw [← h1]; exact List.perm_cons_erase hx

private theorem filter_ne_of_not_mem {l : List Nat} {x : Nat} (hx : x ∉ l) : l.filter (fun y => y ≠ x) = l := by
  rw [List.filter_eq_self]; intro y hy
  have : y ≠ x := fun e => hx (by rw [← e]; exact hy)
  simpa using this

private theorem coreIds_filter (core : List (Asm × Cell)) (i : Nat) :
    (core.filter (fun p => p.1.id ≠ i)).map (·.1.id) = (core.map (·.1.id)).filter (fun y => y ≠ i) := by
  rw [List.filter_map]; rfl

private theorem sfpIds_filter (sfp : List Asm) (i : Nat) :
    (sfp.filter (fun a => a.id ≠ i)).map (·.id) = (sfp.map (·.id)).filter (fun y => y ≠ i) := by
  rw [List.filter_map]; rfl

/-- `removeAssembly`: with tracking and discharge the inventory is only rearranged; otherwise exactly the removed
assembly leaves it -/
theorem removeAssembly_inventory (s s' : St) (i : Nat) (d : Bool) (h : removeAssembly s i d = some s') (hI : Inv s) :
    (if d && s.track then [] else [i]) ++ inventory s' ~ inventory s := by
  have hndc : (coreIds s).Nodup := (List.nodup_append.1 hI.nodup).1
  obtain ⟨a, c, hm, hid, hcore, _, _, htr, hpu⟩ := removeAssembly_spec s s' i d h
  have hi : i ∈ coreIds s := List.mem_map.2 ⟨(a, c), hm, hid⟩
  have hc : coreIds s' = (coreIds s).filter (fun y => y ≠ i) := by
    unfold coreIds; rw [hcore, coreIds_filter]
  have hp := perm_cons_filter_ne hndc hi
  cases hdt : (d && s.track)
  · obtain ⟨hsfp, _⟩ := hpu hdt
    simp only [Bool.false_eq_true, if_false, inventory, sfpIds, hsfp, hc]
    exact (List.Perm.append_right _ hp.symm)
  · obtain ⟨hsfp, _⟩ := htr hdt
    simp only [if_true, List.nil_append, inventory, sfpIds, hsfp, hc, List.map_append, List.map_cons, List.map_nil, hid]
    -- filter ++ (sfp ++ [i]) ~ (i :: filter) ++ sfp
    refine List.Perm.trans ?_ (List.Perm.append_right _ hp.symm)
    rw [← List.append_assoc]
    exact (List.perm_append_singleton _ _).trans (by simp)

/-- `sfp.remove(incoming)` + `core.add(incoming, loc)`: a pooled assembly only changes list, a fresh one is charged -/
private theorem putIn_inventory (s1 s' : St) (incId : Nat) (inc' : Asm) (c : Cell) (hid : inc'.id = incId)
    (h : putIn s1 incId inc' c = some s') (hI : Inv s1) :
    inventory s' ~ (if incId ∈ sfpIds s1 then [] else [incId]) ++ inventory s1 := by
  have hnds : (sfpIds s1).Nodup := (List.nodup_append.1 hI.nodup).2.1
  unfold putIn coreAdd at h
  dsimp only at h
  split at h
  · simp at h
  · split at h
    · simp at h
    · simp only [Bool.false_eq_true, if_false, Option.some.injEq] at h
      subst h
      show (s1.core ++ [(inc', c)]).map (·.1.id) ++ (s1.sfp.filter (fun a => a.id ≠ incId)).map (·.id) ~ _
      rw [sfpIds_filter, List.map_append]
      simp only [List.map_cons, List.map_nil, hid]
      by_cases hin : incId ∈ sfpIds s1
      · simp only [hin, if_true, List.nil_append, inventory]
        have hp := perm_cons_filter_ne hnds hin
        rw [List.append_assoc]
        exact List.Perm.append_left _ (by simpa [sfpIds] using hp.symm)
      · simp only [hin, if_false, inventory]
        rw [show (List.map (·.id) s1.sfp).filter (fun y => y ≠ incId) = sfpIds s1 from filter_ne_of_not_mem hin]
        rw [List.append_assoc]
        exact (List.perm_middle).trans (by simp [coreIds])


/-- the three stages of `dischargeSwap`: exchange of stationary blocks, removal of the outgoing assembly, admission
of the incoming one -/
private theorem dischargeSwap_decomp (s s' : St) (incoming : Asm) (outId : Nat)
    (h : dischargeSwap s incoming outId = some s') (hI : Inv s) :
    ∃ s0 s1 inc' c, inc'.id = incoming.id ∧ outId ∈ coreIds s ∧ Inv s0 ∧ coreIds s0 = coreIds s ∧
      sfpIds s0 = sfpIds s ∧ s0.track = s.track ∧
      removeAssembly s0 outId true = some s1 ∧ putIn s1 incoming.id inc' c = some s' := by
  have hndc : (s.core.map (·.1.id)).Nodup := (List.nodup_append.1 hI.nodup).1
  unfold dischargeSwap at h
  split at h
  · exact absurd h (by simp)
  · rename_i out c hf
    obtain ⟨hm, hid⟩ := find_id hf
    split at h
    · exact absurd h (by simp)
    · rename_i inc' out' ht
      obtain ⟨e1, e2, _, _⟩ := transfer_ids _ _ _ _ ht
      have hshape := updCore_same_cell s.core outId out out' c hm hid (e2.trans hid) hndc
      have hsf : (s.sfp.map (fun a => if a.id = incoming.id then inc' else a)).map (·.id) = s.sfp.map (·.id) := by
        rw [List.map_map]
        apply List.map_congr_left
        intro a _
        simp only [Function.comp]
        split
        · rename_i hai; rw [e1, hai]
        · rfl
      have hI0 : Inv (xfer s outId out' c incoming.id inc') := by
        apply inv_of_same_shape s (xfer s outId out' c incoming.id inc') _ hsf rfl rfl rfl hI
        show (updCore s.core outId out' c).map (fun p => (p.1.id, p.2)) = s.core.map (fun p => (p.1.id, p.2))
        unfold updCore
        rw [List.map_map]
        apply List.map_congr_left
        intro p hp
        simp only [Function.comp]
        split
        · rename_i hpi
          have : p = (out, c) := ids_inj hndc hp hm (by rw [hpi, hid])
          rw [this]; simp [e2]
        · rfl
      cases hrem : removeAssembly (xfer s outId out' c incoming.id inc') outId true with
      | none => rw [hrem] at h; exact absurd h (by simp)
      | some s1 =>
        rw [hrem] at h
        simp only [Option.bind_some] at h
        exact ⟨_, s1, inc', c, e1, List.mem_map.2 ⟨(out, c), hm, hid⟩, hI0, hshape.1, hsf, rfl, hrem, h⟩

/-- **`dischargeSwap` ledger**: a fresh incoming assembly is charged, a pooled one just changes list; the outgoing
one goes to the pool (tracking) or is purged. -/
theorem dischargeSwap_inventory (s s' : St) (incoming : Asm) (outId : Nat)
    (h : dischargeSwap s incoming outId = some s') (hin : incoming.id ∉ coreIds s) (hI : Inv s) :
    (if s.track then [] else [outId]) ++ inventory s' ~
      (if incoming.id ∈ sfpIds s then [] else [incoming.id]) ++ inventory s := by
  obtain ⟨s0, s1, inc', c, e1, hout, hI0, hc0, hs0, ht0, hrem, hput⟩ := dischargeSwap_decomp s s' incoming outId h hI
  have hI1 : Inv s1 := inv_removeAssembly s0 s1 outId true hrem hI0
  have h1 := removeAssembly_inventory s0 s1 outId true hrem hI0
  have h2 := putIn_inventory s1 s' incoming.id inc' c e1 hput hI1
  have hinv0 : inventory s0 = inventory s := by unfold inventory; rw [hc0, hs0]
  rw [hinv0, Bool.true_and, ht0] at h1
  obtain ⟨a, _, _, haid, _, _, _, htr, hpu⟩ := removeAssembly_spec s0 s1 outId true hrem
  -- membership of incoming in the pool is not affected by the removal of the outgoing assembly
  have hne : incoming.id ≠ outId := fun e => hin (e ▸ hout)
  have hmemiff : incoming.id ∈ sfpIds s1 ↔ incoming.id ∈ sfpIds s := by
    rw [← hs0]
    cases htk : s.track
    · have := (hpu (by simp [ht0, htk])).1
      unfold sfpIds; rw [this]
    · have := (htr (by simp [ht0, htk])).1
      unfold sfpIds; rw [this, List.map_append, List.mem_append]
      simp only [List.map_cons, List.map_nil, List.mem_singleton, haid]
      exact ⟨fun h => h.resolve_right hne, Or.inl⟩
  have hC : (if incoming.id ∈ sfpIds s1 then ([] : List Nat) else [incoming.id])
      = (if incoming.id ∈ sfpIds s then [] else [incoming.id]) := by
    by_cases hx : incoming.id ∈ sfpIds s
    · simp [hx, hmemiff.2 hx]
    · have hx1 : incoming.id ∉ sfpIds s1 := fun h => hx (hmemiff.1 h)
      simp [hx, hx1]
  rw [hC] at h2
  refine (List.Perm.append_left _ h2).trans ?_
  refine (List.perm_append_comm_assoc _ _ _).trans ?_
  exact List.Perm.append_left _ h1

/-- assemblies charged by an operation (when it succeeds) -/
def charged (s : St) : Op → List Nat
  | .dnew a o => if (dischargeSwap (preReg s a) a o).isSome then [a.id] else []
  | .add a _ => [a.id]
  | _ => []

/-- assemblies purged by an operation (when it succeeds) -/
def purgedBy (s : St) : Op → List Nat
  | .remove i d => if (removeAssembly s i d).isSome && !(d && s.track) then [i] else []
  | .dnew a o => if (dischargeSwap (preReg s a) a o).isSome && !s.track then [o] else []
  | .dsfp i o =>
    match s.sfp.find? (fun a => a.id = i) with
    | some a => if (dischargeSwap s a o).isSome && !s.track then [o] else []
    | none => []
  | _ => []

private theorem cascadeLoop_inventory (a0 : Nat) (l : List Nat) (s : St) :
    inventory (cascadeLoop a0 s l).1 = inventory s := by
  induction l generalizing s with
  | nil => rfl
  | cons ak rest ih =>
    unfold cascadeLoop
    split
    · rfl
    · rename_i s' hs
      rw [ih s']
      obtain ⟨h1, h2, _⟩ := swap_keeps_inventory s s' a0 ak hs
      unfold inventory coreIds sfpIds; rw [h1, h2]

/-- **inventory conservation, one operation**: core ∪ pool afterwards, plus what the operation purged, is core ∪
pool before plus what it charged — as multisets (nothing lost, nothing duplicated). -/
theorem conservation_step (s : St) (op : Op) (hI : Inv s) (hp : Pre s op) :
    purgedBy s op ++ inventory (step s op) ~ charged s op ++ inventory s := by
  cases op with
  | swap i j =>
    simp only [step, purgedBy, charged, List.nil_append]
    cases h : swap s i j with
    | none => exact List.Perm.refl _
    | some s' =>
      obtain ⟨h1, h2, _⟩ := swap_keeps_inventory s s' i j h
      simp only [Option.getD_some, inventory, coreIds, sfpIds, h1, h2]; exact List.Perm.refl _
  | cascade l =>
    simp only [step, purgedBy, charged, List.nil_append]
    cases l with
    | nil => exact List.Perm.refl _
    | cons a0 rest => simp only [cascade]; rw [cascadeLoop_inventory]
  | dnew a o =>
    rw [step_dnew]
    simp only [purgedBy, charged]
    cases h : dischargeSwap (preReg s a) a o with
    | none => simp; exact List.Perm.refl _
    | some s' =>
      have hin : a.id ∉ coreIds (preReg s a) := fun hx => hp (List.mem_append_left _ hx)
      have hns : a.id ∉ sfpIds (preReg s a) := fun hx => hp (List.mem_append_right _ hx)
      have := dischargeSwap_inventory (preReg s a) s' a o h hin (inv_preReg s a hI)
      change (if s.track = true then [] else [o]) ++ inventory s' ~
        (if a.id ∈ sfpIds (preReg s a) then [] else [a.id]) ++ inventory s at this
      simp only [hns, if_false] at this
      cases htk : s.track <;> simpa [htk] using this
  | dsfp i o =>
    simp only [step, purgedBy, charged, List.nil_append]
    cases ha : s.sfp.find? (fun a => a.id = i) with
    | none => simp
    | some a =>
      simp only []
      cases h : dischargeSwap s a o with
      | none => simp
      | some s' =>
        have hmem : a.id ∈ sfpIds s := List.mem_map.2 ⟨a, List.mem_of_find?_eq_some ha, rfl⟩
        have hdisj : ∀ x ∈ coreIds s, ∀ y ∈ sfpIds s, x ≠ y := (List.nodup_append.1 hI.nodup).2.2
        have hin : a.id ∉ coreIds s := fun hx => hdisj _ hx _ hmem rfl
        have := dischargeSwap_inventory s s' a o h hin hI
        simp only [hmem, if_true, List.nil_append] at this
        cases htk : s.track <;> simpa [htk] using this
  | remove i d =>
    simp only [step, purgedBy, charged, List.nil_append]
    cases h : removeAssembly s i d with
    | none => simp
    | some s' =>
      have := removeAssembly_inventory s s' i d h hI
      cases hdt : (d && s.track) <;> simpa [hdt] using this
  | add a c =>
    simp only [step, purgedBy, charged, List.nil_append]
    obtain ⟨hfresh, hfree⟩ := hp
    have hany : s.core.any (fun p => p.1.id = a.id) = false := by
      rw [List.any_eq_false]
      intro p hp hpa
      exact hfresh (List.mem_append_left _ (List.mem_map.2 ⟨p, hp, by simpa using hpa⟩))
    simp only [coreAdd, hany, Bool.false_eq_true, if_false, hfree, Option.isSome_none]
    show (s.core ++ [(a, c)]).map (·.1.id) ++ sfpIds s ~ [a.id] ++ (coreIds s ++ sfpIds s)
    rw [List.map_append, List.append_assoc]
    exact (List.perm_middle).trans (by simp [coreIds])

/-- what a whole history charged / purged -/
def chargedRun : St → List Op → List Nat
  | _, [] => []
  | s, op :: rest => charged s op ++ chargedRun (step s op) rest
def purgedRun : St → List Op → List Nat
  | _, [] => []
  | s, op :: rest => purgedBy s op ++ purgedRun (step s op) rest

/-- **inventory conservation over any history**: assemblies in the core plus those in the pool plus the purged
ones are exactly the ones that were there plus the ones that were charged (multiset equality). -/
theorem conservation_run (ops : List Op) (s : St) (hI : Inv s) (hok : RunOK s ops) :
    purgedRun s ops ++ inventory (run s ops) ~ chargedRun s ops ++ inventory s := by
  induction ops generalizing s with
  | nil => exact List.Perm.refl _
  | cons op rest ih =>
    have h1 := conservation_step s op hI hok.1
    have h2 := ih (step s op) (inv_step s op hI hok.1) hok.2
    simp only [purgedRun, chargedRun, run, List.foldl_cons] at h2 ⊢
    -- purged(op) ++ purgedRest ++ inv(final) ~ purged(op) ++ (chargedRest ++ inv(step)) ~ chargedRest ++ (purged(op) ++ inv(step))
    rw [List.append_assoc, List.append_assoc]
    refine (List.Perm.append_left _ h2).trans ?_
    refine (List.perm_append_comm_assoc _ _ _).trans ?_
    refine (List.Perm.append_left _ h1).trans ?_
    exact List.perm_append_comm_assoc _ _ _


end Ledger

/-- the second assembly: where the FIRST assembly's block of that axial position is stationary (equivalently, under
the guard of `transfer`, its own) it receives that block, elsewhere it keeps its own -/
theorem transfer_contents_right (a1 a2 a1' a2' : Asm) (h : transfer a1 a2 = some (a1', a2')) (k : Nat)
    (hk : k < a2.blocks.length) :
    a2'.blocks[k]? = some (match a1.blocks[k]? with
      | some x => if x.stat then x else a2.blocks[k]
      | none => a2.blocks[k]) := by
  unfold transfer at h
  split at h
  · exact absurd h (by simp)
  · simp only [Option.some.injEq, Prod.mk.injEq] at h
    obtain ⟨_, rfl⟩ := h
    exact xchg_right _ _ k hk

/-- **contents and stationary blocks under `swapAssemblies`**: afterwards assembly `i1` sits at `i2`'s old cell and
vice versa; at every axial position a non-stationary block is still in its own assembly (block order unchanged),
a stationary position holds the block that was at that position *of that cell* before (it stayed in place and
changed assembly); every other assembly is untouched. -/
theorem swap_contents (s s' : St) (i1 i2 : Nat) (hne : i1 ≠ i2) (h : swap s i1 i2 = some s')
    (hnd : (s.core.map (·.1.id)).Nodup) :
    ∃ a1 c1 a2 c2 a1' a2', (a1, c1) ∈ s.core ∧ (a2, c2) ∈ s.core ∧ a1.id = i1 ∧ a2.id = i2 ∧
      (a1', c2) ∈ s'.core ∧ (a2', c1) ∈ s'.core ∧ a1'.id = i1 ∧ a2'.id = i2 ∧
      (∀ k (hk : k < a1.blocks.length), a1'.blocks[k]? =
          some (if (a1.blocks[k]).stat then a2.blocks.getD k (a1.blocks[k]) else a1.blocks[k])) ∧
      (∀ k (hk : k < a2.blocks.length), a2'.blocks[k]? =
          some (match a1.blocks[k]? with
            | some x => if x.stat then x else a2.blocks[k]
            | none => a2.blocks[k])) ∧
      (∀ p : Asm × Cell, p.1.id ≠ i1 → p.1.id ≠ i2 → (p ∈ s'.core ↔ p ∈ s.core)) := by
  obtain ⟨a1, c1, a2, c2, a1', a2', m1, m2, k1, k2, ht, hcore, _⟩ := swap_shape s s' i1 i2 hne h hnd
  obtain ⟨e1, e2, _, _⟩ := transfer_ids _ _ _ _ ht
  refine ⟨a1, c1, a2, c2, a1', a2', m1, m2, k1, k2, ?_, ?_, e1.trans k1, e2.trans k2,
    fun k hk => transfer_contents _ _ _ _ ht k hk, fun k hk => transfer_contents_right _ _ _ _ ht k hk, ?_⟩
  · rw [hcore]; exact List.mem_map.2 ⟨(a1, c1), m1, by simp [k1]⟩
  · rw [hcore]; exact List.mem_map.2 ⟨(a2, c2), m2, by simp [k2, Ne.symm hne]⟩
  · intro p hp1 hp2
    rw [hcore, List.mem_map]
    constructor
    · rintro ⟨q, hq, rfl⟩
      by_cases hq1 : q.1.id = i1
      · exfalso; simp [hq1, e1, k1] at hp1
      · by_cases hq2 : q.1.id = i2
        · exfalso; simp [hq2, Ne.symm hne, e2, k2] at hp2
        · simpa [hq1, hq2] using hq
    · intro hp
      exact ⟨p, hp, by simp [hp1, hp2]⟩


/-- **contents and stationary blocks under `dischargeSwap`**: the incoming assembly ends at the outgoing one's cell;
its non-stationary blocks are its own in their order, its stationary positions hold the outgoing assembly's
stationary blocks (they stayed in the core); the outgoing assembly leaves with the incoming one's stationary blocks
and, when tracked, is in the pool; when not tracked its name is no longer found. -/
theorem dischargeSwap_contents (s s' : St) (incoming : Asm) (outId : Nat)
    (h : dischargeSwap s incoming outId = some s') (hin : incoming.id ∉ coreIds s)
    (hnd : (s.core.map (·.1.id)).Nodup) :
    ∃ out c inc' out', (out, c) ∈ s.core ∧ out.id = outId ∧ transfer incoming out = some (inc', out') ∧
      (inc', c) ∈ s'.core ∧ (∀ p ∈ s'.core, p.1.id ≠ outId) ∧
      (s.track = true → out' ∈ s'.sfp) ∧ (s.track = false → s'.byName outId = false) := by
  unfold dischargeSwap at h
  split at h
  · exact absurd h (by simp)
  · rename_i out c hf
    obtain ⟨hm, hid⟩ := find_id hf
    split at h
    · exact absurd h (by simp)
    · rename_i inc' out' ht
      obtain ⟨e1, e2, _, _⟩ := transfer_ids _ _ _ _ ht
      have hne : incoming.id ≠ outId := fun e => hin (List.mem_map.2 ⟨(out, c), hm, by rw [hid, e]⟩)
      cases hrem : removeAssembly (xfer s outId out' c incoming.id inc') outId true with
      | none => rw [hrem] at h; exact absurd h (by simp)
      | some s1 =>
        rw [hrem] at h
        simp only [Option.bind_some, putIn] at h
        split at h
        · exact absurd h (by simp)
        · rename_i hr
          simp only [Option.some.injEq] at h
          obtain ⟨a, c', hm', hid', hcore1, _, _, htr, hpu⟩ := removeAssembly_spec _ s1 outId true hrem
          -- the assembly removed is the transferred outgoing one
          have hshape := updCore_same_cell s.core outId out out' c hm hid (e2.trans hid) hnd
          have hmem0 : (out', c) ∈ (xfer s outId out' c incoming.id inc').core :=
            List.mem_map.2 ⟨(out, c), hm, by simp [hid]⟩
          have hnd0 : ((xfer s outId out' c incoming.id inc').core.map (·.1.id)).Nodup := by
            show ((updCore s.core outId out' c).map (·.1.id)).Nodup
            rw [hshape.1]; exact hnd
          have ha : a = out' := by
            have := ids_inj hnd0 hm' hmem0 (by rw [hid', e2, hid])
            exact (Prod.mk.inj this).1
          -- the add did not raise: unfold it
          cases hany : (s1.core.any fun p => decide (p.1.id = inc'.id)) with
          | true => simp [coreAdd, hany] at hr
          | false =>
            cases hocc : (s1.byLoc c).isSome with
            | true => simp [coreAdd, hany, hocc] at hr
            | false =>
              simp only [coreAdd, hany, hocc, Bool.false_eq_true, if_false] at h
              subst h
              refine ⟨out, c, inc', out', hm, hid, ht, ?_, ?_, ?_, ?_⟩
              · exact List.mem_append_right _ (by simp)
              · intro p hp
                rcases List.mem_append.1 hp with hp | hp
                · rw [hcore1] at hp; exact (mem_filter_ne.1 hp).2
                · simp only [List.mem_singleton] at hp; subst hp; rw [e1]; exact hne
              · intro htk
                have := (htr (by simpa [xfer] using htk)).1
                show out' ∈ s1.sfp.filter (fun a => a.id ≠ incoming.id)
                rw [this, List.mem_filter]
                refine ⟨List.mem_append_right _ (by simp [ha]), ?_⟩
                simp only [ne_eq, decide_not, Bool.not_eq_true', decide_eq_false_iff_not]
                rw [e2, hid]; exact fun e => hne e.symm
              · intro htk
                have := (hpu (by simpa [xfer] using htk)).2.1
                show setKey s1.byName inc'.id true outId = false
                simp only [setKey, e1]
                rw [if_neg (fun e => hne e.symm)]
                exact this


/-! ### blocks are found (tracking on, no purge) -/

/-- every block of every assembly in the core or the pool is registered in `blocksByName` -/
def BlkFound (s : St) : Prop :=
  (∀ p ∈ s.core, ∀ b ∈ p.1.blocks, s.bbn b.bid = true) ∧ (∀ a ∈ s.sfp, ∀ b ∈ a.blocks, s.bbn b.bid = true)

private theorem transfer_perm (a1 a2 a1' a2' : Asm) (h : transfer a1 a2 = some (a1', a2')) :
    (a1'.blocks ++ a2'.blocks).Perm (a1.blocks ++ a2.blocks) := by
  unfold transfer at h
  split at h
  · exact absurd h (by simp)
  · simp only [Option.some.injEq, Prod.mk.injEq] at h
    obtain ⟨rfl, rfl⟩ := h
    exact xchg_perm _ _

private theorem transfer_subset (a1 a2 a1' a2' : Asm) (h : transfer a1 a2 = some (a1', a2')) :
    (∀ b ∈ a1'.blocks, b ∈ a1.blocks ∨ b ∈ a2.blocks) ∧ (∀ b ∈ a2'.blocks, b ∈ a1.blocks ∨ b ∈ a2.blocks) := by
  have hp := transfer_perm _ _ _ _ h
  exact ⟨fun b hb => List.mem_append.1 (hp.mem_iff.1 (List.mem_append_left _ hb)),
    fun b hb => List.mem_append.1 (hp.mem_iff.1 (List.mem_append_right _ hb))⟩

private theorem statIdx_nil_iff (a : Asm) : statIdx a = [] ↔ ∀ b ∈ a.blocks, b.stat = false := by
  unfold statIdx
  rw [List.map_eq_nil_iff, List.filter_eq_nil_iff]
  constructor
  · intro h b hb
    obtain ⟨k, hk, rfl⟩ := List.mem_iff_getElem.1 hb
    have : (a.blocks[k], k) ∈ a.blocks.zipIdx := List.mk_mem_zipIdx_iff_getElem?.2 (List.getElem?_eq_getElem hk)
    simpa using h _ this
  · intro h x hx
    have := h x.1 (List.fst_mem_of_mem_zipIdx hx)
    simp [this]

/-- an assembly without stationary blocks exchanges nothing -/
theorem transfer_no_stat (a1 a2 a1' a2' : Asm) (h : transfer a1 a2 = some (a1', a2'))
    (hns : ∀ b ∈ a1.blocks, b.stat = false) : a1'.blocks = a1.blocks ∧ a2'.blocks = a2.blocks := by
  unfold transfer at h
  split at h
  · exact absurd h (by simp)
  · simp only [Option.some.injEq, Prod.mk.injEq] at h
    obtain ⟨rfl, rfl⟩ := h
    rw [xchg_nostat _ _ hns]; exact ⟨rfl, rfl⟩

private theorem blkFound_swap (s s' : St) (i1 i2 : Nat) (hne : i1 ≠ i2) (h : swap s i1 i2 = some s')
    (hnd : (s.core.map (·.1.id)).Nodup) (hB : BlkFound s) : BlkFound s' := by
  obtain ⟨a1, c1, a2, c2, a1', a2', m1, m2, k1, k2, ht, hcore, _, hsfp, _, hbbn, _⟩ := swap_shape s s' i1 i2 hne h hnd
  obtain ⟨t1, t2⟩ := transfer_subset _ _ _ _ ht
  have reg : ∀ b, b ∈ a1.blocks ∨ b ∈ a2.blocks → s.bbn b.bid = true := by
    intro b hb
    rcases hb with hb | hb
    · exact hB.1 _ m1 b hb
    · exact hB.1 _ m2 b hb
  constructor
  · intro q hq b hb
    rw [hbbn]
    rw [hcore] at hq
    obtain ⟨p, hp, rfl⟩ := List.mem_map.1 hq
    by_cases hp1 : p.1.id = i1
    · simp only [hp1, if_true] at hb; exact reg b (t1 b hb)
    · by_cases hp2 : p.1.id = i2
      · simp only [hp2, if_neg (Ne.symm hne), if_true] at hb; exact reg b (t2 b hb)
      · simp only [hp1, hp2, if_false] at hb; exact hB.1 p hp b hb
  · intro a ha b hb
    rw [hbbn]; rw [hsfp] at ha; exact hB.2 a ha b hb

private theorem blkFound_cascadeLoop (a0 : Nat) (l : List Nat) (s : St) (hne : ∀ ak ∈ l, a0 ≠ ak) (hI : Inv s)
    (hB : BlkFound s) : BlkFound (cascadeLoop a0 s l).1 := by
  induction l generalizing s with
  | nil => exact hB
  | cons ak rest ih =>
    unfold cascadeLoop
    split
    · exact hB
    · rename_i s' hs
      have hn := hne ak List.mem_cons_self
      exact ih s' (fun x hx => hne x (List.mem_cons_of_mem _ hx)) (inv_swap s s' a0 ak hn hs hI)
        (blkFound_swap s s' a0 ak hn hs (List.nodup_append.1 hI.nodup).1 hB)

private theorem blkFound_discharge_tracked (s s' : St) (i : Nat) (h : removeAssembly s i true = some s')
    (htk : s.track = true) (hB : BlkFound s) : BlkFound s' := by
  obtain ⟨a, c, hm, _, hcore, _, _, htr, _⟩ := removeAssembly_spec s s' i true h
  obtain ⟨hsfp, _, hbbn⟩ := htr (by simp [htk])
  constructor
  · intro p hp b hb
    rw [hcore] at hp
    rw [hbbn]; exact hB.1 p (mem_filter_ne.1 hp).1 b hb
  · intro x hx b hb
    rw [hbbn]
    rw [hsfp] at hx
    rcases List.mem_append.1 hx with hx | hx
    · exact hB.2 x hx b hb
    · simp only [List.mem_singleton] at hx; subst hx; exact hB.1 _ hm b hb

private theorem blkFound_coreAdd (s : St) (a : Asm) (c : Cell) (hB : BlkFound s) (hr : (coreAdd s a c).raised = false) :
    BlkFound (coreAdd s a c).st := by
  unfold coreAdd at hr ⊢
  dsimp only at hr ⊢
  split
  · rename_i h; simp [h] at hr
  · split
    · rename_i h1 h2; simp [h1, h2] at hr
    · constructor
      · intro p hp b hb
        show setKeys s.bbn (a.blocks.map (·.bid)) true b.bid = true
        simp only [setKeys]
        split
        · rfl
        · rcases List.mem_append.1 hp with hp | hp
          · exact hB.1 p hp b hb
          · simp only [List.mem_singleton] at hp; subst hp
            rename_i hnot; exact absurd (List.mem_map.2 ⟨b, hb, rfl⟩) hnot
      · intro x hx b hb
        show setKeys s.bbn (a.blocks.map (·.bid)) true b.bid = true
        simp only [setKeys]
        split
        · rfl
        · exact hB.2 x hx b hb

/-- `dischargeSwap` with tracking keeps every block findable when the incoming assembly comes from the pool or has
no stationary blocks (a fresh assembly WITH stationary blocks is the finding `discharge-fresh-stationary-block-names`) -/
private theorem blkFound_dischargeSwap (s s' : St) (incoming : Asm) (outId : Nat)
    (h : dischargeSwap s incoming outId = some s') (htk : s.track = true)
    (hinc : incoming ∈ s.sfp ∨ ∀ b ∈ incoming.blocks, b.stat = false) (hB : BlkFound s) : BlkFound s' := by
  unfold dischargeSwap at h
  split at h
  · exact absurd h (by simp)
  · rename_i out c hf
    obtain ⟨hm, hid⟩ := find_id hf
    split at h
    · exact absurd h (by simp)
    · rename_i inc' out' ht
      obtain ⟨t1, t2⟩ := transfer_subset _ _ _ _ ht
      -- blocks of the transferred assemblies are registered, except possibly inc' (registered by the add)
      have hout' : ∀ b ∈ out'.blocks, s.bbn b.bid = true := by
        intro b hb
        rcases hinc with hin | hns
        · rcases t2 b hb with hb | hb
          · exact hB.2 _ hin b hb
          · exact hB.1 _ hm b hb
        · rw [(transfer_no_stat _ _ _ _ ht hns).2] at hb; exact hB.1 _ hm b hb
      -- the state after the exchange, minus what the add will register
      have hB0 : (∀ p ∈ (xfer s outId out' c incoming.id inc').core, ∀ b ∈ p.1.blocks, s.bbn b.bid = true) ∧
          (∀ a ∈ (xfer s outId out' c incoming.id inc').sfp, a.id ≠ incoming.id → ∀ b ∈ a.blocks, s.bbn b.bid = true) := by
        constructor
        · intro p hp b hb
          obtain ⟨q, hq, rfl⟩ := List.mem_map.1 hp
          split at hb
          · exact hout' b hb
          · exact hB.1 q hq b hb
        · intro a ha hai b hb
          obtain ⟨q, hq, rfl⟩ := List.mem_map.1 ha
          split at hb
          · rename_i hqi
            split at hai
            · exact absurd (transfer_ids _ _ _ _ ht).1 hai
            · rename_i hqn; exact absurd hqi hqn
          · exact hB.2 q hq b hb
      cases hrem : removeAssembly (xfer s outId out' c incoming.id inc') outId true with
      | none => rw [hrem] at h; exact absurd h (by simp)
      | some s1 =>
        rw [hrem] at h
        simp only [Option.bind_some, putIn] at h
        split at h
        · exact absurd h (by simp)
        · rename_i hr
          simp only [Option.some.injEq] at h
          obtain ⟨a, c', hm', _, hcore1, _, _, htr, _⟩ := removeAssembly_spec _ s1 outId true hrem
          obtain ⟨hsfp1, _, hbbn1⟩ := htr (by simp [xfer, htk])
          have hbbn1' : s1.bbn = s.bbn := hbbn1
          -- BlkFound of the state handed to the add, restricted as above, then the add
          have hpre : BlkFound { s1 with sfp := s1.sfp.filter (fun a => a.id ≠ incoming.id) } := by
            constructor
            · intro p hp b hb
              show s1.bbn b.bid = true
              rw [hbbn1']
              have : p ∈ s1.core := hp
              rw [hcore1] at this
              exact hB0.1 p (mem_filter_ne.1 this).1 b hb
            · intro x hx b hb
              show s1.bbn b.bid = true
              rw [hbbn1']
              have hx' := List.mem_filter.1 hx
              have hxi : x.id ≠ incoming.id := by simpa using hx'.2
              rw [hsfp1] at hx'
              rcases List.mem_append.1 hx'.1 with hx1 | hx1
              · exact hB0.2 x hx1 hxi b hb
              · simp only [List.mem_singleton] at hx1; subst hx1
                exact hB0.1 _ hm' b hb
          have := blkFound_coreAdd _ inc' c hpre (by simpa using hr)
          rw [← h]; exact this

private theorem removeAssembly_track (s s' : St) (i : Nat) (d : Bool) (h : removeAssembly s i d = some s') :
    s'.track = s.track := by
  unfold removeAssembly at h
  split at h
  · exact absurd h (by simp)
  · split at h
    · exact absurd h (by simp)
    · split at h <;> (simp only [Option.some.injEq] at h; subst h; rfl)

private theorem coreAdd_track (s : St) (a : Asm) (c : Cell) : (coreAdd s a c).st.track = s.track := by
  unfold coreAdd; dsimp only; split
  · rfl
  · split <;> rfl

private theorem dischargeSwap_track (s s' : St) (incoming : Asm) (outId : Nat)
    (h : dischargeSwap s incoming outId = some s') : s'.track = s.track := by
  unfold dischargeSwap at h
  split at h
  · exact absurd h (by simp)
  · split at h
    · exact absurd h (by simp)
    · rename_i out c _ _ inc' out' _
      cases hrem : removeAssembly (xfer s outId out' c incoming.id inc') outId true with
      | none => rw [hrem] at h; exact absurd h (by simp)
      | some s1 =>
        rw [hrem] at h
        simp only [Option.bind_some, putIn] at h
        split at h
        · exact absurd h (by simp)
        · simp only [Option.some.injEq] at h
          rw [← h, coreAdd_track]
          exact (removeAssembly_track _ s1 outId true hrem).trans rfl

private theorem cascadeLoop_track (a0 : Nat) (l : List Nat) (s : St) : (cascadeLoop a0 s l).1.track = s.track := by
  induction l generalizing s with
  | nil => rfl
  | cons ak rest ih =>
    unfold cascadeLoop
    split
    · rfl
    · rename_i s' hs
      rw [ih s']; exact (swap_keeps_inventory s s' a0 ak hs).2.2.2.2

theorem step_track (s : St) (op : Op) : (step s op).track = s.track := by
  cases op with
  | swap i j =>
    simp only [step]
    cases h : swap s i j with
    | none => rfl
    | some s' => exact (swap_keeps_inventory s s' i j h).2.2.2.2
  | cascade l =>
    simp only [step]
    cases l with
    | nil => rfl
    | cons a0 rest => exact cascadeLoop_track a0 rest s
  | dnew a o =>
    rw [step_dnew]
    cases h : dischargeSwap (preReg s a) a o with
    | none => rfl
    | some s' => exact dischargeSwap_track (preReg s a) s' a o h
  | dsfp i o =>
    simp only [step]
    split
    · rename_i a _
      cases h : dischargeSwap s a o with
      | none => rfl
      | some s' => exact dischargeSwap_track s s' a o h
    · rfl
  | remove i d =>
    simp only [step]
    cases h : removeAssembly s i d with
    | none => rfl
    | some s' => exact removeAssembly_track s s' i d h
  | add a c => exact coreAdd_track s a c

/-- extra preconditions of the block-level theorem: a fresh incoming assembly has no stationary blocks, nothing is
purged -/
def BPre : Op → Prop
  | .dnew a _ => ∀ b ∈ a.blocks, b.stat = false
  | .remove _ d => d = true
  | _ => True

theorem blkFound_step (s : St) (op : Op) (hI : Inv s) (hp : Pre s op) (htk : s.track = true) (hbp : BPre op)
    (hB : BlkFound s) : BlkFound (step s op) := by
  have hndc : (s.core.map (·.1.id)).Nodup := (List.nodup_append.1 hI.nodup).1
  cases op with
  | swap i j =>
    simp only [step]
    cases h : swap s i j with
    | none => exact hB
    | some s' =>
      by_cases hij : i = j
      · subst hij; rw [swap_self s s' i h]; exact hB
      · exact blkFound_swap s s' i j hij h hndc hB
  | cascade l =>
    simp only [step]
    cases l with
    | nil => exact hB
    | cons a0 rest =>
      exact (cascadeLoop_any BlkFound (fun s s' i j hij h hI hB =>
        blkFound_swap s s' i j hij h (List.nodup_append.1 hI.nodup).1 hB) a0 rest s hI hB).1
  | dnew a o =>
    rw [step_dnew]
    have hB0 : BlkFound (preReg s a) := by
      constructor
      · intro p hp' b hb; show setKeys s.bbn _ true b.bid = true
        simp only [setKeys]; split
        · rfl
        · exact hB.1 p hp' b hb
      · intro x hx b hb; show setKeys s.bbn _ true b.bid = true
        simp only [setKeys]; split
        · rfl
        · exact hB.2 x hx b hb
    cases h : dischargeSwap (preReg s a) a o with
    | none => exact hB0
    | some s' => exact blkFound_dischargeSwap (preReg s a) s' a o h htk (Or.inr hbp) hB0
  | dsfp i o =>
    simp only [step]
    split
    · rename_i a ha
      cases h : dischargeSwap s a o with
      | none => exact hB
      | some s' =>
        have hmem : a ∈ s.sfp := List.mem_of_find?_eq_some ha
        exact blkFound_dischargeSwap s s' a o h htk (Or.inl hmem) hB
    · exact hB
  | remove i d =>
    simp only [step]
    have hd : d = true := hbp
    subst hd
    cases h : removeAssembly s i true with
    | none => exact hB
    | some s' => exact blkFound_discharge_tracked s s' i h htk hB
  | add a c =>
    simp only [step]
    obtain ⟨hfresh, hfree⟩ := hp
    apply blkFound_coreAdd s a c hB
    have hany : s.core.any (fun p => p.1.id = a.id) = false := by
      rw [List.any_eq_false]
      intro p hp hpa
      exact hfresh (List.mem_append_left _ (List.mem_map.2 ⟨p, hp, by simpa using hpa⟩))
    simp [coreAdd, hany, hfree]

/-- **with tracking on and no purge, after any history every block of every assembly in the core or the pool is
found in `blocksByName`** — partial: histories that purge (tracking off, `removeAssembly(discharge=False)`) are
covered for assemblies (`Inv.nameOnly`, `purged_not_found`, `removeAssembly_spec`) but not block-wise over whole
histories; a fresh incoming assembly carrying stationary blocks is excluded (finding). -/
theorem blocks_found_run_partial (ops : List Op) (s : St) (hI : Inv s) (hok : RunOK s ops)
    (htk : s.track = true) (hbp : ∀ op ∈ ops, BPre op) (hB : BlkFound s) : BlkFound (run s ops) := by
  induction ops generalizing s with
  | nil => exact hB
  | cons op rest ih =>
    exact ih (step s op) (inv_step s op hI hok.1) hok.2 (by rw [step_track]; exact htk)
      (fun o ho => hbp o (List.mem_cons_of_mem _ ho))
      (blkFound_step s op hI hok.1 htk (hbp op List.mem_cons_self) hB)

theorem blkFound_init (ks : List (Asm × Cell)) (sf : List Asm) (track : Bool) : BlkFound (initSt ks sf track) := by
  constructor
  · intro p hp b hb
    show (ks.map (·.1) ++ sf).any (fun a => a.blocks.any (fun x => x.bid = b.bid)) = true
    rw [List.any_eq_true]
    exact ⟨p.1, List.mem_append_left _ (List.mem_map.2 ⟨p, hp, rfl⟩), by
      rw [List.any_eq_true]; exact ⟨b, hb, by simp⟩⟩
  · intro a ha b hb
    show (ks.map (·.1) ++ sf).any (fun a => a.blocks.any (fun x => x.bid = b.bid)) = true
    rw [List.any_eq_true]
    exact ⟨a, List.mem_append_right _ ha, by rw [List.any_eq_true]; exact ⟨b, hb, by simp⟩⟩


example : BlkFound (run exSt [.swap 1 2, .cascade [1, 2, 3], .dsfp 9 1, .remove 3 true]) :=
  blocks_found_run_partial _ _ (inv_init _ _ _ (by decide) (by decide))
    (by
      simp only [RunOK, Pre]
      exact ⟨trivial, trivial, trivial, trivial, trivial⟩)
    rfl
    (by intro op hop; simp only [List.mem_cons, List.not_mem_nil, or_false] at hop
        rcases hop with rfl | rfl | rfl | rfl <;> simp [BPre])
    (blkFound_init _ _ _)



/-! ### blocks with purging and stationary blocks -/

/-- `a` is one of the assemblies the reactor holds (core child or pool child) -/
def Holds (s : St) (a : Asm) : Prop := (∃ c, (a, c) ∈ s.core) ∨ a ∈ s.sfp

abbrev NoStat (a : Asm) : Prop := ∀ b ∈ a.blocks, b.stat = false

/-- block-level invariant for histories that may purge: every block present is found, nothing else is found
(blocks of purged assemblies in particular), different assemblies share no block, no assembly holds a block twice -/
structure BInv (s : St) : Prop where
  nodupIn : ∀ a, Holds s a → (a.blocks.map (·.bid)).Nodup
  found : ∀ a, Holds s a → ∀ b ∈ a.blocks, s.bbn b.bid = true
  only : ∀ x, s.bbn x = true → ∃ a, Holds s a ∧ ∃ b ∈ a.blocks, b.bid = x
  disj : ∀ a a', Holds s a → Holds s a' → a.id ≠ a'.id → ∀ b ∈ a.blocks, ∀ b' ∈ a'.blocks, b.bid ≠ b'.bid

private theorem binv_of_holds_iff (s t : St) (hm : ∀ a, Holds t a ↔ Holds s a) (hb : t.bbn = s.bbn)
    (h : BInv s) : BInv t := by
  refine ⟨fun a ha => h.nodupIn a ((hm a).1 ha), fun a ha b hb' => by rw [hb]; exact h.found a ((hm a).1 ha) b hb',
    ?_, fun a a' ha ha' => h.disj a a' ((hm a).1 ha) ((hm a').1 ha')⟩
  intro x hx
  rw [hb] at hx
  obtain ⟨a, ha, hbx⟩ := h.only x hx
  exact ⟨a, (hm a).2 ha, hbx⟩

private theorem asm_ext (a b : Asm) (h1 : a.id = b.id) (h2 : a.blocks = b.blocks) : a = b := by
  cases a; cases b; simp_all

private theorem holds_unique (s : St) (hN : (inventory s).Nodup) (a b : Asm) (ha : Holds s a) (hb : Holds s b)
    (hid : a.id = b.id) : a = b := by
  have hnd := hN
  have hndc : (s.core.map (·.1.id)).Nodup := (List.nodup_append.1 hnd).1
  have hnds : (s.sfp.map (·.id)).Nodup := (List.nodup_append.1 hnd).2.1
  have hdisj : ∀ x ∈ coreIds s, ∀ y ∈ sfpIds s, x ≠ y := (List.nodup_append.1 hnd).2.2
  rcases ha with ⟨c, ha⟩ | ha <;> rcases hb with ⟨c', hb⟩ | hb
  · exact (Prod.mk.inj (ids_inj hndc ha hb hid)).1
  · exact absurd hid (hdisj _ (List.mem_map.2 ⟨_, ha, rfl⟩) _ (List.mem_map.2 ⟨_, hb, rfl⟩))
  · exact absurd hid.symm (hdisj _ (List.mem_map.2 ⟨_, hb, rfl⟩) _ (List.mem_map.2 ⟨_, ha, rfl⟩))
  · exact List.inj_on_of_nodup_map hnds ha hb hid

/-- two held assemblies trade blocks (their block lists together stay the same multiset): the block-level
invariant is kept -/
private theorem binv_exchange (s t : St) (hI : (inventory s).Nodup) (hB : BInv s) (a1 a2 a1' a2' : Asm)
    (h1 : Holds s a1) (h2 : Holds s a2) (hne : a1.id ≠ a2.id) (e1 : a1'.id = a1.id) (e2 : a2'.id = a2.id)
    (hp : (a1'.blocks ++ a2'.blocks).Perm (a1.blocks ++ a2.blocks))
    (hm : ∀ x, Holds t x ↔ (Holds s x ∧ x.id ≠ a1.id ∧ x.id ≠ a2.id) ∨ x = a1' ∨ x = a2')
    (hb : t.bbn = s.bbn) : BInv t := by
  have K : ((a1.blocks ++ a2.blocks).map (·.bid)).Nodup := by
    rw [List.map_append, List.nodup_append]
    refine ⟨hB.nodupIn a1 h1, hB.nodupIn a2 h2, ?_⟩
    intro x hx y hy
    obtain ⟨b, hb1, rfl⟩ := List.mem_map.1 hx
    obtain ⟨b', hb2, rfl⟩ := List.mem_map.1 hy
    exact hB.disj a1 a2 h1 h2 hne b hb1 b' hb2
  have K' : ((a1'.blocks ++ a2'.blocks).map (·.bid)).Nodup := (hp.map _).nodup_iff.2 K
  rw [List.map_append, List.nodup_append] at K'
  have memiff : ∀ b, (b ∈ a1'.blocks ∨ b ∈ a2'.blocks) ↔ (b ∈ a1.blocks ∨ b ∈ a2.blocks) := by
    intro b; rw [← List.mem_append, ← List.mem_append]; exact hp.mem_iff
  have regold : ∀ b, (b ∈ a1.blocks ∨ b ∈ a2.blocks) → s.bbn b.bid = true := by
    rintro b (hb1 | hb2)
    · exact hB.found a1 h1 b hb1
    · exact hB.found a2 h2 b hb2
  -- a held assembly other than the two shares no block with the traded ones
  have disjold : ∀ x, Holds s x → x.id ≠ a1.id → x.id ≠ a2.id → ∀ b ∈ x.blocks, ∀ b',
      (b' ∈ a1'.blocks ∨ b' ∈ a2'.blocks) → b.bid ≠ b'.bid := by
    intro x hx n1 n2 b hbx b' hb'
    rcases (memiff b').1 hb' with h | h
    · exact hB.disj x a1 hx h1 n1 b hbx b' h
    · exact hB.disj x a2 hx h2 n2 b hbx b' h
  refine ⟨?_, ?_, ?_, ?_⟩
  · intro x hx
    rcases (hm x).1 hx with ⟨hx, _, _⟩ | rfl | rfl
    · exact hB.nodupIn x hx
    · exact K'.1
    · exact K'.2.1
  · intro x hx b hbx
    rw [hb]
    rcases (hm x).1 hx with ⟨hx, _, _⟩ | rfl | rfl
    · exact hB.found x hx b hbx
    · exact regold b ((memiff b).1 (Or.inl hbx))
    · exact regold b ((memiff b).1 (Or.inr hbx))
  · intro y hy
    rw [hb] at hy
    obtain ⟨a, ha, b, hba, hby⟩ := hB.only y hy
    by_cases n1 : a.id = a1.id
    · have := holds_unique s hI a a1 ha h1 n1; subst this
      rcases (memiff b).2 (Or.inl hba) with h | h
      · exact ⟨a1', (hm a1').2 (Or.inr (Or.inl rfl)), b, h, hby⟩
      · exact ⟨a2', (hm a2').2 (Or.inr (Or.inr rfl)), b, h, hby⟩
    · by_cases n2 : a.id = a2.id
      · have := holds_unique s hI a a2 ha h2 n2; subst this
        rcases (memiff b).2 (Or.inr hba) with h | h
        · exact ⟨a1', (hm a1').2 (Or.inr (Or.inl rfl)), b, h, hby⟩
        · exact ⟨a2', (hm a2').2 (Or.inr (Or.inr rfl)), b, h, hby⟩
      · exact ⟨a, (hm a).2 (Or.inl ⟨ha, n1, n2⟩), b, hba, hby⟩
  · intro x x' hx hx' hxx b hbx b' hbx'
    rcases (hm x).1 hx with ⟨hx, n1, n2⟩ | rfl | rfl <;> rcases (hm x').1 hx' with ⟨hx', n1', n2'⟩ | rfl | rfl
    · exact hB.disj x x' hx hx' hxx b hbx b' hbx'
    · exact disjold x hx n1 n2 b hbx b' (Or.inl hbx')
    · exact disjold x hx n1 n2 b hbx b' (Or.inr hbx')
    · exact (disjold x' hx' n1' n2' b' hbx' b (Or.inl hbx)).symm
    · exact absurd rfl hxx
    · exact K'.2.2 _ (List.mem_map.2 ⟨b, hbx, rfl⟩) _ (List.mem_map.2 ⟨b', hbx', rfl⟩)
    · exact (disjold x' hx' n1' n2' b' hbx' b (Or.inr hbx)).symm
    · exact (K'.2.2 _ (List.mem_map.2 ⟨b', hbx', rfl⟩) _ (List.mem_map.2 ⟨b, hbx, rfl⟩)).symm
    · exact absurd rfl hxx

private theorem binv_swap (s s' : St) (i1 i2 : Nat) (hne : i1 ≠ i2) (h : swap s i1 i2 = some s')
    (hI : (inventory s).Nodup) (hB : BInv s) : BInv s' := by
  have hndc : (s.core.map (·.1.id)).Nodup := (List.nodup_append.1 hI).1
  have hdisj : ∀ x ∈ coreIds s, ∀ y ∈ sfpIds s, x ≠ y := (List.nodup_append.1 hI).2.2
  obtain ⟨a1, c1, a2, c2, a1', a2', m1, m2, k1, k2, ht, hcore, _, hsfp, _, hbbn, _⟩ := swap_shape s s' i1 i2 hne h hndc
  obtain ⟨e1, e2, _, _⟩ := transfer_ids _ _ _ _ ht
  refine binv_exchange s s' hI hB a1 a2 a1' a2' (Or.inl ⟨c1, m1⟩) (Or.inl ⟨c2, m2⟩) (by rw [k1, k2]; exact hne) e1 e2
    (transfer_perm _ _ _ _ ht) ?_ hbbn
  intro x
  unfold Holds
  rw [hsfp, hcore, k1, k2]
  constructor
  · rintro (⟨c, hc⟩ | hs)
    · obtain ⟨p, hp, hpe⟩ := List.mem_map.1 hc
      by_cases hp1 : p.1.id = i1
      · rw [if_pos hp1] at hpe; exact Or.inr (Or.inl (Prod.mk.inj hpe).1.symm)
      · by_cases hp2 : p.1.id = i2
        · rw [if_neg hp1, if_pos hp2] at hpe; exact Or.inr (Or.inr (Prod.mk.inj hpe).1.symm)
        · rw [if_neg hp1, if_neg hp2] at hpe
          subst hpe
          exact Or.inl ⟨Or.inl ⟨_, hp⟩, hp1, hp2⟩
    · have hxs : x.id ∈ sfpIds s := List.mem_map.2 ⟨x, hs, rfl⟩
      exact Or.inl ⟨Or.inr hs,
        fun e => hdisj i1 (List.mem_map.2 ⟨_, m1, k1⟩) x.id hxs e.symm,
        fun e => hdisj i2 (List.mem_map.2 ⟨_, m2, k2⟩) x.id hxs e.symm⟩
  · rintro (⟨⟨c, hc⟩ | hs, n1, n2⟩ | rfl | rfl)
    · refine Or.inl ⟨c, List.mem_map.2 ⟨(x, c), hc, ?_⟩⟩
      show (if x.id = i1 then (a1', c2) else if x.id = i2 then (a2', c1) else (x, c)) = (x, c)
      rw [if_neg n1, if_neg n2]
    · exact Or.inr hs
    · exact Or.inl ⟨c2, List.mem_map.2 ⟨(a1, c1), m1, by simp [k1]⟩⟩
    · exact Or.inl ⟨c1, List.mem_map.2 ⟨(a2, c2), m2, by simp [k2, Ne.symm hne]⟩⟩

private theorem binv_cascadeLoop (a0 : Nat) (l : List Nat) (s : St) (hne : ∀ ak ∈ l, a0 ≠ ak)
    (hI : (inventory s).Nodup)
    (hB : BInv s) : BInv (cascadeLoop a0 s l).1 := by
  induction l generalizing s with
  | nil => exact hB
  | cons ak rest ih =>
    unfold cascadeLoop
    split
    · exact hB
    · rename_i s' hs
      have hn := hne ak List.mem_cons_self
      have hinv : inventory s' = inventory s := by
        obtain ⟨h1, h2, _⟩ := swap_keeps_inventory s s' a0 ak hs
        unfold inventory coreIds sfpIds; rw [h1, h2]
      exact ih s' (fun x hx => hne x (List.mem_cons_of_mem _ hx)) (by rw [hinv]; exact hI)
        (binv_swap s s' a0 ak hn hs hI hB)

private theorem binv_removeAssembly (s s' : St) (i : Nat) (d : Bool) (h : removeAssembly s i d = some s')
    (hI : (inventory s).Nodup) (hB : BInv s) : BInv s' := by
  have hndc : (s.core.map (·.1.id)).Nodup := (List.nodup_append.1 hI).1
  have hdisj : ∀ x ∈ coreIds s, ∀ y ∈ sfpIds s, x ≠ y := (List.nodup_append.1 hI).2.2
  obtain ⟨a0, c0, hm0, hid0, hcore, _, _, htr, hpu⟩ := removeAssembly_spec s s' i d h
  have h0 : Holds s a0 := Or.inl ⟨c0, hm0⟩
  cases hdt : (d && s.track)
  · -- purge
    obtain ⟨hsfp, _, _, _, hbbn⟩ := hpu hdt
    have hmem : ∀ a, Holds s' a ↔ Holds s a ∧ a.id ≠ i := by
      intro a
      unfold Holds
      rw [hcore, hsfp]
      constructor
      · rintro (⟨c, hc⟩ | hs)
        · have := mem_filter_ne.1 hc; exact ⟨Or.inl ⟨c, this.1⟩, this.2⟩
        · exact ⟨Or.inr hs, fun e => hdisj i (List.mem_map.2 ⟨_, hm0, hid0⟩) a.id (List.mem_map.2 ⟨a, hs, rfl⟩) e.symm⟩
      · rintro ⟨⟨c, hc⟩ | hs, hne⟩
        · exact Or.inl ⟨c, mem_filter_ne.2 ⟨hc, hne⟩⟩
        · exact Or.inr hs
    refine ⟨fun a ha => hB.nodupIn a ((hmem a).1 ha).1, ?_, ?_, fun a a' ha ha' => hB.disj a a' ((hmem a).1 ha).1 ((hmem a').1 ha').1⟩
    · intro a ha b hb
      obtain ⟨has, hai⟩ := (hmem a).1 ha
      rw [hbbn]
      simp only [setKeys]
      rw [if_neg]
      · exact hB.found a has b hb
      · intro hin
        obtain ⟨b0, hb0, hbe⟩ := List.mem_map.1 hin
        exact hB.disj a a0 has h0 (by rw [hid0]; exact hai) b hb b0 hb0 hbe.symm
    · intro x hx
      rw [hbbn] at hx
      simp only [setKeys] at hx
      split at hx
      · exact absurd hx (by simp)
      · rename_i hnin
        obtain ⟨a, ha, b, hb, hbx⟩ := hB.only x hx
        refine ⟨a, (hmem a).2 ⟨ha, ?_⟩, b, hb, hbx⟩
        intro hai
        have : a = a0 := holds_unique s hI a a0 ha h0 (by rw [hai, hid0])
        subst this
        exact hnin (List.mem_map.2 ⟨b, hb, hbx⟩)
  · -- discharge into the pool
    obtain ⟨hsfp, _, hbbn⟩ := htr hdt
    apply binv_of_holds_iff s s' _ hbbn hB
    intro a
    unfold Holds
    rw [hcore, hsfp]
    constructor
    · rintro (⟨c, hc⟩ | hs)
      · exact Or.inl ⟨c, (mem_filter_ne.1 hc).1⟩
      · rcases List.mem_append.1 hs with hs | hs
        · exact Or.inr hs
        · simp only [List.mem_singleton] at hs; subst hs; exact h0
    · rintro (⟨c, hc⟩ | hs)
      · by_cases hai : a.id = i
        · have : (a, c) = (a0, c0) := ids_inj hndc hc hm0 (by rw [hai, hid0])
          exact Or.inr (List.mem_append_right _ (by simp [(Prod.mk.inj this).1]))
        · exact Or.inl ⟨c, mem_filter_ne.2 ⟨hc, hai⟩⟩
      · exact Or.inr (List.mem_append_left _ hs)

private theorem removeAssembly_holds_sub (s s' : St) (i : Nat) (d : Bool) (h : removeAssembly s i d = some s')
    (x : Asm) (hx : Holds s' x) : Holds s x := by
  obtain ⟨a0, c0, hm0, _, hcore, _, _, htr, hpu⟩ := removeAssembly_spec s s' i d h
  unfold Holds at hx ⊢
  rw [hcore] at hx
  rcases hx with ⟨c, hc⟩ | hs
  · exact Or.inl ⟨c, (mem_filter_ne.1 hc).1⟩
  · cases hdt : (d && s.track)
    · rw [(hpu hdt).1] at hs; exact Or.inr hs
    · rw [(htr hdt).1] at hs
      rcases List.mem_append.1 hs with hs | hs
      · exact Or.inr hs
      · simp only [List.mem_singleton] at hs; subst hs; exact Or.inl ⟨c0, hm0⟩

private theorem disj_symm {a x : Asm} (h : ∀ b ∈ a.blocks, ∀ b' ∈ x.blocks, b.bid ≠ b'.bid) :
    ∀ b ∈ x.blocks, ∀ b' ∈ a.blocks, b.bid ≠ b'.bid := fun b hb b' hb' => (h b' hb' b hb).symm

/-- `sfp.remove(a)` (if pooled) + `core.add(a, cell)`: block-level invariant -/
private theorem binv_putIn (s1 s' : St) (a : Asm) (c : Cell) (h : putIn s1 a.id a c = some s') (hB : BInv s1)
    (hns : (a.blocks.map (·.bid)).Nodup) (hU : ∀ x, Holds s1 x → x.id = a.id → x = a)
    (hD : ∀ x, Holds s1 x → x.id ≠ a.id → ∀ b ∈ a.blocks, ∀ b' ∈ x.blocks, b.bid ≠ b'.bid) : BInv s' := by
  unfold putIn coreAdd at h
  dsimp only at h
  split at h
  · simp at h
  · rename_i hany
    split at h
    · simp at h
    · simp only [Bool.false_eq_true, if_false, Option.some.injEq] at h
      have hcoreid : ∀ p ∈ s1.core, p.1.id ≠ a.id := by
        intro p hp e
        apply hany
        rw [List.any_eq_true]; exact ⟨p, hp, by simpa using e⟩
      have hmem : ∀ x, Holds s' x ↔ (Holds s1 x ∧ x.id ≠ a.id) ∨ x = a := by
        intro x
        rw [← h]
        unfold Holds
        constructor
        · rintro (⟨c', hc⟩ | hs)
          · rcases List.mem_append.1 hc with hc | hc
            · exact Or.inl ⟨Or.inl ⟨c', hc⟩, hcoreid _ hc⟩
            · simp only [List.mem_singleton, Prod.mk.injEq] at hc; exact Or.inr hc.1
          · have := List.mem_filter.1 hs
            exact Or.inl ⟨Or.inr this.1, by simpa using this.2⟩
        · rintro (⟨⟨c', hc⟩ | hs, hne⟩ | rfl)
          · exact Or.inl ⟨c', List.mem_append_left _ hc⟩
          · exact Or.inr (List.mem_filter.2 ⟨hs, by simpa using hne⟩)
          · exact Or.inl ⟨c, List.mem_append_right _ (by simp)⟩
      have hbbn : s'.bbn = setKeys s1.bbn (a.blocks.map (·.bid)) true := by rw [← h]
      refine ⟨?_, ?_, ?_, ?_⟩
      · intro x hx
        rcases (hmem x).1 hx with ⟨hx1, _⟩ | rfl
        · exact hB.nodupIn x hx1
        · exact hns
      · intro x hx b hb
        rw [hbbn]; simp only [setKeys]
        split
        · rfl
        · rename_i hnin
          rcases (hmem x).1 hx with ⟨hx1, _⟩ | rfl
          · exact hB.found x hx1 b hb
          · exact absurd (List.mem_map.2 ⟨b, hb, rfl⟩) hnin
      · intro y hy
        rw [hbbn] at hy; simp only [setKeys] at hy
        split at hy
        · rename_i hin
          obtain ⟨b, hb, hbe⟩ := List.mem_map.1 hin
          exact ⟨a, (hmem a).2 (Or.inr rfl), b, hb, hbe⟩
        · obtain ⟨x, hx, b, hb, hbe⟩ := hB.only y hy
          by_cases hxi : x.id = a.id
          · have := hU x hx hxi; subst this
            exact ⟨x, (hmem x).2 (Or.inr rfl), b, hb, hbe⟩
          · exact ⟨x, (hmem x).2 (Or.inl ⟨hx, hxi⟩), b, hb, hbe⟩
      · intro x x' hx hx' hne
        rcases (hmem x).1 hx with ⟨hx1, hxi⟩ | rfl <;> rcases (hmem x').1 hx' with ⟨hx1', hxi'⟩ | rfl
        · exact hB.disj x x' hx1 hx1' hne
        · exact disj_symm (hD x hx1 hxi)
        · exact hD x' hx1' hxi'
        · exact absurd rfl hne

private theorem nodup_xfer (s : St) (hN : (inventory s).Nodup) (incoming out inc' out' : Asm) (c : Cell) (outId : Nat)
    (hm : (out, c) ∈ s.core) (hid : out.id = outId) (ht : transfer incoming out = some (inc', out')) :
    (inventory (xfer s outId out' c incoming.id inc')).Nodup := by
  have hndc : (s.core.map (·.1.id)).Nodup := (List.nodup_append.1 hN).1
  obtain ⟨e1, e2, _, _⟩ := transfer_ids _ _ _ _ ht
  have hsf : (s.sfp.map (fun a => if a.id = incoming.id then inc' else a)).map (·.id) = s.sfp.map (·.id) := by
    rw [List.map_map]
    apply List.map_congr_left
    intro a _
    simp only [Function.comp]
    split
    · rename_i hai; rw [e1, hai]
    · rfl
  have hshape := updCore_same_cell s.core outId out out' c hm hid (e2.trans hid) hndc
  have : inventory (xfer s outId out' c incoming.id inc') = inventory s := by
    unfold inventory coreIds sfpIds xfer
    simp only []
    rw [hshape.1, hsf]
  rw [this]; exact hN

/-- `dischargeSwap` with an incoming assembly from the pool (stationary blocks allowed: they change hands) -/
private theorem binv_dischargeSwap_pooled (s s' : St) (incoming : Asm) (outId : Nat)
    (h : dischargeSwap s incoming outId = some s') (hI : (inventory s).Nodup) (hB : BInv s) (hin : incoming ∈ s.sfp) :
    BInv s' := by
  have hndc : (s.core.map (·.1.id)).Nodup := (List.nodup_append.1 hI).1
  have hdisj : ∀ x ∈ coreIds s, ∀ y ∈ sfpIds s, x ≠ y := (List.nodup_append.1 hI).2.2
  unfold dischargeSwap at h
  split at h
  · exact absurd h (by simp)
  · rename_i out c hf
    obtain ⟨hm, hid⟩ := find_id hf
    split at h
    · exact absurd h (by simp)
    · rename_i inc' out' ht
      obtain ⟨e1, e2, _, _⟩ := transfer_ids _ _ _ _ ht
      have hinc_ne : incoming.id ≠ out.id := fun e =>
        hdisj out.id (List.mem_map.2 ⟨_, hm, rfl⟩) incoming.id (List.mem_map.2 ⟨_, hin, rfl⟩) e.symm
      have hI0 := nodup_xfer s hI incoming out inc' out' c outId hm hid ht
      -- who is held after the exchange
      have hholds : ∀ x, Holds (xfer s outId out' c incoming.id inc') x ↔
          (Holds s x ∧ x.id ≠ incoming.id ∧ x.id ≠ out.id) ∨ x = inc' ∨ x = out' := by
        intro x
        unfold Holds xfer updCore
        constructor
        · rintro (⟨c', hc⟩ | hs)
          · obtain ⟨p, hp, hpe⟩ := List.mem_map.1 hc
            by_cases hp1 : p.1.id = outId
            · rw [if_pos hp1] at hpe; exact Or.inr (Or.inr (Prod.mk.inj hpe).1.symm)
            · rw [if_neg hp1] at hpe
              subst hpe
              refine Or.inl ⟨Or.inl ⟨_, hp⟩, ?_, by rw [hid]; exact hp1⟩
              exact fun e => hdisj _ (List.mem_map.2 ⟨_, hp, rfl⟩) incoming.id (List.mem_map.2 ⟨_, hin, rfl⟩) e
          · obtain ⟨a, ha, hae⟩ := List.mem_map.1 hs
            by_cases ha1 : a.id = incoming.id
            · rw [if_pos ha1] at hae; exact Or.inr (Or.inl hae.symm)
            · rw [if_neg ha1] at hae
              subst hae
              refine Or.inl ⟨Or.inr ha, ha1, ?_⟩
              exact fun e => hdisj out.id (List.mem_map.2 ⟨_, hm, rfl⟩) a.id (List.mem_map.2 ⟨_, ha, rfl⟩) e.symm
        · rintro (⟨⟨c', hc⟩ | hs, n1, n2⟩ | rfl | rfl)
          · refine Or.inl ⟨c', List.mem_map.2 ⟨(x, c'), hc, ?_⟩⟩
            rw [if_neg (by rw [← hid]; exact n2)]
          · refine Or.inr (List.mem_map.2 ⟨x, hs, ?_⟩)
            rw [if_neg n1]
          · exact Or.inr (List.mem_map.2 ⟨incoming, hin, by simp⟩)
          · exact Or.inl ⟨c, List.mem_map.2 ⟨(out, c), hm, by simp [hid]⟩⟩
      have hB0 : BInv (xfer s outId out' c incoming.id inc') :=
        binv_exchange s _ hI hB incoming out inc' out' (Or.inr hin) (Or.inl ⟨c, hm⟩) hinc_ne e1 e2
          (transfer_perm _ _ _ _ ht) hholds rfl
      have hinc0 : Holds (xfer s outId out' c incoming.id inc') inc' := (hholds inc').2 (Or.inr (Or.inl rfl))
      cases hrem : removeAssembly (xfer s outId out' c incoming.id inc') outId true with
      | none => rw [hrem] at h; exact absurd h (by simp)
      | some s1 =>
        rw [hrem] at h
        simp only [Option.bind_some] at h
        have hB1 := binv_removeAssembly _ s1 outId true hrem hI0 hB0
        have hsub := removeAssembly_holds_sub _ s1 outId true hrem
        rw [← e1] at h
        exact binv_putIn s1 s' inc' c h hB1 (hB0.nodupIn inc' hinc0)
          (fun x hx e => holds_unique _ hI0 x inc' (hsub x hx) hinc0 e)
          (fun x hx hne => hB0.disj inc' x hinc0 (hsub x hx) (Ne.symm hne))

/-- the fresh assembly of a `dischargeSwap` behaves, once its blocks are registered (fix 2acbfbd), exactly like an
assembly taken from the pool: the discharge on the state with `a` appended to the pool gives the same result -/
private theorem dischargeSwap_virtual_pool (s : St) (a : Asm) (o : Nat) :
    dischargeSwap { preReg s a with sfp := s.sfp ++ [a] } a o = dischargeSwap (preReg s a) a o := by
  unfold dischargeSwap
  show (match s.core.find? (fun p => p.1.id = o) with | none => none | some (out, c) => _) =
    (match s.core.find? (fun p => p.1.id = o) with | none => none | some (out, c) => _)
  cases hf : s.core.find? (fun p => p.1.id = o) with
  | none => rfl
  | some q =>
    obtain ⟨out, c⟩ := q
    simp only []
    cases ht : transfer a out with
    | none => rfl
    | some r =>
      obtain ⟨inc', out'⟩ := r
      have e1 : inc'.id = a.id := (transfer_ids _ _ _ _ ht).1
      simp only []
      unfold removeAssembly xfer preReg
      simp only []
      cases hf2 : (updCore s.core o out' c).find? (fun p => p.1.id = o) with
      | none => rfl
      | some q2 =>
        obtain ⟨a0, c0⟩ := q2
        simp only []
        by_cases hb : s.byLoc c0 = none
        · simp [hb]
        · simp only [hb, if_false]
          cases htk : s.track
          · simp [putIn, coreAdd, List.filter_append, e1]
          · simp [putIn, coreAdd, List.filter_append, e1]

/-- `dischargeSwap` with a fresh incoming assembly whose blocks were registered first (fixed code): stationary blocks
allowed, they change hands like anybody else's -/
private theorem binv_dischargeSwap_freshReg (s s' : St) (a : Asm) (o : Nat)
    (h : dischargeSwap (preReg s a) a o = some s') (hN : (inventory s).Nodup) (hB : BInv s)
    (hfresh : a.id ∉ inventory s) (hnd : (a.blocks.map (·.bid)).Nodup)
    (hdj : ∀ x, Holds s x → ∀ b ∈ a.blocks, ∀ b' ∈ x.blocks, b.bid ≠ b'.bid) : BInv s' := by
  rw [← dischargeSwap_virtual_pool] at h
  have hnotin : ∀ x, Holds s x → x.id ≠ a.id := by
    intro x hx e
    apply hfresh
    rcases hx with ⟨c, hc⟩ | hs
    · exact List.mem_append_left _ (List.mem_map.2 ⟨_, hc, e⟩)
    · exact List.mem_append_right _ (List.mem_map.2 ⟨_, hs, e⟩)
  have hholds : ∀ x, Holds { preReg s a with sfp := s.sfp ++ [a] } x ↔ Holds s x ∨ x = a := by
    intro x
    unfold Holds
    show ((∃ c, (x, c) ∈ s.core) ∨ x ∈ s.sfp ++ [a]) ↔ _
    rw [List.mem_append, List.mem_singleton]; tauto
  have hNP : (inventory { preReg s a with sfp := s.sfp ++ [a] }).Nodup := by
    show (coreIds s ++ (s.sfp ++ [a]).map (·.id)).Nodup
    rw [List.map_append, ← List.append_assoc]
    rw [List.nodup_append]
    refine ⟨hN, by simp, ?_⟩
    intro x hx y hy
    simp only [List.map_cons, List.map_nil, List.mem_singleton] at hy
    subst hy; intro e; subst e; exact hfresh hx
  have hBP : BInv { preReg s a with sfp := s.sfp ++ [a] } := by
    refine ⟨?_, ?_, ?_, ?_⟩
    · intro x hx
      rcases (hholds x).1 hx with hx | rfl
      · exact hB.nodupIn x hx
      · exact hnd
    · intro x hx b hb
      show setKeys s.bbn (a.blocks.map (·.bid)) true b.bid = true
      simp only [setKeys]; split
      · rfl
      · rename_i hnin
        rcases (hholds x).1 hx with hx | rfl
        · exact hB.found x hx b hb
        · exact absurd (List.mem_map.2 ⟨b, hb, rfl⟩) hnin
    · intro y hy
      change setKeys s.bbn (a.blocks.map (·.bid)) true y = true at hy
      simp only [setKeys] at hy
      split at hy
      · rename_i hin
        obtain ⟨b, hb, hbe⟩ := List.mem_map.1 hin
        exact ⟨a, (hholds a).2 (Or.inr rfl), b, hb, hbe⟩
      · obtain ⟨x, hx, b, hb, hbe⟩ := hB.only y hy
        exact ⟨x, (hholds x).2 (Or.inl hx), b, hb, hbe⟩
    · intro x x' hx hx' hne b hb b' hb'
      rcases (hholds x).1 hx with hx1 | hxa <;> rcases (hholds x').1 hx' with hx1' | hxa'
      · exact hB.disj x x' hx1 hx1' hne b hb b' hb'
      · rw [hxa'] at hb'; exact (hdj x hx1 b' hb' b hb).symm
      · rw [hxa] at hb; exact hdj x' hx1' b hb b' hb'
      · exact absurd (by rw [hxa, hxa']) hne
  exact binv_dischargeSwap_pooled _ s' a o h hNP hBP (List.mem_append_right _ (by simp))

/-- extra preconditions of the block-level theorem: the blocks of a charged assembly are new (distinct, shared with
no assembly the reactor holds); a fresh discharge swap is not refused (a refused one leaves the fresh assembly's
block names registered - fix 2acbfbd registers them before the stationary-position test). Fresh, pool and core
assemblies may all carry stationary blocks. -/
def BPreP (s : St) : Op → Prop
  | .dnew a o => (dischargeSwap (preReg s a) a o).isSome = true ∧ (a.blocks.map (·.bid)).Nodup ∧
      ∀ x, Holds s x → ∀ b ∈ a.blocks, ∀ b' ∈ x.blocks, b.bid ≠ b'.bid
  | .add a _ => (a.blocks.map (·.bid)).Nodup ∧ ∀ x, Holds s x → ∀ b ∈ a.blocks, ∀ b' ∈ x.blocks, b.bid ≠ b'.bid
  | _ => True

theorem binv_step (s : St) (op : Op) (hI : Inv s) (hp : Pre s op) (hbp : BPreP s op) (hB : BInv s) :
    BInv (step s op) := by
  have hnotin : ∀ a : Asm, a.id ∉ inventory s → ∀ x, Holds s x → x.id ≠ a.id := by
    intro a ha x hx e
    apply ha
    rcases hx with ⟨c, hc⟩ | hs
    · exact List.mem_append_left _ (List.mem_map.2 ⟨_, hc, e⟩)
    · exact List.mem_append_right _ (List.mem_map.2 ⟨_, hs, e⟩)
  cases op with
  | swap i j =>
    simp only [step]
    cases h : swap s i j with
    | none => exact hB
    | some s' =>
      by_cases hij : i = j
      · subst hij; rw [swap_self s s' i h]; exact hB
      · exact binv_swap s s' i j hij h hI.nodup hB
  | cascade l =>
    simp only [step]
    cases l with
    | nil => exact hB
    | cons a0 rest =>
      exact (cascadeLoop_any BInv (fun s s' i j hij h hI hB => binv_swap s s' i j hij h hI.nodup hB)
        a0 rest s hI hB).1
  | dnew a o =>
    rw [step_dnew]
    obtain ⟨hsome, hnd, hdj⟩ := hbp
    cases h : dischargeSwap (preReg s a) a o with
    | none => rw [h] at hsome; exact absurd hsome (by simp)
    | some s' =>
      simp only [Option.getD_some]
      exact binv_dischargeSwap_freshReg s s' a o h hI.nodup hB hp hnd hdj
  | dsfp i o =>
    simp only [step]
    split
    · rename_i a ha
      cases h : dischargeSwap s a o with
      | none => exact hB
      | some s' =>
        exact binv_dischargeSwap_pooled s s' a o h hI.nodup hB (List.mem_of_find?_eq_some ha)
    · exact hB
  | remove i d =>
    simp only [step]
    cases h : removeAssembly s i d with
    | none => exact hB
    | some s' => exact binv_removeAssembly s s' i d h hI.nodup hB
  | add a c =>
    simp only [step]
    obtain ⟨hfresh, hfree⟩ := hp
    have hf : s.sfp.filter (fun x => x.id ≠ a.id) = s.sfp := by
      rw [List.filter_eq_self]
      intro b hb
      have : b.id ≠ a.id := hnotin a hfresh b (Or.inr hb)
      simpa using this
    have hany : s.core.any (fun p => p.1.id = a.id) = false := by
      rw [List.any_eq_false]
      intro p hp hpa
      exact hnotin a hfresh p.1 (Or.inl ⟨p.2, hp⟩) (by simpa using hpa)
    have hput : putIn s a.id a c = some (coreAdd s a c).st := by
      unfold putIn
      rw [hf]
      have : (coreAdd s a c).raised = false := by simp [coreAdd, hany, hfree]
      simp [this]
    exact binv_putIn s _ a c hput hB hbp.1 (fun x hx e => absurd e (hnotin a hfresh x hx)) (fun x hx _ => hbp.2 x hx)

/-- preconditions (assembly level and block level) hold along the whole history -/
def BRunOK : St → List Op → Prop
  | _, [] => True
  | s, op :: rest => Pre s op ∧ BPreP s op ∧ BRunOK (step s op) rest

/-- **block lookups over arbitrary histories, purging included** (tracking on or off, `removeAssembly` with
discharge or purge, swaps, cascades, discharge swaps, adds): every block of every assembly in the core or the pool
is found in `blocksByName`, and `blocksByName` resolves nothing else — in particular no block of a purged assembly.
Fresh, core and pool assemblies may all carry stationary blocks (they change hands in swaps, cascades and discharge
swaps; a fresh assembly's blocks are registered before the exchange, fix 2acbfbd). `BPreP` only asks that charged
assemblies bring new, distinct blocks and that a fresh discharge swap is not refused. -/
theorem blocks_run_with_purge (ops : List Op) (s : St) (hI : Inv s) (hB : BInv s) (hok : BRunOK s ops) :
    BInv (run s ops) ∧ Inv (run s ops) := by
  induction ops generalizing s with
  | nil => exact ⟨hB, hI⟩
  | cons op rest ih =>
    exact ih (step s op) (inv_step s op hI hok.1) (binv_step s op hI hok.1 hok.2.1 hB) hok.2.2

theorem binv_init (ks : List (Asm × Cell)) (sf : List Asm) (track : Bool)
    (hns : ∀ a ∈ ks.map (·.1) ++ sf, (a.blocks.map (·.bid)).Nodup)
    (hd : ∀ a ∈ ks.map (·.1) ++ sf, ∀ a' ∈ ks.map (·.1) ++ sf, a.id ≠ a'.id →
      ∀ b ∈ a.blocks, ∀ b' ∈ a'.blocks, b.bid ≠ b'.bid) : BInv (initSt ks sf track) := by
  have hh : ∀ a, Holds (initSt ks sf track) a ↔ a ∈ ks.map (·.1) ++ sf := by
    intro a
    unfold Holds
    show ((∃ c, (a, c) ∈ ks) ∨ a ∈ sf) ↔ _
    rw [List.mem_append, List.mem_map]
    constructor
    · rintro (⟨c, hc⟩ | hs)
      · exact Or.inl ⟨(a, c), hc, rfl⟩
      · exact Or.inr hs
    · rintro (⟨p, hp, rfl⟩ | hs)
      · exact Or.inl ⟨p.2, hp⟩
      · exact Or.inr hs
  refine ⟨fun a ha => hns a ((hh a).1 ha), ?_, ?_, fun a a' ha ha' => hd a ((hh a).1 ha) a' ((hh a').1 ha')⟩
  · intro a ha b hb
    show (ks.map (·.1) ++ sf).any (fun a => a.blocks.any (fun x => x.bid = b.bid)) = true
    rw [List.any_eq_true]
    exact ⟨a, (hh a).1 ha, by rw [List.any_eq_true]; exact ⟨b, hb, by simp⟩⟩
  · intro x hx
    change (ks.map (·.1) ++ sf).any (fun a => a.blocks.any (fun y => y.bid = x)) = true at hx
    rw [List.any_eq_true] at hx
    obtain ⟨a, ha, hax⟩ := hx
    rw [List.any_eq_true] at hax
    obtain ⟨b, hb, hbx⟩ := hax
    exact ⟨a, (hh a).2 ha, b, hb, by simpa using hbx⟩

/-! non-vacuity: a purge, a swap and a pooled discharge swap on a three-assembly core WITH stationary blocks
(grid plates at index 0), tracking off -/
def exSt2 : St :=
  initSt [(⟨1, [⟨10, true⟩, ⟨11, false⟩]⟩, (0, 0)), (⟨2, [⟨20, true⟩, ⟨21, false⟩]⟩, (1, 0)),
          (⟨3, [⟨30, true⟩, ⟨31, false⟩]⟩, (2, -1))] [⟨9, [⟨90, true⟩, ⟨91, false⟩]⟩] false

example : BInv (run exSt2 [.remove 3 false, .swap 1 2, .dsfp 9 1]) :=
  (blocks_run_with_purge _ exSt2 (inv_init _ _ _ (by decide) (by decide))
    (binv_init _ _ _ (by decide) (by decide))
    (by simp only [BRunOK, Pre, BPreP]; exact ⟨trivial, trivial, by decide, trivial, trivial, trivial, trivial⟩)).1


/-! ### names: keys are the current names; the two name findings as theorems with witnesses -/

private theorem find_rev_of_nodup (bs : List NBlk) (hnd : (bs.map (·.name)).Nodup) (b : NBlk) (hb : b ∈ bs) :
    bs.reverse.find? (fun x => x.name = b.name) = some b := by
  have hb' : b ∈ bs.reverse := List.mem_reverse.2 hb
  cases hf : bs.reverse.find? (fun x => x.name = b.name) with
  | none =>
    have := List.find?_eq_none.1 hf b hb'
    simp at this
  | some c =>
    have hc : c ∈ bs := List.mem_reverse.1 (List.mem_of_find?_eq_some hf)
    have hcn : c.name = b.name := by simpa using List.find?_some hf
    rw [List.inj_on_of_nodup_map hnd hc hb hcn]

private theorem renumber_names (a : NAsm) (n : Int) :
    ((renumber a n).blocks.map (·.name)) = (List.range a.blocks.length).map (fun k => (n, k)) := by
  unfold renumber
  simp only [List.map_map]
  have : ∀ (l : List NBlk) (i : Nat), (l.zipIdx i).map ((fun b : NBlk => b.name) ∘ fun p => { p.1 with name := (n, p.2) })
      = (List.range' i l.length).map (fun k => (n, k)) := by
    intro l
    induction l with
    | nil => intro i; rfl
    | cons x xs ih => intro i; simp [List.zipIdx_cons, List.range'_succ, ih]
  rw [this a.blocks 0, List.range_eq_range']

/-- **after `Core.add` of a fresh assembly (placeholder number < 0) the keys are the CURRENT names**: the assembly is
named by the next assembly number and found under it; every block it holds is named (that number, its axial index)
and found under exactly that name. -/
theorem coreAdd_fresh_keys_current (s : NSt) (a : NAsm) (hneg : a.num < 0) :
    (nCoreAdd s a).2.num = s.next ∧ (nCoreAdd s a).1.byName s.next = some a.id ∧ (nCoreAdd s a).1.next = s.next + 1 ∧
    (∀ b ∈ (nCoreAdd s a).2.blocks, b.name.1 = s.next ∧ (nCoreAdd s a).1.bbn b.name = some b.bid) ∧
    (nCoreAdd s a).2.blocks.map (·.bid) = a.blocks.map (·.bid) ∧
    (nCoreAdd s a).2.blocks.map (·.name) = (List.range a.blocks.length).map (fun k => (s.next, k)) := by
  have hnames := renumber_names a s.next
  have hnd : ((renumber a s.next).blocks.map (·.name)).Nodup := by
    rw [hnames]
    exact List.Nodup.map (fun x y h => (Prod.mk.inj h).2) List.nodup_range
  simp only [nCoreAdd, hneg, if_true]
  refine ⟨by simp [renumber], by simp [renumber], trivial, ?_, ?_, hnames⟩
  · intro b hb
    constructor
    · have : b.name ∈ (renumber a s.next).blocks.map (·.name) := List.mem_map.2 ⟨b, hb, rfl⟩
      rw [hnames] at this
      obtain ⟨k, _, hk⟩ := List.mem_map.1 this
      rw [← hk]
    · simp only [regBlocks, find_rev_of_nodup _ hnd b hb]
  · unfold renumber
    simp only [List.map_map]
    conv_rhs => rw [← List.zipIdx_map_fst 0 a.blocks, List.map_map]
    rfl

/-- an assembly already numbered keeps its names: its blocks are found under the names they carry -/
theorem coreAdd_numbered_keys (s : NSt) (a : NAsm) (hpos : ¬ a.num < 0) (hnd : (a.blocks.map (·.name)).Nodup) :
    (nCoreAdd s a).2 = a ∧ (nCoreAdd s a).1.byName a.num = some a.id ∧
    ∀ b ∈ a.blocks, (nCoreAdd s a).1.bbn b.name = some b.bid := by
  simp only [nCoreAdd, hpos, if_false]
  refine ⟨trivial, by simp, ?_⟩
  intro b hb
  simp only [regBlocks, find_rev_of_nodup _ hnd b hb]

/-! witness: core assembly A0006 (grid plate + fuel), tables as after loading; fresh copy with placeholder -5 -/
def wOut : NAsm := ⟨6, 6, [⟨60, (6, 0), true⟩, ⟨61, (6, 1), false⟩]⟩
def wInc : NAsm := ⟨50, -5, [⟨500, (-5, 0), true⟩, ⟨501, (-5, 1), false⟩]⟩
def wSt : NSt :=
  ⟨fun n => if n = 6 then some 6 else none,
   fun x => if x = (6, 0) then some 60 else if x = (6, 1) then some 61 else none, 77⟩

/-- **fixed `dischargeSwap`, first step**: a placeholder-numbered incoming assembly is named by the next assembly
number and every block it holds is registered under its current name (number, axial index) before any block changes
hands; block objects are unchanged. -/
theorem nPrepare_keys_current (s : NSt) (a : NAsm) (hneg : a.num < 0) :
    (nPrepare s a).2.num = s.next ∧ (nPrepare s a).1.next = s.next + 1 ∧
    (∀ b ∈ (nPrepare s a).2.blocks, b.name.1 = s.next ∧ (nPrepare s a).1.bbn b.name = some b.bid) ∧
    (nPrepare s a).2.blocks.map (·.bid) = a.blocks.map (·.bid) := by
  have hnames := renumber_names a s.next
  have hnd : ((renumber a s.next).blocks.map (·.name)).Nodup := by
    rw [hnames]
    exact List.Nodup.map (fun x y h => (Prod.mk.inj h).2) List.nodup_range
  simp only [nPrepare, hneg, if_true]
  refine ⟨by simp [renumber], trivial, ?_, ?_⟩
  · intro b hb
    constructor
    · have : b.name ∈ (renumber a s.next).blocks.map (·.name) := List.mem_map.2 ⟨b, hb, rfl⟩
      rw [hnames] at this
      obtain ⟨k, _, hk⟩ := List.mem_map.1 this
      rw [← hk]
    · simp only [regBlocks, find_rev_of_nodup _ hnd b hb]
  · unfold renumber
    simp only [List.map_map]
    conv_rhs => rw [← List.zipIdx_map_fst 0 a.blocks, List.map_map]
    rfl

/-- **fixed code, tracking on** (the former finding `discharge-fresh-stationary-block-names`): after
`dischargeSwap(fresh, A0006)` the pooled outgoing assembly holds block 500 under its current name `B0077-000`, which
`blocksByName` resolves to it; the incoming assembly A0077 holds the old grid plate under its unchanged name
`B0006-000` and its own `B0077-001`; every block of both is found under its current name and no key is stale. -/
theorem discharge_fresh_keys_current_tracked :
    let r := nDischarge wSt wInc wOut true
    r.2.1.num = 77 ∧ r.1.byName 77 = some 50 ∧
    r.2.2.blocks.map (fun b => (b.bid, b.name)) = [(500, (77, 0)), (61, (6, 1))] ∧
    r.2.1.blocks.map (fun b => (b.bid, b.name)) = [(60, (6, 0)), (501, (77, 1))] ∧
    r.1.bbn (77, 0) = some 500 ∧ r.1.bbn (6, 1) = some 61 ∧ r.1.bbn (6, 0) = some 60 ∧ r.1.bbn (77, 1) = some 501 ∧
    r.1.bbn (-5, 0) = none ∧ r.1.bbn (-5, 1) = none := by decide

/-- **fixed code, tracking off** (the former finding `stale-block-key-returns-purged-block`): the purged outgoing
assembly's blocks (the exchanged `B0077-000` included) and name are gone; when the incoming assembly is purged later,
no key returns any of its blocks. -/
theorem discharge_fresh_purges_clean :
    let r := nDischarge wSt wInc wOut false
    r.1.bbn (77, 0) = none ∧ r.1.bbn (6, 1) = none ∧ r.1.byName 6 = none ∧
    r.1.bbn (6, 0) = some 60 ∧ r.1.bbn (77, 1) = some 501 ∧
    (nPurge r.1 r.2.1).bbn (6, 0) = none ∧ (nPurge r.1 r.2.1).bbn (77, 1) = none ∧ (nPurge r.1 r.2.1).byName 77 = none := by
  decide

/-! the code before fix 2acbfbd (`nDischargeOld`): the two former findings, with their witnesses -/

example :
    let r := nDischargeOld wSt wInc wOut true
    r.2.2.blocks.map (fun b => (b.bid, b.name)) = [(500, (-5, 0)), (61, (6, 1))] ∧ r.1.bbn (-5, 0) = none ∧
    r.2.1.num = 77 ∧ r.2.1.blocks.map (fun b => (b.bid, b.name)) = [(60, (77, 0)), (501, (77, 1))] ∧
    r.1.bbn (77, 0) = some 60 ∧ r.1.bbn (77, 1) = some 501 := by decide

example :
    let r := nDischargeOld wSt wInc wOut false
    r.1.bbn (6, 0) = some 60 ∧ (r.2.1.blocks.map (fun b => (b.bid, b.name))).head? = some (60, (77, 0)) ∧
    r.1.bbn (6, 1) = none ∧ r.1.byName 6 = none ∧
    (nPurge r.1 r.2.1).bbn (77, 0) = none ∧ (nPurge r.1 r.2.1).bbn (6, 0) = some 60 := by decide

/-! ### `SpentFuelPool._getNextLocation` -/

private theorem poolCell_inj (nc : Nat) (a b : Nat) (hab : poolCell nc a = poolCell nc b) : a = b := by
  simp only [poolCell, Prod.mk.injEq, Int.natCast_inj] at hab
  have ha := Nat.div_add_mod a nc
  have hb := Nat.div_add_mod b nc
  rw [hab.1, hab.2] at ha
  omega

/-- **the cell picked is free, and it is the first free one in column / row order**: every cell with a smaller running
index is taken -/
theorem sfpSearch_spec (nc : Nat) (filled : List (Int × Int)) (fuel idx : Nat) (c : Int × Int)
    (h : sfpSearch nc filled fuel idx = some c) :
    c ∉ filled ∧ ∃ k, idx ≤ k ∧ k < idx + fuel ∧ c = poolCell nc k ∧ ∀ m, idx ≤ m → m < k → poolCell nc m ∈ filled := by
  induction fuel generalizing idx with
  | zero => simp [sfpSearch] at h
  | succ n ih =>
    unfold sfpSearch at h
    split at h
    · rename_i hm
      obtain ⟨h1, k, hk1, hk2, hk3, hk4⟩ := ih (idx + 1) h
      refine ⟨h1, k, by omega, by omega, hk3, ?_⟩
      intro m hm1 hm2
      rcases Nat.eq_or_lt_of_le hm1 with rfl | hlt
      · exact hm
      · exact hk4 m hlt hm2
    · rename_i hm
      simp only [Option.some.injEq] at h
      subst h
      exact ⟨hm, idx, Nat.le_refl _, by omega, rfl, fun m h1 h2 => by omega⟩

private theorem sfpSearch_none (nc : Nat) (filled : List (Int × Int)) (fuel idx : Nat)
    (h : sfpSearch nc filled fuel idx = none) : ∀ m, idx ≤ m → m < idx + fuel → poolCell nc m ∈ filled := by
  induction fuel generalizing idx with
  | zero => intro m h1 h2; omega
  | succ n ih =>
    unfold sfpSearch at h
    split at h
    · rename_i hm
      intro m h1 h2
      rcases Nat.eq_or_lt_of_le h1 with rfl | hlt
      · exact hm
      · exact ih (idx + 1) h m hlt (by omega)
    · simp at h

/-- **the search always finds a cell** among the first `len(filled) + 1` cells one
is free, so the `itertools.count()` loop ends -/
theorem sfpNext_free (nc : Nat) (hnc : 0 < nc) (filled : List (Int × Int)) : ∃ c, sfpNext nc filled = some c := by
  cases h : sfpNext nc filled with
  | some c => exact ⟨c, rfl⟩
  | none =>
    exfalso
    have h' : sfpSearch nc filled (filled.length + 1) 0 = none := by
      simpa [sfpNext, Nat.ne_of_gt hnc] using h
    have hall := sfpSearch_none nc filled (filled.length + 1) 0 h'
    have hnd : ((List.range (filled.length + 1)).map (poolCell nc)).Nodup :=
      (List.nodup_range).map (fun a b hab => poolCell_inj nc a b hab)
    have hsub : (List.range (filled.length + 1)).map (poolCell nc) ⊆ filled := by
      intro x hx
      obtain ⟨m, hm, rfl⟩ := List.mem_map.1 hx
      exact hall m (Nat.zero_le _) (by have := List.mem_range.1 hm; omega)
    have := (List.subperm_of_subset hnd hsub).length_le
    simp at this
    omega

/-- **a dropped assembly never lands on an occupied pool cell** -/
theorem sfpNext_not_filled (nc : Nat) (filled : List (Int × Int)) (c : Int × Int) (h : sfpNext nc filled = some c) :
    c ∉ filled := by
  unfold sfpNext at h
  split at h
  · simp at h
  · exact (sfpSearch_spec nc filled _ 0 c h).1

/-- pool cells stay pairwise distinct when assemblies are dropped one after the other -/
theorem sfp_cells_nodup (nc : Nat) (filled : List (Int × Int)) (hnd : filled.Nodup) (c : Int × Int)
    (h : sfpNext nc filled = some c) : (c :: filled).Nodup :=
  List.nodup_cons.2 ⟨sfpNext_not_filled nc filled c h, hnd⟩

example : sfpNext 3 [(0, 0), (1, 0), (0, 1), (2, 0)] = some (1, 1) := by decide


end ArmiVerif.Shuffle
