/-
C15 — a run visits every time node once, in order, calling hooks in stack order.
Model: ArmiVerif/Model/Schedule.lean (transcription of operator.py / utils/__init__.py).
-/
import ArmiVerif.Model.Schedule
import ArmiVerif.Model.IfaceStack
import Mathlib.Tactic.Ring
import Mathlib.Tactic.Linarith
import Mathlib.Tactic.FieldSimp
import Mathlib.Algebra.Order.Field.Rat
import Mathlib.Data.Rat.Defs

namespace ArmiVerif.Schedule

/-! ## The declarative schedule (independent of the loops of `run`) -/

/-- one call per listed interface, in list order -/
def calls (h : Hook) (ids : List Iface) (args : List Nat) (rc rn : Nat) : List Event :=
  ids.map (fun i => ⟨h, i.name, args, rc, rn⟩)

/-- number of coupling iterations at node (c, n): up to and including the first iteration at
which every coupler of an active interface reports convergence, else the cap -/
def itersAt (cfg : Config) (c n : Nat) : Nat :=
  match (List.range cfg.maxIters).find? (fun it => converged cfg (active cfg .Coupled [] 0) ⟨c, n⟩ it) with
  | some it => it + 1
  | none => cfg.maxIters

def specCoupling (cfg : Config) (c n : Nat) : List Event :=
  if cfg.couplingOn then
    (if cfg.skipCycles.contains c then []
     else (List.range (itersAt cfg c n)).flatMap
       (fun it => calls .Coupled (active cfg .Coupled [] 0) [it] c n))
    ++ [⟨.DbWrite, cfg.dbName, [], c, n⟩]
  else []

def specNode (cfg : Config) (c n : Nat) : List Event :=
  calls .EveryNode (active cfg .EveryNode [] 0) [c, n] c n ++ specCoupling cfg c n

def firstNode (cfg : Config) (c : Nat) : Nat := if c = cfg.startCycle then cfg.startNode else 0
def lastNode (cfg : Config) (c : Nat) : Nat := cfg.burnSteps.getD c 0

/-- the nodes of cycle c that are run: first … last-1, then the last node -/
def nodesOf (cfg : Config) (c : Nat) : List Nat :=
  List.range' (firstNode cfg c) (lastNode cfg c - firstNode cfg c) ++ [lastNode cfg c]

def specBOC (cfg : Config) (c : Nat) : List Event :=
  calls .BOC (active cfg .BOC [] c) [c] c (firstNode cfg c)

def specCycle (cfg : Config) (c : Nat) : List Event :=
  specBOC cfg c ++ (nodesOf cfg c).flatMap (specNode cfg c)
    ++ calls .EOC (active cfg .EOC [] 0) [c] c (lastNode cfg c)

def cycleRange (cfg : Config) : List Nat := List.range' cfg.startCycle (cfg.nCycles - cfg.startCycle)
/-- cycles run completely: those before the first halt request -/
def fullCycles (cfg : Config) : List Nat := (cycleRange cfg).takeWhile (fun c => !haltsAt cfg c)
/-- the cycle whose BOC asked for a halt, if any -/
def haltCycle (cfg : Config) : Option Nat := ((cycleRange cfg).dropWhile (fun c => !haltsAt cfg c)).head?

/-- (r.p.cycle, r.p.timeNode) seen at EOL -/
def endState (cfg : Config) : Nat × Nat :=
  match haltCycle cfg with
  | some h => (h, firstNode cfg h)
  | none => match (fullCycles cfg).getLast? with
    | some c => (c, lastNode cfg c)
    | none => (cfg.startCycle, cfg.startNode)

/-- the schedule the property describes -/
def spec (cfg : Config) : List Event :=
  calls .BOL (active cfg .BOL [] 0) [] cfg.startCycle cfg.startNode
    ++ (fullCycles cfg).flatMap (specCycle cfg)
    ++ (match haltCycle cfg with | some h => specBOC cfg h | none => [])
    ++ calls .EOL (active cfg .EOL [] 0) [] (endState cfg).1 (endState cfg).2

/-! ## run = spec -/

private def cnt (P : Nat → Bool) (k it : Nat) : Nat :=
  match (List.range' it k).find? P with
  | some j => j + 1 - it
  | none => k

private theorem coupledLoop_eq (cfg : Config) (s : RState) (k it : Nat) :
    coupledLoop cfg s k it =
      (List.range' it (cnt (fun j => converged cfg (active cfg .Coupled [] 0) s j) k it)).flatMap
        (fun j => calls .Coupled (active cfg .Coupled [] 0) [j] s.rc s.rn) := by
  induction k generalizing it with
  | zero => simp [coupledLoop, cnt]
  | succ k ih =>
    unfold coupledLoop
    simp only []
    by_cases hc : converged cfg (active cfg .Coupled [] 0) s it = true
    · simp [hc, cnt, List.range'_succ, interactAll, calls]
    · have hc' : converged cfg (active cfg .Coupled [] 0) s it = false := by simpa using hc
      rw [if_neg hc, ih (it + 1)]
      have hcnt : cnt (fun j => converged cfg (active cfg .Coupled [] 0) s j) (k + 1) it
          = cnt (fun j => converged cfg (active cfg .Coupled [] 0) s j) k (it + 1) + 1 := by
        unfold cnt
        rw [List.range'_succ, List.find?_cons]
        simp only [hc']
        cases hf : (List.range' (it + 1) k).find? (fun j => converged cfg (active cfg .Coupled [] 0) s j) with
        | none => rfl
        | some j =>
          have hm := List.mem_of_find?_eq_some hf
          rw [List.mem_range'_1] at hm
          simp only []
          omega
      rw [hcnt, List.range'_succ, List.flatMap_cons]
      simp [interactAll, calls]

private theorem performTightCoupling_eq (cfg : Config) (c n : Nat) :
    performTightCoupling cfg c ⟨c, n⟩ = specCoupling cfg c n := by
  unfold performTightCoupling specCoupling
  cases cfg.couplingOn <;> simp
  split
  · rfl
  rw [coupledLoop_eq]
  unfold itersAt cnt
  simp only [List.range_eq_range']
  cases hf : (List.range' 0 cfg.maxIters).find? (fun j => converged cfg (active cfg .Coupled [] 0) ⟨c, n⟩ j) <;> simp

private theorem timeNodeLoop_eq (cfg : Config) (c n : Nat) (s : RState) (hs : s.rc = c) :
    timeNodeLoop cfg c n s = (specNode cfg c n, ⟨c, n⟩) := by
  cases s with
  | mk rc rn =>
    simp at hs; subst hs
    simp [timeNodeLoop, specNode, performTightCoupling_eq, interactAll, calls]

private theorem nodeLoop_eq (cfg : Config) (c : Nat) (k n : Nat) (s : RState) (hs : s.rc = c) :
    nodeLoop cfg c k n s =
      ((List.range' n k).flatMap (specNode cfg c), if k = 0 then s else ⟨c, n + k - 1⟩) := by
  induction k generalizing n s with
  | zero => simp [nodeLoop]
  | succ k ih =>
    unfold nodeLoop
    simp only [timeNodeLoop_eq cfg c n s hs]
    rw [ih (n + 1) ⟨c, n⟩ rfl, List.range'_succ, List.flatMap_cons]
    by_cases hk : k = 0
    · subst hk; simp
    · simp [hk]
      try omega

private theorem cycleLoop_eq (cfg : Config) (c : Nat) (s : RState)
    (hs : c = cfg.startCycle → s.rn = cfg.startNode) :
    cycleLoop cfg c cfg.startCycle s =
      if haltsAt cfg c then (false, specBOC cfg c, ⟨c, firstNode cfg c⟩)
      else (true, specCycle cfg c, ⟨c, lastNode cfg c⟩) := by
  unfold cycleLoop
  simp only []
  have hs2 : (if c = cfg.startCycle then ({ s with rc := c } : RState) else { rc := c, rn := 0 })
      = ⟨c, firstNode cfg c⟩ := by
    unfold firstNode
    by_cases h : c = cfg.startCycle
    · simp [h, ← hs h]
    · simp [h]
  have hsn : (if c = cfg.startCycle then s.rn else 0) = firstNode cfg c := by
    unfold firstNode
    by_cases h : c = cfg.startCycle
    · simp [h, ← hs h]
    · simp [h]
  rw [hs2, hsn]
  simp only []
  by_cases hh : haltsAt cfg c = true
  · simp [hh, specBOC, interactAll, calls]
  · simp only [hh]
    rw [nodeLoop_eq cfg c _ _ _ rfl]
    have h3 : ∀ s' : RState, s'.rc = c →
        timeNodeLoop cfg c (cfg.burnSteps.getD c 0) s' = (specNode cfg c (lastNode cfg c), ⟨c, lastNode cfg c⟩) := by
      intro s' h'
      rw [timeNodeLoop_eq cfg c _ s' h']; rfl
    rw [h3 _ (by split <;> rfl)]
    simp [specCycle, specBOC, nodesOf, lastNode, interactAll, calls, List.flatMap_append]

/-- events and final state of the cycle loop over the cycles `cs` when entered in state `s` -/
private def loopSpec (cfg : Config) (cs : List Nat) (s : Nat × Nat) : List Event × (Nat × Nat) :=
  ((cs.takeWhile (fun c => !haltsAt cfg c)).flatMap (specCycle cfg)
     ++ (match (cs.dropWhile (fun c => !haltsAt cfg c)).head? with
         | some h => specBOC cfg h | none => []),
   match (cs.dropWhile (fun c => !haltsAt cfg c)).head? with
   | some h => (h, firstNode cfg h)
   | none => match (cs.takeWhile (fun c => !haltsAt cfg c)).getLast? with
     | some c => (c, lastNode cfg c)
     | none => s)

private theorem mainLoop_eq (cfg : Config) (k c : Nat) (s : RState)
    (hc : cfg.startCycle ≤ c) (hs : c = cfg.startCycle → s.rn = cfg.startNode) :
    mainLoop cfg cfg.startCycle k c s =
      ((loopSpec cfg (List.range' c k) (s.rc, s.rn)).1,
       ⟨(loopSpec cfg (List.range' c k) (s.rc, s.rn)).2.1, (loopSpec cfg (List.range' c k) (s.rc, s.rn)).2.2⟩) := by
  induction k generalizing c s with
  | zero => simp [mainLoop, loopSpec]
  | succ k ih =>
    unfold mainLoop
    simp only [cycleLoop_eq cfg c s hs]
    by_cases hh : haltsAt cfg c = true
    · simp [hh, loopSpec, List.range'_succ]
    · have hh' : haltsAt cfg c = false := by simpa using hh
      simp only [hh', Bool.false_eq_true, ↓reduceIte]
      rw [ih (c + 1) ⟨c, lastNode cfg c⟩ (by omega) (by intro h; omega)]
      simp only [loopSpec, List.range'_succ, List.takeWhile_cons, List.dropWhile_cons, hh']
      simp only [Bool.not_false, if_true, List.flatMap_cons, List.append_assoc]
      cases hd : (List.dropWhile (fun c => !haltsAt cfg c) (List.range' (c + 1) k)).head? with
      | some h => simp
      | none =>
        simp only [List.getLast?_cons]
        cases hl : (List.takeWhile (fun c => !haltsAt cfg c) (List.range' (c + 1) k)).getLast? <;> simp

/-- **The run is exactly the schedule of the property**: beginning-of-life once; then for each
cycle from the start cycle up to the first halt request: beginning-of-cycle, every time node from
the start node to the last one (each followed by its coupling iterations and, with coupling on,
the database write), end-of-cycle; the halting cycle contributes only its beginning-of-cycle;
then end-of-life once.  No hypothesis: holds for every configuration, including restart points
beyond the last node/cycle, zero burn steps, empty stacks. -/
theorem run_shape (cfg : Config) : runPreset cfg = spec cfg := by
  unfold runPreset afterBOL
  simp only []
  rw [mainLoop_eq cfg _ _ _ (Nat.le_refl _) (fun _ => rfl)]
  simp [spec, loopSpec, endState, fullCycles, haltCycle, cycleRange, interactAll, calls]

/-! ## Restart points set during beginning-of-life -/

/-- the schedule after beginning-of-life, for the time state beginning-of-life left -/
def specAfterBOL (cfg : Config) : List Event :=
  (fullCycles cfg).flatMap (specCycle cfg)
    ++ ((match haltCycle cfg with | some h => specBOC cfg h | none => [])
    ++ calls .EOL (active cfg .EOL [] 0) [] (endState cfg).1 (endState cfg).2)

theorem afterBOL_shape (cfg : Config) : afterBOL cfg = specAfterBOL cfg := by
  have h := run_shape cfg
  unfold runPreset spec at h
  rw [List.append_assoc, List.append_assoc] at h
  exact List.append_cancel_left h

private theorem bolPhase_fixed (cfg : Config) (nm c n : Nat) (h : cfg.bolSet = some (nm, c, n)) (act : List Iface) :
    bolPhase cfg act ⟨c, n⟩ = (calls .BOL act [] c n, ⟨c, n⟩) := by
  induction act with
  | nil => rfl
  | cons i rest ih =>
    have he : bolEffect cfg i ⟨c, n⟩ = ⟨c, n⟩ := by
      unfold bolEffect; rw [h]; simp only []; split <;> rfl
    simp only [bolPhase, he, ih, calls, List.map_cons]

/-- **every interface active at beginning-of-life is called once, in order**, whatever a hook does
to the time state -/
theorem bolPhase_calls (cfg : Config) (act : List Iface) (s : RState) :
    (bolPhase cfg act s).1.map (fun e => (e.hook, e.iface, e.args)) = act.map (fun i => (Hook.BOL, i.name, [])) := by
  induction act generalizing s with
  | nil => rfl
  | cons i rest ih => simp only [bolPhase, List.map_cons, ih]

/-- **what each beginning-of-life hook sees**: the interfaces up to and including the one that sets
the restart point see the time state on entry, the ones after it see the restart point -/
theorem bolPhase_sees (cfg : Config) (nm c n : Nat) (h : cfg.bolSet = some (nm, c, n))
    (pre post : List Iface) (i : Iface) (hi : i.name = nm) (hpre : ∀ x ∈ pre, x.name ≠ nm) (s : RState) :
    bolPhase cfg (pre ++ i :: post) s =
      (calls .BOL (pre ++ [i]) [] s.rc s.rn ++ calls .BOL post [] c n, ⟨c, n⟩) := by
  induction pre with
  | nil =>
    have he : bolEffect cfg i s = ⟨c, n⟩ := by
      unfold bolEffect; rw [h]; simp [hi]
    simp only [List.nil_append, bolPhase, he, bolPhase_fixed cfg nm c n h, calls, List.map_cons, List.map_nil,
      List.cons_append]
  | cons x rest ih =>
    have he : bolEffect cfg x s = s := by
      unfold bolEffect; rw [h]; simp [hpre x (by simp)]
    simp only [List.cons_append, bolPhase, he, ih (fun y hy => hpre y (by simp [hy])), calls, List.map_cons]

/-- without a hook that sets the time state, beginning-of-life is the plain group of calls -/
theorem bolPhase_preset (cfg : Config) (h : cfg.bolSet = none) (act : List Iface) (s : RState) :
    bolPhase cfg act s = (calls .BOL act [] s.rc s.rn, s) := by
  induction act with
  | nil => rfl
  | cons i rest ih =>
    have he : bolEffect cfg i s = s := by unfold bolEffect; rw [h]
    simp only [bolPhase, he, ih, calls, List.map_cons]

/-- the time state beginning-of-life leaves: the restart point if the setting interface is active at
BOL, else the state on entry -/
theorem bolPhase_state (cfg : Config) (nm c n : Nat) (h : cfg.bolSet = some (nm, c, n)) (act : List Iface) (s : RState) :
    (bolPhase cfg act s).2 = if act.any (fun i => i.name == nm) then ⟨c, n⟩ else s := by
  induction act generalizing s with
  | nil => rfl
  | cons i rest ih =>
    simp only [bolPhase, List.any_cons]
    rw [ih]
    by_cases hi : i.name = nm
    · have he : bolEffect cfg i s = ⟨c, n⟩ := by unfold bolEffect; rw [h]; simp [hi]
      simp [he, hi]
    · have he : bolEffect cfg i s = s := by unfold bolEffect; rw [h]; simp [hi]
      simp [he, hi]

/-- **run_shape, restart point set inside beginning-of-life included**: the run is the beginning-of-life
calls followed by the declarative schedule for the time state beginning-of-life LEFT — the cycle
loop starts at the (cycle, node) a BOL hook assigned, not at the one found on entry -/
theorem run_shape_restart (cfg : Config) :
    run cfg = (bolPhase cfg (active cfg .BOL [] 0) ⟨cfg.startCycle, cfg.startNode⟩).1
      ++ specAfterBOL (restarted cfg) := by
  unfold run
  rw [afterBOL_shape]

/-- a restart point (c, n) assigned by an interface active at BOL: the loop then starts with the
beginning-of-cycle of cycle c and its nodes from n; nothing else of the configuration changes -/
theorem restart_in_BOL (cfg : Config) (nm c n : Nat) (h : cfg.bolSet = some (nm, c, n))
    (hact : (active cfg .BOL [] 0).any (fun i => i.name == nm) = true) :
    (restarted cfg).startCycle = c ∧ (restarted cfg).startNode = n
    ∧ firstNode (restarted cfg) c = n
    ∧ cycleRange (restarted cfg) = List.range' c (cfg.nCycles - c)
    ∧ (restarted cfg).stack = cfg.stack ∧ (restarted cfg).burnSteps = cfg.burnSteps := by
  have hs := bolPhase_state cfg nm c n h (active cfg .BOL [] 0) ⟨cfg.startCycle, cfg.startNode⟩
  rw [hact] at hs
  simp only [if_true] at hs
  have h1 : (restarted cfg).startCycle = c := by unfold restarted; simp only [hs]
  have h2 : (restarted cfg).startNode = n := by unfold restarted; simp only [hs]
  refine ⟨h1, h2, ?_, ?_, rfl, rfl⟩
  · unfold firstNode; rw [h1, h2]; simp
  · unfold cycleRange; rw [h1]; rfl

/-- with the restart point already set on entry the run is the one described by `run_shape` -/
theorem run_preset (cfg : Config) (h : cfg.bolSet = none) : run cfg = runPreset cfg := by
  unfold run runPreset restarted
  simp only [bolPhase_preset cfg h]
  rfl

/-! ## Which interfaces are called, and in which order -/

/-- the rule of `getActiveInterfaces`, hook by hook -/
def activeRule (cfg : Config) (h : Hook) (excluded : List Nat) (cycle : Nat) (i : Iface) : Prop :=
  (i.enabled = true ∨ (h = .BOL ∧ i.bolForce = true))
  ∧ ((h = .EveryNode ∨ h = .EOC ∨ h = .EOL ∨ h = .BOL) → i.name ∉ excluded)
  ∧ (h = .BOL → i.name ∉ cfg.deferredNames)
  ∧ (h = .BOC → cycle < cfg.deferredCycle → i.name ∉ cfg.deferredNames)

/-- **exactly the interfaces that are enabled (or forced at beginning-of-life) and not excluded or
deferred are active** — deferral applies at BOL and at BOC before the deferral cycle, exclusion at
BOL / EveryNode / EOC / EOL, as the code has it. -/
theorem active_spec (cfg : Config) (h : Hook) (excluded : List Nat) (cycle : Nat) (i : Iface) :
    i ∈ active cfg h excluded cycle ↔ i ∈ cfg.stack ∧ activeRule cfg h excluded cycle i := by
  unfold active activeRule enabledFor nameCheck
  cases h <;> simp <;> try tauto
  · intro _ _; rw [← Nat.not_lt]; tauto
  · cases i.reverseAtEOL <;> simp

/-- **stack order**: away from end-of-life the active interfaces are a sub-sequence of the stack -/
theorem stack_order (cfg : Config) (h : Hook) (excluded : List Nat) (cycle : Nat) (hh : h ≠ .EOL) :
    (active cfg h excluded cycle).Sublist cfg.stack := by
  unfold active
  simp [hh]

private theorem nodup_rev {α} (l : List α) (h : l.Nodup) : l.reverse.Nodup := by
  rw [List.Nodup, List.pairwise_reverse]; exact List.Pairwise.imp (fun hab => Ne.symm hab) h

/-- **once each**: if the stack has no duplicates, no interface is called twice in one event -/
theorem active_nodup (cfg : Config) (h : Hook) (excluded : List Nat) (cycle : Nat)
    (hn : cfg.stack.Nodup) : (active cfg h excluded cycle).Nodup := by
  unfold active
  simp only []
  split
  · rw [List.nodup_append]
    refine ⟨(hn.filter _).filter _, nodup_rev _ ((hn.filter _).filter _), ?_⟩
    intro a ha b hb
    simp at ha hb
    intro hab; subst hab
    simp_all
  · exact hn.filter _

/-- **end-of-life order**: the non-reverse-flagged active interfaces in stack order, then the
reverse-flagged ones in reverse stack order -/
theorem eol_reverse_last (cfg : Config) (excluded : List Nat) (cycle : Nat) :
    ∃ front back : List Iface,
      active cfg .EOL excluded cycle = front ++ back.reverse
      ∧ front.Sublist cfg.stack ∧ back.Sublist cfg.stack
      ∧ (∀ i ∈ front, i.reverseAtEOL = false) ∧ (∀ i ∈ back, i.reverseAtEOL = true) := by
  refine ⟨_, _, rfl, ?_, ?_, ?_, ?_⟩
  · exact (List.filter_sublist).trans List.filter_sublist
  · exact (List.filter_sublist).trans List.filter_sublist
  · intro i hi; simp at hi; simp [hi.2]
  · intro i hi; simp at hi; exact hi.2.1

/-- a small configuration used by the non-vacuity examples -/
def exCfg : Config where
  nCycles := 2
  burnSteps := [2, 1]
  startCycle := 0
  startNode := 1
  stack := [⟨1, true, false, true, false⟩, ⟨2, true, false, false, true⟩, ⟨3, true, false, true, false⟩,
            ⟨4, false, true, false, false⟩, ⟨0, true, false, false, false⟩]
  deferredNames := [2]
  deferredCycle := 1
  couplingOn := true
  maxIters := 3
  skipCycles := [1]
  dbName := 0
  halt := fun _ _ => false
  conv := fun _ _ n it => n == it

example : (active exCfg .EOL [] 0).map (·.name) = [2, 0, 3, 1] := by decide
example : (active exCfg .BOL [] 0).map (·.name) = [1, 3, 4, 0] := by decide
example : (runPreset exCfg).length = 63 := by decide

/-- **arguments reflect the time state**: every BOC / EOC call receives `r.p.cycle`, every
EveryNode call receives `(r.p.cycle, r.p.timeNode)` -/
theorem args_reflect_state (cfg : Config) (e : Event) (he : e ∈ runPreset cfg) :
    (e.hook = .EveryNode → e.args = [e.rc, e.rn])
    ∧ ((e.hook = .BOC ∨ e.hook = .EOC) → e.args = [e.rc])
    ∧ ((e.hook = .BOL ∨ e.hook = .EOL) → e.args = []) := by
  rw [run_shape] at he
  simp only [spec, specCycle, specBOC, specNode, specCoupling, calls, List.mem_append, List.mem_flatMap,
    List.mem_map] at he
  rcases he with ((he | he) | he) | he
  · obtain ⟨i, _, rfl⟩ := he; simp
  · obtain ⟨c, _, (he | he) | he⟩ := he
    · obtain ⟨i, _, rfl⟩ := he; simp
    · obtain ⟨n, _, he | he⟩ := he
      · obtain ⟨i, _, rfl⟩ := he; simp
      · split at he
        · simp only [List.mem_append, List.mem_singleton] at he
          rcases he with he | rfl
          · split at he
            · simp at he
            · simp only [List.mem_flatMap, List.mem_map] at he
              obtain ⟨it, _, i, _, rfl⟩ := he; simp
          · simp
        · simp at he
    · obtain ⟨i, _, rfl⟩ := he; simp
  · split at he
    · simp only [List.mem_map] at he
      obtain ⟨i, _, rfl⟩ := he; simp
    · simp at he
  · obtain ⟨i, _, rfl⟩ := he; simp

/-! ## Nodes are visited once, in order, without gaps -/

/-- the (cycle, node) pairs of the run, in the order of the schedule -/
def visitedNodes (cfg : Config) : List (Nat × Nat) :=
  (fullCycles cfg).flatMap (fun c => (nodesOf cfg c).map (fun n => (c, n)))

def lexLt (a b : Nat × Nat) : Prop := a.1 < b.1 ∨ (a.1 = b.1 ∧ a.2 < b.2)

private theorem filter_calls (h h' : Hook) (ids : List Iface) (args : List Nat) (rc rn : Nat) :
    (calls h ids args rc rn).filter (fun e => e.hook = h') = if h = h' then calls h ids args rc rn else [] := by
  unfold calls
  induction ids with
  | nil => simp
  | cons a t ih => by_cases hh : h = h' <;> simp_all

/-- **the EveryNode calls of a run are exactly: for each visited node in order, one call per active
interface, with (cycle, node) as arguments and as the reactor's time state** -/
theorem everyNode_calls (cfg : Config) :
    (runPreset cfg).filter (fun e => e.hook = .EveryNode) =
      (visitedNodes cfg).flatMap (fun p => calls .EveryNode (active cfg .EveryNode [] 0) [p.1, p.2] p.1 p.2) := by
  rw [run_shape]
  have hcoup : ∀ c n, (specCoupling cfg c n).filter (fun e => e.hook = .EveryNode) = [] := by
    intro c n
    unfold specCoupling
    split
    · split <;> simp [List.filter_flatMap, filter_calls]
    · rfl
  have hnode : ∀ c n, (specNode cfg c n).filter (fun e => e.hook = .EveryNode)
      = calls .EveryNode (active cfg .EveryNode [] 0) [c, n] c n := by
    intro c n; simp [specNode, filter_calls, hcoup]
  have hcyc : ∀ c, (specCycle cfg c).filter (fun e => e.hook = .EveryNode)
      = (nodesOf cfg c).flatMap (fun n => calls .EveryNode (active cfg .EveryNode [] 0) [c, n] c n) := by
    intro c
    simp only [specCycle, specBOC, List.filter_append, filter_calls, List.filter_flatMap, hnode]
    simp
  simp only [spec, List.filter_append, filter_calls, List.filter_flatMap, hcyc, visitedNodes,
    List.flatMap_assoc, List.flatMap_map]
  cases haltCycle cfg <;> simp [specBOC, filter_calls]

/-- which nodes are visited: every node from the first to the last of every cycle that is run -/
theorem visited_mem (cfg : Config) (hstart : cfg.startNode ≤ lastNode cfg cfg.startCycle) (c n : Nat) :
    (c, n) ∈ visitedNodes cfg ↔ c ∈ fullCycles cfg ∧ firstNode cfg c ≤ n ∧ n ≤ lastNode cfg c := by
  have hfl : firstNode cfg c ≤ lastNode cfg c := by
    unfold firstNode; split
    · next h => rw [h]; exact hstart
    · omega
  simp only [visitedNodes, nodesOf, List.mem_flatMap, List.mem_map, List.mem_append, List.mem_range'_1,
    List.mem_singleton, Prod.mk.injEq]
  constructor
  · rintro ⟨c', hc', n', hn', rfl, rfl⟩
    refine ⟨hc', ?_⟩
    rcases hn' with h | h <;> omega
  · rintro ⟨hc, h1, h2⟩
    refine ⟨c, hc, n, ?_, rfl, rfl⟩
    omega

/-- **each node once, in strictly increasing lexicographic order** -/
theorem visited_sorted (cfg : Config) : (visitedNodes cfg).Pairwise lexLt := by
  unfold visitedNodes
  rw [List.pairwise_flatMap]
  constructor
  · intro c _
    rw [List.pairwise_map]
    unfold nodesOf
    rw [List.pairwise_append]
    refine ⟨?_, List.pairwise_singleton _ _, ?_⟩
    · exact List.Pairwise.imp (fun h => Or.inr ⟨rfl, h⟩) List.pairwise_lt_range'
    · intro a ha b hb
      simp at hb; subst hb
      rw [List.mem_range'_1] at ha
      exact Or.inr ⟨rfl, by omega⟩
  · have h1 : (fullCycles cfg).Pairwise (· < ·) :=
      List.Pairwise.sublist (List.takeWhile_sublist _) List.pairwise_lt_range'
    refine List.Pairwise.imp ?_ h1
    intro a b hab x hx y hy
    simp only [List.mem_map] at hx hy
    obtain ⟨_, _, rfl⟩ := hx
    obtain ⟨_, _, rfl⟩ := hy
    exact Or.inl hab

/-- the cycles that are run form a gap-free range starting at the start cycle -/
theorem fullCycles_range (cfg : Config) :
    ∃ k, k ≤ cfg.nCycles - cfg.startCycle ∧ fullCycles cfg = List.range' cfg.startCycle k := by
  unfold fullCycles cycleRange
  generalize cfg.nCycles - cfg.startCycle = m
  generalize cfg.startCycle = s
  induction m generalizing s with
  | zero => exact ⟨0, by simp⟩
  | succ m ih =>
    rw [List.range'_succ, List.takeWhile_cons]
    split
    · obtain ⟨k, hk, he⟩ := ih (s + 1)
      exact ⟨k + 1, by omega, by rw [he, List.range'_succ]⟩
    · exact ⟨0, by simp⟩

example : visitedNodes exCfg = [(0, 1), (0, 2), (1, 0), (1, 1)] := by decide

/-- interface 3's BOL hook sets the restart point (1, 1): the interfaces after it see it, and the loop starts there -/
example : ((run { exCfg with bolSet := some (3, 1, 1) }).filter (fun e => e.hook = .BOL)).map (fun e => (e.iface, e.rc, e.rn))
      = [(1, 0, 1), (3, 0, 1), (4, 1, 1), (0, 1, 1)]
    ∧ visitedNodes (restarted { exCfg with bolSet := some (3, 1, 1) }) = [(1, 1)] := by
  decide


/-! ## Halting -/

/-- **a halt request at beginning-of-cycle stops the loop and end-of-life still runs**: if `h` is
the first cycle whose BOC returns a truthy value, the run is BOL, the complete cycles before `h`,
the BOC calls of `h` (all of them — every active interface is still called), and EOL. -/
theorem halt_stops_and_EOL (cfg : Config) (h : Nat) (h1 : cfg.startCycle ≤ h) (h2 : h < cfg.nCycles)
    (hh : haltsAt cfg h = true) (hbefore : ∀ c, cfg.startCycle ≤ c → c < h → haltsAt cfg c = false) :
    runPreset cfg = calls .BOL (active cfg .BOL [] 0) [] cfg.startCycle cfg.startNode
      ++ (List.range' cfg.startCycle (h - cfg.startCycle)).flatMap (specCycle cfg)
      ++ specBOC cfg h
      ++ calls .EOL (active cfg .EOL [] 0) [] h (firstNode cfg h) := by
  have hsplit : cycleRange cfg = List.range' cfg.startCycle (h - cfg.startCycle)
      ++ h :: List.range' (h + 1) (cfg.nCycles - (h + 1)) := by
    unfold cycleRange
    have : cfg.nCycles - cfg.startCycle = (h - cfg.startCycle) + ((cfg.nCycles - (h + 1)) + 1) := by omega
    have e : cfg.startCycle + (h - cfg.startCycle) = h := by omega
    rw [this, ← List.range'_append_1, List.range'_succ, e]
  have hpre : ∀ a ∈ List.range' cfg.startCycle (h - cfg.startCycle), (!haltsAt cfg a) = true := by
    intro a ha
    rw [List.mem_range'_1] at ha
    simp [hbefore a ha.1 (by omega)]
  have hfull : fullCycles cfg = List.range' cfg.startCycle (h - cfg.startCycle) := by
    unfold fullCycles
    rw [hsplit, List.takeWhile_append_of_pos hpre, List.takeWhile_cons_of_neg (by simp [hh])]
    simp
  have hhalt : haltCycle cfg = some h := by
    unfold haltCycle
    rw [hsplit, List.dropWhile_append_of_pos hpre, List.dropWhile_cons_of_neg (by simp [hh])]
    simp
  rw [run_shape]
  simp [spec, endState, hfull, hhalt]

private theorem takeWhile_all {α} (p : α → Bool) (l : List α) (h : ∀ a ∈ l, p a = true) :
    l.takeWhile p = l := by
  induction l with
  | nil => rfl
  | cons a t ih => simp [List.takeWhile_cons, h a (by simp), ih (fun b hb => h b (by simp [hb]))]

private theorem dropWhile_all {α} (p : α → Bool) (l : List α) (h : ∀ a ∈ l, p a = true) :
    l.dropWhile p = [] := by
  induction l with
  | nil => rfl
  | cons a t ih => simp [List.dropWhile_cons, h a (by simp), ih (fun b hb => h b (by simp [hb]))]

/-- **without a halt request every cycle from the start cycle to the last is run** -/
theorem complete_run (cfg : Config) (hno : ∀ c, cfg.startCycle ≤ c → c < cfg.nCycles → haltsAt cfg c = false) :
    fullCycles cfg = List.range' cfg.startCycle (cfg.nCycles - cfg.startCycle) ∧ haltCycle cfg = none := by
  have hall : ∀ a ∈ cycleRange cfg, (!haltsAt cfg a) = true := by
    intro a ha
    unfold cycleRange at ha
    rw [List.mem_range'_1] at ha
    simp [hno a ha.1 (by omega)]
  constructor
  · unfold fullCycles
    rw [takeWhile_all _ _ hall]; rfl
  · unfold haltCycle
    rw [dropWhile_all _ _ hall]; rfl

/-! ## Coupling iterations -/

/-- **stops at the first convergence**: if iteration `it` (below the cap) is the first at which all
couplers report convergence, exactly `it + 1` iterations are run -/
theorem coupling_iters_converged (cfg : Config) (c n it : Nat) (hit : it < cfg.maxIters)
    (hconv : converged cfg (active cfg .Coupled [] 0) ⟨c, n⟩ it = true)
    (hfirst : ∀ j, j < it → converged cfg (active cfg .Coupled [] 0) ⟨c, n⟩ j = false) :
    itersAt cfg c n = it + 1 := by
  unfold itersAt
  have : (List.range cfg.maxIters).find? (fun it => converged cfg (active cfg .Coupled [] 0) ⟨c, n⟩ it) = some it := by
    rw [List.find?_eq_some_iff_getElem]
    refine ⟨hconv, it, by simpa using hit, by simp, ?_⟩
    intro j hj
    simp [hfirst j hj]
  rw [this]

/-- **or at the cap**: if no iteration below the cap converges, exactly `maxIters` iterations are run -/
theorem coupling_iters_cap (cfg : Config) (c n : Nat)
    (hnone : ∀ j, j < cfg.maxIters → converged cfg (active cfg .Coupled [] 0) ⟨c, n⟩ j = false) :
    itersAt cfg c n = cfg.maxIters := by
  unfold itersAt
  have : (List.range cfg.maxIters).find? (fun it => converged cfg (active cfg .Coupled [] 0) ⟨c, n⟩ it) = none := by
    rw [List.find?_eq_none]
    intro j hj
    simp at hj
    simp [hnone j hj]
  rw [this]

/-- **the coupled calls after a node**: none when coupling is off or the cycle is exempt, otherwise
iterations 0 … itersAt-1, each calling every active interface once in stack order -/
theorem coupling_calls (cfg : Config) (c n : Nat) :
    (specNode cfg c n).filter (fun e => e.hook = .Coupled) =
      if cfg.couplingOn = true ∧ cfg.skipCycles.contains c = false then
        (List.range (itersAt cfg c n)).flatMap (fun it => calls .Coupled (active cfg .Coupled [] 0) [it] c n)
      else [] := by
  unfold specNode specCoupling
  cases cfg.couplingOn <;> cases cfg.skipCycles.contains c <;>
    simp [filter_calls, List.filter_flatMap]

example : itersAt exCfg 0 1 = 2 ∧ itersAt exCfg 0 2 = 3 := by decide

/-! ## Coupling with the couplers' own state (`TightCoupler` bookkeeping)

`Model/Schedule.lean` transcribes `TightCoupler.storePreviousIterationValue / isConverged` (counter, own
`maxIters`, warning) and the loop of `_performTightCoupling` / `interactAllCoupled` /
`_checkTightCouplingConvergence` over those objects (`coupledLoopS`). -/
/-- rounds the property prescribes for a cap and an all-converged predicate: up to and including the first
converged iteration, else the cap -/
def roundsSpec (cap : Nat) (P : Nat → Bool) : Nat :=
  match (List.range cap).find? P with
  | some it => it + 1
  | none => cap

/-- the verdict of `isConverged` after `store` depends only on the two values and the tolerance — not on the
coupler's own `maxIters` or counter — and leaves the tolerance and `maxIters` unchanged -/
theorem isConverged_verdict (k : Coupler) (b a : Rat) :
    ∃ w k', (k.store b).isConverged a = some (decide (absDiff a b < k.tol), w, k')
      ∧ k'.tol = k.tol ∧ k'.maxIters = k.maxIters := by
  unfold Coupler.isConverged Coupler.store
  simp only []
  by_cases h : absDiff a b < k.tol
  · simp [h]
  · by_cases h2 : k.numIters + 1 = k.maxIters <;> simp [h, h2]

theorem checkAll_verdict (vb va : Nat → Rat) (ks : List (Nat × Coupler)) :
    ∃ w ks', checkAll va (storeAll vb ks) = some (ks.all (fun p => decide (absDiff (va p.1) (vb p.1) < p.2.tol)), w, ks')
      ∧ ks'.map (fun p => (p.1, p.2.tol, p.2.maxIters)) = ks.map (fun p => (p.1, p.2.tol, p.2.maxIters)) := by
  induction ks with
  | nil => exact ⟨0, [], by simp [storeAll, checkAll]⟩
  | cons p rest ih =>
    obtain ⟨w, ks', h1, h2⟩ := ih
    obtain ⟨w0, k0, h3, h4, h5⟩ := isConverged_verdict p.2 (vb p.1) (va p.1)
    refine ⟨(if w0 then 1 else 0) + w, (p.1, k0) :: ks', ?_, ?_⟩
    · simp only [storeAll, List.map_cons, checkAll] at h1 ⊢
      rw [h3]
      simp only []
      rw [h1]
      simp
    · simp [h2, h4, h5]

theorem coupledLoopS_rounds (vb va : Nat → Nat → Rat) (left it : Nat) (ks : List (Nat × Coupler)) :
    ∃ w ks', coupledLoopS vb va left it ks = some (cnt (fun j => ks.all (fun p => verdict vb va p j)) left it, w, ks')
      ∧ ks'.map (fun p => (p.1, p.2.tol, p.2.maxIters)) = ks.map (fun p => (p.1, p.2.tol, p.2.maxIters)) := by
  induction left generalizing it ks with
  | zero => exact ⟨0, ks, by simp [coupledLoopS, cnt], rfl⟩
  | succ left ih =>
    obtain ⟨w, ks1, h1, h2⟩ := checkAll_verdict (fun n => vb n it) (fun n => va n it) ks
    unfold coupledLoopS interactAllCoupledS
    rw [h1]
    simp only []
    by_cases hc : (ks.all fun p => decide (absDiff (va p.1 it) (vb p.1 it) < p.2.tol)) = true
    · refine ⟨w, ks1, ?_, h2⟩
      rw [if_pos hc]
      have : cnt (fun j => ks.all (fun p => verdict vb va p j)) (left + 1) it = 1 := by
        unfold cnt
        rw [List.range'_succ, List.find?_cons]
        have : (ks.all fun p => verdict vb va p it) = true := by simpa [verdict] using hc
        simp [this]
      rw [this]
    · rw [if_neg hc]
      obtain ⟨w2, ks2, h3, h4⟩ := ih (it + 1) ks1
      -- the predicate over ks1 equals the predicate over ks (same names and tolerances)
      have hP : ∀ j, (ks1.all fun p => verdict vb va p j) = (ks.all fun p => verdict vb va p j) := by
        intro j
        have e : ∀ l : List (Nat × Coupler), (l.all fun p => verdict vb va p j)
            = ((l.map (fun p => (p.1, p.2.tol, p.2.maxIters))).all
                (fun q => decide (absDiff (va q.1 j) (vb q.1 j) < q.2.1))) := by
          intro l; simp [List.all_map, verdict, Function.comp_def]
        rw [e ks1, e ks, h2]
      rw [h3]
      refine ⟨w + w2, ks2, ?_, h4.trans h2⟩
      have hc' : (ks.all fun p => verdict vb va p it) = false := by
        have : ¬ (ks.all fun p => verdict vb va p it) = true := by simpa [verdict] using hc
        simpa using this
      have hcnt : cnt (fun j => ks.all (fun p => verdict vb va p j)) (left + 1) it
          = cnt (fun j => ks1.all (fun p => verdict vb va p j)) left (it + 1) + 1 := by
        simp only [hP]
        unfold cnt
        rw [List.range'_succ, List.find?_cons]
        simp only [hc']
        cases hf : (List.range' (it + 1) left).find? (fun j => ks.all (fun p => verdict vb va p j)) with
        | none => rfl
        | some j =>
          have hm := List.mem_of_find?_eq_some hf
          rw [List.mem_range'_1] at hm
          simp only []
          omega
      simp [hcnt]


private theorem cnt_zero (P : Nat → Bool) (cap : Nat) : cnt P cap 0 = roundsSpec cap P := by
  unfold cnt roundsSpec
  simp only [List.range_eq_range']
  cases (List.range' 0 cap).find? P <;> simp

/-- `roundsSpec cap P` = min(cap, 1 + least iteration at which `P` holds) -/
theorem roundsSpec_spec (cap : Nat) (P : Nat → Bool) :
    (∃ it, it < cap ∧ P it = true ∧ (∀ j, j < it → P j = false) ∧ roundsSpec cap P = it + 1)
    ∨ ((∀ j, j < cap → P j = false) ∧ roundsSpec cap P = cap) := by
  unfold roundsSpec
  cases hf : (List.range cap).find? P with
  | some it =>
    left
    rw [List.find?_range_eq_some] at hf
    refine ⟨it, by simpa using hf.2.1, hf.1, ?_, rfl⟩
    intro j hj
    simpa using hf.2.2 j hj
  | none =>
    right
    rw [List.find?_range_eq_none] at hf
    exact ⟨fun j hj => by simpa using hf j hj, rfl⟩

theorem roundsSpec_le_cap (cap : Nat) (P : Nat → Bool) : roundsSpec cap P ≤ cap := by
  rcases roundsSpec_spec cap P with ⟨it, h1, _, _, h4⟩ | ⟨_, h⟩ <;> omega

/-- **per-coupler `maxIters` never cuts the operator's loop short**: whatever `maxIters` and counter each
coupled interface's own `TightCoupler` carries, `_performTightCoupling` runs exactly
`min(tightCouplingMaxNumIters, 1 + first round in which every coupler's |after − before| is below its tolerance)`
rounds (a coupler's own `maxIters` only decides whether ITS warning is issued) -/
theorem coupling_rounds_any_coupler_maxIters (vb va : Nat → Nat → Rat) (cap : Nat) (ks : List (Nat × Coupler)) :
    ∃ w ks', coupledLoopS vb va cap 0 ks = some (roundsSpec cap (fun j => ks.all (fun p => verdict vb va p j)), w, ks') := by
  obtain ⟨w, ks', h, _⟩ := coupledLoopS_rounds vb va cap 0 ks
  exact ⟨w, ks', by rw [h, cnt_zero]⟩

/-- two coupler lists that differ only in their own `maxIters` / counters / stored values run the same number of rounds -/
theorem coupling_rounds_congr (vb va : Nat → Nat → Rat) (cap : Nat) (ks ks2 : List (Nat × Coupler))
    (h : ks.map (fun p => (p.1, p.2.tol)) = ks2.map (fun p => (p.1, p.2.tol))) :
    (coupledLoopS vb va cap 0 ks).map (·.1) = (coupledLoopS vb va cap 0 ks2).map (·.1) := by
  obtain ⟨w, k', h1⟩ := coupling_rounds_any_coupler_maxIters vb va cap ks
  obtain ⟨w2, k2', h2⟩ := coupling_rounds_any_coupler_maxIters vb va cap ks2
  rw [h1, h2]
  have e : ∀ (l : List (Nat × Coupler)) j, (l.all fun p => verdict vb va p j)
      = ((l.map (fun p => (p.1, p.2.tol))).all (fun q => decide (absDiff (va q.1 j) (vb q.1 j) < q.2))) := by
    intro l j; simp [List.all_map, verdict, Function.comp_def]
  simp only [Option.map_some, e, h]

/-- `itersAt` (the count in the declarative schedule `spec`, hence in `run`) is `roundsSpec` of the run's cap
and the all-converged predicate -/
theorem itersAt_eq_roundsSpec (cfg : Config) (c n : Nat) :
    itersAt cfg c n = roundsSpec cfg.maxIters (fun it => converged cfg (active cfg .Coupled [] 0) ⟨c, n⟩ it) := rfl

/-- **the abstract `conv` of the schedule model is realised by real couplers**: if `cfg.conv` at node (c, n) is
the verdict |after − before| < tolerance of the values, and `ks` are the couplers (any own `maxIters`, any
counter) of the active coupled interfaces in stack order, then the loop with the couplers' state runs exactly
the `itersAt cfg c n` rounds of the schedule -/
theorem coupling_rounds_with_couplers (cfg : Config) (tol : Nat → Rat) (vb va : Nat → Nat → Rat) (c n : Nat)
    (hconv : ∀ i it, cfg.conv i c n it = decide (absDiff (va i it) (vb i it) < tol i))
    (ks : List (Nat × Coupler))
    (hks : ks.map (fun p => (p.1, p.2.tol))
      = ((active cfg .Coupled [] 0).filter (·.hasCoupler)).map (fun i => (i.name, tol i.name))) :
    ∃ w ks', coupledLoopS vb va cfg.maxIters 0 ks = some (itersAt cfg c n, w, ks') := by
  obtain ⟨w, ks', h⟩ := coupling_rounds_any_coupler_maxIters vb va cfg.maxIters ks
  refine ⟨w, ks', ?_⟩
  rw [h, itersAt_eq_roundsSpec]
  have hP : (fun j => ks.all fun p => verdict vb va p j)
      = (fun it => converged cfg (active cfg .Coupled [] 0) ⟨c, n⟩ it) := by
    funext it
    have e : (ks.all fun p => verdict vb va p it)
        = ((ks.map (fun p => (p.1, p.2.tol))).all (fun q => decide (absDiff (va q.1 it) (vb q.1 it) < q.2))) := by
      simp [List.all_map, verdict, Function.comp_def]
    rw [e, hks]
    simp [converged, List.all_map, Function.comp_def, hconv]
  rw [hP]

example : coupledLoopS (fun _ it => it) (fun n it => if n = 1 ∧ it < 3 then it + 1 else it) 6 0
    [(1, ⟨1/2, 1, 0, none⟩), (2, ⟨1/2, 2, 0, none⟩)] = some (4, 3, [(1, ⟨1/2, 1, 0, some 3⟩), (2, ⟨1/2, 2, 0, some 3⟩)]) := by decide +kernel

/-! ## Node arithmetic -/

private theorem nodeOfCumLoop_left (l : List Nat) (i acc c n : Nat) (hc : c < l.length) (hn : n < l[c]) :
    nodeOfCumLoop (acc + (l.take c).sum + n) i acc l = some (i + c, n) := by
  induction l generalizing i acc c with
  | nil => simp at hc
  | cons x rest ih =>
    cases c with
    | zero =>
      simp at hn
      simp [nodeOfCumLoop, hn]
    | succ c' =>
      simp at hc hn
      have hne : rest ≠ [] := by intro h; subst h; simp at hc
      unfold nodeOfCumLoop
      simp only [List.take_succ_cons, List.sum_cons]
      have hk : ¬ (acc + (x + (List.take c' rest).sum) + n < acc + x) := by omega
      rw [if_neg hk]
      cases rest with
      | nil => exact absurd rfl hne
      | cons y r2 =>
        have := ih (i + 1) (acc + x) c' (by simpa using hc) hn
        rw [show acc + (x + (List.take c' (y :: r2)).sum) + n = acc + x + (List.take c' (y :: r2)).sum + n by omega]
        rw [this]
        congr 2; omega

/-- **(cycle, node) → cumulative node → (cycle, node)** -/
theorem cum_node_inverse (bs : List Nat) (c n : Nat) (hc : c < bs.length) (hn : n ≤ bs[c]) :
    nodeOfCum bs (cumNode bs c n) = some (c, n) := by
  unfold nodeOfCum cumNode
  have := nodeOfCumLoop_left (nodesPerCycle bs) 0 0 c n (by simpa [nodesPerCycle] using hc)
    (by simp [nodesPerCycle]; omega)
  simpa using this

private theorem nodeOfCumLoop_right (l : List Nat) (i acc k : Nat) (p : Nat × Nat) (hk : acc ≤ k)
    (h : nodeOfCumLoop k i acc l = some p) :
    acc + (l.take (p.1 - i)).sum + p.2 = k ∧ i ≤ p.1 ∧ p.1 < i + l.length := by
  induction l generalizing i acc with
  | nil => simp [nodeOfCumLoop] at h
  | cons x rest ih =>
    unfold nodeOfCumLoop at h
    simp only [] at h
    split at h
    · simp at h; subst h; simp; omega
    · cases rest with
      | nil => simp at h; subst h; simp; omega
      | cons y r2 =>
        simp only [] at h
        have := ih (i + 1) (acc + x) (by omega) h
        obtain ⟨h1, h2, h3⟩ := this
        have e : p.1 - i = (p.1 - (i + 1)) + 1 := by omega
        rw [e, List.take_succ_cons, List.sum_cons]
        refine ⟨by omega, by omega, by simp at h3 ⊢; omega⟩

/-- **cumulative node → (cycle, node) → cumulative node**, for every cumulative number (beyond the
last node the code extends the last cycle, and the round trip still holds) -/
theorem cum_node_inverse_right (bs : List Nat) (k c n : Nat) (h : nodeOfCum bs k = some (c, n)) :
    cumNode bs c n = k ∧ c < bs.length := by
  unfold nodeOfCum at h
  have := nodeOfCumLoop_right (nodesPerCycle bs) 0 0 k (c, n) (Nat.zero_le _) h
  simp [nodesPerCycle] at this
  unfold cumNode
  simp [nodesPerCycle]
  omega

private theorem stepOfCumLoop_left (l : List Nat) (i acc c n : Nat) (hc : c < l.length) (hn : n < l[c]) :
    stepOfCumLoop (acc + (l.take c).sum + n + 1) i acc l = some (i + c, n) := by
  induction l generalizing i acc c with
  | nil => simp at hc
  | cons x rest ih =>
    cases c with
    | zero =>
      simp at hn
      have : acc + n + 1 ≤ acc + x := by omega
      simp [stepOfCumLoop, this]
      omega
    | succ c' =>
      simp at hc hn
      have hne : rest ≠ [] := by intro h; subst h; simp at hc
      unfold stepOfCumLoop
      simp only [List.take_succ_cons, List.sum_cons]
      have hk : ¬ (acc + (x + (List.take c' rest).sum) + n + 1 ≤ acc + x) := by omega
      rw [if_neg hk]
      cases rest with
      | nil => exact absurd rfl hne
      | cons y r2 =>
        have := ih (i + 1) (acc + x) c' (by simpa using hc) hn
        rw [show acc + (x + (List.take c' (y :: r2)).sum) + n + 1 = acc + x + (List.take c' (y :: r2)).sum + n + 1 by omega]
        rw [this]
        congr 2; omega

/-- **cumulative step numbers**: the time step that starts at node `n < burnSteps[c]` of cycle `c`
has the 1-based number `Σ burnSteps[:c] + n + 1`, and `getCycleNodeFromCumulativeStep` inverts it -/
theorem cum_step_inverse (bs : List Nat) (c n : Nat) (hc : c < bs.length) (hn : n < bs[c]) :
    stepOfCum bs ((bs.take c).sum + n + 1) = some (c, n) := by
  unfold stepOfCum
  have := stepOfCumLoop_left bs 0 0 c n hc hn
  simp at this
  simp [this]

/-- **the node before**: `getPreviousTimeNode` of a node of the history other than (0,0) is the node
whose cumulative number is one less -/
theorem prev_node_spec (bs : List Nat) (c n : Nat) (hc : c < bs.length) (_hn : n ≤ bs[c])
    (h0 : ¬ (c = 0 ∧ n = 0)) :
    ∃ p, prevNode bs c n = some p ∧ cumNode bs p.1 p.2 + 1 = cumNode bs c n
      ∧ p.1 < bs.length ∧ p.2 ≤ bs[p.1]! := by
  unfold prevNode
  rw [if_neg h0]
  by_cases hn0 : n = 0
  · subst hn0
    have hc0 : c ≠ 0 := by omega
    obtain ⟨c', rfl⟩ : ∃ c', c = c' + 1 := ⟨c - 1, by omega⟩
    have hc' : c' < bs.length := by omega
    simp only [ne_eq, not_true_eq_false, if_false, Nat.add_sub_cancel]
    have hget : (nodesPerCycle bs)[c']? = some (bs[c'] + 1) := by
      simp [nodesPerCycle, hc']
    rw [hget]
    refine ⟨(c', bs[c']), rfl, ?_, hc', by simp [hc']⟩
    unfold cumNode
    have : (nodesPerCycle bs).take (c' + 1) = (nodesPerCycle bs).take c' ++ [bs[c'] + 1] := by
      rw [List.take_add_one, hget]; rfl
    rw [this]; simp; omega
  · rw [if_pos hn0]
    refine ⟨(c, n - 1), rfl, ?_, hc, ?_⟩
    · unfold cumNode; simp only []; omega
    · simp [hc]; omega

/-- all nodes of a complete history, in the order a run from (0, 0) visits them -/
def allNodes (bs : List Nat) : List (Nat × Nat) :=
  (List.range bs.length).flatMap (fun c => (List.range (bs.getD c 0 + 1)).map (fun n => (c, n)))

example : allNodes [2, 0, 1] = [(0, 0), (0, 1), (0, 2), (1, 0), (2, 0), (2, 1)] := by decide
example : nodeOfCum [2, 0, 1] 4 = some (2, 0) ∧ cumNode [2, 0, 1] 2 0 = 4 ∧ stepOfCum [2, 0, 1] 3 = some (2, 0)
    ∧ prevNode [2, 0, 1] 2 0 = some (1, 0) := by decide

/-! ## Cumulative numbering is the visit order -/

private theorem allNodes_snoc (init : List Nat) (b : Nat) :
    allNodes (init ++ [b]) = allNodes init ++ (List.range (b + 1)).map (fun n => (init.length, n)) := by
  unfold allNodes
  rw [show (init ++ [b]).length = init.length + 1 by simp, List.range_succ, List.flatMap_append]
  congr 1
  · apply List.flatMap_congr
    intro c hc
    rw [List.mem_range] at hc
    simp [List.getD_eq_getElem?_getD, List.getElem?_append_left hc]
  · simp [List.getD_eq_getElem?_getD]

private theorem mem_allNodes (bs : List Nat) (p : Nat × Nat) (h : p ∈ allNodes bs) : p.1 < bs.length := by
  unfold allNodes at h
  simp only [List.mem_flatMap, List.mem_range, List.mem_map] at h
  obtain ⟨c, hc, n, _, rfl⟩ := h
  exact hc

private theorem cumNode_snoc (init : List Nat) (b c n : Nat) (hc : c ≤ init.length) :
    cumNode (init ++ [b]) c n = cumNode init c n := by
  unfold cumNode nodesPerCycle
  rw [List.map_append, List.take_append_of_le_length (by simpa using hc)]

private theorem numbering_rev (r : List Nat) :
    (allNodes r.reverse).map (fun p => cumNode r.reverse p.1 p.2) = List.range (nodesPerCycle r.reverse).sum := by
  induction r with
  | nil => simp [allNodes, nodesPerCycle]
  | cons b r ih =>
    rw [List.reverse_cons, allNodes_snoc, List.map_append]
    have h1 : (allNodes r.reverse).map (fun p => cumNode (r.reverse ++ [b]) p.1 p.2)
        = (allNodes r.reverse).map (fun p => cumNode r.reverse p.1 p.2) := by
      apply List.map_congr_left
      intro p hp
      exact cumNode_snoc _ _ _ _ (Nat.le_of_lt (mem_allNodes _ p hp))
    rw [h1, ih, List.map_map]
    have h2 : ((fun p : Nat × Nat => cumNode (r.reverse ++ [b]) p.1 p.2) ∘ fun n => (r.reverse.length, n))
        = fun n => (nodesPerCycle r.reverse).sum + n := by
      funext n
      simp only [Function.comp]
      rw [cumNode_snoc _ _ _ _ (Nat.le_refl _)]
      unfold cumNode
      rw [List.take_of_length_le (by simp [nodesPerCycle])]
    rw [h2]
    have h3 : (nodesPerCycle (r.reverse ++ [b])).sum = (nodesPerCycle r.reverse).sum + (b + 1) := by
      simp [nodesPerCycle]
    rw [h3, List.range_add (n := (nodesPerCycle r.reverse).sum) (m := b + 1)]

/-- cumulative node numbers count the nodes of a history in order: 0, 1, 2, … -/
theorem allNodes_numbering (bs : List Nat) :
    (allNodes bs).map (fun p => cumNode bs p.1 p.2) = List.range (nodesPerCycle bs).sum := by
  have := numbering_rev bs.reverse
  simpa using this

/-- a complete run from (0, 0) visits exactly the nodes of the history -/
theorem visited_full_run (cfg : Config) (h0 : cfg.startCycle = 0) (hn0 : cfg.startNode = 0)
    (hlen : cfg.nCycles = cfg.burnSteps.length)
    (hno : ∀ c, c < cfg.nCycles → haltsAt cfg c = false) :
    visitedNodes cfg = allNodes cfg.burnSteps := by
  unfold visitedNodes allNodes
  rw [(complete_run cfg (fun c _ hc => hno c hc)).1, h0, Nat.sub_zero, hlen, List.range_eq_range']
  apply List.flatMap_congr
  intro c _
  unfold nodesOf firstNode lastNode
  simp only [h0, hn0, ite_self, Nat.sub_zero]
  rw [List.range_succ, List.range_eq_range']

/-- **cum_numbering_is_visit_order**: in a complete run from (0, 0) the k-th time node visited (the
k-th group of EveryNode calls, see `everyNode_calls`) has cumulative node number k -/
theorem cum_numbering_is_visit_order (cfg : Config) (h0 : cfg.startCycle = 0) (hn0 : cfg.startNode = 0)
    (hlen : cfg.nCycles = cfg.burnSteps.length)
    (hno : ∀ c, c < cfg.nCycles → haltsAt cfg c = false) :
    (visitedNodes cfg).map (fun p => cumNode cfg.burnSteps p.1 p.2)
      = List.range (visitedNodes cfg).length := by
  rw [visited_full_run cfg h0 hn0 hlen hno]
  have h := allNodes_numbering cfg.burnSteps
  have hl := congrArg List.length h
  simp only [List.length_map, List.length_range] at hl
  rw [h, hl]

/-- the same, index by index -/
theorem cum_numbering_index (cfg : Config) (h0 : cfg.startCycle = 0) (hn0 : cfg.startNode = 0)
    (hlen : cfg.nCycles = cfg.burnSteps.length)
    (hno : ∀ c, c < cfg.nCycles → haltsAt cfg c = false) (k : Nat) (hk : k < (visitedNodes cfg).length) :
    cumNode cfg.burnSteps (visitedNodes cfg)[k].1 (visitedNodes cfg)[k].2 = k := by
  have h := cum_numbering_is_visit_order cfg h0 hn0 hlen hno
  have := congrArg (fun l => l[k]?) h
  simp only [List.getElem?_map, List.getElem?_range hk, List.getElem?_eq_getElem hk, Option.map_some] at this
  simpa using this

example : (visitedNodes { exCfg with startNode := 0 }).map (fun p => cumNode exCfg.burnSteps p.1 p.2)
    = [0, 1, 2, 3, 4] := by decide


/-! ## Step lengths -/

private theorem sum_replicate_rat (b : Nat) (x : Rat) : (List.replicate b x).sum = b * x := by
  induction b with
  | zero => simp
  | succ k ih => rw [List.replicate_succ, List.sum_cons, ih]; push_cast; ring

/-- **simple inputs: the step lengths of every cycle sum to availability × cycle length**
(there is one row per (cycle length, availability) pair, each with `burnSteps` equal steps) -/
theorem steps_sum_simple (lens avail : List Rat) (b : Nat) (hb : b ≠ 0) :
    (stepLengthsSimple lens avail b).map List.sum = List.zipWith (· * ·) lens avail
    ∧ ∀ row ∈ stepLengthsSimple lens avail b, row.length = b := by
  unfold stepLengthsSimple
  rw [if_neg hb]
  have hb' : (b : Rat) ≠ 0 := by exact_mod_cast hb
  constructor
  · rw [List.map_map]
    conv_rhs => rw [← List.map_id (List.zipWith (· * ·) lens avail)]
    apply List.map_congr_left
    intro l _
    simp only [Function.comp, sum_replicate_rat, id]
    field_simp
  · intro row hrow
    simp only [List.mem_map] at hrow
    obtain ⟨l, _, rfl⟩ := hrow
    simp

/-- **a scalar availability of exactly 0 is honoured** (decay-only history): every cycle gets
availability 0 — not the default 1 — and every step has length 0 = 0 × cycle length -/
theorem availability_zero_honoured (nCycles b : Nat) (cl : Rat) (hb : b ≠ 0) :
    availabilitySimple none (some 0) nCycles = List.replicate nCycles 0
    ∧ (stepLengthsSimple (cycleLengthsSimple none (some cl) nCycles) (availabilitySimple none (some 0) nCycles) b).map List.sum
        = List.replicate nCycles 0 := by
  refine ⟨rfl, ?_⟩
  rw [(steps_sum_simple _ _ b hb).1]
  simp only [availabilitySimple, cycleLengthsSimple, listOrScalar]
  induction nCycles with
  | zero => rfl
  | succ n ih => simp only [List.replicate_succ, List.zipWith_cons_cons, mul_zero, ih]

/-- the list form wins over the scalar, the scalar over the default -/
theorem listOrScalar_spec (x : Rat) (xs : List Rat) (sc : Option Rat) (v : Rat) (n : Nat) (d : List Rat) :
    listOrScalar (some (x :: xs)) sc n d = x :: xs ∧ listOrScalar none (some v) n d = List.replicate n v
    ∧ listOrScalar (some []) (some v) n d = List.replicate n v ∧ listOrScalar none none n d = d := by
  exact ⟨rfl, rfl, rfl, rfl⟩

/-- **detailed inputs: step lengths sum to availability × cycle length** for each of the three
ways a cycle can be given (step days, cumulative days, burn steps + cycle length) -/
theorem steps_sum_detailed (a : Rat) (ha : a ≠ 0) (c : CycleSpec) :
    (stepLengthsDetailed a c).sum = a * cycleLengthDetailed a c := by
  unfold cycleLengthDetailed
  field_simp

/-- with burn steps and a cycle length given, the cycle length is recovered and steps are equal -/
theorem steps_detailed_length (a l : Rat) (b : Nat) (ha : a ≠ 0) (hb : b ≠ 0) :
    cycleLengthDetailed a (.stepsAndLength b l) = l
    ∧ (stepLengthsDetailed a (.stepsAndLength b l)).length = b := by
  have hb' : (b : Rat) ≠ 0 := by exact_mod_cast hb
  unfold cycleLengthDetailed stepLengthsDetailed
  simp only [sum_replicate_rat, List.length_replicate, and_true]
  field_simp

/-- cumulative days: the steps are the successive differences, so they sum to the last value -/
theorem steps_cumulative_sum (prev : Rat) (cum : List Rat) :
    (stepsFromValues prev cum).sum = (cum.getLast?.getD prev) - prev := by
  induction cum generalizing prev with
  | nil => simp [stepsFromValues]
  | cons v rest ih =>
    simp only [stepsFromValues, List.sum_cons, ih v, List.getLast?_cons]
    cases rest.getLast? <;> simp

example : (stepLengthsSimple [10, 20] [1/2, 1] 2).map List.length = [2, 2] := by decide

/-! ### the repeat notation of the cycle inputs (`expandRepeatedFloats`) -/

/-- how many entries an item contributes -/
def RItem.weight : RItem → Nat
  | .val _ => 1
  | .rep n => n

/-- **length**: the expansion has one entry per number plus n per `nR` (for step days: the cycle's burn steps) -/
theorem expandLoop_length (l : List RItem) (acc r : List Rat) (h : expandLoop l acc = some r) :
    r.length = acc.length + (l.map RItem.weight).sum := by
  induction l generalizing acc with
  | nil => simp [expandLoop] at h; subst h; simp
  | cons a rest ih =>
    cases a with
    | val v =>
      simp only [expandLoop] at h
      rw [ih _ h]; simp [RItem.weight]; omega
    | rep n =>
      simp only [expandLoop] at h
      cases hl : acc.getLast? with
      | none => rw [hl] at h; simp at h
      | some x =>
        rw [hl] at h
        simp only [] at h
        rw [ih _ h]; simp [RItem.weight]; omega

theorem expand_length (l : List RItem) (r : List Rat) (h : expandRepeated l = some r) :
    r.length = (l.map RItem.weight).sum := by
  have := expandLoop_length l [] r h
  simpa using this

/-- a list without repeats expands to itself -/
theorem expand_plain (vs : List Rat) : expandRepeated (vs.map RItem.val) = some vs := by
  suffices ∀ acc, expandLoop (vs.map RItem.val) acc = some (acc ++ vs) by simpa [expandRepeated] using this []
  induction vs with
  | nil => intro acc; simp [expandLoop]
  | cons v rest ih => intro acc; simp [expandLoop, ih]

/-- a number followed by `nR` stands for n + 1 copies of it -/
theorem expand_val_rep (v : Rat) (n : Nat) (rest : List RItem) (acc : List Rat) :
    expandLoop (.val v :: .rep n :: rest) acc = expandLoop rest (acc ++ List.replicate (n + 1) v) := by
  simp [expandLoop, List.replicate_succ]

/-- a repeat right after a repeat keeps repeating the same value -/
theorem expand_rep_rep (v : Rat) (n m : Nat) (rest : List RItem) (acc : List Rat) :
    expandLoop (.rep m :: rest) (acc ++ List.replicate (n + 1) v)
      = expandLoop rest (acc ++ List.replicate (n + 1 + m) v) := by
  have hl : (acc ++ List.replicate (n + 1) v).getLast? = some v := by
    rw [List.replicate_succ', ← List.append_assoc]; simp
  simp only [expandLoop, hl, List.append_assoc, List.replicate_append_replicate]

/-- refused exactly when the list starts with a repeat (nothing to repeat) -/
theorem expand_reject (l : List RItem) : expandRepeated l = none ↔ ∃ n rest, l = .rep n :: rest := by
  have hne : ∀ (l : List RItem) (acc : List Rat), acc ≠ [] → (expandLoop l acc).isSome := by
    intro l
    induction l with
    | nil => intro acc _; simp [expandLoop]
    | cons a rest ih =>
      intro acc hacc
      cases a with
      | val v => simp only [expandLoop]; exact ih _ (by simp)
      | rep n =>
        simp only [expandLoop]
        cases hl : acc.getLast? with
        | none => simp [List.getLast?_eq_none_iff] at hl; exact absurd hl hacc
        | some x => simp only []; exact ih _ (by simp [hacc])
  constructor
  · intro h
    cases l with
    | nil => simp [expandRepeated, expandLoop] at h
    | cons a rest =>
      cases a with
      | val v =>
        have := hne rest ([] ++ [v]) (by simp)
        simp only [expandRepeated, expandLoop] at h
        rw [h] at this; simp at this
      | rep n => exact ⟨n, rest, rfl⟩
  · rintro ⟨n, rest, rfl⟩
    simp [expandRepeated, expandLoop]

example : expandRepeated [.val 150, .val 200, .rep 9] = some (150 :: List.replicate 10 200) := by decide


end ArmiVerif.Schedule

namespace ArmiVerif.IfaceStack

/-! ## Stack construction rules (addInterface / removeInterface / getInterface / createInterfaces) -/

def hits (name function : Option Nat) (i : SI) : Bool :=
  (name == some i.name) || (function.isSome && i.function == function)

/-- **getInterface**: a returned interface is attached and has the name or function asked for;
`None` means no attached interface has it; the error means at least two have -/
theorem getInterface_spec (s : List SI) (name function : Option Nat) :
    (∀ x, getInterface s name function = .one x → x ∈ s ∧ hits name function x = true
        ∧ s.filter (hits name function) = [x])
    ∧ (getInterface s name function = .none ↔ ∀ i ∈ s, hits name function i = false)
    ∧ (getInterface s name function = .multiple → 2 ≤ (s.filter (hits name function)).length) := by
  unfold getInterface
  have hm : (fun i : SI => (name == some i.name) || (function.isSome && i.function == function))
      = hits name function := rfl
  rw [hm]
  cases hf : s.filter (hits name function) with
  | nil =>
    refine ⟨by intro x h; simp at h, ?_, by intro h; simp at h⟩
    simp only [true_iff]
    intro i hi
    have := List.filter_eq_nil_iff.mp hf i hi
    simpa using this
  | cons a t =>
    have ha : a ∈ s.filter (hits name function) := by rw [hf]; simp
    cases t with
    | nil =>
      refine ⟨?_, ?_, by intro h; simp at h⟩
      · intro x h
        simp at h; subst h
        exact ⟨(List.mem_filter.mp ha).1, (List.mem_filter.mp ha).2, rfl⟩
      · simp only [reduceCtorEq, false_iff]
        intro h
        have := h a (List.mem_filter.mp ha).1
        rw [(List.mem_filter.mp ha).2] at this
        simp at this
    | cons b t' =>
      refine ⟨by intro x h; simp at h, ?_, by intro _; simp⟩
      simp only [reduceCtorEq, false_iff]
      intro h
      have := h a (List.mem_filter.mp ha).1
      rw [(List.mem_filter.mp ha).2] at this
      simp at this

private theorem byName_none (s : List SI) (n : Nat) (h : getInterface s (some n) none = .none) :
    n ∉ s.map (·.name) := by
  have := (getInterface_spec s (some n) none).2.1.mp h
  intro hn
  simp only [List.mem_map] at hn
  obtain ⟨i, hi, rfl⟩ := hn
  have := this i hi
  simp [hits] at this

/-- where `addInterface` puts the new interface in a stack of `n`: last, or at the clamped index -/
def targetPos (n : Nat) (index : Option Int) : Nat :=
  match index with
  | none => n
  | some k => pyIndex n k

/-- Python's `list.insert`: the element lands at the clamped index, everything else keeps its order -/
theorem pyInsert_spec (l : List SI) (idx : Int) (a : SI) :
    ∃ pre post, l = pre ++ post ∧ pyInsert l idx a = pre ++ a :: post
      ∧ pre.length = pyIndex l.length idx ∧ pyIndex l.length idx ≤ l.length := by
  have hle : pyIndex l.length idx ≤ l.length := by
    unfold pyIndex; split <;> omega
  exact ⟨l.take (pyIndex l.length idx), l.drop (pyIndex l.length idx), (List.take_append_drop _ _).symm, rfl,
    by simp [hle], hle⟩

example : pyIndex 3 (-1) = 2 ∧ pyIndex 3 (-7) = 0 ∧ pyIndex 3 9 = 3 ∧ pyIndex 3 1 = 1 := by decide

private theorem place_spec (base : List SI) (i : SI) (index : Option Int) :
    ∃ pre post, base = pre ++ post ∧ place base i index = pre ++ i :: post
      ∧ pre.length = targetPos base.length index := by
  cases index with
  | none => exact ⟨base, [], by simp, by simp [place], rfl⟩
  | some k =>
    obtain ⟨pre, post, h1, h2, h3, _⟩ := pyInsert_spec base k i
    exact ⟨pre, post, h1, h2, h3⟩

/-- **addInterface_keeps_order**: a successful `addInterface` leaves the interfaces already attached
in their relative order (`base`: the old stack, minus the one less-derived interface of the same
function that the new one replaces, if any) and puts the new interface — with exactly the flags
requested — at the stated position: last, or at `index` with `list.insert` semantics -/
theorem addInterface_keeps_order (sub : Nat → Nat → Bool) (s s' : List SI) (i : SI) (index : Option Int)
    (rev en bf : Bool) (h : addInterface sub s i index rev en bf = .ok s') :
    ∃ base pre post, (base = s ∨ ∃ f ∈ s, base = s.erase f ∧ f.function = i.function ∧ sub i.klass f.klass = true)
      ∧ base = pre ++ post ∧ s' = pre ++ withFlags i rev en bf :: post
      ∧ pre.length = targetPos base.length index := by
  unfold addInterface at h
  split at h
  · simp at h
  · simp at h
  · split at h
    · simp at h
    · simp only [Res.ok.injEq] at h
      obtain ⟨pre, post, h1, h2, h3⟩ := place_spec s (withFlags i rev en bf) index
      exact ⟨s, pre, post, Or.inl rfl, h1, by rw [← h, h2], h3⟩
    · next f hf =>
      split at h
      · simp at h
      · split at h
        · next hsub =>
          simp only [Res.ok.injEq] at h
          obtain ⟨pre, post, h1, h2, h3⟩ := place_spec (s.erase f) (withFlags i rev en bf) index
          have hspec := (getInterface_spec s none i.function).1 f hf
          have hfun : f.function = i.function := by
            have := hspec.2.1
            simp [hits] at this
            exact this.2
          exact ⟨s.erase f, pre, post, Or.inr ⟨f, hspec.1, rfl, hfun, hsub⟩, h1, by rw [← h, h2], h3⟩
        · simp at h

/-- a refused or ignored `addInterface` is not `.ok`: the stack object is left alone (the model
returns no new stack) — and an interface whose name is already attached is always refused -/
theorem addInterface_duplicate_name (sub : Nat → Nat → Bool) (s : List SI) (i : SI) (index : Option Int)
    (rev en bf : Bool) (h : i.name ∈ s.map (·.name)) : addInterface sub s i index rev en bf = .raised := by
  unfold addInterface
  split
  · rfl
  · rfl
  · next hn => exact absurd h (byName_none s i.name hn)

/-- the operations on a stack -/
inductive Op
  | add (i : SI) (index : Option Int) (rev en bf : Bool)
  | removeName (n : Nat)
  | removeObj (uid : Nat)

/-- the stack after an operation (refused / ignored operations leave it as it is) -/
def step (sub : Nat → Nat → Bool) (s : List SI) : Op → List SI
  | .add i index rev en bf => match addInterface sub s i index rev en bf with
    | .ok s' => s'
    | _ => s
  | .removeName n => match removeByName s n with
    | some r => r.1
    | none => s
  | .removeObj u => (removeByUid s u).1

private theorem nodup_names_erase (s : List SI) (f : SI) (h : (s.map (·.name)).Nodup) :
    ((s.erase f).map (·.name)).Nodup :=
  List.Nodup.sublist ((List.erase_sublist).map _) h

/-- **names_unique**: no operation can make two attached interfaces share a name -/
theorem names_unique_step (sub : Nat → Nat → Bool) (s : List SI) (op : Op)
    (h : (s.map (·.name)).Nodup) : ((step sub s op).map (·.name)).Nodup := by
  cases op with
  | add i index rev en bf =>
    simp only [step]
    cases hres : addInterface sub s i index rev en bf with
    | raised => exact h
    | ignored => exact h
    | ok s' =>
      simp only []
      obtain ⟨base, pre, post, hbase, hsplit, hs', _⟩ := addInterface_keeps_order sub s s' i index rev en bf hres
      have hnew : i.name ∉ s.map (·.name) := by
        intro hmem
        rw [addInterface_duplicate_name sub s i index rev en bf hmem] at hres
        simp at hres
      have hb : (base.map (·.name)).Nodup ∧ i.name ∉ base.map (·.name) := by
        rcases hbase with rfl | ⟨f, _, rfl, _, _⟩
        · exact ⟨h, hnew⟩
        · exact ⟨nodup_names_erase s f h, fun hm => hnew (((List.erase_sublist).map _).subset hm)⟩
      rw [hs']
      rw [hsplit] at hb
      simp only [List.map_append, List.map_cons, withFlags] at hb ⊢
      have hperm : (pre.map (·.name) ++ i.name :: post.map (·.name)).Perm
          (i.name :: (pre.map (·.name) ++ post.map (·.name))) := List.perm_middle
      rw [hperm.nodup_iff, List.nodup_cons]
      exact ⟨hb.2, hb.1⟩
  | removeName n =>
    simp only [step]
    unfold removeByName
    split
    · next r hr =>
      split at hr
      · simp at hr
      · simp at hr; subst hr; exact nodup_names_erase _ _ h
      · simp at hr; subst hr; exact h
    · exact h
  | removeObj u =>
    simp only [step]
    unfold removeByUid
    split
    · exact nodup_names_erase _ _ h
    · exact h

/-- **names_unique**, for any sequence of add / remove operations starting from the empty stack -/
theorem names_unique (sub : Nat → Nat → Bool) (ops : List Op) :
    ((ops.foldl (step sub) []).map (·.name)).Nodup := by
  have : ∀ s : List SI, (s.map (·.name)).Nodup → ((ops.foldl (step sub) s).map (·.name)).Nodup := by
    induction ops with
    | nil => intro s h; exact h
    | cons op rest ih => intro s h; exact ih _ (names_unique_step sub s op h)
  exact this [] (by simp)

/-! ### createInterfaces: ordering by ORDER -/

private theorem insByOrder_perm (a : Info) (l : List Info) : (insByOrder a l).Perm (a :: l) := by
  induction l with
  | nil => exact List.Perm.refl _
  | cons b t ih =>
    unfold insByOrder
    split
    · exact List.Perm.refl _
    · exact (List.Perm.cons b ih).trans (List.Perm.swap a b t)

theorem sortByOrder_perm (l : List Info) : (sortByOrder l).Perm l := by
  induction l with
  | nil => exact List.Perm.refl _
  | cons a t ih => exact (insByOrder_perm a _).trans (List.Perm.cons a ih)

private theorem insByOrder_sorted (a : Info) (l : List Info)
    (hl : l.Pairwise (fun x y => x.order ≤ y.order)) :
    (insByOrder a l).Pairwise (fun x y => x.order ≤ y.order) := by
  induction l with
  | nil => simp [insByOrder]
  | cons b t ih =>
    unfold insByOrder
    rw [List.pairwise_cons] at hl
    split
    · next hab =>
      rw [List.pairwise_cons]
      refine ⟨?_, List.pairwise_cons.mpr hl⟩
      intro x hx
      rcases List.mem_cons.mp hx with rfl | hx
      · exact hab
      · exact le_trans hab (hl.1 x hx)
    · next hab =>
      have hba : b.order ≤ a.order := le_of_lt (not_le.mp hab)
      rw [List.pairwise_cons]
      refine ⟨?_, ih hl.2⟩
      intro x hx
      rcases List.mem_cons.mp ((insByOrder_perm a t).mem_iff.mp hx) with rfl | hx
      · exact hba
      · exact hl.1 x hx

/-- the interfaces are considered in non-decreasing ORDER -/
theorem sortByOrder_sorted (l : List Info) : (sortByOrder l).Pairwise (fun x y => x.order ≤ y.order) := by
  induction l with
  | nil => simp [sortByOrder]
  | cons a t ih => exact insByOrder_sorted a _ ih

private theorem insByOrder_filter (a : Info) (l : List Info) (o : Rat) :
    (insByOrder a l).filter (fun x => x.order = o) = (a :: l).filter (fun x => x.order = o) := by
  induction l with
  | nil => rfl
  | cons b t ih =>
    unfold insByOrder
    split
    · rfl
    · next hab =>
      have hlt : b.order < a.order := not_le.mp hab
      by_cases ha : a.order = o
      · have hb : ¬ b.order = o := by intro h; rw [ha, h] at hlt; exact lt_irrefl _ hlt
        simp only [List.filter_cons, hb, decide_false, Bool.false_eq_true, if_false, ha, decide_true, if_true] at ih ⊢
        exact ih
      · simp only [List.filter_cons, ha, decide_false, Bool.false_eq_true, if_false] at ih ⊢
        rw [ih]

/-- the sort is stable: interfaces of equal ORDER stay in registration order -/
theorem sortByOrder_stable (l : List Info) (o : Rat) :
    (sortByOrder l).filter (fun x => x.order = o) = l.filter (fun x => x.order = o) := by
  induction l with
  | nil => rfl
  | cons a t ih =>
    unfold sortByOrder
    rw [insByOrder_filter, List.filter_cons, List.filter_cons, ih]

/-- the object `addInterface` attaches for an exposed interface -/
def attached (a : Info) : SI := withFlags a.iface a.rev a.en a.bf

private theorem addAll_append (sub : Nat → Nat → Bool) (l : List Info) (s : List SI)
    (hidx : ∀ a ∈ l, a.index = none)
    (hnames : (l.map (·.iface.name)).Nodup)
    (hdisj : ∀ a ∈ l, a.iface.name ∉ s.map (·.name))
    (hfun : (l.filterMap (·.iface.function)).Nodup)
    (hfdisj : ∀ a ∈ l, ∀ f, a.iface.function = some f → some f ∉ s.map (·.function)) :
    addAll sub l s = some (s ++ l.map attached) := by
  induction l generalizing s with
  | nil => simp [addAll]
  | cons a rest ih =>
    have hn : getInterface s (some a.iface.name) none = .none := by
      rw [(getInterface_spec s _ _).2.1]
      intro i hi
      have := hdisj a (by simp)
      simp only [List.mem_map, not_exists, not_and] at this
      simp [hits]
      exact fun h => this i hi h.symm
    have hf : getInterface s none a.iface.function = .none := by
      rw [(getInterface_spec s _ _).2.1]
      intro i hi
      cases hfa : a.iface.function with
      | none => simp [hits]
      | some f =>
        have := hfdisj a (by simp) f hfa
        simp only [List.mem_map, not_exists, not_and] at this
        simp [hits]
        exact this i hi
    unfold addAll addInterface
    rw [hn, hf]
    simp only [place, hidx a (by simp)]
    simp only [List.map_cons, List.nodup_cons] at hnames
    rw [ih (s ++ [withFlags a.iface a.rev a.en a.bf]) (fun x hx => hidx x (by simp [hx])) hnames.2]
    · simp [attached]
    · intro x hx
      simp only [List.map_append, List.mem_append, List.map_cons, List.map_nil, List.mem_singleton, withFlags]
      rintro (h | h)
      · exact hdisj x (by simp [hx]) h
      · exact hnames.1 (List.mem_map.mpr ⟨x, hx, h⟩)
    · cases hfa : a.iface.function with
      | none => simpa [List.filterMap_cons, hfa] using hfun
      | some f =>
        simp only [List.filterMap_cons, hfa, List.nodup_cons] at hfun
        exact hfun.2
    · intro x hx f hxf
      simp only [List.map_append, List.mem_append, List.map_cons, List.map_nil, List.mem_singleton, withFlags]
      rintro (h | h)
      · exact hfdisj x (by simp [hx]) f hxf h
      · cases hfa : a.iface.function with
        | none => rw [hfa] at h; simp at h
        | some g =>
          rw [hfa] at h
          simp only [List.filterMap_cons, hfa, List.nodup_cons] at hfun
          have : g = f := by simpa using h.symm
          subst this
          exact hfun.1 (List.mem_filterMap.mpr ⟨x, hx, hxf⟩)

/-- **createInterfaces_sorted**: when the exposed interfaces have pairwise different names and
functions (none clashing with what is already attached) and none asks for an index, the stack after
`createInterfaces` is the old stack followed by ALL of them, sorted by ORDER, ties in registration
order (`sortByOrder_sorted`, `sortByOrder_stable`, `sortByOrder_perm`), each with its requested flags -/
theorem createInterfaces_sorted (sub : Nat → Nat → Bool) (infos : List Info) (s : List SI)
    (hidx : ∀ a ∈ infos, a.index = none)
    (hnames : (infos.map (·.iface.name)).Nodup)
    (hdisj : ∀ a ∈ infos, a.iface.name ∉ s.map (·.name))
    (hfun : (infos.filterMap (·.iface.function)).Nodup)
    (hfdisj : ∀ a ∈ infos, ∀ f, a.iface.function = some f → some f ∉ s.map (·.function)) :
    createInterfaces sub infos s = some (s ++ (sortByOrder infos).map attached)
    ∧ (sortByOrder infos).Pairwise (fun x y => x.order ≤ y.order)
    ∧ ∀ o, (sortByOrder infos).filter (fun x => x.order = o) = infos.filter (fun x => x.order = o) := by
  have hp := sortByOrder_perm infos
  refine ⟨?_, sortByOrder_sorted infos, sortByOrder_stable infos⟩
  unfold createInterfaces
  exact addAll_append sub _ s
    (fun a ha => hidx a (hp.mem_iff.mp ha))
    ((hp.map _).nodup_iff.mpr hnames)
    (fun a ha => hdisj a (hp.mem_iff.mp ha))
    ((hp.filterMap _).nodup_iff.mpr hfun)
    (fun a ha => hfdisj a (hp.mem_iff.mp ha))

/-- two interfaces of equal ORDER keep their registration order, a lower ORDER goes first, flags as requested -/
example : (createInterfaces (fun a b => a == b)
      [⟨3, ⟨1, 11, none, 0, true, false, false⟩, none, false, true, false⟩,
       ⟨1, ⟨2, 12, some 5, 1, true, false, false⟩, none, true, false, true⟩,
       ⟨1, ⟨3, 13, none, 2, true, false, false⟩, none, false, true, false⟩] []).map
        (fun s => s.map (fun i => (i.uid, i.enabled, i.bolForce, i.reverseAtEOL)))
    = some [(2, false, true, true), (3, true, false, false), (1, true, false, false)] := by
  decide

/-- a more derived interface of the same function replaces the attached one, at the requested index -/
example : addInterface (fun a b => a == b || (a == 2 && b == 1))
      [⟨1, 10, none, 0, true, false, false⟩, ⟨2, 11, some 5, 1, true, false, false⟩, ⟨3, 12, none, 0, true, false, false⟩]
      ⟨4, 13, some 5, 2, true, false, false⟩ (some (-1)) false true false
    = .ok [⟨1, 10, none, 0, true, false, false⟩, ⟨4, 13, some 5, 2, true, false, false⟩, ⟨3, 12, none, 0, true, false, false⟩] := by
  decide

end ArmiVerif.IfaceStack
