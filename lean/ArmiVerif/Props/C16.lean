/-
C16 — retained state is restored exactly; parameter copies are equal and independent.
Model: ArmiVerif/Model/Params.lean.
-/
import ArmiVerif.Model.Params

namespace ArmiVerif.Params

/-- **Read-only refuses**: on a read-only collection an assignment is refused and nothing changes. -/
theorem readonly_refuses_one (s : St) (o x v : Nat) (h : s.readOnly o = true) : setP s o x v = (s, false) := by
  simp [setP, h]

/-- **After `makeParametersReadOnly` every assignment anywhere in the reactor is refused and no value
changes**, for any sequence of attempted assignments. -/
theorem readonly_refuses (s : St) (objs : List Nat) (ops : List (Nat × Nat × Nat))
    (h : ∀ op ∈ ops, op.1 ∈ objs) :
    ops.foldl (fun t op => (setP t op.1 op.2.1 op.2.2).1) (makeReadOnly s objs) = makeReadOnly s objs := by
  induction ops with
  | nil => rfl
  | cons op rest ih =>
    have h1 : (makeReadOnly s objs).readOnly op.1 = true := by
      simp [makeReadOnly, h op (by simp)]
    simp only [List.foldl_cons, readonly_refuses_one _ _ _ _ h1]
    exact ih (fun op' hop => h op' (by simp [hop]))

example : (setP (makeReadOnly (create St.empty [0] none) [0]) 0 0 5).2 = false := by decide

end ArmiVerif.Params
