/-
C16 — retained state is restored exactly; parameter copies are equal and independent.
Model: ArmiVerif/Model/Params.lean.
-/
import ArmiVerif.Model.Params

namespace ArmiVerif.Params

/-- **Read-only refuses**: on a read-only collection an assignment is refused and nothing changes. -/
theorem readonly_refuses_one (s : St) (o x v : Nat) (h : s.readOnly o = true) : setP s o x v = (s, false) := by
  simp [setP, h]

/-- **After `makeParametersReadOnly` every assignment anywhere in the reactor is refused and no value
changes**, for any sequence of attempted assignments. -/
theorem readonly_refuses (s : St) (objs : List Nat) (ops : List (Nat × Nat × Nat))
    (h : ∀ op ∈ ops, op.1 ∈ objs) :
    ops.foldl (fun t op => (setP t op.1 op.2.1 op.2.2).1) (makeReadOnly s objs) = makeReadOnly s objs := by
  induction ops with
  | nil => rfl
  | cons op rest ih =>
    have h1 : (makeReadOnly s objs).readOnly op.1 = true := by
      simp [makeReadOnly, h op (by simp)]
    simp only [List.foldl_cons, readonly_refuses_one _ _ _ _ h1]
    exact ih (fun op' hop => h op' (by simp [hop]))

example : (setP (makeReadOnly (create St.empty [0] none) [0]) 0 0 5).2 = false := by decide




/-! ### `makeParametersReadOnly` as a walk over the whole reactor forest -/

/-- `o` is `r` or lies below it in the child lists, at depth `k` (naive walk) -/
inductive ReachN (kids : Nat → List Nat) : Nat → Nat → Nat → Prop where
  | root {r : Nat} : ReachN kids 0 r r
  | step {k r c m : Nat} : c ∈ kids r → ReachN kids k c m → ReachN kids (k + 1) r m

private theorem foldl_setRO_readOnly (l : List Nat) : ∀ (s : St) (o : Nat),
    (l.foldl setRO s).readOnly o = (decide (o ∈ l) || s.readOnly o)
  := by
  induction l with
  | nil => intro s o; simp
  | cons a rest ih =>
    intro s o
    simp only [List.foldl_cons, ih, setRO, upd]
    by_cases h1 : o = a
    · subst h1; simp
    · simp [h1]

private theorem foldl_setRO_frame (l : List Nat) : ∀ (s : St),
    (l.foldl setRO s).vals = s.vals ∧ (l.foldl setRO s).assigned = s.assigned ∧ (l.foldl setRO s).backup = s.backup ∧
    (l.foldl setRO s).cache = s.cache ∧ (l.foldl setRO s).grid = s.grid ∧ (l.foldl setRO s).dassigned = s.dassigned ∧
    (l.foldl setRO s).serial = s.serial := by
  induction l with
  | nil => intro s; simp
  | cons a rest ih => intro s; simp only [List.foldl_cons]; have := ih (setRO s a); simpa [setRO] using this

/-- everything at depth `k ≥ 1` below `r` is returned by the deep traversal once the fuel reaches `k` -/
private theorem iterDeep_complete (kids : Nat → List Nat) : ∀ (k fuel r m : Nat), ReachN kids (k + 1) r m → k + 1 ≤ fuel →
    m ∈ iterDeep kids fuel r := by
  intro k
  induction k with
  | zero =>
    intro fuel r m h hk
    cases fuel with
    | zero => omega
    | succ f =>
      cases h with
      | step hc hr => cases hr; simp [iterDeep, hc]
  | succ k ih =>
    intro fuel r m h hk
    cases fuel with
    | zero => omega
    | succ f =>
      cases h with
      | step hc hr =>
        simp only [iterDeep, List.mem_append, List.mem_flatMap]
        exact Or.inr ⟨_, hc, ih f _ m hr (by omega)⟩

/-- the walk marks exactly: the state is `makeReadOnly` over root + deep traversal (values, flags, back-ups,
caches, grids, serials untouched) -/
theorem makeReadOnlyTree_readOnly (s : St) (kids : Nat → List Nat) (fuel r o : Nat) :
    (makeReadOnlyTree s kids fuel r).readOnly o = (makeReadOnly s (r :: iterDeep kids fuel r)).readOnly o := by
  unfold makeReadOnlyTree
  rw [foldl_setRO_readOnly]
  simp only [setRO, upd, makeReadOnly, List.mem_cons]
  by_cases h1 : o = r
  · simp [h1]
  · by_cases h2 : o ∈ iterDeep kids fuel r <;> simp [h1, h2]

/-- **every object reachable from the reactor by a naive walk of the child lists -- in the core, in the spent fuel
pool, in any other system, at any depth (up to the fuel, which the driver sets above the number of objects) -- is
read-only after `makeParametersReadOnly`**, and no value, flag, back-up, cache, grid or serial changed -/
theorem makeReadOnlyTree_reaches (s : St) (kids : Nat → List Nat) (fuel r : Nat) :
    (∀ k m, ReachN kids k r m → k ≤ fuel → (makeReadOnlyTree s kids fuel r).readOnly m = true) ∧
    (makeReadOnlyTree s kids fuel r).vals = s.vals ∧ (makeReadOnlyTree s kids fuel r).assigned = s.assigned ∧
    (makeReadOnlyTree s kids fuel r).dassigned = s.dassigned ∧ (makeReadOnlyTree s kids fuel r).serial = s.serial := by
  refine ⟨?_, ?_⟩
  · intro k m h hk
    rw [makeReadOnlyTree_readOnly]
    cases k with
    | zero => cases h; simp [makeReadOnly]
    | succ k =>
      have := iterDeep_complete kids k fuel r m h hk
      simp [makeReadOnly, this]
  · unfold makeReadOnlyTree
    obtain ⟨h1, h2, _, _, _, h6, h7⟩ := foldl_setRO_frame (iterDeep kids fuel r) (setRO s r)
    exact ⟨by rw [h1]; rfl, by rw [h2]; rfl, by rw [h6]; rfl, by rw [h7]; rfl⟩

/-- the object an attempt addresses (for a scope: its objects) -/
def Attempt.targets : Attempt → List Nat
  | .set o _ _ => [o]
  | .setC o _ _ _ => [o]
  | .unlock o => [o]
  | .enter objs => objs

/-- one attempt on a state where one of its targets is read-only: refused, state unchanged -/
theorem attempt_refused (s : St) (a : Attempt) (h : ∃ o ∈ a.targets, s.readOnly o = true) :
    attempt s a = (s, false) := by
  obtain ⟨o, ho, hro⟩ := h
  cases a with
  | set o' x v => simp [Attempt.targets] at ho; subst ho; simp [attempt, setP, hro]
  | setC o' x v g => simp [Attempt.targets] at ho; subst ho; simp [attempt, setC, hro]
  | unlock o' => simp [Attempt.targets] at ho; subst ho; simp [attempt, unlock, hro]
  | enter objs =>
    simp only [Attempt.targets] at ho
    have : objs.any s.readOnly = true := List.any_eq_true.mpr ⟨o, ho, hro⟩
    simp [attempt, tryEnter, this]

/-- **after `makeParametersReadOnly(r)` ANY later sequence of attempts -- plain or custom-setter assignments, unlock
attempts, opening retain-state scopes -- each addressing objects reachable from the reactor (any system, any depth
within the fuel), is refused one by one and leaves the state exactly as it was** -/
theorem readonly_tree_refuses (s : St) (kids : Nat → List Nat) (fuel r : Nat) (ops : List Attempt)
    (h : ∀ a ∈ ops, a.targets ≠ [] ∧ ∀ o ∈ a.targets, ∃ k, ReachN kids k r o ∧ k ≤ fuel) :
    ops.foldl (fun t a => (attempt t a).1) (makeReadOnlyTree s kids fuel r) = makeReadOnlyTree s kids fuel r ∧
    ∀ a ∈ ops, (attempt (makeReadOnlyTree s kids fuel r) a).2 = false := by
  have hro : ∀ a ∈ ops, ∀ o ∈ a.targets, (makeReadOnlyTree s kids fuel r).readOnly o = true := by
    intro a ha o ho
    obtain ⟨k, hk, hle⟩ := (h a ha).2 o ho
    exact (makeReadOnlyTree_reaches s kids fuel r).1 k o hk hle
  have hone : ∀ a ∈ ops, attempt (makeReadOnlyTree s kids fuel r) a = (makeReadOnlyTree s kids fuel r, false) := by
    intro a ha
    have hne := (h a ha).1
    obtain ⟨o, ho⟩ := List.exists_mem_of_ne_nil _ hne
    exact attempt_refused _ a ⟨o, ho, hro a ha o ho⟩
  refine ⟨?_, fun a ha => by rw [hone a ha]⟩
  clear hro h
  induction ops with
  | nil => rfl
  | cons a rest ih =>
    simp only [List.foldl_cons, hone a (by simp)]
    exact ih (fun a' ha' => hone a' (by simp [ha']))

/-- non-vacuity: reactor 0 with core 1 (assembly 3) and spent fuel pool 2 (assembly 4 with block 5): the object in
the pool's assembly is reachable and refuses -/
example :
    let kids : Nat → List Nat := fun n => if n = 0 then [1, 2] else if n = 1 then [3] else if n = 2 then [4] else if n = 4 then [5] else []
    let s0 := create (create (create (create (create (create St.empty [0] none) [0] none) [0] none) [0] none) [0] none) [0] none
    (setP (makeReadOnlyTree s0 kids 7 0) 5 0 9).2 = false ∧ (makeReadOnlyTree s0 kids 7 0).readOnly 5 = true := by
  decide

/-- the walk must start at the REACTOR: marking only what lies below the core (child 1) leaves the pool's objects
writable -- an assignment there is accepted and changes a value -/
example :
    let kids : Nat → List Nat := fun n => if n = 0 then [1, 2] else if n = 1 then [3] else if n = 2 then [4] else if n = 4 then [5] else []
    let s0 := create (create (create (create (create (create St.empty [0] none) [0] none) [0] none) [0] none) [0] none) [0] none
    let t := setRO (setRO (makeReadOnlyTree s0 kids 7 1) 0) 2
    (setP t 5 0 9).2 = true ∧ (setP t 5 0 9).1.vals 5 0 = 9 := by
  decide

/-- the per-object slice of the state -/
structure PO where
  vals : Nat → Nat
  assigned : Nat
  backup : List Frame
  cache : Nat → Option Nat
  cacheBk : List (Nat → Option Nat)
  grid : Option GridVal
  gridBk : List GridVal

def proj (s : St) (o : Nat) : PO :=
  ⟨s.vals o, s.assigned o, s.backup o, s.cache o, s.cacheBk o, s.grid o, s.gridBk o⟩

/-- what `backUp` does to one object -/
def pushPO (q : PO) : PO :=
  { vals := q.vals
    assigned := q.assigned &&& (255 - SINCE_BACKUP)
    backup := { vals := q.vals, assigned := q.assigned } :: q.backup
    cache := fun _ => none
    cacheBk := q.cache :: q.cacheBk
    grid := q.grid
    gridBk := match q.grid with
      | none => q.gridBk
      | some g => g :: q.gridBk }

def chOf (keep defs : List Nat) (q : PO) (fr : Frame) : List Nat :=
  if q.assigned &&& SINCE_BACKUP ≠ 0 then
    (keep.filter (fun x => decide (x ∈ defs))).filter (fun x => fr.vals x ≠ q.vals x)
  else []

/-- what `restoreBackup(keep)` does to one object -/
def popPO (keep defs : List Nat) (q : PO) : PO :=
  match q.backup with
  | [] => q
  | fr :: rest =>
    { vals := fun x => if x ∈ chOf keep defs q fr then q.vals x else fr.vals x
      assigned := if (chOf keep defs q fr).isEmpty then fr.assigned else SINCE_ANYTHING
      backup := rest
      cache := q.cacheBk.headD (fun _ => none)
      cacheBk := q.cacheBk.tail
      grid := match q.grid, q.gridBk with
        | some _, g :: _ => some g
        | _, _ => q.grid
      gridBk := match q.grid with
        | some _ => q.gridBk.tail
        | none => q.gridBk }

private theorem proj_backUpObj (s : St) (a o : Nat) :
    proj (backUpObj s a) o = if o = a then pushPO (proj s o) else proj s o := by
  by_cases h : o = a
  · subst h
    simp only [if_true, proj, backUpObj, pushPO, upd]
    cases hg : s.grid o <;> simp [upd]
  · simp only [h, if_false, proj, backUpObj, upd]
    cases hg : s.grid a <;> simp [upd, h]

private theorem proj_restoreObj (keep : List Nat) (s : St) (a o : Nat) :
    proj (restoreObj keep s a) o = if o = a then popPO keep (s.defs o) (proj s o) else proj s o := by
  by_cases h : o = a
  · subst h
    simp only [if_true, proj, restoreObj, popPO]
    cases hb : s.backup o with
    | nil => simp [hb]
    | cons fr rest =>
      simp only [upd, if_true, keptChanged, chOf]
      cases hg : s.grid o <;> cases hk : s.gridBk o <;> simp [upd, hg, hk]
  · simp only [h, if_false, proj, restoreObj]
    cases hb : s.backup a with
    | nil => rfl
    | cons fr rest =>
      simp only [upd, h, if_false]
      cases hg : s.grid a <;> cases hk : s.gridBk a <;> simp [upd, h, hg, hk]

private theorem defs_backUpObj (s : St) (a : Nat) : (backUpObj s a).defs = s.defs := rfl
private theorem defs_restoreObj (keep : List Nat) (s : St) (a : Nat) : (restoreObj keep s a).defs = s.defs := by
  unfold restoreObj; split <;> rfl
private theorem proj_backUpDef (s : St) (d o : Nat) : proj (backUpDef s d) o = proj s o := rfl
private theorem proj_restoreDef (keep : List Nat) (s : St) (d o : Nat) : proj (restoreDef keep s d) o = proj s o := by
  unfold restoreDef; split <;> rfl
private theorem defs_backUpDef (s : St) (d : Nat) : (backUpDef s d).defs = s.defs := rfl
private theorem defs_restoreDef (keep : List Nat) (s : St) (d : Nat) : (restoreDef keep s d).defs = s.defs := by
  unfold restoreDef; split <;> rfl

private theorem foldl_keep {β} (f : St → Nat → St) (g : St → β) (hf : ∀ s a, g (f s a) = g s) :
    ∀ (l : List Nat) (s : St), g (l.foldl f s) = g s
  | [], _ => rfl
  | a :: rest, s => by rw [List.foldl_cons, foldl_keep f g hf rest, hf]

private theorem proj_foldl_backUp (o : Nat) : ∀ (objs : List Nat) (s : St), objs.Nodup →
    proj (objs.foldl backUpObj s) o = if o ∈ objs then pushPO (proj s o) else proj s o
  | [], s, _ => by simp
  | a :: rest, s, hnd => by
    have hnd' := List.nodup_cons.mp hnd
    rw [List.foldl_cons, proj_foldl_backUp o rest _ hnd'.2, proj_backUpObj]
    by_cases hr : o ∈ rest
    · have : o ≠ a := by intro e; subst e; exact hnd'.1 hr
      simp [hr, this]
    · by_cases ha : o = a
      · subst ha; simp [hnd'.1]
      · simp [hr, ha]

private theorem proj_foldl_restore (keep : List Nat) (o : Nat) : ∀ (objs : List Nat) (s : St), objs.Nodup →
    proj (objs.foldl (restoreObj keep) s) o = if o ∈ objs then popPO keep (s.defs o) (proj s o) else proj s o
  | [], s, _ => by simp
  | a :: rest, s, hnd => by
    have hnd' := List.nodup_cons.mp hnd
    rw [List.foldl_cons, proj_foldl_restore keep o rest _ hnd'.2, proj_restoreObj, defs_restoreObj]
    by_cases hr : o ∈ rest
    · have : o ≠ a := by intro e; subst e; exact hnd'.1 hr
      simp [hr, this]
    · by_cases ha : o = a
      · subst ha; simp [hnd'.1]
      · simp [hr, ha]

private theorem proj_enter (s : St) (objs : List Nat) (hnd : objs.Nodup) (o : Nat) :
    proj (enter s objs) o = if o ∈ objs then pushPO (proj s o) else proj s o := by
  unfold enter
  exact proj_foldl_backUp o objs s hnd

private theorem defs_enter (s : St) (objs : List Nat) : (enter s objs).defs = s.defs := by
  unfold enter
  exact foldl_keep backUpObj (fun t => t.defs) (fun t a => defs_backUpObj t a) objs s

private theorem proj_exit (s : St) (objs keep : List Nat) (hnd : objs.Nodup) (o : Nat) :
    proj (exit s objs keep) o = if o ∈ objs then popPO keep (s.defs o) (proj s o) else proj s o := by
  unfold exit
  exact proj_foldl_restore keep o objs s hnd

private theorem defs_exit (s : St) (objs keep : List Nat) : (exit s objs keep).defs = s.defs := by
  unfold exit
  exact foldl_keep (restoreObj keep) (fun t => t.defs) (fun t a => defs_restoreObj keep t a) objs s

/-- every scope of the program is opened on a duplicate-free list of objects (a subtree: C01) -/
def WF : Prog → Prop
  | .skip => True
  | .set _ _ _ => True
  | .setC _ _ _ _ => True
  | .cacheSet _ _ _ => True
  | .gridSet _ _ => True
  | .seq a b => WF a ∧ WF b
  | .scope objs _ body => objs.Nodup ∧ WF body

/-- the link between `assigned` and the innermost back-up that `restoreBackup` relies on -/
def Good (q : PO) : Prop :=
  match q.backup with
  | [] => True
  | fr :: _ => q.assigned &&& SINCE_BACKUP = 0 → q.vals = fr.vals

/-- the parts of an object's slice a well-bracketed program leaves alone -/
def SameStacks (q r : PO) : Prop :=
  r.backup = q.backup ∧ r.cacheBk = q.cacheBk ∧ r.gridBk = q.gridBk ∧ r.grid.isSome = q.grid.isSome

private theorem good_push (q : PO) : Good (pushPO q) := by
  intro _; rfl

private theorem proj_set (s : St) (a x v o : Nat) :
    proj (setP s a x v).1 o =
      if o = a ∧ s.readOnly a = false then { proj s o with vals := upd (s.vals o) x v, assigned := SINCE_ANYTHING }
      else proj s o := by
  unfold setP
  by_cases hr : s.readOnly a = true
  · simp [hr]
  · have hr' : s.readOnly a = false := by simpa using hr
    by_cases h : o = a
    · subst h; simp [hr', proj, upd]
    · simp [hr', proj, upd, h]

/-- **stack discipline (LIFO) + the `assigned`/back-up link**, for every program and any nesting depth -/
theorem nested_lifo_stacks : ∀ (p : Prog), WF p → ∀ (s : St) (o : Nat),
    (run p s).defs = s.defs ∧ SameStacks (proj s o) (proj (run p s) o) ∧
      (Good (proj s o) → Good (proj (run p s) o))
  | .skip, _, s, o => ⟨rfl, ⟨rfl, rfl, rfl, rfl⟩, id⟩
  | .set a x v, _, s, o => by
    refine ⟨?_, ?_, ?_⟩
    · simp only [run, setP]; split <;> rfl
    · simp only [run, proj_set]; split <;> exact ⟨rfl, rfl, rfl, rfl⟩
    · simp only [run, proj_set]
      split
      · intro _; unfold Good; simp only []; split
        · trivial
        · intro h; simp [SINCE_ANYTHING, SINCE_BACKUP] at h
      · exact id
  | .setC a x v g, _, s, o => by
    by_cases hr : s.readOnly a = true
    · have e : run (.setC a x v g) s = s := by simp [run, setC, hr]
      rw [e]; exact ⟨rfl, ⟨rfl, rfl, rfl, rfl⟩, id⟩
    · have hr' : s.readOnly a = false := by simpa using hr
      show (setC s g a x v).1.defs = s.defs ∧ SameStacks (proj s o) (proj (setC s g a x v).1 o) ∧
        (Good (proj s o) → Good (proj (setC s g a x v).1 o))
      unfold setC
      simp only [hr', Bool.false_eq_true, if_false]
      have hgood : ∀ q : PO, q.assigned = SINCE_ANYTHING → Good q := by
        intro q hq; unfold Good; split
        · trivial
        · intro h; rw [hq] at h; simp [SINCE_ANYTHING, SINCE_BACKUP] at h
      cases g (s.vals a) v with
      | none =>
        refine ⟨rfl, ⟨rfl, rfl, rfl, rfl⟩, ?_⟩
        by_cases h : o = a
        · subst h; intro _; apply hgood; simp [proj, upd]
        · intro hq; simpa [proj, upd, h] using hq
      | some rm =>
        refine ⟨rfl, ⟨rfl, rfl, rfl, rfl⟩, ?_⟩
        by_cases h : o = a
        · subst h; intro _; apply hgood; simp [proj, upd]
        · intro hq; simpa [proj, upd, h] using hq
  | .cacheSet a k v, _, s, o => by
    refine ⟨rfl, ⟨rfl, rfl, rfl, rfl⟩, ?_⟩
    intro h; exact h
  | .gridSet a g, _, s, o => by
    simp only [run, setGrid]
    cases hg : s.grid a with
    | none => exact ⟨rfl, ⟨rfl, rfl, rfl, rfl⟩, id⟩
    | some g0 =>
      refine ⟨rfl, ⟨rfl, rfl, rfl, ?_⟩, fun h => h⟩
      simp only [proj, upd]
      by_cases h : o = a
      · subst h; simp [hg]
      · simp [h]
  | .seq a b, hw, s, o => by
    obtain ⟨a1, a2, a3⟩ := nested_lifo_stacks a hw.1 s o
    obtain ⟨b1, b2, b3⟩ := nested_lifo_stacks b hw.2 (run a s) o
    refine ⟨by simp only [run]; rw [b1, a1], ?_, fun h => b3 (a3 h)⟩
    exact ⟨b2.1.trans a2.1, b2.2.1.trans a2.2.1, b2.2.2.1.trans a2.2.2.1, b2.2.2.2.trans a2.2.2.2⟩
  | .scope objs keep body, hw, s, o => by
    obtain ⟨b1, b2, b3⟩ := nested_lifo_stacks body hw.2 (enter s objs) o
    have hd : (run (.scope objs keep body) s).defs = s.defs := by
      simp only [run]; rw [defs_exit, b1, defs_enter]
    refine ⟨hd, ?_⟩
    simp only [run]
    rw [proj_exit _ _ _ hw.1, b1, defs_enter]
    rw [proj_enter _ _ hw.1] at b2 b3
    by_cases ho : o ∈ objs
    · simp only [ho, if_true] at b2 b3 ⊢
      have hg := b3 (good_push _)
      obtain ⟨s1, s2, s3, s4⟩ := b2
      generalize proj (run body (enter s objs)) o = t at *
      generalize proj s o = q at *
      simp only [pushPO] at s1 s2 s3 s4
      constructor
      · refine ⟨?_, ?_, ?_, ?_⟩
        · simp [popPO, s1]
        · simp [popPO, s1, s2]
        · simp only [popPO, s1]
          cases hq : q.grid with
          | none =>
            rw [hq] at s3 s4
            have : t.grid = none := by
              cases ht : t.grid with
              | none => rfl
              | some _ => rw [ht] at s4; simp at s4
            simp [this, s3]
          | some g =>
            rw [hq] at s3 s4
            obtain ⟨g', ht⟩ : ∃ g', t.grid = some g' := by
              cases ht : t.grid with
              | none => rw [ht] at s4; simp at s4
              | some g' => exact ⟨g', rfl⟩
            simp [ht, s3]
        · simp only [popPO, s1]
          cases hq : q.grid with
          | none =>
            rw [hq] at s4
            cases ht : t.grid with
            | none => simp
            | some _ => rw [ht] at s4; simp at s4
          | some g =>
            rw [hq] at s3 s4
            cases ht : t.grid with
            | none => rw [ht] at s4; simp at s4
            | some g' => simp [s3]
      · intro hq
        unfold Good
        simp only [popPO, s1]
        unfold Good at hq hg
        rw [s1] at hg
        simp only [] at hg
        cases hqb : q.backup with
        | nil => trivial
        | cons fr0 rest0 =>
          rw [hqb] at hq
          simp only [] at hq ⊢
          by_cases hch : (chOf keep (s.defs o) t { vals := q.vals, assigned := q.assigned }).isEmpty = true
          · simp only [hch, if_true]
            intro ha
            have hq' := hq ha
            have hnil : chOf keep (s.defs o) t { vals := q.vals, assigned := q.assigned } = [] := by
              simpa using hch
            funext x
            simp [hnil]
            exact congrFun hq' x
          · simp only [hch]
            intro ha; simp [SINCE_ANYTHING, SINCE_BACKUP] at ha
    · simp only [ho, if_false] at b2 b3 ⊢
      exact ⟨b2, b3⟩


/-- the slice of an object at the end of a scope body: its stacks are the entry stacks plus one frame -/
private theorem body_slice (objs : List Nat) (body : Prog) (hnd : objs.Nodup) (hw : WF body) (s : St) (o : Nat)
    (ho : o ∈ objs) :
    (run body (enter s objs)).defs = s.defs ∧
    SameStacks (pushPO (proj s o)) (proj (run body (enter s objs)) o) ∧
    Good (proj (run body (enter s objs)) o) := by
  obtain ⟨b1, b2, b3⟩ := nested_lifo_stacks body hw (enter s objs) o
  rw [proj_enter _ _ hnd] at b2 b3
  simp only [ho, if_true] at b2 b3
  exact ⟨by rw [b1, defs_enter], b2, b3 (good_push _)⟩

private theorem proj_scope (objs keep : List Nat) (body : Prog) (hnd : objs.Nodup) (hw : WF body) (s : St) (o : Nat)
    (ho : o ∈ objs) :
    proj (run (.scope objs keep body) s) o = popPO keep (s.defs o) (proj (run body (enter s objs)) o) := by
  simp only [run]
  rw [proj_exit _ _ _ hnd, (body_slice objs body hnd hw s o ho).1]
  simp [ho]

/-- **retain_restores** (any body, any nesting depth inside it; `exit` is the SAME transition whether the
with-block ends normally or is left through an exception -- `StateRetainer.__exit__` ignores its arguments and
lets the exception propagate -- so the statement covers exceptional exits): after the scope, on every object of
the scope, a parameter that is in the keep-set (and belongs to the object's class) has the value it
had at the end of the body; every other parameter has its entry value. -/
theorem retain_restores (objs keep : List Nat) (body : Prog) (hnd : objs.Nodup) (hw : WF body)
    (s : St) (o : Nat) (ho : o ∈ objs) (x : Nat) :
    (run (.scope objs keep body) s).vals o x =
      if x ∈ keep ∧ x ∈ s.defs o then (run body (enter s objs)).vals o x else s.vals o x := by
  obtain ⟨_, st, hg⟩ := body_slice objs body hnd hw s o ho
  have hp := proj_scope objs keep body hnd hw s o ho
  have hv : (run (.scope objs keep body) s).vals o x = (proj (run (.scope objs keep body) s) o).vals x := rfl
  have ht : (run body (enter s objs)).vals o x = (proj (run body (enter s objs)) o).vals x := rfl
  have hs : s.vals o x = (proj s o).vals x := rfl
  rw [hv, ht, hs, hp]
  generalize proj (run body (enter s objs)) o = t at *
  generalize proj s o = q at *
  obtain ⟨s1, _, _, _⟩ := st
  simp only [pushPO] at s1
  unfold Good at hg
  rw [s1] at hg
  simp only [] at hg
  simp only [popPO, s1]
  by_cases hx : x ∈ chOf keep (s.defs o) t { vals := q.vals, assigned := q.assigned }
  · simp only [hx, if_true]
    have : x ∈ keep ∧ x ∈ s.defs o := by
      unfold chOf at hx
      split at hx
      · simp only [List.mem_filter, decide_eq_true_eq] at hx; exact hx.1
      · cases hx
    simp [this]
  · simp only [hx, if_false]
    by_cases hk : x ∈ keep ∧ x ∈ s.defs o
    · simp only [hk, and_self, if_true]
      -- kept but not "changed": either nothing was assigned since the back-up, or the value is the same
      unfold chOf at hx
      split at hx
      · simp only [List.mem_filter, decide_eq_true_eq, hk, and_self, true_and, ne_eq, decide_not,
          Bool.not_eq_eq_eq_not, Bool.not_true, decide_eq_false_iff_not, Decidable.not_not] at hx
        exact hx
      · rename_i ha
        have ha' : t.assigned &&& SINCE_BACKUP = 0 := by simpa using ha
        exact (congrFun (hg ha') x).symm
    · simp [hk]

/-- **nested_lifo / full restore**: with an empty keep-set the whole slice of every object of the scope
(all values, `assigned`, cache, grid and the three back-up chains) is exactly its entry slice, whatever
the body did and however deeply it nested further scopes. -/
theorem scope_restores_all (objs : List Nat) (body : Prog) (hnd : objs.Nodup) (hw : WF body)
    (s : St) (o : Nat) (ho : o ∈ objs) :
    (run (.scope objs [] body) s).vals o = s.vals o ∧
    (run (.scope objs [] body) s).assigned o = s.assigned o ∧
    (run (.scope objs [] body) s).backup o = s.backup o := by
  obtain ⟨_, st, _⟩ := body_slice objs body hnd hw s o ho
  have hp := proj_scope objs [] body hnd hw s o ho
  have e1 : (run (.scope objs [] body) s).vals o = (proj (run (.scope objs [] body) s) o).vals := rfl
  have e2 : (run (.scope objs [] body) s).assigned o = (proj (run (.scope objs [] body) s) o).assigned := rfl
  have e3 : (run (.scope objs [] body) s).backup o = (proj (run (.scope objs [] body) s) o).backup := rfl
  rw [e1, e2, e3, hp]
  generalize proj (run body (enter s objs)) o = t at *
  obtain ⟨s1, _, _, _⟩ := st
  simp only [pushPO] at s1
  have hch : ∀ fr, chOf [] (s.defs o) t fr = [] := by intro fr; unfold chOf; split <;> simp
  simp [popPO, s1, hch, proj]

/-- **cache_no_leak and grid restore** (any keep-set, any body): inside the scope the cache starts
empty; after it the cache and the grid's (unitSteps, bounds, offset) are the entry ones. -/
theorem cache_grid_restored (objs keep : List Nat) (body : Prog) (hnd : objs.Nodup) (hw : WF body)
    (s : St) (o : Nat) (ho : o ∈ objs) :
    (enter s objs).cache o = (fun _ => none) ∧
    (run (.scope objs keep body) s).cache o = s.cache o ∧
    (run (.scope objs keep body) s).grid o = s.grid o ∧
    (run (.scope objs keep body) s).cacheBk o = s.cacheBk o ∧
    (run (.scope objs keep body) s).gridBk o = s.gridBk o := by
  obtain ⟨_, st, _⟩ := body_slice objs body hnd hw s o ho
  have hp := proj_scope objs keep body hnd hw s o ho
  have he : (enter s objs).cache o = (proj (enter s objs) o).cache := rfl
  have e1 : (run (.scope objs keep body) s).cache o = (proj (run (.scope objs keep body) s) o).cache := rfl
  have e2 : (run (.scope objs keep body) s).grid o = (proj (run (.scope objs keep body) s) o).grid := rfl
  have e3 : (run (.scope objs keep body) s).cacheBk o = (proj (run (.scope objs keep body) s) o).cacheBk := rfl
  have e4 : (run (.scope objs keep body) s).gridBk o = (proj (run (.scope objs keep body) s) o).gridBk := rfl
  rw [he, e1, e2, e3, e4, hp, proj_enter _ _ hnd]
  simp only [ho, if_true]
  generalize proj (run body (enter s objs)) o = t at *
  obtain ⟨s1, s2, s3, s4⟩ := st
  simp only [pushPO] at s1 s2 s3 s4
  refine ⟨rfl, ?_, ?_, ?_, ?_⟩
  · simp [popPO, s1, s2, proj]
  · simp only [popPO, s1, proj]
    cases hq : s.grid o with
    | none =>
      simp only [proj, hq] at s4
      cases ht : t.grid with
      | none => rfl
      | some _ => rw [ht] at s4; simp at s4
    | some g =>
      simp only [proj, hq] at s3 s4
      cases ht : t.grid with
      | none => rw [ht] at s4; simp at s4
      | some g' => simp [s3]
  · simp [popPO, s1, s2, proj]
  · simp only [popPO, s1, proj]
    cases hq : s.grid o with
    | none =>
      simp only [proj, hq] at s3 s4
      cases ht : t.grid with
      | none => simpa using s3
      | some _ => rw [ht] at s4; simp at s4
    | some g =>
      simp only [proj, hq] at s3 s4
      cases ht : t.grid with
      | none => rw [ht] at s4; simp at s4
      | some g' => simp [s3]


/-- **material caches do not leak either**: `StateRetainer` walks the composite, its own material and
`iterChildrenWithMaterials(deep=True)`; a material is an object without parameter definitions and grid, listed among
the scope's objects (`objs ++ mats`).  Whatever the body caches on it -- and whatever nested scopes (over objects,
materials or both) it opens -- after the scope the material's cache and its back-up chain are the entry ones, and
inside the scope its cache started empty. -/
theorem material_cache_restored (objs mats keep : List Nat) (body : Prog) (hnd : (objs ++ mats).Nodup) (hw : WF body)
    (s : St) (m : Nat) (hm : m ∈ mats) :
    (enter s (objs ++ mats)).cache m = (fun _ => none) ∧
    (run (.scope (objs ++ mats) keep body) s).cache m = s.cache m ∧
    (run (.scope (objs ++ mats) keep body) s).cacheBk m = s.cacheBk m := by
  obtain ⟨h1, h2, _, h4, _⟩ := cache_grid_restored (objs ++ mats) keep body hnd hw s m (by simp [hm])
  exact ⟨h1, h2, h4⟩

example : (run (.scope ([0] ++ [1]) [] (.seq (.cacheSet 1 0 7) (.scope [1] [] (.cacheSet 1 1 8)))) St.empty).cache 1 0 = none := by
  decide


/-- objects outside the scope are not touched by entering or leaving it -/
theorem scope_frame (objs keep : List Nat) (body : Prog) (hnd : objs.Nodup) (s : St) (o : Nat) (ho : o ∉ objs) :
    proj (run (.scope objs keep body) s) o = proj (run body (enter s objs)) o ∧
    proj (enter s objs) o = proj s o := by
  simp only [run]
  rw [proj_exit _ _ _ hnd, proj_enter _ _ hnd]
  simp [ho]

/-- non-vacuity: the hypotheses are satisfiable -- two nested scopes, the outer keeps parameter 1 which is
assigned before the inner scope opens -/
example : WF (Prog.scope [0, 1] [1] (.seq (.set 0 1 9) (.seq (.scope [0] [] (.seq (.set 0 0 4) (.gridSet 1 (8, 8, 8)))) (.set 1 2 3)))) := by
  simp [WF]

example (s : St) : (run (.scope [0, 1] [1] (.seq (.set 0 1 9) (.scope [0] [] (.set 0 0 4)))) s).vals 0 0 = s.vals 0 0 := by
  have h := retain_restores [0, 1] [1] (.seq (.set 0 1 9) (.scope [0] [] (.set 0 0 4))) (by decide) (by simp [WF]) s 0 (by simp) 0
  simpa using h

/-! ### copies and serial numbers -/

/-- **copy_equal_independent**: a deep copy carries the original's values; a later assignment on either
side does not show on the other. -/
theorem copy_equal_independent (s : St) (o : Nat) (ho : o < s.next) :
    (deepcopyObj s o).vals s.next = s.vals o ∧
    (∀ x v, ((setP (deepcopyObj s o) o x v).1).vals s.next = s.vals o) ∧
    (∀ x v, ((setP (deepcopyObj s o) s.next x v).1).vals o = s.vals o) := by
  have hne : o ≠ s.next := Nat.ne_of_lt ho
  refine ⟨by simp [deepcopyObj, upd], ?_, ?_⟩
  · intro x v; unfold setP; split
    · simp [deepcopyObj, upd]
    · simp [deepcopyObj, upd, hne.symm]
  · intro x v; unfold setP; split
    · simp [deepcopyObj, upd, hne]
    · simp [deepcopyObj, upd, hne]

theorem pickle_equal (s : St) (o : Nat) :
    (pickleObj s o).vals s.next = s.vals o ∧ (pickleObj s o).serial s.next = s.serial o := by
  simp [pickleObj, upd]

/-- serial numbers of the live objects are below the counter and pairwise distinct -/
def SerInv (s : St) : Prop :=
  (∀ o, o < s.next → s.serial o < s.counter) ∧
  (∀ o o', o < s.next → o' < s.next → s.serial o = s.serial o' → o = o')

theorem serinv_empty : SerInv St.empty := ⟨fun o h => by simp [St.empty] at h, fun o o' h => by simp [St.empty] at h⟩

theorem serinv_step (s : St) (h : Hist) (hs : SerInv s) : SerInv (stepHist s h) := by
  obtain ⟨h1, h2⟩ := hs
  have key : ∀ (t : St), t.next = s.next + 1 → t.counter = s.counter + 1 →
      t.serial = upd s.serial s.next s.counter → SerInv t := by
    intro t hn hc hser
    constructor
    · intro o ho
      rw [hser, hc]; simp only [upd]
      by_cases e : o = s.next
      · simp [e]
      · simp [e]; have := h1 o (by omega); omega
    · intro o o' ho ho' he
      rw [hser] at he; simp only [upd] at he
      by_cases e : o = s.next <;> by_cases e' : o' = s.next
      · omega
      · simp [e, e'] at he; have := h1 o' (by omega); omega
      · simp [e, e'] at he; have := h1 o (by omega); omega
      · simp [e, e'] at he; exact h2 o o' (by omega) (by omega) he
  cases h with
  | create d => exact key _ rfl rfl rfl
  | deepcopy o => exact key _ rfl rfl rfl

/-- **serials_unique** over any history of creations and deep copies; **serial_fresh_monotone**: the
new object's serial is the old counter, strictly above every live serial. -/
theorem serials_unique : ∀ (hist : List Hist) (s : St), SerInv s → SerInv (hist.foldl stepHist s)
  | [], _, h => h
  | a :: rest, s, h => serials_unique rest (stepHist s a) (serinv_step s a h)

theorem serial_fresh_monotone (s : St) (o : Nat) (hs : SerInv s) :
    (deepcopyObj s o).serial s.next = s.counter ∧ ∀ o', o' < s.next → s.serial o' < (deepcopyObj s o).serial s.next := by
  refine ⟨by simp [deepcopyObj, upd], ?_⟩
  intro o' ho'; simp [deepcopyObj, upd]; exact hs.1 o' ho'



/-! ### definition-level `assigned` flags and their back-up chain -/

private theorem mem_dedupAdj : ∀ (l : List Nat) (x : Nat), x ∈ dedupAdj l → x ∈ l
  | [], _, h => by simp [dedupAdj] at h
  | [a], x, h => by simpa [dedupAdj] using h
  | a :: b :: rest, x, h => by
    unfold dedupAdj at h
    split at h
    · exact List.mem_cons_of_mem _ (mem_dedupAdj (b :: rest) x h)
    · rcases List.mem_cons.mp h with e | h'
      · simp [e]
      · exact List.mem_cons_of_mem _ (mem_dedupAdj (b :: rest) x h')

private theorem dedupAdj_lt : ∀ (l : List Nat), l.Pairwise (fun a b => a ≤ b) → (dedupAdj l).Pairwise (fun a b => a < b)
  | [], _ => by simp [dedupAdj]
  | [a], _ => by simp [dedupAdj]
  | a :: b :: rest, h => by
    have h' := List.pairwise_cons.mp h
    unfold dedupAdj
    split
    · exact dedupAdj_lt (b :: rest) h'.2
    · rename_i hne
      rw [List.pairwise_cons]
      refine ⟨?_, dedupAdj_lt (b :: rest) h'.2⟩
      intro z hz
      have hz' := mem_dedupAdj (b :: rest) z hz
      have hab : a ≤ b := h'.1 b (by simp)
      have hbz : b ≤ z := by
        rcases List.mem_cons.mp hz' with e | hr
        · omega
        · exact (List.pairwise_cons.mp h'.2).1 z hr
      omega

theorem allDefs_nodup (s : St) (objs : List Nat) : (allDefs s objs).Nodup := by
  unfold allDefs
  have hs : ((objs.flatMap s.defs).mergeSort (fun a b => decide (a ≤ b))).Pairwise (fun a b => a ≤ b) := by
    have := List.pairwise_mergeSort (le := fun (a b : Nat) => decide (a ≤ b))
      (by intro a b c h1 h2; simp at *; omega) (by intro a b; simp; omega) (objs.flatMap s.defs)
    exact this.imp (by intro a b h; simpa using h)
  exact (dedupAdj_lt _ hs).imp (by intro a b h; omega)

/-- per-definition slice -/
def projD (s : St) (d : Nat) : Nat × List Nat := (s.dassigned d, s.dbackup d)

private theorem projD_backUpDefs (d : Nat) (D : List Nat) (s : St) :
    projD (backUpDefs s D) d = if d ∈ D then (s.dassigned d, s.dassigned d :: s.dbackup d) else projD s d := by
  by_cases h : d ∈ D <;> simp [projD, backUpDefs, h]

private theorem projD_restoreDefs (keep : List Nat) (d : Nat) (D : List Nat) (s : St) :
    projD (restoreDefs keep s D) d =
      if d ∈ D then
        (match s.dbackup d with
          | [] => projD s d
          | x :: rest => (if d ∈ keep then s.dassigned d else x, rest))
      else projD s d := by
  by_cases h : d ∈ D
  · cases hb : s.dbackup d with
    | nil => by_cases hk : d ∈ keep <;> simp [projD, restoreDefs, h, hb, hk]
    | cons x r => by_cases hk : d ∈ keep <;> simp [projD, restoreDefs, h, hb, hk]
  · simp [projD, restoreDefs, h]

private theorem projD_backUpObj (s : St) (o d : Nat) : projD (backUpObj s o) d = projD s d := rfl
private theorem dbackup_restoreObj (keep : List Nat) (s : St) (o d : Nat) :
    (restoreObj keep s o).dbackup d = s.dbackup d := by
  unfold restoreObj; split <;> rfl
private theorem dassigned_restoreObj_notkeep (keep : List Nat) (s : St) (o d : Nat) (hd : d ∉ keep) :
    (restoreObj keep s o).dassigned d = s.dassigned d := by
  unfold restoreObj; split
  · rfl
  · rename_i fr rest hb
    have : d ∉ keptChanged s keep o fr := by
      intro h; unfold keptChanged at h; split at h
      · simp only [List.mem_filter] at h; exact hd h.1.1
      · cases h
    simp [this]

/-- **definition-level stack discipline**: every program (any nesting) leaves each definition's back-up
chain as it found it -/
theorem defs_lifo : ∀ (p : Prog), WF p → ∀ (s : St) (d : Nat), (run p s).dbackup d = s.dbackup d
  | .skip, _, _, _ => rfl
  | .set a x v, _, s, d => by simp only [run, setP]; split <;> rfl
  | .setC a x v g, _, s, d => by
    simp only [run, setC]; split
    · rfl
    · split <;> rfl
  | .cacheSet _ _ _, _, _, _ => rfl
  | .gridSet a g, _, s, d => by simp only [run, setGrid]; split <;> rfl
  | .seq a b, hw, s, d => by simp only [run]; rw [defs_lifo b hw.2, defs_lifo a hw.1]
  | .scope objs keep body, hw, s, d => by
    have hdefs : (run body (enter s objs)).defs = s.defs := by
      rw [(nested_lifo_stacks body hw.2 (enter s objs) 0).1, defs_enter]
    simp only [run]
    -- exit
    have e1 : (exit (run body (enter s objs)) objs keep).dbackup d =
        (projD (exit (run body (enter s objs)) objs keep) d).2 := rfl
    rw [e1]
    unfold exit
    have hD : allDefs (run body (enter s objs)) objs = allDefs s objs := by unfold allDefs; rw [hdefs]
    rw [hD, projD_restoreDefs keep d]
    have hmid : ∀ t, (objs.foldl (restoreObj keep) t).dbackup d = t.dbackup d := by
      intro t
      exact foldl_keep (restoreObj keep) (fun u => u.dbackup d) (fun u a => dbackup_restoreObj keep u a d) objs t
    have hbody := defs_lifo body hw.2 (enter s objs) d
    have hent : projD (enter s objs) d =
        if d ∈ allDefs s objs then (s.dassigned d, s.dassigned d :: s.dbackup d) else projD s d := by
      unfold enter
      have hD0 : allDefs s objs = allDefs s objs := rfl
      rw [projD_backUpDefs d]
      have h1 : (objs.foldl backUpObj s).dassigned d = s.dassigned d :=
        foldl_keep backUpObj (fun u => u.dassigned d) (fun u a => rfl) objs s
      have h2 : (objs.foldl backUpObj s).dbackup d = s.dbackup d :=
        foldl_keep backUpObj (fun u => u.dbackup d) (fun u a => rfl) objs s
      simp [projD, h1, h2]
    by_cases hd : d ∈ allDefs s objs
    · simp only [hd, if_true] at hent ⊢
      have : (objs.foldl (restoreObj keep) (run body (enter s objs))).dbackup d = s.dassigned d :: s.dbackup d := by
        rw [hmid, hbody]; exact congrArg Prod.snd hent
      rw [this]
    · simp only [hd, if_false] at hent ⊢
      show (objs.foldl (restoreObj keep) (run body (enter s objs))).dbackup d = s.dbackup d
      rw [hmid, hbody]; exact congrArg Prod.snd hent

/-- **definition-level flags are restored LIFO**: after a scope, the `assigned` flag of every definition
of the scope's objects that is NOT in the keep-set is exactly its entry value (kept definitions keep
whatever the body and the kept-value logic left). -/
theorem def_assigned_restored (objs keep : List Nat) (body : Prog) (hnd : objs.Nodup) (hw : WF body)
    (s : St) (d : Nat) (hd : d ∈ allDefs s objs) (hk : d ∉ keep) :
    (run (.scope objs keep body) s).dassigned d = s.dassigned d := by
  have hdefs : (run body (enter s objs)).defs = s.defs := by
    rw [(nested_lifo_stacks body hw (enter s objs) 0).1, defs_enter]
  simp only [run]
  have e1 : (exit (run body (enter s objs)) objs keep).dassigned d =
      (projD (exit (run body (enter s objs)) objs keep) d).1 := rfl
  rw [e1]
  unfold exit
  have hD : allDefs (run body (enter s objs)) objs = allDefs s objs := by unfold allDefs; rw [hdefs]
  rw [hD, projD_restoreDefs keep d]
  simp only [hd, if_true]
  have hmid : (objs.foldl (restoreObj keep) (run body (enter s objs))).dbackup d = (run body (enter s objs)).dbackup d :=
    foldl_keep (restoreObj keep) (fun u => u.dbackup d) (fun u a => dbackup_restoreObj keep u a d) objs _
  have hbody := defs_lifo body hw (enter s objs) d
  have hent : (enter s objs).dbackup d = s.dassigned d :: s.dbackup d := by
    have : projD (enter s objs) d = (s.dassigned d, s.dassigned d :: s.dbackup d) := by
      unfold enter
      rw [projD_backUpDefs d]
      have h1 : (objs.foldl backUpObj s).dassigned d = s.dassigned d :=
        foldl_keep backUpObj (fun u => u.dassigned d) (fun u a => rfl) objs s
      have h2 : (objs.foldl backUpObj s).dbackup d = s.dbackup d :=
        foldl_keep backUpObj (fun u => u.dbackup d) (fun u a => rfl) objs s
      simp [hd, h1, h2]
    exact congrArg Prod.snd this
  rw [hmid, hbody, hent]
  simp [hk]

/-- **descendants**: a scope opened on an object restores every object beneath it -- the scope's list is
the object followed by its descendants (the subtree, duplicate-free by C01); for each descendant every
non-kept parameter is back at its entry value and every kept one has its end-of-body value. -/
theorem retain_restores_descendants (root : Nat) (desc keep : List Nat) (body : Prog)
    (hnd : (root :: desc).Nodup) (hw : WF body) (s : St) (o : Nat) (ho : o ∈ desc) (x : Nat) :
    (run (.scope (root :: desc) keep body) s).vals o x =
      if x ∈ keep ∧ x ∈ s.defs o then (run body (enter s (root :: desc))).vals o x else s.vals o x :=
  retain_restores (root :: desc) keep body hnd hw s o (List.mem_cons_of_mem _ ho) x


/-! ### the flag of a KEPT definition; serial numbers under pickle -/

/-- the kept parameters of object `o` whose value the exit will carry over (innermost frame of `o`) -/
def chAt (keep : List Nat) (s : St) (o : Nat) : List Nat :=
  match s.backup o with
  | [] => []
  | fr :: _ => keptChanged s keep o fr

private theorem dassigned_restoreObj (keep : List Nat) (s : St) (o d : Nat) :
    (restoreObj keep s o).dassigned d = if d ∈ chAt keep s o then SINCE_ANYTHING else s.dassigned d := by
  unfold restoreObj chAt
  cases hb : s.backup o with
  | nil => simp
  | cons fr rest => simp

private theorem chAt_restoreObj_other (keep : List Nat) (s : St) (a o : Nat) (h : o ≠ a) :
    chAt keep (restoreObj keep s a) o = chAt keep s o := by
  have hp := proj_restoreObj keep s a o
  simp only [h, if_false] at hp
  have h1 : (restoreObj keep s a).backup o = s.backup o := congrArg PO.backup hp
  have h2 : (restoreObj keep s a).assigned o = s.assigned o := congrArg PO.assigned hp
  have h3 : (restoreObj keep s a).vals o = s.vals o := congrArg PO.vals hp
  have h4 : (restoreObj keep s a).defs = s.defs := defs_restoreObj keep s a
  unfold chAt keptChanged
  rw [h1, h2, h3, h4]

private theorem dassigned_foldl_restore (keep : List Nat) (d : Nat) : ∀ (objs : List Nat) (s : St), objs.Nodup →
    (objs.foldl (restoreObj keep) s).dassigned d =
      if (∃ o ∈ objs, d ∈ chAt keep s o) then SINCE_ANYTHING else s.dassigned d
  | [], s, _ => by simp
  | a :: rest, s, hnd => by
    have hnd' := List.nodup_cons.mp hnd
    rw [List.foldl_cons, dassigned_foldl_restore keep d rest _ hnd'.2, dassigned_restoreObj]
    have hiff : (∃ o ∈ rest, d ∈ chAt keep (restoreObj keep s a) o) ↔ (∃ o ∈ rest, d ∈ chAt keep s o) := by
      constructor
      · rintro ⟨o, ho, hd⟩
        have hne : o ≠ a := by intro e; subst e; exact hnd'.1 ho
        exact ⟨o, ho, by rwa [chAt_restoreObj_other keep s a o hne] at hd⟩
      · rintro ⟨o, ho, hd⟩
        have hne : o ≠ a := by intro e; subst e; exact hnd'.1 ho
        exact ⟨o, ho, by rwa [chAt_restoreObj_other keep s a o hne]⟩
    by_cases h1 : ∃ o ∈ rest, d ∈ chAt keep s o
    · have h1' := hiff.mpr h1
      have h2 : ∃ o ∈ a :: rest, d ∈ chAt keep s o := by
        obtain ⟨o, ho, hd⟩ := h1; exact ⟨o, List.mem_cons_of_mem _ ho, hd⟩
      simp only [h1', h2, if_true]
    · have h1' : ¬ ∃ o ∈ rest, d ∈ chAt keep (restoreObj keep s a) o := fun h => h1 (hiff.mp h)
      simp only [h1', if_false]
      by_cases ha : d ∈ chAt keep s a
      · have h2 : ∃ o ∈ a :: rest, d ∈ chAt keep s o := ⟨a, by simp, ha⟩
        simp only [ha, h2, if_true]
      · have h2 : ¬ ∃ o ∈ a :: rest, d ∈ chAt keep s o := by
          rintro ⟨o, ho, hd⟩
          rcases List.mem_cons.mp ho with e | hr
          · subst e; exact ha hd
          · exact h1 ⟨o, hr, hd⟩
        simp only [ha, h2, if_false]

/-- **the flag of a KEPT definition after a scope**: it is `SINCE_ANYTHING` exactly when some object of the
scope carries a changed value of that parameter out of the scope; otherwise it is whatever the body left
(its own back-up frame is popped without being applied). -/
theorem def_assigned_kept (objs keep : List Nat) (body : Prog) (hnd : objs.Nodup) (s : St) (d : Nat)
    (hk : d ∈ keep) :
    (run (.scope objs keep body) s).dassigned d =
      if (∃ o ∈ objs, d ∈ chAt keep (run body (enter s objs)) o) then SINCE_ANYTHING
      else (run body (enter s objs)).dassigned d := by
  simp only [run]
  unfold exit
  have : ∀ (t : St) (D : List Nat), (restoreDefs keep t D).dassigned d = t.dassigned d := by
    intro t D; simp [restoreDefs, hk]
  rw [this]
  exact dassigned_foldl_restore keep d objs _ hnd

/-- **retain_restores with custom setters**: assignments may go through arbitrary setter functions
(transforming, fanning out, refusing); the restore is by snapshot, so the statement is unchanged.
(`retain_restores` is stated for every `Prog`, and `Prog.setC` is such an assignment; this is the instance
for a body made of one custom assignment followed by anything.) -/
theorem retain_restores_custom (objs keep : List Nat) (g : (Nat → Nat) → Nat → Option ((Nat → Nat) × List Nat))
    (a y v : Nat) (rest : Prog) (hnd : objs.Nodup) (hw : WF rest) (s : St) (o : Nat) (ho : o ∈ objs) (x : Nat)
    (hx : ¬ (x ∈ keep ∧ x ∈ s.defs o)) :
    (run (.scope objs keep (.seq (.setC a y v g) rest)) s).vals o x = s.vals o x := by
  have h := retain_restores objs keep (.seq (.setC a y v g) rest) hnd ⟨trivial, hw⟩ s o ho x
  rw [h, if_neg hx]

/-- **pickle_preserves_serials**: a pickle round trip (and a database load, which goes through the same
`__setstate__`) gives the new object the ORIGINAL's serial number; only the global counter moves. -/
theorem pickle_preserves_serials (s : St) (o : Nat) :
    (pickleObj s o).serial s.next = s.serial o ∧ (pickleObj s o).counter = s.counter + 1 ∧
    ∀ o', o' < s.next → (pickleObj s o).serial o' = s.serial o' := by
  refine ⟨by simp [pickleObj, upd], rfl, ?_⟩
  intro o' h; have : o' ≠ s.next := Nat.ne_of_lt h
  simp [pickleObj, upd, this]

/-- serial numbers pairwise distinct among a set of live objects (a tree) -/
def UniqueOn (s : St) (live : List Nat) : Prop :=
  ∀ a ∈ live, ∀ b ∈ live, s.serial a = s.serial b → a = b

/-- **the uniqueness that IS true under pickle**: if the original is discarded (the unpickled object takes
its place among the live objects), serial numbers stay pairwise distinct. -/
theorem pickle_unique_if_discarded (s : St) (live : List Nat) (o : Nat) (hnd : live.Nodup)
    (hl : ∀ a ∈ live, a < s.next) (hu : UniqueOn s live) (ho : o ∈ live) :
    UniqueOn (pickleObj s o) (s.next :: live.erase o) := by
  obtain ⟨p1, _, p3⟩ := pickle_preserves_serials s o
  have hmem : ∀ a, a ∈ live.erase o → a ∈ live := fun a h => List.mem_of_mem_erase h
  have hno : o ∉ live.erase o := hnd.not_mem_erase
  intro a ha b hb hab
  rcases List.mem_cons.mp ha with ea | ha' <;> rcases List.mem_cons.mp hb with eb | hb'
  · rw [ea, eb]
  · subst ea
    rw [p1, p3 b (hl b (hmem b hb'))] at hab
    have := hu o ho b (hmem b hb') hab
    subst this; exact absurd hb' hno
  · subst eb
    rw [p1, p3 a (hl a (hmem a ha'))] at hab
    have := hu a (hmem a ha') o ho hab
    subst this; exact absurd ha' hno
  · rw [p3 a (hl a (hmem a ha')), p3 b (hl b (hmem b hb'))] at hab
    exact hu a (hmem a ha') b (hmem b hb') hab

/-- **the counter-example**: keeping BOTH the original and its unpickled twin alive gives two live objects
with one serial number (by design: pickling is how objects travel between processes and the database). -/
theorem pickle_keeping_both_not_unique (s : St) (o : Nat) (ho : o < s.next) :
    ¬ UniqueOn (pickleObj s o) [o, s.next] := by
  intro h
  have p := pickle_preserves_serials s o
  have e : (pickleObj s o).serial o = (pickleObj s o).serial s.next := by rw [p.1, p.2.2 o ho]
  have := h o (by simp) s.next (by simp) e
  omega

private def s2 : St := create (create St.empty [] none) [] none

/-- non-vacuity: two created objects, the first one pickled and discarded -/
example : UniqueOn (pickleObj s2 0) (s2.next :: [0, 1].erase 0) :=
  pickle_unique_if_discarded s2 [0, 1] 0 (by decide)
    (by intro a ha; simp at ha; rcases ha with e | e <;> subst e <;> decide)
    (by intro a ha b hb h; simp at ha hb; rcases ha with e | e <;> rcases hb with f | f <;> subst e <;> subst f <;>
          first | rfl | (exfalso; revert h; decide))
    (by simp)

end ArmiVerif.Params
