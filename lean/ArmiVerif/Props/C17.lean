/-
C17 — case settings survive a write/read cycle and reject what they cannot hold.

Property theorems about `Model/Settings.lean` (helper lemmas are `private`).
What the theorems carry: the style / rename / invalid-handling / copy logic of the settings system.
What they take as hypotheses (parameters of the model, exercised per setting by harness/c17.py):
`schema n (dump n v) = some v` — YAML formatting, ruamel load and voluptuous coercion of each setting.
-/
import ArmiVerif.Model.Settings

namespace ArmiVerif.Settings

section
variable {V : Type}

private theorem names_setVal (r : Reg V) (n : String) (v : V) : names (setVal r n v) = names r := by
  induction r with
  | nil => rfl
  | cons e r ih =>
    simp only [names, setVal, List.map_cons] at ih ⊢
    rw [ih]; by_cases h : (e.name == n) = true <;> simp [h]

private theorem valueOf_cons (e : Entry V) (r : Reg V) (m : String) :
    valueOf (e :: r) m = if e.name = m then some e.value else valueOf r m := by
  simp only [valueOf, find?, List.find?_cons]
  by_cases h : e.name = m
  · simp [h]
  · have : (e.name == m) = false := by simpa using h
    simp [h, this]

private theorem valueOf_setVal_other (r : Reg V) (n m : String) (v : V) (h : m ≠ n) :
    valueOf (setVal r n v) m = valueOf r m := by
  induction r with
  | nil => rfl
  | cons e r ih =>
    have : setVal (e :: r) n v = (if e.name == n then { e with value := v } else e) :: setVal r n v := rfl
    rw [this, valueOf_cons, valueOf_cons, ih]
    by_cases h1 : e.name = n
    · have : n ≠ m := fun h' => h h'.symm
      subst h1
      simp [this]
    · simp [h1]

private theorem valueOf_setVal_same (r : Reg V) (n : String) (v : V) (h : n ∈ names r) :
    valueOf (setVal r n v) n = some v := by
  induction r with
  | nil => simp [names] at h
  | cons e r ih =>
    have : setVal (e :: r) n v = (if e.name == n then { e with value := v } else e) :: setVal r n v := rfl
    rw [this, valueOf_cons]
    by_cases h1 : e.name = n
    · simp [h1]
    · have hn : n ∈ names r := by
        simp only [names, List.map_cons, List.mem_cons] at h
        rcases h with h | h
        · exact absurd h.symm h1
        · exact h
      simp [h1, ih hn]

private theorem has_iff (r : Reg V) (n : String) : has r n = true ↔ n ∈ names r := by
  unfold has; exact List.contains_iff_mem

end

section
variable {V : Type}

private theorem applyOne_current (schema : String → V → Option V) (cur : List String) (rn : Renames)
    (st : ReadResult V) (n : String) (y v : V) (hok : st.ok = true) (hn : names st.reg = cur)
    (hc : n ∈ cur) (hs : schema n y = some v) :
    applyOne schema cur rn st (n, y) = { st with reg := setVal st.reg n v } := by
  have h1 : cur.contains n = true := List.contains_iff_mem.mpr hc
  have h2 : has st.reg n = true := by rw [has_iff, hn]; exact hc
  have h3 : renameSetting cur rn n = (n, false) := by simp [renameSetting, hc]
  simp [applyOne, hok, h3, h2, hs]

private theorem read_fold (schema : String → V → Option V) (cur : List String) (rn : Renames) :
    ∀ (d : List (String × V)) (st : ReadResult V),
      st.ok = true → names st.reg = cur →
      (∀ p ∈ d, p.1 ∈ cur ∧ (schema p.1 p.2).isSome = true) →
      (d.map (·.1)).Nodup →
      (d.foldl (applyOne schema cur rn) st).ok = true ∧
      (d.foldl (applyOne schema cur rn) st).invalid = st.invalid ∧
      names (d.foldl (applyOne schema cur rn) st).reg = cur ∧
      (∀ m, m ∉ d.map (·.1) → valueOf (d.foldl (applyOne schema cur rn) st).reg m = valueOf st.reg m) ∧
      (∀ p ∈ d, valueOf (d.foldl (applyOne schema cur rn) st).reg p.1 = schema p.1 p.2) := by
  intro d
  induction d with
  | nil => intro st hok hn _ _; simp [hok, hn]
  | cons p d ih =>
    intro st hok hn hall hnd
    obtain ⟨n, y⟩ := p
    have hp := hall (n, y) (List.mem_cons_self)
    obtain ⟨v, hv⟩ := Option.isSome_iff_exists.mp hp.2
    have hstep := applyOne_current schema cur rn st n y v hok hn hp.1 hv
    simp only [List.foldl_cons, hstep]
    simp only [List.map_cons, List.nodup_cons] at hnd
    have hn' : names ({ st with reg := setVal st.reg n v } : ReadResult V).reg = cur := by
      simp [names_setVal, hn]
    obtain ⟨i1, i2, i3, i4, i5⟩ := ih { st with reg := setVal st.reg n v } hok hn'
      (fun q hq => hall q (List.mem_cons_of_mem _ hq)) hnd.2
    refine ⟨i1, i2, i3, ?_, ?_⟩
    · intro m hm
      simp only [List.map_cons, List.mem_cons, not_or] at hm
      rw [i4 m hm.2]
      exact valueOf_setVal_other _ _ _ _ hm.1
    · intro q hq
      rcases List.mem_cons.mp hq with hq | hq
      · subst hq
        rw [i4 n hnd.1, hv]
        exact valueOf_setVal_same _ _ _ (by rw [hn]; exact hp.1)
      · exact i5 q hq

end

section
variable {V : Type} [DecidableEq V]

omit [DecidableEq V] in
private theorem sortByLower_perm (r : Reg V) : (sortByLower r).Perm r := by
  unfold sortByLower
  have h := (List.mergeSort_perm (r.map (fun e => (e.name.toLower, e))) (fun a b => decide (a.1 ≤ b.1))).map (·.2)
  simpa [List.map_map, Function.comp_def] using h

private theorem mem_toWrite (style : Style) (user : List String) (r : Reg V) (e : Entry V) :
    e ∈ toWrite style user r ↔ e ∈ r ∧ selected style user e = true := by
  unfold toWrite
  rw [List.mem_filter, (sortByLower_perm r).mem_iff]

private theorem toWrite_names_nodup (style : Style) (user : List String) (r : Reg V) (h : (names r).Nodup) :
    (names (toWrite style user r)).Nodup := by
  unfold toWrite names
  apply List.Nodup.sublist (List.Sublist.map _ List.filter_sublist)
  exact ((sortByLower_perm r).map _).nodup_iff.mpr h

/-- the body of the document and the document have the same names, up to the appended stamp -/
private theorem writeDoc_names (dump : String → V → V) (stamp : V → V) (blank : V) (style : Style)
    (user : List String) (r : Reg V) :
    (writeDoc dump stamp blank style user r).map (·.1) =
      if (names (toWrite style user r)).contains versionsName then names (toWrite style user r)
      else names (toWrite style user r) ++ [versionsName] := by
  unfold writeDoc
  have hb : ((toWrite style user r).map (fun e => (e.name, dump e.name e.value))).map (·.1)
      = names (toWrite style user r) := by simp [names, List.map_map, Function.comp_def]
  simp only [hb]
  split
  · rw [← hb, List.map_map, List.map_map, List.map_map]; apply List.map_congr_left; intro e _
    simp only [Function.comp_def]; split <;> rfl
  · simp [hb]

private theorem writeDoc_nodup (dump : String → V → V) (stamp : V → V) (blank : V) (style : Style)
    (user : List String) (r : Reg V) (h : (names r).Nodup) :
    ((writeDoc dump stamp blank style user r).map (·.1)).Nodup := by
  rw [writeDoc_names]
  have := toWrite_names_nodup style user r h
  split
  · exact this
  · rename_i hc
    rw [List.nodup_append]
    refine ⟨this, by simp, ?_⟩
    intro a ha b hb
    simp at hb; subst hb
    intro hab; subst hab
    exact hc (List.contains_iff_mem.mpr ha)

private theorem writeDoc_spec (dump : String → V → V) (stamp : V → V) (blank : V) (style : Style)
    (user : List String) (r : Reg V) (p : String × V) (hp : p ∈ writeDoc dump stamp blank style user r) :
    (p.1 = versionsName ∧ ∃ y, p.2 = stamp y) ∨
    (p.1 ≠ versionsName ∧ ∃ e ∈ r, selected style user e = true ∧ p = (e.name, dump e.name e.value)) := by
  unfold writeDoc at hp
  simp only at hp
  split at hp
  · rw [List.mem_map] at hp
    obtain ⟨q, hq, rfl⟩ := hp
    rw [List.mem_map] at hq
    obtain ⟨e, he, rfl⟩ := hq
    by_cases hv : e.name = versionsName
    · left; simp [hv]; exact ⟨_, rfl⟩
    · right; simp [hv]
      exact ⟨e, ((mem_toWrite _ _ _ _).mp he).1, ((mem_toWrite _ _ _ _).mp he).2, rfl, rfl⟩
  · rw [List.mem_append] at hp
    rcases hp with hp | hp
    · rename_i hc
      rw [List.mem_map] at hp
      obtain ⟨e, he, rfl⟩ := hp
      right
      refine ⟨?_, e, ((mem_toWrite _ _ _ _).mp he).1, ((mem_toWrite _ _ _ _).mp he).2, rfl⟩
      intro hv
      apply hc
      simp only [List.map_map]
      rw [List.contains_iff_mem, List.mem_map]
      exact ⟨e, he, hv⟩
    · simp at hp; subst hp; left; exact ⟨rfl, blank, rfl⟩

private theorem writeDoc_mem (dump : String → V → V) (stamp : V → V) (blank : V) (style : Style)
    (user : List String) (r : Reg V) (e : Entry V) (he : e ∈ r) (hs : selected style user e = true)
    (hv : e.name ≠ versionsName) :
    (e.name, dump e.name e.value) ∈ writeDoc dump stamp blank style user r := by
  have hm : e ∈ toWrite style user r := (mem_toWrite _ _ _ _).mpr ⟨he, hs⟩
  unfold writeDoc
  simp only
  split
  · rw [List.mem_map]
    refine ⟨(e.name, dump e.name e.value), List.mem_map.mpr ⟨e, hm, rfl⟩, ?_⟩
    simp [hv]
  · exact List.mem_append_left _ (List.mem_map.mpr ⟨e, hm, rfl⟩)

end

section
variable {V : Type}

private theorem names_fresh (r : Reg V) : names (fresh r) = names r := by
  simp [names, fresh, List.map_map, Function.comp_def]

private theorem valueOf_of_mem (r : Reg V) (h : (names r).Nodup) (e : Entry V) (he : e ∈ r) :
    valueOf r e.name = some e.value := by
  induction r with
  | nil => cases he
  | cons a r ih =>
    rw [valueOf_cons]
    simp only [names, List.map_cons, List.nodup_cons] at h
    rcases List.mem_cons.mp he with rfl | he'
    · simp
    · have : a.name ≠ e.name := by
        intro hc; apply h.1; rw [hc]; exact List.mem_map.mpr ⟨e, he', rfl⟩
      simp [this, ih h.2 he']

private theorem valueOf_fresh_of_mem (r : Reg V) (h : (names r).Nodup) (e : Entry V) (he : e ∈ r) :
    valueOf (fresh r) e.name = some e.default := by
  have hm : ({ e with value := e.default } : Entry V) ∈ fresh r := List.mem_map.mpr ⟨e, he, rfl⟩
  have := valueOf_of_mem (fresh r) (by rw [names_fresh]; exact h) _ hm
  simpa using this

private theorem valueOf_none (r : Reg V) (n : String) (h : n ∉ names r) : valueOf r n = none := by
  induction r with
  | nil => rfl
  | cons a r ih =>
    rw [valueOf_cons]
    simp only [names, List.map_cons, List.mem_cons, not_or] at h
    have : a.name ≠ n := fun hc => h.1 hc.symm
    simp [this, ih h.2]

private theorem entry_unique (r : Reg V) (h : (names r).Nodup) (e e' : Entry V) (he : e ∈ r) (he' : e' ∈ r)
    (hn : e.name = e'.name) : e = e' := by
  induction r with
  | nil => cases he
  | cons a r ih =>
    simp only [names, List.map_cons, List.nodup_cons] at h
    rcases List.mem_cons.mp he with rfl | h1 <;> rcases List.mem_cons.mp he' with rfl | h2
    · rfl
    · exact absurd (List.mem_map.mpr ⟨e', h2, hn.symm⟩) h.1
    · exact absurd (List.mem_map.mpr ⟨e, h1, hn⟩) h.1
    · exact ih h.2 h1 h2

variable [DecidableEq V]

/-- **C17 write/read round trip, every style.** Writing any registry state `r` in any style and reading
the document into a fresh settings object gives no error, no invalid name, and every setting other than
the stamped `versions` has the value it had (settings that were not written stay at their defaults,
which is what they were).  Hypotheses: names are unique (dict keys), the registry has `versions`,
the per-setting contract `schema n (dump n v) = some v` for the stored values (YAML dump/load and
schema coercion are parameters — exercised by the harness for every setting), and the stamped
`versions` value is accepted by its schema. -/
theorem read_write_id (schema : String → V → Option V) (dump : String → V → V) (stamp : V → V) (blank : V)
    (style : Style) (user : List String) (rn : Renames) (r : Reg V)
    (hnd : (names r).Nodup) (hver : versionsName ∈ names r)
    (hrt : ∀ e ∈ r, e.name ≠ versionsName → schema e.name (dump e.name e.value) = some e.value)
    (hst : ∀ y, (schema versionsName (stamp y)).isSome = true) :
    (readDoc schema rn (fresh r) (writeDoc dump stamp blank style user r)).ok = true ∧
    (readDoc schema rn (fresh r) (writeDoc dump stamp blank style user r)).invalid = [] ∧
    ∀ n, n ≠ versionsName →
      valueOf (readDoc schema rn (fresh r) (writeDoc dump stamp blank style user r)).reg n = valueOf r n := by
  have hall : ∀ p ∈ writeDoc dump stamp blank style user r,
      p.1 ∈ names (fresh r) ∧ (schema p.1 p.2).isSome = true := by
    intro p hp
    rw [names_fresh]
    rcases writeDoc_spec dump stamp blank style user r p hp with ⟨h1, y, h2⟩ | ⟨_, e, he, _, rfl⟩
    · rw [h1, h2]; exact ⟨hver, hst y⟩
    · refine ⟨List.mem_map.mpr ⟨e, he, rfl⟩, ?_⟩
      by_cases hv : e.name = versionsName
      · contradiction
      · simp [hrt e he hv]
  obtain ⟨h1, h2, _, h4, h5⟩ := read_fold schema (names (fresh r)) rn _
    { reg := fresh r, invalid := [], ok := true } rfl rfl hall (writeDoc_nodup dump stamp blank style user r hnd)
  refine ⟨h1, h2, ?_⟩
  intro n hn
  unfold readDoc
  by_cases hmem : n ∈ names r
  · obtain ⟨e, he, rfl⟩ := List.mem_map.mp hmem
    rw [valueOf_of_mem r hnd e he]
    by_cases hs : selected style user e = true
    · have := h5 _ (writeDoc_mem dump stamp blank style user r e he hs hn)
      simp only at this
      rw [this, hrt e he hn]
    · have hnot : e.name ∉ (writeDoc dump stamp blank style user r).map (·.1) := by
        intro hc
        obtain ⟨p, hp, hpe⟩ := List.mem_map.mp hc
        rcases writeDoc_spec dump stamp blank style user r p hp with ⟨h1', _⟩ | ⟨_, e', he', hs', rfl⟩
        · exact hn (hpe ▸ h1')
        · -- e' and e have the same name, hence are the same entry
          simp only at hpe
          have := entry_unique r hnd e' e he' he hpe
          subst this
          exact hs hs'
      rw [h4 _ hnot, valueOf_fresh_of_mem r hnd e he]
      -- not selected ⇒ at default
      have : e.value = e.default := by
        cases style <;> simp [selected, offDefault] at hs
        · exact hs
        · exact hs.1
      rw [this]
  · rw [valueOf_none r n hmem]
    have hnot : n ∉ (writeDoc dump stamp blank style user r).map (·.1) := by
      intro hc
      obtain ⟨p, hp, hpe⟩ := List.mem_map.mp hc
      rcases writeDoc_spec dump stamp blank style user r p hp with ⟨h1', _⟩ | ⟨_, e', he', _, rfl⟩
      · exact hn (hpe ▸ h1')
      · exact hmem (hpe ▸ List.mem_map.mpr ⟨e', he', rfl⟩)
    rw [h4 _ hnot]
    exact valueOf_none _ _ (by rw [names_fresh]; exact hmem)

end

section
variable {V : Type} [DecidableEq V]

/-- **the short style omits exactly the settings at their default**: a name appears in the written
mapping iff it is the version stamp or a setting whose value differs from its default. -/
theorem short_omits_exactly_defaults (dump : String → V → V) (stamp : V → V) (blank : V)
    (user : List String) (r : Reg V) (n : String) :
    n ∈ (writeDoc dump stamp blank .short user r).map (·.1) ↔
      n = versionsName ∨ ∃ e ∈ r, e.name = n ∧ e.value ≠ e.default := by
  rw [writeDoc_names]
  have hm : n ∈ names (toWrite .short user r) ↔ ∃ e ∈ r, e.name = n ∧ e.value ≠ e.default := by
    unfold names
    rw [List.mem_map]
    constructor
    · rintro ⟨e, he, rfl⟩
      have := (mem_toWrite _ _ _ _).mp he
      exact ⟨e, this.1, rfl, by simpa [selected, offDefault] using this.2⟩
    · rintro ⟨e, he, rfl, hv⟩
      exact ⟨e, (mem_toWrite _ _ _ _).mpr ⟨he, by simpa [selected, offDefault] using hv⟩, rfl⟩
  split
  · rename_i hc
    rw [hm]
    constructor
    · exact Or.inr
    · rintro (rfl | h)
      · exact hm.mp (List.contains_iff_mem.mp hc)
      · exact h
  · rw [List.mem_append, hm]
    simp only [List.mem_singleton]
    exact or_comm

/-- medium style: exactly the off-default settings and those named in the user's file (plus the stamp) -/
theorem medium_writes_user_and_changed (dump : String → V → V) (stamp : V → V) (blank : V)
    (user : List String) (r : Reg V) (n : String) :
    n ∈ (writeDoc dump stamp blank .medium user r).map (·.1) ↔
      n = versionsName ∨ ∃ e ∈ r, e.name = n ∧ (e.value ≠ e.default ∨ n ∈ user) := by
  rw [writeDoc_names]
  have hm : n ∈ names (toWrite .medium user r) ↔ ∃ e ∈ r, e.name = n ∧ (e.value ≠ e.default ∨ n ∈ user) := by
    unfold names
    rw [List.mem_map]
    constructor
    · rintro ⟨e, he, rfl⟩
      have := (mem_toWrite _ _ _ _).mp he
      exact ⟨e, this.1, rfl, by simpa [selected, offDefault] using this.2⟩
    · rintro ⟨e, he, rfl, hv⟩
      exact ⟨e, (mem_toWrite _ _ _ _).mpr ⟨he, by simpa [selected, offDefault] using hv⟩, rfl⟩
  split
  · rename_i hc
    rw [hm]
    constructor
    · exact Or.inr
    · rintro (rfl | h)
      · exact hm.mp (List.contains_iff_mem.mp hc)
      · exact h
  · rw [List.mem_append, hm]
    simp only [List.mem_singleton]
    exact or_comm

/-- full style writes every setting -/
theorem full_writes_all (dump : String → V → V) (stamp : V → V) (blank : V)
    (user : List String) (r : Reg V) (n : String) (h : n ∈ names r) :
    n ∈ (writeDoc dump stamp blank .full user r).map (·.1) := by
  rw [writeDoc_names]
  have : n ∈ names (toWrite .full user r) := by
    obtain ⟨e, he, rfl⟩ := List.mem_map.mp h
    exact List.mem_map.mpr ⟨e, (mem_toWrite _ _ _ _).mpr ⟨he, rfl⟩, rfl⟩
  split
  · exact this
  · exact List.mem_append_left _ this

omit [DecidableEq V] in
/-- **a value refused by the schema raises and leaves the previous value in place (assignment)** -/
theorem invalid_rejected_keeps_previous (schema : String → V → Option V) (r : Reg V) (n : String) (raw : V)
    (hn : n ∈ names r) (hbad : schema n raw = none) :
    (assign schema r n raw).2 = .invalid ∧ (assign schema r n raw).1 = r := by
  have : has r n = true := (has_iff r n).mpr hn
  simp [assign, this, hbad]

omit [DecidableEq V] in
/-- a value accepted by the schema is stored coerced, every other setting is untouched -/
theorem assign_valid (schema : String → V → Option V) (r : Reg V) (n : String) (raw v : V)
    (hn : n ∈ names r) (hok : schema n raw = some v) :
    (assign schema r n raw).2 = .ok ∧ valueOf (assign schema r n raw).1 n = some v ∧
    ∀ m, m ≠ n → valueOf (assign schema r n raw).1 m = valueOf r m := by
  have : has r n = true := (has_iff r n).mpr hn
  simp only [assign, this, hok, if_true]
  exact ⟨trivial, valueOf_setVal_same r n v hn, fun m hm => valueOf_setVal_other r n m v hm⟩

omit [DecidableEq V] in
private theorem foldl_applyOne_stopped (schema : String → V → Option V) (cur : List String) (rn : Renames)
    (d : List (String × V)) (st : ReadResult V) (h : st.ok = false) :
    d.foldl (applyOne schema cur rn) st = st := by
  induction d with
  | nil => rfl
  | cons p d ih => simp only [List.foldl_cons]; have : applyOne schema cur rn st p = st := by simp [applyOne, h]
                   rw [this, ih]

omit [DecidableEq V] in
/-- **a value refused while reading raises at that entry and leaves the setting (and everything after
it in the file) as it was**: the state after the failed read is the state after the entries before it. -/
theorem invalid_read_keeps_previous (schema : String → V → Option V) (rn : Renames) (r : Reg V)
    (pre post : List (String × V)) (n : String) (raw : V)
    (hpre : (readDoc schema rn r pre).ok = true)
    (hn : (renameSetting (names r) rn n).1 ∈ names (readDoc schema rn r pre).reg)
    (hbad : schema (renameSetting (names r) rn n).1 raw = none) :
    (readDoc schema rn r (pre ++ (n, raw) :: post)).ok = false ∧
    (readDoc schema rn r (pre ++ (n, raw) :: post)).reg = (readDoc schema rn r pre).reg := by
  unfold readDoc at *
  rw [List.foldl_append, List.foldl_cons]
  have hstep : applyOne schema (names r) rn (pre.foldl (applyOne schema (names r) rn) ⟨r, [], true⟩) (n, raw)
      = { (pre.foldl (applyOne schema (names r) rn) ⟨r, [], true⟩) with ok := false } := by
    have : has (pre.foldl (applyOne schema (names r) rn) ⟨r, [], true⟩).reg (renameSetting (names r) rn n).1 = true :=
      (has_iff _ _).mpr hn
    simp [applyOne, hpre, this, hbad]
  rw [hstep, foldl_applyOne_stopped _ _ _ _ _ rfl]
  exact ⟨rfl, rfl⟩

end

section
variable {V : Type}

private theorem lookup_append_some (l l' : List (String × String)) (o x : String)
    (h : lookupRename l o = some x) : lookupRename (l ++ l') o = some x := by
  unfold lookupRename at *
  rw [List.find?_append]
  cases hf : l.find? (fun p => p.1 == o) with
  | none => simp [hf] at h
  | some q => simpa [hf] using h

private theorem lookup_append_new (l : List (String × String)) (old new : String)
    (h : old ∉ l.map (·.1)) : lookupRename (l ++ [(old, new)]) old = some new := by
  unfold lookupRename
  rw [List.find?_append]
  have : l.find? (fun p => p.1 == old) = none := by
    rw [List.find?_eq_none]; intro p hp hc
    exact h (List.mem_map.mpr ⟨p, hp, by simpa using hc⟩)
  simp [this]

private theorem lookup_some_mem (l : List (String × String)) (o x : String)
    (h : lookupRename l o = some x) : o ∈ l.map (·.1) := by
  unfold lookupRename at h
  cases hf : l.find? (fun p => p.1 == o) with
  | none => simp [hf] at h
  | some q =>
    have h1 := List.mem_of_find?_eq_some hf
    have h2 := List.find?_some hf
    exact List.mem_map.mpr ⟨q, h1, by simpa using h2⟩

theorem mkRenamer_sound (today : Int) : ∀ (olds : List OldName) (acc rn : Renames),
    mkRenamer today olds acc = some rn →
    (∀ o x, lookupRename acc.active o = some x → lookupRename rn.active o = some x) ∧
    (∀ d ∈ olds, isExpired today d.2.2 = false → lookupRename rn.active d.2.1 = some d.1) ∧
    (∀ o, o ∈ rn.active.map (·.1) →
        o ∈ acc.active.map (·.1) ∨ ∃ d ∈ olds, d.2.1 = o ∧ isExpired today d.2.2 = false) := by
  intro olds
  induction olds with
  | nil =>
    intro acc rn h
    simp only [mkRenamer, Option.some.injEq] at h
    subst h
    exact ⟨fun _ _ h => h, by simp, fun o ho => Or.inl ho⟩
  | cons d rest ih =>
    intro acc rn h
    obtain ⟨new, old, exp⟩ := d
    unfold mkRenamer at h
    by_cases hexp : isExpired today exp = true
    · rw [if_pos hexp] at h
      obtain ⟨i1, i2, i3⟩ := ih _ rn h
      refine ⟨i1, ?_, ?_⟩
      · intro d hd hne
        rcases List.mem_cons.mp hd with rfl | hd
        · simp [hexp] at hne
        · exact i2 d hd hne
      · intro o ho
        rcases i3 o ho with h1 | ⟨d, hd, h2⟩
        · exact Or.inl h1
        · exact Or.inr ⟨d, List.mem_cons_of_mem _ hd, h2⟩
    · rw [if_neg hexp] at h
      by_cases hc : (acc.active.map (·.1)).contains old = true
      · rw [if_pos hc] at h; cases h
      · rw [if_neg hc] at h
        have hnot : old ∉ acc.active.map (·.1) := fun hm => hc (List.contains_iff_mem.mpr hm)
        obtain ⟨i1, i2, i3⟩ := ih _ rn h
        refine ⟨?_, ?_, ?_⟩
        · intro o x hox
          exact i1 o x (lookup_append_some _ _ _ _ hox)
        · intro d hd hne
          rcases List.mem_cons.mp hd with rfl | hd
          · exact i1 _ _ (lookup_append_new _ _ _ hnot)
          · exact i2 d hd hne
        · intro o ho
          rcases i3 o ho with h1 | ⟨d, hd, h2⟩
          · simp only [List.map_append, List.map_cons, List.map_nil, List.mem_append,
              List.mem_singleton] at h1
            rcases h1 with h1 | rfl
            · exact Or.inl h1
            · exact Or.inr ⟨(new, o, exp), List.mem_cons_self, rfl, by simpa using hexp⟩
          · exact Or.inr ⟨d, List.mem_cons_of_mem _ hd, h2⟩

/-- **a setting declared under an old, unexpired name is accepted under that name and lands on the
new one** (`SettingRenamer` built from the declarations without collision; the old name is not itself
a current setting): the value read for `old` is stored, coerced, under `new`; nothing is flagged
invalid; no other setting moves. -/
theorem rename_lands_on_new (schema : String → V → Option V) (today : Int) (olds : List OldName)
    (rn : Renames) (r : Reg V) (new old : String) (exp : Option Int) (raw v : V)
    (hmk : mkRenamer today olds ⟨[], []⟩ = some rn)
    (hdecl : (new, old, exp) ∈ olds) (hact : isExpired today exp = false)
    (hold : old ∉ names r) (hnew : new ∈ names r) (hok : schema new raw = some v) :
    (readDoc schema rn r [(old, raw)]).ok = true ∧
    (readDoc schema rn r [(old, raw)]).invalid = [] ∧
    valueOf (readDoc schema rn r [(old, raw)]).reg new = some v ∧
    ∀ m, m ≠ new → valueOf (readDoc schema rn r [(old, raw)]).reg m = valueOf r m := by
  have hl : lookupRename rn.active old = some new := (mkRenamer_sound today olds _ rn hmk).2.1 _ hdecl hact
  have hren : renameSetting (names r) rn old = (new, true) := by
    have : (names r).contains old = false := by
      rw [Bool.eq_false_iff]; intro hc; exact hold (List.contains_iff_mem.mp hc)
    simp [renameSetting, hold, hl]
  have hhas : has r new = true := (has_iff r new).mpr hnew
  have : readDoc schema rn r [(old, raw)] = ⟨setVal r new v, [], true⟩ := by
    simp [readDoc, applyOne, hren, hhas, hok]
  rw [this]
  exact ⟨rfl, rfl, valueOf_setVal_same r new v hnew, fun m hm => valueOf_setVal_other r new m v hm⟩

/-- **an expired old name is not renamed**: when every declaration of `old` has expired (and `old` is
not a current setting), reading it changes no setting and reports `old` as invalid. -/
theorem expired_rename_is_invalid (schema : String → V → Option V) (today : Int) (olds : List OldName)
    (rn : Renames) (r : Reg V) (old : String) (raw : V)
    (hmk : mkRenamer today olds ⟨[], []⟩ = some rn)
    (hexp : ∀ d ∈ olds, d.2.1 = old → isExpired today d.2.2 = true)
    (hold : old ∉ names r) :
    readDoc schema rn r [(old, raw)] = ⟨r, [old], true⟩ := by
  have hl : lookupRename rn.active old = none := by
    cases h : lookupRename rn.active old with
    | none => rfl
    | some x =>
      exfalso
      rcases (mkRenamer_sound today olds _ rn hmk).2.2 old (lookup_some_mem _ _ _ h) with h1 | ⟨d, hd, h2, h3⟩
      · simp at h1
      · rw [hexp d hd h2] at h3; cases h3
  have hc : (names r).contains old = false := by
    rw [Bool.eq_false_iff]; intro hc; exact hold (List.contains_iff_mem.mp hc)
  have hren : renameSetting (names r) rn old = (old, false) := by
    simp [renameSetting, hold, hl]
  have hhas : has r old = false := by
    rw [Bool.eq_false_iff]; intro h; exact hold ((has_iff r old).mp h)
  simp [readDoc, applyOne, hren, hhas]

end

section
variable {V : Type}

/-- frame rule: assigning through one settings object never changes another object of the store -/
theorem Store.assign_frame (schema : String → V → Option V) (s : Store V) (a c : Nat) (n : String) (raw : V)
    (h : c ≠ a) : (Store.assign schema s c n raw)[a]? = s[a]? := by
  unfold Store.assign
  cases hc : s[c]? with
  | none => rfl
  | some r => simp only []; rw [List.getElem?_set_ne h]

theorem Store.assign_length (schema : String → V → Option V) (s : Store V) (c : Nat) (n : String) (raw : V) :
    (Store.assign schema s c n raw).length = s.length := by
  unfold Store.assign
  cases hc : s[c]? with
  | none => rfl
  | some r => simp

/-- a history of assignments through object `c` -/
def Store.assignMany (schema : String → V → Option V) (s : Store V) (c : Nat) (ops : List (String × V)) : Store V :=
  ops.foldl (fun st op => Store.assign schema st c op.1 op.2) s

theorem Store.assignMany_frame (schema : String → V → Option V) (c a : Nat) (h : c ≠ a) :
    ∀ (ops : List (String × V)) (s : Store V), (Store.assignMany schema s c ops)[a]? = s[a]? := by
  intro ops
  induction ops with
  | nil => intro s; rfl
  | cons op ops ih =>
    intro s
    simp only [Store.assignMany, List.foldl_cons] at ih ⊢
    rw [ih, Store.assign_frame schema s a c op.1 op.2 h]

/-- **modified copies do not affect the original (and vice versa)**: `modified` returns a new object
`b ≠ a`; the original `a` is unchanged by the call, by any later history of assignments through the
copy, and the copy is unchanged by any later history of assignments through the original. -/
theorem modified_isolated (schema : String → V → Option V) (s s' : Store V) (a b : Nat)
    (news : List (String × NewItem V)) (h : Store.modified schema s a news = some (s', b)) :
    b ≠ a ∧ s'[a]? = s[a]? ∧ s'[b]? = (s[a]?).bind (fun r => modifiedReg schema r news) ∧
    (∀ ops, (Store.assignMany schema s' b ops)[a]? = s[a]?) ∧
    (∀ ops, (Store.assignMany schema s' a ops)[b]? = s'[b]?) := by
  unfold Store.modified at h
  cases ha : s[a]? with
  | none => simp [ha] at h
  | some r =>
    simp only [ha] at h
    cases hm : modifiedReg schema r news with
    | none => simp [hm] at h
    | some r' =>
      simp only [hm, Option.some.injEq, Prod.mk.injEq] at h
      obtain ⟨rfl, rfl⟩ := h
      have halt : a < s.length := by
        rcases List.getElem?_eq_some_iff.mp ha with ⟨hl, _⟩; exact hl
      have hne : s.length ≠ a := by omega
      have h1 : (s ++ [r'])[a]? = some r := by rw [List.getElem?_append_left halt]; exact ha
      refine ⟨hne, h1, ?_, ?_, ?_⟩
      · simp [hm]
      · intro ops; rw [Store.assignMany_frame schema _ _ hne, h1]
      · intro ops; rw [Store.assignMany_frame schema _ _ (Ne.symm hne)]

end

section
variable {V : Type}

/-- `modified()` with nothing to modify always succeeds … -/
private theorem modifiedReg_nil (schema : String → V → Option V) (r : Reg V) : modifiedReg schema r [] = some r := by
  simp [modifiedReg]

/-- **the baseline point of a sweep**: `modified(newSettings={})` / `modified()` / `duplicate()` — a copy with an EMPTY set of
modifications — is still a NEW object holding the same values: any history of assignments through it leaves the original
alone, and any history through the original leaves it alone. -/
theorem modified_empty_is_independent_copy (schema : String → V → Option V) (s : Store V) (a : Nat) (r : Reg V)
    (ha : s[a]? = some r) :
    ∃ s' b, Store.modified schema s a [] = some (s', b) ∧ b ≠ a ∧ s'[b]? = some r ∧ s'[a]? = some r ∧
      (∀ ops, (Store.assignMany schema s' b ops)[a]? = some r) ∧
      (∀ ops, (Store.assignMany schema s' a ops)[b]? = some r) := by
  have hm : Store.modified schema s a [] = some (s ++ [r], s.length) := by
    unfold Store.modified; simp [ha, modifiedReg_nil]
  obtain ⟨h1, h2, h3, h4, h5⟩ := modified_isolated schema s (s ++ [r]) a s.length [] hm
  have hb : (s ++ [r])[s.length]? = some r := by rw [h3, ha]; simp [modifiedReg_nil]
  refine ⟨s ++ [r], s.length, hm, h1, hb, by rw [h2, ha], ?_, ?_⟩
  · intro ops; rw [h4 ops, ha]
  · intro ops; rw [h5 ops, hb]

example : ∃ s' b, Store.modified (fun _ (v : Nat) => some v) [[⟨"a", 1, 2⟩]] 0 [] = some (s', b) ∧ b ≠ 0 :=
  ⟨_, _, rfl, by decide⟩

/-- a current setting name is never renamed (whatever old names are declared) -/
theorem rename_idempotent_on_current (cur : List String) (rn : Renames) (n : String) (h : n ∈ cur) :
    renameSetting cur rn n = (n, false) := by
  simp [renameSetting, h]

/-- the targets of the live renames are names of declaring settings -/
theorem mkRenamer_targets (today : Int) : ∀ (olds : List OldName) (acc rn : Renames),
    mkRenamer today olds acc = some rn →
    ∀ p ∈ rn.active, p ∈ acc.active ∨ ∃ d ∈ olds, d.1 = p.2 ∧ d.2.1 = p.1 := by
  intro olds
  induction olds with
  | nil => intro acc rn h p hp; simp only [mkRenamer, Option.some.injEq] at h; subst h; exact Or.inl hp
  | cons d rest ih =>
    intro acc rn h p hp
    obtain ⟨new, old, exp⟩ := d
    unfold mkRenamer at h
    by_cases hexp : isExpired today exp = true
    · rw [if_pos hexp] at h
      rcases ih _ rn h p hp with h1 | ⟨d, hd, h2⟩
      · exact Or.inl h1
      · exact Or.inr ⟨d, List.mem_cons_of_mem _ hd, h2⟩
    · rw [if_neg hexp] at h
      by_cases hc : (acc.active.map (·.1)).contains old = true
      · rw [if_pos hc] at h; cases h
      · rw [if_neg hc] at h
        rcases ih _ rn h p hp with h1 | ⟨d, hd, h2⟩
        · simp only [List.mem_append, List.mem_singleton] at h1
          rcases h1 with h1 | rfl
          · exact Or.inl h1
          · exact Or.inr ⟨(new, old, exp), List.mem_cons_self, rfl, rfl⟩
        · exact Or.inr ⟨d, List.mem_cons_of_mem _ hd, h2⟩

private theorem lookupRename_mem (l : List (String × String)) (n m : String) (h : lookupRename l n = some m) :
    (n, m) ∈ l := by
  unfold lookupRename at h
  cases hf : l.find? (fun p => p.1 == n) with
  | none => simp [hf] at h
  | some q =>
    simp only [hf, Option.map_some, Option.some.injEq] at h
    have h1 := List.mem_of_find?_eq_some hf
    have h2 : q.1 = n := by simpa using List.find?_some hf
    have : q = (n, m) := by rw [← h2, ← h]
    rw [← this]; exact h1

/-- **one renaming step is complete**: when every declaring setting is a current setting (as in any registry:
old names are declared BY current settings), renaming an already renamed name changes nothing — a chain
old → mid → new cannot be followed, and need not be, because `mid` would have to be a current name. -/
theorem rename_single_step_complete (today : Int) (olds : List OldName) (cur : List String) (rn : Renames) (n : String)
    (hmk : mkRenamer today olds ⟨[], []⟩ = some rn)
    (hdecl : ∀ d ∈ olds, d.1 ∈ cur) :
    renameSetting cur rn (renameSetting cur rn n).1 = ((renameSetting cur rn n).1, false) := by
  by_cases hn : n ∈ cur
  · simp [renameSetting, hn]
  · cases hl : lookupRename rn.active n with
    | none => simp [renameSetting, hn, hl]
    | some m =>
      have hmem := lookupRename_mem _ _ _ hl
      have hm : m ∈ cur := by
        rcases mkRenamer_targets today olds _ rn hmk _ hmem with h1 | ⟨d, hd, h2, _⟩
        · simp at h1
        · have h3 : d.1 = m := h2
          rw [← h3]; exact hdecl d hd
      simp [renameSetting, hn, hl, hm]

end

section Histories
/-! ### every reachable settings object (assign / revert / changeDefault / copy / modified in any order) -/
variable {V : Type}

private theorem names_setVal' (r : Reg V) (n : String) (v : V) : names (setVal r n v) = names r := by
  unfold names setVal
  rw [List.map_map]
  apply List.map_congr_left
  intro e _; simp only [Function.comp]; split <;> rfl

private theorem has_iff' (r : Reg V) (n : String) : has r n = true ↔ n ∈ names r := by
  unfold has; exact List.contains_iff_mem

private theorem names_revert (r : Reg V) (n : String) : names (revert r n) = names r := by
  unfold names revert
  rw [List.map_map]
  apply List.map_congr_left
  intro e _; simp only [Function.comp]; split <;> rfl

private theorem names_assign (schema : String → V → Option V) (r : Reg V) (n : String) (raw : V) :
    names (assign schema r n raw).1 = names r := by
  unfold assign
  split
  · split
    · exact names_setVal' _ _ _
    · rfl
  · rfl

private theorem names_changeDefault (schema : String → V → Option V) (r : Reg V) (n : String) (raw : V) :
    names (changeDefault schema r n raw).1 = names r := by
  unfold changeDefault
  split
  · split <;> (unfold names; simp only []; rw [List.map_map]; apply List.map_congr_left; intro e _; simp only [Function.comp]; split <;> rfl)
  · rfl

private theorem copyReg_nodup_aux (l : List (Entry V)) : ∀ (acc : Reg V), (names acc).Nodup →
    (names (l.foldl (fun acc e => if has acc e.name then setVal acc e.name e.value else acc ++ [e]) acc)).Nodup ∧
    ∀ n ∈ names acc, n ∈ names (l.foldl (fun acc e => if has acc e.name then setVal acc e.name e.value else acc ++ [e]) acc) := by
  induction l with
  | nil => intro acc h; exact ⟨h, fun _ hn => hn⟩
  | cons e es ih =>
    intro acc h
    simp only [List.foldl_cons]
    by_cases hh : has acc e.name = true
    · simp only [hh, if_true]
      have := ih (setVal acc e.name e.value) (by rw [names_setVal']; exact h)
      rw [names_setVal'] at this
      exact this
    · simp only [hh, Bool.false_eq_true, if_false]
      have hn : e.name ∉ names acc := fun hc => hh ((has_iff' _ _).mpr hc)
      have hnd : (names (acc ++ [e])).Nodup := by
        unfold names at *
        rw [List.map_append, List.nodup_append]
        refine ⟨h, by simp, ?_⟩
        intro a ha b hb
        simp at hb; subst hb
        intro hab; subst hab; exact hn ha
      obtain ⟨h1, h2⟩ := ih (acc ++ [e]) hnd
      refine ⟨h1, fun n hn' => h2 n ?_⟩
      unfold names at *; rw [List.map_append]; exact List.mem_append_left _ hn'

private theorem copyReg_nodup (app r : Reg V) (h : (names app).Nodup) : (names (copyReg app r)).Nodup :=
  (copyReg_nodup_aux r app h).1

private theorem copyReg_keeps_app_names (app r : Reg V) (h : (names app).Nodup) : ∀ n ∈ names app, n ∈ names (copyReg app r) :=
  (copyReg_nodup_aux r app h).2

private theorem nodup_append_new (acc : Reg V) (e : Entry V) (h : (names acc).Nodup) (hn : e.name ∉ names acc) :
    (names (acc ++ [e])).Nodup := by
  unfold names at *
  rw [List.map_append, List.nodup_append]
  refine ⟨h, by simp, ?_⟩
  intro a ha b hb
  simp at hb; subst hb
  intro hab; subst hab; exact hn ha

private theorem mem_names_append (acc : Reg V) (e : Entry V) (n : String) (h : n ∈ names acc) : n ∈ names (acc ++ [e]) := by
  unfold names at *; rw [List.map_append]; exact List.mem_append_left _ h

/-- invariant carried by one `modifyOne` step -/
private theorem modifyOne_inv (schema : String → V → Option V) (acc : Reg V × Bool) (kv : String × NewItem V)
    (h : (names acc.1).Nodup) :
    (names (modifyOne schema acc kv).1).Nodup ∧ ∀ n ∈ names acc.1, n ∈ names (modifyOne schema acc kv).1 := by
  unfold modifyOne
  by_cases hb : acc.2 = true
  · simp only [hb, Bool.not_true, Bool.false_eq_true, if_false]
    cases hk : kv.2 with
    | obj d v =>
      simp only []
      by_cases hh : has acc.1 kv.1 = true
      · simp only [hh, if_true]
        have hn : names (acc.1.map (fun e => if e.name == kv.1 then ({ name := kv.1, default := d, value := v } : Entry V) else e)) = names acc.1 := by
          unfold names; rw [List.map_map]; apply List.map_congr_left
          intro e _; simp only [Function.comp]
          split
          · rename_i he; simp at he; simp [he]
          · rfl
        rw [hn]; exact ⟨h, fun _ hn => hn⟩
      · simp only [hh, Bool.false_eq_true, if_false]
        have hn : kv.1 ∉ names acc.1 := fun hc => hh ((has_iff' _ _).mpr hc)
        exact ⟨nodup_append_new acc.1 ⟨kv.1, d, v⟩ h hn, fun n hn' => mem_names_append _ _ _ hn'⟩
    | val raw =>
      simp only []
      by_cases hh : has acc.1 kv.1 = true
      · simp only [hh, if_true]
        cases schema kv.1 raw with
        | none => exact ⟨h, fun _ hn => hn⟩
        | some v => simp only []; rw [names_setVal']; exact ⟨h, fun _ hn => hn⟩
      · simp only [hh, Bool.false_eq_true, if_false]
        have hn : kv.1 ∉ names acc.1 := fun hc => hh ((has_iff' _ _).mpr hc)
        exact ⟨nodup_append_new acc.1 ⟨kv.1, raw, raw⟩ h hn, fun n hn' => mem_names_append _ _ _ hn'⟩
  · simp only [hb, Bool.not_false, if_true]
    exact ⟨h, fun _ hn => hn⟩

private theorem modifiedReg_inv (schema : String → V → Option V) (news : List (String × NewItem V)) :
    ∀ (r r' : Reg V), (names r).Nodup → modifiedReg schema r news = some r' →
      (names r').Nodup ∧ ∀ n ∈ names r, n ∈ names r' := by
  have aux : ∀ (news : List (String × NewItem V)) (acc : Reg V × Bool), (names acc.1).Nodup →
      (names (news.foldl (modifyOne schema) acc).1).Nodup ∧ ∀ n ∈ names acc.1, n ∈ names (news.foldl (modifyOne schema) acc).1 := by
    intro news
    induction news with
    | nil => intro acc h; exact ⟨h, fun _ hn => hn⟩
    | cons kv rest ih =>
      intro acc h
      simp only [List.foldl_cons]
      obtain ⟨h1, h2⟩ := modifyOne_inv schema acc kv h
      obtain ⟨h3, h4⟩ := ih _ h1
      exact ⟨h3, fun n hn => h4 n (h2 n hn)⟩
  intro r r' h hm
  unfold modifiedReg at hm
  simp only at hm
  split at hm
  · simp only [Option.some.injEq] at hm; subst hm; exact aux news (r, true) h
  · cases hm


private theorem valueOf_append_other (acc : Reg V) (e : Entry V) (m : String) (h : e.name ≠ m) :
    valueOf (acc ++ [e]) m = valueOf acc m := by
  induction acc with
  | nil => rw [List.nil_append, valueOf_cons]; simp [h, valueOf, find?]
  | cons a acc ih => rw [List.cons_append, valueOf_cons, valueOf_cons, ih]

private theorem valueOf_append_new (acc : Reg V) (e : Entry V) (h : e.name ∉ names acc) :
    valueOf (acc ++ [e]) e.name = some e.value := by
  induction acc with
  | nil => rw [List.nil_append, valueOf_cons]; simp
  | cons a acc ih =>
    have h1 : a.name ≠ e.name := by
      intro hc; apply h; simp [names, hc]
    have h2 : e.name ∉ names acc := by
      intro hc; apply h; simp only [names, List.map_cons, List.mem_cons]; exact Or.inr hc
    rw [List.cons_append, valueOf_cons, ih h2]; simp [h1]

/-- the `__setstate__` loop leaves every name it does not visit alone -/
private theorem copyFold_untouched (l : List (Entry V)) : ∀ (acc : Reg V) (m : String), m ∉ names l →
    valueOf (l.foldl (fun acc e => if has acc e.name then setVal acc e.name e.value else acc ++ [e]) acc) m = valueOf acc m := by
  induction l with
  | nil => intro acc m _; rfl
  | cons e es ih =>
    intro acc m hm
    have h1 : e.name ≠ m := by intro hc; apply hm; simp [names, hc]
    have h2 : m ∉ names es := by intro hc; apply hm; simp only [names, List.map_cons, List.mem_cons]; exact Or.inr hc
    simp only [List.foldl_cons]
    rw [ih _ m h2]
    by_cases hh : has acc e.name = true
    · simp only [hh, if_true]; exact valueOf_setVal_other acc e.name m e.value (fun hc => h1 hc.symm)
    · simp only [hh, Bool.false_eq_true, if_false]; exact valueOf_append_other acc e m h1

/-- **a copy holds the values of its original**: `__setstate__` (deepcopy / duplicate / modified / unpickling) hands every
setting's value over unchanged — assigned on the original or inherited from an earlier copy alike — whatever the
application's defaults are. -/
theorem copyReg_value_preserving (app r : Reg V) (hnd : (names r).Nodup) (e : Entry V) (he : e ∈ r) :
    valueOf (copyReg app r) e.name = some e.value := by
  unfold copyReg
  have aux : ∀ (l : List (Entry V)) (acc : Reg V), (names l).Nodup → e ∈ l →
      valueOf (l.foldl (fun acc e => if has acc e.name then setVal acc e.name e.value else acc ++ [e]) acc) e.name = some e.value := by
    intro l
    induction l with
    | nil => intro acc _ h; cases h
    | cons x xs ih =>
      intro acc hn hmem
      simp only [List.foldl_cons]
      have hn' : x.name ∉ names xs ∧ (names xs).Nodup := by
        simpa [names] using hn
      rcases List.mem_cons.mp hmem with rfl | hin
      · rw [copyFold_untouched xs _ _ hn'.1]
        by_cases hh : has acc e.name = true
        · simp only [hh, if_true]; exact valueOf_setVal_same acc e.name e.value ((has_iff _ _).mp hh)
        · simp only [hh, Bool.false_eq_true, if_false]
          exact valueOf_append_new acc e (fun hc => hh ((has_iff _ _).mpr hc))
      · exact ih _ hn'.2 hin
  exact aux r app hnd he


/-- the invariant of every reachable settings object: unique names, and every name the application defines -/
theorem runOps_inv (schema : String → V → Option V) (app : Reg V) (happ : (names app).Nodup) (ops : List (Op V)) :
    (names (runOps schema app ops)).Nodup ∧ ∀ n ∈ names app, n ∈ names (runOps schema app ops) := by
  have aux : ∀ (ops : List (Op V)) (r : Reg V), ((names r).Nodup ∧ ∀ n ∈ names app, n ∈ names r) →
      ((names (ops.foldl (stepOp schema app) r)).Nodup ∧ ∀ n ∈ names app, n ∈ names (ops.foldl (stepOp schema app) r)) := by
    intro ops
    induction ops with
    | nil => intro r h; exact h
    | cons op rest ih =>
      intro r h
      simp only [List.foldl_cons]
      apply ih
      cases op with
      | set n raw => simp only [stepOp]; rw [names_assign]; exact h
      | revert n => simp only [stepOp]; rw [names_revert]; exact h
      | chdef n raw => simp only [stepOp]; rw [names_changeDefault]; exact h
      | copy => simp only [stepOp]; exact ⟨copyReg_nodup app r happ, copyReg_keeps_app_names app r happ⟩
      | modify news =>
        simp only [stepOp]
        cases hm : modifiedReg schema (copyReg app r) news with
        | none => exact h
        | some r' =>
          obtain ⟨h1, h2⟩ := modifiedReg_inv schema news _ r' (copyReg_nodup app r happ) hm
          exact ⟨h1, fun n hn => h2 n (copyReg_keeps_app_names app r happ n hn)⟩
  exact aux ops app ⟨happ, fun _ hn => hn⟩

variable [DecidableEq V]

/-- **write/read round trip for every reachable settings object, every style**: whatever history of assignments (accepted or
refused), `revertToDefault`, `changeDefault`, copies (`deepcopy` / `duplicate` / pickle) and `modified(...)` produced the
object, writing it in any style and reading the file into an object with the same definitions gives every setting the value
the object holds — in particular the values a copy INHERITED without re-assignment. Hypotheses: the per-value YAML/schema
contract on the final object (a parameter, measured by the harness) and the `versions` stamp being admissible. -/
theorem reachable_read_write_id (schema : String → V → Option V) (dump : String → V → V) (stamp : V → V) (blank : V)
    (style : Style) (user : List String) (rn : Renames) (app : Reg V) (ops : List (Op V))
    (happ : (names app).Nodup) (hver : versionsName ∈ names app)
    (hrt : ∀ e ∈ runOps schema app ops, e.name ≠ versionsName → schema e.name (dump e.name e.value) = some e.value)
    (hst : ∀ y, (schema versionsName (stamp y)).isSome = true) :
    let r := runOps schema app ops
    (readDoc schema rn (fresh r) (writeDoc dump stamp blank style user r)).ok = true ∧
    (readDoc schema rn (fresh r) (writeDoc dump stamp blank style user r)).invalid = [] ∧
    ∀ n, n ≠ versionsName →
      valueOf (readDoc schema rn (fresh r) (writeDoc dump stamp blank style user r)).reg n = valueOf r n := by
  obtain ⟨h1, h2⟩ := runOps_inv schema app happ ops
  exact read_write_id schema dump stamp blank style user rn _ h1 (h2 _ hver) hrt hst

/-- the "at its default" answer is the comparison of value and default, on every object (original or copy): the short style
writes a setting iff that comparison says "differs" -/
theorem isDefault_iff (r : Reg V) (e : Entry V) (he : e ∈ r) (hnd : (names r).Nodup) :
    isDefault r e.name = some (decide (e.value = e.default)) ∧ (offDefault e = !decide (e.value = e.default)) := by
  constructor
  · unfold isDefault
    have : find? r e.name = some e := by
      have hv := valueOf_of_mem r hnd e he
      unfold valueOf at hv
      cases hf : find? r e.name with
      | none => rw [hf] at hv; simp at hv
      | some e' =>
        have hm : e' ∈ r := by unfold find? at hf; exact List.mem_of_find?_eq_some hf
        have hn : e'.name = e.name := by
          unfold find? at hf; have := List.find?_some hf; simpa using this
        rw [entry_unique r hnd e' e hm he hn]
    rw [this]; rfl
  · unfold offDefault; by_cases h : e.value = e.default <;> simp [h]

end Histories

section Numeric
/-! ### numeric schemas: coerce, then validate -/

/-- whatever a numeric setting accepts lies in its range -/
theorem numSchema_sound (t : NumType) (rg : NumRange) (raw : RawNum) (v : Num) (h : numSchema t rg raw = some v) :
    inRange rg v.val = true := by
  unfold numSchema at h
  simp only at h
  split at h
  · rename_i hr; simp only [Option.some.injEq] at h; rw [← h]; exact hr
  · cases h

private theorem coerceNum_toRaw (t : NumType) (raw : RawNum) : coerceNum t (coerceNum t raw).toRaw = coerceNum t raw := by
  cases t <;> cases raw <;> rfl

/-- **an accepted value is a value the setting can hold**: the stored (coerced) value passes the setting's schema again and
comes back unchanged — this is the hypothesis `schema n (dump n v) = some v` of `read_write_id`, PROVED for every setting
whose schema is `All(Coerce(int|float), Range(…))` (numbers survive the YAML text unchanged: harness) -/
theorem numSchema_fixpoint (t : NumType) (rg : NumRange) (raw : RawNum) (v : Num) (h : numSchema t rg raw = some v) :
    numSchema t rg v.toRaw = some v := by
  have hs := numSchema_sound t rg raw v h
  unfold numSchema at h ⊢
  simp only at h ⊢
  split at h
  · simp only [Option.some.injEq] at h
    subst h
    rw [coerceNum_toRaw]; simp [hs]
  · cases h

/-- a refused numeric value leaves the previous value in place, an accepted one is stored coerced (instance of
`invalid_rejected_keeps_previous` / `assign_valid` with the schema no longer a parameter) -/
theorem numeric_assign {V : Type} (enc : Num → V) (dec : V → Option RawNum) (t : NumType) (rg : NumRange) (r : Reg V)
    (n : String) (raw : V) (x : RawNum) (hx : dec raw = some x) :
    let schema : String → V → Option V := fun _ w => (dec w).bind (fun y => (numSchema t rg y).map enc)
    (numSchema t rg x = none → (assign schema r n raw).1 = r) ∧
    (∀ v, numSchema t rg x = some v → has r n = true → (assign schema r n raw).1 = setVal r n (enc v)) := by
  intro schema
  constructor
  · intro h; unfold assign; split
    · simp [schema, hx, h]
    · rfl
  · intro v h hh; unfold assign; simp [hh, schema, hx, h]

/-- **a non-integer strictly between 0 and 1 is refused by an integer-typed strictly-positive setting**
(axialMeshRefinementFactor, buGroups, tempGroups): `int(q) = 0` is not higher than 0.  `0 < q < 1` is stated on the
normalised numerator / denominator of the rational. -/
theorem fraction_refused_by_positive_int (q : Rat) (h0 : 0 ≤ q.num) (h1 : q.num < q.den) (mx : Option Rat) (mi : Bool) :
    numSchema .int ⟨some 0, mx, false, mi⟩ (.float q) = none := by
  have ht : truncate q = 0 := by unfold truncate; exact Int.tdiv_eq_zero_of_lt h0 h1
  unfold numSchema
  simp [coerceNum, ht, inRange, Num.val]

/-- validating BEFORE coercing admits what the setting cannot hold: 1/2 passes `Range(min=0, min_included=False)`, is then
truncated to 0, and 0 is refused by the very same schema (so the written file cannot be read back) -/
theorem range_before_coerce_admits_what_it_cannot_hold :
    numSchemaRangeFirst .int ⟨some 0, none, false, true⟩ (.float (1/2)) = some (.int 0) ∧
    numSchemaRangeFirst .int ⟨some 0, none, false, true⟩ (Num.int 0).toRaw = none ∧
    numSchema .int ⟨some 0, none, false, true⟩ (.float (1/2)) = none := by decide +kernel

example : numSchema .int ⟨some 0, none, false, true⟩ (.float (5/2)) = some (.int 2) := by decide +kernel
example : numSchema .float ⟨some 0, some 1, true, true⟩ (.bool true) = some (.float 1) := by decide +kernel
example : numSchema .int ⟨some 0, none, false, true⟩ (.float (-1/2)) = none := by decide +kernel

/-- **a list containing one bad element is refused as a whole** (e.g. `[0.25, 10, 20]` for `buGroups`) -/
theorem numListSchema_rejects_bad_element (t : NumType) (rg : NumRange) (l : List RawNum) (x : RawNum) (hx : x ∈ l)
    (hbad : numSchema t rg x = none) : numListSchema t rg l = none := by
  induction l with
  | nil => cases hx
  | cons y ys ih =>
    unfold numListSchema
    rcases List.mem_cons.mp hx with rfl | h
    · simp [hbad]
    · rw [ih h]; cases numSchema t rg y <;> rfl

/-- an accepted list is a list the setting can hold: it passes the list schema again, unchanged -/
theorem numListSchema_fixpoint (t : NumType) (rg : NumRange) : ∀ (l : List RawNum) (vs : List Num),
    numListSchema t rg l = some vs → numListSchema t rg (vs.map Num.toRaw) = some vs := by
  intro l
  induction l with
  | nil => intro vs h; simp [numListSchema] at h; subst h; rfl
  | cons y ys ih =>
    intro vs h
    unfold numListSchema at h
    cases hy : numSchema t rg y with
    | none => simp [hy] at h
    | some v =>
      cases hys : numListSchema t rg ys with
      | none => simp [hy, hys] at h
      | some ws =>
        simp [hy, hys] at h
        subst h
        simp only [List.map_cons]
        unfold numListSchema
        rw [numSchema_fixpoint t rg y v hy, ih ws hys]

example : numListSchema .int ⟨some 0, none, false, true⟩ [.float (1/4), .int 10, .int 20] = none := by decide +kernel
example : numListSchema .int ⟨some 0, none, false, true⟩ [.float (5/2), .int 10, .bool true] = some [.int 2, .int 10, .int 1] := by
  decide +kernel

end Numeric

section Options
/-! ### option lists filled at run time -/
variable {V : Type} [DecidableEq V]

private theorem optSchema_nonempty (options : List V) (fallback : V → Option V) (raw : V) (hne : options ≠ []) :
    optSchema true options fallback raw = if raw ∈ options then some raw else none := by
  have : options.isEmpty = false := by cases options <;> simp_all
  unfold optSchema
  simp [this]

/-- **an options-enforcing setting accepts exactly its CURRENT option list**, whatever mixture of definition-time options
and options added later (by plugins, once or repeatedly, to an empty or a non-empty list) produced it -/
theorem optSchema_enforced_iff (options : List V) (fallback : V → Option V) (raw : V) (hne : options ≠ []) :
    (optSchema true options fallback raw).isSome = true ↔ raw ∈ options := by
  rw [optSchema_nonempty options fallback raw hne]
  by_cases h : raw ∈ options <;> simp [h]

private theorem addOptions_ne (options new : List V) (hnew : new ≠ []) : addOptions options new ≠ [] := by
  unfold addOptions; cases options <;> cases new <;> simp_all

/-- a value outside the extended list is refused after options were added — also when the list STARTED EMPTY
(`neutronicsKernel`): near-misses of the plugin's options do not get in -/
theorem outside_options_rejected_after_add (options new : List V) (fallback : V → Option V) (raw : V)
    (hnew : new ≠ []) (hout : raw ∉ options ∧ raw ∉ new) :
    optSchema true (addOptions options new) fallback raw = none := by
  rw [optSchema_nonempty _ fallback raw (addOptions_ne options new hnew)]
  have : raw ∉ addOptions options new := by unfold addOptions; simp [hout.1, hout.2]
  simp [this]

/-- every added option is accepted (stored as given), and everything accepted before still is -/
theorem added_option_accepted (options new : List V) (fallback : V → Option V) (raw : V)
    (h : raw ∈ new ∨ (options ≠ [] ∧ (optSchema true options fallback raw).isSome = true)) (hnew : new ≠ []) :
    optSchema true (addOptions options new) fallback raw = some raw := by
  have hmem : raw ∈ addOptions options new := by
    unfold addOptions
    rcases h with h | ⟨hne, h⟩
    · exact List.mem_append_right _ h
    · exact List.mem_append_left _ ((optSchema_enforced_iff options fallback raw hne).mp h)
  rw [optSchema_nonempty _ fallback raw (addOptions_ne options new hnew)]
  simp [hmem]

/-- an accepted option is a fixpoint of the schema (it reads back unchanged): the `schema (dump v) = some v` hypothesis for
options-enforcing settings -/
theorem optSchema_fixpoint (options : List V) (fallback : V → Option V) (raw v : V) (hne : options ≠ [])
    (h : optSchema true options fallback raw = some v) : v = raw ∧ optSchema true options fallback v = some v := by
  rw [optSchema_nonempty options fallback raw hne] at h
  by_cases hc : raw ∈ options
  · rw [if_pos hc] at h
    have hv : raw = v := by simpa using h
    subst hv
    exact ⟨rfl, by rw [optSchema_nonempty options fallback raw hne, if_pos hc]⟩
  · rw [if_neg hc] at h; cases h

/-- why the schema has to be re-derived: a schema built while the list was empty stays the type coercion and lets every
string through after the plugin's options arrive -/
theorem stale_schema_admits_outsiders (new : List V) (fallback : V → Option V) (raw : V) (hacc : fallback raw = some raw) :
    staleOptSchema true [] (addOptions [] new) fallback raw = some raw := by
  simp [staleOptSchema, hacc]

example : optSchema true (addOptions ([] : List String) ["MCNP", "MCNP_Slab"]) some "MCNP_slab" = none ∧
    optSchema true (addOptions ([] : List String) ["MCNP", "MCNP_Slab"]) some "MCNP" = some "MCNP" ∧
    staleOptSchema true ([] : List String) (addOptions [] ["MCNP", "MCNP_Slab"]) some "MCNP_slab" = some "MCNP_slab" := by
  decide +kernel

end Options

section Examples
/-! Non-vacuity: the hypotheses of the theorems above are satisfiable (concrete instances). -/
private def exSchema : String → Nat → Option Nat := fun n v => if n = "b" ∧ v > 100 then none else some v
private def exReg : Reg Nat := [⟨"b", 1, 7⟩, ⟨"A", 2, 2⟩, ⟨"versions", 0, 0⟩]
private def exOlds : List OldName := [("b", "oldB", none), ("A", "oldA", some 10), ("A", "olderA", some 3)]

/-- hypotheses of `read_write_id` hold for a concrete registry, hence its conclusion does -/
example : ∀ n, n ≠ versionsName →
    valueOf (readDoc exSchema ⟨[], []⟩ (fresh exReg) (writeDoc (fun _ v => v) (fun _ => 99) 0 .short [] exReg)).reg n
      = valueOf exReg n :=
  (read_write_id exSchema (fun _ v => v) (fun _ => 99) 0 .short [] ⟨[], []⟩ exReg
    (by decide +kernel) (by decide +kernel) (by decide +kernel) (by intro y; rfl)).2.2

/-- `reachable_read_write_id` / `copyReg_value_preserving`: a history with an inherited value, a changed default and a revert -/
private def exApp : Reg Nat := [⟨"b", 1, 1⟩, ⟨"A", 2, 2⟩, ⟨"versions", 0, 0⟩]
private def exOps : List (Op Nat) := [.set "b" 7, .chdef "A" 5, .copy, .set "A" 9, .modify [("b", .val 8)], .revert "A", .copy]
example : runOps exSchema exApp exOps = [⟨"b", 1, 8⟩, ⟨"A", 2, 2⟩, ⟨"versions", 0, 0⟩] := by decide +kernel
example : valueOf (copyReg exApp [⟨"b", 1, 7⟩, ⟨"A", 5, 5⟩, ⟨"versions", 0, 0⟩]) "A" = some 5 ∧
    isDefault (copyReg exApp [⟨"b", 1, 7⟩, ⟨"A", 5, 5⟩, ⟨"versions", 0, 0⟩]) "A" = some false := by decide +kernel

/-- `invalid_rejected_keeps_previous`: a refused value exists -/
example : (assign exSchema exReg "b" 101).2 = .invalid ∧ (assign exSchema exReg "b" 101).1 = exReg :=
  invalid_rejected_keeps_previous exSchema exReg "b" 101 (by decide +kernel) (by decide +kernel)

/-- `rename_lands_on_new`: an unexpired declaration (today = 5, expiry 10 or none) -/
example : valueOf (readDoc exSchema ⟨[("oldB", "b"), ("oldA", "A")], [("olderA", "A")]⟩ exReg [("oldA", 42)]).reg "A" = some 42 :=
  (rename_lands_on_new exSchema 5 exOlds ⟨[("oldB", "b"), ("oldA", "A")], [("olderA", "A")]⟩ exReg "A" "oldA" (some 10) 42 42
    (by decide +kernel) (by decide +kernel) (by decide +kernel) (by decide +kernel) (by decide +kernel) (by decide +kernel)).2.2.1

/-- `expired_rename_is_invalid`: `olderA` expired on day 3 -/
example : readDoc exSchema ⟨[("oldB", "b"), ("oldA", "A")], [("olderA", "A")]⟩ exReg [("olderA", 42)] = ⟨exReg, ["olderA"], true⟩ :=
  expired_rename_is_invalid exSchema 5 exOlds _ exReg "olderA" 42 (by decide +kernel) (by decide +kernel) (by decide +kernel)

/-- a collision of two active renames is refused by `mkRenamer` -/
example : mkRenamer 5 [("b", "x", none), ("A", "x", none)] ⟨[], []⟩ = none := by decide +kernel

/-- `modified_isolated`: a successful `modified` call exists -/
example : (Store.modified exSchema [exReg] 0 [("b", .val 9), ("new", .val 4)]).isSome = true := by
  decide +kernel
end Examples
end ArmiVerif.Settings
