/-
C18 — the reactor built from blueprints is the reactor the blueprints describe.

Part 1 (Model/AsciiMap.lean): the text-cell → grid-index maps of the ascii lattice maps.
Part 2 (Model/Blueprint.lean): block stacking, link resolution, placement.
Theorem-backed: cell-map injectivity (no two text cells of a map name the same grid index, for every
map size), the closed forms `line = i + 2j (+ const)`, the reader of every class keeps every token at its computed index
(`read_keeps_every_token`), the Cartesian reader exactly (`cart_read_exact`), the
Cartesian writer's soundness (`cart_write_read_id`, full strength: whatever it draws reads back
to the contents; `cart_read_write_read_id`: read, written, read again gives the same contents; `cart_read_write_id`: re-drawing what was read reproduces the
text up to the trimming of trailing placeholders), for EVERY class the completeness theorem
`write_read_complete_partial` (a drawing reads back with every label at its own index unless the outline inferred from
the data misses a cell or the reader re-infers other dimensions — the two classes the known findings are filed under), and for third-core maps of ANY radius that the dimension
inference recovers the outline (`third_dims_complete`, `third_write_read_id_partial`; tips-up and full flats-up maps likewise:
`tips_write_read_id_partial`, `full_write_read_id_partial`, where the reader provably re-infers radius and corner cut; and for EVERY class
`read_back_nothing_invented_partial`: every label read back was drawn from the contents; complete maps, and maps with holes away
from the two anchor cells, are drawn completely), cumulative block elevations, link resolution over
a DAG / rejection of cycles and unknown targets, exact placement / refusal of unknown specifiers.
Correspondence-only (harness/c18.py): whole read/write round trips of the maps (exhaustive small +
generated), component construction, materials, thermal expansion, composition.
-/
import ArmiVerif.Model.AsciiMap
import ArmiVerif.Model.Blueprint

namespace ArmiVerif.AsciiMap

/-- third-core flats-up maps: the text line of a cell is `i + 2j` (lines counted from the bottom) -/
theorem third_line_of_cell (M o c l : Int) (_hl : 0 ≤ l) :
    (cellOf .third M o c l).1 + 2 * (cellOf .third M o c l).2 = l := by
  unfold cellOf thirdBase
  simp only []
  split
  · simp only []; omega
  · split
    · simp only []; omega
    · split <;> (simp only []; omega)

theorem third_cellmap_injective (M o c l c' l' : Int) (hl : 0 ≤ l) (hl' : 0 ≤ l')
    (h : cellOf .third M o c l = cellOf .third M o c' l') : c = c' ∧ l = l' := by
  have h1 := third_line_of_cell M o c l hl
  have h2 := third_line_of_cell M o c' l' hl'
  have hll : l = l' := by rw [h] at h1; omega
  subst hll
  refine ⟨?_, rfl⟩
  have := congrArg Prod.snd h
  simp only [cellOf] at this
  omega

theorem full_line_of_cell (M o c l : Int) :
    (cellOf .full M o c l).1 + 2 * (cellOf .full M o c l).2 = l + o - 2 * M := by
  unfold cellOf fullBase
  simp only []
  split
  · simp only []; omega
  · split <;> (simp only []; omega)

theorem full_cellmap_injective (M o c l c' l' : Int)
    (h : cellOf .full M o c l = cellOf .full M o c' l') : c = c' ∧ l = l' := by
  have h1 := full_line_of_cell M o c l
  have h2 := full_line_of_cell M o c' l'
  have hll : l = l' := by rw [h] at h1; omega
  subst hll
  refine ⟨?_, rfl⟩
  have := congrArg Prod.snd h
  simp only [cellOf] at this
  omega

theorem tips_cellmap_injective (M o c l c' l' : Int)
    (h : cellOf .tips M o c l = cellOf .tips M o c' l') : c = c' ∧ l = l' := by
  have h1 := congrArg Prod.fst h
  have h2 := congrArg Prod.snd h
  simp only [cellOf, tipsBase] at h1 h2
  omega

theorem cart_cellmap_injective (M o c l c' l' : Int)
    (h : cellOf .cart M o c l = cellOf .cart M o c' l') : c = c' ∧ l = l' := by
  simp only [cellOf, Prod.mk.injEq] at h; exact h

/-- explicit inverse of the tips-up cell map: column `i + M`, line `M - i - j` (from the top) -/
theorem tips_cell_inverse (M o i j : Int) : cellOf .tips M o (i + M) (M - i - j) = (i, j) := by
  simp only [cellOf, tipsBase, Prod.mk.injEq]; omega

theorem get?_put_same (m : Labels) (k : Cell) (v : String) : get? (put m k v) k = some v := by
  unfold put
  split
  · rename_i h
    induction m with
    | nil => simp at h
    | cons p m ih =>
      simp only [List.map_cons, get?, List.find?_cons]
      by_cases hp : p.1 = k
      · simp [hp]
      · have hb : (p.1 == k) = false := by simpa using hp
        simp only [hb, Bool.false_eq_true, ↓reduceIte]
        have : m.any (fun p => p.1 == k) = true := by simpa [List.any_cons, hb] using h
        exact ih this
  · rename_i h
    simp only [get?, List.find?_append]
    have : m.find? (fun p => p.1 == k) = none := by
      rw [List.find?_eq_none]; intro p hp hc
      exact h (List.any_eq_true.mpr ⟨p, hp, hc⟩)
    simp [this]

private theorem get?_replace_other (m : Labels) (k k' : Cell) (v : String) (h : k' ≠ k) :
    get? (m.map (fun p => if p.1 == k then (k, v) else p)) k' = get? m k' := by
  induction m with
  | nil => rfl
  | cons p m ih =>
    simp only [List.map_cons, get?, List.find?_cons] at ih ⊢
    have hk : (k == k') = false := by simpa using fun hc => h hc.symm
    by_cases hp : p.1 = k
    · have hb : (p.1 == k) = true := by simpa using hp
      have hk2 : (p.1 == k') = false := by rw [hp]; exact hk
      simp only [hb, ↓reduceIte, hk, hk2]
      exact ih
    · have hb : (p.1 == k) = false := by simpa using hp
      simp only [hb, Bool.false_eq_true, ↓reduceIte]
      cases hq : (p.1 == k')
      · simpa using ih
      · simp

theorem get?_put_other (m : Labels) (k k' : Cell) (v : String) (h : k' ≠ k) :
    get? (put m k v) k' = get? m k' := by
  unfold put
  split
  · exact get?_replace_other m k k' v h
  · simp only [get?, List.find?_append]
    have hk : (k == k') = false := by simpa using fun hc => h hc.symm
    cases hf : m.find? (fun p => p.1 == k') <;> simp [hk]


private theorem mem_takeWhile_true {α} (p : α → Bool) : ∀ (l : List α) (x : α), x ∈ l.takeWhile p → p x = true := by
  intro l
  induction l with
  | nil => intro x h; simp at h
  | cons a l ih =>
    intro x h
    simp only [List.takeWhile_cons] at h
    by_cases ha : p a = true
    · simp only [ha, ↓reduceIte, List.mem_cons] at h
      rcases h with rfl | h
      · exact ha
      · exact ih x h
    · simp [ha] at h

theorem removeTrailing_spec (row : List String) :
    ∃ suf, row = removeTrailing row ++ suf ∧ ∀ t ∈ suf, t = PLACEHOLDER := by
  refine ⟨(row.reverse.takeWhile (· == PLACEHOLDER)).reverse, ?_, ?_⟩
  · unfold removeTrailing
    rw [← List.reverse_append, List.takeWhile_append_dropWhile, List.reverse_reverse]
  · intro t ht
    have := mem_takeWhile_true _ _ _ (List.mem_reverse.mp ht)
    simpa using this

/-- enumerate from `s` -/
private def enumFrom (s : Nat) : List α → List (Int × α)
  | [] => []
  | x :: xs => ((s : Int), x) :: enumFrom (s + 1) xs

private theorem enum_eq_enumFrom (l : List α) : enum l = enumFrom 0 l := by
  unfold enum
  suffices h : ∀ s, ((List.range' s l.length).map Int.ofNat).zip l = enumFrom s l by
    rw [List.range_eq_range']; exact h 0
  induction l with
  | nil => intro s; rfl
  | cons x xs ih =>
    intro s
    simp only [List.length_cons, List.range'_succ, List.map_cons, List.zip_cons_cons, enumFrom]
    rw [ih (s + 1)]
    rfl

/-- one text line read into the labels: tokens land at `(s + position, li)`, everything else is kept -/
private theorem inner_spec (li : Int) : ∀ (toks : List String) (s : Nat) (acc : Labels) (c l : Int),
    get? ((enumFrom s toks).foldl (fun a (ct : Int × String) => put a (ct.1, li) ct.2) acc) (c, l) =
      if l = li ∧ (s : Int) ≤ c ∧ c < s + toks.length then toks[(c - s).toNat]? else get? acc (c, l) := by
  intro toks
  induction toks with
  | nil => intro s acc c l; simp [enumFrom]; omega
  | cons t ts ih =>
    intro s acc c l
    simp only [enumFrom, List.foldl_cons]
    rw [ih (s + 1)]
    by_cases h1 : l = li ∧ ((s + 1 : Nat) : Int) ≤ c ∧ c < ((s + 1 : Nat) : Int) + ts.length
    · have h2 : l = li ∧ (s : Int) ≤ c ∧ c < s + (t :: ts).length := by
        simp only [List.length_cons]; omega
      rw [if_pos h1, if_pos h2]
      have : (c - s).toNat = (c - ((s + 1 : Nat) : Int)).toNat + 1 := by omega
      rw [this, List.getElem?_cons_succ]
    · rw [if_neg h1]
      by_cases h3 : (c, l) = ((s : Int), li)
      · have hc : c = s := congrArg Prod.fst h3
        have hl : l = li := congrArg Prod.snd h3
        have h2 : l = li ∧ (s : Int) ≤ c ∧ c < s + (t :: ts).length := by
          simp only [List.length_cons]; omega
        rw [if_pos h2, h3, get?_put_same]
        simp [hc]
      · rw [get?_put_other _ _ _ _ h3]
        have h2 : ¬ (l = li ∧ (s : Int) ≤ c ∧ c < s + (t :: ts).length) := by
          simp only [List.length_cons]
          intro h
          apply h3
          have : c = s := by omega
          rw [this, h.1]
        rw [if_neg h2]


/-- token at column `c` of the row that is `l - s` rows into `rows` -/
def rowsLookup (rows : List (List String)) (s : Nat) (c l : Int) : Option String :=
  if (s : Int) ≤ l ∧ 0 ≤ c then (rows[(l - s).toNat]?).bind (fun row => row[c.toNat]?) else none

private theorem inner_spec' (li : Int) (toks : List String) (acc : Labels) (c l : Int) :
    get? ((enum toks).foldl (fun a (ct : Int × String) => put a (ct.1, li) ct.2) acc) (c, l) =
      if l = li ∧ 0 ≤ c then (toks[c.toNat]?).or (get? acc (c, l)) else get? acc (c, l) := by
  rw [enum_eq_enumFrom, inner_spec li toks 0 acc c l]
  by_cases h : l = li ∧ 0 ≤ c
  · rw [if_pos h]
    by_cases h2 : c < toks.length
    · have : l = li ∧ ((0 : Nat) : Int) ≤ c ∧ c < ((0 : Nat) : Int) + toks.length := by omega
      rw [if_pos this]
      have hlt : c.toNat < toks.length := by omega
      simp [List.getElem?_eq_getElem hlt]
    · have : ¬ (l = li ∧ ((0 : Nat) : Int) ≤ c ∧ c < ((0 : Nat) : Int) + toks.length) := by omega
      rw [if_neg this]
      have hge : toks.length ≤ c.toNat := by omega
      simp [List.getElem?_eq_none hge]
  · rw [if_neg h]
    have : ¬ (l = li ∧ ((0 : Nat) : Int) ≤ c ∧ c < ((0 : Nat) : Int) + toks.length) := by omega
    rw [if_neg this]

private theorem outer_spec : ∀ (rows : List (List String)) (s : Nat) (acc : Labels) (c l : Int),
    get? ((enumFrom s rows).foldl (fun acc (ll : Int × List String) =>
        (enum ll.2).foldl (fun a (ct : Int × String) => put a (ct.1, ll.1) ct.2) acc) acc) (c, l) =
      (rowsLookup rows s c l).or (get? acc (c, l)) := by
  intro rows
  induction rows with
  | nil => intro s acc c l; simp [enumFrom, rowsLookup]
  | cons row rows ih =>
    intro s acc c l
    simp only [enumFrom, List.foldl_cons]
    rw [ih (s + 1), inner_spec']
    unfold rowsLookup
    by_cases hc : 0 ≤ c
    · by_cases hl : l = (s : Int)
      · -- the head row
        have h1 : ¬ (((s + 1 : Nat) : Int) ≤ l ∧ 0 ≤ c) := by omega
        have h2 : (s : Int) ≤ l ∧ 0 ≤ c := by omega
        have h3 : (l - (s : Int)).toNat = 0 := by omega
        rw [if_neg h1, if_pos h2, if_pos ⟨hl, hc⟩, h3]
        simp
      · by_cases hgt : ((s + 1 : Nat) : Int) ≤ l
        · have h2 : (s : Int) ≤ l ∧ 0 ≤ c := by omega
          have h3 : (l - (s : Int)).toNat = (l - ((s + 1 : Nat) : Int)).toNat + 1 := by omega
          have h4 : ¬ (l = (s : Int) ∧ 0 ≤ c) := fun h => hl h.1
          rw [if_pos ⟨hgt, hc⟩, if_pos h2, if_neg h4, h3, List.getElem?_cons_succ]
        · have h1 : ¬ (((s + 1 : Nat) : Int) ≤ l ∧ 0 ≤ c) := fun h => hgt h.1
          have h2 : ¬ ((s : Int) ≤ l ∧ 0 ≤ c) := by omega
          have h4 : ¬ (l = (s : Int) ∧ 0 ≤ c) := fun h => hl h.1
          rw [if_neg h1, if_neg h2, if_neg h4]
    · have h1 : ¬ (((s + 1 : Nat) : Int) ≤ l ∧ 0 ≤ c) := fun h => hc h.2
      have h2 : ¬ ((s : Int) ≤ l ∧ 0 ≤ c) := fun h => hc h.2
      have h4 : ¬ (l = (s : Int) ∧ 0 ≤ c) := fun h => hc h.2
      rw [if_neg h1, if_neg h2, if_neg h4]

/-- **the Cartesian reader, exactly**: the label at grid index `(c, l)` is the `c`-th token of the `l`-th
text line counted from the bottom — for every text and every index. -/
theorem cart_read_exact (M o : Int) (lines : List (List String)) (c l : Int) :
    get? (readLabels .cart M o lines) (c, l) = rowsLookup lines.reverse 0 c l := by
  unfold readLabels
  have hk : (Kind.cart = Kind.tips) = False := by simp
  simp only [hk, ↓reduceIte, cellOf]
  rw [enum_eq_enumFrom, outer_spec]
  simp [get?]


private theorem foldl_max_ge : ∀ (xs : List Int) (a : Int),
    a ≤ xs.foldl max a ∧ ∀ y ∈ xs, y ≤ xs.foldl max a := by
  intro xs
  induction xs with
  | nil => intro a; simp
  | cons x xs ih =>
    intro a
    simp only [List.foldl_cons]
    obtain ⟨h1, h2⟩ := ih (max a x)
    refine ⟨by omega, ?_⟩
    intro y hy
    rcases List.mem_cons.mp hy with rfl | hy
    · omega
    · exact h2 y hy

private theorem maxD_ge (d : Int) (l : List Int) (x : Int) (h : x ∈ l) : x ≤ maxD d l := by
  cases l with
  | nil => cases h
  | cons a as =>
    simp only [maxD]
    obtain ⟨h1, h2⟩ := foldl_max_ge as a
    rcases List.mem_cons.mp h with rfl | h
    · exact h1
    · exact h2 x h

private theorem foldl_min_le : ∀ (xs : List Int) (a : Int),
    xs.foldl min a ≤ a ∧ ∀ y ∈ xs, xs.foldl min a ≤ y := by
  intro xs
  induction xs with
  | nil => intro a; simp
  | cons x xs ih =>
    intro a
    simp only [List.foldl_cons]
    obtain ⟨h1, h2⟩ := ih (min a x)
    refine ⟨by omega, ?_⟩
    intro y hy
    rcases List.mem_cons.mp hy with rfl | hy
    · omega
    · exact h2 y hy

private theorem minD_le (d : Int) (l : List Int) (x : Int) (h : x ∈ l) : minD d l ≤ x := by
  cases l with
  | nil => cases h
  | cons a as =>
    simp only [minD]
    obtain ⟨h1, h2⟩ := foldl_min_le as a
    rcases List.mem_cons.mp h with rfl | h
    · exact h1
    · exact h2 x h

private theorem get?_some_mem (L : Labels) (cell : Cell) (v : String) (h : get? L cell = some v) :
    (cell, v) ∈ L := by
  unfold get? at h
  cases hf : L.find? (fun p => p.1 == cell) with
  | none => simp [hf] at h
  | some q =>
    simp only [hf, Option.map_some, Option.some.injEq] at h
    have h1 := List.mem_of_find?_eq_some hf
    have h2 : q.1 = cell := by simpa using List.find?_some hf
    have : q = (cell, v) := by rw [← h2, ← h]
    rw [← this]; exact h1

private theorem pyRange_get (H : Int) (i : Nat) :
    (pyRange H)[i]? = if (i : Int) < H then some (i : Int) else none := by
  unfold pyRange
  by_cases h : (i : Int) < H
  · have : i < H.toNat := by omega
    simp [h]
  · have : H.toNat ≤ i := by omega
    simp [h]

private theorem pyRange_length (H : Int) : (pyRange H).length = H.toNat := by simp [pyRange]

/-- the cleaning loop: some leading rows, all of them placeholder rows, are dropped; every remaining row
is kept with its trailing placeholders removed, and none of them was wiped out -/
private theorem cleanLines_false : ∀ (ls : List (List String)) (acc r : List (List String)),
    cleanLines ls false acc = some r →
      r = acc ++ ls.map removeTrailing ∧ ∀ row ∈ ls, removeTrailing row ≠ [] := by
  intro ls
  induction ls with
  | nil => intro acc r h; simp [cleanLines] at h; simp [h]
  | cons row rest ih =>
    intro acc r h
    simp only [cleanLines, Bool.and_false, Bool.false_eq_true, ↓reduceIte] at h
    by_cases he : (removeTrailing row).isEmpty = true
    · simp [he] at h
    · simp only [he, Bool.false_eq_true, ↓reduceIte] at h
      obtain ⟨h1, h2⟩ := ih _ r h
      refine ⟨by simp [h1], ?_⟩
      intro x hx
      rcases List.mem_cons.mp hx with rfl | hx
      · intro hc; apply he; simp [hc]
      · exact h2 x hx

private theorem cleanLines_true : ∀ (ls : List (List String)) (r : List (List String)),
    cleanLines ls true [] = some r →
      ∃ k, k ≤ ls.length ∧ (∀ row ∈ ls.take k, rowAllDash row = true) ∧
        r = (ls.drop k).map removeTrailing ∧ ∀ row ∈ ls.drop k, removeTrailing row ≠ [] := by
  intro ls
  induction ls with
  | nil => intro r h; simp [cleanLines] at h; exact ⟨0, by simp, by simp, by simp [h], by simp⟩
  | cons row rest ih =>
    intro r h
    simp only [cleanLines, Bool.and_true] at h
    by_cases hd : rowAllDash row = true
    · simp only [hd, ↓reduceIte] at h
      obtain ⟨k, hk, h1, h2, h3⟩ := ih r h
      refine ⟨k + 1, by simp; omega, ?_, by simpa using h2, by simpa using h3⟩
      intro x hx
      simp only [List.take_succ_cons, List.mem_cons] at hx
      rcases hx with rfl | hx
      · exact hd
      · exact h1 x hx
    · simp only [hd, Bool.false_eq_true, ↓reduceIte] at h
      by_cases he : (removeTrailing row).isEmpty = true
      · simp [he] at h
      · simp only [he, Bool.false_eq_true, ↓reduceIte] at h
        obtain ⟨h1, h2⟩ := cleanLines_false rest _ r h
        refine ⟨0, by simp, by simp, by simp [h1], ?_⟩
        intro x hx
        simp only [List.drop_zero] at hx
        rcases List.mem_cons.mp hx with rfl | hx
        · intro hc; apply he; simp [hc]
        · exact h2 x hx


theorem readAscii_labels (k : Kind) (lines : List (List String)) (m : AMap) (h : readAscii k lines = some m) :
    m.labels = readLabels k (readerDims k lines).1 (readerDims k lines).2 lines := by
  unfold readAscii at h
  split at h
  · cases h
  · simp only [] at h
    split at h
    · cases h
    · simp only [Option.some.injEq] at h
      rw [← h]

theorem readAscii_some (k : Kind) (lines : List (List String)) (h1 : lines.isEmpty = false)
    (h2 : (readLabels k (readerDims k lines).1 (readerDims k lines).2 lines).isEmpty = false) :
    ∃ m, readAscii k lines = some m ∧
      m.labels = readLabels k (readerDims k lines).1 (readerDims k lines).2 lines := by
  unfold readAscii
  simp only [h1, Bool.false_eq_true, ↓reduceIte, h2]
  exact ⟨_, rfl, rfl⟩

/-- a label that is real data: non-empty, free of blanks (so the writer's blank removal keeps it), not the
placeholder and not a run of dashes (which the writer's regex takes for placeholders) -/
def IsData (v : String) : Prop :=
  v.isEmpty = false ∧ stripBlanks v = v ∧ v ≠ PLACEHOLDER ∧ v.toList.all (· == '-') = false

private theorem prefix_get {α} (pre suf : List α) (i : Nat) (t : α) (h : pre[i]? = some t) :
    (pre ++ suf)[i]? = some t := by
  rcases Nat.lt_or_ge i pre.length with hi | hi
  · rw [List.getElem?_append_left hi]; exact h
  · rw [List.getElem?_eq_none hi] at h; cases h

private theorem suffix_mem {α} (pre suf : List α) (i : Nat) (t : α) (hi : pre.length ≤ i)
    (h : (pre ++ suf)[i]? = some t) : t ∈ suf := by
  rw [List.getElem?_append_right hi] at h
  exact List.mem_of_getElem? h

/-- **Cartesian maps: what the writer draws reads back to the contents** (`write_sound` for Cartesian maps, full
strength since the writer refuses every index set that does not start at (0, 0)). If `gridContentsToAscii` does
not refuse, reading the drawn lines again gives, at every grid index, exactly the label the contents hold there
(a placeholder or nothing where they hold none): drawn completely or refused. -/
theorem cart_write_read_id (L : Labels) (m : AMap)
    (hdata : ∀ p ∈ L, IsData p.2)
    (hw : gridContentsToAscii .cart L = some m) :
    ∃ m', readAscii .cart m.lines = some m' ∧
      ∀ cell, (get? m'.labels cell).filter (· != PLACEHOLDER) = get? L cell := by
  -- unfold the writer
  unfold gridContentsToAscii at hw
  cases hdim : dimsFromData .cart L with
  | none => simp [hdim] at hw
  | some dims =>
    obtain ⟨M, o, W, H⟩ := dims
    simp only [hdim] at hw
    have hk : (Kind.cart = Kind.tips) = False := by simp
    simp only [hk, ↓reduceIte] at hw
    -- the dimensions
    unfold dimsFromData at hdim
    by_cases hLe : L.isEmpty = true
    · simp [hLe] at hdim
    simp only [hLe, Bool.false_eq_true, ↓reduceIte] at hdim
    split at hdim
    · cases hdim
    rename_i hmin
    simp only [Option.some.injEq, Prod.mk.injEq] at hdim
    obtain ⟨_, ho, hW, hH⟩ := hdim
    -- not refused: the indices start at (0, 0), so none is negative
    have hpos : ∀ p ∈ L, 0 ≤ p.1.1 ∧ 0 ≤ p.1.2 := by
      intro p hp
      have h1 := minD_le 0 ((L.map (·.1)).map (·.1)) p.1.1 (List.mem_map.mpr ⟨p.1, List.mem_map.mpr ⟨p, hp, rfl⟩, rfl⟩)
      have h2 := minD_le 0 ((L.map (·.1)).map (·.2)) p.1.2 (List.mem_map.mpr ⟨p.1, List.mem_map.mpr ⟨p, hp, rfl⟩, rfl⟩)
      have h3 : minD 0 ((L.map (·.1)).map (·.1)) = 0 ∧ minD 0 ((L.map (·.1)).map (·.2)) = 0 := by
        constructor
        · exact Decidable.byContradiction (fun h => hmin (Or.inl h))
        · exact Decidable.byContradiction (fun h => hmin (Or.inr h))
      omega
    have hbW : ∀ p ∈ L, p.1.1 < W := by
      intro p hp
      have := maxD_ge 0 ((L.map (·.1)).map (·.1)) p.1.1 (List.mem_map.mpr ⟨p.1, List.mem_map.mpr ⟨p, hp, rfl⟩, rfl⟩)
      omega
    have hbH : ∀ p ∈ L, p.1.2 < H := by
      intro p hp
      have := maxD_ge 0 ((L.map (·.1)).map (·.2)) p.1.2 (List.mem_map.mpr ⟨p.1, List.mem_map.mpr ⟨p, hp, rfl⟩, rfl⟩)
      omega
    -- the cleaning loop
    generalize hl0 : ((pyRange H).reverse.map (fun ln => (pyRange W).map (fun c => tokenAt L (cellOf .cart M o c ln)))) = lines0 at hw
    cases hcl : cleanLines lines0 true [] with
    | none => simp [hcl] at hw
    | some r =>
      simp only [hcl] at hw
      by_cases hre : r.isEmpty = true
      · simp [hre] at hw
      simp only [hre, Bool.false_eq_true, ↓reduceIte, Option.some.injEq] at hw
      have hml : m.lines = r := by rw [← hw]
      obtain ⟨k, hkl, hdash, hr, hne⟩ := cleanLines_true lines0 r hcl
      -- rows from the bottom
      let row : Int → List String := fun ln => (pyRange W).map (fun c => tokenAt L (c, ln))
      have hrows : lines0.reverse = (pyRange H).map row := by
        rw [← hl0, ← List.map_reverse, List.reverse_reverse]; rfl
      have hlen0 : lines0.length = H.toNat := by rw [← hl0]; simp [pyRange_length]
      have hrrev : r.reverse = (((pyRange H).map row).take (H.toNat - k)).map removeTrailing := by
        rw [hr, ← List.map_reverse, List.reverse_drop, hrows, hlen0]
      -- a row, column by column
      have hrowget : ∀ (ln : Int) (c : Nat), (row ln)[c]? = if (c : Int) < W then some (tokenAt L ((c : Int), ln)) else none := by
        intro ln c
        simp only [row, List.getElem?_map, pyRange_get]
        split <;> simp
      -- the lookup of the re-read text
      have hlook : ∀ (c l : Int), rowsLookup r.reverse 0 c l =
          if 0 ≤ l ∧ 0 ≤ c ∧ l.toNat < H.toNat - k then (removeTrailing (row l))[c.toNat]? else none := by
        intro c l
        unfold rowsLookup
        rw [hrrev]
        by_cases h1 : 0 ≤ l ∧ 0 ≤ c
        · have h1' : ((0 : Nat) : Int) ≤ l ∧ 0 ≤ c := by omega
          rw [if_pos h1']
          have hsub : (l - ((0 : Nat) : Int)).toNat = l.toNat := by omega
          rw [hsub, List.getElem?_map, List.getElem?_take]
          by_cases h2 : l.toNat < H.toNat - k
          · have h3 : 0 ≤ l ∧ 0 ≤ c ∧ l.toNat < H.toNat - k := ⟨h1.1, h1.2, h2⟩
            rw [if_pos h3, if_pos h2, List.getElem?_map, pyRange_get]
            have h4 : ((l.toNat : Nat) : Int) < H := by omega
            have h5 : ((l.toNat : Nat) : Int) = l := by omega
            have h6 : l < H := by omega
            simp [h5, h6]
          · have h3 : ¬ (0 ≤ l ∧ 0 ≤ c ∧ l.toNat < H.toNat - k) := fun h => h2 h.2.2
            rw [if_neg h3, if_neg h2]; rfl
        · have h1' : ¬ (((0 : Nat) : Int) ≤ l ∧ 0 ≤ c) := by omega
          have h3 : ¬ (0 ≤ l ∧ 0 ≤ c ∧ l.toNat < H.toNat - k) := fun h => h1 ⟨h.1, h.2.1⟩
          rw [if_neg h1', if_neg h3]
      -- the reader succeeds
      have hrne : r ≠ [] := by intro hc; apply hre; simp [hc]
      have hrowne : ∀ x ∈ r, x ≠ [] := by
        intro x hx
        rw [hr] at hx
        obtain ⟨y, hy, rfl⟩ := List.mem_map.mp hx
        exact hne y hy
      -- the reader succeeds on the drawn lines
      have hlab : ∀ c l, get? (readLabels .cart 0 0 r) (c, l) =
          if 0 ≤ l ∧ 0 ≤ c ∧ l.toNat < H.toNat - k then (removeTrailing (row l))[c.toNat]? else none := by
        intro c l; rw [cart_read_exact, hlook]
      have hnonempty : (readLabels .cart 0 0 r).isEmpty = false := by
        cases hrl : readLabels .cart 0 0 r with
        | cons _ _ => rfl
        | nil =>
          exfalso
          have h00 := cart_read_exact 0 0 r 0 0
          rw [hrl] at h00
          simp only [get?, List.find?_nil, Option.map_none, rowsLookup] at h00
          cases hrr : r.reverse with
          | nil => exact hrne (by simpa using hrr)
          | cons x xs =>
            have hx : x ∈ r := by rw [← List.mem_reverse, hrr]; exact List.mem_cons_self
            have hxne := hrowne x hx
            cases x with
            | nil => exact hxne rfl
            | cons t ts => simp [hrr] at h00
      have hread : ∃ m', readAscii .cart r = some m' ∧ m'.labels = readLabels .cart 0 0 r :=
        readAscii_some .cart r (by simpa using hre) hnonempty
      obtain ⟨m', hm1, hm2⟩ := hread
      refine ⟨m', by rw [hml]; exact hm1, ?_⟩
      · intro cell
        obtain ⟨c, l⟩ := cell
        rw [hm2, hlab]
        cases hg : get? L (c, l) with
        | some v =>
          -- the contents hold a label there: it is drawn and read back
          have hmem := get?_some_mem L (c, l) v hg
          obtain ⟨hc0, hl0'⟩ := hpos _ hmem
          have hcW := hbW _ hmem
          have hlH := hbH _ hmem
          obtain ⟨_, hrep, hnp, hnd⟩ := hdata _ hmem
          simp only at hc0 hl0' hcW hlH hrep hnp hnd
          have htok : tokenAt L (c, l) = v := by simp [tokenAt, hg, hrep]
          have hcn : ((c.toNat : Nat) : Int) = c := by omega
          have hrowc : (row l)[c.toNat]? = some v := by
            rw [hrowget, hcn, if_pos hcW, htok]
          have hvrow : v ∈ row l := List.mem_of_getElem? hrowc
          -- the row was not dropped
          have hkept : l.toNat < H.toNat - k := by
            rcases Nat.lt_or_ge l.toNat (H.toNat - k) with h | h
            · exact h
            · exfalso
              -- row l is one of the first k rows of lines0
              have hidx : lines0[H.toNat - 1 - l.toNat]? = some (row l) := by
                have h1 : lines0.reverse[l.toNat]? = some (row l) := by
                  rw [hrows, List.getElem?_map, pyRange_get]
                  have h5 : ((l.toNat : Nat) : Int) = l := by omega
                  simp [h5, hlH]
                have hlt : l.toNat < lines0.length := by omega
                rw [List.getElem?_reverse hlt] at h1
                rw [hlen0] at h1
                exact h1
              have hin : row l ∈ lines0.take k := by
                have : (lines0.take k)[H.toNat - 1 - l.toNat]? = some (row l) := by
                  rw [List.getElem?_take, if_pos (by omega)]; exact hidx
                exact List.mem_of_getElem? this
              have hd := hdash _ hin
              unfold rowAllDash at hd
              simp only [Bool.and_eq_true] at hd
              have hall := List.all_eq_true.mp hd.2 v hvrow
              rw [hnd] at hall; cases hall
          -- and it is not among the trailing placeholders
          obtain ⟨suf, hsplit, hsuf⟩ := removeTrailing_spec (row l)
          have hin : c.toNat < (removeTrailing (row l)).length := by
            rcases Nat.lt_or_ge c.toNat (removeTrailing (row l)).length with h | h
            · exact h
            · exfalso
              have : (removeTrailing (row l) ++ suf)[c.toNat]? = some v := by rw [← hsplit]; exact hrowc
              exact hnp (hsuf v (suffix_mem _ _ _ _ h this))
          have hget : (removeTrailing (row l))[c.toNat]? = some v := by
            have h1 : (removeTrailing (row l) ++ suf)[c.toNat]? = some v := by rw [← hsplit]; exact hrowc
            rwa [List.getElem?_append_left hin] at h1
          rw [if_pos ⟨hl0', hc0, hkept⟩, hget]
          have : (v != PLACEHOLDER) = true := by simpa using hnp
          simp [Option.filter, this]
        | none =>
          -- nothing there: whatever is read back is a placeholder
          by_cases hcond : 0 ≤ l ∧ 0 ≤ c ∧ l.toNat < H.toNat - k
          · rw [if_pos hcond]
            cases hx : (removeTrailing (row l))[c.toNat]? with
            | none => rfl
            | some t =>
              obtain ⟨suf, hsplit, _⟩ := removeTrailing_spec (row l)
              have h1 : (row l)[c.toNat]? = some t := by rw [hsplit]; exact prefix_get _ _ _ _ hx
              rw [hrowget] at h1
              have hcn : ((c.toNat : Nat) : Int) = c := by omega
              rw [hcn] at h1
              split at h1
              · simp only [Option.some.injEq] at h1
                have : t = PLACEHOLDER := by rw [← h1]; simp [tokenAt, hg]
                subst this
                simp [Option.filter]
              · cases h1
          · rw [if_neg hcond]; rfl



/-- enumerate from `s` (local copy) -/
private def enumFrom' (s : Nat) : List α → List (Int × α)
  | [] => []
  | x :: xs => ((s : Int), x) :: enumFrom' (s + 1) xs

private theorem enum_eq_enumFrom' (l : List α) : enum l = enumFrom' 0 l := by
  unfold enum
  suffices h : ∀ s, ((List.range' s l.length).map Int.ofNat).zip l = enumFrom' s l by
    rw [List.range_eq_range']; exact h 0
  induction l with
  | nil => intro s; rfl
  | cons x xs ih =>
    intro s
    simp only [List.length_cons, List.range'_succ, List.map_cons, List.zip_cons_cons, enumFrom']
    rw [ih (s + 1)]
    rfl

/-- a key function that never sends two text positions (with non-negative line numbers) to one index -/
def KeyInjective (key : Int → Int → Cell) : Prop :=
  ∀ c l c' l', 0 ≤ l → 0 ≤ l' → key c l = key c' l' → c = c' ∧ l = l'

private theorem inner_gen (key : Int → Int → Cell) (hinj : KeyInjective key) (li : Int) (hli : 0 ≤ li) :
    ∀ (toks : List String) (s : Nat) (acc : Labels) (c l : Int), 0 ≤ l →
    get? ((enumFrom' s toks).foldl (fun a (ct : Int × String) => put a (key ct.1 li) ct.2) acc) (key c l) =
      if l = li ∧ (s : Int) ≤ c ∧ c < s + toks.length then toks[(c - s).toNat]? else get? acc (key c l) := by
  intro toks
  induction toks with
  | nil => intro s acc c l _; simp [enumFrom']; omega
  | cons t ts ih =>
    intro s acc c l hl
    simp only [enumFrom', List.foldl_cons]
    rw [ih (s + 1) _ c l hl]
    by_cases h1 : l = li ∧ ((s + 1 : Nat) : Int) ≤ c ∧ c < ((s + 1 : Nat) : Int) + ts.length
    · have h2 : l = li ∧ (s : Int) ≤ c ∧ c < s + (t :: ts).length := by
        simp only [List.length_cons]; omega
      rw [if_pos h1, if_pos h2]
      have : (c - s).toNat = (c - ((s + 1 : Nat) : Int)).toNat + 1 := by omega
      rw [this, List.getElem?_cons_succ]
    · rw [if_neg h1]
      by_cases h3 : key c l = key (s : Int) li
      · obtain ⟨hc, hl'⟩ := hinj c l s li hl hli h3
        have h2 : l = li ∧ (s : Int) ≤ c ∧ c < s + (t :: ts).length := by
          simp only [List.length_cons]; omega
        rw [if_pos h2, h3, get?_put_same]
        simp [hc]
      · rw [get?_put_other _ _ _ _ h3]
        have h2 : ¬ (l = li ∧ (s : Int) ≤ c ∧ c < s + (t :: ts).length) := by
          simp only [List.length_cons]
          intro h
          apply h3
          have : c = s := by omega
          rw [this, h.1]
        rw [if_neg h2]

private theorem inner_gen' (key : Int → Int → Cell) (hinj : KeyInjective key) (li : Int) (hli : 0 ≤ li)
    (toks : List String) (acc : Labels) (c l : Int) (hl : 0 ≤ l) :
    get? ((enum toks).foldl (fun a (ct : Int × String) => put a (key ct.1 li) ct.2) acc) (key c l) =
      if l = li ∧ 0 ≤ c then (toks[c.toNat]?).or (get? acc (key c l)) else get? acc (key c l) := by
  rw [enum_eq_enumFrom', inner_gen key hinj li hli toks 0 acc c l hl]
  by_cases h : l = li ∧ 0 ≤ c
  · rw [if_pos h]
    by_cases h2 : c < toks.length
    · have : l = li ∧ ((0 : Nat) : Int) ≤ c ∧ c < ((0 : Nat) : Int) + toks.length := by omega
      rw [if_pos this]
      have hlt : c.toNat < toks.length := by omega
      simp [List.getElem?_eq_getElem hlt]
    · have : ¬ (l = li ∧ ((0 : Nat) : Int) ≤ c ∧ c < ((0 : Nat) : Int) + toks.length) := by omega
      rw [if_neg this]
      have hge : toks.length ≤ c.toNat := by omega
      simp [List.getElem?_eq_none hge]
  · rw [if_neg h]
    have : ¬ (l = li ∧ ((0 : Nat) : Int) ≤ c ∧ c < ((0 : Nat) : Int) + toks.length) := by omega
    rw [if_neg this]

private theorem outer_gen (key : Int → Int → Cell) (hinj : KeyInjective key) :
    ∀ (rows : List (List String)) (s : Nat) (acc : Labels) (c l : Int), 0 ≤ l →
    get? ((enumFrom' s rows).foldl (fun acc (ll : Int × List String) =>
        (enum ll.2).foldl (fun a (ct : Int × String) => put a (key ct.1 ll.1) ct.2) acc) acc) (key c l) =
      (rowsLookup rows s c l).or (get? acc (key c l)) := by
  intro rows
  induction rows with
  | nil => intro s acc c l _; simp [enumFrom', rowsLookup]
  | cons row rows ih =>
    intro s acc c l hl0
    simp only [enumFrom', List.foldl_cons]
    rw [ih (s + 1) _ c l hl0, inner_gen' key hinj (s : Int) (by omega) row acc c l hl0]
    unfold rowsLookup
    by_cases hc : 0 ≤ c
    · by_cases hl : l = (s : Int)
      · have h1 : ¬ (((s + 1 : Nat) : Int) ≤ l ∧ 0 ≤ c) := by omega
        have h2 : (s : Int) ≤ l ∧ 0 ≤ c := by omega
        have h3 : (l - (s : Int)).toNat = 0 := by omega
        rw [if_neg h1, if_pos h2, if_pos ⟨hl, hc⟩, h3]
        simp
      · by_cases hgt : ((s + 1 : Nat) : Int) ≤ l
        · have h2 : (s : Int) ≤ l ∧ 0 ≤ c := by omega
          have h3 : (l - (s : Int)).toNat = (l - ((s + 1 : Nat) : Int)).toNat + 1 := by omega
          have h4 : ¬ (l = (s : Int) ∧ 0 ≤ c) := fun h => hl h.1
          rw [if_pos ⟨hgt, hc⟩, if_pos h2, if_neg h4, h3, List.getElem?_cons_succ]
        · have h1 : ¬ (((s + 1 : Nat) : Int) ≤ l ∧ 0 ≤ c) := fun h => hgt h.1
          have h2 : ¬ ((s : Int) ≤ l ∧ 0 ≤ c) := by omega
          have h4 : ¬ (l = (s : Int) ∧ 0 ≤ c) := fun h => hl h.1
          rw [if_neg h1, if_neg h2, if_neg h4]
    · have h1 : ¬ (((s + 1 : Nat) : Int) ≤ l ∧ 0 ≤ c) := fun h => hc h.2
      have h2 : ¬ ((s : Int) ≤ l ∧ 0 ≤ c) := fun h => hc h.2
      have h4 : ¬ (l = (s : Int) ∧ 0 ≤ c) := fun h => hc h.2
      rw [if_neg h1, if_neg h2, if_neg h4]

/-- the cell map of every class is injective on text positions with non-negative line numbers -/
theorem cellOf_keyInjective (k : Kind) (M o : Int) : KeyInjective (cellOf k M o) := by
  intro c l c' l' hl hl' h
  cases k with
  | cart => exact cart_cellmap_injective M o c l c' l' h
  | third => exact third_cellmap_injective M o c l c' l' hl hl' h
  | full => exact full_cellmap_injective M o c l c' l' h
  | tips => exact tips_cellmap_injective M o c l c' l' h

/-- **reading loses no token, in every geometry**: for each class and every text, the label stored at the
grid index computed for text position (column `c`, line `l` in reading order: from the bottom, tips-up maps
from the top) is exactly the token at that position — tokens never overwrite one another. -/
theorem read_keeps_every_token (k : Kind) (M o : Int) (lines : List (List String)) (c l : Int) (hl : 0 ≤ l) :
    get? (readLabels k M o lines) (cellOf k M o c l) =
      rowsLookup (if k = .tips then lines else lines.reverse) 0 c l := by
  unfold readLabels
  simp only []
  rw [enum_eq_enumFrom', outer_gen (cellOf k M o) (cellOf_keyInjective k M o) _ 0 [] c l hl]
  simp [get?]



private theorem put_mem (m : Labels) (k : Cell) (v : String) (q : Cell × String) (h : q ∈ put m k v) :
    q ∈ m ∨ q = (k, v) := by
  unfold put at h
  split at h
  · obtain ⟨p, hp, rfl⟩ := List.mem_map.mp h
    by_cases hk : (p.1 == k) = true
    · right; simp [hk]
    · left; simpa [hk] using hp
  · rcases List.mem_append.mp h with h | h
    · exact Or.inl h
    · right; simpa using h

/-- every entry the reader produces sits at a non-negative Cartesian index and carries a token of the text -/
private theorem readLabels_cart_mem (M o : Int) (lines : List (List String)) (q : Cell × String)
    (h : q ∈ readLabels .cart M o lines) :
    0 ≤ q.1.1 ∧ 0 ≤ q.1.2 ∧ ∃ row ∈ lines, q.2 ∈ row := by
  unfold readLabels at h
  have hk : (Kind.cart = Kind.tips) = False := by simp
  simp only [hk, ↓reduceIte, cellOf] at h
  -- invariant of the two folds
  let P : Cell × String → Prop := fun q => 0 ≤ q.1.1 ∧ 0 ≤ q.1.2 ∧ ∃ row ∈ lines, q.2 ∈ row
  have hinner : ∀ (toks : List (Int × String)) (li : Int) (acc : Labels),
      0 ≤ li → (∀ ct ∈ toks, 0 ≤ ct.1 ∧ ∃ row ∈ lines, ct.2 ∈ row) → (∀ q ∈ acc, P q) →
      ∀ q ∈ toks.foldl (fun a (ct : Int × String) => put a (ct.1, li) ct.2) acc, P q := by
    intro toks
    induction toks with
    | nil => intro li acc _ _ hacc q hq; exact hacc q hq
    | cons ct toks ih =>
      intro li acc hli htoks hacc q hq
      simp only [List.foldl_cons] at hq
      apply ih li (put acc (ct.1, li) ct.2) hli (fun x hx => htoks x (List.mem_cons_of_mem _ hx)) _ q hq
      intro q' hq'
      rcases put_mem _ _ _ _ hq' with h1 | h1
      · exact hacc q' h1
      · subst h1
        obtain ⟨h0, hrow⟩ := htoks ct List.mem_cons_self
        exact ⟨h0, hli, hrow⟩
  have henum : ∀ {α} (l : List α) (x : Int × α), x ∈ enum l → 0 ≤ x.1 ∧ x.2 ∈ l := by
    intro α l x hx
    unfold enum at hx
    have h1 := List.of_mem_zip hx
    obtain ⟨n, _, hn⟩ := List.mem_map.mp h1.1
    exact ⟨by rw [← hn]; exact Int.natCast_nonneg n, h1.2⟩
  have houter : ∀ (rows : List (Int × List String)) (acc : Labels),
      (∀ ll ∈ rows, 0 ≤ ll.1 ∧ ll.2 ∈ lines) → (∀ q ∈ acc, P q) →
      ∀ q ∈ rows.foldl (fun acc (ll : Int × List String) =>
        (enum ll.2).foldl (fun a (ct : Int × String) => put a (ct.1, ll.1) ct.2) acc) acc, P q := by
    intro rows
    induction rows with
    | nil => intro acc _ hacc q hq; exact hacc q hq
    | cons ll rows ih =>
      intro acc hrows hacc q hq
      simp only [List.foldl_cons] at hq
      apply ih _ (fun x hx => hrows x (List.mem_cons_of_mem _ hx)) _ q hq
      obtain ⟨hl0, hmem⟩ := hrows ll List.mem_cons_self
      apply hinner (enum ll.2) ll.1 acc hl0 _ hacc
      intro ct hct
      obtain ⟨h0, h1⟩ := henum ll.2 ct hct
      exact ⟨h0, ll.2, hmem, h1⟩
  apply houter (enum lines.reverse) [] _ (by simp) q h
  intro ll hll
  obtain ⟨h0, h1⟩ := henum lines.reverse ll hll
  exact ⟨h0, List.mem_reverse.mp h1⟩

/-- **Cartesian maps: read, written and read again gives the same indexed contents.** For a text whose
tokens are data labels or placeholders: take the contents the reader finds (placeholders dropped, as the grid
blueprint does); if the writer draws them at all, reading its drawing gives exactly those contents. -/
theorem cart_read_write_read_id (lines : List (List String)) (m m2 : AMap)
    (htok : ∀ row ∈ lines, ∀ t ∈ row, t = PLACEHOLDER ∨ IsData t)
    (hr : readAscii .cart lines = some m)
    (hw : gridContentsToAscii .cart (dataOf m.labels) = some m2) :
    ∃ m3, readAscii .cart m2.lines = some m3 ∧
      ∀ cell, (get? m3.labels cell).filter (· != PLACEHOLDER) = get? (dataOf m.labels) cell := by
  have hlab : m.labels = readLabels .cart 0 0 lines := readAscii_labels .cart lines m hr
  apply cart_write_read_id (dataOf m.labels) m2 _ hw
  · intro p hp
    obtain ⟨hp', hne⟩ := List.mem_filter.mp hp
    rw [hlab] at hp'
    obtain ⟨_, _, row, hrow, hin⟩ := readLabels_cart_mem 0 0 lines p hp'
    rcases htok row hrow p.2 hin with h | h
    · simp [h] at hne
    · exact h



/-- every grid index has a text position in a third-core map: line `i + 2j`, column `jBase(line) - j`
(with injectivity: text positions on lines ≥ 0 ↔ indices with `i + 2j ≥ 0` is one-to-one) -/
theorem third_cell_inverse (M o i j : Int) :
    cellOf .third M o ((thirdBase (i + 2 * j)).2 - j) (i + 2 * j) = (i, j) := by
  unfold cellOf thirdBase
  simp only []
  split
  · simp only [Prod.mk.injEq]; omega
  · split
    · simp only [Prod.mk.injEq]; omega
    · split <;> (simp only [Prod.mk.injEq]; omega)

/-- every grid index has a text position in a full flats-up map: line `i + 2j + 2·ijMax - corner`,
column `jBase(line) - j` -/
theorem full_cell_inverse (M o i j : Int) :
    cellOf .full M o ((fullBase M o (i + 2 * j + 2 * M - o)).2 - j) (i + 2 * j + 2 * M - o) = (i, j) := by
  unfold cellOf fullBase
  simp only []
  split
  · simp only [Prod.mk.injEq]; omega
  · split <;> (simp only [Prod.mk.injEq]; omega)


/-- **every class: a drawing is complete unless one of the two known mechanisms strikes.**
If (1) every data cell lies inside the window the writer inferred from the data (`hwin`), (2) the reader
re-infers the writer's dimensions from the drawn lines (`hre`), and (3, tips-up maps, whose lines are counted
from the top) no leading row was dropped (`htop`), then whatever `gridContentsToAscii` draws reads back with
every label of the contents at its own index — nothing lost, nothing moved (third-core maps need no (2):
their cell map does not depend on the inferred dimensions). These three hypotheses are exactly
the negations of the classes under which the known incomplete drawings are filed (outline inference / reader
re-inference), so in the model there is no other way to draw incompletely. `_partial`: labels that are data;
that nothing is invented is not stated here. -/
theorem write_read_complete_partial (k : Kind) (L : Labels) (m : AMap) (M o W H : Int)
    (hdim : dimsFromData k L = some (M, o, W, H))
    (hdata : ∀ p ∈ L, IsData p.2)
    (hwin : ∀ p ∈ L, ∃ c l, 0 ≤ c ∧ c < W ∧ 0 ≤ l ∧ l < H ∧ cellOf k M o c l = p.1)
    (hw : gridContentsToAscii k L = some m)
    (hre : k ≠ .third → readerDims k m.lines = (M, o))
    (htop : k = .tips → m.lines.length = H.toNat) :
    ∃ m', readAscii k m.lines = some m' ∧
      ∀ cell v, get? L cell = some v → get? m'.labels cell = some v := by
  unfold gridContentsToAscii at hw
  simp only [hdim] at hw
  generalize hl0 : ((if k = .tips then pyRange H else (pyRange H).reverse).map
      (fun ln => (pyRange W).map (fun c => tokenAt L (cellOf k M o c ln)))) = lines0 at hw
  cases hcl : cleanLines lines0 true [] with
  | none => simp [hcl] at hw
  | some r =>
    simp only [hcl] at hw
    by_cases hrem : r.isEmpty = true
    · simp [hrem] at hw
    simp only [hrem, Bool.false_eq_true, ↓reduceIte, Option.some.injEq] at hw
    have hml : m.lines = r := by rw [← hw]
    obtain ⟨kd, hkl, hdash, hr, hne⟩ := cleanLines_true lines0 r hcl
    let row : Int → List String := fun ln => (pyRange W).map (fun c => tokenAt L (cellOf k M o c ln))
    have hlen0 : lines0.length = H.toNat := by
      rw [← hl0]; split <;> simp [pyRange]
    have hrlen : r.length = H.toNat - kd := by rw [hr]; simp [hlen0]
    -- the drawn rows in the reader's order
    have hord : (if k = .tips then r else r.reverse) =
        (((pyRange H).map row).take (H.toNat - kd)).map removeTrailing := by
      by_cases hk : k = .tips
      · have hkd : kd = 0 := by
          have := htop hk
          rw [hml, hrlen] at this
          have hn : kd ≤ H.toNat := by rw [← hlen0]; exact hkl
          omega
        subst hk
        simp only [↓reduceIte] at hl0 ⊢
        rw [hr, hkd, ← hl0]
        simp only [List.drop_zero, Nat.sub_zero]
        rw [List.take_of_length_le (by simp [pyRange])]
      · simp only [hk, ↓reduceIte] at hl0 ⊢
        have hrows : lines0.reverse = (pyRange H).map row := by
          rw [← hl0, ← List.map_reverse, List.reverse_reverse]
        rw [hr, ← List.map_reverse, List.reverse_drop, hrows, hlen0]
    have hrowget : ∀ (ln : Int) (c : Nat), (row ln)[c]? =
        if (c : Int) < W then some (tokenAt L (cellOf k M o (c : Int) ln)) else none := by
      intro ln c
      simp only [row, List.getElem?_map, pyRange_get]
      split <;> simp
    have hlook : ∀ (c l : Int), rowsLookup (if k = .tips then r else r.reverse) 0 c l =
        if 0 ≤ l ∧ 0 ≤ c ∧ l.toNat < H.toNat - kd then (removeTrailing (row l))[c.toNat]? else none := by
      intro c l
      unfold rowsLookup
      rw [hord]
      by_cases h1 : 0 ≤ l ∧ 0 ≤ c
      · have h1' : ((0 : Nat) : Int) ≤ l ∧ 0 ≤ c := by omega
        rw [if_pos h1']
        have hsub : (l - ((0 : Nat) : Int)).toNat = l.toNat := by omega
        rw [hsub, List.getElem?_map, List.getElem?_take]
        by_cases h2 : l.toNat < H.toNat - kd
        · have h3 : 0 ≤ l ∧ 0 ≤ c ∧ l.toNat < H.toNat - kd := ⟨h1.1, h1.2, h2⟩
          rw [if_pos h3, if_pos h2, List.getElem?_map, pyRange_get]
          have h5 : ((l.toNat : Nat) : Int) = l := by omega
          have h6 : l < H := by omega
          simp [h5, h6]
        · have h3 : ¬ (0 ≤ l ∧ 0 ≤ c ∧ l.toNat < H.toNat - kd) := fun h => h2 h.2.2
          rw [if_neg h3, if_neg h2]; rfl
      · have h1' : ¬ (((0 : Nat) : Int) ≤ l ∧ 0 ≤ c) := by omega
        have h3 : ¬ (0 ≤ l ∧ 0 ≤ c ∧ l.toNat < H.toNat - kd) := fun h => h1 ⟨h.1, h.2.1⟩
        rw [if_neg h1', if_neg h3]
    have hrd : readLabels k (readerDims k r).1 (readerDims k r).2 r = readLabels k M o r := by
      by_cases hk3 : k = .third
      · subst hk3; rfl
      · have := hre hk3; rw [hml] at this; rw [this]
    have hlab : ∀ c l, 0 ≤ l → get? (readLabels k M o r) (cellOf k M o c l) =
        if 0 ≤ l ∧ 0 ≤ c ∧ l.toNat < H.toNat - kd then (removeTrailing (row l))[c.toNat]? else none := by
      intro c l hl; rw [read_keeps_every_token k M o r c l hl, hlook]
    -- a data cell is drawn, kept and read back
    have hcell : ∀ cell v, get? L cell = some v → get? (readLabels k M o r) cell = some v := by
      intro cell v hg
      have hmem := get?_some_mem L cell v hg
      obtain ⟨c, l, hc0, hcW, hl0', hlH, hcl'⟩ := hwin _ hmem
      obtain ⟨_, hrep, hnp, hnd⟩ := hdata _ hmem
      simp only at hcl' hrep hnp hnd
      have htok : tokenAt L (cellOf k M o c l) = v := by rw [hcl']; simp [tokenAt, hg, hrep]
      have hcn : ((c.toNat : Nat) : Int) = c := by omega
      have hrowc : (row l)[c.toNat]? = some v := by rw [hrowget, hcn, if_pos hcW, htok]
      have hvrow : v ∈ row l := List.mem_of_getElem? hrowc
      have hkept : l.toNat < H.toNat - kd := by
        rcases Nat.lt_or_ge l.toNat (H.toNat - kd) with h | h
        · exact h
        · exfalso
          by_cases hk : k = .tips
          · have hkd : kd = 0 := by
              have := htop hk
              rw [hml, hrlen] at this
              have hn : kd ≤ H.toNat := by rw [← hlen0]; exact hkl
              omega
            omega
          · simp only [hk, ↓reduceIte] at hl0
            have hrows : lines0.reverse = (pyRange H).map row := by
              rw [← hl0, ← List.map_reverse, List.reverse_reverse]
            have hidx : lines0[H.toNat - 1 - l.toNat]? = some (row l) := by
              have h1 : lines0.reverse[l.toNat]? = some (row l) := by
                rw [hrows, List.getElem?_map, pyRange_get]
                have h5 : ((l.toNat : Nat) : Int) = l := by omega
                simp [h5, hlH]
              have hlt : l.toNat < lines0.length := by omega
              rw [List.getElem?_reverse hlt] at h1
              rw [hlen0] at h1
              exact h1
            have hin : row l ∈ lines0.take kd := by
              have : (lines0.take kd)[H.toNat - 1 - l.toNat]? = some (row l) := by
                rw [List.getElem?_take, if_pos (by omega)]; exact hidx
              exact List.mem_of_getElem? this
            have hd := hdash _ hin
            unfold rowAllDash at hd
            simp only [Bool.and_eq_true] at hd
            have hall := List.all_eq_true.mp hd.2 v hvrow
            rw [hnd] at hall; cases hall
      obtain ⟨suf, hsplit, hsuf⟩ := removeTrailing_spec (row l)
      have hin : c.toNat < (removeTrailing (row l)).length := by
        rcases Nat.lt_or_ge c.toNat (removeTrailing (row l)).length with h | h
        · exact h
        · exfalso
          have : (removeTrailing (row l) ++ suf)[c.toNat]? = some v := by rw [← hsplit]; exact hrowc
          exact hnp (hsuf v (suffix_mem _ _ _ _ h this))
      have hget : (removeTrailing (row l))[c.toNat]? = some v := by
        have h1 : (removeTrailing (row l) ++ suf)[c.toNat]? = some v := by rw [← hsplit]; exact hrowc
        rwa [List.getElem?_append_left hin] at h1
      rw [← hcl', hlab c l hl0', if_pos ⟨hl0', hc0, hkept⟩, hget]
    -- the reader succeeds
    have hrne : r ≠ [] := by intro hc; apply hrem; simp [hc]
    have hLne : L ≠ [] := by
      intro hc; rw [hc] at hdim; simp [dimsFromData] at hdim
    have hnonempty : (readLabels k M o r).isEmpty = false := by
      cases hL : L with
      | nil => exact absurd hL hLne
      | cons p ps =>
        have hp : p ∈ L := by rw [hL]; exact List.mem_cons_self
        obtain ⟨_, _, hnp, _⟩ := hdata p hp
        -- p is found through its own key (first match carries data too)
        cases hg : get? L p.1 with
        | none =>
          exfalso
          unfold get? at hg
          have : L.find? (fun q => q.1 == p.1) = none := by
            cases hf : L.find? (fun q => q.1 == p.1) with
            | none => rfl
            | some q => simp [hf] at hg
          rw [List.find?_eq_none] at this
          exact this p hp (by simp)
        | some v =>
          have := hcell p.1 v hg
          cases hrl : readLabels k M o r with
          | nil => rw [hrl] at this; simp [get?] at this
          | cons _ _ => rfl
    have hread := readAscii_some k r (by simpa using hrem) (by rw [hrd]; exact hnonempty)
    obtain ⟨m', hm1, hm2⟩ := hread
    refine ⟨m', by rw [hml]; exact hm1, ?_⟩
    intro cell v hg
    rw [hm2, hrd]
    exact hcell cell v hg



private theorem foldl_max_le : ∀ (xs : List Int) (a b : Int), a ≤ b → (∀ y ∈ xs, y ≤ b) → xs.foldl max a ≤ b := by
  intro xs
  induction xs with
  | nil => intro a b h _; simpa using h
  | cons x xs ih =>
    intro a b h hall
    simp only [List.foldl_cons]
    apply ih
    · have := hall x List.mem_cons_self; omega
    · intro y hy; exact hall y (List.mem_cons_of_mem _ hy)

private theorem foldl_max_ge' : ∀ (xs : List Int) (a : Int),
    a ≤ xs.foldl max a ∧ ∀ y ∈ xs, y ≤ xs.foldl max a := by
  intro xs
  induction xs with
  | nil => intro a; simp
  | cons x xs ih =>
    intro a
    simp only [List.foldl_cons]
    obtain ⟨h1, h2⟩ := ih (max a x)
    refine ⟨by omega, ?_⟩
    intro y hy
    rcases List.mem_cons.mp hy with rfl | hy
    · omega
    · exact h2 y hy

/-- the maximum of a list that contains its upper bound -/
private theorem maxD_eq (d b : Int) (l : List Int) (hmem : b ∈ l) (hub : ∀ x ∈ l, x ≤ b) : maxD d l = b := by
  cases l with
  | nil => cases hmem
  | cons a as =>
    simp only [maxD]
    have h1 : as.foldl max a ≤ b :=
      foldl_max_le as a b (hub a List.mem_cons_self) (fun y hy => hub y (List.mem_cons_of_mem _ hy))
    obtain ⟨h2, h3⟩ := foldl_max_ge' as a
    have h4 : b ≤ as.foldl max a := by
      rcases List.mem_cons.mp hmem with rfl | hm
      · exact h2
      · exact h3 b hm
    omega

private theorem maxD_empty (d : Int) : maxD d [] = d := rfl

/-- **dimension inference recovers the outline of a third-core map** of any radius `M` as soon as the two
anchor cells of the corner inference, `(M, 0)` and (for `M ≥ 1`) `(M - 1, 1)`, hold data and no cell lies
beyond ring `M` (`i + j ≤ M`; a one-cell map `M = 0` has nothing on the `j = 1` ray): no corner line is cut, `M + 1` columns, `2M + 1` lines. Holes anywhere else do
not matter. -/
theorem third_dims_complete (L : Labels) (M : Int) (hM : 0 ≤ M)
    (hring : ∀ p ∈ L, p.1.1 + p.1.2 ≤ M)
    (hA : ∃ v, ((M, 0), v) ∈ L)
    (hB : 1 ≤ M → ∃ v, ((M - 1, 1), v) ∈ L)
    (hB0 : M = 0 → ∀ p ∈ L, p.1.2 ≠ 1) :
    dimsFromData .third L = some (M, 0, M + 1, M * 2 + 1 - 0) := by
  obtain ⟨vA, hAm⟩ := hA
  have hne : L.isEmpty = false := by cases L with | nil => cases hAm | cons _ _ => rfl
  unfold dimsFromData
  simp only [hne, Bool.false_eq_true, ↓reduceIte]
  -- ijMax
  have hij : maxD 0 ((L.map (·.1)).map (fun c => c.1 + c.2)) = M := by
    apply maxD_eq
    · exact List.mem_map.mpr ⟨(M, 0), List.mem_map.mpr ⟨_, hAm, rfl⟩, by simp⟩
    · intro x hx
      obtain ⟨c, hc, rfl⟩ := List.mem_map.mp hx
      obtain ⟨p, hp, rfl⟩ := List.mem_map.mp hc
      exact hring p hp
  -- outermost data on the j = 0 ray
  have h0 : maxD (-1) (((L.map (·.1)).filter (fun c => c.2 == 0)).map (·.1)) = M := by
    apply maxD_eq
    · refine List.mem_map.mpr ⟨(M, 0), List.mem_filter.mpr ⟨List.mem_map.mpr ⟨_, hAm, rfl⟩, by simp⟩, rfl⟩
    · intro x hx
      obtain ⟨c, hc, rfl⟩ := List.mem_map.mp hx
      obtain ⟨hc1, hc2⟩ := List.mem_filter.mp hc
      obtain ⟨p, hp, rfl⟩ := List.mem_map.mp hc1
      have := hring p hp
      have h2 : p.1.2 = 0 := by simpa using hc2
      omega
  -- and on the j = 1 ray
  have h1 : maxD (-1) (((L.map (·.1)).filter (fun c => c.2 == 1)).map (·.1)) = M - 1 := by
    by_cases hM1 : 1 ≤ M
    · obtain ⟨vB, hBm⟩ := hB hM1
      apply maxD_eq
      · refine List.mem_map.mpr ⟨(M - 1, 1), List.mem_filter.mpr ⟨List.mem_map.mpr ⟨_, hBm, rfl⟩, by simp⟩, rfl⟩
      · intro x hx
        obtain ⟨c, hc, rfl⟩ := List.mem_map.mp hx
        obtain ⟨hc1, hc2⟩ := List.mem_filter.mp hc
        obtain ⟨p, hp, rfl⟩ := List.mem_map.mp hc1
        have := hring p hp
        have h2 : p.1.2 = 1 := by simpa using hc2
        omega
    · -- M = 0: nothing on the j = 1 ray at all
      have hM0 : M = 0 := by omega
      have hnil : ((L.map (·.1)).filter (fun c => c.2 == 1)).map (·.1) = [] := by
        rw [List.map_eq_nil_iff, List.filter_eq_nil_iff]
        intro c hc
        obtain ⟨p, hp, rfl⟩ := List.mem_map.mp hc
        have := hB0 hM0 p hp
        simpa using this
      rw [hnil, maxD_empty]; omega
  simp only [hij, h0, h1]
  simp


/-- a cell of the hexagon of radius `M` that lies in the sector a third-core map draws (on or above the bottom
text line and on or right of the left edge of its line) has a position in the `(M+1) × (2M+1)` window -/
theorem third_window (M o i j : Int)
    (hi : i ≤ M) (hij : i + j ≤ M) (hj : j ≤ M)
    (hbot : 0 ≤ i + 2 * j) (hleft : (thirdBase (i + 2 * j)).1 ≤ i) :
    ∃ c l, 0 ≤ c ∧ c < M + 1 ∧ 0 ≤ l ∧ l < M * 2 + 1 - 0 ∧ cellOf .third M o c l = (i, j) := by
  refine ⟨(thirdBase (i + 2 * j)).2 - j, i + 2 * j, ?_, ?_, hbot, by omega, third_cell_inverse M o i j⟩
  · have h := third_cell_inverse M o i j
    simp only [cellOf, Prod.mk.injEq] at h
    omega
  · have h := third_cell_inverse M o i j
    simp only [cellOf, Prod.mk.injEq] at h
    have hb : -(M * 2) ≤ 3 * (thirdBase (i + 2 * j)).1 := by
      unfold thirdBase
      simp only []
      split
      · simp only []; omega
      · split
        · simp only []; omega
        · split <;> (simp only []; omega)
    omega

/-- **third-core maps, write then read, any radius** (`_partial`: data labels; "nothing invented" not stated):
contents that stay inside the hexagon of radius `M` and the sector the map draws, and hold data at the two
anchor cells `(M, 0)` and `(M - 1, 1)` of the corner inference — in particular every complete (hole-free,
non-truncated) third-core map — are drawn, and the drawing reads back with every label at its own index. -/
theorem third_write_read_id_partial (L : Labels) (m : AMap) (M : Int) (hM : 0 ≤ M)
    (hdata : ∀ p ∈ L, IsData p.2)
    (hhex : ∀ p ∈ L, p.1.1 ≤ M ∧ p.1.1 + p.1.2 ≤ M ∧ p.1.2 ≤ M)
    (hsector : ∀ p ∈ L, 0 ≤ p.1.1 + 2 * p.1.2 ∧ (thirdBase (p.1.1 + 2 * p.1.2)).1 ≤ p.1.1)
    (hA : ∃ v, ((M, 0), v) ∈ L)
    (hB : 1 ≤ M → ∃ v, ((M - 1, 1), v) ∈ L)
    (hB0 : M = 0 → ∀ p ∈ L, p.1.2 ≠ 1)
    (hw : gridContentsToAscii .third L = some m) :
    ∃ m', readAscii .third m.lines = some m' ∧
      ∀ cell v, get? L cell = some v → get? m'.labels cell = some v := by
  have hdim := third_dims_complete L M hM (fun p hp => (hhex p hp).2.1) hA hB hB0
  apply write_read_complete_partial .third L m M 0 (M + 1) (M * 2 + 1 - 0) hdim hdata _ hw
  · intro h; exact absurd rfl h
  · intro h; cases h
  · intro p hp
    obtain ⟨h1, h2, h3⟩ := hhex p hp
    obtain ⟨h4, h5⟩ := hsector p hp
    exact third_window M 0 p.1.1 p.1.2 h1 h2 h3 h4 h5



/-! keys of a dictionary built with `put` stay unique -/
private theorem put_keys (m : Labels) (k : Cell) (v : String) :
    (put m k v).map (·.1) = if m.any (fun p => p.1 == k) then m.map (·.1) else m.map (·.1) ++ [k] := by
  unfold put
  split
  · rw [List.map_map]; apply List.map_congr_left; intro p _
    simp only [Function.comp_def]; split
    · rename_i h; simpa using (by simpa using h : p.1 = k).symm
    · rfl
  · simp

private theorem put_nodup (m : Labels) (k : Cell) (v : String) (h : (m.map (·.1)).Nodup) :
    ((put m k v).map (·.1)).Nodup := by
  rw [put_keys]
  split
  · exact h
  · rename_i hk
    rw [List.nodup_append]
    refine ⟨h, by simp, ?_⟩
    intro a ha b hb
    simp at hb; subst hb
    intro hab; subst hab
    apply hk
    obtain ⟨p, hp, rfl⟩ := List.mem_map.mp ha
    exact List.any_eq_true.mpr ⟨p, hp, by simp⟩

private theorem foldl_put_nodup {α} (f : α → Cell × String) : ∀ (xs : List α) (acc : Labels),
    (acc.map (·.1)).Nodup → ((xs.foldl (fun a x => put a (f x).1 (f x).2) acc).map (·.1)).Nodup := by
  intro xs
  induction xs with
  | nil => intro acc h; exact h
  | cons x xs ih => intro acc h; simp only [List.foldl_cons]; exact ih _ (put_nodup _ _ _ h)

theorem readLabels_keys_nodup (k : Kind) (M o : Int) (lines : List (List String)) :
    ((readLabels k M o lines).map (·.1)).Nodup := by
  unfold readLabels
  simp only []
  generalize (enum (if k = Kind.tips then lines else lines.reverse)) = rows
  suffices h : ∀ (rows : List (Int × List String)) (acc : Labels), (acc.map (·.1)).Nodup →
      ((rows.foldl (fun acc (ll : Int × List String) =>
        (enum ll.2).foldl (fun acc2 (ct : Int × String) => put acc2 (cellOf k M o ct.1 ll.1) ct.2) acc) acc).map (·.1)).Nodup by
    exact h rows [] (by simp)
  intro rows
  induction rows with
  | nil => intro acc h; exact h
  | cons ll rows ih =>
    intro acc h
    simp only [List.foldl_cons]
    apply ih
    exact foldl_put_nodup (fun (ct : Int × String) => (cellOf k M o ct.1 ll.1, ct.2)) (enum ll.2) acc h

/-- looking a key up in the data part of a dictionary with unique keys -/
theorem get?_dataOf (m : Labels) (h : (m.map (·.1)).Nodup) (cell : Cell) :
    get? (dataOf m) cell = (get? m cell).filter (· != PLACEHOLDER) := by
  induction m with
  | nil => rfl
  | cons p m ih =>
    simp only [List.map_cons, List.nodup_cons] at h
    have ih' := ih h.2
    by_cases hk : p.1 = cell
    · have hb : (p.1 == cell) = true := by simpa using hk
      have hnone : get? m cell = none := by
        unfold get?
        have : m.find? (fun q => q.1 == cell) = none := by
          rw [List.find?_eq_none]; intro q hq hc
          apply h.1; rw [hk]
          exact List.mem_map.mpr ⟨q, hq, by simpa using hc⟩
        simp [this]
      by_cases hv : (p.2 != PLACEHOLDER) = true
      · simp [dataOf, List.filter_cons, hv, get?, List.find?_cons, hb, Option.filter]
      · have hv' : (p.2 != PLACEHOLDER) = false := by simpa using hv
        have : dataOf (p :: m) = dataOf m := by simp [dataOf, List.filter_cons, hv']
        rw [this, ih', hnone]
        simp [get?, List.find?_cons, hb, Option.filter, hv']
    · have hb : (p.1 == cell) = false := by simpa using hk
      have hstep : get? (p :: m) cell = get? m cell := by simp [get?, List.find?_cons, hb]
      rw [hstep, ← ih']
      by_cases hv : (p.2 != PLACEHOLDER) = true
      · simp [dataOf, List.filter_cons, hv, get?, List.find?_cons, hb]
      · have hv' : (p.2 != PLACEHOLDER) = false := by simpa using hv
        simp [dataOf, List.filter_cons, hv']


private theorem dropWhile_append_of_all {α} (p : α → Bool) : ∀ (as bs : List α), (∀ x ∈ as, p x = true) →
    (as ++ bs).dropWhile p = bs.dropWhile p := by
  intro as
  induction as with
  | nil => intro bs _; rfl
  | cons a as ih =>
    intro bs h
    simp only [List.cons_append, List.dropWhile_cons, h a List.mem_cons_self, ↓reduceIte]
    exact ih bs (fun x hx => h x (List.mem_cons_of_mem _ hx))

/-- trailing placeholders do not matter to `_removeTrailingPlaceholders` -/
theorem removeTrailing_append_placeholders (ys zs : List String) (h : ∀ t ∈ zs, t = PLACEHOLDER) :
    removeTrailing (ys ++ zs) = removeTrailing ys := by
  unfold removeTrailing
  rw [List.reverse_append, dropWhile_append_of_all]
  intro x hx
  have := h x (List.mem_reverse.mp hx)
  simp [this]

private theorem list_eq_map_pyRange {α} (xs : List α) (d : α) :
    xs = (pyRange xs.length).map (fun l => xs[l.toNat]?.getD d) := by
  apply List.ext_getElem?
  intro i
  simp only [List.getElem?_map, pyRange, List.getElem?_range]
  by_cases h : i < xs.length
  · simp [h, List.getElem?_eq_getElem h]
  · have : xs.length ≤ i := by omega
    simp [h, List.getElem?_eq_none this]


/-- **Cartesian maps: re-drawing what was read reproduces the text** (up to the documented trimming of trailing
placeholders). For a text whose tokens are data labels or placeholders and whose every line holds some data:
read it, keep the data (as the grid blueprint does), draw that; if the writer does not refuse, the drawn lines
are the lines of the text with their trailing placeholders removed — same number of lines, same tokens. -/
theorem cart_read_write_id (lines : List (List String)) (m m2 : AMap)
    (htok : ∀ row ∈ lines, ∀ t ∈ row, t = PLACEHOLDER ∨ IsData t)
    (hrowdata : ∀ row ∈ lines, ∃ t ∈ row, IsData t)
    (hr : readAscii .cart lines = some m)
    (hw : gridContentsToAscii .cart (dataOf m.labels) = some m2) :
    m2.lines = lines.map removeTrailing := by
  have hlab : m.labels = readLabels .cart 0 0 lines := readAscii_labels .cart lines m hr
  have hnd := readLabels_keys_nodup .cart 0 0 lines
  generalize hL : dataOf m.labels = L at hw
  -- what the contents hold at each index, in terms of the text
  have hget : ∀ c l, get? L (c, l) = (rowsLookup lines.reverse 0 c l).filter (· != PLACEHOLDER) := by
    intro c l
    rw [← hL, hlab, get?_dataOf _ hnd, cart_read_exact]
  have hLdata : ∀ p ∈ L, IsData p.2 := by
    intro p hp
    rw [← hL] at hp
    obtain ⟨hp', hne⟩ := List.mem_filter.mp hp
    rw [hlab] at hp'
    obtain ⟨_, _, row, hrow, hin⟩ := readLabels_cart_mem 0 0 lines p hp'
    rcases htok row hrow p.2 hin with h | h
    · simp [h] at hne
    · exact h
  have hLnd : (L.map (·.1)).Nodup := by
    rw [← hL, hlab]
    exact List.Nodup.sublist (List.Sublist.map _ List.filter_sublist) hnd
  have hLget : ∀ p ∈ L, get? L p.1 = some p.2 := by
    intro p hp
    clear hget hLdata hL hw
    induction L with
    | nil => cases hp
    | cons q L ih =>
      simp only [List.map_cons, List.nodup_cons] at hLnd
      rcases List.mem_cons.mp hp with rfl | hp'
      · simp [get?]
      · have hne : (q.1 == p.1) = false := by
          simp; intro hc; apply hLnd.1; rw [hc]; exact List.mem_map.mpr ⟨p, hp', rfl⟩
        have := ih hLnd.2 hp'
        simpa [get?, List.find?_cons, hne] using this
  -- rows of the text from the bottom
  let rows := lines.reverse
  have hrowsLookup : ∀ c l, rowsLookup rows 0 c l =
      if 0 ≤ l ∧ 0 ≤ c then (rows[l.toNat]?).bind (fun row => row[c.toNat]?) else none := by
    intro c l; unfold rowsLookup
    have : (l - ((0 : Nat) : Int)).toNat = l.toNat := by omega
    simp only [this]
    by_cases h : 0 ≤ l ∧ 0 ≤ c
    · have h' : ((0 : Nat) : Int) ≤ l ∧ 0 ≤ c := by omega
      rw [if_pos h, if_pos h']
    · have h' : ¬ (((0 : Nat) : Int) ≤ l ∧ 0 ≤ c) := by omega
      rw [if_neg h, if_neg h']
  -- every entry of the contents sits inside the text
  have hLbound : ∀ p ∈ L, 0 ≤ p.1.1 ∧ 0 ≤ p.1.2 ∧ p.1.2.toNat < lines.length := by
    intro p hp
    have h1 := hLget p hp
    obtain ⟨⟨c, l⟩, v⟩ := p
    simp only at h1 ⊢
    rw [hget, hrowsLookup] at h1
    by_cases h : 0 ≤ l ∧ 0 ≤ c
    · rw [if_pos h] at h1
      refine ⟨h.2, h.1, ?_⟩
      rcases Nat.lt_or_ge l.toNat lines.length with h2 | h2
      · exact h2
      · have : rows[l.toNat]? = none := List.getElem?_eq_none (by simp [rows]; exact h2)
        simp [this, Option.filter] at h1
    · rw [if_neg h] at h1; simp [Option.filter] at h1
  -- unfold the writer
  unfold gridContentsToAscii at hw
  cases hdim : dimsFromData .cart L with
  | none => simp [hdim] at hw
  | some dims =>
    obtain ⟨M, o, W, H⟩ := dims
    simp only [hdim] at hw
    have hk : (Kind.cart = Kind.tips) = False := by simp
    simp only [hk, ↓reduceIte] at hw
    unfold dimsFromData at hdim
    by_cases hLe : L.isEmpty = true
    · simp [hLe] at hdim
    simp only [hLe, Bool.false_eq_true, ↓reduceIte] at hdim
    split at hdim
    · cases hdim
    simp only [Option.some.injEq, Prod.mk.injEq] at hdim
    obtain ⟨_, _, hW, hH⟩ := hdim
    have hbW : ∀ p ∈ L, p.1.1 < W := by
      intro p hp
      have := maxD_ge 0 ((L.map (·.1)).map (·.1)) p.1.1 (List.mem_map.mpr ⟨p.1, List.mem_map.mpr ⟨p, hp, rfl⟩, rfl⟩)
      omega
    have hbH : ∀ p ∈ L, p.1.2 < H := by
      intro p hp
      have := maxD_ge 0 ((L.map (·.1)).map (·.2)) p.1.2 (List.mem_map.mpr ⟨p.1, List.mem_map.mpr ⟨p, hp, rfl⟩, rfl⟩)
      omega
    -- a token of the text, seen from the contents
    have hrowslen : rows.length = lines.length := by simp [rows]
    have hcelldata : ∀ (l c : Nat) (row : List String) (t : String), rows[l]? = some row → row[c]? = some t → IsData t →
        get? L ((c : Int), (l : Int)) = some t := by
      intro l c row t h1 h2 h3
      rw [hget, hrowsLookup, if_pos ⟨by omega, by omega⟩]
      simp only [Int.toNat_natCast, h1, Option.bind_some, h2]
      have : (t != PLACEHOLDER) = true := by simpa using h3.2.2.1
      simp [Option.filter, this]
    have hlinesne : 0 < lines.length := by
      cases hLL : L with
      | nil => simp [hLL] at hLe
      | cons p ps =>
        have := (hLbound p (by rw [hLL]; exact List.mem_cons_self)).2.2
        omega
    -- the number of drawn lines is the number of text lines
    have hHeq : H = (lines.length : Int) := by
      have hub : ∀ x ∈ (L.map (·.1)).map (·.2), x ≤ (lines.length : Int) - 1 := by
        intro x hx
        obtain ⟨c, hc, rfl⟩ := List.mem_map.mp hx
        obtain ⟨p, hp, rfl⟩ := List.mem_map.mp hc
        have := hLbound p hp
        omega
      have htop : ((lines.length : Int) - 1) ∈ (L.map (·.1)).map (·.2) := by
        have hrow0 : rows[lines.length - 1]? = some (lines[0]'hlinesne) := by
          have hlt : lines.length - 1 < lines.reverse.length := by simp; omega
          show lines.reverse[lines.length - 1]? = _
          rw [List.getElem?_reverse (by omega)]
          have : lines.length - 1 - (lines.length - 1) = 0 := by omega
          simp [this]
        obtain ⟨t, ht, htd⟩ := hrowdata _ (List.getElem_mem hlinesne)
        obtain ⟨c, hc⟩ := List.getElem?_of_mem ht
        have := hcelldata (lines.length - 1) c _ t hrow0 hc htd
        have hmem := get?_some_mem L _ t this
        refine List.mem_map.mpr ⟨((c : Int), ((lines.length - 1 : Nat) : Int)), List.mem_map.mpr ⟨_, hmem, rfl⟩, ?_⟩
        simp only []; omega
      have := maxD_eq 0 ((lines.length : Int) - 1) _ htop hub
      omega
    -- a drawn row, compared with the text row
    let wrow : Int → List String := fun ln => (pyRange W).map (fun c => tokenAt L (c, ln))
    have hwtok : ∀ (l c : Nat) (row : List String), rows[l]? = some row →
        tokenAt L ((c : Int), (l : Int)) = (row[c]?).getD PLACEHOLDER := by
      intro l c row h1
      unfold tokenAt
      rw [hget, hrowsLookup, if_pos ⟨by omega, by omega⟩]
      simp only [Int.toNat_natCast, h1, Option.bind_some]
      cases h2 : row[c]? with
      | none => simp [Option.filter]
      | some t =>
        rcases htok row (by
            have := List.mem_of_getElem? h1
            exact List.mem_reverse.mp this) t (List.mem_of_getElem? h2) with h | h
        · subst h; simp [Option.filter]
        · have : (t != PLACEHOLDER) = true := by simpa using h.2.2.1
          simp [Option.filter, this, h.2.1]
    have hrt : ∀ (l : Nat) (row : List String), rows[l]? = some row →
        removeTrailing (wrow (l : Int)) = removeTrailing row := by
      intro l row h1
      have hw1 : wrow (l : Int) = (row ++ List.replicate W.toNat PLACEHOLDER).take W.toNat := by
        apply List.ext_getElem?
        intro i
        simp only [wrow, List.getElem?_map, pyRange_get]
        by_cases hi : (i : Int) < W
        · have hi' : i < W.toNat := by omega
          simp only [hi, ↓reduceIte, Option.map_some]
          rw [hwtok l i row h1, List.getElem?_take, if_pos hi']
          by_cases hil : i < row.length
          · rw [List.getElem?_append_left hil]; simp [List.getElem?_eq_getElem hil]
          · have hge : row.length ≤ i := by omega
            rw [List.getElem?_append_right hge, List.getElem?_eq_none hge]
            have : i - row.length < W.toNat := by omega
            simp [List.getElem?_replicate, this]
        · have hi' : ¬ i < W.toNat := by omega
          simp only [hi, ↓reduceIte, Option.map_none]
          rw [List.getElem?_take, if_neg hi']
      have hdropdash : ∀ t ∈ row.drop W.toNat, t = PLACEHOLDER := by
        intro t ht
        obtain ⟨i, hi⟩ := List.getElem?_of_mem ht
        rw [List.getElem?_drop] at hi
        rcases htok row (by have := List.mem_of_getElem? h1; exact List.mem_reverse.mp this) t
            (List.mem_of_getElem? hi) with h | h
        · exact h
        · exfalso
          have hg := hcelldata l (W.toNat + i) row t h1 hi h
          have hmem := get?_some_mem L _ t hg
          have := hbW _ hmem
          simp only at this
          omega
      rw [hw1, List.take_append]
      have h2 : removeTrailing (row.take W.toNat ++ (List.replicate W.toNat PLACEHOLDER).take (W.toNat - row.length))
          = removeTrailing (row.take W.toNat) := by
        apply removeTrailing_append_placeholders
        intro t ht
        have := List.mem_of_mem_take ht
        exact (List.mem_replicate.mp this).2
      rw [h2]
      conv => rhs; rw [← List.take_append_drop W.toNat row]
      rw [removeTrailing_append_placeholders _ _ hdropdash]
    -- the cleaning loop drops nothing
    generalize hl0 : ((pyRange H).reverse.map (fun ln => (pyRange W).map (fun c => tokenAt L (cellOf .cart M o c ln)))) = lines0 at hw
    have hl0' : lines0 = (pyRange H).reverse.map wrow := by rw [← hl0]; rfl
    cases hcl : cleanLines lines0 true [] with
    | none => simp [hcl] at hw
    | some r =>
      simp only [hcl] at hw
      by_cases hre : r.isEmpty = true
      · simp [hre] at hw
      simp only [hre, Bool.false_eq_true, ↓reduceIte, Option.some.injEq] at hw
      have hml : m2.lines = r := by rw [← hw]
      obtain ⟨kd, hkl, hdash, hr', _⟩ := cleanLines_true lines0 r hcl
      have hHn : H.toNat = lines.length := by omega
      have hkd : kd = 0 := by
        rcases Nat.eq_zero_or_pos kd with h | h
        · exact h
        · exfalso
          -- the first drawn row is the top text row, which holds data
          have hfirst : lines0[0]? = some (wrow ((lines.length - 1 : Nat) : Int)) := by
            rw [hl0', List.getElem?_map, List.getElem?_reverse (by simp [pyRange_length]; omega)]
            simp only [pyRange_length, hHn]
            have : lines.length - 1 - 0 = lines.length - 1 := by omega
            rw [this, pyRange_get]
            have : ((lines.length - 1 : Nat) : Int) < H := by omega
            simp [this]
          have hin : wrow ((lines.length - 1 : Nat) : Int) ∈ lines0.take kd := by
            have : (lines0.take kd)[0]? = some (wrow ((lines.length - 1 : Nat) : Int)) := by
              rw [List.getElem?_take, if_pos h]; exact hfirst
            exact List.mem_of_getElem? this
          have hd := hdash _ hin
          have hrow0 : rows[lines.length - 1]? = some (lines[0]'hlinesne) := by
            show lines.reverse[lines.length - 1]? = _
            rw [List.getElem?_reverse (by omega)]
            have : lines.length - 1 - (lines.length - 1) = 0 := by omega
            simp [this]
          obtain ⟨t, ht, htd⟩ := hrowdata _ (List.getElem_mem hlinesne)
          obtain ⟨c, hc⟩ := List.getElem?_of_mem ht
          have hg := hcelldata (lines.length - 1) c _ t hrow0 hc htd
          have hcW := hbW _ (get?_some_mem L _ t hg)
          simp only at hcW
          have htin : t ∈ wrow ((lines.length - 1 : Nat) : Int) := by
            have : (wrow ((lines.length - 1 : Nat) : Int))[c]? = some t := by
              simp only [wrow, List.getElem?_map, pyRange_get, hcW, ↓reduceIte, Option.map_some]
              rw [hwtok (lines.length - 1) c _ hrow0, hc]; rfl
            exact List.mem_of_getElem? this
          unfold rowAllDash at hd
          simp only [Bool.and_eq_true] at hd
          have hall := List.all_eq_true.mp hd.2 t htin
          rw [htd.2.2.2] at hall; cases hall
      -- assemble
      rw [hml, hr', hkd, List.drop_zero, hl0']
      have hrowsrev : lines = rows.reverse := by simp [rows]
      conv => rhs; rw [hrowsrev]
      rw [List.map_map, List.map_reverse, List.map_reverse]
      congr 1
      have hrows := list_eq_map_pyRange rows ([] : List String)
      conv => rhs; rw [hrows, List.map_map]
      rw [hrowslen, ← hHn]
      have hHH : ((H.toNat : Nat) : Int) = H := by omega
      rw [hHH]
      apply List.map_congr_left
      intro l hl
      simp only [pyRange, List.mem_map, List.mem_range] at hl
      obtain ⟨i, hi, rfl⟩ := hl
      have hil : i < rows.length := by omega
      have hto : (Int.ofNat i).toNat = i := by simp
      simp only [Function.comp_def, hto, List.getElem?_eq_getElem hil, Option.getD_some]
      exact hrt i _ (List.getElem?_eq_getElem hil)


/-- the row the writer draws for text line `ln` (before trimming): one token per window column -/
def drawRow (k : Kind) (L : Labels) (M o W : Int) (ln : Int) : List String :=
  (pyRange W).map (fun c => tokenAt L (cellOf k M o c ln))

/-- all rows the writer draws, in writing order (top of the text first) -/
def rawLines (k : Kind) (L : Labels) (M o W H : Int) : List (List String) :=
  (if k = .tips then pyRange H else (pyRange H).reverse).map (drawRow k L M o W)

/-- **what `gridContentsToAscii` produces**: the raw rows with `kd` leading placeholder rows dropped and every
remaining row trimmed of its trailing placeholders -/
theorem drawn_lines (k : Kind) (L : Labels) (m : AMap) (M o W H : Int)
    (hdim : dimsFromData k L = some (M, o, W, H)) (hw : gridContentsToAscii k L = some m) :
    ∃ kd, kd ≤ H.toNat ∧ m.lines = ((rawLines k L M o W H).drop kd).map removeTrailing ∧
      (∀ row ∈ (rawLines k L M o W H).take kd, rowAllDash row = true) ∧
      (∀ row ∈ (rawLines k L M o W H).drop kd, removeTrailing row ≠ []) ∧ m.lines ≠ [] := by
  unfold gridContentsToAscii at hw
  simp only [hdim] at hw
  have hraw : ((if k = .tips then pyRange H else (pyRange H).reverse).map
      (fun ln => (pyRange W).map (fun c => tokenAt L (cellOf k M o c ln)))) = rawLines k L M o W H := rfl
  rw [hraw] at hw
  cases hcl : cleanLines (rawLines k L M o W H) true [] with
  | none => simp [hcl] at hw
  | some r =>
    simp only [hcl] at hw
    by_cases hrem : r.isEmpty = true
    · simp [hrem] at hw
    simp only [hrem, Bool.false_eq_true, ↓reduceIte, Option.some.injEq] at hw
    have hml : m.lines = r := by rw [← hw]
    obtain ⟨kd, hkl, hdash, hr, hne⟩ := cleanLines_true _ r hcl
    have hlen0 : (rawLines k L M o W H).length = H.toNat := by
      unfold rawLines; split <;> simp [pyRange]
    refine ⟨kd, by omega, by rw [hml, hr], hdash, hne, ?_⟩
    rw [hml]; intro hc; apply hrem; simp [hc]

/-- a row whose last token is not a placeholder is left alone by the trimming -/
theorem removeTrailing_of_last_data (row : List String) (t : String) (h : row.getLast? = some t) (ht : t ≠ PLACEHOLDER) :
    removeTrailing row = row := by
  obtain ⟨suf, hsplit, hsuf⟩ := removeTrailing_spec row
  cases suf with
  | nil => simpa using hsplit.symm
  | cons s ss =>
    exfalso
    have hl : row.getLast? = (s :: ss).getLast? := by
      have hne : (s :: ss).getLast? = some ((s :: ss).getLast (by simp)) := List.getLast?_eq_some_getLast (by simp)
      rw [hsplit, List.getLast?_append, hne]; rfl
    have hmem : t ∈ s :: ss := by
      have : (s :: ss).getLast? = some t := by rw [← hl]; exact h
      exact List.mem_of_getLast? this
    exact ht (hsuf t hmem)

theorem removeTrailing_length_le (row : List String) : (removeTrailing row).length ≤ row.length := by
  obtain ⟨suf, hsplit, _⟩ := removeTrailing_spec row
  have := congrArg List.length hsplit
  simp at this; omega

private theorem get?_of_mem (L : Labels) (cell : Cell) (v : String) (h : (cell, v) ∈ L) :
    ∃ v', get? L cell = some v' ∧ (cell, v') ∈ L := by
  cases hg : get? L cell with
  | some v' => exact ⟨v', rfl, get?_some_mem L cell v' hg⟩
  | none =>
    exfalso
    unfold get? at hg
    have : L.find? (fun q => q.1 == cell) = none := by
      cases hf : L.find? (fun q => q.1 == cell) with
      | none => rfl
      | some q => simp [hf] at hg
    rw [List.find?_eq_none] at this
    exact this _ h (by simp)

/-- a cell holding data is drawn as a data token -/
private theorem tokenAt_data (L : Labels) (hdata : ∀ p ∈ L, IsData p.2) (cell : Cell) (v : String) (h : (cell, v) ∈ L) :
    IsData (tokenAt L cell) := by
  obtain ⟨v', hg, hm⟩ := get?_of_mem L cell v h
  have hd := hdata _ hm
  simp only at hd
  unfold tokenAt
  rw [hg]
  simp only [hd.2.1]
  exact hd

private theorem drawRow_get (k : Kind) (L : Labels) (M o W ln : Int) (c : Nat) :
    (drawRow k L M o W ln)[c]? = if (c : Int) < W then some (tokenAt L (cellOf k M o (c : Int) ln)) else none := by
  simp only [drawRow, List.getElem?_map, pyRange_get]
  split <;> simp

private theorem drawRow_length (k : Kind) (L : Labels) (M o W ln : Int) : (drawRow k L M o W ln).length = W.toNat := by
  simp [drawRow, pyRange]

private theorem drawRow_last (k : Kind) (L : Labels) (M o W ln : Int) (hW : 1 ≤ W) :
    (drawRow k L M o W ln).getLast? = some (tokenAt L (cellOf k M o (W - 1) ln)) := by
  rw [List.getLast?_eq_getElem?, drawRow_length, drawRow_get]
  have h1 : ((W.toNat - 1 : Nat) : Int) = W - 1 := by omega
  have h2 : ((W.toNat - 1 : Nat) : Int) < W := by omega
  rw [if_pos h2, h1]

/-- **dimension inference recovers the outline of a tips-up map** of any radius as soon as `(M, 0)` holds data
and no cell lies beyond ring `M` -/
theorem tips_dims_complete (L : Labels) (M : Int)
    (hring : ∀ p ∈ L, p.1.1 + p.1.2 ≤ M) (hA : ∃ v, ((M, 0), v) ∈ L) :
    dimsFromData .tips L = some (M, 0, M * 2 + 1, M * 2 + 1) := by
  obtain ⟨vA, hAm⟩ := hA
  have hne : L.isEmpty = false := by cases L with | nil => cases hAm | cons _ _ => rfl
  unfold dimsFromData
  simp only [hne, Bool.false_eq_true, ↓reduceIte]
  have hij : maxD 0 ((L.map (·.1)).map (fun c => c.1 + c.2)) = M := by
    apply maxD_eq
    · exact List.mem_map.mpr ⟨(M, 0), List.mem_map.mpr ⟨_, hAm, rfl⟩, by simp⟩
    · intro x hx
      obtain ⟨c, hc, rfl⟩ := List.mem_map.mp hx
      obtain ⟨p, hp, rfl⟩ := List.mem_map.mp hc
      exact hring p hp
  simp only [hij]

theorem tips_window (M o i j : Int) (h1 : -M ≤ i) (h2 : i ≤ M) (h3 : -M ≤ i + j) (h4 : i + j ≤ M) :
    ∃ c l, 0 ≤ c ∧ c < M * 2 + 1 ∧ 0 ≤ l ∧ l < M * 2 + 1 ∧ cellOf .tips M o c l = (i, j) :=
  ⟨i + M, M - i - j, by omega, by omega, by omega, by omega, tips_cell_inverse M o i j⟩

/-- **tips-up maps, write then read, any radius** (`_partial`: data labels): contents inside the hexagon of radius
`M` that hold data at the two anchor cells `(M, 0)` (end of the top text line; fixes the radius) and `(M, -M)` (end
of the widest text line; lets the reader re-infer the radius) — in particular every complete pin map — are drawn
and read back with every label at its own index. -/
theorem tips_write_read_id_partial (L : Labels) (m : AMap) (M : Int) (hM : 0 ≤ M)
    (hdata : ∀ p ∈ L, IsData p.2)
    (hhex : ∀ p ∈ L, -M ≤ p.1.1 ∧ p.1.1 ≤ M ∧ -M ≤ p.1.1 + p.1.2 ∧ p.1.1 + p.1.2 ≤ M)
    (hA : ∃ v, ((M, 0), v) ∈ L) (hC : ∃ v, ((M, -M), v) ∈ L)
    (hw : gridContentsToAscii .tips L = some m) :
    ∃ m', readAscii .tips m.lines = some m' ∧
      ∀ cell v, get? L cell = some v → get? m'.labels cell = some v := by
  have hdim := tips_dims_complete L M (fun p hp => (hhex p hp).2.2.2) hA
  obtain ⟨kd, hkd, hlines, hdash, _, _⟩ := drawn_lines .tips L m M 0 (M * 2 + 1) (M * 2 + 1) hdim hw
  obtain ⟨vA, hAm⟩ := hA
  obtain ⟨vC, hCm⟩ := hC
  have hraw : rawLines .tips L M 0 (M * 2 + 1) (M * 2 + 1) =
      (pyRange (M * 2 + 1)).map (drawRow .tips L M 0 (M * 2 + 1)) := by simp [rawLines]
  have hHn : (M * 2 + 1).toNat = 2 * M.toNat + 1 := by omega
  -- no leading row is dropped: the top row ends with the data of (M, 0)
  have hkd0 : kd = 0 := by
    rcases Nat.eq_zero_or_pos kd with h | h
    · exact h
    · exfalso
      have hfirst : (rawLines .tips L M 0 (M * 2 + 1) (M * 2 + 1))[0]? = some (drawRow .tips L M 0 (M * 2 + 1) 0) := by
        rw [hraw, List.getElem?_map, pyRange_get]
        have h0 : (0 : Int) < M * 2 + 1 := by omega
        simp [h0]
      have hin : drawRow .tips L M 0 (M * 2 + 1) 0 ∈ (rawLines .tips L M 0 (M * 2 + 1) (M * 2 + 1)).take kd := by
        have : ((rawLines .tips L M 0 (M * 2 + 1) (M * 2 + 1)).take kd)[0]? = some (drawRow .tips L M 0 (M * 2 + 1) 0) := by
          rw [List.getElem?_take, if_pos h]; exact hfirst
        exact List.mem_of_getElem? this
      have hd := hdash _ hin
      have hlast := drawRow_last .tips L M 0 (M * 2 + 1) 0 (by omega)
      have hcell : cellOf .tips M 0 (M * 2 + 1 - 1) 0 = (M, 0) := by
        simp only [cellOf, tipsBase, Prod.mk.injEq]; omega
      rw [hcell] at hlast
      have htd := tokenAt_data L hdata (M, 0) vA hAm
      have hmem := List.mem_of_getLast? hlast
      unfold rowAllDash at hd
      simp only [Bool.and_eq_true] at hd
      have hall := List.all_eq_true.mp hd.2 _ hmem
      rw [htd.2.2.2] at hall; cases hall
  subst hkd0
  simp only [List.drop_zero] at hlines
  -- the reader re-infers the radius from the widest line, the one ending in (M, -M)
  have hre : readerDims .tips m.lines = (M, 0) := by
    unfold readerDims
    simp only [Prod.mk.injEq, and_true]
    have hmax : maxD 0 (m.lines.map (fun l => (l.length : Int))) = M * 2 + 1 := by
      apply maxD_eq
      · -- the middle line
        have hmid : drawRow .tips L M 0 (M * 2 + 1) M ∈ rawLines .tips L M 0 (M * 2 + 1) (M * 2 + 1) := by
          rw [hraw]
          refine List.mem_map.mpr ⟨M, ?_, rfl⟩
          simp only [pyRange, List.mem_map, List.mem_range]
          exact ⟨M.toNat, by omega, by simp; omega⟩
        have hlast := drawRow_last .tips L M 0 (M * 2 + 1) M (by omega)
        have hcell : cellOf .tips M 0 (M * 2 + 1 - 1) M = (M, -M) := by
          simp only [cellOf, tipsBase, Prod.mk.injEq]; omega
        rw [hcell] at hlast
        have htd := tokenAt_data L hdata (M, -M) vC hCm
        have hrt := removeTrailing_of_last_data _ _ hlast htd.2.2.1
        rw [hlines]
        refine List.mem_map.mpr ⟨removeTrailing (drawRow .tips L M 0 (M * 2 + 1) M), List.mem_map.mpr ⟨_, hmid, rfl⟩, ?_⟩
        rw [hrt, drawRow_length]; omega
      · intro x hx
        obtain ⟨l, hl, rfl⟩ := List.mem_map.mp hx
        rw [hlines] at hl
        obtain ⟨row, hrow, rfl⟩ := List.mem_map.mp hl
        rw [hraw] at hrow
        obtain ⟨ln, _, rfl⟩ := List.mem_map.mp hrow
        have := removeTrailing_length_le (drawRow .tips L M 0 (M * 2 + 1) ln)
        rw [drawRow_length] at this
        omega
    rw [hmax]; omega
  apply write_read_complete_partial .tips L m M 0 (M * 2 + 1) (M * 2 + 1) hdim hdata _ hw (fun _ => hre)
  · intro _
    rw [hlines, List.length_map, hraw, List.length_map]; simp [pyRange]
  · intro p hp
    obtain ⟨h1, h2, h3, h4⟩ := hhex p hp
    exact tips_window M 0 p.1.1 p.1.2 h1 h2 h3 h4

private theorem enum_mem {α} (l : List α) (x : Int × α) (h : x ∈ enum l) : ∃ i : Nat, x.1 = (i : Int) ∧ l[i]? = some x.2 := by
  unfold enum at h
  obtain ⟨i, hi⟩ := List.getElem?_of_mem h
  obtain ⟨x1, x2⟩ := x
  rw [List.getElem?_zip_eq_some] at hi
  obtain ⟨h1, h2⟩ := hi
  refine ⟨i, ?_, h2⟩
  simp only [List.getElem?_map] at h1
  rcases Nat.lt_or_ge i l.length with hi | hi
  · rw [List.getElem?_range hi] at h1
    simp at h1; exact h1.symm
  · rw [List.getElem?_eq_none (by simpa using hi)] at h1
    simp at h1

/-- every key of a dictionary read from a text is the index computed for an actual text position -/
theorem readLabels_mem (k : Kind) (M o : Int) (lines : List (List String)) (q : Cell × String)
    (h : q ∈ readLabels k M o lines) :
    ∃ (l c : Nat) (row : List String), (if k = .tips then lines else lines.reverse)[l]? = some row ∧
      c < row.length ∧ q.1 = cellOf k M o (c : Int) (l : Int) := by
  unfold readLabels at h
  simp only [] at h
  generalize hord : (if k = Kind.tips then lines else lines.reverse) = ordered at h ⊢
  let P : Cell × String → Prop := fun q => ∃ (l c : Nat) (row : List String), ordered[l]? = some row ∧
      c < row.length ∧ q.1 = cellOf k M o (c : Int) (l : Int)
  have hinner : ∀ (toks : List (Int × String)) (l : Nat) (row : List String) (acc : Labels),
      ordered[l]? = some row → (∀ ct ∈ toks, ∃ c : Nat, ct.1 = (c : Int) ∧ c < row.length) → (∀ q ∈ acc, P q) →
      ∀ q ∈ toks.foldl (fun a (ct : Int × String) => put a (cellOf k M o ct.1 (l : Int)) ct.2) acc, P q := by
    intro toks
    induction toks with
    | nil => intro l row acc _ _ hacc q hq; exact hacc q hq
    | cons ct toks ih =>
      intro l row acc hrow htoks hacc q hq
      simp only [List.foldl_cons] at hq
      apply ih l row _ hrow (fun x hx => htoks x (List.mem_cons_of_mem _ hx)) _ q hq
      intro q' hq'
      rcases put_mem _ _ _ _ hq' with h1 | h1
      · exact hacc q' h1
      · subst h1
        obtain ⟨c, hc, hlt⟩ := htoks ct List.mem_cons_self
        exact ⟨l, c, row, hrow, hlt, by simp only [hc]⟩
  have houter : ∀ (rows : List (Int × List String)) (acc : Labels),
      (∀ ll ∈ rows, ∃ l : Nat, ll.1 = (l : Int) ∧ ordered[l]? = some ll.2) → (∀ q ∈ acc, P q) →
      ∀ q ∈ rows.foldl (fun acc (ll : Int × List String) =>
        (enum ll.2).foldl (fun a (ct : Int × String) => put a (cellOf k M o ct.1 ll.1) ct.2) acc) acc, P q := by
    intro rows
    induction rows with
    | nil => intro acc _ hacc q hq; exact hacc q hq
    | cons ll rows ih =>
      intro acc hrows hacc q hq
      simp only [List.foldl_cons] at hq
      apply ih _ (fun x hx => hrows x (List.mem_cons_of_mem _ hx)) _ q hq
      obtain ⟨l, hl, hrow⟩ := hrows ll List.mem_cons_self
      rw [hl]
      apply hinner (enum ll.2) l ll.2 acc hrow _ hacc
      intro ct hct
      obtain ⟨c, hc, hget⟩ := enum_mem ll.2 ct hct
      refine ⟨c, hc, ?_⟩
      rcases Nat.lt_or_ge c ll.2.length with h | h
      · exact h
      · rw [List.getElem?_eq_none h] at hget; cases hget
  exact houter (enum ordered) [] (fun ll hll => enum_mem ordered ll hll) (by simp) q h

private theorem get?_of_mem_nodup (L : Labels) (hnd : (L.map (·.1)).Nodup) (p : Cell × String) (hp : p ∈ L) :
    get? L p.1 = some p.2 := by
  induction L with
  | nil => cases hp
  | cons q L ih =>
    simp only [List.map_cons, List.nodup_cons] at hnd
    rcases List.mem_cons.mp hp with rfl | hp'
    · simp [get?]
    · have hne : (q.1 == p.1) = false := by
        simp; intro hc; apply hnd.1; rw [hc]; exact List.mem_map.mpr ⟨p, hp', rfl⟩
      have := ih hnd.2 hp'
      simpa [get?, List.find?_cons, hne] using this

/-- **nothing is invented, in every class** (`_partial`: data labels; reader re-infers the writer's dimensions; tips-up:
no leading row dropped): every non-placeholder label read back from a drawing sits at an index where the contents
hold exactly that label. Together with `write_read_complete_partial` the drawing then reads back to the contents,
no more and no less. -/
theorem read_back_nothing_invented_partial (k : Kind) (L : Labels) (m m' : AMap) (M o W H : Int)
    (hdim : dimsFromData k L = some (M, o, W, H))
    (hdata : ∀ p ∈ L, IsData p.2)
    (hw : gridContentsToAscii k L = some m)
    (hre : k ≠ .third → readerDims k m.lines = (M, o))
    (htop : k = .tips → m.lines.length = H.toNat)
    (hr : readAscii k m.lines = some m') :
    ∀ q ∈ m'.labels, q.2 ≠ PLACEHOLDER → get? L q.1 = some q.2 := by
  intro q hq hne
  obtain ⟨kd, hkd, hlines, _, _, _⟩ := drawn_lines k L m M o W H hdim hw
  have hlab : m'.labels = readLabels k M o m.lines := by
    rw [readAscii_labels k m.lines m' hr]
    by_cases hk3 : k = .third
    · subst hk3; rfl
    · rw [hre hk3]
  rw [hlab] at hq
  obtain ⟨l, c, row, hrow, hc, hkey⟩ := readLabels_mem k M o m.lines q hq
  have hval : get? (readLabels k M o m.lines) q.1 = some q.2 :=
    get?_of_mem_nodup _ (readLabels_keys_nodup k M o m.lines) q hq
  rw [hkey, read_keeps_every_token k M o m.lines c l (by omega)] at hval
  have hlook : rowsLookup (if k = .tips then m.lines else m.lines.reverse) 0 (c : Int) (l : Int) = row[c]? := by
    unfold rowsLookup
    have h0 : ((0 : Nat) : Int) ≤ (l : Int) ∧ (0 : Int) ≤ (c : Int) := by omega
    rw [if_pos h0]
    have : ((l : Int) - ((0 : Nat) : Int)).toNat = l := by omega
    simp [this, hrow]
  rw [hlook, List.getElem?_eq_getElem hc] at hval
  -- the row is a trimmed drawn row
  have hraw_len : (rawLines k L M o W H).length = H.toNat := by unfold rawLines; split <;> simp [pyRange]
  have hrowdrawn : ∃ ln : Int, row = removeTrailing (drawRow k L M o W ln) ∧ cellOf k M o (c : Int) ln = cellOf k M o (c : Int) (l : Int) := by
    by_cases hk : k = .tips
    · have hkd0 : kd = 0 := by
        have := htop hk
        rw [hlines, List.length_map, List.length_drop, hraw_len] at this
        omega
      subst hk
      simp only [↓reduceIte] at hrow
      rw [hlines, hkd0, List.drop_zero, List.getElem?_map] at hrow
      simp only [rawLines, ↓reduceIte, List.getElem?_map, pyRange_get] at hrow
      split at hrow
      · simp only [Option.map_some, Option.some.injEq] at hrow
        exact ⟨(l : Int), hrow.symm, rfl⟩
      · simp at hrow
    · simp only [hk, ↓reduceIte] at hrow
      rw [hlines, ← List.map_reverse, List.reverse_drop, List.getElem?_map, List.getElem?_take] at hrow
      split at hrow
      · have hrev : (rawLines k L M o W H).reverse = (pyRange H).map (drawRow k L M o W) := by
          simp only [rawLines, hk, ↓reduceIte]
          rw [← List.map_reverse, List.reverse_reverse]
        rw [hrev, List.getElem?_map, pyRange_get] at hrow
        split at hrow
        · simp only [Option.map_some, Option.some.injEq] at hrow
          exact ⟨(l : Int), hrow.symm, rfl⟩
        · simp at hrow
      · simp at hrow
  obtain ⟨ln, hrowln, hcellln⟩ := hrowdrawn
  -- its token at column c is the drawn token of that index
  have htokrow : (drawRow k L M o W ln)[c]? = some (row[c]'hc) := by
    obtain ⟨suf, hsplit, _⟩ := removeTrailing_spec (drawRow k L M o W ln)
    rw [hsplit]
    apply prefix_get
    rw [← hrowln]; exact List.getElem?_eq_getElem hc
  rw [drawRow_get] at htokrow
  split at htokrow
  · simp only [Option.some.injEq] at htokrow hval
    rw [hcellln, ← hkey] at htokrow
    -- q.2 is what the writer draws for index q.1
    have hq2 : tokenAt L q.1 = q.2 := by rw [htokrow, hval]
    unfold tokenAt at hq2
    cases hg : get? L q.1 with
    | none => rw [hg] at hq2; exact absurd hq2.symm hne
    | some v =>
      rw [hg] at hq2
      simp only at hq2
      have hd := hdata _ (get?_some_mem L q.1 v hg)
      simp only at hd
      rw [hd.2.1] at hq2
      rw [hq2]
  · cases htokrow


/-- the same for full flats-up maps (the corner inference is shared with the third-core class) -/
theorem full_dims_complete (L : Labels) (M : Int) (hM : 0 ≤ M)
    (hring : ∀ p ∈ L, p.1.1 + p.1.2 ≤ M)
    (hA : ∃ v, ((M, 0), v) ∈ L)
    (hB : 1 ≤ M → ∃ v, ((M - 1, 1), v) ∈ L)
    (hB0 : M = 0 → ∀ p ∈ L, p.1.2 ≠ 1) :
    dimsFromData .full L = some (M, 0, M + 1, M * 4 + 1 - 0 * 2) := by
  obtain ⟨vA, hAm⟩ := hA
  have hne : L.isEmpty = false := by cases L with | nil => cases hAm | cons _ _ => rfl
  unfold dimsFromData
  simp only [hne, Bool.false_eq_true, ↓reduceIte]
  -- ijMax
  have hij : maxD 0 ((L.map (·.1)).map (fun c => c.1 + c.2)) = M := by
    apply maxD_eq
    · exact List.mem_map.mpr ⟨(M, 0), List.mem_map.mpr ⟨_, hAm, rfl⟩, by simp⟩
    · intro x hx
      obtain ⟨c, hc, rfl⟩ := List.mem_map.mp hx
      obtain ⟨p, hp, rfl⟩ := List.mem_map.mp hc
      exact hring p hp
  -- outermost data on the j = 0 ray
  have h0 : maxD (-1) (((L.map (·.1)).filter (fun c => c.2 == 0)).map (·.1)) = M := by
    apply maxD_eq
    · refine List.mem_map.mpr ⟨(M, 0), List.mem_filter.mpr ⟨List.mem_map.mpr ⟨_, hAm, rfl⟩, by simp⟩, rfl⟩
    · intro x hx
      obtain ⟨c, hc, rfl⟩ := List.mem_map.mp hx
      obtain ⟨hc1, hc2⟩ := List.mem_filter.mp hc
      obtain ⟨p, hp, rfl⟩ := List.mem_map.mp hc1
      have := hring p hp
      have h2 : p.1.2 = 0 := by simpa using hc2
      omega
  -- and on the j = 1 ray
  have h1 : maxD (-1) (((L.map (·.1)).filter (fun c => c.2 == 1)).map (·.1)) = M - 1 := by
    by_cases hM1 : 1 ≤ M
    · obtain ⟨vB, hBm⟩ := hB hM1
      apply maxD_eq
      · refine List.mem_map.mpr ⟨(M - 1, 1), List.mem_filter.mpr ⟨List.mem_map.mpr ⟨_, hBm, rfl⟩, by simp⟩, rfl⟩
      · intro x hx
        obtain ⟨c, hc, rfl⟩ := List.mem_map.mp hx
        obtain ⟨hc1, hc2⟩ := List.mem_filter.mp hc
        obtain ⟨p, hp, rfl⟩ := List.mem_map.mp hc1
        have := hring p hp
        have h2 : p.1.2 = 1 := by simpa using hc2
        omega
    · -- M = 0: nothing on the j = 1 ray at all
      have hM0 : M = 0 := by omega
      have hnil : ((L.map (·.1)).filter (fun c => c.2 == 1)).map (·.1) = [] := by
        rw [List.map_eq_nil_iff, List.filter_eq_nil_iff]
        intro c hc
        obtain ⟨p, hp, rfl⟩ := List.mem_map.mp hc
        have := hB0 hM0 p hp
        simpa using this
      rw [hnil, maxD_empty]; omega
  simp only [hij, h0, h1]
  simp



theorem full_window (M i j : Int) (h1 : -M ≤ i) (h2 : i ≤ M) (h3 : -M ≤ j) (h4 : j ≤ M) (h5 : -M ≤ i + j) (h6 : i + j ≤ M) :
    ∃ c l, 0 ≤ c ∧ c < M + 1 ∧ 0 ≤ l ∧ l < M * 4 + 1 - 0 * 2 ∧ cellOf .full M 0 c l = (i, j) := by
  refine ⟨(fullBase M 0 (i + 2 * j + 2 * M - 0)).2 - j, i + 2 * j + 2 * M - 0, ?_, ?_, by omega, by omega,
    full_cell_inverse M 0 i j⟩
  · have h := full_cell_inverse M 0 i j
    simp only [cellOf, Prod.mk.injEq] at h
    have hb : (fullBase M 0 (i + 2 * j + 2 * M - 0)).1 ≤ i := by
      unfold fullBase
      simp only []
      split
      · simp only []; omega
      · split <;> (simp only []; omega)
    omega
  · have h := full_cell_inverse M 0 i j
    simp only [cellOf, Prod.mk.injEq] at h
    have hb : i - 2 * M ≤ (fullBase M 0 (i + 2 * j + 2 * M - 0)).1 := by
      unfold fullBase
      simp only []
      split
      · simp only []; omega
      · split <;> (simp only []; omega)
    omega

/-- **full flats-up maps, write then read, any radius** (`_partial`: data labels): contents inside the hexagon of
radius `M` that hold data at the anchor cells `(M, 0)`, `(M - 1, 1)` (corner inference), `(0, -M)` (the single cell of
the bottom text line, from which the reader infers that no corner was cut) and `(M, -M)` (end of the widest text
line, from which it infers the radius) — in particular every complete core map — are drawn and read back with every
label at its own index. -/
theorem full_write_read_id_partial (L : Labels) (m : AMap) (M : Int) (hM : 0 ≤ M)
    (hdata : ∀ p ∈ L, IsData p.2)
    (hhex : ∀ p ∈ L, -M ≤ p.1.1 ∧ p.1.1 ≤ M ∧ -M ≤ p.1.2 ∧ p.1.2 ≤ M ∧ -M ≤ p.1.1 + p.1.2 ∧ p.1.1 + p.1.2 ≤ M)
    (hA : ∃ v, ((M, 0), v) ∈ L)
    (hB : 1 ≤ M → ∃ v, ((M - 1, 1), v) ∈ L)
    (hB0 : M = 0 → ∀ p ∈ L, p.1.2 ≠ 1)
    (hC : ∃ v, ((M, -M), v) ∈ L) (hD : ∃ v, ((0, -M), v) ∈ L)
    (hw : gridContentsToAscii .full L = some m) :
    ∃ m', readAscii .full m.lines = some m' ∧
      ∀ cell v, get? L cell = some v → get? m'.labels cell = some v := by
  have hdim := full_dims_complete L M hM (fun p hp => (hhex p hp).2.2.2.2.2) hA hB hB0
  obtain ⟨kd, hkd, hlines, hdash, _, hne⟩ := drawn_lines .full L m M 0 (M + 1) (M * 4 + 1 - 0 * 2) hdim hw
  obtain ⟨vC, hCm⟩ := hC
  obtain ⟨vD, hDm⟩ := hD
  have hk : (Kind.full = Kind.tips) = False := by simp
  have hraw : rawLines .full L M 0 (M + 1) (M * 4 + 1 - 0 * 2) =
      (pyRange (M * 4 + 1 - 0 * 2)).reverse.map (drawRow .full L M 0 (M + 1)) := by simp [rawLines]
  have hrawlen : (rawLines .full L M 0 (M + 1) (M * 4 + 1 - 0 * 2)).length = (M * 4 + 1 - 0 * 2).toNat := by
    rw [hraw]; simp [pyRange]
  -- the bottom text line: the single cell (0, -M)
  have hbottom : removeTrailing (drawRow .full L M 0 (M + 1) 0) = [tokenAt L (0, -M)] := by
    have hsplit : drawRow .full L M 0 (M + 1) 0 = (drawRow .full L M 0 (M + 1) 0).take 1 ++ (drawRow .full L M 0 (M + 1) 0).drop 1 :=
      (List.take_append_drop 1 _).symm
    have hcell0 : cellOf .full M 0 0 0 = (0, -M) := by
      simp only [cellOf, fullBase]
      split
      · simp only [Prod.mk.injEq]; omega
      · split <;> (simp only [Prod.mk.injEq]; omega)
    have htake : (drawRow .full L M 0 (M + 1) 0).take 1 = [tokenAt L (0, -M)] := by
      apply List.ext_getElem?
      intro i
      rw [List.getElem?_take]
      cases i with
      | zero =>
        have : ((0 : Nat) : Int) < M + 1 := by omega
        simp only [Nat.lt_one_iff, ↓reduceIte, drawRow_get, this, List.getElem?_cons_zero]
        simp only [Int.natCast_zero, hcell0]
      | succ i => simp
    have hdrop : ∀ t ∈ (drawRow .full L M 0 (M + 1) 0).drop 1, t = PLACEHOLDER := by
      intro t ht
      obtain ⟨i, hi⟩ := List.getElem?_of_mem ht
      rw [List.getElem?_drop, drawRow_get] at hi
      split at hi
      · simp only [Option.some.injEq] at hi
        rw [← hi]
        unfold tokenAt
        cases hg : get? L (cellOf .full M 0 ((1 + i : Nat) : Int) 0) with
        | none => rfl
        | some v =>
          exfalso
          have hmem := get?_some_mem L _ v hg
          have hb := (hhex _ hmem).2.2.1
          have hj : (cellOf .full M 0 ((1 + i : Nat) : Int) 0).2 < -M := by
            simp only [cellOf, fullBase]
            split
            · simp only []; omega
            · split <;> (simp only []; omega)
          simp only at hb
          omega
      · cases hi
    rw [hsplit, removeTrailing_append_placeholders _ _ hdrop, htake]
    have htd := tokenAt_data L hdata (0, -M) vD hDm
    exact removeTrailing_of_last_data _ _ (by simp) htd.2.2.1
  -- the last drawn line is that bottom line
  have hlast : m.lines.getLast? = some [tokenAt L (0, -M)] := by
    have hrl : (rawLines .full L M 0 (M + 1) (M * 4 + 1 - 0 * 2)).getLast? = some (drawRow .full L M 0 (M + 1) 0) := by
      rw [hraw, List.getLast?_map, List.getLast?_reverse]
      have : (pyRange (M * 4 + 1 - 0 * 2)).head? = some 0 := by
        have h1 : (pyRange (M * 4 + 1 - 0 * 2))[0]? = some ((0 : Nat) : Int) := by
          rw [pyRange_get]; have h0 : (0 : Int) < M * 4 + 1 := by omega
          simp [h0]
        rw [List.head?_eq_getElem?]; simpa using h1
      rw [this]; rfl
    have hdl : ((rawLines .full L M 0 (M + 1) (M * 4 + 1 - 0 * 2)).drop kd).getLast? = some (drawRow .full L M 0 (M + 1) 0) := by
      have hlt : kd < (rawLines .full L M 0 (M + 1) (M * 4 + 1 - 0 * 2)).length := by
        rcases Nat.lt_or_ge kd (rawLines .full L M 0 (M + 1) (M * 4 + 1 - 0 * 2)).length with h | h
        · exact h
        · exfalso; apply hne; rw [hlines, List.drop_of_length_le h]; rfl
      rw [List.getLast?_drop, if_neg (by omega)]; exact hrl
    rw [hlines, List.getLast?_map, hdl]
    simp [hbottom]
  -- the reader re-infers radius and corner cut
  have hre : readerDims .full m.lines = (M, 0) := by
    unfold readerDims
    have hmax : maxD 0 (m.lines.map (fun l => (l.length : Int))) = M + 1 := by
      apply maxD_eq
      · have hlM : (pyRange (M * 4 + 1 - 0 * 2))[M.toNat]? = some M := by
          rw [pyRange_get]
          have h2 : ((M.toNat : Nat) : Int) = M := by omega
          have h3 : M < M * 4 + 1 := by omega
          simp [h2, h3]
        have hmidraw : drawRow .full L M 0 (M + 1) M ∈ rawLines .full L M 0 (M + 1) (M * 4 + 1 - 0 * 2) := by
          rw [hraw]
          exact List.mem_map.mpr ⟨M, List.mem_reverse.mpr (List.mem_of_getElem? hlM), rfl⟩
        -- that row ends with the data of (M, -M), so it is neither dropped nor trimmed
        have hlastM := drawRow_last .full L M 0 (M + 1) M (by omega)
        have hcell : cellOf .full M 0 (M + 1 - 1) M = (M, -M) := by
          simp only [cellOf, fullBase]
          split
          · omega
          · split <;> (simp only [Prod.mk.injEq]; omega)
        rw [hcell] at hlastM
        have htd := tokenAt_data L hdata (M, -M) vC hCm
        have hrt := removeTrailing_of_last_data _ _ hlastM htd.2.2.1
        have hmid : drawRow .full L M 0 (M + 1) M ∈ (rawLines .full L M 0 (M + 1) (M * 4 + 1 - 0 * 2)).drop kd := by
          have hsplit := List.take_append_drop kd (rawLines .full L M 0 (M + 1) (M * 4 + 1 - 0 * 2))
          rw [← hsplit] at hmidraw
          rcases List.mem_append.mp hmidraw with h | h
          · exfalso
            have hd := hdash _ h
            have hmemt := List.mem_of_getLast? hlastM
            unfold rowAllDash at hd
            simp only [Bool.and_eq_true] at hd
            have hall := List.all_eq_true.mp hd.2 _ hmemt
            rw [htd.2.2.2] at hall; cases hall
          · exact h
        refine List.mem_map.mpr ⟨removeTrailing (drawRow .full L M 0 (M + 1) M), ?_, ?_⟩
        · rw [hlines]; exact List.mem_map.mpr ⟨_, hmid, rfl⟩
        · rw [hrt, drawRow_length]; omega
      · intro x hx
        obtain ⟨l, hl, rfl⟩ := List.mem_map.mp hx
        rw [hlines] at hl
        obtain ⟨row, hrow, rfl⟩ := List.mem_map.mp hl
        have hrow' := List.mem_of_mem_drop hrow
        rw [hraw] at hrow'
        obtain ⟨ln, _, rfl⟩ := List.mem_map.mp hrow'
        have := removeTrailing_length_le (drawRow .full L M 0 (M + 1) ln)
        rw [drawRow_length] at this
        omega
    simp only [hmax, hlast, Option.getD_some, List.length_singleton, Prod.mk.injEq]
    omega
  apply write_read_complete_partial .full L m M 0 (M + 1) (M * 4 + 1 - 0 * 2) hdim hdata _ hw (fun _ => hre)
  · intro h; cases h
  · intro p hp
    obtain ⟨h1, h2, h3, h4, h5, h6⟩ := hhex p hp
    exact full_window M p.1.1 p.1.2 h1 h2 h3 h4 h5 h6

/-- **centring a full Cartesian map**: the kept contents are exactly the non-placeholder entries of the map, every one
moved by the same offset, and that offset is computed from the extent of the WHOLE map (placeholder rows and columns
at the edge count) -/
theorem cartCentre_mem (labels : Labels) (q : Cell × String) :
    q ∈ cartCentre labels ↔ ∃ p ∈ labels, p.2 ≠ PLACEHOLDER ∧
      q = ((p.1.1 + -((gridSize (labels.map (·.1))).1 / 2), p.1.2 + -((gridSize (labels.map (·.1))).2 / 2)), p.2) := by
  unfold cartCentre
  simp only [List.mem_map, List.mem_filter]
  constructor
  · rintro ⟨p, ⟨hp, hne⟩, rfl⟩; exact ⟨p, hp, by simpa using hne, rfl⟩
  · rintro ⟨p, hp, hne, rfl⟩; exact ⟨p, ⟨hp, by simpa using hne⟩, rfl⟩

/-! ### which map class reads and writes a grid blueprint -/

/-- the tips-up class is used exactly for `geom: hex_corners_up` with a full-core symmetry -/
theorem dispatch_tips_iff (g d : String) : dispatch g d = some .tips ↔ (g = "hex_corners_up" ∧ d = "full") := by
  unfold dispatch
  by_cases h : (g == "hex_corners_up" && d == "full") = true
  · simp only [h, if_true, true_iff]; simpa using h
  · simp only [h, Bool.false_eq_true, if_false]
    constructor
    · intro h2; split at h2 <;> simp at h2
    · intro h2; simp [h2.1, h2.2] at h

/-- a writer that dispatches on the PARSED geometry (corners-up collapsed to HEX) never draws a tips-up map: the class
has to be chosen from the geometry string, as reading does -/
theorem dispatchParsed_never_tips (g d : String) : dispatchParsed g d ≠ some .tips := by
  unfold dispatchParsed
  split
  · intro h; have := (dispatch_tips_iff "hex" d).mp h; simp at this
  · intro h; have := (dispatch_tips_iff "cartesian" d).mp h; simp at this
  · simp

/-- **the written lattice map is drawn by the class that reading dispatches to**: whatever `saveToStream` writes for
(geom, domain) is the drawing of `dispatch geom domain`, and `_readGridContentsLattice` reads it with that same class -/
theorem save_uses_reading_class (g d : String) (labels : Labels) (k : Kind) (lines : List (List String))
    (h : saveLattice g d labels = some (k, lines)) :
    dispatch g d = some k ∧
    readLattice g d lines = (readAscii k lines).map
      (fun m => if k == .cart && d == "full" then cartCentre m.labels else dataOf m.labels) := by
  unfold saveLattice at h
  cases hd : dispatch g d with
  | none => simp [hd] at h
  | some k' =>
    simp only [hd] at h
    split at h
    · simp at h
    · split at h
      · simp only [Option.some.injEq, Prod.mk.injEq] at h
        obtain ⟨rfl, _⟩ := h
        refine ⟨rfl, ?_⟩
        unfold readLattice
        simp only [hd]
        cases readAscii k' lines <;> simp
      · simp at h

private theorem get_dataOf (L : Labels) (cell : Cell) (v : String) (h : get? L cell = some v) (hv : v ≠ PLACEHOLDER) :
    get? (dataOf L) cell = some v := by
  induction L with
  | nil => simp [get?] at h
  | cons p ps ih =>
    unfold get? dataOf at *
    simp only [List.find?_cons, List.filter_cons] at h ⊢
    by_cases hk : (p.1 == cell) = true
    · simp only [hk] at h
      simp only [Option.map_some, Option.some.injEq] at h
      have hp : (p.2 != PLACEHOLDER) = true := by rw [h]; simpa using hv
      rw [if_pos hp, List.find?_cons, hk]
      simp [h]
    · simp only [hk] at h
      by_cases hp : (p.2 != PLACEHOLDER) = true
      · rw [if_pos hp, List.find?_cons]; simp only [hk]; exact ih h
      · rw [if_neg hp]; exact ih h

/-- **corners-up full-core lattices (the usual pin-lattice geometry), saved and read again** (`_partial`: data labels, the two
anchor cells `(M, 0)` and `(M, -M)` occupied — in particular every complete pin map): the lattice map that `saveToStream`
writes for `geom: hex_corners_up`, `symmetry: full` is read back by `_readGridContentsLattice` with every specifier at its
own index. -/
theorem corners_up_save_read_partial (L : Labels) (lines : List (List String)) (k : Kind) (M : Int) (hM : 0 ≤ M)
    (hdata : ∀ p ∈ L, IsData p.2)
    (hhex : ∀ p ∈ L, -M ≤ p.1.1 ∧ p.1.1 ≤ M ∧ -M ≤ p.1.1 + p.1.2 ∧ p.1.1 + p.1.2 ≤ M)
    (hA : ∃ v, ((M, 0), v) ∈ L) (hC : ∃ v, ((M, -M), v) ∈ L)
    (hs : saveLattice "hex_corners_up" "full" L = some (k, lines)) :
    k = .tips ∧ ∃ L', readLattice "hex_corners_up" "full" lines = some L' ∧
      ∀ cell v, get? L cell = some v → get? L' cell = some v := by
  have hd : dispatch "hex_corners_up" "full" = some .tips := by decide +kernel
  unfold saveLattice at hs
  simp only [hd] at hs
  have hk : (Kind.tips == Kind.cart && "full" == "full") = false := by decide
  simp only [hk, Bool.false_eq_true, if_false] at hs
  cases hw : gridContentsToAscii .tips L with
  | none => simp [hw] at hs
  | some m =>
    simp only [hw] at hs
    split at hs
    · simp only [Option.some.injEq, Prod.mk.injEq] at hs
      obtain ⟨rfl, rfl⟩ := hs
      refine ⟨rfl, ?_⟩
      obtain ⟨m', hr, hall⟩ := tips_write_read_id_partial L m M hM hdata hhex hA hC hw
      refine ⟨dataOf m'.labels, ?_, ?_⟩
      · unfold readLattice; simp only [hd, hr, hk, Bool.false_eq_true, if_false]
      · intro cell v hv
        have hmem : (cell, v) ∈ L := by
          unfold get? at hv
          cases hf : L.find? (fun p => p.1 == cell) with
          | none => simp [hf] at hv
          | some p =>
            simp [hf] at hv
            have := List.mem_of_find?_eq_some hf
            have hpk := List.find?_some hf
            simp at hpk
            rw [← hv, ← hpk]; exact this
        exact get_dataOf _ _ _ (hall cell v hv) (hdata _ hmem).2.2.1
    · cases hs


example : saveLattice "hex_corners_up" "full" [((0, 0), "A"), ((1, 0), "B"), ((0, 1), "C"), ((-1, 1), "A"), ((-1, 0), "A"), ((0, -1), "A"), ((1, -1), "D")]
    = some (.tips, [["-", "C", "B"], ["A", "A", "D"], ["A", "A"]]) := by decide +kernel
example : dispatch "hex_corners_up" "full" = some .tips ∧ dispatch "hex" "full" = some .full ∧ dispatch "hex_corners_up" "third" = some .third
    ∧ dispatch "cartesian" "quarter" = some .cart ∧ dispatch "cartesian" "eighth" = none := by decide +kernel


section Examples
/-! Non-vacuity: concrete instances of the hypotheses. -/
private def exL : Labels := [((0, 0), "A"), ((1, 0), "F1"), ((0, 1), "C"), ((2, 1), "B")]

example : ∀ p ∈ exL, 0 ≤ p.1.1 ∧ 0 ≤ p.1.2 := by decide
example : IsData "A" ∧ IsData "F1" := by unfold IsData; decide
/-- the writer does draw these contents (the premise of `cart_write_read_id` is satisfiable) -/
example : (gridContentsToAscii .cart exL).map (·.lines) = some [["C", "-", "B"], ["A", "F1"]] := by decide +kernel
/-- two distinct text cells of a third-core map (lines counted from the bottom) -/
example : cellOf .third 0 0 1 4 ≠ cellOf .third 0 0 0 5 := by decide
private def exText : List (List String) := [["C", "-", "B", "-"], ["A", "F1"]]
/-- hypotheses of `cart_read_write_id` for a two-line text (tokens are data or placeholders, every line holds data) -/
example : (∀ row ∈ exText, ∀ t ∈ row, t = PLACEHOLDER ∨ IsData t) ∧ (∀ row ∈ exText, ∃ t ∈ row, IsData t) := by
  unfold IsData; decide
example : ((readAscii .cart exText).bind (fun m => gridContentsToAscii .cart (dataOf m.labels))).map (·.lines) =
    some [["C", "-", "B"], ["A", "F1"]] := by decide +kernel
private def exThird : Labels :=
  [((0, 0), "A"), ((0, 1), "B"), ((0, 2), "C"), ((1, 0), "D"), ((1, 1), "E"), ((2, -1), "F"), ((2, 0), "G")]
/-- hypotheses of `third_write_read_id_partial` for the complete third-core map of radius 2 (7 cells) -/
example : (∀ p ∈ exThird, p.1.1 ≤ 2 ∧ p.1.1 + p.1.2 ≤ 2 ∧ p.1.2 ≤ 2) ∧
    (∀ p ∈ exThird, 0 ≤ p.1.1 + 2 * p.1.2 ∧ (thirdBase (p.1.1 + 2 * p.1.2)).1 ≤ p.1.1) ∧
    ((2, 0), "G") ∈ exThird ∧ ((1, 1), "E") ∈ exThird := by decide
example : (gridContentsToAscii .third exThird).map (·.lines) =
    some [["C"], ["E"], ["B", "G"], ["D"], ["A", "F"]] := by decide +kernel
private def exHex : Labels :=
  [((0, 0), "A"), ((1, 0), "B"), ((-1, 0), "C"), ((0, 1), "D"), ((0, -1), "E"), ((1, -1), "F"), ((-1, 1), "G")]
/-- hypotheses of `write_read_complete_partial` for a complete 1-ring tips-up hexagon: dimensions, window,
re-inferred dimensions and line count all check -/
example : dimsFromData .tips exHex = some (1, 0, 3, 3) := by decide +kernel
example : ∀ p ∈ exHex, ∃ c l, 0 ≤ c ∧ c < 3 ∧ 0 ≤ l ∧ l < 3 ∧ cellOf .tips 1 0 c l = p.1 := by
  intro p hp
  simp only [exHex, List.mem_cons, List.mem_nil_iff, or_false] at hp
  rcases hp with rfl | rfl | rfl | rfl | rfl | rfl | rfl
  · exact ⟨1, 1, by decide⟩
  · exact ⟨2, 0, by decide⟩
  · exact ⟨0, 2, by decide⟩
  · exact ⟨1, 0, by decide⟩
  · exact ⟨1, 2, by decide⟩
  · exact ⟨2, 1, by decide⟩
  · exact ⟨0, 1, by decide⟩
example : (gridContentsToAscii .tips exHex).map (fun m => (readerDims .tips m.lines, m.lines.length)) = some ((1, 0), 3) := by
  decide +kernel
end Examples

end ArmiVerif.AsciiMap

namespace ArmiVerif.Blueprint

private theorem stackFrom_length (b : Rat) (hs : List Rat) : (stackFrom b hs).length = hs.length := by
  induction hs generalizing b with
  | nil => rfl
  | cons h hs ih => simp [stackFrom, ih]

theorem stack_length (hs : List Rat) : (stack hs).length = hs.length := stackFrom_length 0 hs

private theorem stackFrom_get (b : Rat) (hs : List Rat) (k : Nat) (hk : k < hs.length) :
    (stackFrom b hs)[k]'(by rw [stackFrom_length]; exact hk) =
      (b + (hs.take k).sum, b + (hs.take (k + 1)).sum) := by
  induction hs generalizing b k with
  | nil => simp at hk
  | cons h hs ih =>
    cases k with
    | zero => simp [stackFrom, Rat.add_zero]
    | succ k =>
      simp only [stackFrom, List.getElem_cons_succ, List.take_succ_cons, List.sum_cons]
      rw [ih (b + h) k (by simpa using hk)]
      simp [Rat.add_assoc]

/-- **cumulative heights**: block `k` of an assembly sits from the sum of the heights below it to that
sum plus its own height. -/
theorem stack_heights (hs : List Rat) (k : Nat) (hk : k < hs.length) :
    (stack hs)[k]'(by rw [stack_length]; exact hk) = ((hs.take k).sum, (hs.take (k + 1)).sum) := by
  unfold stack
  rw [stackFrom_get 0 hs k hk]
  simp [Rat.zero_add]

/-- the stack is contiguous: a block's top is the next block's bottom, the first bottom is 0,
and each block has exactly its specified height -/
theorem stack_contiguous (hs : List Rat) (k : Nat) (hk : k + 1 < hs.length) :
    ((stack hs)[k]'(by rw [stack_length]; omega)).2 = ((stack hs)[k + 1]'(by rw [stack_length]; exact hk)).1 := by
  rw [stack_heights hs k (by omega), stack_heights hs (k + 1) hk]

theorem stack_block_height (hs : List Rat) (k : Nat) (hk : k < hs.length) :
    ((stack hs)[k]'(by rw [stack_length]; exact hk)).2 =
      ((stack hs)[k]'(by rw [stack_length]; exact hk)).1 + hs[k] := by
  rw [stack_heights hs k hk]
  simp only []
  rw [List.take_add_one, List.sum_append]
  simp [List.getElem?_eq_getElem hk, Rat.add_zero]


private theorem resolve_succ (cs : List Comp) (n : Nat) (c k : String) :
    resolve cs (n + 1) c k =
      match declared cs c k with
      | none => none
      | some (.num q) => some q
      | some (.link c' k') => resolve cs n c' k' := by
  simp only [resolve, declared]
  cases findComp cs c with
  | none => rfl
  | some comp =>
    simp only [Option.bind_some]
    cases findDim comp k with
    | none => rfl
    | some d => cases d <;> rfl

/-- more recursion budget never changes a result that was reached -/
theorem resolve_mono (cs : List Comp) (n : Nat) (c k : String) (v : Rat)
    (h : resolve cs n c k = some v) : resolve cs (n + 1) c k = some v := by
  induction n generalizing c k with
  | zero => simp [resolve] at h
  | succ n ih =>
    rw [resolve_succ] at h ⊢
    cases hd : declared cs c k with
    | none => simp [hd] at h
    | some d =>
      cases d with
      | num q => simpa [hd] using h
      | link c' k' => simp only [hd] at h ⊢; exact ih c' k' h

/-- **links resolve over a DAG**: if the declared links are well-founded (a rank that strictly decreases
along every link) and closed (every link target is declared), every declared dimension resolves to a
number within `rank + 1` steps. -/
theorem links_resolve_dag (cs : List Comp) (rank : String → String → Nat)
    (hwf : ∀ c k c' k', declared cs c k = some (.link c' k') →
      rank c' k' < rank c k ∧ (declared cs c' k').isSome = true)
    (c k : String) (hdecl : (declared cs c k).isSome = true) :
    ∃ v, resolve cs (rank c k + 1) c k = some v := by
  generalize hn : rank c k = n
  induction n using Nat.strongRecOn generalizing c k with
  | _ n ih =>
    rw [resolve_succ]
    cases hd : declared cs c k with
    | none => simp [hd] at hdecl
    | some d =>
      cases d with
      | num q => exact ⟨q, rfl⟩
      | link c' k' =>
        obtain ⟨hlt, hsome⟩ := hwf c k c' k' hd
        obtain ⟨v, hv⟩ := ih (rank c' k') (by omega) c' k' hsome rfl
        refine ⟨v, ?_⟩
        simp only []
        -- lift the budget from rank c' k' + 1 to n
        have lift : ∀ m, resolve cs (rank c' k' + 1 + m) c' k' = some v := by
          intro m
          induction m with
          | zero => exact hv
          | succ m ihm => exact resolve_mono cs _ c' k' v ihm
        have : n = rank c' k' + 1 + (n - (rank c' k' + 1)) := by omega
        rw [this]; exact lift _

/-- the value a link chain resolves to is the number at its end: one link step -/
theorem resolve_link (cs : List Comp) (n : Nat) (c k c' k' : String)
    (h : declared cs c k = some (.link c' k')) : resolve cs (n + 1) c k = resolve cs n c' k' := by
  rw [resolve_succ, h]

/-- **cyclic links are rejected**: if a set of declared dimensions is closed under "links to" and
contains no number, none of them resolves, whatever the recursion budget. -/
theorem cyclic_links_rejected (cs : List Comp) (S : String → String → Prop)
    (hS : ∀ c k, S c k → ∃ c' k', declared cs c k = some (.link c' k') ∧ S c' k')
    (n : Nat) (c k : String) (h : S c k) : resolve cs n c k = none := by
  induction n generalizing c k with
  | zero => rfl
  | succ n ih =>
    obtain ⟨c', k', hd, hs⟩ := hS c k h
    rw [resolve_link cs n c k c' k' hd]
    exact ih c' k' hs

/-- an undeclared component or dimension is rejected -/
theorem unknown_link_rejected (cs : List Comp) (n : Nat) (c k : String)
    (h : declared cs c k = none) : resolve cs n c k = none := by
  cases n with
  | zero => rfl
  | succ n => rw [resolve_succ, h]

/-! ### placement -/

theorem bySpecifier_sound (ds : List AssemDesign) (s : String) (d : AssemDesign)
    (h : bySpecifier ds s = some d) : d ∈ ds ∧ d.specifier = s := by
  unfold bySpecifier at h
  exact ⟨List.mem_of_find?_eq_some h, by simpa using List.find?_some h⟩

/-- **placement is exact**: when construction succeeds, the placed list has exactly the locations of the
grid contents, in order, each with a design of the document carrying that location's specifier —
nothing missing, nothing extra. -/
theorem placement_exact (ds : List AssemDesign) (contents : List (Cell × String))
    (r : List (Cell × AssemDesign)) (h : place ds contents = some r) :
    r.map (·.1) = contents.map (·.1) ∧
    r.map (·.2.specifier) = contents.map (·.2) ∧
    ∀ q ∈ r, q.2 ∈ ds := by
  induction contents generalizing r with
  | nil => simp [place] at h; subst h; simp
  | cons p rest ih =>
    obtain ⟨loc, s⟩ := p
    simp only [place] at h
    cases hb : bySpecifier ds s with
    | none => simp [hb] at h
    | some d =>
      cases hr : place ds rest with
      | none => simp [hb, hr] at h
      | some r' =>
        simp only [hb, hr, Option.some.injEq] at h
        subst h
        obtain ⟨i1, i2, i3⟩ := ih r' hr
        obtain ⟨hm, hs⟩ := bySpecifier_sound ds s d hb
        refine ⟨by simp [i1], by simp [i2, hs], ?_⟩
        intro q hq
        rcases List.mem_cons.mp hq with rfl | hq
        · exact hm
        · exact i3 q hq

/-- **an unknown specifier is refused**, and only that -/
theorem place_refuses_iff (ds : List AssemDesign) (contents : List (Cell × String)) :
    place ds contents = none ↔ ∃ p ∈ contents, bySpecifier ds p.2 = none := by
  induction contents with
  | nil => simp [place]
  | cons p rest ih =>
    obtain ⟨loc, s⟩ := p
    simp only [place, List.mem_cons, exists_eq_or_imp]
    cases hb : bySpecifier ds s with
    | none => simp
    | some d =>
      cases hr : place ds rest with
      | none =>
        simp only [hr, true_iff] at ih
        obtain ⟨q, hq, hn⟩ := ih
        simp only [true_iff]
        exact Or.inr ⟨q, hq, hn⟩
      | some r' =>
        simp only [hr] at ih
        simp only [reduceCtorEq, false_or, false_iff]
        intro hex
        exact absurd (ih.mpr hex) (by simp)


/-- **lists of unequal length are refused**: if any per-block list has another length than the block list,
no block is built -/
theorem unequal_lists_refused (d : AssemDesign)
    (h : d.heights.length ≠ d.blocks.length ∨ d.xsTypes.length ≠ d.blocks.length ∨ d.meshPoints.length ≠ d.blocks.length) :
    pairBlocks d = none := by
  unfold pairBlocks consistent
  rcases h with h | h | h <;> simp [h]

/-- and when the lists agree, block `k` gets the `k`-th height, cross-section type and mesh count -/
theorem pairBlocks_get (d : AssemDesign) (r : List (String × Rat × String × Nat)) (h : pairBlocks d = some r)
    (k : Nat) (hk : k < d.blocks.length) :
    r[k]? = some (d.blocks[k], d.heights[k]'(by
        unfold pairBlocks consistent at h; split at h <;> simp_all),
      d.xsTypes[k]'(by unfold pairBlocks consistent at h; split at h <;> simp_all),
      d.meshPoints[k]'(by unfold pairBlocks consistent at h; split at h <;> simp_all)) := by
  unfold pairBlocks at h
  split at h
  · rename_i hc
    simp only [Option.some.injEq] at h
    subst h
    unfold consistent at hc
    simp only [Bool.and_eq_true, beq_iff_eq] at hc
    simp [hk, hc]
  · cases h

/-- **a block design stacked at several axial positions keeps the attributes of each position**: when positions `j` and `k`
hold the same design — even with equal heights and mesh counts — the blocks built there carry `xsTypes[j]` and `xsTypes[k]`
respectively (never the cross-section type of the first occurrence of the design) -/
theorem repeated_design_keeps_own_xs (d : AssemDesign) (r : List (String × Rat × String × Nat)) (h : pairBlocks d = some r)
    (j k : Nat) (hj : j < d.blocks.length) (hk : k < d.blocks.length) (_hsame : d.blocks[j] = d.blocks[k]) :
    ∃ pj pk, r[j]? = some pj ∧ r[k]? = some pk ∧
      pj.2.2.1 = d.xsTypes[j]'(by unfold pairBlocks consistent at h; split at h <;> simp_all) ∧
      pk.2.2.1 = d.xsTypes[k]'(by unfold pairBlocks consistent at h; split at h <;> simp_all) :=
  ⟨_, _, pairBlocks_get d r h j hj, pairBlocks_get d r h k hk, rfl, rfl⟩

example : pairBlocks ⟨"a", "A1", ["refl", "fuel", "fuel", "fuel", "refl"], [10, 25, 25, 25, 10], ["R", "A", "B", "C", "S"], [1, 2, 2, 2, 1]⟩ =
    some [("refl", 10, "R", 1), ("fuel", 25, "A", 2), ("fuel", 25, "B", 2), ("fuel", 25, "C", 2), ("refl", 10, "S", 1)] := by
  decide +kernel

/-- **a modifier list of the wrong length is refused**, by block or by component, whatever the other lists are -/
theorem unequal_modifier_list_refused (nBlocks : Nat) (lens : List Nat) (n : Nat) (hn : n ∈ lens) (hne : n ≠ nBlocks) :
    listsConsistent nBlocks lens = false := by
  unfold listsConsistent
  rw [Bool.eq_false_iff]
  intro h
  have := List.all_eq_true.mp h n hn
  exact hne (by simpa using this)

theorem mem_positions (grid : List (Cell × String)) (ids : List String) (c : Cell) :
    c ∈ positions grid ids ↔ ∃ s, (c, s) ∈ grid ∧ s ∈ ids := by
  unfold positions
  simp only [List.mem_map, List.mem_filter, List.contains_iff_mem]
  constructor
  · rintro ⟨p, ⟨hp, hs⟩, rfl⟩; exact ⟨p.2, hp, hs⟩
  · rintro ⟨s, hp, hs⟩; exact ⟨(c, s), ⟨hp, hs⟩, rfl⟩

/-- **the multiplicity of a lattice component is the number of its grid positions**: whenever the component
stands on at least one position and construction is not refused, `mult` is that number — whatever was declared -/
theorem mult_is_position_count (grid : List (Cell × String)) (ids : List String) (declared r : Option Rat)
    (hpos : 0 < (positions grid ids).length)
    (h : multFromGrid grid ids declared = some r) :
    r = some (((positions grid ids).length : Nat) : Rat) := by
  unfold multFromGrid learnMult at h
  have hn : ¬ (positions grid ids).length = 0 := by omega
  rw [if_neg hn] at h
  cases declared with
  | none => simpa using h.symm
  | some m =>
    simp only at h
    split at h
    · cases h
    · rename_i hc
      split at h
      · simpa using h.symm
      · rename_i hc2
        simp only [Option.some.injEq] at h
        rw [← h]
        have : m = ((positions grid ids).length : Rat) := by
          apply Decidable.byContradiction
          intro hne
          exact hc ⟨fun h0 => hc2 (Or.inl h0), fun h1 => hc2 (Or.inr h1), hne⟩
        rw [this]

/-- a declared multiplicity that is neither 0, 1 nor the number of positions is refused -/
theorem conflicting_mult_refused (grid : List (Cell × String)) (ids : List String) (m : Rat)
    (hpos : 0 < (positions grid ids).length)
    (h0 : m ≠ 0) (h1 : m ≠ 1) (hn : m ≠ ((positions grid ids).length : Rat)) :
    multFromGrid grid ids (some m) = none := by
  unfold multFromGrid learnMult
  have : ¬ (positions grid ids).length = 0 := by omega
  simp [this, h0, h1, hn]

/-- every flag read from a name word is a flag of the framework -/
theorem wordFlags_sound (known ws : List String) (f : String) (h : f ∈ wordFlags known ws) : f ∈ known := by
  unfold wordFlags at h
  obtain ⟨w, _, hw⟩ := List.mem_filterMap.mp h
  split at hw
  · rename_i hk; simp only [Option.some.injEq] at hw; rw [← hw]; exact List.contains_iff_mem.mp hk
  · simp only at hw
    split at hw
    · cases hw
    · split at hw
      · rename_i hk; simp only [Option.some.injEq] at hw; rw [← hw]; exact List.contains_iff_mem.mp hk
      · cases hw

example : wordFlags ["FUEL", "LOWER", "B10"] ["LOWER", "FUEL3", "2", "B10", "XYZ"] = ["LOWER", "FUEL", "B10"] := by decide
example : multFromGrid [((0, 0), "1"), ((1, 0), "2"), ((0, 1), "1")] ["1"] none = some (some 2) := by decide +kernel
example : multFromGrid [((0, 0), "1"), ((1, 0), "2"), ((0, 1), "1")] ["1"] (some 5) = none := by decide +kernel


/-! ### third-core maps with edge assemblies -/

/-- an edge assembly (120° line, any ring) is legal input: `Core.add` accepts it -/
theorem edge_cell_accepted (c : Cell) (h : onOverlapLine c = true) : coreAccepts true c = true := by
  simp [coreAccepts, h]

/-- an edge cell is never inside the first third proper, and its image under the symmetry rotation is (on the 0° line) -/
theorem edge_cell_duplicates_domain_cell (c : Cell) (h : onOverlapLine c = true) :
    inFirstThird c = false ∧ inFirstThird (rotMinus120 c) = true := by
  obtain ⟨i, j⟩ := c
  simp only [onOverlapLine, Bool.and_eq_true, decide_eq_true_eq] at h
  constructor
  · simp only [inFirstThird, Bool.or_eq_false_iff, Bool.and_eq_false_iff, beq_eq_false_iff_ne, decide_eq_false_iff_not]
    constructor
    · omega
    · left; omega
  · have h1 : 2 * j + (-i - j) > 0 := by omega
    have h2 : j + 2 * (-i - j) ≥ 0 := by omega
    simp [inFirstThird, rotMinus120, h1, h2]

/-- **a third-core map with edge assemblies builds, and everything inside the first third stands exactly as specified**:
when every named location is in the domain or on the overlap line the load succeeds, the cells kept are exactly the named
ones off the overlap line, in order, with their specifiers; in particular every first-third entry is kept -/
theorem loadThird_keeps_domain (contents kept : List (Cell × String)) (h : loadThird contents = some kept) :
    (∀ p ∈ contents, inFirstThird p.1 = true → p ∈ kept) ∧ (∀ p ∈ kept, p ∈ contents ∧ onOverlapLine p.1 = false) := by
  unfold loadThird at h
  split at h
  · simp only [Option.some.injEq] at h
    subst h
    constructor
    · intro p hp hin
      refine List.mem_filter.mpr ⟨hp, ?_⟩
      have : onOverlapLine p.1 = false := by
        obtain ⟨⟨i, j⟩, sp⟩ := p
        simp only [inFirstThird, Bool.or_eq_true, Bool.and_eq_true, beq_iff_eq, decide_eq_true_eq] at hin
        simp only [onOverlapLine, Bool.and_eq_false_iff, decide_eq_false_iff_not]
        omega
      simp [this]
    · intro p hp
      have := List.mem_filter.mp hp
      exact ⟨this.1, by simpa using this.2⟩
  · cases h

/-- only locations genuinely outside the first third (and off the overlap line) make the load fail -/
theorem loadThird_refuses_iff (contents : List (Cell × String)) :
    loadThird contents = none ↔ ∃ p ∈ contents, inFirstThird p.1 = false ∧ onOverlapLine p.1 = false := by
  unfold loadThird
  constructor
  · intro h
    split at h
    · cases h
    · rename_i hall
      have hex : ∃ p ∈ contents, coreAccepts true p.1 = false := by
        have : contents.all (fun p => coreAccepts true p.1) = false := by simpa using hall
        obtain ⟨p, hp, hq⟩ := List.all_eq_false.mp this
        exact ⟨p, hp, by simpa using hq⟩
      obtain ⟨p, hp, hacc⟩ := hex
      refine ⟨p, hp, ?_⟩
      simp only [coreAccepts, Bool.not_true, Bool.false_or, Bool.or_eq_false_iff] at hacc
      exact hacc
  · rintro ⟨p, hp, h1, h2⟩
    have : ¬ (contents.all (fun p => coreAccepts true p.1) = true) := by
      intro hall
      have := List.all_eq_true.mp hall p hp
      simp [coreAccepts, h1, h2] at this
    simp [this]

example : loadThird [((0, 0), "A"), ((2, -1), "B"), ((-1, 2), "B"), ((1, 1), "C")] = some [((0, 0), "A"), ((2, -1), "B"), ((1, 1), "C")] := by
  decide +kernel
example : loadThird [((0, 0), "A"), ((-2, 3), "B")] = none := by decide +kernel

/-! ### mass from the input text: custom-isotopics density on a library solid -/

/-- **the component holds the mass the input text describes**, under either height convention: hot density × hot area ×
height = custom density × cold area × input height (hot heights: exponent 2, the height is not expanded; cold heights:
exponent 3, the height expands by `1 + dL/L`). -/
theorem custom_density_mass_is_input_mass (heightsHot : Bool) (custom coldArea h dLL : Rat) (hd : 1 + dLL ≠ 0) :
    customDensityHot heightsHot custom dLL * hotArea coldArea dLL * hotHeight heightsHot h dLL = custom * coldArea * h := by
  unfold customDensityHot hotArea hotHeight
  cases heightsHot <;> simp only [if_true, if_false, Bool.false_eq_true] <;> grind

/-- using the cube with hot input heights loses the fraction `dL/L / (1 + dL/L)` of the mass (why the convention matters) -/
theorem cube_with_hot_heights_loses_mass (custom coldArea h dLL : Rat) (hd : 1 + dLL ≠ 0) :
    customDensityHot false custom dLL * hotArea coldArea dLL * hotHeight true h dLL * (1 + dLL) = custom * coldArea * h := by
  unfold customDensityHot hotArea hotHeight
  simp only [if_true, if_false, Bool.false_eq_true]; grind

example : customDensityHot true (25/2) (1/100) * hotArea 3 (1/100) * hotHeight true 10 (1/100) = 25/2 * 3 * 10 := by decide +kernel
example : customDensityHot false (25/2) (1/100) * hotArea 3 (1/100) * hotHeight false 10 (1/100) = 25/2 * 3 * 10 := by decide +kernel

/-! ### declaration order and linked dimensions -/

private theorem comp_unique : ∀ (cs : List Comp), (cs.map (·.name)).Nodup → ∀ a ∈ cs, ∀ b ∈ cs, a.name = b.name → a = b := by
  intro cs
  induction cs with
  | nil => intro _ a ha; cases ha
  | cons c cs ih =>
    intro hnd a ha b hb hab
    simp only [List.map_cons, List.nodup_cons] at hnd
    rcases List.mem_cons.mp ha with rfl | ha' <;> rcases List.mem_cons.mp hb with rfl | hb'
    · rfl
    · exact absurd (List.mem_map.mpr ⟨b, hb', hab.symm⟩) hnd.1
    · exact absurd (List.mem_map.mpr ⟨a, ha', hab⟩) hnd.1
    · exact ih hnd.2 a ha' b hb' hab

/-- looking a component up by name does not depend on the declaration order (names are unique: yamlize refuses duplicates) -/
theorem findComp_perm (cs₁ cs₂ : List Comp) (h : cs₁.Perm cs₂) (hnd : (cs₁.map (·.name)).Nodup) (n : String) :
    findComp cs₁ n = findComp cs₂ n := by
  have hnd2 : (cs₂.map (·.name)).Nodup := (h.map (·.name)).nodup_iff.mp hnd
  unfold findComp
  cases h1 : cs₁.find? (fun c => c.name == n) with
  | none =>
    have : ∀ x ∈ cs₂, ¬ ((x.name == n) = true) := by
      intro x hx
      exact List.find?_eq_none.mp h1 x (h.symm.subset hx)
    exact (List.find?_eq_none.mpr this).symm
  | some a =>
    have ha := List.mem_of_find?_eq_some h1
    have han : (a.name == n) = true := by have := List.find?_some h1; simpa using this
    cases h2 : cs₂.find? (fun c => c.name == n) with
    | none => exact absurd han (List.find?_eq_none.mp h2 a (h.subset ha))
    | some b =>
      have hb := List.mem_of_find?_eq_some h2
      have hbn : (b.name == n) = true := by have := List.find?_some h2; simpa using this
      have : a.name = b.name := by
        have := eq_of_beq han; have := eq_of_beq hbn; simp_all
      rw [comp_unique cs₂ hnd2 a (h.subset ha) b hb this]

/-- **linked dimensions do not depend on the declaration order of the components**: every `name.dim` link resolves to the
same number (or is refused alike) on every permutation of the block's component list -/
theorem resolve_perm (cs₁ cs₂ : List Comp) (h : cs₁.Perm cs₂) (hnd : (cs₁.map (·.name)).Nodup) :
    ∀ (fuel : Nat) (c k : String), resolve cs₁ fuel c k = resolve cs₂ fuel c k := by
  intro fuel
  induction fuel with
  | zero => intro c k; rfl
  | succ f ih =>
    intro c k
    unfold resolve
    rw [findComp_perm cs₁ cs₂ h hnd c]
    cases findComp cs₂ c with
    | none => rfl
    | some comp =>
      simp only []
      cases findDim comp k with
      | none => rfl
      | some d => cases d with
        | num q => rfl
        | link c' k' => exact ih c' k'


/-! ### declaration order and the pin-to-duct check (HexBlock.verifyBlockDims) -/

private theorem hexLt_irrefl (a : PComp) : hexLt a a = false := by
  unfold hexLt; simp
private theorem hexLt_asymm (a b : PComp) (h : hexLt a b = true) : hexLt b a = false := by
  unfold hexLt at *; grind
private theorem hexLt_negtrans (a b c : PComp) (h1 : hexLt a b = false) (h2 : hexLt b c = false) : hexLt a c = false := by
  unfold hexLt at *; grind
private theorem hexLt_incomparable_key (a b : PComp) (h1 : hexLt a b = false) (h2 : hexLt b a = false) :
    a.op = b.op ∧ a.ip = b.ip := by
  unfold hexLt at *; grind
private theorem firstMin_none (l : List PComp) : firstMin l = none ↔ l = [] := by
  cases l with
  | nil => simp [firstMin]
  | cons c cs =>
    simp only [firstMin]
    cases firstMin cs with
    | none => simp
    | some m => simp; split <;> simp
private theorem firstMin_spec : ∀ (l : List PComp) (m : PComp), firstMin l = some m → m ∈ l ∧ ∀ x ∈ l, hexLt x m = false := by
  intro l
  induction l with
  | nil => intro m h; simp [firstMin] at h
  | cons c cs ih =>
    intro m h
    simp only [firstMin] at h
    cases hc : firstMin cs with
    | none =>
      rw [hc] at h
      have : cs = [] := (firstMin_none cs).mp hc
      subst this
      simp at h; subst h
      simp [hexLt_irrefl]
    | some m' =>
      rw [hc] at h
      obtain ⟨hm, hall⟩ := ih m' hc
      by_cases hlt : hexLt m' c = true
      · simp [hlt] at h; subst h
        refine ⟨List.mem_cons_of_mem _ hm, ?_⟩
        intro x hx
        rcases List.mem_cons.mp hx with rfl | hx
        · exact hexLt_asymm _ _ hlt
        · exact hall x hx
      · simp [hlt] at h; subst h
        refine ⟨List.mem_cons_self, ?_⟩
        intro x hx
        rcases List.mem_cons.mp hx with rfl | hx
        · exact hexLt_irrefl _
        · exact hexLt_negtrans x m' _ (hall x hx) (by simpa using hlt)

/-- the innermost duct found in two orderings of the same components has the same outer and inner flat-to-flat -/
theorem firstMin_perm (l₁ l₂ : List PComp) (h : l₁.Perm l₂) :
    (firstMin l₁).map (fun d => (d.op, d.ip)) = (firstMin l₂).map (fun d => (d.op, d.ip)) := by
  cases h1 : firstMin l₁ with
  | none =>
    have : l₁ = [] := (firstMin_none _).mp h1
    subst this
    have : l₂ = [] := List.Perm.eq_nil (h.symm)
    subst this; simp [firstMin]
  | some m₁ =>
    cases h2 : firstMin l₂ with
    | none =>
      have : l₂ = [] := (firstMin_none _).mp h2
      subst this
      have : l₁ = [] := List.Perm.eq_nil h
      subst this; simp [firstMin] at h1
    | some m₂ =>
      obtain ⟨hm1, ha1⟩ := firstMin_spec _ _ h1
      obtain ⟨hm2, ha2⟩ := firstMin_spec _ _ h2
      have k := hexLt_incomparable_key m₁ m₂ (ha2 m₁ (h.subset hm1)) (ha1 m₂ (h.symm.subset hm2))
      simp [k.1, k.2]

private theorem getOne_perm (p : PComp → Bool) (l₁ l₂ : List PComp) (h : l₁.Perm l₂) : getOne p l₁ = getOne p l₂ := by
  have hf : (l₁.filter p).Perm (l₂.filter p) := h.filter p
  unfold getOne
  match h1 : l₁.filter p, h2 : l₂.filter p with
  | [], [] => rfl
  | [a], [b] =>
    rw [h1, h2] at hf
    have := List.perm_singleton.mp hf
    simp_all
  | [], _ :: _ => rw [h1, h2] at hf; exact absurd hf.length_eq (by simp)
  | _ :: _, [] => rw [h1, h2] at hf; exact absurd hf.length_eq (by simp)
  | [a], _ :: _ :: _ => rw [h1, h2] at hf; exact absurd hf.length_eq (by simp)
  | _ :: _ :: _, [b] => rw [h1, h2] at hf; exact absurd hf.length_eq (by simp)
  | _ :: _ :: _, _ :: _ :: _ => rfl

/-- **declaration order does not matter for the pin-to-duct check**: `verifyBlockDims` gives the same verdict on every
permutation of the block's component list (in particular: outer duct written before the inner duct). -/
theorem verifyBlockDims_perm (l₁ l₂ : List PComp) (h : l₁.Perm l₂) : verifyBlockDims l₁ = verifyBlockDims l₂ := by
  unfold verifyBlockDims
  rw [getOne_perm _ l₁ l₂ h, getOne_perm _ l₁ l₂ h]
  have hd := firstMin_perm _ _ (h.filter (·.duct))
  cases hw : getOne (·.wire) l₂ <;> cases hc : getOne (·.clad) l₂ <;> simp only []
  rename_i w c
  cases h1 : firstMin (l₁.filter (·.duct)) <;> cases h2 : firstMin (l₂.filter (·.duct)) <;> rw [h1, h2] at hd <;> simp at hd
  rename_i d₁ d₂
  cases w <;> cases c <;> simp only []
  unfold gapTooSmall
  rw [hd.2]


/-- an outer-first two-duct block whose 19 wire-wrapped pins (outer flat-to-flat ≈ 5.01) exceed the inner duct (ip 4.8)
but fit the outer duct (ip 6): refused in both orders; with a roomy inner duct (ip 5.2) accepted -/
private def exPins (ipInner : Rat) : List PComp :=
  [⟨"outer duct", true, false, false, 31/5, 6, 0, 1⟩, ⟨"clad", false, true, false, 0, 0, 1, 19⟩,
   ⟨"wire", false, false, true, 0, 0, 1/10, 19⟩, ⟨"inner duct", true, false, false, ipInner + 1/5, ipInner, 0, 1⟩]
example : verifyBlockDims (exPins (24/5)) = .refuse ∧ verifyBlockDims (exPins (24/5)).reverse = .refuse := by decide +kernel
example : verifyBlockDims (exPins (26/5)) = .accept ∧ verifyBlockDims (exPins (26/5)).reverse = .accept := by decide +kernel
example : numRings 19 = 3 ∧ numRings 1 = 1 ∧ numRings 7 = 2 ∧ numRings 20 = 4 ∧ numRings 271 = 10 := by decide +kernel


section Examples
/-! Non-vacuity for the blueprint theorems. -/
private def exComps : List Comp :=
  [⟨"fuel", [("od", .num (3/4)), ("mult", .num 7)]⟩, ⟨"bond", [("id", .link "fuel" "od"), ("od", .link "clad" "id")]⟩,
   ⟨"clad", [("id", .num (7/8)), ("mult", .link "bond" "mult")]⟩, ⟨"x", [("a", .link "y" "b")]⟩, ⟨"y", [("b", .link "x" "a")]⟩]

/-- a chain of two links resolves to the number at its end -/
example : resolve exComps (fuelFor exComps) "bond" "od" = some (7/8) := by decide +kernel
/-- a two-cycle is closed under "links to": the hypothesis of `cyclic_links_rejected` is satisfiable -/
example : declared exComps "x" "a" = some (.link "y" "b") ∧ declared exComps "y" "b" = some (.link "x" "a") := by
  decide +kernel
/-- `resolve_perm`: the same chain on the reversed declaration order -/
example : resolve exComps.reverse (fuelFor exComps) "bond" "od" = some (7/8) := by decide +kernel
example : stack [5/2, 10, 1/4] = [(0, 5/2), (5/2, 25/2), (25/2, 51/4)] := by decide +kernel
example : (place [⟨"a0", "A1", [], [], [], []⟩] [((0, 0), "A1"), ((1, -1), "A1")]).isSome = true := by decide +kernel
example : place [⟨"a0", "A1", [], [], [], []⟩] [((0, 0), "A1"), ((1, -1), "ZZ")] = none := by decide +kernel
end Examples

end ArmiVerif.Blueprint
