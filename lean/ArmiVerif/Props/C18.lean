/-
C18 — the reactor built from blueprints is the reactor the blueprints describe.

Part 1 (Model/AsciiMap.lean): the text-cell → grid-index maps of the ascii lattice maps.
Part 2 (Model/Blueprint.lean): block stacking, link resolution, placement.
Theorem-backed: cell-map injectivity (no two text cells of a map name the same grid index, for every
map size), the closed forms `line = i + 2j (+ const)`, cumulative block elevations, link resolution over
a DAG / rejection of cycles and unknown targets, exact placement / refusal of unknown specifiers.
Correspondence-only (harness/c18.py): whole read/write round trips of the maps (exhaustive small +
generated), component construction, materials, thermal expansion, composition.
-/
import ArmiVerif.Model.AsciiMap
import ArmiVerif.Model.Blueprint

namespace ArmiVerif.AsciiMap

/-- third-core flats-up maps: the text line of a cell is `i + 2j` (lines counted from the bottom) -/
theorem third_line_of_cell (M o c l : Int) (_hl : 0 ≤ l) :
    (cellOf .third M o c l).1 + 2 * (cellOf .third M o c l).2 = l := by
  unfold cellOf thirdBase
  simp only []
  split
  · simp only []; omega
  · split
    · simp only []; omega
    · split <;> (simp only []; omega)

theorem third_cellmap_injective (M o c l c' l' : Int) (hl : 0 ≤ l) (hl' : 0 ≤ l')
    (h : cellOf .third M o c l = cellOf .third M o c' l') : c = c' ∧ l = l' := by
  have h1 := third_line_of_cell M o c l hl
  have h2 := third_line_of_cell M o c' l' hl'
  have hll : l = l' := by rw [h] at h1; omega
  subst hll
  refine ⟨?_, rfl⟩
  have := congrArg Prod.snd h
  simp only [cellOf] at this
  omega

theorem full_line_of_cell (M o c l : Int) :
    (cellOf .full M o c l).1 + 2 * (cellOf .full M o c l).2 = l + o - 2 * M := by
  unfold cellOf fullBase
  simp only []
  split
  · simp only []; omega
  · split <;> (simp only []; omega)

theorem full_cellmap_injective (M o c l c' l' : Int)
    (h : cellOf .full M o c l = cellOf .full M o c' l') : c = c' ∧ l = l' := by
  have h1 := full_line_of_cell M o c l
  have h2 := full_line_of_cell M o c' l'
  have hll : l = l' := by rw [h] at h1; omega
  subst hll
  refine ⟨?_, rfl⟩
  have := congrArg Prod.snd h
  simp only [cellOf] at this
  omega

theorem tips_cellmap_injective (M o c l c' l' : Int)
    (h : cellOf .tips M o c l = cellOf .tips M o c' l') : c = c' ∧ l = l' := by
  have h1 := congrArg Prod.fst h
  have h2 := congrArg Prod.snd h
  simp only [cellOf, tipsBase] at h1 h2
  omega

theorem cart_cellmap_injective (M o c l c' l' : Int)
    (h : cellOf .cart M o c l = cellOf .cart M o c' l') : c = c' ∧ l = l' := by
  simp only [cellOf, Prod.mk.injEq] at h; exact h

/-- explicit inverse of the tips-up cell map: column `i + M`, line `M - i - j` (from the top) -/
theorem tips_cell_inverse (M o i j : Int) : cellOf .tips M o (i + M) (M - i - j) = (i, j) := by
  simp only [cellOf, tipsBase, Prod.mk.injEq]; omega

end ArmiVerif.AsciiMap

namespace ArmiVerif.Blueprint

private theorem stackFrom_length (b : Rat) (hs : List Rat) : (stackFrom b hs).length = hs.length := by
  induction hs generalizing b with
  | nil => rfl
  | cons h hs ih => simp [stackFrom, ih]

theorem stack_length (hs : List Rat) : (stack hs).length = hs.length := stackFrom_length 0 hs

private theorem stackFrom_get (b : Rat) (hs : List Rat) (k : Nat) (hk : k < hs.length) :
    (stackFrom b hs)[k]'(by rw [stackFrom_length]; exact hk) =
      (b + (hs.take k).sum, b + (hs.take (k + 1)).sum) := by
  induction hs generalizing b k with
  | nil => simp at hk
  | cons h hs ih =>
    cases k with
    | zero => simp [stackFrom, Rat.add_zero]
    | succ k =>
      simp only [stackFrom, List.getElem_cons_succ, List.take_succ_cons, List.sum_cons]
      rw [ih (b + h) k (by simpa using hk)]
      simp [Rat.add_assoc]

/-- **cumulative heights**: block `k` of an assembly sits from the sum of the heights below it to that
sum plus its own height. -/
theorem stack_heights (hs : List Rat) (k : Nat) (hk : k < hs.length) :
    (stack hs)[k]'(by rw [stack_length]; exact hk) = ((hs.take k).sum, (hs.take (k + 1)).sum) := by
  unfold stack
  rw [stackFrom_get 0 hs k hk]
  simp [Rat.zero_add]

/-- the stack is contiguous: a block's top is the next block's bottom, the first bottom is 0,
and each block has exactly its specified height -/
theorem stack_contiguous (hs : List Rat) (k : Nat) (hk : k + 1 < hs.length) :
    ((stack hs)[k]'(by rw [stack_length]; omega)).2 = ((stack hs)[k + 1]'(by rw [stack_length]; exact hk)).1 := by
  rw [stack_heights hs k (by omega), stack_heights hs (k + 1) hk]

theorem stack_block_height (hs : List Rat) (k : Nat) (hk : k < hs.length) :
    ((stack hs)[k]'(by rw [stack_length]; exact hk)).2 =
      ((stack hs)[k]'(by rw [stack_length]; exact hk)).1 + hs[k] := by
  rw [stack_heights hs k hk]
  simp only []
  rw [List.take_add_one, List.sum_append]
  simp [List.getElem?_eq_getElem hk, Rat.add_zero]


private theorem resolve_succ (cs : List Comp) (n : Nat) (c k : String) :
    resolve cs (n + 1) c k =
      match declared cs c k with
      | none => none
      | some (.num q) => some q
      | some (.link c' k') => resolve cs n c' k' := by
  simp only [resolve, declared]
  cases findComp cs c with
  | none => rfl
  | some comp =>
    simp only [Option.bind_some]
    cases findDim comp k with
    | none => rfl
    | some d => cases d <;> rfl

/-- more recursion budget never changes a result that was reached -/
theorem resolve_mono (cs : List Comp) (n : Nat) (c k : String) (v : Rat)
    (h : resolve cs n c k = some v) : resolve cs (n + 1) c k = some v := by
  induction n generalizing c k with
  | zero => simp [resolve] at h
  | succ n ih =>
    rw [resolve_succ] at h ⊢
    cases hd : declared cs c k with
    | none => simp [hd] at h
    | some d =>
      cases d with
      | num q => simpa [hd] using h
      | link c' k' => simp only [hd] at h ⊢; exact ih c' k' h

/-- **links resolve over a DAG**: if the declared links are well-founded (a rank that strictly decreases
along every link) and closed (every link target is declared), every declared dimension resolves to a
number within `rank + 1` steps. -/
theorem links_resolve_dag (cs : List Comp) (rank : String → String → Nat)
    (hwf : ∀ c k c' k', declared cs c k = some (.link c' k') →
      rank c' k' < rank c k ∧ (declared cs c' k').isSome = true)
    (c k : String) (hdecl : (declared cs c k).isSome = true) :
    ∃ v, resolve cs (rank c k + 1) c k = some v := by
  generalize hn : rank c k = n
  induction n using Nat.strongRecOn generalizing c k with
  | _ n ih =>
    rw [resolve_succ]
    cases hd : declared cs c k with
    | none => simp [hd] at hdecl
    | some d =>
      cases d with
      | num q => exact ⟨q, rfl⟩
      | link c' k' =>
        obtain ⟨hlt, hsome⟩ := hwf c k c' k' hd
        obtain ⟨v, hv⟩ := ih (rank c' k') (by omega) c' k' hsome rfl
        refine ⟨v, ?_⟩
        simp only []
        -- lift the budget from rank c' k' + 1 to n
        have lift : ∀ m, resolve cs (rank c' k' + 1 + m) c' k' = some v := by
          intro m
          induction m with
          | zero => exact hv
          | succ m ihm => exact resolve_mono cs _ c' k' v ihm
        have : n = rank c' k' + 1 + (n - (rank c' k' + 1)) := by omega
        rw [this]; exact lift _

/-- the value a link chain resolves to is the number at its end: one link step -/
theorem resolve_link (cs : List Comp) (n : Nat) (c k c' k' : String)
    (h : declared cs c k = some (.link c' k')) : resolve cs (n + 1) c k = resolve cs n c' k' := by
  rw [resolve_succ, h]

/-- **cyclic links are rejected**: if a set of declared dimensions is closed under "links to" and
contains no number, none of them resolves, whatever the recursion budget. -/
theorem cyclic_links_rejected (cs : List Comp) (S : String → String → Prop)
    (hS : ∀ c k, S c k → ∃ c' k', declared cs c k = some (.link c' k') ∧ S c' k')
    (n : Nat) (c k : String) (h : S c k) : resolve cs n c k = none := by
  induction n generalizing c k with
  | zero => rfl
  | succ n ih =>
    obtain ⟨c', k', hd, hs⟩ := hS c k h
    rw [resolve_link cs n c k c' k' hd]
    exact ih c' k' hs

/-- an undeclared component or dimension is rejected -/
theorem unknown_link_rejected (cs : List Comp) (n : Nat) (c k : String)
    (h : declared cs c k = none) : resolve cs n c k = none := by
  cases n with
  | zero => rfl
  | succ n => rw [resolve_succ, h]

/-! ### placement -/

theorem bySpecifier_sound (ds : List AssemDesign) (s : String) (d : AssemDesign)
    (h : bySpecifier ds s = some d) : d ∈ ds ∧ d.specifier = s := by
  unfold bySpecifier at h
  exact ⟨List.mem_of_find?_eq_some h, by simpa using List.find?_some h⟩

/-- **placement is exact**: when construction succeeds, the placed list has exactly the locations of the
grid contents, in order, each with a design of the document carrying that location's specifier —
nothing missing, nothing extra. -/
theorem placement_exact (ds : List AssemDesign) (contents : List (Cell × String))
    (r : List (Cell × AssemDesign)) (h : place ds contents = some r) :
    r.map (·.1) = contents.map (·.1) ∧
    r.map (·.2.specifier) = contents.map (·.2) ∧
    ∀ q ∈ r, q.2 ∈ ds := by
  induction contents generalizing r with
  | nil => simp [place] at h; subst h; simp
  | cons p rest ih =>
    obtain ⟨loc, s⟩ := p
    simp only [place] at h
    cases hb : bySpecifier ds s with
    | none => simp [hb] at h
    | some d =>
      cases hr : place ds rest with
      | none => simp [hb, hr] at h
      | some r' =>
        simp only [hb, hr, Option.some.injEq] at h
        subst h
        obtain ⟨i1, i2, i3⟩ := ih r' hr
        obtain ⟨hm, hs⟩ := bySpecifier_sound ds s d hb
        refine ⟨by simp [i1], by simp [i2, hs], ?_⟩
        intro q hq
        rcases List.mem_cons.mp hq with rfl | hq
        · exact hm
        · exact i3 q hq

/-- **an unknown specifier is refused**, and only that -/
theorem place_refuses_iff (ds : List AssemDesign) (contents : List (Cell × String)) :
    place ds contents = none ↔ ∃ p ∈ contents, bySpecifier ds p.2 = none := by
  induction contents with
  | nil => simp [place]
  | cons p rest ih =>
    obtain ⟨loc, s⟩ := p
    simp only [place, List.mem_cons, exists_eq_or_imp]
    cases hb : bySpecifier ds s with
    | none => simp
    | some d =>
      cases hr : place ds rest with
      | none =>
        simp only [hr, true_iff] at ih
        obtain ⟨q, hq, hn⟩ := ih
        simp only [true_iff]
        exact Or.inr ⟨q, hq, hn⟩
      | some r' =>
        simp only [hr] at ih
        simp only [reduceCtorEq, false_or, false_iff]
        intro hex
        exact absurd (ih.mpr hex) (by simp)

end ArmiVerif.Blueprint
