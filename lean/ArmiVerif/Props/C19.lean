/-
C19 — nuclide directory: general theorems about the identifier constructions (no data involved).
For every pair of nuclides (rows) whatsoever, not only those in the shipped table.
The table-level theorems (over the table regenerated from /repo) are in Props/C19Table.lean.
-/
import ArmiVerif.Model.Nuclide

namespace ArmiVerif.Nuclide

/-- **AAAZZZS ids are injective** (atomic number below 1000, state a single digit). -/
theorem aaazzzs_injective (r1 r2 : Row) (hz1 : r1.z < 1000) (hz2 : r2.z < 1000)
    (hs1 : r1.s < 10) (hs2 : r2.s < 10) (h : aaazzzsId r1 = aaazzzsId r2) :
    r1.z = r2.z ∧ r1.a = r2.a ∧ r1.s = r2.s := by
  unfold aaazzzsId at h
  omega

example : aaazzzsId ⟨92, 0, 235, 0, 143, 0⟩ = 2350920 := by decide

/-- **the AAAZZZS id encodes (z, a, state)**: decoding returns them. -/
theorem ids_encode_zas (r : Row) (hz : r.z < 1000) (hs : r.s < 10) :
    aaazzzsDecode (aaazzzsId r) = (r.z, r.a, r.s) := by
  unfold aaazzzsDecode aaazzzsId
  ext <;> simp <;> omega

/-- **the label encodes the symbol, the mass number modulo 10^(4−|symbol|) and the state**. -/
theorem label_encodes (r : Row) :
    labelDecode (labelId r) = (r.sym, r.a % 10 ^ (4 - symLen r.sym), r.s) := by
  unfold labelDecode labelId symLen
  split <;> (ext <;> simp <;> omega)

/-- **the MCNP id encodes (z, a, state)**: with the element's mass window known, decoding returns them -/
theorem mcnp_decodes (r : Row) (a0 : Nat) (hlo : a0 ≤ r.a) (hhi : r.a < a0 + 100) (ha : r.a < 400)
    (hs : r.s ≤ 3) : mcnpDecode a0 (mcnpId r) = (r.z, r.a, r.s) := by
  have hm : mcnpA r.z r.a r.s < 1000 := by unfold mcnpA; repeat' split
                                           all_goals omega
  unfold mcnpDecode mcnpId
  have h1 : (r.z * 1000 + mcnpA r.z r.a r.s) / 1000 = r.z := by omega
  have h2 : (r.z * 1000 + mcnpA r.z r.a r.s) % 1000 = mcnpA r.z r.a r.s := by omega
  simp only [h1, h2]
  have hA : a0 + (mcnpA r.z r.a r.s + 100 - a0 % 100) % 100 = r.a := by
    unfold mcnpA; repeat' split
    all_goals omega
  rw [hA]
  unfold mcnpA
  repeat' split
  all_goals (first | (ext <;> simp <;> omega) | omega | simp_all)

example : mcnpDecode 230 (mcnpId ⟨95, 0, 242, 0, 147, 0⟩) = (95, 242, 0) ∧ mcnpId ⟨95, 0, 242, 0, 147, 0⟩ = 95642 ∧
    mcnpDecode 230 95242 = (95, 242, 1) ∧ mcnpDecode 170 73580 = (73, 180, 1) := by decide

/-- the MCNP id starts with the atomic number -/
theorem mcnp_encodes_z (r : Row) (h : mcnpA r.z r.a r.s < 1000) : mcnpId r / 1000 = r.z := by
  unfold mcnpId; omega

/-- **names are injective** among nuclides of one element (states ≤ 3, as `_createName` requires);
the `AM242G` renaming of the Am-242 ground state is included. Across elements names differ by the symbol
(`name_symbol_prefix`). -/
theorem name_injective (r1 r2 : Row) (hz : r1.z = r2.z) (hs1 : r1.s ≤ 3) (hs2 : r2.s ≤ 3)
    (h : nameId r1 = nameId r2) : r1.a = r2.a ∧ r1.s = r2.s := by
  unfold nameId nameSuffix at h
  simp only [Prod.mk.injEq] at h
  obtain ⟨_, ha, hs⟩ := h
  refine ⟨ha, ?_⟩
  rw [hz, ha] at hs
  split at hs <;> split at hs <;> omega

theorem name_symbol_prefix (r1 r2 : Row) (h : r1.sym ≠ r2.sym) : nameId r1 ≠ nameId r2 := by
  unfold nameId; intro h'; simp only [Prod.mk.injEq] at h'; exact h h'.1

/-- labels of different symbols differ -/
theorem label_symbol_prefix (r1 r2 : Row) (h : r1.sym ≠ r2.sym) : labelId r1 ≠ labelId r2 := by
  unfold labelId; intro h'; simp only [Prod.mk.injEq] at h'; exact h h'.1

/-- **labels are injective** among nuclides with the same symbol whose mass numbers are less than 100
apart (the label keeps the mass number only modulo 100, or 1000 for one-letter symbols). -/
theorem label_injective_of_narrow_range (r1 r2 : Row) (hsym : r1.sym = r2.sym)
    (hn1 : r1.a < r2.a + 100) (hn2 : r2.a < r1.a + 100)
    (h : labelId r1 = labelId r2) : r1.a = r2.a ∧ r1.s = r2.s := by
  unfold labelId at h
  simp only [Prod.mk.injEq] at h
  obtain ⟨_, h1, h2⟩ := h
  rw [hsym] at h1
  unfold symLen at h1
  split at h1 <;> simp at h1 <;> omega

/-- without the range condition labels do collide (why the table theorem checks it) -/
example : labelId ⟨50, 19 * 27 + 14, 100, 0, 50, 0⟩ = labelId ⟨50, 19 * 27 + 14, 200, 0, 150, 0⟩ := by decide

/-- **MCNP ids are injective, including the Am-242 ground/metastable swap**, for nuclides with
`a' < 1000` whose mass numbers are less than 100 apart when they belong to the same element. -/
theorem mcnp_injective_modulo_am242 (r1 r2 : Row)
    (h1 : mcnpA r1.z r1.a r1.s < 1000) (h2 : mcnpA r2.z r2.a r2.s < 1000)
    (hn : r1.z = r2.z → r1.a < r2.a + 100 ∧ r2.a < r1.a + 100)
    (h : mcnpId r1 = mcnpId r2) : r1.z = r2.z ∧ r1.a = r2.a ∧ r1.s = r2.s := by
  unfold mcnpId at h
  have hz : r1.z = r2.z := by omega
  obtain ⟨hn1, hn2⟩ := hn hz
  have ha : mcnpA r1.z r1.a r1.s = mcnpA r2.z r2.a r2.s := by omega
  rw [hz] at ha
  unfold mcnpA at ha
  refine ⟨hz, ?_⟩
  repeat' split at ha
  all_goals omega

/-- the swap itself: AM242 (ground) is 95642, AM242M is 95242, and they are distinct -/
theorem mcnp_am242_swap_distinct :
    mcnpId ⟨95, 40, 242, 0, 147, 0⟩ = 95642 ∧ mcnpId ⟨95, 40, 242, 1, 147, 0⟩ = 95242 ∧
    mcnpId ⟨95, 40, 242, 2, 147, 0⟩ = 95742 ∧ mcnpId ⟨95, 40, 244, 1, 149, 0⟩ = 95644 := by decide

/-- an isotope's MCNP id is never an elemental id "z000" -/
theorem mcnp_ne_elemental (r : Row) (z' : Nat) (ha : 1 ≤ r.a) (h : mcnpA r.z r.a r.s < 1000) :
    mcnpId r ≠ mcnpNatural z' := by
  unfold mcnpId mcnpNatural
  have : 1 ≤ mcnpA r.z r.a r.s := by
    unfold mcnpA; repeat' split
    all_goals omega
  omega

/-- without the range condition MCNP ids collide: A=50 second isomer vs A=150 first isomer -/
example : mcnpId ⟨50, 0, 50, 2, 0, 0⟩ = mcnpId ⟨50, 0, 150, 1, 100, 0⟩ := by decide

/-! ### soundness of the linear table passes (used by Props/C19Table.lean) -/

theorem sortedFrom_spec (p : Nat) (l : List Nat) (h : sortedFrom p l = true) :
    (∀ x ∈ l, p < x) ∧ l.Pairwise (· < ·) := by
  induction l generalizing p with
  | nil => simp
  | cons x xs ih =>
    simp only [sortedFrom, Bool.and_eq_true, decide_eq_true_eq] at h
    obtain ⟨hx, hr⟩ := ih x h.2
    refine ⟨?_, ?_⟩
    · intro y hy
      rcases List.mem_cons.1 hy with rfl | hy
      · exact h.1
      · exact Nat.lt_trans h.1 (hx y hy)
    · exact List.pairwise_cons.2 ⟨hx, hr⟩

/-- in a list whose keys are strictly increasing, the key determines the element -/
theorem eq_of_key_eq {α} (f : α → Nat) (l : List α) (h : (l.map f).Pairwise (· < ·))
    {a b : α} (ha : a ∈ l) (hb : b ∈ l) (hab : f a = f b) : a = b := by
  induction l with
  | nil => cases ha
  | cons x xs ih =>
    simp only [List.map_cons, List.pairwise_cons, List.mem_map, forall_exists_index, and_imp,
      forall_apply_eq_imp_iff₂] at h
    rcases List.mem_cons.1 ha with ha' | ha' <;> rcases List.mem_cons.1 hb with hb' | hb'
    · rw [ha', hb']
    · have := h.1 b hb'; rw [ha'] at hab; omega
    · have := h.1 a ha'; rw [hb'] at hab; omega
    · exact ih h.2 ha' hb'

theorem subsetSorted_spec (xs ys : List Nat) (h : subsetSorted xs ys = true) : ∀ x ∈ xs, x ∈ ys := by
  induction ys generalizing xs with
  | nil =>
    cases xs with
    | nil => simp
    | cons x xs => simp [subsetSorted] at h
  | cons y ys ih =>
    cases xs with
    | nil => simp
    | cons x xs =>
      simp only [subsetSorted] at h
      split at h
      · rename_i hxy
        intro x' hx'
        rcases List.mem_cons.1 hx' with rfl | hx'
        · simp [hxy]
        · exact List.mem_cons_of_mem _ (ih xs h x' hx')
      · intro x' hx'
        exact List.mem_cons_of_mem _ (ih (x :: xs) h x' hx')

end ArmiVerif.Nuclide
