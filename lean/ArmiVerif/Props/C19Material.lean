/-
C19 — material library: what the base-class density formulas of material.py guarantee (exact rationals).
The correlations themselves (linearExpansionPercent of each material) are data sampled by the harness; these theorems
reduce "density finite and positive" to "reference density positive and expansion above −100 %", which the harness
checks on every material that uses the base-class formulas.
-/
import ArmiVerif.Model.Nuclide
import Mathlib.Tactic.Ring
import Mathlib.Tactic.Linarith
import Mathlib.Tactic.FieldSimp
import Mathlib.Tactic.Positivity
import Mathlib.Algebra.Order.Field.Rat
import Mathlib.Data.Rat.Defs

namespace ArmiVerif.Nuclide

/-- **a material with a positive reference density and an expansion above −100 % has positive density and positive
pseudo-density** — at every temperature, whatever the expansion correlation -/
theorem matDensity_pos (refDens dLL : Rat) (hr : 0 < refDens) (hd : -100 < dLL) :
    0 < matDensity refDens dLL ∧ 0 < matPseudoDensity refDens dLL := by
  have h1 : 0 < 1 + dLL / 100 := by linarith
  unfold matDensity matPseudoDensity
  constructor <;> positivity

/-- without a reference density both are zero: the cause of the `material-*-positive-finite-*` known findings
(Cu, ZnO, Concrete, Uranium, UThZr never set refDens) -/
theorem matDensity_zero_ref (dLL : Rat) : matDensity 0 dLL = 0 ∧ matPseudoDensity 0 dLL = 0 := by
  simp [matDensity, matPseudoDensity]

/-- density and pseudo-density differ by one factor (1 + dLL/100) -/
theorem matDensity_eq_pseudo (refDens dLL : Rat) (hd : -100 < dLL) :
    matDensity refDens dLL = matPseudoDensity refDens dLL / (1 + dLL / 100) := by
  have h1 : (1 + dLL / 100) ≠ 0 := by
    have : 0 < 1 + dLL / 100 := by linarith
    exact ne_of_gt this
  unfold matDensity matPseudoDensity
  field_simp

/-- hotter (more expanded) means less dense, for a positive reference density -/
theorem matDensity_antitone (refDens d1 d2 : Rat) (hr : 0 < refDens) (h1 : -100 < d1) (h12 : d1 ≤ d2) :
    matDensity refDens d2 ≤ matDensity refDens d1 ∧ matPseudoDensity refDens d2 ≤ matPseudoDensity refDens d1 := by
  have p1 : 0 < 1 + d1 / 100 := by linarith
  have p2 : 1 + d1 / 100 ≤ 1 + d2 / 100 := by linarith
  unfold matDensity matPseudoDensity
  constructor
  · apply div_le_div_of_nonneg_left (le_of_lt hr) (by positivity)
    exact pow_le_pow_left₀ (le_of_lt p1) p2 3
  · apply div_le_div_of_nonneg_left (le_of_lt hr) (by positivity)
    exact pow_le_pow_left₀ (le_of_lt p1) p2 2

example : matDensity 8 100 = 1 ∧ matPseudoDensity 8 100 = 2 := by decide +kernel


/-! ## interval arithmetic for the regenerated polynomial correlations -/

private theorem rmin_le_left (a b : Rat) : rmin a b ≤ a := by unfold rmin; split <;> linarith
private theorem rmin_le_right (a b : Rat) : rmin a b ≤ b := by unfold rmin; split <;> linarith
private theorem le_rmax_left (a b : Rat) : a ≤ rmax a b := by unfold rmax; split <;> linarith
private theorem le_rmax_right (a b : Rat) : b ≤ rmax a b := by unfold rmax; split <;> linarith

/-- the interval product encloses every product -/
theorem imul_sound (a b l h x y : Rat) (hxa : a ≤ x) (hxb : x ≤ b) (hyl : l ≤ y) (hyh : y ≤ h) :
    (imul a b l h).1 ≤ x * y ∧ x * y ≤ (imul a b l h).2 := by
  have m1 := rmin_le_left (rmin (a * l) (a * h)) (rmin (b * l) (b * h))
  have m2 := rmin_le_right (rmin (a * l) (a * h)) (rmin (b * l) (b * h))
  have m3 := rmin_le_left (a * l) (a * h)
  have m4 := rmin_le_right (a * l) (a * h)
  have m5 := rmin_le_left (b * l) (b * h)
  have m6 := rmin_le_right (b * l) (b * h)
  have n1 := le_rmax_left (rmax (a * l) (a * h)) (rmax (b * l) (b * h))
  have n2 := le_rmax_right (rmax (a * l) (a * h)) (rmax (b * l) (b * h))
  have n3 := le_rmax_left (a * l) (a * h)
  have n4 := le_rmax_right (a * l) (a * h)
  have n5 := le_rmax_left (b * l) (b * h)
  have n6 := le_rmax_right (b * l) (b * h)
  simp only [imul]
  constructor
  · rcases le_total 0 y with hy | hy
    · have h1 : a * y ≤ x * y := by nlinarith [mul_nonneg (sub_nonneg.2 hxa) hy]
      rcases le_total 0 a with ha | ha
      · have : a * l ≤ a * y := by nlinarith [mul_nonneg ha (sub_nonneg.2 hyl)]
        linarith
      · have : a * h ≤ a * y := by nlinarith [mul_nonneg (neg_nonneg.2 ha) (sub_nonneg.2 hyh)]
        linarith
    · have h1 : b * y ≤ x * y := by nlinarith [mul_nonneg (sub_nonneg.2 hxb) (neg_nonneg.2 hy)]
      rcases le_total 0 b with hb | hb
      · have : b * l ≤ b * y := by nlinarith [mul_nonneg hb (sub_nonneg.2 hyl)]
        linarith
      · have : b * h ≤ b * y := by nlinarith [mul_nonneg (neg_nonneg.2 hb) (sub_nonneg.2 hyh)]
        linarith
  · rcases le_total 0 y with hy | hy
    · have h1 : x * y ≤ b * y := by nlinarith [mul_nonneg (sub_nonneg.2 hxb) hy]
      rcases le_total 0 b with hb | hb
      · have : b * y ≤ b * h := by nlinarith [mul_nonneg hb (sub_nonneg.2 hyh)]
        linarith
      · have : b * y ≤ b * l := by nlinarith [mul_nonneg (neg_nonneg.2 hb) (sub_nonneg.2 hyl)]
        linarith
    · have h1 : x * y ≤ a * y := by nlinarith [mul_nonneg (sub_nonneg.2 hxa) (neg_nonneg.2 hy)]
      rcases le_total 0 a with ha | ha
      · have : a * y ≤ a * h := by nlinarith [mul_nonneg ha (sub_nonneg.2 hyh)]
        linarith
      · have : a * y ≤ a * l := by nlinarith [mul_nonneg (neg_nonneg.2 ha) (sub_nonneg.2 hyl)]
        linarith

/-- **interval Horner encloses the polynomial on the whole interval** -/
theorem polyRange_sound (cs : List Rat) (a b x : Rat) (ha : a ≤ x) (hb : x ≤ b) :
    (polyRange cs a b).1 ≤ polyEval cs x ∧ polyEval cs x ≤ (polyRange cs a b).2 := by
  induction cs with
  | nil => simp [polyRange, polyEval]
  | cons c cs ih =>
    have hm := imul_sound a b (polyRange cs a b).1 (polyRange cs a b).2 x (polyEval cs x) ha hb ih.1 ih.2
    simp only [polyRange, polyEval, List.foldr_cons] at *
    constructor <;> linarith [hm.1, hm.2]

theorem checkSub_sound (cs : List Rat) (lb ub a w : Rat) (k : Nat) (_hw : 0 ≤ w)
    (h : checkSub cs lb ub a w (k + 1) = true) (x : Rat) (hx1 : a ≤ x) (hx2 : x ≤ a + ((k + 1 : Nat) : Rat) * w) :
    lb < polyEval cs x ∧ polyEval cs x < ub := by
  induction k generalizing a with
  | zero =>
    simp only [checkSub, Bool.and_eq_true, decide_eq_true_eq, Bool.and_true] at h
    have hx2' : x ≤ a + w := by simpa using hx2
    obtain ⟨s1, s2⟩ := polyRange_sound cs a (a + w) x hx1 hx2'
    exact ⟨lt_of_lt_of_le h.1 s1, lt_of_le_of_lt s2 h.2⟩
  | succ k ih =>
    rw [checkSub] at h
    simp only [Bool.and_eq_true, decide_eq_true_eq] at h
    obtain ⟨⟨h1, h2⟩, h3⟩ := h
    rcases le_total x (a + w) with hle | hge
    · obtain ⟨s1, s2⟩ := polyRange_sound cs a (a + w) x hx1 hle
      exact ⟨lt_of_lt_of_le h1 s1, lt_of_le_of_lt s2 h2⟩
    · apply ih (a + w) h3 hge
      have : (a : Rat) + ((k + 1 + 1 : Nat) : Rat) * w = a + w + ((k + 1 : Nat) : Rat) * w := by push_cast; ring
      linarith

/-- **what a checked piece establishes: the polynomial stays strictly inside (lb, ub) at EVERY temperature of [lo, hi]** -/
theorem checkPiece_sound (p : Piece) (h : checkPiece p = true) (T : Rat) (h1 : p.lo ≤ T) (h2 : T ≤ p.hi) :
    p.lb < polyEval p.cs T ∧ polyEval p.cs T < p.ub := by
  simp only [checkPiece, Bool.and_eq_true, decide_eq_true_eq] at h
  obtain ⟨⟨hn, hle⟩, hc⟩ := h
  have hnpos : (0 : Rat) < (p.n : Rat) := by exact_mod_cast hn
  have hw : 0 ≤ (p.hi - p.lo) / p.n := div_nonneg (by linarith) (le_of_lt hnpos)
  have key : ∀ (n : Nat) (w : Rat), 0 < n → 0 ≤ w → checkSub p.cs p.lb p.ub p.lo w n = true → T ≤ p.lo + (n : Rat) * w →
      p.lb < polyEval p.cs T ∧ polyEval p.cs T < p.ub := by
    intro n w hn0 hw0 hcs hT
    obtain ⟨k, rfl⟩ : ∃ k, n = k + 1 := ⟨n - 1, by omega⟩
    exact checkSub_sound p.cs p.lb p.ub p.lo w k hw0 hcs T h1 hT
  apply key p.n _ hn hw hc
  have : p.lo + (p.n : Rat) * ((p.hi - p.lo) / p.n) = p.hi := by field_simp; ring
  linarith

/-- **a checked expansion piece of a material that uses the base-class formulas: density and pseudo-density are positive at
every temperature of [lo, hi]** -/
theorem checkDensityPiece_sound (p : Piece) (h : checkDensityPiece p = true) (T : Rat) (h1 : p.lo ≤ T) (h2 : T ≤ p.hi) :
    0 < matDensity p.refDens (polyEval p.cs T) ∧ 0 < matPseudoDensity p.refDens (polyEval p.cs T) := by
  simp only [checkDensityPiece, Bool.and_eq_true, decide_eq_true_eq] at h
  obtain ⟨⟨hc, hlb⟩, hr⟩ := h
  have := (checkPiece_sound p hc T h1 h2).1
  exact matDensity_pos _ _ hr (by linarith)

example : checkPiece ⟨"demo", "f", 0, 10, [1, -1, 1/10], 0, 100, 8, 0⟩ = false ∧
    checkPiece ⟨"demo", "f", 0, 10, [3, -1, 1/10], 0, 100, 64, 0⟩ = true := by decide +kernel

end ArmiVerif.Nuclide
