/-
C19 — material library: what the base-class density formulas of material.py guarantee (exact rationals).
The correlations themselves (linearExpansionPercent of each material) are data sampled by the harness; these theorems
reduce "density finite and positive" to "reference density positive and expansion above −100 %", which the harness
checks on every material that uses the base-class formulas.
-/
import ArmiVerif.Model.Nuclide
import Mathlib.Tactic.Ring
import Mathlib.Tactic.Linarith
import Mathlib.Tactic.FieldSimp
import Mathlib.Tactic.Positivity
import Mathlib.Algebra.Order.Field.Rat
import Mathlib.Data.Rat.Defs

namespace ArmiVerif.Nuclide

/-- **a material with a positive reference density and an expansion above −100 % has positive density and positive
pseudo-density** — at every temperature, whatever the expansion correlation -/
theorem matDensity_pos (refDens dLL : Rat) (hr : 0 < refDens) (hd : -100 < dLL) :
    0 < matDensity refDens dLL ∧ 0 < matPseudoDensity refDens dLL := by
  have h1 : 0 < 1 + dLL / 100 := by linarith
  unfold matDensity matPseudoDensity
  constructor <;> positivity

/-- without a reference density both are zero: the cause of the `material-*-positive-finite-*` known findings
(Cu, ZnO, Concrete, Uranium, UThZr never set refDens) -/
theorem matDensity_zero_ref (dLL : Rat) : matDensity 0 dLL = 0 ∧ matPseudoDensity 0 dLL = 0 := by
  simp [matDensity, matPseudoDensity]

/-- density and pseudo-density differ by one factor (1 + dLL/100) -/
theorem matDensity_eq_pseudo (refDens dLL : Rat) (hd : -100 < dLL) :
    matDensity refDens dLL = matPseudoDensity refDens dLL / (1 + dLL / 100) := by
  have h1 : (1 + dLL / 100) ≠ 0 := by
    have : 0 < 1 + dLL / 100 := by linarith
    exact ne_of_gt this
  unfold matDensity matPseudoDensity
  field_simp

/-- hotter (more expanded) means less dense, for a positive reference density -/
theorem matDensity_antitone (refDens d1 d2 : Rat) (hr : 0 < refDens) (h1 : -100 < d1) (h12 : d1 ≤ d2) :
    matDensity refDens d2 ≤ matDensity refDens d1 ∧ matPseudoDensity refDens d2 ≤ matPseudoDensity refDens d1 := by
  have p1 : 0 < 1 + d1 / 100 := by linarith
  have p2 : 1 + d1 / 100 ≤ 1 + d2 / 100 := by linarith
  unfold matDensity matPseudoDensity
  constructor
  · apply div_le_div_of_nonneg_left (le_of_lt hr) (by positivity)
    exact pow_le_pow_left₀ (le_of_lt p1) p2 3
  · apply div_le_div_of_nonneg_left (le_of_lt hr) (by positivity)
    exact pow_le_pow_left₀ (le_of_lt p1) p2 2

example : matDensity 8 100 = 1 ∧ matPseudoDensity 8 100 = 2 := by decide +kernel

end ArmiVerif.Nuclide
