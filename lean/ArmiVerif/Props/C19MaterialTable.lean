/-
C19 — material library: theorems over the correlation table REGENERATED from /repo on every run
(Gen/MaterialTable.lean ← the density / expansion methods of armi/materials/*.py that are piecewise polynomials in the
temperature, extracted by running the methods on a symbolic polynomial; harness/c19.py build_material_table).

Each obligation is the interval-Horner check of Model/Nuclide.lean evaluated by the kernel (`decide +kernel`) and lifted by
`checkPiece_sound` / `checkDensityPiece_sound` to EVERY rational temperature of the stated range — not a sample.
If a correlation changes so that a bound breaks, this module stops compiling: the harness reports the broken obligation and
scans the piece for the temperatures at fault.
-/
import ArmiVerif.Props.C19Material
import ArmiVerif.Gen.MaterialTable

namespace ArmiVerif.Nuclide.MatTable
open ArmiVerif.Nuclide ArmiVerif.Nuclide.GenMat

theorem bound_pieces_check : boundPieces.all checkPiece = true := by decide +kernel

theorem density_pieces_check : densityPieces.all checkDensityPiece = true := by decide +kernel

/-- **every polynomial density correlation is positive (and below 10⁶), every polynomial expansion correlation lies in
(−100 %, 1000 %), at every temperature of its stated range** -/
theorem correlations_bounded : ∀ p ∈ boundPieces, ∀ T : Rat, p.lo ≤ T → T ≤ p.hi →
    p.lb < polyEval p.cs T ∧ polyEval p.cs T < p.ub := by
  intro p hp T h1 h2
  exact checkPiece_sound p (List.all_eq_true.1 bound_pieces_check p hp) T h1 h2

/-- **materials that take density and pseudo-density from the base-class formulas and whose expansion is polynomial:
density and pseudo-density are positive at every temperature of the stated range** -/
theorem base_formula_densities_positive : ∀ p ∈ densityPieces, ∀ T : Rat, p.lo ≤ T → T ≤ p.hi →
    0 < matDensity p.refDens (polyEval p.cs T) ∧ 0 < matPseudoDensity p.refDens (polyEval p.cs T) := by
  intro p hp T h1 h2
  exact checkDensityPiece_sound p (List.all_eq_true.1 density_pieces_check p hp) T h1 h2

/-- non-vacuity: both tables hold pieces -/
example : boundPieces ≠ [] ∧ densityPieces ≠ [] := by
  constructor <;> (intro h; have := congrArg List.length h; revert this; decide +kernel)

end ArmiVerif.Nuclide.MatTable
