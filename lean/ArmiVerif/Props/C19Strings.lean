/-
C19 — the identifiers AS CHARACTER SEQUENCES: the renderings Python produces
(name = symbol ++ str(a) ++ suffix, label = symbol ++ str(first digits) ++ one character,
MCNP = str(z) ++ "%03d" % a', AAAZZZS = str(a) ++ "%03d" % z ++ str(state), db name = "n" + name.capitalize())
are injective images of the structured ids: equal strings ⇒ equal structured ids. Together with the structured
injectivity theorems (Props/C19.lean) and the table theorem (Props/C19Table.lean) this gives
"no two nuclides share an identifier" for the actual strings. Data-independent.
-/
import ArmiVerif.Props.C19

namespace ArmiVerif.Nuclide

/-! ### decimal rendering -/

/-- `str(n)` is injective (core: `Nat.ofDigitChars_ten_toDigits` inverts `Nat.toDigits 10`) -/
theorem digits_injective {m n : Nat} (h : digits m = digits n) : m = n := by
  have hm := @Nat.ofDigitChars_ten_toDigits m
  have hn := @Nat.ofDigitChars_ten_toDigits n
  unfold digits at h
  rw [h] at hm
  exact hm.symm.trans hn

theorem digits_isDigit {n : Nat} {c : Char} (h : c ∈ digits n) : c.isDigit = true :=
  Nat.isDigit_of_mem_toDigits (by decide) (by decide) h

theorem digits_ne_nil (n : Nat) : digits n ≠ [] := Nat.toDigits_ne_nil

private theorem digitChar_inj : ∀ a < 10, ∀ b < 10, Nat.digitChar a = Nat.digitChar b → a = b := by decide

private theorem digitChar_isDigit : ∀ a < 10, (Nat.digitChar a).isDigit = true := by decide

theorem pad3_length (n : Nat) (h : n < 1000) : (pad3 n).length = 3 := by simp [pad3, h]

/-- `"%03d"` is injective below 1000 -/
theorem pad3_injective {m n : Nat} (hm : m < 1000) (hn : n < 1000) (h : pad3 m = pad3 n) : m = n := by
  simp only [pad3, hm, hn, if_true, List.cons.injEq, and_true] at h
  obtain ⟨h1, h2, h3⟩ := h
  have a1 := digitChar_inj _ (by omega) _ (by omega) h1
  have a2 := digitChar_inj _ (by omega) _ (by omega) h2
  have a3 := digitChar_inj _ (by omega) _ (by omega) h3
  omega

theorem digits_single {s : Nat} (h : s < 10) : digits s = [Nat.digitChar s] := Nat.toDigits_of_lt_base h

/-! ### splitting a string where the character class changes -/

/-- if `l₁ ++ r₁ = l₂ ++ r₂`, every character of `l₁`, `l₂` satisfies `p` and neither `r₁` nor `r₂` starts with
a `p`-character, then the two splits coincide -/
theorem split_unique (p : Char → Bool) : ∀ (l1 l2 r1 r2 : List Char), l1 ++ r1 = l2 ++ r2 →
    (∀ c ∈ l1, p c = true) → (∀ c ∈ l2, p c = true) →
    (∀ c, r1.head? = some c → p c = false) → (∀ c, r2.head? = some c → p c = false) → l1 = l2 ∧ r1 = r2
  | [], [], _, _, h, _, _, _, _ => ⟨rfl, by simpa using h⟩
  | [], b :: l2, r1, r2, h, _, h2, hr1, _ => by
    simp only [List.nil_append, List.cons_append] at h
    have := hr1 b (by rw [h]; rfl)
    have := h2 b (by simp)
    simp_all
  | a :: l1, [], r1, r2, h, h1, _, _, hr2 => by
    simp only [List.nil_append, List.cons_append] at h
    have := hr2 a (by rw [← h]; rfl)
    have := h1 a (by simp)
    simp_all
  | a :: l1, b :: l2, r1, r2, h, h1, h2, hr1, hr2 => by
    simp only [List.cons_append, List.cons.injEq] at h
    obtain ⟨hab, ht⟩ := h
    obtain ⟨e1, e2⟩ := split_unique p l1 l2 r1 r2 ht (fun c hc => h1 c (by simp [hc]))
      (fun c hc => h2 c (by simp [hc])) hr1 hr2
    exact ⟨by rw [hab, e1], e2⟩

/-! ### symbols -/

private theorem letter_char_inj : ∀ a ≤ 26, ∀ b ≤ 26, Char.ofNat (64 + a) = Char.ofNat (64 + b) → a = b := by decide

private theorem letter_not_digit : ∀ a ≤ 26, (Char.ofNat (64 + a)).isDigit = false := by decide

theorem symChars_not_digit {sym : Nat} (h : symValid sym = true) {c : Char} (hc : c ∈ symChars sym) :
    (!c.isDigit) = true := by
  simp only [symValid, Bool.and_eq_true, decide_eq_true_eq] at h
  simp only [symChars, letter, List.mem_append] at hc
  rcases hc with hc | hc <;> split at hc <;> simp at hc
  · subst hc; simp [letter_not_digit _ h.1.2]
  · subst hc; simp [letter_not_digit _ h.2]

/-- one or two capital letters determine the coded symbol -/
theorem symChars_injective {s1 s2 : Nat} (h1 : symValid s1 = true) (h2 : symValid s2 = true)
    (h : symChars s1 = symChars s2) : s1 = s2 := by
  simp only [symValid, Bool.and_eq_true, decide_eq_true_eq] at h1 h2
  have e1 := Nat.div_add_mod s1 27
  have e2 := Nat.div_add_mod s2 27
  have n1 : ¬ s1 / 27 = 0 := by omega
  have n2 : ¬ s2 / 27 = 0 := by omega
  simp only [symChars, letter, n1, n2, if_false] at h
  by_cases z1 : s1 % 27 = 0 <;> by_cases z2 : s2 % 27 = 0 <;> simp [z1, z2] at h
  · have := letter_char_inj _ h1.1.2 _ h2.1.2 h; omega
  · have a := letter_char_inj _ h1.1.2 _ h2.1.2 h.1
    have b := letter_char_inj _ h1.2 _ h2.2 h.2
    omega


/-- the characters names are made of: capital letters and digits -/
def alnum : List Char := ['A','B','C','D','E','F','G','H','I','J','K','L','M','N','O','P','Q','R','S','T','U','V','W','X','Y','Z',
  '0','1','2','3','4','5','6','7','8','9']

private theorem bounded_digit : ∀ n < 58, 48 ≤ n → Char.ofNat n ∈ alnum := by decide
private theorem letter_alnum : ∀ a ≤ 26, 1 ≤ a → Char.ofNat (64 + a) ∈ alnum := by decide
private theorem letter_upper : ∀ a ≤ 26, 1 ≤ a → (Char.ofNat (64 + a)).toUpper = Char.ofNat (64 + a) := by decide
private theorem lower_inj : ∀ c ∈ alnum, ∀ d ∈ alnum, c.toLower = d.toLower → c = d := by decide

theorem isDigit_mem_alnum (c : Char) (h : c.isDigit = true) : c ∈ alnum := by
  have hc : Char.ofNat c.toNat = c := Char.ofNat_toNat c
  have hr : 48 ≤ c.toNat ∧ c.toNat ≤ 57 := Char.isDigit_iff_toNat.1 h
  rw [← hc]; exact bounded_digit _ (by omega) hr.1

theorem symChars_cons {sym : Nat} (h : symValid sym = true) :
    symChars sym = Char.ofNat (64 + sym / 27) :: letter (sym % 27) := by
  simp only [symValid, Bool.and_eq_true, decide_eq_true_eq] at h
  have n1 : ¬ sym / 27 = 0 := by omega
  simp [symChars, letter, n1]

theorem symChars_alnum {sym : Nat} (h : symValid sym = true) {c : Char} (hc : c ∈ symChars sym) : c ∈ alnum := by
  simp only [symValid, Bool.and_eq_true, decide_eq_true_eq] at h
  simp only [symChars, letter, List.mem_append] at hc
  rcases hc with hc | hc <;> split at hc <;> simp at hc
  · subst hc; exact letter_alnum _ h.1.2 h.1.1
  · subst hc; exact letter_alnum _ h.2 (by omega)

private theorem map_lower_inj : ∀ (l1 l2 : List Char), (∀ c ∈ l1, c ∈ alnum) → (∀ c ∈ l2, c ∈ alnum) →
    l1.map Char.toLower = l2.map Char.toLower → l1 = l2
  | [], [], _, _, _ => rfl
  | [], _ :: _, _, _, h => by simp at h
  | _ :: _, [], _, _, h => by simp at h
  | a :: l1, b :: l2, h1, h2, h => by
    simp only [List.map_cons, List.cons.injEq] at h
    have hab := lower_inj a (h1 a (by simp)) b (h2 b (by simp)) h.1
    have := map_lower_inj l1 l2 (fun c hc => h1 c (by simp [hc])) (fun c hc => h2 c (by simp [hc])) h.2
    rw [hab, this]

/-! ### AAAZZZS and MCNP -/

/-- **equal AAAZZZS strings ⇒ equal AAAZZZS ids** (z < 1000, state a single digit) -/
theorem aaazzzsChars_injective (r1 r2 : Row) (hz1 : r1.z < 1000) (hz2 : r2.z < 1000)
    (hs1 : r1.s < 10) (hs2 : r2.s < 10) (h : aaazzzsChars r1 = aaazzzsChars r2) :
    aaazzzsId r1 = aaazzzsId r2 := by
  unfold aaazzzsChars at h
  rw [digits_single hs1, digits_single hs2] at h
  obtain ⟨h12, h3⟩ := List.append_inj' h (by simp)
  obtain ⟨ha, hz⟩ := List.append_inj' h12 (by rw [pad3_length _ hz1, pad3_length _ hz2])
  have ea := digits_injective ha
  have ez := pad3_injective hz1 hz2 hz
  have es := digitChar_inj _ hs1 _ hs2 (by simpa using h3)
  unfold aaazzzsId; rw [ea, ez, es]

/-- **equal MCNP strings ⇒ equal MCNP ids** (mass part below 1000) -/
theorem mcnpChars_injective (r1 r2 : Row) (h1 : mcnpA r1.z r1.a r1.s < 1000) (h2 : mcnpA r2.z r2.a r2.s < 1000)
    (h : mcnpChars r1 = mcnpChars r2) : mcnpId r1 = mcnpId r2 := by
  unfold mcnpChars at h
  obtain ⟨hz, ha⟩ := List.append_inj' h (by rw [pad3_length _ h1, pad3_length _ h2])
  have ez := digits_injective hz
  have ea := pad3_injective h1 h2 ha
  unfold mcnpId
  omega

/-! ### name and label -/

attribute [local irreducible] digits symChars

private theorem suffix_head_not_digit : ∀ k ≤ 4, ∀ c, (suffixChars k).head? = some c → c.isDigit = false := by
  decide

private theorem suffixChars_inj : ∀ a ≤ 4, ∀ b ≤ 4, suffixChars a = suffixChars b → a = b := by decide

/-- **equal names ⇒ equal structured names** (symbols are one or two capital letters, suffix code ≤ 4):
the symbol ends where the digits start, the mass number ends where the suffix letter starts. -/
theorem nameChars_injective (r1 r2 : Row) (hv1 : symValid r1.sym = true) (hv2 : symValid r2.sym = true)
    (hk1 : (nameId r1).2.2 ≤ 4) (hk2 : (nameId r2).2.2 ≤ 4) (h : nameChars r1 = nameChars r2) :
    nameId r1 = nameId r2 := by
  unfold nameChars at h
  rw [List.append_assoc, List.append_assoc] at h
  have hsym1 : (nameId r1).1 = r1.sym := rfl
  have hsym2 : (nameId r2).1 = r2.sym := rfl
  have headDigit : ∀ (a k : Nat) (c : Char), (digits a ++ suffixChars k).head? = some c → (!c.isDigit) = false := by
    intro a k c hc
    cases hd : digits a with
    | nil => exact absurd hd (digits_ne_nil a)
    | cons x xs =>
      rw [hd] at hc
      simp only [List.cons_append, List.head?_cons, Option.some.injEq] at hc
      subst hc
      simp [digits_isDigit (n := a) (c := x) (by rw [hd]; simp)]
  obtain ⟨es, er⟩ := split_unique (fun c => !c.isDigit) (symChars (nameId r1).1) (symChars (nameId r2).1)
    (digits (nameId r1).2.1 ++ suffixChars (nameId r1).2.2) (digits (nameId r2).2.1 ++ suffixChars (nameId r2).2.2) h
    (fun c hc => symChars_not_digit (sym := (nameId r1).1) (by rw [hsym1]; exact hv1) hc)
    (fun c hc => symChars_not_digit (sym := (nameId r2).1) (by rw [hsym2]; exact hv2) hc)
    (headDigit _ _) (headDigit _ _)
  obtain ⟨ea, ek⟩ := split_unique (fun c => c.isDigit) (digits (nameId r1).2.1) (digits (nameId r2).2.1)
    (suffixChars (nameId r1).2.2) (suffixChars (nameId r2).2.2) er
    (fun c hc => digits_isDigit hc) (fun c hc => digits_isDigit hc)
    (suffix_head_not_digit _ hk1) (suffix_head_not_digit _ hk2)
  have e1 : (nameId r1).1 = (nameId r2).1 :=
    symChars_injective (by rw [hsym1]; exact hv1) (by rw [hsym2]; exact hv2) es
  have e2 := digits_injective ea
  have e3 := suffixChars_inj _ hk1 _ hk2 ek
  exact Prod.ext e1 (Prod.ext e2 e3)

private theorem suffix_alnum : ∀ k ≤ 4, ∀ c ∈ suffixChars k, c ∈ alnum := by decide

theorem nameChars_alnum (r : Row) (hv : symValid r.sym = true) (hk : (nameId r).2.2 ≤ 4) :
    ∀ c ∈ nameChars r, c ∈ alnum := by
  intro c hc
  simp only [nameChars, List.mem_append] at hc
  rcases hc with (hc | hc) | hc
  · exact symChars_alnum (sym := (nameId r).1) hv hc
  · exact isDigit_mem_alnum c (digits_isDigit hc)
  · exact suffix_alnum _ hk c hc

/-- **equal database names ("n" + name.capitalize()) ⇒ equal names** -/
theorem dbNameChars_injective (r1 r2 : Row) (hv1 : symValid r1.sym = true) (hv2 : symValid r2.sym = true)
    (hk1 : (nameId r1).2.2 ≤ 4) (hk2 : (nameId r2).2.2 ≤ 4) (h : dbNameChars r1 = dbNameChars r2) :
    nameChars r1 = nameChars r2 := by
  have a1 := nameChars_alnum r1 hv1 hk1
  have a2 := nameChars_alnum r2 hv2 hk2
  have c1 : nameChars r1 = Char.ofNat (64 + r1.sym / 27) ::
      (letter (r1.sym % 27) ++ digits (nameId r1).2.1 ++ suffixChars (nameId r1).2.2) := by
    show symChars r1.sym ++ _ ++ _ = _
    rw [symChars_cons hv1]; simp
  have c2 : nameChars r2 = Char.ofNat (64 + r2.sym / 27) ::
      (letter (r2.sym % 27) ++ digits (nameId r2).2.1 ++ suffixChars (nameId r2).2.2) := by
    show symChars r2.sym ++ _ ++ _ = _
    rw [symChars_cons hv2]; simp
  simp only [symValid, Bool.and_eq_true, decide_eq_true_eq] at hv1 hv2
  unfold dbNameChars at h
  rw [c1, c2] at h ⊢
  rw [c1] at a1; rw [c2] at a2
  simp only [List.cons.injEq, true_and] at h
  rw [letter_upper _ hv1.1.2 hv1.1.1, letter_upper _ hv2.1.2 hv2.1.1] at h
  have := map_lower_inj _ _ (fun c hc => a1 c (List.mem_cons_of_mem _ hc)) (fun c hc => a2 c (List.mem_cons_of_mem _ hc)) h.2
  rw [h.1, this]

private theorem labelAlphabet_inj : ∀ i < 40, ∀ j < 40, labelAlphabet[i]? = labelAlphabet[j]? → i = j := by
  decide +kernel

private theorem labelAlphabet_length : labelAlphabet.length = 40 := by decide +kernel

private theorem labelAlphabet_some : ∀ i, (∃ c, labelAlphabet[i]? = some c) → i < 40 := by
  intro i ⟨c, hc⟩
  have := (List.getElem?_eq_some_iff.1 hc).1
  rw [labelAlphabet_length] at this
  exact this

/-- **equal labels ⇒ equal structured labels** -/
theorem labelChars_injective (r1 r2 : Row) (hv1 : symValid r1.sym = true) (hv2 : symValid r2.sym = true)
    (l : List Char) (h1 : labelCharsOf r1 = some l) (h2 : labelCharsOf r2 = some l) :
    labelId r1 = labelId r2 := by
  unfold labelCharsOf at h1 h2
  split at h1
  · cases h1
  · rename_i c1 hc1
    split at h2
    · cases h2
    · rename_i c2 hc2
      have h : symChars (labelId r1).1 ++ digits (labelId r1).2.1 ++ [c1]
          = symChars (labelId r2).1 ++ digits (labelId r2).2.1 ++ [c2] := by
        rw [Option.some.inj h1, Option.some.inj h2]
      obtain ⟨hfront, hlast⟩ := List.append_inj' h (by simp)
      have hsym1 : (labelId r1).1 = r1.sym := rfl
      have hsym2 : (labelId r2).1 = r2.sym := rfl
      have headDigit : ∀ (a : Nat) (c : Char), (digits a).head? = some c → (!c.isDigit) = false := by
        intro a c hc
        have : c ∈ digits a := by
          cases hd : digits a with
          | nil => rw [hd] at hc; simp at hc
          | cons x xs => rw [hd] at hc; simp at hc; subst hc; simp
        simp [digits_isDigit this]
      obtain ⟨es, ed⟩ := split_unique (fun c => !c.isDigit) (symChars (labelId r1).1) (symChars (labelId r2).1)
        (digits (labelId r1).2.1) (digits (labelId r2).2.1) hfront
        (fun c hc => symChars_not_digit (sym := (labelId r1).1) (by rw [hsym1]; exact hv1) hc)
        (fun c hc => symChars_not_digit (sym := (labelId r2).1) (by rw [hsym2]; exact hv2) hc)
        (headDigit _) (headDigit _)
      have e1 : (labelId r1).1 = (labelId r2).1 :=
        symChars_injective (by rw [hsym1]; exact hv1) (by rw [hsym2]; exact hv2) es
      have e2 := digits_injective ed
      have hc : c1 = c2 := by simpa using hlast
      have e3 : (labelId r1).2.2 = (labelId r2).2.2 :=
        labelAlphabet_inj _ (labelAlphabet_some _ ⟨c1, hc1⟩) _ (labelAlphabet_some _ ⟨c2, hc2⟩)
          (by rw [hc1, hc2, hc])
      exact Prod.ext e1 (Prod.ext e2 e3)

/-- the label is defined exactly for states the alphabet can hold (≤ 3) -/
theorem labelChars_defined (r : Row) (h : r.s ≤ 3) : ∃ l, labelCharsOf r = some l := by
  have hidx : (labelId r).2.2 < 40 := by simp only [labelId]; omega
  unfold labelCharsOf
  have : (labelId r).2.2 < labelAlphabet.length := by rw [labelAlphabet_length]; exact hidx
  rw [List.getElem?_eq_getElem this]
  exact ⟨_, rfl⟩

example : nameChars ⟨95, 40, 242, 0, 147, 0⟩ = "AM242G".toList ∧
    labelCharsOf ⟨95, 40, 242, 1, 147, 0⟩ = some "AM4C".toList ∧
    mcnpChars ⟨95, 40, 242, 0, 147, 0⟩ = "95642".toList ∧
    aaazzzsChars ⟨92, 21 * 27, 235, 0, 143, 0⟩ = "2350920".toList := by decide +kernel

end ArmiVerif.Nuclide
