/-
C19 — table-level theorems over the nuclide table REGENERATED from /repo on every run
(Gen/NuclideTable.lean ← nuclides.dat, elements.dat, burn-chain.yaml, mcc-nuclides.yaml).

Each table theorem is a linear-pass Boolean check evaluated by the kernel (`decide +kernel`, no axiom)
and lifted to the statement about all rows by a soundness lemma proved once and for all.
If a data file changes so that a property clause breaks, this module stops compiling: the harness
reports the broken proof obligation and scans the data for the offending rows.
-/
import ArmiVerif.Props.C19
import ArmiVerif.Props.C19Strings
import ArmiVerif.Gen.NuclideTable

namespace ArmiVerif.Nuclide

private theorem mem_allRows {gs : List Group} {r : Row} :
    r ∈ allRows gs ↔ ∃ g ∈ gs, ∃ i ∈ g.isos, r = ⟨g.z, g.sym, i.a, i.s, i.n, i.abund⟩ := by
  simp only [allRows, Group.rows, List.mem_flatMap, List.mem_map]
  constructor
  · rintro ⟨g, hg, i, hi, rfl⟩; exact ⟨g, hg, i, hi, rfl⟩
  · rintro ⟨g, hg, i, hi, rfl⟩; exact ⟨g, hg, i, hi, rfl⟩

private theorem mcnpA_lt (z a s : Nat) (ha : a < 400) (hs : s ≤ 3) : mcnpA z a s < 1000 := by
  unfold mcnpA; repeat' split
  all_goals omega

/-- what `checkTable` establishes, as propositions -/
structure TableFacts (es : List Elem) (gs : List Group) : Prop where
  elemSym : (es.map (·.sym)).Pairwise (· < ·)
  groupZ : (gs.map (·.z)).Pairwise (· < ·)
  iso : ∀ g ∈ gs, ∀ i ∈ g.isos, 1 ≤ i.a ∧ i.a < 400 ∧ i.s ≤ 3 ∧ g.z + i.n = i.a ∧ g.a0 ≤ i.a ∧ i.a < g.a0 + 100
  isoKeys : ∀ g ∈ gs, (g.isos.map isoKey).Pairwise (· < ·)
  zRange : ∀ g ∈ gs, 1 ≤ g.z ∧ g.z < 1000
  abund : ∀ g ∈ gs, abundOk g = true
  elem : ∀ g ∈ gs, ∃ e ∈ es, e.z = g.z ∧ e.sym = g.sym

theorem checkTable_facts (es : List Elem) (gs : List Group) (h : checkTable es gs = true) :
    TableFacts es gs := by
  simp only [checkTable, Bool.and_eq_true, List.all_eq_true] at h
  obtain ⟨⟨⟨⟨hes, hgz⟩, hg⟩, hab⟩, hel⟩ := h
  have hg' : ∀ g ∈ gs, (1 ≤ g.z ∧ g.z < 1000) ∧ (∀ i ∈ g.isos, isoOk g i = true) ∧
      sortedFrom 0 (g.isos.map isoKey) = true := by
    intro g hgm
    have := hg g hgm
    simp only [groupOk, Bool.and_eq_true, decide_eq_true_eq, List.all_eq_true] at this
    exact ⟨⟨this.1.1.1, this.1.1.2⟩, this.1.2, this.2⟩
  refine ⟨(sortedFrom_spec _ _ hes).2, (sortedFrom_spec _ _ hgz).2, ?_, ?_, ?_, hab, ?_⟩
  · intro g hgm i hi
    have := (hg' g hgm).2.1 i hi
    simp only [isoOk, Bool.and_eq_true, decide_eq_true_eq] at this
    omega
  · intro g hgm; exact (sortedFrom_spec _ _ (hg' g hgm).2.2).2
  · intro g hgm; exact (hg' g hgm).1
  · intro g hgm
    have := hel g hgm
    simp only [elemOf, List.any_eq_true, Bool.and_eq_true, decide_eq_true_eq] at this
    exact this

variable {es : List Elem} {gs : List Group}

private theorem group_of_z (F : TableFacts es gs) {g1 g2 : Group} (h1 : g1 ∈ gs) (h2 : g2 ∈ gs)
    (hz : g1.z = g2.z) : g1 = g2 :=
  eq_of_key_eq (·.z) gs F.groupZ h1 h2 hz

private theorem z_of_sym (F : TableFacts es gs) {g1 g2 : Group} (h1 : g1 ∈ gs) (h2 : g2 ∈ gs)
    (hs : g1.sym = g2.sym) : g1.z = g2.z := by
  obtain ⟨e1, he1, hz1, hs1⟩ := F.elem g1 h1
  obtain ⟨e2, he2, hz2, hs2⟩ := F.elem g2 h2
  have : e1 = e2 := eq_of_key_eq (·.sym) es F.elemSym he1 he2 (by (try dsimp only); omega)
  rw [← hz1, ← hz2, this]

private theorem iso_of_as (F : TableFacts es gs) {g : Group} (hg : g ∈ gs) {i1 i2 : Iso}
    (h1 : i1 ∈ g.isos) (h2 : i2 ∈ g.isos) (ha : i1.a = i2.a) (hs : i1.s = i2.s) : i1 = i2 :=
  eq_of_key_eq isoKey g.isos (F.isoKeys g hg) h1 h2 (by simp only [isoKey]; omega)

/-- **no two nuclides of the table share a name, a label, an MCNP id or an AAAZZZS id**
(hence also a database name, which is "n" + the capitalised name). -/
theorem table_ids_unique (F : TableFacts es gs) :
    ∀ r1 ∈ allRows gs, ∀ r2 ∈ allRows gs,
      (nameId r1 = nameId r2 ∨ labelId r1 = labelId r2 ∨ mcnpId r1 = mcnpId r2 ∨
        aaazzzsId r1 = aaazzzsId r2) → r1 = r2 := by
  intro r1 hr1 r2 hr2 hid
  obtain ⟨g1, hg1, i1, hi1, rfl⟩ := mem_allRows.1 hr1
  obtain ⟨g2, hg2, i2, hi2, rfl⟩ := mem_allRows.1 hr2
  have f1 := F.iso g1 hg1 i1 hi1
  have f2 := F.iso g2 hg2 i2 hi2
  have z1 := F.zRange g1 hg1
  have z2 := F.zRange g2 hg2
  -- it suffices to show z, a, s agree
  suffices hzas : g1.z = g2.z ∧ i1.a = i2.a ∧ i1.s = i2.s by
    have hg : g1 = g2 := group_of_z F hg1 hg2 hzas.1
    subst hg
    have hi : i1 = i2 := iso_of_as F hg1 hi1 hi2 hzas.2.1 hzas.2.2
    subst hi; rfl
  rcases hid with h | h | h | h
  · -- name
    have hsym : g1.sym = g2.sym := by
      have := congrArg Prod.fst h; simpa [nameId] using this
    have hz := z_of_sym F hg1 hg2 hsym
    have := name_injective _ _ (by simpa using hz) (by simpa using f1.2.2.1) (by simpa using f2.2.2.1) h
    exact ⟨hz, this⟩
  · -- label
    have hsym : g1.sym = g2.sym := by
      have := congrArg Prod.fst h; simpa [labelId] using this
    have hz := z_of_sym F hg1 hg2 hsym
    have hg : g1 = g2 := group_of_z F hg1 hg2 hz
    subst hg
    have := label_injective_of_narrow_range
      (⟨g1.z, g1.sym, i1.a, i1.s, i1.n, i1.abund⟩ : Row) ⟨g1.z, g1.sym, i2.a, i2.s, i2.n, i2.abund⟩ rfl
      (by (try dsimp only); omega) (by (try dsimp only); omega) h
    exact ⟨hz, this⟩
  · -- MCNP
    have m1 := mcnpA_lt g1.z i1.a i1.s f1.2.1 f1.2.2.1
    have m2 := mcnpA_lt g2.z i2.a i2.s f2.2.1 f2.2.2.1
    refine mcnp_injective_modulo_am242 _ _ m1 m2 ?_ h
    intro hz
    have hg : g1 = g2 := group_of_z F hg1 hg2 hz
    subst hg
    (try dsimp only); omega
  · -- AAAZZZS
    exact aaazzzs_injective _ _ z1.2 z2.2 (by (try dsimp only); omega) (by (try dsimp only); omega) h

/-- **every nuclide belongs to the element with its atomic number** (its symbol is that element's symbol in
elements.dat), Z + N = A, and its ids are well-formed: state ≤ 3 (name and label defined),
MCNP mass part < 1000, never an elemental id. -/
theorem table_rows_wellformed (F : TableFacts es gs) :
    ∀ r ∈ allRows gs, (∃ e ∈ es, e.z = r.z ∧ e.sym = r.sym) ∧ r.z + r.n = r.a ∧ r.s ≤ 3 ∧ 1 ≤ r.a ∧
      r.z < 1000 ∧ mcnpA r.z r.a r.s < 1000 ∧ ∀ z', mcnpId r ≠ mcnpNatural z' := by
  intro r hr
  obtain ⟨g, hg, i, hi, rfl⟩ := mem_allRows.1 hr
  have f := F.iso g hg i hi
  have m := mcnpA_lt g.z i.a i.s f.2.1 f.2.2.1
  refine ⟨F.elem g hg, f.2.2.2.1, f.2.2.1, f.1, (F.zRange g hg).2, m, ?_⟩
  intro z'
  exact mcnp_ne_elemental _ z' f.1 m

/-- **every identifier of every nuclide of the table decodes to its (z, a, state)**: the AAAZZZS id by itself, the MCNP id
with the mass window of the nuclide's element (Am-242 ground / first isomer swapped as MCNP does) -/
theorem table_ids_decode (F : TableFacts es gs) :
    ∀ g ∈ gs, ∀ r ∈ g.rows, aaazzzsDecode (aaazzzsId r) = (r.z, r.a, r.s) ∧
      mcnpDecode g.a0 (mcnpId r) = (r.z, r.a, r.s) := by
  intro g hg r hr
  simp only [Group.rows, List.mem_map] at hr
  obtain ⟨i, hi, rfl⟩ := hr
  have f := F.iso g hg i hi
  have z := F.zRange g hg
  exact ⟨ids_encode_zas _ z.2 (by (try dsimp only); omega),
    mcnp_decodes _ g.a0 f.2.2.2.2.1 f.2.2.2.2.2 f.2.1 f.2.2.1⟩

/-- the rows with a given atomic number are exactly one group (so the per-group statements below are
per-element statements) -/
theorem table_group_is_element (F : TableFacts es gs) :
    ∀ g ∈ gs, ∀ r ∈ allRows gs, r.z = g.z → r ∈ g.rows := by
  intro g hg r hr hz
  obtain ⟨g', hg', i, hi, rfl⟩ := mem_allRows.1 hr
  have : g' = g := group_of_z F hg' hg hz
  subst this
  simp only [Group.rows, List.mem_map]
  exact ⟨i, hi, rfl⟩

/-- **natural abundances of every element sum to one within the data precision
(n·10⁻⁵ for n naturally occurring isotopes), or the element has no natural isotope.**
Abundances are in units of 10⁻¹⁷. -/
theorem table_abundances (F : TableFacts es gs) :
    ∀ g ∈ gs, abundCount g = 0 ∨
      (abundScale ≤ abundSum g + abundTol (abundCount g) ∧ abundSum g ≤ abundScale + abundTol (abundCount g)) := by
  intro g hg
  have := F.abund g hg
  simp only [abundOk, Bool.or_eq_true, Bool.and_eq_true, decide_eq_true_eq] at this
  exact this

/-- **every burn-chain parent and nuclide product is a row of the table; every branching fraction lies in [0, 1]** -/
theorem chain_sound (gs : List Group) (known : List Nat) (chain : List Trans)
    (h : checkChain gs known chain = true) :
    ∀ t ∈ chain, (∃ r ∈ allRows gs, r.key = t.parent) ∧ (∀ p ∈ t.products, ∃ r ∈ allRows gs, r.key = p) ∧
      0 ≤ t.bnum ∧ t.bnum ≤ (t.bden : Int) ∧ 0 < t.bden := by
  simp only [checkChain, Bool.and_eq_true, List.all_eq_true] at h
  obtain ⟨hsub, hall⟩ := h
  have hk := subsetSorted_spec _ _ hsub
  intro t ht
  have := hall t ht
  simp only [transOk, Bool.and_eq_true, List.all_eq_true, decide_eq_true_eq, List.contains_iff_mem] at this
  obtain ⟨⟨⟨⟨hp, hprod⟩, h0⟩, h1⟩, hd⟩ := this
  refine ⟨?_, ?_, h0, h1, hd⟩
  · have := hk _ hp
    simpa [List.mem_map] using this
  · intro p hpm
    have := hk _ (hprod p hpm)
    simpa [List.mem_map] using this

/-- **within one MC² library no two nuclides share an id** (pseudo-nuclides DUMP1/DUMP2 excluded — finding F18) -/
theorem mcc_column_sound (col : List (Nat × Nat)) (h : checkMccColumn col = true) :
    ∀ e1 ∈ col, ∀ e2 ∈ col, e1.1 = e2.1 → e1 = e2 := by
  intro e1 h1 e2 h2 he
  exact eq_of_key_eq (·.1) col (sortedFrom_spec _ _ h).2 h1 h2 he

theorem mcc_names_sound (gs : List Group) (keys : List Nat) (h : checkMccNames gs keys = true) :
    ∀ k ∈ keys, ∃ r ∈ allRows gs, r.key = k := by
  intro k hk
  have := subsetSorted_spec _ _ h k hk
  simpa [List.mem_map] using this


/-! ### elements table, identifier strings, natural isotopics -/

private theorem allDistinct_spec (l : List Nat) (h : allDistinct l = true) : l.Nodup := by
  induction l with
  | nil => simp
  | cons x xs ih =>
    simp only [allDistinct, Bool.and_eq_true, Bool.not_eq_true', List.contains_eq_mem, decide_eq_false_iff_not] at h
    exact List.nodup_cons.2 ⟨h.1, ih h.2⟩

private theorem inj_of_nodup_map {α} (f : α → Nat) : ∀ (l : List α), (l.map f).Nodup →
    ∀ a ∈ l, ∀ b ∈ l, f a = f b → a = b
  | [], _, a, ha, _, _, _ => by cases ha
  | x :: xs, h, a, ha, b, hb, hab => by
    simp only [List.map_cons, List.nodup_cons, List.mem_map, not_exists, not_and] at h
    rcases List.mem_cons.1 ha with ha' | ha' <;> rcases List.mem_cons.1 hb with hb' | hb'
    · rw [ha', hb']
    · exact absurd (by rw [← hab, ha']) (h.1 b hb')
    · exact absurd (by rw [hab, hb']) (h.1 a ha')
    · exact inj_of_nodup_map f xs h.2 a ha' b hb' hab

/-- what `checkElements` establishes: symbols are 1–2 capital letters; symbol ↔ atomic number is a bijection
on the elements table -/
theorem checkElements_sound (es : List Elem) (h : checkElements es = true) :
    (∀ e ∈ es, symValid e.sym = true) ∧
    (∀ e1 ∈ es, ∀ e2 ∈ es, (e1.sym = e2.sym ↔ e1.z = e2.z) ∧ (e1.sym = e2.sym → e1 = e2)) := by
  simp only [checkElements, Bool.and_eq_true, List.all_eq_true] at h
  obtain ⟨⟨hv, hs⟩, hz⟩ := h
  have hsym := (sortedFrom_spec _ _ hs).2
  have hzn := allDistinct_spec _ hz
  refine ⟨hv, ?_⟩
  intro e1 h1 e2 h2
  refine ⟨⟨fun he => ?_, fun he => ?_⟩, fun he => eq_of_key_eq (·.sym) es hsym h1 h2 he⟩
  · rw [eq_of_key_eq (·.sym) es hsym h1 h2 he]
  · rw [inj_of_nodup_map (·.z) es hzn e1 h1 e2 h2 he]

private theorem nameSuffix_le (z a s : Nat) (h : s ≤ 3) : nameSuffix z a s ≤ 4 := by
  unfold nameSuffix; split <;> omega

/-- **no two nuclides of the table share an identifier STRING**: name, label, MCNP id, AAAZZZS id or database
name, as the character sequences Python produces. -/
theorem table_id_strings_unique (F : TableFacts es gs) (hsv : ∀ e ∈ es, symValid e.sym = true) :
    ∀ r1 ∈ allRows gs, ∀ r2 ∈ allRows gs,
      (nameChars r1 = nameChars r2 ∨ (∃ l, labelCharsOf r1 = some l ∧ labelCharsOf r2 = some l) ∨
        mcnpChars r1 = mcnpChars r2 ∨ aaazzzsChars r1 = aaazzzsChars r2 ∨ dbNameChars r1 = dbNameChars r2) →
      r1 = r2 := by
  intro r1 hr1 r2 hr2 hid
  obtain ⟨⟨e1, he1, _, hs1⟩, _, hst1, _, hz1, hm1, _⟩ := table_rows_wellformed F r1 hr1
  obtain ⟨⟨e2, he2, _, hs2⟩, _, hst2, _, hz2, hm2, _⟩ := table_rows_wellformed F r2 hr2
  have v1 : symValid r1.sym = true := hs1 ▸ hsv e1 he1
  have v2 : symValid r2.sym = true := hs2 ▸ hsv e2 he2
  have k1 : (nameId r1).2.2 ≤ 4 := nameSuffix_le _ _ _ hst1
  have k2 : (nameId r2).2.2 ≤ 4 := nameSuffix_le _ _ _ hst2
  apply table_ids_unique F r1 hr1 r2 hr2
  rcases hid with h | ⟨l, h1, h2⟩ | h | h | h
  · exact Or.inl (nameChars_injective r1 r2 v1 v2 k1 k2 h)
  · exact Or.inr (Or.inl (labelChars_injective r1 r2 v1 v2 l h1 h2))
  · exact Or.inr (Or.inr (Or.inl (mcnpChars_injective r1 r2 hm1 hm2 h)))
  · exact Or.inr (Or.inr (Or.inr (aaazzzsChars_injective r1 r2 hz1 hz2 (by omega) (by omega) h)))
  · exact Or.inl (nameChars_injective r1 r2 v1 v2 k1 k2 (dbNameChars_injective r1 r2 v1 v2 k1 k2 h))

/-- every nuclide of the table has a label string (states ≤ 3) -/
theorem table_labels_defined (F : TableFacts es gs) : ∀ r ∈ allRows gs, ∃ l, labelCharsOf r = some l := by
  intro r hr
  obtain ⟨_, _, hst, _⟩ := table_rows_wellformed F r hr
  exact labelChars_defined r hst

theorem naturalsMatch_sound : ∀ (gs : List Group) (ns : List (Nat × List Nat)), naturalsMatch gs ns = true →
    gs.length = ns.length ∧ ∀ p ∈ gs.zip ns, p.1.z = p.2.1 ∧ (naturalIsotopics p.1).map isoKey = p.2.2
  | [], [], _ => by simp
  | [], _ :: _, h => by simp [naturalsMatch] at h
  | _ :: _, [], h => by simp [naturalsMatch] at h
  | g :: gs, n :: ns, h => by
    simp only [naturalsMatch, Bool.and_eq_true, decide_eq_true_eq] at h
    obtain ⟨hl, hp⟩ := naturalsMatch_sound gs ns h.2
    refine ⟨by simp [hl], ?_⟩
    intro p hpm
    simp only [List.zip_cons_cons, List.mem_cons] at hpm
    rcases hpm with rfl | hpm
    · exact ⟨h.1.1, h.1.2⟩
    · exact hp p hpm

/-- **per element, the natural isotopics (abundance > 0, ground states and isomers alike) are exactly the list
the loaded implementation reports, and their abundances sum to one within data precision** -/
theorem checkNaturals_sound (gs : List Group) (ns : List (Nat × List Nat)) (h : checkNaturals gs ns = true) :
    gs.length = ns.length ∧
    (∀ p ∈ gs.zip ns, p.1.z = p.2.1 ∧ (naturalIsotopics p.1).map isoKey = p.2.2) ∧
    (∀ g ∈ gs, naturalIsotopics g = [] ∨
      (abundScale ≤ ((naturalIsotopics g).map (·.abund)).sum + abundTol (naturalIsotopics g).length ∧
       ((naturalIsotopics g).map (·.abund)).sum ≤ abundScale + abundTol (naturalIsotopics g).length)) := by
  simp only [checkNaturals, Bool.and_eq_true, List.all_eq_true] at h
  obtain ⟨hm, hs⟩ := h
  obtain ⟨hl, hp⟩ := naturalsMatch_sound gs ns hm
  refine ⟨hl, hp, ?_⟩
  intro g hg
  have := hs g hg
  simp only [naturalSumOk, Bool.or_eq_true, Bool.and_eq_true, decide_eq_true_eq, List.isEmpty_iff] at this
  exact this

/-! ## the obligations over the regenerated table (re-checked by the kernel whenever the data change) -/
namespace Table
open Gen

theorem nuclide_table_checks : checkTable elements groups = true := by decide +kernel

theorem burn_chain_checks : checkChain groups chainNuclides chain = true := by decide +kernel

theorem mcc_checks : checkMccColumn mcc2 = true ∧ checkMccColumn mcc3v70 = true ∧
    checkMccColumn mcc3v71 = true ∧ checkMccNames groups mccKeys = true := by decide +kernel

theorem facts : TableFacts elements groups := checkTable_facts _ _ nuclide_table_checks

/-- **all nuclides of nuclides.dat have pairwise distinct names, labels, MCNP ids and AAAZZZS ids** -/
theorem nuclides_ids_unique : ∀ r1 ∈ allRows groups, ∀ r2 ∈ allRows groups,
    (nameId r1 = nameId r2 ∨ labelId r1 = labelId r2 ∨ mcnpId r1 = mcnpId r2 ∨
      aaazzzsId r1 = aaazzzsId r2) → r1 = r2 := table_ids_unique facts

/-- **element membership, Z+N=A, id well-formedness for all nuclides of nuclides.dat** -/
theorem nuclides_wellformed : ∀ r ∈ allRows groups,
    (∃ e ∈ elements, e.z = r.z ∧ e.sym = r.sym) ∧ r.z + r.n = r.a ∧ r.s ≤ 3 ∧ 1 ≤ r.a ∧
      r.z < 1000 ∧ mcnpA r.z r.a r.s < 1000 ∧ ∀ z', mcnpId r ≠ mcnpNatural z' := table_rows_wellformed facts

/-- **AAAZZZS and MCNP ids of all nuclides of nuclides.dat decode to their (z, a, state)** -/
theorem nuclides_ids_decode : ∀ g ∈ groups, ∀ r ∈ g.rows, aaazzzsDecode (aaazzzsId r) = (r.z, r.a, r.s) ∧
    mcnpDecode g.a0 (mcnpId r) = (r.z, r.a, r.s) := table_ids_decode facts

theorem nuclides_group_is_element : ∀ g ∈ groups, ∀ r ∈ allRows groups, r.z = g.z → r ∈ g.rows :=
  table_group_is_element facts

/-- **abundance sums of all elements** -/
theorem nuclides_abundances : ∀ g ∈ groups, abundCount g = 0 ∨
    (abundScale ≤ abundSum g + abundTol (abundCount g) ∧ abundSum g ≤ abundScale + abundTol (abundCount g)) :=
  table_abundances facts

/-- **burn-chain.yaml names only existing nuclides, branches in [0,1]** -/
theorem burn_chain_sound : ∀ t ∈ chain,
    (∃ r ∈ allRows groups, r.key = t.parent) ∧ (∀ p ∈ t.products, ∃ r ∈ allRows groups, r.key = p) ∧
      0 ≤ t.bnum ∧ t.bnum ≤ (t.bden : Int) ∧ 0 < t.bden := chain_sound groups chainNuclides chain burn_chain_checks

theorem mcc2_unique : ∀ e1 ∈ mcc2, ∀ e2 ∈ mcc2, e1.1 = e2.1 → e1 = e2 := mcc_column_sound mcc2 mcc_checks.1
theorem mcc3v70_unique : ∀ e1 ∈ mcc3v70, ∀ e2 ∈ mcc3v70, e1.1 = e2.1 → e1 = e2 :=
  mcc_column_sound mcc3v70 mcc_checks.2.1
theorem mcc3v71_unique : ∀ e1 ∈ mcc3v71, ∀ e2 ∈ mcc3v71, e1.1 = e2.1 → e1 = e2 :=
  mcc_column_sound mcc3v71 mcc_checks.2.2.1
theorem mcc_names_known : ∀ k ∈ mccKeys, ∃ r ∈ allRows groups, r.key = k :=
  mcc_names_sound groups mccKeys mcc_checks.2.2.2

theorem elements_checks : checkElements elements = true := by decide +kernel

theorem naturals_checks : checkNaturals groups naturals = true := by decide +kernel

/-- **element symbols are pairwise distinct and symbol ↔ atomic number is a bijection on elements.dat** -/
theorem z_symbol_bijection : ∀ e1 ∈ elements, ∀ e2 ∈ elements,
    (e1.sym = e2.sym ↔ e1.z = e2.z) ∧ (e1.sym = e2.sym → e1 = e2) := (checkElements_sound _ elements_checks).2

theorem element_symbols_wellformed : ∀ e ∈ elements, symValid e.sym = true := (checkElements_sound _ elements_checks).1

/-- **no two of the nuclides of nuclides.dat share a name, label, MCNP id, AAAZZZS id or database name STRING** -/
theorem nuclides_id_strings_unique : ∀ r1 ∈ allRows groups, ∀ r2 ∈ allRows groups,
    (nameChars r1 = nameChars r2 ∨ (∃ l, labelCharsOf r1 = some l ∧ labelCharsOf r2 = some l) ∨
      mcnpChars r1 = mcnpChars r2 ∨ aaazzzsChars r1 = aaazzzsChars r2 ∨ dbNameChars r1 = dbNameChars r2) →
    r1 = r2 := table_id_strings_unique facts element_symbols_wellformed

theorem nuclides_labels_defined : ∀ r ∈ allRows groups, ∃ l, labelCharsOf r = some l := table_labels_defined facts

/-- **natural isotopics per element (isomers such as Ta-180m included) = what the implementation reports; sums to one** -/
theorem natural_isotopics_sound : groups.length = naturals.length ∧
    (∀ p ∈ groups.zip naturals, p.1.z = p.2.1 ∧ (naturalIsotopics p.1).map isoKey = p.2.2) ∧
    (∀ g ∈ groups, naturalIsotopics g = [] ∨
      (abundScale ≤ ((naturalIsotopics g).map (·.abund)).sum + abundTol (naturalIsotopics g).length ∧
       ((naturalIsotopics g).map (·.abund)).sum ≤ abundScale + abundTol (naturalIsotopics g).length)) :=
  checkNaturals_sound groups naturals naturals_checks

/-- the naturally occurring isomer is there: Ta-180m is a natural isotopic of tantalum -/
theorem ta180m_is_natural : ∃ g ∈ groups, g.z = 73 ∧ 1801 ∈ (naturalIsotopics g).map isoKey := by decide +kernel

/-- non-vacuity: the table is not empty and contains U-235 -/
example : (⟨92, 21 * 27, 235, 0, 143, 720400000000000⟩ : Row) ∈ allRows groups := by decide +kernel

end Table

/-! ### elemental (natural) nuclides -/

/-- **an elemental nuclide's name / label (the bare symbol) is never the name or the label of an isotope**:
isotope names and labels continue with a digit, symbols contain none -/
theorem elemental_name_ne_isotope (sym : Nat) (r : Row) (hv : symValid sym = true) :
    symChars sym ≠ nameChars r ∧ ∀ l, labelCharsOf r = some l → symChars sym ≠ l := by
  have hdig : ∀ (pre : List Char) (n : Nat) (post : List Char), symChars sym ≠ pre ++ digits n ++ post := by
    intro pre n post h
    obtain ⟨c, cs, hc⟩ := List.exists_cons_of_ne_nil (digits_ne_nil n)
    have hcd : c.isDigit = true := digits_isDigit (n := n) (by rw [hc]; simp)
    have hmem : c ∈ symChars sym := by rw [h, hc]; simp
    have := symChars_not_digit hv hmem
    rw [hcd] at this; cases this
  constructor
  · unfold nameChars; exact hdig _ _ _
  · intro l hl
    unfold labelCharsOf at hl
    split at hl
    · cases hl
    · simp only [Option.some.injEq] at hl
      rw [← hl]; exact hdig _ _ _

namespace Table
open Gen

/-- **elemental nuclides (one per element of elements.dat; name = label = symbol, MCNP id = Z·1000) never share an
identifier with each other or with any isotope of nuclides.dat** -/
theorem elementals_ids_unique :
    (∀ e1 ∈ elements, ∀ e2 ∈ elements, (symChars e1.sym = symChars e2.sym ∨ mcnpNatural e1.z = mcnpNatural e2.z) → e1 = e2) ∧
    (∀ e ∈ elements, ∀ r ∈ allRows groups, symChars e.sym ≠ nameChars r ∧
      (∀ l, labelCharsOf r = some l → symChars e.sym ≠ l) ∧ mcnpId r ≠ mcnpNatural e.z) := by
  constructor
  · intro e1 h1 e2 h2 h
    obtain ⟨hiff, heq⟩ := z_symbol_bijection e1 h1 e2 h2
    rcases h with h | h
    · exact heq (symChars_injective (element_symbols_wellformed e1 h1) (element_symbols_wellformed e2 h2) h)
    · have hz : e1.z = e2.z := by simp only [mcnpNatural] at h; omega
      exact heq (hiff.2 hz)
  · intro e he r hr
    obtain ⟨h1, h2⟩ := elemental_name_ne_isotope e.sym r (element_symbols_wellformed e he)
    exact ⟨h1, h2, (nuclides_wellformed r hr).2.2.2.2.2.2 e.z⟩

end Table
end ArmiVerif.Nuclide
