/-
C20 — XS groups partition the blocks; label ↔ number; representative blocks are true averages /
the median member. Theorems over Model/XsGroup.lean (exact rationals).
-/
import ArmiVerif.Model.XsGroup
import Mathlib.Tactic.Ring
import Mathlib.Tactic.Linarith
import Mathlib.Tactic.FieldSimp
import Mathlib.Tactic.Positivity
import Mathlib.Algebra.Order.Field.Rat
import Mathlib.Data.Rat.Defs
import Mathlib.Data.List.Sort

namespace ArmiVerif.XsGroup

/-! ## label ↔ number -/

private def admChars : List Nat := (List.range 123).filter admissibleChar

private theorem mem_admChars (c : Nat) (h : admissibleChar c = true) : c ∈ admChars := by
  have hlt : c < 123 := by
    simp only [admissibleChar, Bool.or_eq_true, Bool.and_eq_true, decide_eq_true_eq] at h
    omega
  simp [admChars, List.mem_filter, hlt, h]

private theorem roundtrip1' : (admChars.all fun c =>
    decide ((labelToNumber [c]).bind numberToLabel = some [c])) = true := by decide +kernel

private theorem roundtrip2' : (admChars.all fun c1 => admChars.all fun c2 =>
    decide ((labelToNumber [c1, c2]).bind numberToLabel = some [c1, c2])) = true := by decide +kernel

private theorem roundtrip1 (c : Nat) (h : admissibleChar c = true) :
    (labelToNumber [c]).bind numberToLabel = some [c] := by
  have := List.all_eq_true.1 roundtrip1' c (mem_admChars c h)
  simpa using this

private theorem roundtrip2 (c1 c2 : Nat) (h1 : admissibleChar c1 = true) (h2 : admissibleChar c2 = true) :
    (labelToNumber [c1, c2]).bind numberToLabel = some [c1, c2] := by
  have := List.all_eq_true.1 (List.all_eq_true.1 roundtrip2' c1 (mem_admChars c1 h1)) c2 (mem_admChars c2 h2)
  simpa using this

/-- **every admissible label (A–Z a–z, one or two characters) converts to its number and back** -/
theorem label_number_roundtrip (l : List Nat) (h : admissible l = true) :
    (labelToNumber l).bind numberToLabel = some l := by
  simp only [admissible, Bool.and_eq_true, Bool.or_eq_true, beq_iff_eq, List.all_eq_true] at h
  obtain ⟨hl, ha⟩ := h
  match l, hl, ha with
  | [c], _, ha =>
    exact roundtrip1 c (ha c (by simp))
  | [c1, c2], _, ha =>
    exact roundtrip2 c1 c2 (ha c1 (by simp)) (ha c2 (by simp))
  | [], hl, _ => simp at hl
  | _ :: _ :: _ :: _, hl, _ => simp at hl

example : admissible [122, 65] = true ∧ labelToNumber [122, 65] = some 12265 := by decide

/-- **no two admissible labels have the same number** -/
theorem label_number_injective (l1 l2 : List Nat) (h1 : admissible l1 = true) (h2 : admissible l2 = true)
    (h : labelToNumber l1 = labelToNumber l2) : l1 = l2 := by
  have r1 := label_number_roundtrip l1 h1
  have r2 := label_number_roundtrip l2 h2
  rw [h] at r1
  rw [r1] at r2
  exact Option.some.inj r2

/-- the numbers of admissible labels are never refused on the way back -/
theorem label_number_defined (l : List Nat) (h : admissible l = true) :
    ∃ n, labelToNumber l = some n ∧ numberToLabel n = some l := by
  have r := label_number_roundtrip l h
  cases hn : labelToNumber l with
  | none => rw [hn] at r; simp at r
  | some n => rw [hn] at r; exact ⟨n, rfl, by simpa using r⟩

/-- **environment group number → letter → number is the identity for the 52 groups 0…51** -/
theorem env_group_roundtrip : ∀ n < 52, (envNumToChar n).map envCharToNum = some (n : Int) := by
  decide +kernel

/-- the letters are admissible characters (A–Z for 0…25, a–z for 26…51) -/
theorem env_group_letters : ∀ n < 52, ∃ c, envNumToChar n = some c ∧ admissibleChar c = true := by
  decide +kernel

/-! ## grouping -/

theorem mem_firstOccurrences (l : List (List Nat)) (x : List Nat) :
    x ∈ firstOccurrences l ↔ x ∈ l := by
  induction l with
  | nil => simp [firstOccurrences]
  | cons k ks ih =>
    simp only [firstOccurrences, List.mem_cons, List.mem_filter, bne_iff_ne, ne_eq, ih]
    by_cases hx : x = k <;> simp [hx]

private theorem nodup_firstOccurrences (l : List (List Nat)) : (firstOccurrences l).Nodup := by
  induction l with
  | nil => simp [firstOccurrences]
  | cons k ks ih =>
    simp only [firstOccurrences, List.nodup_cons, List.mem_filter, bne_iff_ne, ne_eq, not_true_eq_false,
      and_false, not_false_eq_true, true_and]
    exact ih.filter _

private theorem mem_insertKey (k x : List Nat) (l : List (List Nat)) :
    x ∈ insertKey k l ↔ x = k ∨ x ∈ l := by
  induction l with
  | nil => simp [insertKey]
  | cons y ys ih =>
    simp only [insertKey]
    split
    · simp
    · simp only [List.mem_cons, ih]; tauto

private theorem nodup_insertKey (k : List Nat) (l : List (List Nat)) (hk : k ∉ l) (h : l.Nodup) :
    (insertKey k l).Nodup := by
  induction l with
  | nil => simp [insertKey]
  | cons y ys ih =>
    simp only [insertKey]
    split
    · exact List.nodup_cons.2 ⟨hk, h⟩
    · have hy := List.nodup_cons.1 h
      refine List.nodup_cons.2 ⟨?_, ih (fun hm => hk (List.mem_cons_of_mem _ hm)) hy.2⟩
      rw [mem_insertKey]
      rintro (rfl | hm)
      · exact hk (by simp)
      · exact hy.1 hm

theorem mem_sortKeys (l : List (List Nat)) (x : List Nat) : x ∈ sortKeys l ↔ x ∈ l := by
  induction l with
  | nil => simp [sortKeys]
  | cons k ks ih => simp [sortKeys, mem_insertKey, ih]

private theorem nodup_sortKeys (l : List (List Nat)) (h : l.Nodup) : (sortKeys l).Nodup := by
  induction l with
  | nil => simp [sortKeys]
  | cons k ks ih =>
    have hk := List.nodup_cons.1 h
    simp only [sortKeys]
    exact nodup_insertKey k _ (fun hm => hk.1 ((mem_sortKeys ks k).1 hm)) (ih hk.2)

private theorem groups_keys {β} (key : β → List Nat) (bs : List β) :
    (groups key bs).map (·.1) = sortKeys (firstOccurrences (bs.map key)) := by
  simp [groups, Function.comp_def]

/-- **grouping partitions the blocks by micro suffix**: group keys are pairwise distinct; a group holds
exactly the blocks with its key, in core order, and is never empty; every block is in a group carrying
its own key; and a block is in no other group. -/
theorem groups_partition {β} (key : β → List Nat) (bs : List β) :
    ((groups key bs).map (·.1)).Nodup ∧
    (∀ g ∈ groups key bs, g.2 = bs.filter (fun b => key b == g.1) ∧ g.2 ≠ []) ∧
    (∀ b ∈ bs, ∃ g ∈ groups key bs, g.1 = key b ∧ b ∈ g.2) ∧
    (∀ b, ∀ g1 ∈ groups key bs, ∀ g2 ∈ groups key bs, b ∈ g1.2 → b ∈ g2.2 → g1 = g2) := by
  have hmem : ∀ g, g ∈ groups key bs ↔
      (g.1 ∈ bs.map key ∧ g.2 = bs.filter (fun b => key b == g.1)) := by
    intro g
    simp only [groups, List.mem_map, mem_sortKeys, mem_firstOccurrences]
    constructor
    · rintro ⟨k, ⟨b, hb, rfl⟩, rfl⟩; exact ⟨⟨b, hb, rfl⟩, rfl⟩
    · rintro ⟨⟨b, hb, hk⟩, h2⟩
      refine ⟨g.1, ⟨b, hb, hk⟩, ?_⟩
      rw [← h2]
  refine ⟨?_, ?_, ?_, ?_⟩
  · rw [groups_keys]; exact nodup_sortKeys _ (nodup_firstOccurrences _)
  · intro g hg
    obtain ⟨hk, h2⟩ := (hmem g).1 hg
    refine ⟨h2, ?_⟩
    obtain ⟨b, hb, hkb⟩ := List.mem_map.1 hk
    rw [h2]
    intro hnil
    have : b ∈ bs.filter (fun b => key b == g.1) := List.mem_filter.2 ⟨hb, by simp [hkb]⟩
    rw [hnil] at this
    cases this
  · intro b hb
    refine ⟨(key b, bs.filter (fun b' => key b' == key b)), (hmem _).2 ⟨List.mem_map.2 ⟨b, hb, rfl⟩, rfl⟩, rfl, ?_⟩
    exact List.mem_filter.2 ⟨hb, by simp⟩
  · intro b g1 h1 g2 h2 hb1 hb2
    obtain ⟨_, e1⟩ := (hmem g1).1 h1
    obtain ⟨_, e2⟩ := (hmem g2).1 h2
    rw [e1] at hb1; rw [e2] at hb2
    have k1 : key b = g1.1 := by simpa using (List.mem_filter.1 hb1).2
    have k2 : key b = g2.1 := by simpa using (List.mem_filter.1 hb2).2
    have hk : g1.1 = g2.1 := k1.symm.trans k2
    apply Prod.ext hk
    rw [e1, e2, hk]

example : groups (fun (p : Nat × List Nat) => p.2) [(0, [65, 66]), (1, [65, 65]), (2, [65, 66])]
    = [([65, 65], [(1, [65, 65])]), ([65, 66], [(0, [65, 66]), (2, [65, 66])])] := by decide

/-- the suffix of a block with a one-letter type is (type, env group): two such blocks share a group
exactly when both letters agree -/
theorem suffix_determined (x1 x2 e1 e2 : Nat) :
    microSuffix [x1] [e1] = microSuffix [x2] [e2] ↔ (x1 = x2 ∧ e1 = e2) := by
  simp [microSuffix]

/-! ## weighted means -/

theorem dot_bounds (ws xs : List Rat) (lo hi : Rat) (hl : ws.length = xs.length)
    (hw : ∀ w ∈ ws, 0 ≤ w) (hx : ∀ x ∈ xs, lo ≤ x ∧ x ≤ hi) :
    lo * rsum ws ≤ dot ws xs ∧ dot ws xs ≤ hi * rsum ws := by
  induction ws generalizing xs with
  | nil => simp [dot, rsum]
  | cons w ws ih =>
    cases xs with
    | nil => simp at hl
    | cons x xs =>
      have hw0 : 0 ≤ w := hw w (by simp)
      have hx0 := hx x (by simp)
      have := ih xs (by simpa using hl) (fun w' h' => hw w' (by simp [h']))
        (fun x' h' => hx x' (by simp [h']))
      simp only [dot, rsum, List.foldr_cons] at *
      constructor <;> nlinarith [mul_nonneg hw0 (sub_nonneg.2 hx0.1), mul_nonneg hw0 (sub_nonneg.2 hx0.2)]

/-- **the weighted mean lies between the minimum and the maximum of the members' values**
(non-negative weights with positive total: `getWeight` of real blocks). -/
theorem wmean_between_min_max (ws xs : List Rat) (lo hi : Rat) (hl : ws.length = xs.length)
    (hw : ∀ w ∈ ws, 0 ≤ w) (hpos : 0 < rsum ws) (hx : ∀ x ∈ xs, lo ≤ x ∧ x ≤ hi) :
    lo ≤ wmean ws xs ∧ wmean ws xs ≤ hi := by
  obtain ⟨h1, h2⟩ := dot_bounds ws xs lo hi hl hw hx
  unfold wmean
  exact ⟨(le_div_iff₀ hpos).2 h1, (div_le_iff₀ hpos).2 h2⟩

example : wmean [1, 3] [2, 4] = 7 / 2 := by decide +kernel

theorem dot_const (ws xs : List Rat) (c : Rat) (hl : ws.length = xs.length)
    (hx : ∀ x ∈ xs, x = c) : dot ws xs = c * rsum ws := by
  induction ws generalizing xs with
  | nil => simp [dot, rsum]
  | cons w ws ih =>
    cases xs with
    | nil => simp at hl
    | cons x xs =>
      have := ih xs (by simpa using hl) (fun x' h' => hx x' (by simp [h']))
      have hx0 : x = c := hx x (by simp)
      simp only [dot, rsum, List.foldr_cons] at *
      rw [this, hx0]; ring

/-- **when all members agree the mean is the common value** -/
theorem wmean_of_equal (ws xs : List Rat) (c : Rat) (hl : ws.length = xs.length)
    (hs : rsum ws ≠ 0) (hx : ∀ x ∈ xs, x = c) : wmean ws xs = c := by
  unfold wmean
  rw [dot_const ws xs c hl hx]
  field_simp

theorem rsum_append (a b : List Rat) : rsum (a ++ b) = rsum a + rsum b := by
  induction a with
  | nil => simp [rsum]
  | cons x xs ih => simp only [rsum, List.cons_append, List.foldr_cons] at *; rw [ih]; ring

theorem dot_append (ws xs ws' xs' : List Rat) (hl : ws.length = xs.length) :
    dot (ws ++ ws') (xs ++ xs') = dot ws xs + dot ws' xs' := by
  induction ws generalizing xs with
  | nil =>
    cases xs with
    | nil => simp [dot]
    | cons x xs => simp at hl
  | cons w ws ih =>
    cases xs with
    | nil => simp at hl
    | cons x xs =>
      simp only [List.cons_append, dot]
      rw [ih xs (by simpa using hl)]; ring

/-- **duplicating every member leaves the mean unchanged** -/
theorem wmean_dup_invariant (ws xs : List Rat) (hl : ws.length = xs.length) :
    wmean (ws ++ ws) (xs ++ xs) = wmean ws xs := by
  unfold wmean
  rw [dot_append ws xs ws xs hl, rsum_append]
  have : dot ws xs + dot ws xs = 2 * dot ws xs := by ring
  have h2 : rsum ws + rsum ws = 2 * rsum ws := by ring
  rw [this, h2, mul_div_mul_left _ _ (two_ne_zero)]

theorem rsum_scale (k : Rat) (ws : List Rat) : rsum (ws.map (k * ·)) = k * rsum ws := by
  induction ws with
  | nil => simp [rsum]
  | cons w ws ih => simp only [rsum, List.map_cons, List.foldr_cons] at *; rw [ih]; ring

theorem dot_scale (k : Rat) (ws xs : List Rat) : dot (ws.map (k * ·)) xs = k * dot ws xs := by
  induction ws generalizing xs with
  | nil => simp [dot]
  | cons w ws ih =>
    cases xs with
    | nil => simp [dot]
    | cons x xs => simp only [List.map_cons, dot]; rw [ih]; ring

/-- **rescaling all weights leaves the mean unchanged** -/
theorem wmean_scale_invariant (k : Rat) (hk : k ≠ 0) (ws xs : List Rat) :
    wmean (ws.map (k * ·)) xs = wmean ws xs := by
  unfold wmean
  rw [dot_scale, rsum_scale, mul_div_mul_left _ _ hk]

/-- weights of real blocks are positive: positive volume, positive (or unset) weighting parameter -/
theorem getWeight_pos (p : Bool) (b : Blk) (hv : 0 ≤ b.vol) (hw : 0 ≤ b.wparam) : 0 < getWeight p b := by
  unfold getWeight
  simp only
  split <;> split <;> try split
  all_goals positivity

/-- **what `average` returns is, nuclide by nuclide, the weight-normalised mean over the CANDIDATE blocks
only** (non-candidates never enter), with `getWeight` weights; it is refused when zero and non-zero
weighting factors are mixed or there is no candidate. -/
theorem average_spec (p : Bool) (n : Nat) (bs : List Blk) (r : List Rat) (h : average p n bs = some r) :
    weightsValid p bs = true ∧ candidates bs ≠ [] ∧
    r = (List.range n).map (fun j => wmean ((candidates bs).map (getWeight p)) (column j (candidates bs))) := by
  unfold average at h
  simp only at h
  split at h
  · cases h
  · rename_i hv
    split at h
    · cases h
    · rename_i hc
      split at h
      · cases h
      · refine ⟨by simpa using hv, ?_, (Option.some.inj h).symm⟩
        intro hnil; simp [hnil] at hc

/-- **representatives use eligible members only**: blocks that are not candidates can be changed or
removed without changing the average. -/
theorem average_uses_only_candidates (p : Bool) (n : Nat) (bs : List Blk) :
    average p n bs = average p n (candidates bs) := by
  have hc : candidates (candidates bs) = candidates bs := by
    simp [candidates, List.filter_filter]
  unfold average weightsValid
  simp only [hc]

/-- **the averaged burnup is the heavy-metal-weighted mean over the ELIGIBLE members** when no weighting
parameter is set (`getWeight` = volume, which cancels): Σ HMᵢ·buᵢ / Σ HMᵢ over the candidates.
`vals = [massHmBOL, percentBu]`. -/
theorem burnup_hm_weighted (bs : List Blk) (hv : ∀ b ∈ candidates bs, b.vol ≠ 0)
    (hs : rsum ((candidates bs).map (fun b => b.vals.getD 0 0)) ≠ 0) :
    weightedBurnup false bs =
      some (wmean ((candidates bs).map (fun b => b.vals.getD 0 0))
        ((candidates bs).map (fun b => b.vals.getD 1 0))) := by
  have hw : (candidates bs).map (fun b => b.vals.getD 0 0 * getWeight false b / b.vol)
      = (candidates bs).map (fun b => b.vals.getD 0 0) := by
    apply List.map_congr_left
    intro b hb
    have hvb := hv b hb
    have hg : getWeight false b = b.vol := by simp [getWeight, hvb]
    rw [hg]; field_simp
  have hany : ((candidates bs).any fun b => b.vol == 0) = false := by
    simp only [List.any_eq_false, beq_iff_eq]
    exact fun b hb => hv b hb
  unfold weightedBurnup
  simp only [hany, hw, Bool.false_eq_true, if_false, hs, wmean]

example : weightedBurnup false [⟨true, 2, 0, [3, 10]⟩, ⟨true, 6, 0, [1, 20]⟩, ⟨false, 1, 0, [5, 90]⟩]
    = some (25 / 2) := by decide +kernel

/-- with a weighting parameter the burnup weights are HM × parameter (volume still cancels) -/
theorem burnup_param_weighted (bs : List Blk) (hv : ∀ b ∈ candidates bs, b.vol ≠ 0)
    (hp : ∀ b ∈ candidates bs, b.wparam ≠ 0)
    (hs : rsum ((candidates bs).map (fun b => b.vals.getD 0 0 * b.wparam)) ≠ 0) :
    weightedBurnup true bs =
      some (wmean ((candidates bs).map (fun b => b.vals.getD 0 0 * b.wparam))
        ((candidates bs).map (fun b => b.vals.getD 1 0))) := by
  have hw : (candidates bs).map (fun b => b.vals.getD 0 0 * getWeight true b / b.vol)
      = (candidates bs).map (fun b => b.vals.getD 0 0 * b.wparam) := by
    apply List.map_congr_left
    intro b hb
    have h1 := hv b hb
    have h2 := hp b hb
    have hg : getWeight true b = b.wparam * b.vol := by simp [getWeight, h1, h2]
    rw [hg]; field_simp
  have hany : ((candidates bs).any fun b => b.vol == 0) = false := by
    simp only [List.any_eq_false, beq_iff_eq]
    exact fun b hb => hv b hb
  unfold weightedBurnup
  simp only [hany, hw, Bool.false_eq_true, if_false, hs, wmean]

/-- **the averaged burnup, too, uses eligible members only**: non-candidates never enter. -/
theorem burnup_uses_only_candidates (p : Bool) (bs : List Blk) :
    weightedBurnup p bs = weightedBurnup p (candidates bs) := by
  have hc : candidates (candidates bs) = candidates bs := by
    simp [candidates, List.filter_filter]
  unfold weightedBurnup
  simp only [hc]

/-! ## median block -/

private theorem sortM_eq (l : List MKey) : sortM l = l.insertionSort (fun a b => a.le b = true) := by
  induction l with
  | nil => rfl
  | cons k ks ih =>
    simp only [sortM, List.insertionSort_cons, ← ih]
    generalize sortM ks = s
    induction s with
    | nil => rfl
    | cons x xs ihx =>
      simp only [insertM, List.orderedInsert_cons]
      split <;> simp_all

private theorem mem_sortM (l : List MKey) (k : MKey) : k ∈ sortM l ↔ k ∈ l := by
  rw [sortM_eq]; exact List.mem_insertionSort _

/-- **the median block is a member of the collection, and an eligible one** -/
theorem median_is_member (p : Bool) (bs : List (Blk × List Nat)) (i : Nat)
    (h : medianIndex p bs = some i) : ∃ b, bs[i]? = some b ∧ b.1.valid = true := by
  unfold medianIndex at h
  simp only [Option.map_eq_some_iff] at h
  obtain ⟨k, hk, rfl⟩ := h
  have hm : k ∈ sortM (medianKeys p bs) := List.mem_of_getElem? hk
  rw [mem_sortM] at hm
  simp only [medianKeys, List.mem_map, List.mem_filter] at hm
  obtain ⟨q, ⟨hq, hv⟩, rfl⟩ := hm
  exact ⟨q.1, List.mem_zipIdx_iff_getElem?.1 hq, hv⟩

/-- a median exists as soon as there is one eligible block -/
theorem median_exists (p : Bool) (bs : List (Blk × List Nat)) (h : medianKeys p bs ≠ []) :
    ∃ i, medianIndex p bs = some i := by
  unfold medianIndex
  have hl : (sortM (medianKeys p bs)).length = (medianKeys p bs).length := by
    rw [sortM_eq]; exact List.length_insertionSort _ _
  have hpos : 0 < (medianKeys p bs).length := List.length_pos_iff.2 h
  have : (sortM (medianKeys p bs)).length / 2 < (sortM (medianKeys p bs)).length := by
    rw [hl]; omega
  simp only [Option.map_eq_some_iff]
  exact ⟨_, _, List.getElem?_eq_getElem this, rfl⟩

/-! ### rank of the median -/

private theorem mle_total (a b : MKey) : a.le b = true ∨ b.le a = true := by
  simp only [MKey.le, Bool.or_eq_true, Bool.and_eq_true, decide_eq_true_eq, beq_iff_eq]
  rcases lt_trichotomy a.v b.v with h | h | h
  · exact Or.inl (Or.inl h)
  · rcases List.le_total a.name b.name with hn | hn
    · exact Or.inl (Or.inr ⟨h, hn⟩)
    · exact Or.inr (Or.inr ⟨h.symm, hn⟩)
  · exact Or.inr (Or.inl h)

private theorem mle_trans (a b c : MKey) (h1 : a.le b = true) (h2 : b.le c = true) : a.le c = true := by
  simp only [MKey.le, Bool.or_eq_true, Bool.and_eq_true, decide_eq_true_eq, beq_iff_eq] at *
  rcases h1 with h1 | ⟨h1, n1⟩ <;> rcases h2 with h2 | ⟨h2, n2⟩
  · exact Or.inl (lt_trans h1 h2)
  · exact Or.inl (h2 ▸ h1)
  · exact Or.inl (h1 ▸ h2)
  · exact Or.inr ⟨h1.trans h2, List.le_trans n1 n2⟩

private instance : Std.Total (fun a b : MKey => a.le b = true) := ⟨mle_total⟩
private instance : IsTrans MKey (fun a b : MKey => a.le b = true) := ⟨mle_trans⟩

private theorem sortM_pairwise (l : List MKey) : (sortM l).Pairwise (fun a b => a.le b = true) := by
  rw [sortM_eq]; exact List.pairwise_insertionSort _ l

private theorem sortM_perm (l : List MKey) : (sortM l).Perm l := by
  rw [sortM_eq]; exact List.perm_insertionSort _ l

/-- **the median block holds rank ⌊n/2⌋ of (burnup × weight, name)**: it is the key of an eligible member,
at least ⌊n/2⌋+1 eligible members are ≤ it and at least n−⌊n/2⌋ are ≥ it (n = number of eligible members). -/
theorem median_rank (p : Bool) (bs : List (Blk × List Nat)) (i : Nat) (h : medianIndex p bs = some i) :
    ∃ m ∈ medianKeys p bs, m.idx = i ∧
      (medianKeys p bs).length / 2 + 1 ≤ ((medianKeys p bs).filter (fun k => k.le m)).length ∧
      (medianKeys p bs).length - (medianKeys p bs).length / 2 ≤ ((medianKeys p bs).filter (fun k => m.le k)).length := by
  unfold medianIndex at h
  simp only [Option.map_eq_some_iff] at h
  obtain ⟨m, hm, rfl⟩ := h
  set keys := medianKeys p bs with hkeys
  set s := sortM keys with hs
  have hperm : s.Perm keys := sortM_perm keys
  have hlen : s.length = keys.length := hperm.length_eq
  have hpw := sortM_pairwise keys
  rw [← hs] at hpw
  obtain ⟨hk, hmk⟩ := List.getElem?_eq_some_iff.1 hm
  have hmem : m ∈ keys := hperm.mem_iff.1 (List.mem_of_getElem? hm)
  have hrefl : m.le m = true := by rcases mle_total m m with h | h <;> exact h
  refine ⟨m, hmem, rfl, ?_, ?_⟩
  · -- the first ⌊n/2⌋+1 entries of the sorted list are ≤ m
    have hall : ∀ x ∈ s.take (s.length / 2 + 1), (fun k : MKey => k.le m) x = true := by
      intro x hx
      obtain ⟨j, hj, rfl⟩ := List.mem_take_iff_getElem.1 hx
      have hj' : j < s.length / 2 + 1 := by omega
      rcases Nat.lt_succ_iff_lt_or_eq.1 hj' with hlt | heq
      · have := List.pairwise_iff_getElem.1 hpw j (s.length / 2) (by omega) hk hlt
        simpa [hmk] using this
      · subst heq; simpa [hmk] using hrefl
    have h1 : ((s.take (s.length / 2 + 1)).filter (fun k => k.le m)).length = s.length / 2 + 1 := by
      rw [List.filter_eq_self.2 hall, List.length_take]; omega
    have h2 := ((List.take_sublist (s.length / 2 + 1) s).filter (fun k => k.le m)).length_le
    have h3 : (s.filter (fun k => k.le m)).length = (keys.filter (fun k => k.le m)).length :=
      (hperm.filter _).length_eq
    omega
  · have hall : ∀ x ∈ s.drop (s.length / 2), (fun k : MKey => m.le k) x = true := by
      intro x hx
      obtain ⟨j, hj, rfl⟩ := List.mem_drop_iff_getElem.1 hx
      rcases Nat.eq_zero_or_pos j with h0 | hpos
      · subst h0; simpa [hmk] using hrefl
      · have := List.pairwise_iff_getElem.1 hpw (s.length / 2) (s.length / 2 + j) hk (by omega) (by omega)
        simpa [hmk] using this
    have h1 : ((s.drop (s.length / 2)).filter (fun k => m.le k)).length = s.length - s.length / 2 := by
      rw [List.filter_eq_self.2 hall, List.length_drop]
    have h2 := ((List.drop_sublist (s.length / 2) s).filter (fun k => m.le k)).length_le
    have h3 : (s.filter (fun k => m.le k)).length = (keys.filter (fun k => m.le k)).length :=
      (hperm.filter _).length_eq
    omega

/-- **convexity of the representative**: with positive member weights every averaged value lies between the
smallest and the largest value among the eligible members. -/
theorem average_between (p : Bool) (n : Nat) (bs : List Blk) (r : List Rat) (h : average p n bs = some r)
    (hv : ∀ b ∈ bs, 0 ≤ b.vol) (hw : ∀ b ∈ bs, 0 ≤ b.wparam) (j : Nat) (hj : j < n) (lo hi : Rat)
    (hx : ∀ b ∈ candidates bs, lo ≤ b.vals.getD j 0 ∧ b.vals.getD j 0 ≤ hi) :
    ∃ x, r[j]? = some x ∧ lo ≤ x ∧ x ≤ hi := by
  obtain ⟨_, hne, rfl⟩ := average_spec p n bs r h
  have hsub : ∀ b ∈ candidates bs, b ∈ bs := fun b hb => (List.mem_filter.1 hb).1
  have hpos : ∀ w ∈ (candidates bs).map (getWeight p), 0 < w := by
    intro w hwm
    obtain ⟨b, hb, rfl⟩ := List.mem_map.1 hwm
    exact getWeight_pos p b (hv b (hsub b hb)) (hw b (hsub b hb))
  have hsum : 0 < rsum ((candidates bs).map (getWeight p)) := by
    cases hc : candidates bs with
    | nil => exact absurd hc hne
    | cons c cs =>
      have h0 : 0 < getWeight p c := hpos _ (by simp [hc])
      have hrest : ∀ l : List Blk, (∀ b ∈ l, 0 < getWeight p b) → 0 ≤ rsum (l.map (getWeight p)) := by
        intro l hl
        induction l with
        | nil => simp [rsum]
        | cons y ys ih =>
          have := ih (fun b hb => hl b (by simp [hb]))
          have hy := hl y (by simp)
          simp only [rsum, List.map_cons, List.foldr_cons] at *
          linarith
      have := hrest cs (fun b hb => hpos _ (List.mem_map.2 ⟨b, by simp [hc, hb], rfl⟩))
      simp only [rsum, List.map_cons, List.foldr_cons] at *
      linarith
  refine ⟨wmean ((candidates bs).map (getWeight p)) (column j (candidates bs)), by simp [hj], ?_⟩
  apply wmean_between_min_max
  · simp [column]
  · intro w hwm; exact le_of_lt (hpos w hwm)
  · exact hsum
  · intro x hxm
    simp only [column, List.mem_map] at hxm
    obtain ⟨b, hb, rfl⟩ := hxm
    exact hx b hb

/-! ## environment groups by burnup and temperature bounds -/

/-- the index is within the number of groups (bounds + the implicit ∞) -/
theorem firstLE_le (x : Rat) (bounds : List Rat) : firstLE x bounds ≤ bounds.length := by
  induction bounds with
  | nil => simp [firstLE]
  | cons b bs ih => simp only [firstLE, List.length_cons]; split <;> omega

/-- characterisation: every bound before the chosen index is below x, and the chosen bound (if any) is ≥ x -/
theorem firstLE_spec (x : Rat) (bounds : List Rat) :
    (∀ j, j < firstLE x bounds → ∃ b, bounds[j]? = some b ∧ b < x) ∧
    (∀ b, bounds[firstLE x bounds]? = some b → x ≤ b) := by
  induction bounds with
  | nil => simp [firstLE]
  | cons b bs ih =>
    simp only [firstLE]
    split
    · rename_i hle
      exact ⟨fun j hj => by omega, fun b' hb' => by simp at hb'; rw [← hb']; exact hle⟩
    · rename_i hnle
      refine ⟨?_, ?_⟩
      · intro j hj
        cases j with
        | zero => exact ⟨b, by simp, lt_of_not_ge hnle⟩
        | succ j =>
          obtain ⟨b', hb', hlt⟩ := ih.1 j (by omega)
          exact ⟨b', by simpa using hb', hlt⟩
      · intro b' hb'
        rw [Nat.add_comm] at hb'
        simp only [List.getElem?_cons_succ] at hb'
        exact ih.2 b' hb'

/-- **a higher burnup (or temperature) never gives a lower group index** — for any list of bounds -/
theorem firstLE_monotone (x y : Rat) (h : x ≤ y) (bounds : List Rat) :
    firstLE x bounds ≤ firstLE y bounds := by
  induction bounds with
  | nil => simp [firstLE]
  | cons b bs ih =>
    simp only [firstLE]
    split <;> split
    · omega
    · omega
    · rename_i h1 h2; exact absurd (le_trans h h2) h1
    · omega

/-- **every block gets exactly one environment group, and it is a valid one**: whenever grouping is active the
group number exists, is below (#burnup groups)·(#temperature groups), and decodes to its two indices. -/
theorem env_group_total (bu : Rat) (bb : List Rat) (ut : Bool) (t : Rat) (tb : List Rat)
    (h : ¬ (bb.length + 1 = 1 ∧ tb.length + 1 = 1)) :
    ∃ n, envGroupNum bu bb ut t tb = some n ∧ n < (bb.length + 1) * (tb.length + 1) ∧
      n % (bb.length + 1) = firstLE bu bb ∧
      n / (bb.length + 1) = (if ut = true ∧ tb.length + 1 > 1 then firstLE t tb else 0) := by
  have hb := firstLE_le bu bb
  have ht := firstLE_le t tb
  unfold envGroupNum
  simp only [h, if_false]
  refine ⟨_, rfl, ?_, ?_, ?_⟩
  · have : (if ut = true ∧ tb.length + 1 > 1 then firstLE t tb else 0) ≤ tb.length := by split <;> omega
    calc _ < (if ut = true ∧ tb.length + 1 > 1 then firstLE t tb else 0) * (bb.length + 1) + (bb.length + 1) := by omega
      _ = ((if ut = true ∧ tb.length + 1 > 1 then firstLE t tb else 0) + 1) * (bb.length + 1) := by ring
      _ ≤ (tb.length + 1) * (bb.length + 1) := Nat.mul_le_mul_right _ (by omega)
      _ = (bb.length + 1) * (tb.length + 1) := by ring
  · rw [Nat.mul_comm, Nat.mul_add_mod]; exact Nat.mod_eq_of_lt (by omega)
  · rw [Nat.mul_comm, Nat.mul_add_div (by omega), Nat.div_eq_of_lt (by omega)]; simp

/-- with a single burnup and a single temperature group the groups are left untouched -/
theorem env_group_single (bu t : Rat) (ut : Bool) : envGroupNum bu [] ut t [] = none := by
  simp [envGroupNum]

/-- **monotone in burnup and in temperature** -/
theorem env_group_monotone (bu1 bu2 t1 t2 : Rat) (bb tb : List Rat) (ut : Bool)
    (hbu : bu1 ≤ bu2) (ht : t1 ≤ t2) (n1 n2 : Nat)
    (h1 : envGroupNum bu1 bb ut t1 tb = some n1) (h2 : envGroupNum bu2 bb ut t2 tb = some n2) : n1 ≤ n2 := by
  unfold envGroupNum at h1 h2
  simp only at h1 h2
  split at h1
  · cases h1
  · simp only [Option.some.injEq] at h1 h2
    rw [if_neg (by assumption)] at h2
    simp only [Option.some.injEq] at h2
    subst h1; subst h2
    have hb := firstLE_monotone bu1 bu2 hbu bb
    have ht' := firstLE_monotone t1 t2 ht tb
    split
    · exact Nat.add_le_add (Nat.mul_le_mul_right _ ht') hb
    · omega

/-- two blocks have the same environment group number exactly when their burnup group and their
temperature group agree -/
theorem env_group_eq_iff (bu1 bu2 t1 t2 : Rat) (bb tb : List Rat) (ut : Bool) (n1 n2 : Nat)
    (h1 : envGroupNum bu1 bb ut t1 tb = some n1) (h2 : envGroupNum bu2 bb ut t2 tb = some n2) :
    n1 = n2 ↔ (firstLE bu1 bb = firstLE bu2 bb ∧
      (if ut = true ∧ tb.length + 1 > 1 then firstLE t1 tb else 0) =
      (if ut = true ∧ tb.length + 1 > 1 then firstLE t2 tb else 0)) := by
  have hs : ¬ (bb.length + 1 = 1 ∧ tb.length + 1 = 1) := by
    intro hh; simp [envGroupNum, hh] at h1
  obtain ⟨m1, e1, _, hm1, hd1⟩ := env_group_total bu1 bb ut t1 tb hs
  obtain ⟨m2, e2, _, hm2, hd2⟩ := env_group_total bu2 bb ut t2 tb hs
  rw [h1] at e1; rw [h2] at e2
  cases e1; cases e2
  constructor
  · intro h; subst h; exact ⟨hm1.symm.trans hm2, hd1.symm.trans hd2⟩
  · rintro ⟨hb, ht⟩
    have := Nat.div_add_mod n1 (bb.length + 1)
    have := Nat.div_add_mod n2 (bb.length + 1)
    rw [hm1, hd1] at *; rw [hm2, hd2] at *
    rw [hb, ht] at *; omega

private theorem envNumToChar_inj : ∀ n1 < 52, ∀ n2 < 52, envNumToChar n1 = envNumToChar n2 → n1 = n2 := by
  decide +kernel

/-- **the grouping clause**: two blocks with one-letter XS types whose environment groups were refreshed
(at most 52 groups) share an XS group — i.e. have the same micro suffix, the key of `groups_partition` —
exactly when XS type, burnup group and temperature group all agree. -/
theorem share_group_iff (x1 x2 : Nat) (bu1 bu2 t1 t2 : Rat) (bb tb : List Rat) (ut : Bool)
    (n1 n2 c1 c2 : Nat)
    (h1 : envGroupNum bu1 bb ut t1 tb = some n1) (h2 : envGroupNum bu2 bb ut t2 tb = some n2)
    (hn1 : n1 < 52) (hn2 : n2 < 52) (hc1 : envNumToChar n1 = some c1) (hc2 : envNumToChar n2 = some c2) :
    microSuffix [x1] [c1] = microSuffix [x2] [c2] ↔
      (x1 = x2 ∧ firstLE bu1 bb = firstLE bu2 bb ∧
        (if ut = true ∧ tb.length + 1 > 1 then firstLE t1 tb else 0) =
        (if ut = true ∧ tb.length + 1 > 1 then firstLE t2 tb else 0)) := by
  rw [suffix_determined, ← env_group_eq_iff bu1 bu2 t1 t2 bb tb ut n1 n2 h1 h2]
  constructor
  · rintro ⟨hx, hc⟩
    refine ⟨hx, envNumToChar_inj n1 hn1 n2 hn2 ?_⟩
    rw [hc1, hc2, hc]
  · rintro ⟨hx, hn⟩
    subst hn
    rw [hc1] at hc2
    exact ⟨hx, Option.some.inj hc2⟩

example : envGroupNum (5/2) [1, 3] true 500 [400, 600] = some 4 := by decide +kernel

end ArmiVerif.XsGroup
